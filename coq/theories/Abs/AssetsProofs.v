(* Proofs about the event-level asset replication model (Assets.v): property C06.

   Part W : the defects, as machine-checked witnesses (findings)
   Part 0-2: channel operations, one-step characterisations, well-formedness
   Part 3 : the single-publisher invariant [Inv] (what holds outside the S7 class)
   Part 4 : drain separation: the counting invariant [Cnt] (no S7 inside a round)
   Part 5 : C06 theorems (first publication, overwrites), stability, traffic
   Part 6 : joins
   Part M : materials *)
From Coq Require Import NArith List Lia.
From stdpp Require Import gmap list.
From BS Require Import Abs.Assets.

Local Open Scope N_scope.

(* ================================================================================================
   Part W: witnesses
   ================================================================================================ *)

(* The literal property: while one peer alone publishes the id (overwrites included), every quiescent
   state shows the last published content on every peer. *)
Definition C06_statement : Prop :=
  forall n p tr s',
    arun (ainit n) tr = Some s' -> only_publisher p tr -> no_joins tr -> aquiescent s' ->
    forall q, peers s' q -> pstore s' q = last (published tr).

Ltac only_pub := unfold only_publisher; vm_compute; repeat constructor.

(* observations of the final state of a concrete run, by computation *)
Lemma arun_obs {B} (f : astate -> B) s0 tr v :
  f <$> arun s0 tr = Some v -> exists s', arun s0 tr = Some s' /\ f s' = v.
Proof. destruct (arun s0 tr) as [s'|]; simpl; intros [= <-]; eauto. Qed.
Lemma mrun_obs {B} (f : mstate -> B) s0 tr v :
  f <$> mrun s0 tr = Some v -> exists s', mrun s0 tr = Some s' /\ f s' = v.
Proof. destruct (mrun s0 tr) as [s'|]; simpl; intros [= <-]; eauto. Qed.
Lemma by_decide (P : Prop) {dec : Decision P} : bool_decide P = true -> P.
Proof. apply bool_decide_eq_true. Qed.

(* S7 + S12.  The host publishes 10 and 20 in quick succession; client 1 applies both downloads before
   its react system runs: two events, one token.  The second event is not swallowed: client 1 SERVES
   the asset and announces itself as owner; the host relays that to client 2.  From now on client 1's
   own cache holds the id, so request() ignores every later announcement: when the host publishes 30,
   client 1 keeps 20 for ever.  Nobody but the host ever published. *)
Definition w_burst : list aevent :=
  [APublish 0 10; AReact 0; APublish 0 20; AReact 0;
   ADeliver 0 1; ADeliver 0 1; ADownload 1; ADownload 1; AReact 1;
   ADeliver 1 0; ADeliver 0 2; ADownload 2; AReact 2; ADeliver 0 2; ADownload 2; AReact 2;
   ADeliver 0 2; ADownload 2; AReact 2;
   APublish 0 30; AReact 0; ADeliver 0 1; ADeliver 0 2; ADownload 2; AReact 2].

Theorem C06_burst_overwrite_refuted :
  exists n p tr s',
    arun (ainit n) tr = Some s' /\ only_publisher p tr /\ no_joins tr /\ aquiescent s' /\
    known_S7 (ainit n) tr = true /\ known_S12 (ainit n) tr = true /\
    last (published tr) = Some 30 /\ pstore s' p = Some 30 /\ pstore s' 2 = Some 30 /\
    pstore s' 1 = Some 20 /\ pserved s' 1 = Some 20 /\ 1 ∈ aconn s'.
Proof.
  exists 2%nat, 0, w_burst.
  destruct (arun_obs (fun s => (aquiescentb s, pstore s 0, pstore s 2, pstore s 1, pserved s 1, bool_decide (1 ∈ aconn s)))
              (ainit 2) w_burst (true, Some 30, Some 30, Some 20, Some 20, true)) as (s' & Hrun & Hobs); [vm_compute; reflexivity|].
  injection Hobs as Hq H0 H2 H1 Hs1 Hin. apply bool_decide_eq_true in Hq, Hin.
  exists s'. split; [exact Hrun|]. split; [only_pub|]. split; [reflexivity|]. split; [exact Hq|].
  split; [vm_compute; reflexivity|]. split; [vm_compute; reflexivity|]. split; [reflexivity|]. auto 10.
Qed.

Theorem C06_refuted : ~ C06_statement.
Proof.
  intros H. destruct C06_burst_overwrite_refuted as (n & p & tr & s' & Hrun & Hop & Hnj & Hq & _ & _ & Hl & _ & _ & H1 & _ & Hin).
  specialize (H n p tr s' Hrun Hop Hnj Hq 1 (or_intror Hin)). rewrite H1, Hl in H. discriminate.
Qed.

(* S12 alone.  Drain separation does not help when the publisher changes: client 1 publishes 10
   (and therefore serves the id); everything drains; client 2 publishes 20; the host fetches it, client 1
   ignores the relayed announcement.  No S7 anywhere in the run. *)
Definition w_other_publisher : list aevent :=
  [APublish 1 10; AReact 1; ADeliver 1 0; ADownload 0; ADeliver 0 2; AReact 0; ADownload 2; AReact 2;
   APublish 2 20; AReact 2; ADeliver 2 0; ADownload 0; AReact 0; ADeliver 0 1].

Theorem C06_republish_by_other_peer_refuted :
  exists n tr s',
    arun (ainit n) tr = Some s' /\ no_joins tr /\ ops_at_quiescence (ainit n) tr = true /\ aquiescent s' /\
    known_S7 (ainit n) tr = false /\ known_S12 (ainit n) tr = true /\
    published tr = [10; 20] /\ pstore s' 0 = Some 20 /\ pstore s' 2 = Some 20 /\
    pstore s' 1 = Some 10 /\ 1 ∈ aconn s'.
Proof.
  exists 2%nat, w_other_publisher.
  destruct (arun_obs (fun s => (aquiescentb s, pstore s 0, pstore s 2, pstore s 1, bool_decide (1 ∈ aconn s)))
              (ainit 2) w_other_publisher (true, Some 20, Some 20, Some 10, true)) as (s' & Hrun & Hobs); [vm_compute; reflexivity|].
  injection Hobs as Hq H0 H2 H1 Hin. apply bool_decide_eq_true in Hq, Hin.
  exists s'. split; [exact Hrun|]. split; [reflexivity|]. split; [vm_compute; reflexivity|]. split; [exact Hq|].
  split; [vm_compute; reflexivity|]. split; [vm_compute; reflexivity|]. split; [reflexivity|]. auto 10.
Qed.

(* S12 by the client's local build_full_sync.  A client that connects while it already holds the id
   (e.g. the same file loaded under the same uuid) serves it at once: the host's announcement in the
   snapshot is ignored, the joiner keeps its own content. *)
Definition w_preloaded : list aevent :=
  [APublish 0 10; AReact 0; ADeliver 0 1; ADownload 1; AReact 1; AJoin 2 (Some 5); ADeliver 0 2].

Theorem join_preloaded_refuted :
  exists n tr c s',
    arun (ainit n) tr = Some s' /\ only_publisher 0 tr /\ ops_at_quiescence (ainit n) tr = true /\
    aquiescent s' /\ known_S7 (ainit n) tr = false /\ known_S12 (ainit n) tr = true /\
    c ∈ aconn s' /\ pstore s' 0 = Some 10 /\ pstore s' c = Some 5.
Proof.
  exists 1%nat, w_preloaded, 2.
  destruct (arun_obs (fun s => (aquiescentb s, pstore s 0, pstore s 2, bool_decide (2 ∈ aconn s)))
              (ainit 1) w_preloaded (true, Some 10, Some 5, true)) as (s' & Hrun & Hobs); [vm_compute; reflexivity|].
  injection Hobs as Hq H0 H2 Hin. apply bool_decide_eq_true in Hq, Hin.
  exists s'. split; [exact Hrun|]. split; [only_pub|]. split; [vm_compute; reflexivity|]. split; [exact Hq|].
  split; [vm_compute; reflexivity|]. split; [vm_compute; reflexivity|]. auto.
Qed.

(* S12 by the host's build_full_sync.  Client 1 is the only publisher, everything is drain separated.
   Client 2 joins (fresh): the host serves its copy for the snapshot.  From then on the host ignores
   client 1's overwrites (it still relays them: clients 1 and 2 hold 20, the host keeps 10), and a later
   joiner is given the host's stale copy. *)
Definition w_host_stale : list aevent :=
  [APublish 1 10; AReact 1; ADeliver 1 0; ADownload 0; AReact 0;
   AJoin 2 None; ADeliver 0 2; ADownload 2; AReact 2;
   APublish 1 20; AReact 1; ADeliver 1 0; ADeliver 0 2; ADownload 2; AReact 2;
   AJoin 3 None; ADeliver 0 3; ADownload 3; AReact 3].

Theorem C06_host_stale_after_join_refuted :
  exists n tr s',
    arun (ainit n) tr = Some s' /\ only_publisher 1 tr /\ fresh_joins tr /\
    ops_at_quiescence (ainit n) tr = true /\ aquiescent s' /\
    known_S7 (ainit n) tr = false /\ known_S12 (ainit n) tr = true /\
    last (published tr) = Some 20 /\
    pstore s' 0 = Some 10 /\ pstore s' 1 = Some 20 /\ pstore s' 2 = Some 20 /\ pstore s' 3 = Some 10.
Proof.
  exists 1%nat, w_host_stale.
  destruct (arun_obs (fun s => (aquiescentb s, pstore s 0, pstore s 1, pstore s 2, pstore s 3))
              (ainit 1) w_host_stale (true, Some 10, Some 20, Some 20, Some 10)) as (s' & Hrun & Hobs); [vm_compute; reflexivity|].
  injection Hobs as Hq H0 H1 H2 H3. apply bool_decide_eq_true in Hq.
  exists s'. split; [exact Hrun|]. split; [only_pub|].
  split; [unfold fresh_joins; vm_compute; repeat constructor|]. split; [vm_compute; reflexivity|]. split; [exact Hq|].
  split; [vm_compute; reflexivity|]. split; [vm_compute; reflexivity|]. split; [reflexivity|]. auto.
Qed.

(* A join while the host is still downloading.  Client 1 publishes ONCE; the host has relayed the
   announcement and started its download when client 2 joins: the snapshot is built from Assets<T>, which
   does not hold the id yet; the completed download is swallowed by its token.  Client 2 never hears of
   the id.  Neither S7 nor S12 is involved. *)
Definition w_join_window : list aevent :=
  [APublish 1 10; AReact 1; ADeliver 1 0; AJoin 2 None; ADownload 0; AReact 0].

Theorem join_during_download_refuted :
  exists n tr c s',
    arun (ainit n) tr = Some s' /\ published tr = [10] /\ fresh_joins tr /\ aquiescent s' /\
    known_S7 (ainit n) tr = false /\ known_S12 (ainit n) tr = false /\ known_join_window (ainit n) tr = true /\
    c ∈ aconn s' /\ pstore s' 0 = Some 10 /\ pstore s' c = None.
Proof.
  exists 1%nat, w_join_window, 2.
  destruct (arun_obs (fun s => (aquiescentb s, pstore s 0, pstore s 2, bool_decide (2 ∈ aconn s)))
              (ainit 1) w_join_window (true, Some 10, None, true)) as (s' & Hrun & Hobs); [vm_compute; reflexivity|].
  injection Hobs as Hq H0 H2 Hin. apply bool_decide_eq_true in Hq, Hin.
  exists s'. split; [exact Hrun|]. split; [reflexivity|].
  split; [unfold fresh_joins; vm_compute; repeat constructor|]. split; [exact Hq|].
  split; [vm_compute; reflexivity|]. split; [vm_compute; reflexivity|]. split; [vm_compute; reflexivity|]. auto.
Qed.

(* S7 without a burst: the host publishes once, a client joins between the insert and the host's react
   run: it is told twice (snapshot + broadcast), applies both downloads before reacting, serves the id,
   and misses the next overwrite. *)
Definition w_join_react : list aevent :=
  [APublish 0 10; AJoin 1 None; AReact 0; ADeliver 0 1; ADeliver 0 1; ADownload 1; ADownload 1; AReact 1;
   ADeliver 1 0; APublish 0 20; AReact 0; ADeliver 0 1].

Theorem join_before_react_refuted :
  exists tr s',
    arun (ainit 0) tr = Some s' /\ only_publisher 0 tr /\ fresh_joins tr /\ aquiescent s' /\
    known_S7 (ainit 0) tr = true /\ published tr = [10; 20] /\ pstore s' 0 = Some 20 /\ pstore s' 1 = Some 10.
Proof.
  exists w_join_react.
  destruct (arun_obs (fun s => (aquiescentb s, pstore s 0, pstore s 1))
              (ainit 0) w_join_react (true, Some 20, Some 10)) as (s' & Hrun & Hobs); [vm_compute; reflexivity|].
  injection Hobs as Hq H0 H1. apply bool_decide_eq_true in Hq.
  exists s'. split; [exact Hrun|]. split; [only_pub|].
  split; [unfold fresh_joins; vm_compute; repeat constructor|]. split; [exact Hq|].
  split; [vm_compute; reflexivity|]. auto.
Qed.

(* ---------- materials --------------------------------------------------------------------------- *)

Definition M06_statement : Prop :=
  forall n p tr s',
    mrun (minit n) tr = Some s' -> monly_publisher p tr -> mquiescent s' ->
    forall q, mpeers s' q -> mpstore s' q = last (mpublished tr).

(* S7 for materials, as observed on the real code: the host writes 20 and 30 while the clients do not
   step; each client applies both updates before its react system runs: the second event is not swallowed
   and sends the CURRENT content (30) back to the host.  Meanwhile the host has written 40.  The echo
   30 is applied on the host (token), the host's own event for 40 is swallowed by that token, the next
   event announces 30 to everybody: the newest write is overwritten everywhere by an older one. *)
Definition w_material : list mevent :=
  [MPublish 0 20; MReact 0; MPublish 0 30; MReact 0;
   MDeliver 0 1; MDeliver 0 1; MDeliver 0 2; MDeliver 0 2; MReact 1; MReact 2;
   MPublish 0 40; MDeliver 1 0; MDeliver 2 0; MReact 0;
   MDeliver 0 1; MReact 1; MDeliver 0 1; MReact 1; MDeliver 0 1; MReact 1;
   MDeliver 0 2; MReact 2; MDeliver 0 2; MReact 2; MDeliver 0 2; MReact 2].

Theorem M06_older_overwrites_newer_refuted :
  exists n tr s',
    mrun (minit n) tr = Some s' /\ monly_publisher 0 tr /\ mquiescent s' /\ mknown_S7 (minit n) tr = true /\
    mpublished tr = [20; 30; 40] /\ mpstore s' 0 = Some 30 /\ mpstore s' 1 = Some 30 /\ mpstore s' 2 = Some 30.
Proof.
  exists 2%nat, w_material.
  destruct (mrun_obs (fun s => (mquiescentb s, mpstore s 0, mpstore s 1, mpstore s 2))
              (minit 2) w_material (true, Some 30, Some 30, Some 30)) as (s' & Hrun & Hobs); [vm_compute; reflexivity|].
  injection Hobs as Hq H0 H1 H2. apply bool_decide_eq_true in Hq.
  exists s'. split; [exact Hrun|]. split; [unfold monly_publisher; vm_compute; repeat constructor|].
  split; [exact Hq|]. split; [vm_compute; reflexivity|]. auto.
Qed.

Theorem M06_refuted : ~ M06_statement.
Proof.
  intros H. destruct M06_older_overwrites_newer_refuted as (n & tr & s' & Hrun & Hop & Hq & _ & Hp & Hs & _).
  specialize (H n 0 tr s' Hrun Hop Hq 0 (or_introl eq_refl)). rewrite Hp, Hs in H. discriminate.
Qed.

(* The echo need not die out.  After two publications of the host applied together by both clients there
   is a CYCLE: the two echoes reach the host, which relays each to the other client and -- two events,
   one token -- broadcasts once; each client receives two messages, applies both before reacting, and
   echoes again.  Six messages per turn, for ever, with no further publication and the same content
   everywhere: the traffic caused by two publications is unbounded. *)
Global Instance mpeer_eq_dec : EqDecision mpeer.
Proof. solve_decision. Defined.
Global Instance mstate_eq_dec : EqDecision mstate.
Proof. solve_decision. Defined.

Definition w_echo_pre : list mevent :=
  [MPublish 0 20; MReact 0; MPublish 0 30; MReact 0;
   MDeliver 0 1; MDeliver 0 1; MDeliver 0 2; MDeliver 0 2; MReact 1; MReact 2].
Definition w_echo_loop : list mevent :=
  [MDeliver 1 0; MDeliver 2 0; MReact 0; MDeliver 0 1; MDeliver 0 1; MDeliver 0 2; MDeliver 0 2; MReact 1; MReact 2].
Definition s_echo : mstate :=
  MState (list_to_map [(0, MPeer (Some 30) 0 false); (1, MPeer (Some 30) 0 false); (2, MPeer (Some 30) 0 false)])
         [1; 2] (list_to_map [((0, 1), []); ((0, 2), []); ((1, 0), [30]); ((2, 0), [30])]).

Theorem material_echo_cycle :
  exists n pre loop s,
    mrun (minit n) pre = Some s /\ monly_publisher 0 pre /\ length (mpublished pre) = 2%nat /\
    Forall mplain loop /\ mrun s loop = Some s /\ mtotal_sent s loop = 6%nat.
Proof.
  exists 2%nat, w_echo_pre, w_echo_loop, s_echo.
  split; [apply (by_decide _ (dec := decide _)); vm_compute; reflexivity|].
  split; [unfold monly_publisher; vm_compute; repeat constructor|]. split; [reflexivity|].
  split; [repeat constructor|].
  split; [apply (by_decide _ (dec := decide _)); vm_compute; reflexivity|vm_compute; reflexivity].
Qed.

(* ================================================================================================
   Part 0: channel operations
   ================================================================================================ *)

Lemma lget_insert {A} (L : gmap (peer * peer) (list A)) a b l a' b' :
  lget (<[(a, b) := l]> L) a' b' = if decide ((a', b') = (a, b)) then l else lget L a' b'.
Proof.
  unfold lget. destruct (decide ((a', b') = (a, b))) as [Heq|Hne].
  - rewrite Heq, lookup_insert. reflexivity.
  - rewrite lookup_insert_ne by congruence. reflexivity.
Qed.

Lemma lget_push_link {A} (L : gmap (peer * peer) (list A)) a b vs a' b' :
  lget (push_link L a b vs) a' b' = if decide ((a', b') = (a, b)) then lget L a b ++ vs else lget L a' b'.
Proof. unfold push_link. apply lget_insert. Qed.

Lemma lget_send_to {A} (L : gmap (peer * peer) (list A)) src dsts vs a b :
  NoDup dsts ->
  lget (send_to L src dsts vs) a b = if decide (a = src /\ b ∈ dsts) then lget L a b ++ vs else lget L a b.
Proof.
  intros Hnd. induction Hnd as [|d dsts Hnotin Hnd IH]; simpl.
  - destruct (decide (a = src /\ b ∈ [])) as [[_ Hin]|_]; [inversion Hin|reflexivity].
  - rewrite lget_push_link. destruct (decide ((a, b) = (src, d))) as [Heq|Hne].
    + inversion Heq; subst. rewrite IH.
      destruct (decide (src = src /\ d ∈ dsts)) as [[_ Hin]|_]; [contradiction|].
      destruct (decide (src = src /\ d ∈ d :: dsts)) as [_|Hn]; [reflexivity|].
      exfalso. apply Hn. split; [reflexivity|left].
    + rewrite IH. destruct (decide (a = src /\ b ∈ dsts)) as [[-> Hin]|Hn].
      * destruct (decide (src = src /\ b ∈ d :: dsts)) as [_|Hn2]; [reflexivity|].
        exfalso. apply Hn2. split; [reflexivity|right; exact Hin].
      * destruct (decide (a = src /\ b ∈ d :: dsts)) as [[-> Hin]|_]; [|reflexivity].
        exfalso. apply elem_of_cons in Hin as [->|Hin]; [apply Hne; reflexivity|apply Hn; auto].
Qed.

Lemma NoDup_others src l : NoDup l -> NoDup (others src l).
Proof. intros H. unfold others. apply NoDup_filter. exact H. Qed.

Lemma elem_of_others src l c : c ∈ others src l <-> c <> src /\ c ∈ l.
Proof. unfold others. rewrite elem_of_list_filter. reflexivity. Qed.

Lemma elem_of_clients n p : p ∈ clients n <-> (1 <= p <= N.of_nat n).
Proof.
  unfold clients. rewrite elem_of_list_fmap. split.
  - intros (k & -> & Hk). apply elem_of_seq in Hk. lia.
  - intros H. exists (N.to_nat p). split; [lia|]. apply elem_of_seq. lia.
Qed.

Lemma NoDup_clients n : NoDup (clients n).
Proof. unfold clients. apply NoDup_fmap_2; [intros a b; lia|apply NoDup_seq]. Qed.

Lemma length_clients n : length (clients n) = n.
Proof. unfold clients. rewrite fmap_length, seq_length. reflexivity. Qed.

(* ================================================================================================
   Part 1: getters after one step (URL-class asset)
   ================================================================================================ *)

Lemma getp_insert m c l p x : getp (AState (<[p := x]> m) c l) p = x.
Proof. unfold getp. simpl. rewrite lookup_insert. reflexivity. Qed.
Lemma getp_insert_ne m c l c' l' p q x :
  q <> p -> getp (AState (<[p := x]> m) c l) q = getp (AState m c' l') q.
Proof. intros H. unfold getp. simpl. rewrite lookup_insert_ne by congruence. reflexivity. Qed.
Lemma getp_exists s p x : ap s !! p = Some x -> getp s p = x.
Proof. intros H. unfold getp. rewrite H. reflexivity. Qed.
Lemma getp_none s p : ap s !! p = None -> getp s p = apeer0.
Proof. intros H. unfold getp. rewrite H. reflexivity. Qed.

Lemma exists_insert (m : gmap peer apeer) p x y q :
  m !! p = Some y -> is_Some (<[p := x]> m !! q) <-> is_Some (m !! q).
Proof.
  intros Hy. destruct (decide (q = p)) as [->|Hne].
  - rewrite lookup_insert, Hy. split; eauto.
  - rewrite lookup_insert_ne by congruence. reflexivity.
Qed.

(* APublish *)
Lemma step_publish s p c s' :
  astep s (APublish p c) = Some s' ->
  is_Some (ap s !! p) /\ aconn s' = aconn s /\ alinks s' = alinks s /\
  (forall q, is_Some (ap s' !! q) <-> is_Some (ap s !! q)) /\
  getp s' p = APeer (Some c) (S (pevents s p)) (ptok s p) (pserved s p) (ppending s p) /\
  (forall q, q <> p -> getp s' q = getp s q).
Proof.
  simpl. destruct (ap s !! p) as [x|] eqn:Hx; [|discriminate]. intros [= <-].
  unfold pevents, ptok, pserved, ppending. rewrite (getp_exists _ _ _ Hx).
  split; [eauto|]. split; [reflexivity|]. split; [reflexivity|]. split; [|split].
  - intros q. simpl. eapply exists_insert; eauto.
  - apply getp_insert.
  - intros q Hne. unfold set_peer. destruct s; simpl. apply getp_insert_ne. exact Hne.
Qed.

(* AReact1 *)
Lemma react1_cases x :
  (events x = 0%nat /\ react1_peer x = (x, false)) \/
  (exists k, events x = S k /\ store x = None /\
             react1_peer x = (APeer None k (tok x) (served x) (pending x), false)) \/
  (exists k c, events x = S k /\ store x = Some c /\ tok x = true /\
               react1_peer x = (APeer (Some c) k false (served x) (pending x), false)) \/
  (exists k c, events x = S k /\ store x = Some c /\ tok x = false /\
               react1_peer x = (APeer (Some c) k false (Some c) (pending x), true)).
Proof.
  unfold react1_peer. destruct (events x) as [|k]; [left; auto|]. right.
  destruct (store x) as [c|]; [|left; eauto]. right.
  destruct (tok x); [left|right]; eauto 10.
Qed.

Lemma step_react1 s p s' :
  NoDup (aconn s) ->
  astep s (AReact1 p) = Some s' ->
  is_Some (ap s !! p) /\ aconn s' = aconn s /\
  (forall q, is_Some (ap s' !! q) <-> is_Some (ap s !! q)) /\
  getp s' p = (react1_peer (getp s p)).1 /\
  (forall q, q <> p -> getp s' q = getp s q) /\
  (forall a b, link s' a b =
     if decide ((react1_peer (getp s p)).2 = true /\ a = p /\ b ∈ dsts_of s p) then link s a b ++ [p] else link s a b).
Proof.
  intros Hnd. simpl. unfold areact1. destruct (ap s !! p) as [x|] eqn:Hx; [|discriminate].
  rewrite (getp_exists _ _ _ Hx). destruct (react1_peer x) as [x' ann] eqn:Hr. intros [= <-].
  split; [eauto|]. split; [reflexivity|]. split; [|split; [|split]].
  - intros q. simpl. eapply exists_insert; eauto.
  - apply getp_insert.
  - intros q Hne. destruct s; simpl. apply getp_insert_ne. exact Hne.
  - intros a b. unfold link. simpl. destruct ann.
    + rewrite lget_send_to.
      * destruct (decide (a = p /\ b ∈ dsts_of s p)) as [Hy|Hn].
        -- destruct (decide (true = true /\ a = p /\ b ∈ dsts_of s p)) as [_|Hn]; [reflexivity|tauto].
        -- destruct (decide (true = true /\ a = p /\ b ∈ dsts_of s p)) as [[_ Hy]|_]; [tauto|reflexivity].
      * unfold dsts_of. destruct (p =? host)%N; [exact Hnd|apply NoDup_singleton].
    + destruct (decide (false = true /\ _)) as [[Hf _]|_]; [discriminate|reflexivity].
Qed.

(* AReact = [events] times AReact1 *)
Lemma areact_n_run k s p : areact_n k s p = arun s (replicate k (AReact1 p)).
Proof. revert s. induction k as [|k IH]; intros s; simpl; [reflexivity|]. destruct (areact1 s p); auto. Qed.

Lemma step_react_runs s p s' :
  astep s (AReact p) = Some s' -> arun s (replicate (pevents s p) (AReact1 p)) = Some s'.
Proof.
  simpl. destruct (ap s !! p) as [x|] eqn:Hx; [|discriminate]. unfold pevents. rewrite (getp_exists _ _ _ Hx).
  rewrite areact_n_run. auto.
Qed.

Lemma react1s_ind (P : astate -> Prop) p :
  (forall s s', P s -> astep s (AReact1 p) = Some s' -> P s') ->
  forall k s s', P s -> arun s (replicate k (AReact1 p)) = Some s' -> P s'.
Proof.
  intros Hstep. induction k as [|k IH]; intros s s' HP Hrun; simpl in Hrun.
  - inversion Hrun; subst. exact HP.
  - destruct (areact1 s p) as [s1|] eqn:H1; [|discriminate]. eapply IH; [|exact Hrun]. eapply Hstep; eauto.
Qed.

(* ADeliver *)
Definition request_peer (x : apeer) (o : peer) : apeer :=
  match served x with
  | Some _ => x
  | None => APeer (store x) (events x) (tok x) (served x) (pending x ++ [o])
  end.

Lemma step_deliver s src dst s' :
  NoDup (aconn s) ->
  astep s (ADeliver src dst) = Some s' ->
  exists o rest, link s src dst = o :: rest /\ is_Some (ap s !! dst) /\ aconn s' = aconn s /\
  (forall q, is_Some (ap s' !! q) <-> is_Some (ap s !! q)) /\
  getp s' dst = request_peer (getp s dst) o /\
  (forall q, q <> dst -> getp s' q = getp s q) /\
  (forall a b, link s' a b =
     (if decide ((a, b) = (src, dst)) then rest else link s a b) ++
     (if decide (dst = host /\ a = host /\ b ∈ others src (aconn s)) then [o] else [])).
Proof.
  intros Hnd. simpl. destruct (link s src dst) as [|o rest] eqn:Hl; [discriminate|].
  destruct (ap s !! dst) as [x|] eqn:Hx; [|discriminate]. intros [= <-]. exists o, rest.
  rewrite (getp_exists _ _ _ Hx).
  split; [reflexivity|]. split; [eauto|]. split; [reflexivity|]. split; [|split; [|split]].
  - intros q. simpl. eapply exists_insert; eauto.
  - apply getp_insert.
  - intros q Hne. destruct s; simpl. apply getp_insert_ne. exact Hne.
  - intros a b. unfold link. simpl. destruct (dst =? host)%N eqn:Hd.
    + apply N.eqb_eq in Hd. subst dst. rewrite lget_send_to by (apply NoDup_others; exact Hnd).
      rewrite lget_insert.
      destruct (decide (a = host /\ b ∈ others src (aconn s))) as [[-> Hin]|Hn].
      * destruct (decide (host = host /\ host = host /\ b ∈ others src (aconn s))) as [_|Hn]; [reflexivity|tauto].
      * destruct (decide (host = host /\ a = host /\ b ∈ others src (aconn s))) as [[_ Hy]|_]; [tauto|].
        rewrite app_nil_r. reflexivity.
    + apply N.eqb_neq in Hd. rewrite lget_insert.
      destruct (decide (dst = host /\ _)) as [[Hy _]|_]; [contradiction|]. rewrite app_nil_r. reflexivity.
Qed.

(* ADownload *)
Definition download_peer (x : apeer) (got : option content) : apeer :=
  match got with
  | None => APeer (store x) (events x) (tok x) (served x) (tail (pending x))
  | Some c => APeer (Some c) (S (events x)) true (served x) (tail (pending x))
  end.

Lemma step_download s p s' :
  astep s (ADownload p) = Some s' ->
  exists o rest, ppending s p = o :: rest /\ is_Some (ap s !! p) /\ aconn s' = aconn s /\ alinks s' = alinks s /\
  (forall q, is_Some (ap s' !! q) <-> is_Some (ap s !! q)) /\
  getp s' p = download_peer (getp s p) (pserved s o) /\
  (forall q, q <> p -> getp s' q = getp s q).
Proof.
  simpl. destruct (ap s !! p) as [x|] eqn:Hx; [|discriminate].
  unfold ppending. rewrite (getp_exists _ _ _ Hx).
  destruct (pending x) as [|o rest] eqn:Hp; [discriminate|]. intros Hstep. exists o, rest.
  split; [reflexivity|]. split; [eauto|].
  assert (Hs' : s' = set_peer s p (download_peer x (pserved s o))).
  { unfold download_peer. rewrite Hp. simpl. destruct (pserved s o); congruence. }
  subst s'. split; [reflexivity|]. split; [reflexivity|]. split; [|split].
  - intros q. simpl. eapply exists_insert; eauto.
  - apply getp_insert.
  - intros q Hne. unfold set_peer. destruct s; simpl. apply getp_insert_ne. exact Hne.
Qed.

(* AJoin *)
Definition snapshot (s : astate) : list peer := match pstore s host with Some _ => [host] | None => [] end.

Lemma step_join s c pre s' :
  astep s (AJoin c pre) = Some s' ->
  c <> host /\ c ∉ aconn s /\ ap s !! c = None /\ aconn s' = aconn s ++ [c] /\
  (forall q, is_Some (ap s' !! q) <-> is_Some (ap s !! q) \/ q = c \/ q = host) /\
  getp s' c = APeer pre 0 false pre [] /\
  getp s' host = serve_store (getp s host) /\
  (forall q, q <> c -> q <> host -> getp s' q = getp s q) /\
  (forall a b, link s' a b = if decide ((a, b) = (host, c)) then link s host c ++ snapshot s else link s a b).
Proof.
  simpl. destruct (c =? host)%N eqn:Hc; [discriminate|]. apply N.eqb_neq in Hc.
  destruct (bool_decide (c ∈ aconn s)) eqn:Hin; [discriminate|]. apply bool_decide_eq_false in Hin.
  unfold pexists. destruct (bool_decide (is_Some (ap s !! c))) eqn:Hex; [discriminate|].
  apply bool_decide_eq_false in Hex. simpl. intros [= <-].
  assert (Hnone : ap s !! c = None) by (destruct (ap s !! c); [exfalso; eauto|reflexivity]).
  split; [exact Hc|]. split; [exact Hin|]. split; [exact Hnone|]. split; [reflexivity|].
  split; [|split; [|split; [|split]]].
  - intros q. simpl. destruct (decide (q = c)) as [->|Hne].
    + rewrite lookup_insert. split; eauto.
    + rewrite lookup_insert_ne by congruence. destruct (decide (q = host)) as [->|Hnh].
      * rewrite lookup_insert. split; eauto.
      * rewrite lookup_insert_ne by congruence. split; [auto|]. intros [H|[H|H]]; [exact H|contradiction|contradiction].
  - apply getp_insert.
  - unfold getp at 1. simpl. rewrite lookup_insert_ne by congruence. rewrite lookup_insert. reflexivity.
  - intros q Hqc Hqh. unfold getp. simpl. rewrite !lookup_insert_ne by congruence. reflexivity.
  - intros a b. unfold link, snapshot, pstore. simpl. destruct (store (getp s host)) as [v|].
    + apply lget_push_link.
    + destruct (decide _) as [Heq|_]; [|reflexivity]. inversion Heq; subst. rewrite app_nil_r. reflexivity.
Qed.

(* ================================================================================================
   Part 2: well-formedness
   ================================================================================================ *)

Lemma wf_nodup s : awf s -> NoDup (aconn s).
Proof. intros (H & _). exact H. Qed.
Lemma wf_host s : awf s -> host ∉ aconn s.
Proof. intros (_ & H & _). exact H. Qed.
Lemma wf_exists s p : awf s -> is_Some (ap s !! p) <-> peers s p.
Proof. intros (_ & _ & H & _). apply H. Qed.
Lemma wf_link s a b : awf s -> link s a b <> [] -> (a = host /\ b ∈ aconn s) \/ (b = host /\ a ∈ aconn s).
Proof. intros (_ & _ & _ & H). apply H. Qed.
Lemma wf_link_nil s a b : awf s -> a ∉ aconn s -> b ∉ aconn s -> link s a b = [].
Proof.
  intros Hwf Ha Hb. destruct (link s a b) eqn:Hl; [reflexivity|].
  destruct (wf_link s a b Hwf) as [[_ H]|[_ H]]; [rewrite Hl; discriminate|contradiction|contradiction].
Qed.
Lemma wf_link_hh s : awf s -> link s host host = [].
Proof. intros Hwf. apply wf_link_nil; [exact Hwf| |]; apply wf_host, Hwf. Qed.

Lemma step_wf_plain1 s e s' :
  match e with AReact _ => False | _ => True end ->
  awf s -> astep s e = Some s' -> awf s'.
Proof.
  intros He Hwf Hstep. pose proof Hwf as (Hnd & Hh & Hex & Hlk). destruct e as [p v|p|p|src dst|p|c pre]; [|contradiction| | | |].
  - apply step_publish in Hstep as (_ & Hc & Hl & He' & _).
    unfold awf, link, peers. rewrite Hc, Hl. repeat split; try assumption.
    + intros H. apply Hex, He', H. + intros H. apply He', Hex, H.
  - apply step_react1 in Hstep as (Hp & Hc & He' & _ & _ & Hl); [|exact Hnd].
    unfold awf, peers. rewrite Hc. repeat split; try assumption.
    + intros H. apply Hex, He', H. + intros H. apply He', Hex, H.
    + intros a b. rewrite Hl. destruct (decide (_ /\ a = p /\ b ∈ dsts_of s p)) as [(_ & -> & Hin)|_]; [|apply Hlk].
      intros _. unfold dsts_of in Hin. destruct (p =? host)%N eqn:Hph.
      * apply N.eqb_eq in Hph. left. auto.
      * apply N.eqb_neq in Hph. apply elem_of_list_singleton in Hin. right. split; [exact Hin|].
        apply Hex in Hp as [Hp|Hp]; [contradiction|exact Hp].
  - apply step_deliver in Hstep as (o & rest & Hl0 & Hd & Hc & He' & _ & _ & Hl); [|exact Hnd].
    unfold awf, peers. rewrite Hc. repeat split; try assumption.
    + intros H. apply Hex, He', H. + intros H. apply He', Hex, H.
    + intros a b. rewrite Hl.
      destruct (decide (dst = host /\ a = host /\ b ∈ others src (aconn s))) as [(_ & -> & Hin)|_].
      * intros _. left. split; [reflexivity|]. apply elem_of_others in Hin. tauto.
      * rewrite app_nil_r. destruct (decide ((a, b) = (src, dst))) as [Heq|_]; [|apply Hlk].
        inversion Heq; subst. intros _. apply Hlk. rewrite Hl0. discriminate.
  - apply step_download in Hstep as (o & rest & _ & _ & Hc & Hl & He' & _).
    unfold awf, link, peers. rewrite Hc, Hl. repeat split; try assumption.
    + intros H. apply Hex, He', H. + intros H. apply He', Hex, H.
  - apply step_join in Hstep as (Hc0 & Hcn & Hnone & Hc & He' & _ & _ & _ & Hl).
    unfold awf, peers. rewrite Hc. split; [|split; [|split]].
    + apply NoDup_app. split; [exact Hnd|]. split; [|apply NoDup_singleton].
      intros x Hx Hx'. apply elem_of_list_singleton in Hx'. subst. contradiction.
    + intros H. apply elem_of_app in H as [H|H]; [contradiction|]. apply elem_of_list_singleton in H. congruence.
    + intros q. rewrite He', Hex. unfold peers. rewrite elem_of_app, elem_of_list_singleton. tauto.
    + intros a b. rewrite Hl. rewrite elem_of_app, elem_of_app, !elem_of_list_singleton.
      destruct (decide ((a, b) = (host, c))) as [Heq|_].
      * inversion Heq; subst. intros _. left. auto.
      * intros H. apply Hlk in H. tauto.
Qed.

Lemma step_wf s e s' : awf s -> astep s e = Some s' -> awf s'.
Proof.
  intros Hwf Hstep. destruct e as [p v|p|p|src dst|p|c pre]; try (eapply step_wf_plain1; [|exact Hwf|exact Hstep]; exact I).
  apply step_react_runs in Hstep. eapply (react1s_ind awf p); [|exact Hwf|exact Hstep].
  intros s1 s2 H1 H2. eapply step_wf_plain1; [|exact H1|exact H2]. exact I.
Qed.

Lemma run_wf s tr s' : awf s -> arun s tr = Some s' -> awf s'.
Proof.
  revert s. induction tr as [|e tr IH]; intros s Hwf Hrun; simpl in Hrun.
  - congruence.
  - destruct (astep s e) as [s1|] eqn:Hs; [|discriminate]. eapply IH; [|exact Hrun]. eapply step_wf; eauto.
Qed.

Lemma ainit_getp n p : getp (ainit n) p = apeer0.
Proof.
  unfold getp. destruct (ap (ainit n) !! p) as [x|] eqn:Hx; [|reflexivity]. simpl.
  unfold ainit in Hx; cbn [ap] in Hx. apply elem_of_list_to_map_2 in Hx. apply elem_of_list_fmap in Hx as (q & Heq & _). congruence.
Qed.

Lemma ainit_link n a b : link (ainit n) a b = [].
Proof. reflexivity. Qed.

Lemma ainit_wf n : awf (ainit n).
Proof.
  unfold awf. split; [apply NoDup_clients|]. split; [|split].
  - simpl. rewrite elem_of_clients. unfold host. lia.
  - intros p. unfold ainit, peers; cbn [ap aconn].
    set (l := (fun p => (p, apeer0)) <$> host :: clients n).
    assert (Hfst : l.*1 = host :: clients n).
    { unfold l. rewrite <- list_fmap_compose. simpl. f_equal. induction (clients n); simpl; congruence. }
    split.
    + intros [x Hx]. apply elem_of_list_to_map_2 in Hx. apply (elem_of_list_fmap_1 fst) in Hx.
      rewrite Hfst in Hx. simpl in Hx. apply elem_of_cons in Hx. exact Hx.
    + intros Hp. destruct (list_to_map l !! p) eqn:Hx; [eauto|].
      apply not_elem_of_list_to_map in Hx. rewrite Hfst in Hx. exfalso. apply Hx. apply elem_of_cons. exact Hp.
  - intros a b H. exfalso. apply H. reflexivity.
Qed.

(* quiescence through getters *)
Lemma quiescent_link s a b : aquiescent s -> link s a b = [].
Proof.
  intros [H _]. unfold link, lget. destruct (alinks s !! (a, b)) as [l|] eqn:Hl; [|reflexivity]. simpl. eapply H. exact Hl.
Qed.
Lemma quiescent_peer s p : aquiescent s -> pevents s p = 0%nat /\ ptok s p = false /\ ppending s p = [].
Proof.
  intros [_ H]. unfold pevents, ptok, ppending, getp. destruct (ap s !! p) as [x|] eqn:Hx; simpl; [|auto].
  apply (H p x Hx).
Qed.
Lemma quiescent_intro s :
  (forall a b, link s a b = []) -> (forall p, pevents s p = 0%nat /\ ptok s p = false /\ ppending s p = []) -> aquiescent s.
Proof.
  intros Hl Hp. split.
  - intros [a b] l Hx. specialize (Hl a b). unfold link, lget in Hl. rewrite Hx in Hl. exact Hl.
  - intros p x Hx. specialize (Hp p). unfold pevents, ptok, ppending, getp in Hp. rewrite Hx in Hp. exact Hp.
Qed.
Lemma ainit_quiescent n : aquiescent (ainit n).
Proof.
  apply quiescent_intro; [intros; apply ainit_link|]. intros p. unfold pevents, ptok, ppending. rewrite ainit_getp. auto.
Qed.

(* case analysis on the first [decide] of the goal (or else of a hypothesis) *)
Tactic Notation "cdec" "as" simple_intropattern(pat) :=
  match goal with
  | |- context [decide ?P] => destruct (decide P) as pat
  | H : context [decide ?P] |- _ => destruct (decide P) as pat
  end.

(* ================================================================================================
   Part 3: the single-publisher invariant
   [Inv w s]: w is the only peer that ever published.  Nothing travels towards w, only w uses an uplink,
   every announcement names w as owner, no other peer serves the id, every unread event of another
   peer is covered by its token, w's cache is its store unless an event of w is still unread, and every
   other peer holds what w serves unless an announcement is still on its way to it.
   Preserved by every event except: a publication by another peer, a join when w is a client or of a
   client that already holds the id, and a download of the class S7.
   ================================================================================================ *)

Definition notified (w : peer) (s : astate) (q : peer) : Prop :=
  ppending s q <> [] \/ link s host q <> [] \/ link s w host <> [].

Record Inv (w : peer) (s : astate) : Prop := {
  inv_tok : ptok s w = false;
  inv_pend : ppending s w = [];
  inv_in : forall a, link s a w = [];
  inv_up : forall c, c <> w -> link s c host = [];
  inv_recv : forall q, q <> w -> pserved s q = None /\
               (pevents s q = 0%nat /\ ptok s q = false \/ pevents s q = 1%nat /\ ptok s q = true);
  inv_ev_store : forall q, pevents s q <> 0%nat -> pstore s q <> None;
  inv_owner_l : forall a b o, o ∈ link s a b -> o = w;
  inv_owner_p : forall q o, o ∈ ppending s q -> o = w;
  inv_served : pserved s w = pstore s w \/ pevents s w <> 0%nat;
  inv_live_l : forall a b, link s a b <> [] -> pserved s w <> None;
  inv_live_p : forall q, ppending s q <> [] -> pserved s w <> None;
  inv_store : forall q, peers s q -> q <> w ->
               pstore s q = pserved s w \/ notified w s q \/ pevents s w <> 0%nat
}.

Definition ev_ok (w : peer) (e : aevent) : Prop :=
  match e with
  | APublish q _ => q = w
  | AJoin _ pre => w = host /\ pre = None
  | _ => True
  end.

Definition store_after (w : peer) (s : astate) (e : aevent) : option content :=
  match e with APublish _ c => Some c | _ => pstore s w end.

Lemma inv_ext w s s' :
  (forall q, getp s' q = getp s q) -> (forall a b, link s' a b = link s a b) -> aconn s' = aconn s ->
  Inv w s -> Inv w s'.
Proof.
  intros Hg Hl Hc HI. destruct HI.
  constructor; unfold notified, peers, pstore, pevents, ptok, pserved, ppending in *;
    intros; rewrite ?Hg, ?Hl, ?Hc in *; eauto.
Qed.

Lemma app_not_nil_l {A} (l1 l2 : list A) : l1 <> [] -> l1 ++ l2 <> [].
Proof. destruct l1; [congruence|discriminate]. Qed.
Lemma app_not_nil_r {A} (l1 l2 : list A) : l2 <> [] -> l1 ++ l2 <> [].
Proof. destruct l1, l2; try congruence; discriminate. Qed.

Lemma not_in_dsts s p : awf s -> p ∉ dsts_of s p.
Proof.
  intros Hwf. unfold dsts_of. destruct (p =? host)%N eqn:E.
  - apply N.eqb_eq in E. subst. apply wf_host, Hwf.
  - apply N.eqb_neq in E. intros H. apply elem_of_list_singleton in H. contradiction.
Qed.

Lemma inv_step1 w s e s' :
  match e with AReact _ => False | _ => True end ->
  awf s -> Inv w s -> ev_ok w e -> bad_S7 s e = false -> astep s e = Some s' ->
  Inv w s' /\ pstore s' w = store_after w s e.
Proof.
  intros Hnb Hwf HI Hok Hbad Hstep. pose proof (wf_nodup s Hwf) as Hnd.
  destruct e as [p v|p|p|src dst|p|c pre]; [|contradiction| | | |].
  - (* APublish *)
    simpl in Hok. subst p.
    apply step_publish in Hstep as (_ & Hc & Hl & _ & Hp & Hq).
    assert (Hlk : forall a b, link s' a b = link s a b) by (intros; unfold link; rewrite Hl; reflexivity).
    destruct HI. split; [|unfold pstore; rewrite Hp; reflexivity].
    constructor; unfold notified, peers; intros; rewrite ?Hlk, ?Hc in *; eauto.
    + unfold ptok. rewrite Hp. exact inv_tok0.
    + unfold ppending. rewrite Hp. exact inv_pend0.
    + unfold pserved, pevents, ptok. rewrite Hq by assumption. apply inv_recv0. assumption.
    + destruct (decide (q = w)) as [->|Hne]; [unfold pstore; rewrite Hp; discriminate|].
      unfold pstore, pevents in *. rewrite Hq in * by assumption. auto.
    + destruct (decide (q = w)) as [->|Hne].
      * unfold ppending in H. rewrite Hp in H. simpl in H. eapply inv_owner_p0; exact H.
      * unfold ppending in H. rewrite Hq in H by assumption. eapply inv_owner_p0; exact H.
    + right. unfold pevents. rewrite Hp. discriminate.
    + unfold pserved. rewrite Hp. simpl. eapply inv_live_l0; eauto.
    + unfold pserved. rewrite Hp. simpl. destruct (decide (q = w)) as [->|Hne].
      * unfold ppending in H. rewrite Hp in H. simpl in H. contradiction.
      * unfold ppending in H. rewrite Hq in H by assumption. eapply inv_live_p0; eauto.
    + right. right. unfold pevents. rewrite Hp. discriminate.
  - (* AReact1 *)
    apply step_react1 in Hstep as (Hex & Hc & _ & Hp & Hq & Hl); [|exact Hnd].
    assert (Hst : pstore s' w = pstore s w).
    { unfold pstore. destruct (decide (w = p)) as [->|Hne]; [|rewrite Hq by assumption; reflexivity].
      rewrite Hp. destruct (react1_cases (getp s p)) as [[_ E]|[(k & _ & E0 & E)|[(k & c & _ & E0 & _ & E)|(k & c & _ & E0 & _ & E)]]];
        rewrite E; simpl; congruence. }
    split; [|exact Hst].
    destruct (react1_cases (getp s p)) as [[E0 E]|[(k & E0 & E1 & E)|[(k & c & E0 & E1 & E2 & E)|(k & c & E0 & E1 & E2 & E)]]].
    + (* nothing unread *)
      eapply inv_ext; [| |exact Hc|exact HI].
      * intros q. destruct (decide (q = p)) as [->|Hne]; [rewrite Hp, E; reflexivity|apply Hq; exact Hne].
      * intros a b. rewrite Hl, E. cbn [snd]. cdec as [[Hf _]|_]; [discriminate|reflexivity].
    + exfalso. eapply (inv_ev_store _ _ HI p); [unfold pevents; rewrite E0; discriminate|exact E1].
    + (* swallowed *)
      assert (Hpw : p <> w). { intros ->. pose proof (inv_tok _ _ HI) as Ht. unfold ptok in Ht. congruence. }
      assert (Hk : k = 0%nat).
      { destruct (inv_recv _ _ HI p Hpw) as [_ [[H0 _]|[H1 _]]]; unfold pevents in *; [congruence|lia]. }
      subst k. rewrite E in Hp, Hl. cbn [fst snd] in Hp, Hl.
      assert (Hlk : forall a b, link s' a b = link s a b).
      { intros a b. rewrite Hl. cdec as [[Hf _]|_]; [discriminate|reflexivity]. }
      assert (Hserved : pserved s p = None) by apply (inv_recv _ _ HI p Hpw).
      destruct HI. constructor; unfold notified, peers; intros; rewrite ?Hlk, ?Hc in *; eauto.
      * unfold ptok. rewrite Hq by congruence. exact inv_tok0.
      * unfold ppending. rewrite Hq by congruence. exact inv_pend0.
      * destruct (decide (q = p)) as [->|Hne].
        -- unfold pserved, pevents, ptok. rewrite Hp. simpl. split; [exact Hserved|left; auto].
        -- unfold pserved, pevents, ptok. rewrite Hq by assumption. apply inv_recv0. assumption.
      * destruct (decide (q = p)) as [->|Hne]; [unfold pevents in H; rewrite Hp in H; simpl in H; congruence|].
        unfold pstore, pevents in *. rewrite Hq in * by assumption. auto.
      * destruct (decide (q = p)) as [->|Hne]; unfold ppending in H.
        -- rewrite Hp in H. simpl in H. eapply inv_owner_p0; exact H.
        -- rewrite Hq in H by assumption. eapply inv_owner_p0; exact H.
      * unfold pserved, pstore, pevents. rewrite Hq by congruence. exact inv_served0.
      * unfold pserved. rewrite Hq by congruence. eapply inv_live_l0; eauto.
      * unfold pserved. rewrite Hq by congruence. destruct (decide (q = p)) as [->|Hne]; unfold ppending in H.
        -- rewrite Hp in H. simpl in H. eapply inv_live_p0; exact H.
        -- rewrite Hq in H by assumption. eapply inv_live_p0; exact H.
      * unfold pserved, pevents. rewrite (Hq w) by congruence.
        destruct (decide (q = p)) as [->|Hne].
        -- unfold pstore, ppending. rewrite Hp. simpl. rewrite <- E1. apply inv_store0; assumption.
        -- unfold pstore, ppending. rewrite Hq by assumption. apply inv_store0; assumption.
    + (* announced *)
      destruct (decide (p = w)) as [->|Hpw].
      2:{ exfalso. destruct (inv_recv _ _ HI p Hpw) as [_ [[H0 _]|[_ H1]]]; unfold pevents, ptok in *; congruence. }
      rewrite E in Hp, Hl. cbn [fst snd] in Hp, Hl.
      assert (Hlk : forall a b, link s' a b = if decide (a = w /\ b ∈ dsts_of s w) then link s a b ++ [w] else link s a b).
      { intros a b. rewrite Hl. destruct (decide (a = w /\ b ∈ dsts_of s w)) as [Hy|Hn].
        - destruct (decide (true = true /\ _)) as [_|Hn]; [reflexivity|tauto].
        - destruct (decide (true = true /\ _)) as [[_ Hy]|_]; [tauto|reflexivity]. }
      assert (Hsv : pserved s' w = Some c) by (unfold pserved; rewrite Hp; reflexivity).
      destruct HI. constructor; unfold notified, peers; intros; rewrite ?Hc in *.
      * unfold ptok. rewrite Hp. reflexivity.
      * unfold ppending. rewrite Hp. exact inv_pend0.
      * rewrite Hlk. cdec as [[_ Hin]|_]; [exfalso; eapply not_in_dsts; eauto|apply inv_in0].
      * rewrite Hlk. cdec as [[Heq _]|_]; [contradiction|apply inv_up0; assumption].
      * unfold pserved, pevents, ptok. rewrite Hq by assumption. apply inv_recv0. assumption.
      * destruct (decide (q = w)) as [->|Hne]; [unfold pstore; rewrite Hp; discriminate|].
        unfold pstore, pevents in *. rewrite Hq in * by assumption. auto.
      * rewrite Hlk in H. cdec as [_|_]; [|eapply inv_owner_l0; exact H].
        apply elem_of_app in H as [H|H]; [eapply inv_owner_l0; exact H|]. apply elem_of_list_singleton in H. exact H.
      * destruct (decide (q = w)) as [->|Hne]; unfold ppending in H.
        -- rewrite Hp in H. simpl in H. eapply inv_owner_p0; exact H.
        -- rewrite Hq in H by assumption. eapply inv_owner_p0; exact H.
      * left. rewrite Hsv. unfold pstore. rewrite Hp. reflexivity.
      * rewrite Hsv. discriminate.
      * rewrite Hsv. discriminate.
      * right. left. right. destruct (decide (w = host)) as [->|Hwh].
        -- left. rewrite Hlk. cdec as [_|Hn]; [apply app_not_nil_r; discriminate|].
           exfalso. apply Hn. split; [reflexivity|]. unfold dsts_of. change (host =? host)%N with true. cbv iota.
           destruct H as [H|H]; [contradiction|exact H].
        -- right. rewrite Hlk. cdec as [_|Hn]; [apply app_not_nil_r; discriminate|].
           exfalso. apply Hn. split; [reflexivity|]. unfold dsts_of.
           destruct (w =? host)%N eqn:E'; [apply N.eqb_eq in E'; contradiction|]. apply elem_of_list_singleton. reflexivity.
  - (* ADeliver *)
    apply step_deliver in Hstep as (o & rest & Hl0 & Hd & Hc & _ & Hp & Hq & Hl); [|exact Hnd].
    assert (Hne0 : link s src dst <> []) by (rewrite Hl0; discriminate).
    assert (Hdw : dst <> w). { intros ->. rewrite (inv_in _ _ HI) in Hne0. congruence. }
    assert (How : o = w). { eapply (inv_owner_l _ _ HI src dst). rewrite Hl0. left. }
    subst o.
    assert (Hshape : (src = host /\ dst ∈ aconn s /\ dst <> host) \/ (dst = host /\ src = w /\ w <> host /\ w ∈ aconn s)).
    { destruct (wf_link s src dst Hwf Hne0) as [[-> Hin]|[-> Hin]].
      - left. split; [reflexivity|]. split; [exact Hin|]. intros ->. apply (wf_host s Hwf Hin).
      - right. split; [reflexivity|]. destruct (decide (src = w)) as [->|Hn].
        + split; [reflexivity|]. split; [|exact Hin]. intros ->. apply (wf_host s Hwf Hin).
        + rewrite (inv_up _ _ HI src Hn) in Hne0. congruence. }
    assert (Hsd : pserved s dst = None) by apply (inv_recv _ _ HI dst Hdw).
    assert (Hp' : getp s' dst = APeer (pstore s dst) (pevents s dst) (ptok s dst) None (ppending s dst ++ [w])).
    { rewrite Hp. unfold request_peer. unfold pserved in Hsd. rewrite Hsd. reflexivity. }
    assert (Hsvw : pserved s' w = pserved s w) by (unfold pserved; rewrite Hq by congruence; reflexivity).
    assert (Hlive : pserved s w <> None) by (eapply (inv_live_l _ _ HI); exact Hne0).
    split; [|unfold store_after, pstore; rewrite Hq by congruence; reflexivity].
    destruct HI. constructor; unfold notified, peers; intros; rewrite ?Hc in *.
    + unfold ptok. rewrite Hq by congruence. exact inv_tok0.
    + unfold ppending. rewrite Hq by congruence. exact inv_pend0.
    + rewrite Hl. destruct (decide ((a, w) = (src, dst))) as [Heq|_]; [inversion Heq; congruence|].
      rewrite inv_in0. cbn [app]. cdec as [(Hdh & _ & Hin)|_]; [|reflexivity].
      apply elem_of_others in Hin as [Hn _]. destruct Hshape as [(_ & _ & ?)|(? & ? & _)]; congruence.
    + rewrite Hl. destruct (decide ((c, host) = (src, dst))) as [Heq|_].
      * inversion Heq; subst. destruct Hshape as [(_ & _ & ?)|(_ & ? & _)]; congruence.
      * rewrite inv_up0 by assumption. cbn [app]. cdec as [(_ & _ & Hin)|_]; [|reflexivity].
        apply elem_of_others in Hin as [_ Hin]. exfalso. apply (wf_host s Hwf Hin).
    + destruct (decide (q = dst)) as [->|Hne].
      * unfold pserved, pevents, ptok. rewrite Hp'. simpl. split; [reflexivity|apply inv_recv0; assumption].
      * unfold pserved, pevents, ptok. rewrite Hq by assumption. apply inv_recv0. assumption.
    + destruct (decide (q = dst)) as [->|Hne].
      * unfold pstore, pevents in *. rewrite Hp' in *. simpl in *. apply inv_ev_store0. exact H.
      * unfold pstore, pevents in *. rewrite Hq in * by assumption. auto.
    + rewrite Hl in H. apply elem_of_app in H as [H|H].
      * destruct (decide ((a, b) = (src, dst))) as [_|_]; [|eapply inv_owner_l0; exact H].
        eapply (inv_owner_l0 src dst). rewrite Hl0. right. exact H.
      * cdec as [?|?]; [apply elem_of_list_singleton in H; exact H|inversion H].
    + destruct (decide (q = dst)) as [->|Hne]; unfold ppending in H.
      * rewrite Hp' in H. simpl in H. apply elem_of_app in H as [H|H]; [eapply inv_owner_p0; exact H|].
        apply elem_of_list_singleton in H. exact H.
      * rewrite Hq in H by assumption. eapply inv_owner_p0; exact H.
    + unfold pserved, pstore, pevents. rewrite Hq by congruence. exact inv_served0.
    + rewrite Hsvw. exact Hlive.
    + rewrite Hsvw. exact Hlive.
    + rewrite Hsvw. unfold pevents. rewrite (Hq w) by congruence. fold (pevents s w).
      destruct (decide (q = dst)) as [->|Hne].
      * right. left. left. unfold ppending. rewrite Hp'. simpl. apply app_not_nil_r. discriminate.
      * unfold pstore, ppending. rewrite Hq by assumption. fold (pstore s q). fold (ppending s q).
        destruct (inv_store0 q H H0) as [Hs|[[Hn|[Hn|Hn]]|He]]; [left; exact Hs| | | |right; right; exact He];
          right; left.
        -- left. exact Hn.
        -- right. left. rewrite Hl. apply app_not_nil_l.
           destruct (decide ((host, q) = (src, dst))) as [Heq|_]; [inversion Heq; congruence|exact Hn].
        -- destruct (decide ((w, host) = (src, dst))) as [Heq|Hneq].
           ++ inversion Heq; subst src dst. right. left. rewrite Hl. apply app_not_nil_r.
              cdec as [_|Hnn]; [discriminate|]. exfalso. apply Hnn. split; [reflexivity|]. split; [reflexivity|].
              apply elem_of_others. split; [assumption|]. destruct H as [H|H]; [contradiction|exact H].
           ++ right. right. rewrite Hl. apply app_not_nil_l.
              destruct (decide ((w, host) = (src, dst))) as [?|_]; [contradiction|exact Hn].
  - (* ADownload *)
    apply step_download in Hstep as (o & rest & Hp0 & Hex & Hc & Hl & _ & Hp & Hq).
    assert (Hlk : forall a b, link s' a b = link s a b) by (intros; unfold link; rewrite Hl; reflexivity).
    assert (Hpw : p <> w). { intros ->. rewrite (inv_pend _ _ HI) in Hp0. discriminate. }
    assert (How : o = w). { eapply (inv_owner_p _ _ HI p). rewrite Hp0. left. }
    subst o.
    assert (Hlive : pserved s w <> None). { eapply (inv_live_p _ _ HI p). rewrite Hp0. discriminate. }
    destruct (pserved s w) as [c|] eqn:Hsw; [|congruence].
    simpl in Hbad. rewrite Hp0, Hsw in Hbad. apply negb_false_iff, Nat.eqb_eq in Hbad.
    assert (Htk : ptok s p = false).
    { destruct (inv_recv _ _ HI p Hpw) as [_ [[_ Ht]|[He _]]]; [exact Ht|lia]. }
    assert (Hp' : getp s' p = APeer (Some c) 1 true (pserved s p) rest).
    { rewrite Hp. unfold download_peer. unfold pevents, ppending in *. rewrite Hbad, Hp0. reflexivity. }
    assert (Hsvw : pserved s' w = Some c) by (unfold pserved in *; rewrite Hq by congruence; exact Hsw).
    split; [|unfold store_after, pstore; rewrite Hq by congruence; reflexivity].
    destruct HI. constructor; unfold notified, peers; intros; rewrite ?Hlk, ?Hc in *; eauto.
    + unfold ptok. rewrite Hq by congruence. exact inv_tok0.
    + unfold ppending. rewrite Hq by congruence. exact inv_pend0.
    + destruct (decide (q = p)) as [->|Hne].
      * unfold pserved, pevents, ptok. rewrite Hp'. simpl. split; [apply inv_recv0; assumption|right; auto].
      * unfold pserved, pevents, ptok. rewrite Hq by assumption. apply inv_recv0. assumption.
    + destruct (decide (q = p)) as [->|Hne]; [unfold pstore; rewrite Hp'; discriminate|].
      unfold pstore, pevents in *. rewrite Hq in * by assumption. auto.
    + destruct (decide (q = p)) as [->|Hne]; unfold ppending in H.
      * rewrite Hp' in H. simpl in H. eapply (inv_owner_p0 p). rewrite Hp0. right. exact H.
      * rewrite Hq in H by assumption. eapply inv_owner_p0; exact H.
    + unfold pserved, pstore, pevents. rewrite Hq by congruence. fold (pserved s w). rewrite Hsw.
      unfold pserved, pstore, pevents in inv_served0. rewrite <- Hsw. exact inv_served0.
    + rewrite Hsvw. discriminate.
    + rewrite Hsvw. discriminate.
    + rewrite Hsvw. unfold pevents. rewrite (Hq w) by congruence. fold (pevents s w).
      destruct (decide (q = p)) as [->|Hne].
      * left. unfold pstore. rewrite Hp'. reflexivity.
      * unfold pstore, ppending. rewrite Hq by assumption. fold (pstore s q). fold (ppending s q).
        rewrite <- Hsw. apply inv_store0; assumption.
  - (* AJoin *)
    destruct Hok as [-> ->].
    apply step_join in Hstep as (Hch & Hcn & Hnone & Hc & _ & Hpc & Hph & Hq & Hl).
    assert (Hsv' : pserved s' host = match pstore s host with Some v => Some v | None => pserved s host end).
    { unfold pserved, pstore. rewrite Hph. reflexivity. }
    assert (Hsnap : pstore s host = None -> snapshot s = []) by (intros H; unfold snapshot; rewrite H; reflexivity).
    assert (Hkeep : pevents s host = 0%nat -> pserved s' host = pserved s host).
    { intros He. rewrite Hsv'. destruct (inv_served _ _ HI) as [Hs|Hs]; [|contradiction].
      rewrite Hs. destruct (pstore s host); reflexivity. }
    split; [|unfold store_after, pstore; rewrite Hph; reflexivity].
    destruct HI. constructor; unfold notified, peers; intros.
    + unfold ptok. rewrite Hph. exact inv_tok0.
    + unfold ppending. rewrite Hph. exact inv_pend0.
    + rewrite Hl. cdec as [Heq|_]; [inversion Heq; congruence|apply inv_in0].
    + rewrite Hl. cdec as [Heq|_]; [inversion Heq; congruence|apply inv_up0; assumption].
    + destruct (decide (q = c)) as [->|Hne].
      * unfold pserved, pevents, ptok. rewrite Hpc. simpl. auto.
      * unfold pserved, pevents, ptok. rewrite Hq by assumption. apply inv_recv0. assumption.
    + destruct (decide (q = c)) as [->|Hne]; [unfold pevents in H; rewrite Hpc in H; simpl in H; congruence|].
      destruct (decide (q = host)) as [->|Hnh].
      * unfold pstore, pevents in *. rewrite Hph in *. simpl in *. auto.
      * unfold pstore, pevents in *. rewrite Hq in * by assumption. auto.
    + rewrite Hl in H. cdec as [_|_]; [|eapply inv_owner_l0; exact H].
      apply elem_of_app in H as [H|H]; [eapply inv_owner_l0; exact H|].
      unfold snapshot in H. destruct (pstore s host); [apply elem_of_list_singleton in H; exact H|inversion H].
    + destruct (decide (q = c)) as [->|Hne]; [unfold ppending in H; rewrite Hpc in H; inversion H|].
      destruct (decide (q = host)) as [->|Hnh]; unfold ppending in H.
      * rewrite Hph in H. simpl in H. eapply inv_owner_p0; exact H.
      * rewrite Hq in H by assumption. eapply inv_owner_p0; exact H.
    + rewrite Hsv'. unfold pstore at 2, pevents. rewrite Hph. simpl. fold (pstore s host). fold (pevents s host).
      destruct (pstore s host) eqn:Hs; [left; reflexivity|exact inv_served0].
    + rewrite Hsv'. destruct (pstore s host) eqn:Hs; [discriminate|]. rewrite Hl, (Hsnap eq_refl) in H.
      cdec as [_|_]; [rewrite app_nil_r in H|]; eapply inv_live_l0; exact H.
    + rewrite Hsv'. destruct (pstore s host) eqn:Hs; [discriminate|].
      destruct (decide (q = c)) as [->|Hne]; [unfold ppending in H; rewrite Hpc in H; contradiction|].
      destruct (decide (q = host)) as [->|Hnh]; unfold ppending in H.
      * rewrite Hph in H. simpl in H. eapply inv_live_p0; exact H.
      * rewrite Hq in H by assumption. eapply inv_live_p0; exact H.
    + unfold pevents. rewrite Hph. simpl. fold (pevents s host).
      destruct (Nat.eq_dec (pevents s host) 0%nat) as [He|He]; [|right; right; exact He].
      rewrite (Hkeep He). destruct (decide (q = c)) as [->|Hne].
      * unfold pstore at 1. rewrite Hpc. simpl. destruct (pstore s host) eqn:Hs.
        -- right. left. right. left. rewrite Hl. cdec as [_|?]; [|congruence].
           apply app_not_nil_r. unfold snapshot. rewrite Hs. discriminate.
        -- left. destruct (inv_served0) as [H1|H1]; [|contradiction]. rewrite H1. reflexivity.
      * assert (Hpq : peers s q).
        { destruct H as [H|H]; [left; exact H|]. rewrite Hc in H. apply elem_of_app in H as [H|H]; [right; exact H|].
          apply elem_of_list_singleton in H. contradiction. }
        unfold pstore at 1, ppending. rewrite Hq by assumption. fold (pstore s q). fold (ppending s q).
        destruct (inv_store0 q Hpq H0) as [Hs|[[Hn|[Hn|Hn]]|He']]; [left; exact Hs| | | |contradiction]; right; left.
        -- left. exact Hn.
        -- right. left. rewrite Hl. cdec as [Heq|_]; [inversion Heq; congruence|exact Hn].
        -- right. right. rewrite Hl. cdec as [Heq|_]; [inversion Heq; congruence|exact Hn].
Qed.

Lemma inv_step w s e s' :
  awf s -> Inv w s -> ev_ok w e -> bad_S7 s e = false -> astep s e = Some s' ->
  Inv w s' /\ pstore s' w = store_after w s e.
Proof.
  intros Hwf HI Hok Hbad Hstep.
  destruct e as [p v|p|p|src dst|p|c pre]; try (eapply inv_step1; eauto; exact I).
  apply step_react_runs in Hstep.
  pose (P := fun s1 => awf s1 /\ Inv w s1 /\ pstore s1 w = pstore s w).
  assert (HP : P s') ; [|destruct HP as (_ & H1 & H2); split; [exact H1|exact H2]].
  eapply (react1s_ind P p); [|split; [exact Hwf|split; [exact HI|reflexivity]]|exact Hstep].
  intros s1 s2 (Hw1 & HI1 & Hs1) H12. split; [eapply step_wf; eauto|].
  destruct (inv_step1 w s1 (AReact1 p) s2 I Hw1 HI1 I eq_refl H12) as [HI2 Hs2].
  split; [exact HI2|]. rewrite Hs2. exact Hs1.
Qed.

Definition lastd (d : option content) (l : list content) : option content := foldl (fun _ v => Some v) d l.
Lemma lastd_cons d v l : lastd d (v :: l) = lastd (Some v) l.
Proof. reflexivity. Qed.
Lemma lastd_last d l : lastd d l = match last l with Some v => Some v | None => d end.
Proof.
  revert d. induction l as [|v l IH]; intros d; [reflexivity|]. rewrite lastd_cons, IH.
  destruct l as [|v' l']; [reflexivity|]. change (last (v :: v' :: l')) with (last (v' :: l')).
  destruct (last (v' :: l')) eqn:E; [reflexivity|]. exfalso. clear -E.
  revert v' E. induction l' as [|x l' IH]; intros v' E; [discriminate|]. apply (IH x). exact E.
Qed.
Lemma lastd_None_last l : lastd None l = last l.
Proof. rewrite lastd_last. destruct (last l); reflexivity. Qed.

Lemma published_cons e tr :
  published (e :: tr) = match e with APublish _ c => c :: published tr | _ => published tr end.
Proof. destruct e; reflexivity. Qed.

Lemma store_after_lastd w s e tr :
  lastd (store_after w s e) (published tr) = lastd (pstore s w) (published (e :: tr)).
Proof. rewrite published_cons. destruct e; reflexivity. Qed.

Lemma inv_run w tr : forall s s',
  awf s -> Inv w s -> Forall (ev_ok w) tr -> scan bad_S7 s tr = false -> arun s tr = Some s' ->
  awf s' /\ Inv w s' /\ pstore s' w = lastd (pstore s w) (published tr).
Proof.
  induction tr as [|e tr IH]; intros s s' Hwf HI Hok Hbad Hrun.
  - simpl in Hrun. inversion Hrun; subst. auto.
  - cbn [arun] in Hrun. cbn [scan] in Hbad. destruct (astep s e) as [s1|] eqn:Hstep; [|discriminate].
    apply orb_false_iff in Hbad as [Hb1 Hb2]. apply Forall_cons in Hok as [He Hok].
    destruct (inv_step w s e s1 Hwf HI He Hb1 Hstep) as [HI1 Hs1].
    destruct (IH s1 s' (step_wf _ _ _ Hwf Hstep) HI1 Hok Hb2 Hrun) as (Hwf' & HI' & Hs').
    split; [exact Hwf'|]. split; [exact HI'|]. rewrite Hs', Hs1. apply store_after_lastd.
Qed.

Lemma inv_init w n : Inv w (ainit n).
Proof.
  constructor; unfold notified, pstore, pevents, ptok, pserved, ppending; intros; rewrite ?ainit_getp, ?ainit_link in *; simpl; auto.
  - inversion H.
  - simpl in H. inversion H.
Qed.

Lemma ev_ok_of w tr : only_publisher w tr -> joins_ok w tr -> Forall (ev_ok w) tr.
Proof.
  unfold only_publisher, joins_ok, fresh_joins, no_joins.
  induction tr as [|e tr IH]; intros Hp Hj; [constructor|].
  destruct e as [p v|p|p|src dst|p|c pre]; simpl in Hp, Hj; try (constructor; [exact I|apply IH; assumption]).
  - apply Forall_cons in Hp as [-> Hp]. constructor; [reflexivity|apply IH; assumption].
  - destruct (decide (w = host)) as [->|Hne]; [|discriminate].
    apply Forall_cons in Hj as [Hpre Hj]. simpl in Hpre. constructor; [split; auto|].
    apply IH; [exact Hp|]. destruct (decide (host = host)); [exact Hj|congruence].
Qed.

Lemma inv_quiescent_agree w s : Inv w s -> aquiescent s -> forall q, peers s q -> pstore s q = pstore s w.
Proof.
  intros HI Hq q Hpq. destruct (decide (q = w)) as [->|Hne]; [reflexivity|].
  destruct (quiescent_peer s w Hq) as (Hew & _ & _).
  destruct (inv_served _ _ HI) as [Hs|Hs]; [|contradiction].
  destruct (inv_store _ _ HI q Hpq Hne) as [H|[[H|[H|H]]|H]].
  - congruence.
  - destruct (quiescent_peer s q Hq) as (_ & _ & Hp). contradiction.
  - rewrite (quiescent_link s host q Hq) in H. contradiction.
  - rewrite (quiescent_link s w host Hq) in H. contradiction.
  - contradiction.
Qed.

(* ---------- C06, the general form: one publisher, bursts and overwrites included, every interleaving;
   outside the class S7 every quiescent state shows the last published content everywhere ---------- *)
Theorem C06_single_publisher_outside_S7 n w tr s' :
  arun (ainit n) tr = Some s' -> only_publisher w tr -> joins_ok w tr ->
  known_S7 (ainit n) tr = false -> aquiescent s' ->
  forall q, peers s' q -> pstore s' q = last (published tr).
Proof.
  intros Hrun Hop Hj Hk Hq q Hpq.
  destruct (inv_run w tr (ainit n) s' (ainit_wf n) (inv_init w n) (ev_ok_of w tr Hop Hj) Hk Hrun) as (_ & HI & Hs).
  rewrite (inv_quiescent_agree w s' HI Hq q Hpq), Hs.
  unfold pstore at 1. rewrite ainit_getp. apply lastd_None_last.
Qed.
Print Assumptions C06_single_publisher_outside_S7.

(* ... and in such runs no peer but the publisher ever serves the id, so S12 cannot occur either *)
Theorem single_publisher_outside_S7_never_serves n w tr s' :
  arun (ainit n) tr = Some s' -> only_publisher w tr -> joins_ok w tr ->
  known_S7 (ainit n) tr = false ->
  forall q, q <> w -> pserved s' q = None.
Proof.
  intros Hrun Hop Hj Hk q Hne.
  destruct (inv_run w tr (ainit n) s' (ainit_wf n) (inv_init w n) (ev_ok_of w tr Hop Hj) Hk Hrun) as (_ & HI & _).
  apply (inv_recv _ _ HI q Hne).
Qed.

(* ================================================================================================
   Part 4: drain separation.  [Cnt w s]: at most one notification is on its way to each receiver
   (counting the publisher's unread event, the uplink message, the relayed message, the pending download
   and the receiver's own unread event).  Established by a publication or a join in a quiescent state,
   preserved by everything else; it excludes S7.
   ================================================================================================ *)

Definition K (w : peer) (s : astate) : nat := (pevents s w + length (link s w host))%nat.
Definition Cnt (w : peer) (s : astate) : Prop :=
  forall q, peers s q -> q <> w ->
    (K w s + length (link s host q) + length (ppending s q) + pevents s q <= 1)%nat.

Lemma cnt_ext w s s' :
  (forall q, getp s' q = getp s q) -> (forall a b, link s' a b = link s a b) -> aconn s' = aconn s ->
  Cnt w s -> Cnt w s'.
Proof.
  intros Hg Hl Hc HC q Hp Hne. unfold K, peers, pevents, ppending in *. rewrite ?Hg, ?Hl, ?Hc in *. apply HC; assumption.
Qed.

Lemma deliver_shape w s src dst o rest :
  awf s -> Inv w s -> link s src dst = o :: rest ->
  o = w /\ dst <> w /\ pserved s dst = None /\
  ((src = host /\ dst ∈ aconn s /\ dst <> host) \/ (dst = host /\ src = w /\ w <> host /\ w ∈ aconn s)).
Proof.
  intros Hwf HI Hl0.
  assert (Hne0 : link s src dst <> []) by (rewrite Hl0; discriminate).
  assert (Hdw : dst <> w). { intros ->. rewrite (inv_in _ _ HI) in Hne0. congruence. }
  split; [eapply (inv_owner_l _ _ HI src dst); rewrite Hl0; left|]. split; [exact Hdw|].
  split; [apply (inv_recv _ _ HI dst Hdw)|].
  destruct (wf_link s src dst Hwf Hne0) as [[-> Hin]|[-> Hin]].
  - left. split; [reflexivity|]. split; [exact Hin|]. intros ->. apply (wf_host s Hwf Hin).
  - right. split; [reflexivity|]. destruct (decide (src = w)) as [->|Hn].
    + split; [reflexivity|]. split; [|exact Hin]. intros ->. apply (wf_host s Hwf Hin).
    + rewrite (inv_up _ _ HI src Hn) in Hne0. congruence.
Qed.

Lemma cnt_step1 w s e s' :
  match e with AReact1 _ | ADeliver _ _ | ADownload _ => True | _ => False end ->
  awf s -> Inv w s -> Cnt w s -> astep s e = Some s' -> Cnt w s' /\ bad_S7 s e = false.
Proof.
  intros He Hwf HI HC Hstep. pose proof (wf_nodup s Hwf) as Hnd. pose proof (wf_link_hh s Hwf) as Hhh.
  destruct e as [p v|p|p|src dst|p|c pre]; try contradiction.
  - (* AReact1 *)
    split; [|reflexivity].
    apply step_react1 in Hstep as (Hex & Hc & _ & Hp & Hq & Hl); [|exact Hnd].
    destruct (react1_cases (getp s p)) as [[E0 E]|[(k & E0 & E1 & E)|[(k & c & E0 & E1 & E2 & E)|(k & c & E0 & E1 & E2 & E)]]].
    + eapply cnt_ext; [| |exact Hc|exact HC].
      * intros q. destruct (decide (q = p)) as [->|Hne]; [rewrite Hp, E; reflexivity|apply Hq; exact Hne].
      * intros a b. rewrite Hl, E. cbn [snd]. cdec as [[Hf _]|_]; [discriminate|reflexivity].
    + exfalso. eapply (inv_ev_store _ _ HI p); [unfold pevents; rewrite E0; discriminate|exact E1].
    + assert (Hpw : p <> w). { intros ->. pose proof (inv_tok _ _ HI) as Ht. unfold ptok in Ht. congruence. }
      rewrite E in Hp, Hl. cbn [fst snd] in Hp, Hl.
      assert (Hlk : forall a b, link s' a b = link s a b).
      { intros a b. rewrite Hl. cdec as [[Hf _]|_]; [discriminate|reflexivity]. }
      intros q Hpq Hne. unfold peers in Hpq. rewrite Hc in Hpq. specialize (HC q Hpq Hne).
      unfold K, pevents, ppending in *. rewrite !Hlk, (Hq w) by congruence.
      destruct (decide (q = p)) as [->|Hnq]; [rewrite Hp; simpl; lia|rewrite Hq by assumption; exact HC].
    + destruct (decide (p = w)) as [->|Hpw].
      2:{ exfalso. destruct (inv_recv _ _ HI p Hpw) as [_ [[H0 _]|[_ H1]]]; unfold pevents, ptok in *; congruence. }
      rewrite E in Hp, Hl. cbn [fst snd] in Hp, Hl.
      assert (Hlk : forall a b, link s' a b = if decide (a = w /\ b ∈ dsts_of s w) then link s a b ++ [w] else link s a b).
      { intros a b. rewrite Hl. destruct (decide (a = w /\ b ∈ dsts_of s w)) as [Hy|Hn].
        - destruct (decide (true = true /\ _)) as [_|Hn]; [reflexivity|tauto].
        - destruct (decide (true = true /\ _)) as [[_ Hy]|_]; [tauto|reflexivity]. }
      intros q Hpq Hne. unfold peers in Hpq. rewrite Hc in Hpq. specialize (HC q Hpq Hne).
      unfold K, pevents, ppending in *. rewrite (Hq q) by assumption. rewrite Hp. cbn [events].
      rewrite E0 in HC. rewrite !Hlk. unfold dsts_of. destruct (decide (w = host)) as [->|Hwh].
      * change (host =? host)%N with true. cbv iota.
        destruct (decide (host = host /\ host ∈ aconn s)) as [[_ Hin]|_]; [exfalso; apply (wf_host s Hwf Hin)|].
        destruct (decide (host = host /\ q ∈ aconn s)) as [_|Hn].
        -- rewrite app_length. simpl. lia.
        -- exfalso. apply Hn. split; [reflexivity|]. destruct Hpq as [?|?]; [contradiction|assumption].
      * destruct (w =? host)%N eqn:E'; [apply N.eqb_eq in E'; contradiction|].
        destruct (decide (w = w /\ host ∈ [host])) as [_|Hn]; [|exfalso; apply Hn; split; [reflexivity|apply elem_of_list_singleton; reflexivity]].
        destruct (decide (host = w /\ _)) as [[Hf _]|_]; [congruence|].
        rewrite app_length. simpl. lia.
  - (* ADeliver *)
    split; [|reflexivity].
    apply step_deliver in Hstep as (o & rest & Hl0 & Hd & Hc & _ & Hp & Hq & Hl); [|exact Hnd].
    destruct (deliver_shape w s src dst o rest Hwf HI Hl0) as (-> & Hdw & Hsd & Hshape).
    assert (Hp' : ppending s' dst = ppending s dst ++ [w] /\ pevents s' dst = pevents s dst).
    { unfold ppending, pevents. rewrite Hp. unfold request_peer. unfold pserved in Hsd. rewrite Hsd. split; reflexivity. }
    destruct Hp' as [Hpp Hpe].
    intros q Hpq Hne. unfold peers in Hpq. rewrite Hc in Hpq. pose proof (HC q Hpq Hne) as HCq.
    assert (Hew : pevents s' w = pevents s w) by (unfold pevents; rewrite Hq by congruence; reflexivity).
    unfold K in *. rewrite Hew. rewrite !Hl.
    destruct Hshape as [(-> & Hin & Hdh)|(-> & -> & Hwh & Hin)].
    + (* host -> client dst *)
      destruct (decide ((w, host) = (host, dst))) as [Heq|_]; [inversion Heq; congruence|].
      destruct (decide (dst = host /\ _)) as [[? _]|_]; [contradiction|].
      destruct (decide (dst = host /\ _)) as [[? _]|_]; [contradiction|]. rewrite !app_nil_r.
      destruct (decide (q = dst)) as [->|Hnq].
      * destruct (decide ((host, dst) = (host, dst))) as [_|?]; [|congruence].
        rewrite Hpp, Hpe, app_length. rewrite Hl0 in HCq. simpl in *. lia.
      * destruct (decide ((host, q) = (host, dst))) as [Heq|_]; [inversion Heq; congruence|].
        unfold ppending, pevents in *. rewrite (Hq q) by assumption. exact HCq.
    + (* publisher -> host *)
      destruct (decide ((w, host) = (w, host))) as [_|?]; [|congruence].
      destruct (decide (host = host /\ w = host /\ _)) as [(_ & ? & _)|_]; [contradiction|]. rewrite app_nil_r.
      rewrite Hl0 in HCq. cbn [length] in HCq.
      destruct (decide (q = host)) as [->|Hnq].
      * destruct (decide ((host, host) = (w, host))) as [Heq|_]; [inversion Heq; congruence|].
        destruct (decide (host = host /\ host = host /\ host ∈ others w (aconn s))) as [(_ & _ & Hin')|_].
        { apply elem_of_others in Hin' as [_ Hin']. exfalso. apply (wf_host s Hwf Hin'). }
        rewrite app_nil_r, Hpp, Hpe, app_length. simpl. lia.
      * destruct (decide ((host, q) = (w, host))) as [Heq|_]; [inversion Heq; congruence|].
        destruct (decide (host = host /\ host = host /\ q ∈ others w (aconn s))) as [_|Hn].
        -- unfold ppending, pevents in *. rewrite (Hq q) by assumption. rewrite app_length. simpl. lia.
        -- exfalso. apply Hn. split; [reflexivity|]. split; [reflexivity|]. apply elem_of_others. split; [exact Hne|].
           destruct Hpq as [?|?]; [contradiction|assumption].
  - (* ADownload *)
    pose proof Hstep as Hstep0.
    apply step_download in Hstep as (o & rest & Hp0 & Hex & Hc & Hl & _ & Hp & Hq).
    assert (Hlk : forall a b, link s' a b = link s a b) by (intros; unfold link; rewrite Hl; reflexivity).
    assert (Hpw : p <> w). { intros ->. rewrite (inv_pend _ _ HI) in Hp0. discriminate. }
    assert (Hpp : peers s p) by (apply (wf_exists s p Hwf); exact Hex).
    pose proof (HC p Hpp Hpw) as HCp. rewrite Hp0 in HCp. cbn [length] in HCp.
    assert (He0 : pevents s p = 0%nat) by lia.
    split.
    + intros q Hpq Hne. unfold peers in Hpq. rewrite Hc in Hpq. specialize (HC q Hpq Hne).
      unfold K, pevents, ppending in *. rewrite !Hlk, (Hq w) by congruence.
      destruct (decide (q = p)) as [->|Hnq]; [|rewrite Hq by assumption; exact HC].
      rewrite Hp. unfold download_peer. rewrite Hp0 in *. destruct (pserved s o); simpl in *; lia.
    + simpl. rewrite Hp0. destruct (pserved s o); [|reflexivity]. rewrite He0. reflexivity.
Qed.

Lemma cnt_quiescent w s : aquiescent s -> Cnt w s.
Proof.
  intros Hq q _ _. unfold K. rewrite !(quiescent_link s _ _ Hq).
  destruct (quiescent_peer s w Hq) as (-> & _ & _). destruct (quiescent_peer s q Hq) as (-> & _ & ->). simpl. lia.
Qed.

Lemma cnt_publish w s c s' : aquiescent s -> astep s (APublish w c) = Some s' -> Cnt w s'.
Proof.
  intros Hqs Hstep. apply step_publish in Hstep as (_ & Hc & Hl & _ & Hp & Hq).
  intros q _ Hne. unfold K, link, pevents, ppending. rewrite Hl, Hp, (Hq q) by assumption. cbn [events].
  fold (link s w host). fold (link s host q). rewrite !(quiescent_link s _ _ Hqs).
  destruct (quiescent_peer s w Hqs) as (-> & _ & _). destruct (quiescent_peer s q Hqs) as (He & _ & Hpe).
  unfold pevents, ppending in *. rewrite He, Hpe. simpl. lia.
Qed.

Lemma cnt_join s c s' : awf s -> aquiescent s -> astep s (AJoin c None) = Some s' -> Cnt host s'.
Proof.
  intros Hwf Hqs Hstep. apply step_join in Hstep as (Hch & Hcn & Hnone & Hc & _ & Hpc & Hph & Hq & Hl).
  intros q _ Hne. unfold K. rewrite !Hl.
  destruct (decide ((host, host) = (host, c))) as [Heq|_]; [inversion Heq; congruence|].
  rewrite !(quiescent_link s _ _ Hqs).
  assert (Heh : pevents s' host = 0%nat).
  { unfold pevents. rewrite Hph. simpl. apply (quiescent_peer s host Hqs). }
  rewrite Heh. destruct (decide (q = c)) as [->|Hnq].
  - destruct (decide ((host, c) = (host, c))) as [_|?]; [|congruence].
    unfold ppending, pevents. rewrite Hpc. simpl. unfold snapshot. destruct (pstore s host); simpl; lia.
  - destruct (decide ((host, q) = (host, c))) as [Heq|_]; [inversion Heq; congruence|].
    unfold ppending, pevents. rewrite Hq by assumption.
    destruct (quiescent_peer s q Hqs) as (He & _ & Hpe). unfold pevents, ppending in *. rewrite He, Hpe. simpl. lia.
Qed.

Lemma ds_run w tr : forall s s',
  awf s -> Inv w s -> Cnt w s -> Forall (ev_ok w) tr -> ops_at_quiescence s tr = true -> arun s tr = Some s' ->
  awf s' /\ Inv w s' /\ Cnt w s' /\ scan bad_S7 s tr = false /\ pstore s' w = lastd (pstore s w) (published tr).
Proof.
  induction tr as [|e tr IH]; intros s s' Hwf HI HC Hok Hops Hrun.
  - simpl in Hrun. inversion Hrun; subst. auto.
  - cbn [arun] in Hrun. cbn [ops_at_quiescence] in Hops. cbn [scan].
    destruct (astep s e) as [s1|] eqn:Hstep; [|discriminate].
    apply andb_true_iff in Hops as [Hop1 Hops]. apply Forall_cons in Hok as [He Hok].
    assert (H1 : Inv w s1 /\ Cnt w s1 /\ bad_S7 s e = false /\ pstore s1 w = store_after w s e).
    { destruct e as [p v|p|p|src dst|p|c pre].
      - simpl in He. subst p. simpl in Hop1. apply bool_decide_eq_true in Hop1.
        destruct (inv_step1 w s (APublish w v) s1 I Hwf HI eq_refl eq_refl Hstep) as [HI1 Hs1].
        split; [exact HI1|]. split; [eapply cnt_publish; eauto|]. split; [reflexivity|exact Hs1].
      - pose proof Hstep as Hstep0. apply step_react_runs in Hstep.
        pose (P := fun s1 => awf s1 /\ Inv w s1 /\ Cnt w s1 /\ pstore s1 w = pstore s w).
        assert (HP : P s1); [|destruct HP as (_ & HI1 & HC1 & Hs1); auto].
        eapply (react1s_ind P p); [|split; [exact Hwf|split; [exact HI|split; [exact HC|reflexivity]]]|exact Hstep].
        intros s2 s3 (Hw2 & HI2 & HC2 & Hs2) H23. split; [eapply step_wf; eauto|].
        destruct (inv_step1 w s2 (AReact1 p) s3 I Hw2 HI2 I eq_refl H23) as [HI3 Hs3].
        destruct (cnt_step1 w s2 (AReact1 p) s3 I Hw2 HI2 HC2 H23) as [HC3 _].
        split; [exact HI3|]. split; [exact HC3|]. rewrite Hs3. exact Hs2.
      - destruct (cnt_step1 w s (AReact1 p) s1 I Hwf HI HC Hstep) as [HC1 Hb].
        destruct (inv_step1 w s (AReact1 p) s1 I Hwf HI I Hb Hstep) as [HI1 Hs1]. auto.
      - destruct (cnt_step1 w s (ADeliver src dst) s1 I Hwf HI HC Hstep) as [HC1 Hb].
        destruct (inv_step1 w s (ADeliver src dst) s1 I Hwf HI I Hb Hstep) as [HI1 Hs1]. auto.
      - destruct (cnt_step1 w s (ADownload p) s1 I Hwf HI HC Hstep) as [HC1 Hb].
        destruct (inv_step1 w s (ADownload p) s1 I Hwf HI I Hb Hstep) as [HI1 Hs1]. auto.
      - pose proof He as [-> ->]. simpl in Hop1. apply bool_decide_eq_true in Hop1.
        destruct (inv_step1 host s (AJoin c None) s1 I Hwf HI He eq_refl Hstep) as [HI1 Hs1].
        split; [exact HI1|]. split; [eapply cnt_join; eauto|]. split; [reflexivity|exact Hs1]. }
    destruct H1 as (HI1 & HC1 & Hb & Hs1).
    destruct (IH s1 s' (step_wf _ _ _ Hwf Hstep) HI1 HC1 Hok Hops Hrun) as (Hwf' & HI' & HC' & Hsc & Hs').
    split; [exact Hwf'|]. split; [exact HI'|]. split; [exact HC'|]. split; [rewrite Hb, Hsc; reflexivity|].
    rewrite Hs', Hs1. apply store_after_lastd.
Qed.

(* ================================================================================================
   Part 5: C06 for what holds
   ================================================================================================ *)

(* Overwrites, each published in a quiescent state by the same peer (joins of fresh clients, also in
   quiescent states, when that peer is the host): every quiescent state shows the last content on every
   peer.  The receivers swallowed their event with the token, so they never served, so request()
   proceeds at the next round. *)
Theorem C06_drain_separated_overwrites_replicate n w tr s' :
  arun (ainit n) tr = Some s' -> only_publisher w tr -> joins_ok w tr ->
  ops_at_quiescence (ainit n) tr = true -> aquiescent s' ->
  forall q, peers s' q -> pstore s' q = last (published tr).
Proof.
  intros Hrun Hop Hj Hops Hq q Hpq.
  destruct (ds_run w tr (ainit n) s' (ainit_wf n) (inv_init w n) (cnt_quiescent w _ (ainit_quiescent n))
              (ev_ok_of w tr Hop Hj) Hops Hrun) as (_ & HI & _ & _ & Hs).
  rewrite (inv_quiescent_agree w s' HI Hq q Hpq), Hs.
  unfold pstore at 1. rewrite ainit_getp. apply lastd_None_last.
Qed.
Print Assumptions C06_drain_separated_overwrites_replicate.

(* drain separation excludes S7 (and S12: nobody but the publisher serves) *)
Theorem drain_separated_never_S7 n w tr s' :
  arun (ainit n) tr = Some s' -> only_publisher w tr -> joins_ok w tr ->
  ops_at_quiescence (ainit n) tr = true ->
  known_S7 (ainit n) tr = false /\ forall q, q <> w -> pserved s' q = None.
Proof.
  intros Hrun Hop Hj Hops.
  destruct (ds_run w tr (ainit n) s' (ainit_wf n) (inv_init w n) (cnt_quiescent w _ (ainit_quiescent n))
              (ev_ok_of w tr Hop Hj) Hops Hrun) as (_ & HI & _ & Hsc & _).
  split; [exact Hsc|]. intros q Hne. apply (inv_recv _ _ HI q Hne).
Qed.

Lemma plain_trace rest :
  Forall plain rest -> published rest = [] /\ publishers rest = [] /\ joins rest = [] /\
  forall s, ops_at_quiescence s rest = true.
Proof.
  induction 1 as [|e rest He _ (IH1 & IH2 & IH3 & IH4)]; [repeat split|].
  destruct e; simpl in He; try contradiction; (split; [exact IH1|]; split; [exact IH2|]; split; [exact IH3|]);
    intros s; cbn [ops_at_quiescence]; (destruct (astep s _); [|reflexivity]); rewrite IH4; reflexivity.
Qed.

(* The first publication: a single APublish (by the host or by a client: client -> host -> the other
   clients), then any interleaving of react runs, deliveries and downloads of any number of clients:
   every reachable quiescent state holds the content on every peer. *)
Theorem C06_first_publication_replicates n p c rest s' :
  Forall plain rest -> arun (ainit n) (APublish p c :: rest) = Some s' -> aquiescent s' ->
  forall q, peers s' q -> pstore s' q = Some c.
Proof.
  intros Hpl Hrun Hq q Hpq. destruct (plain_trace rest Hpl) as (H1 & H2 & H3 & H4).
  rewrite (C06_drain_separated_overwrites_replicate n p (APublish p c :: rest) s' Hrun); try assumption.
  - rewrite published_cons, H1. reflexivity.
  - unfold only_publisher. simpl. rewrite H2. repeat constructor.
  - unfold joins_ok, fresh_joins, no_joins. simpl. rewrite H3. destruct (decide (p = host)); [constructor|reflexivity].
  - cbn [ops_at_quiescence]. cbn [arun] in Hrun. destruct (astep (ainit n) (APublish p c)) as [s1|]; [|discriminate].
    rewrite H4. simpl. rewrite andb_true_r. apply bool_decide_eq_true. apply ainit_quiescent.
Qed.
Print Assumptions C06_first_publication_replicates.

Example C06_first_publication_nonvacuous :
  (* a client publishes: client -> host -> other client *)
  (let rest := [AReact 1; ADeliver 1 0; ADownload 0; ADeliver 0 2; AReact 0; ADownload 2; AReact 2] in
   Forall plain rest /\ (aquiescentb <$> arun (ainit 2) (APublish 1 10 :: rest)) = Some true) /\
  (* the host publishes *)
  (let rest := [AReact1 0; ADeliver 0 2; ADeliver 0 1; ADownload 1; ADownload 2; AReact 1; AReact 2] in
   Forall plain rest /\ (aquiescentb <$> arun (ainit 2) (APublish 0 10 :: rest)) = Some true).
Proof. split; (split; [repeat constructor|vm_compute; reflexivity]). Qed.

Example C06_drain_separated_nonvacuous :
  let tr := [APublish 0 10; AReact 0; ADeliver 0 1; ADownload 1; AReact 1;
             AJoin 2 None; ADeliver 0 2; ADownload 2; AReact 2;
             APublish 0 20; AReact 0; ADeliver 0 2; ADeliver 0 1; ADownload 1; ADownload 2; AReact 1; AReact 2] in
  only_publisher 0 tr /\ joins_ok 0 tr /\ ops_at_quiescence (ainit 1) tr = true /\
  (fun s => aview s [0; 1; 2]) <$> arun (ainit 1) tr = Some ([Some 20; Some 20; Some 20], true).
Proof.
  split; [only_pub|]. split; [unfold joins_ok, fresh_joins; vm_compute; repeat constructor|]. split; vm_compute; reflexivity.
Qed.

(* bursts are fine as long as no receiver applies two downloads between two of its react runs *)
Example C06_outside_S7_nonvacuous :
  let tr := [APublish 1 10; AReact 1; APublish 1 20; ADeliver 1 0; APublish 1 30; AReact 1; ADownload 0; AReact1 0;
             ADeliver 0 2; ADeliver 1 0; ADeliver 1 0; ADownload 0; AReact 0; ADownload 0; AReact 0;
             ADeliver 0 2; ADownload 2; AReact 2; ADeliver 0 2; ADownload 2; AReact 2; ADownload 2; AReact 2] in
  only_publisher 1 tr /\ joins_ok 1 tr /\ known_S7 (ainit 2) tr = false /\ ops_at_quiescence (ainit 2) tr = false /\
  (fun s => aview s [0; 1; 2]) <$> arun (ainit 2) tr = Some ([Some 30; Some 30; Some 30], true).
Proof.
  split; [only_pub|]. split; [reflexivity|]. split; [vm_compute; reflexivity|]. split; vm_compute; reflexivity.
Qed.

(* ---------- stability ------------------------------------------------------------------------------ *)

(* from a quiescent state nothing but a publication or a join changes anything *)
Theorem quiescent_is_stable s :
  aquiescent s ->
  (forall p s', astep s (AReact p) = Some s' -> s' = s) /\
  (forall p s', astep s (AReact1 p) = Some s' -> s' = s) /\
  (forall a b, astep s (ADeliver a b) = None) /\
  (forall p, astep s (ADownload p) = None).
Proof.
  intros Hq. split; [|split; [|split]].
  - intros p s'. simpl. destruct (ap s !! p) as [x|] eqn:Hx; [|discriminate].
    destruct Hq as [_ Hq]. destruct (Hq p x Hx) as (-> & _ & _). simpl. congruence.
  - intros p s'. simpl. unfold areact1. destruct (ap s !! p) as [x|] eqn:Hx; [|discriminate].
    destruct Hq as [_ Hq]. destruct (Hq p x Hx) as (He & _ & _). unfold react1_peer. rewrite He.
    intros [= <-]. rewrite insert_id by exact Hx. destruct s; reflexivity.
  - intros a b. simpl. rewrite (quiescent_link s a b Hq). reflexivity.
  - intros p. simpl. destruct (ap s !! p) as [x|] eqn:Hx; [|reflexivity].
    destruct Hq as [_ Hq]. destruct (Hq p x Hx) as (_ & _ & ->). reflexivity.
Qed.
Print Assumptions quiescent_is_stable.

(* On reachable states a token never outlives its event (and an unread event implies a stored content):
   "links empty, no pending downloads, no unread events" IS quiescence. *)
Definition TokEv (s : astate) : Prop :=
  forall p, (ptok s p = true -> pevents s p <> 0%nat) /\ (pevents s p <> 0%nat -> pstore s p <> None).

Lemma tokev_step1 s e s' :
  match e with AReact _ => False | _ => True end -> NoDup (aconn s) -> TokEv s -> astep s e = Some s' -> TokEv s'.
Proof.
  intros He Hnd HT Hstep. destruct e as [p v|p|p|src dst|p|c pre]; [|contradiction| | | |]; intros q.
  - apply step_publish in Hstep as (_ & _ & _ & _ & Hp & Hq).
    destruct (decide (q = p)) as [->|Hne]; unfold ptok, pevents, pstore.
    + rewrite Hp. simpl. split; intros; discriminate.
    + rewrite Hq by assumption. apply HT.
  - apply step_react1 in Hstep as (_ & _ & _ & Hp & Hq & _); [|exact Hnd].
    destruct (decide (q = p)) as [->|Hne]; unfold ptok, pevents, pstore; [|rewrite Hq by assumption; apply HT].
    rewrite Hp. specialize (HT p). unfold ptok, pevents, pstore in HT.
    destruct (react1_cases (getp s p)) as [[E0 E]|[(k & E0 & E1 & E)|[(k & c & E0 & E1 & E2 & E)|(k & c & E0 & E1 & E2 & E)]]];
      rewrite E; cbn [fst]; [exact HT| | |].
    + exfalso. apply (proj2 HT); [rewrite E0; discriminate|exact E1].
    + simpl. split; intros; [discriminate|discriminate].
    + simpl. split; intros; [discriminate|discriminate].
  - apply step_deliver in Hstep as (o & rest & _ & _ & _ & _ & Hp & Hq & _); [|exact Hnd].
    destruct (decide (q = dst)) as [->|Hne]; unfold ptok, pevents, pstore; [|rewrite Hq by assumption; apply HT].
    rewrite Hp. specialize (HT dst). unfold ptok, pevents, pstore in HT. unfold request_peer.
    destruct (served (getp s dst)); [exact HT|exact HT].
  - apply step_download in Hstep as (o & rest & _ & _ & _ & _ & _ & Hp & Hq).
    destruct (decide (q = p)) as [->|Hne]; unfold ptok, pevents, pstore; [|rewrite Hq by assumption; apply HT].
    rewrite Hp. specialize (HT p). unfold ptok, pevents, pstore in HT. unfold download_peer.
    destruct (pserved s o); simpl; [split; intros; discriminate|exact HT].
  - apply step_join in Hstep as (_ & _ & _ & _ & _ & Hpc & Hph & Hq & _).
    destruct (decide (q = c)) as [->|Hne]; unfold ptok, pevents, pstore.
    + rewrite Hpc. simpl. split; [discriminate|congruence].
    + destruct (decide (q = host)) as [->|Hnh]; [rewrite Hph; simpl; apply HT|rewrite Hq by assumption; apply HT].
Qed.

Lemma tokev_run tr : forall s s', awf s -> TokEv s -> arun s tr = Some s' -> TokEv s'.
Proof.
  induction tr as [|e tr IH]; intros s s' Hwf HT Hrun; simpl in Hrun; [inversion Hrun; subst; exact HT|].
  destruct (astep s e) as [s1|] eqn:Hstep; [|discriminate].
  apply (IH s1 s' (step_wf _ _ _ Hwf Hstep)); [|exact Hrun].
  destruct e as [p v|p|p|src dst|p|c pre]; try (eapply tokev_step1; [|apply wf_nodup; exact Hwf|exact HT|exact Hstep]; exact I).
  apply step_react_runs in Hstep.
  pose (P := fun s1 => awf s1 /\ TokEv s1). assert (HP : P s1); [|apply HP].
  eapply (react1s_ind P p); [|split; [exact Hwf|exact HT]|exact Hstep].
  intros s2 s3 [Hw2 HT2] H23. split; [eapply step_wf; eauto|].
  eapply tokev_step1; [|apply wf_nodup; exact Hw2|exact HT2|exact H23]. exact I.
Qed.

Theorem quiescent_is_drained n tr s' :
  arun (ainit n) tr = Some s' ->
  (aquiescent s' <->
   (forall a b, link s' a b = []) /\ (forall p, ppending s' p = []) /\ (forall p, pevents s' p = 0%nat)).
Proof.
  intros Hrun. split.
  - intros Hq. split; [intros; apply quiescent_link; exact Hq|]. split; intros p; apply (quiescent_peer s' p Hq).
  - intros (Hl & Hp & He). apply quiescent_intro; [exact Hl|]. intros p. split; [apply He|]. split; [|apply Hp].
    assert (HT : TokEv s').
    { eapply tokev_run; [apply ainit_wf| |exact Hrun]. intros q. unfold ptok, pevents, pstore. rewrite ainit_getp. simpl.
      split; [discriminate|congruence]. }
    destruct (ptok s' p) eqn:Ht; [|reflexivity]. exfalso. apply (proj1 (HT p) Ht). apply He.
Qed.

(* ---------- traffic --------------------------------------------------------------------------------
   potential: the messages the publisher's unread events and its uplink messages can still cause *)
Definition phi (w : peer) (s : astate) : nat :=
  let N := length (aconn s) in
  (pevents s w * N + (if decide (w = host) then 0 else length (link s w host) * (N - 1)))%nat.

Lemma others_length_lt w l : w ∈ l -> (length (others w l) < length l)%nat.
Proof. intros Hin. unfold others. eapply filter_length_lt; [exact Hin|]. intros H. apply H. reflexivity. Qed.

Lemma traffic_step1 w s e s' :
  match e with AReact1 _ | ADeliver _ _ | ADownload _ => True | _ => False end ->
  awf s -> Inv w s -> astep s e = Some s' ->
  aconn s' = aconn s /\ (sent1 s e + phi w s' <= phi w s)%nat.
Proof.
  intros He Hwf HI Hstep. pose proof (wf_nodup s Hwf) as Hnd.
  destruct e as [p v|p|p|src dst|p|c pre]; try contradiction.
  - (* AReact1 *)
    apply step_react1 in Hstep as (Hex & Hc & _ & Hp & Hq & Hl); [|exact Hnd]. split; [exact Hc|].
    unfold phi. rewrite Hc. cbn [sent1].
    destruct (react1_cases (getp s p)) as [[E0 E]|[(k & E0 & E1 & E)|[(k & c & E0 & E1 & E2 & E)|(k & c & E0 & E1 & E2 & E)]]].
    + rewrite E in *. cbn [fst snd] in *.
      assert (Hlk : link s' w host = link s w host).
      { rewrite Hl. cdec as [[Hf _]|_]; [discriminate|reflexivity]. }
      assert (Hew : pevents s' w = pevents s w).
      { unfold pevents. destruct (decide (w = p)) as [->|Hne]; [rewrite Hp; reflexivity|rewrite Hq by assumption; reflexivity]. }
      rewrite Hlk, Hew. lia.
    + exfalso. eapply (inv_ev_store _ _ HI p); [unfold pevents; rewrite E0; discriminate|exact E1].
    + assert (Hpw : p <> w). { intros ->. pose proof (inv_tok _ _ HI) as Ht. unfold ptok in Ht. congruence. }
      rewrite E in *. cbn [fst snd] in *.
      assert (Hlk : link s' w host = link s w host).
      { rewrite Hl. cdec as [[Hf _]|_]; [discriminate|reflexivity]. }
      unfold pevents. rewrite (Hq w) by congruence. rewrite Hlk. lia.
    + destruct (decide (p = w)) as [->|Hpw].
      2:{ exfalso. destruct (inv_recv _ _ HI p Hpw) as [_ [[H0 _]|[_ H1]]]; unfold pevents, ptok in *; congruence. }
      rewrite E in *. cbn [fst snd] in *. unfold pevents. rewrite Hp. cbn [events]. rewrite E0.
      rewrite Hl. unfold dsts_of. destruct (decide (w = host)) as [->|Hwh].
      * change (host =? host)%N with true. cbv iota. lia.
      * destruct (w =? host)%N eqn:E'; [apply N.eqb_eq in E'; contradiction|].
        destruct (decide (true = true /\ w = w /\ host ∈ [host])) as [_|Hn];
          [|exfalso; apply Hn; split; [reflexivity|split; [reflexivity|apply elem_of_list_singleton; reflexivity]]].
        rewrite app_length.
        assert (Hin : w ∈ aconn s). { apply (wf_exists s w Hwf) in Hex as [?|?]; [contradiction|assumption]. }
        assert (length (aconn s) >= 1)%nat by (destruct (aconn s); [inversion Hin|simpl; lia]).
        simpl. nia.
  - (* ADeliver *)
    apply step_deliver in Hstep as (o & rest & Hl0 & Hd & Hc & _ & Hp & Hq & Hl); [|exact Hnd]. split; [exact Hc|].
    destruct (deliver_shape w s src dst o rest Hwf HI Hl0) as (-> & Hdw & Hsd & Hshape).
    unfold phi. rewrite Hc. unfold pevents. rewrite (Hq w) by congruence. cbn [sent1]. rewrite Hl0.
    destruct Hshape as [(-> & Hin & Hdh)|(-> & -> & Hwh & Hin)].
    + destruct (dst =? host)%N eqn:E; [apply N.eqb_eq in E; contradiction|].
      rewrite Hl. destruct (decide ((w, host) = (host, dst))) as [Heq|_]; [inversion Heq; congruence|].
      destruct (decide (dst = host /\ _)) as [[? _]|_]; [contradiction|]. rewrite app_nil_r. lia.
    + change (host =? host)%N with true. cbv iota.
      destruct (decide (w = host)) as [?|_]; [contradiction|].
      rewrite Hl. destruct (decide ((w, host) = (w, host))) as [_|?]; [|congruence].
      destruct (decide (host = host /\ w = host /\ _)) as [(_ & ? & _)|_]; [contradiction|]. rewrite app_nil_r.
      rewrite Hl0. cbn [length]. pose proof (others_length_lt w (aconn s) Hin). nia.
  - (* ADownload *)
    apply step_download in Hstep as (o & rest & Hp0 & Hex & Hc & Hl & _ & Hp & Hq). split; [exact Hc|].
    assert (Hpw : p <> w). { intros ->. rewrite (inv_pend _ _ HI) in Hp0. discriminate. }
    unfold phi, link, pevents. rewrite Hc, Hl, (Hq w) by congruence. simpl. lia.
Qed.

Definition tr_ok (w : peer) (e : aevent) : Prop :=
  match e with APublish q _ => q = w | AJoin _ _ => False | _ => True end.

Lemma tr_ok_ev_ok w e : tr_ok w e -> ev_ok w e.
Proof. destruct e; simpl; tauto. Qed.

Lemma traffic_react w p k : forall s s',
  awf s -> Inv w s -> areact_n k s p = Some s' ->
  aconn s' = aconn s /\ (sent_react k s p + phi w s' <= phi w s)%nat.
Proof.
  induction k as [|k IHk]; intros s s' Hwf HI Hstep; cbn [areact_n sent_react] in Hstep |- *.
  - inversion Hstep; subst. split; [reflexivity|lia].
  - destruct (areact1 s p) as [s2|] eqn:H2; [|discriminate].
    destruct (traffic_step1 w s (AReact1 p) s2 I Hwf HI H2) as [Hc2 Hle2].
    destruct (inv_step1 w s (AReact1 p) s2 I Hwf HI I eq_refl H2) as [HI2 _].
    destruct (IHk s2 s' (step_wf _ (AReact1 p) _ Hwf H2) HI2 Hstep) as [Hc1 Hle1].
    split; [congruence|]. lia.
Qed.

Lemma traffic_run w tr : forall s s',
  awf s -> Inv w s -> Forall (tr_ok w) tr -> scan bad_S7 s tr = false -> arun s tr = Some s' ->
  aconn s' = aconn s /\ (total_sent s tr + phi w s' <= phi w s + length (published tr) * length (aconn s))%nat.
Proof.
  induction tr as [|e tr IH]; intros s s' Hwf HI Hok Hbad Hrun.
  - simpl in Hrun. inversion Hrun; subst. simpl. split; [reflexivity|lia].
  - cbn [arun] in Hrun. cbn [total_sent]. cbn [scan] in Hbad. destruct (astep s e) as [s1|] eqn:Hstep; [|discriminate].
    apply orb_false_iff in Hbad as [Hb1 Hb2]. apply Forall_cons in Hok as [He Hok].
    destruct (inv_step w s e s1 Hwf HI (tr_ok_ev_ok _ _ He) Hb1 Hstep) as [HI1 _].
    destruct (IH s1 s' (step_wf _ _ _ Hwf Hstep) HI1 Hok Hb2 Hrun) as [Hcn IHle].
    assert (H1 : aconn s1 = aconn s /\
                 (sent_by s e + phi w s1 <= phi w s + (match e with APublish _ _ => length (aconn s) | _ => 0 end))%nat).
    { destruct e as [p v|p|p|src dst|p|c pre]; [| | | | |contradiction].
      - simpl in He. subst p. apply step_publish in Hstep as (_ & Hc & Hl & _ & Hp & _). split; [exact Hc|].
        unfold phi, link, pevents. rewrite Hc, Hl, Hp. cbn [events sent_by sent1]. unfold pevents. rewrite Nat.mul_succ_l. destruct (decide (w = host)); lia.
      - simpl in Hstep. simpl sent_by.
        destruct (ap s !! p) as [x|] eqn:Hx; [|discriminate]. unfold pevents. rewrite (getp_exists _ _ _ Hx).
        destruct (traffic_react w p (events x) s s1 Hwf HI Hstep) as [Hc Hle]. split; [exact Hc|]. lia.
      - destruct (traffic_step1 w s (AReact1 p) s1 I Hwf HI Hstep) as [Hc Hle]. split; [exact Hc|]. cbn [sent_by]. lia.
      - destruct (traffic_step1 w s (ADeliver src dst) s1 I Hwf HI Hstep) as [Hc Hle]. split; [exact Hc|]. cbn [sent_by]. lia.
      - destruct (traffic_step1 w s (ADownload p) s1 I Hwf HI Hstep) as [Hc Hle]. split; [exact Hc|]. cbn [sent_by]. lia. }
    destruct H1 as [Hc1 Hle1]. rewrite Hc1 in *. split; [exact Hcn|].
    rewrite published_cons. destruct e; simpl length; lia.
Qed.

Lemma phi_quiescent w s : aquiescent s -> phi w s = 0%nat.
Proof.
  intros Hq. unfold phi. destruct (quiescent_peer s w Hq) as (-> & _ & _). rewrite (quiescent_link s w host Hq).
  simpl. destruct (decide (w = host)); lia.
Qed.

Lemma tr_ok_of w tr : only_publisher w tr -> no_joins tr -> Forall (tr_ok w) tr.
Proof.
  unfold only_publisher, no_joins. induction tr as [|e tr IH]; intros Hp Hj; [constructor|].
  destruct e as [p v|p|p|src dst|p|c pre]; simpl in Hp, Hj; try (constructor; [exact I|apply IH; assumption]).
  - apply Forall_cons in Hp as [-> Hp]. constructor; [reflexivity|apply IH; assumption].
  - discriminate.
Qed.

(* k publications of one peer cause at most k * n messages (relays included) in every run outside the
   class S7, whatever the interleaving *)
Theorem asset_messages_bounded_run n w tr s' :
  arun (ainit n) tr = Some s' -> only_publisher w tr -> no_joins tr -> known_S7 (ainit n) tr = false ->
  (total_sent (ainit n) tr <= length (published tr) * n)%nat.
Proof.
  intros Hrun Hop Hnj Hk.
  destruct (traffic_run w tr (ainit n) s' (ainit_wf n) (inv_init w n) (tr_ok_of w tr Hop Hnj) Hk Hrun) as [_ Hle].
  rewrite (phi_quiescent w _ (ainit_quiescent n)) in Hle. simpl aconn in Hle. rewrite length_clients in Hle. lia.
Qed.
Print Assumptions asset_messages_bounded_run.

(* the first publication costs at most n messages: 1 + (n-1) relays for a client, n for the host *)
Theorem asset_messages_bounded n p c rest s' :
  Forall plain rest -> arun (ainit n) (APublish p c :: rest) = Some s' ->
  (total_sent (ainit n) (APublish p c :: rest) <= n)%nat.
Proof.
  intros Hpl Hrun. destruct (plain_trace rest Hpl) as (H1 & H2 & H3 & H4).
  assert (Hop : only_publisher p (APublish p c :: rest)) by (unfold only_publisher; simpl; rewrite H2; repeat constructor).
  assert (Hnj : no_joins (APublish p c :: rest)) by (unfold no_joins; simpl; exact H3).
  assert (Hj : joins_ok p (APublish p c :: rest)).
  { unfold joins_ok, fresh_joins. destruct (decide (p = host)); [rewrite Hnj; apply Forall_nil_2|exact Hnj]. }
  assert (Hops : ops_at_quiescence (ainit n) (APublish p c :: rest) = true).
  { cbn [ops_at_quiescence]. cbn [arun] in Hrun. destruct (astep (ainit n) (APublish p c)) as [s1|]; [|discriminate].
    rewrite H4. simpl. rewrite andb_true_r. apply bool_decide_eq_true. apply ainit_quiescent. }
  destruct (drain_separated_never_S7 n p _ s' Hrun Hop Hj Hops) as [Hk _].
  pose proof (asset_messages_bounded_run n p _ s' Hrun Hop Hnj Hk) as Hle.
  rewrite published_cons, H1 in Hle. cbn [length] in Hle. lia.
Qed.
Print Assumptions asset_messages_bounded.

Example traffic_tight :
  total_sent (ainit 3) [APublish 1 10; AReact 1; ADeliver 1 0; ADownload 0; AReact 0; ADeliver 0 2; ADeliver 0 3;
                        ADownload 2; ADownload 3; AReact 2; AReact 3] = 3%nat /\
  total_sent (ainit 3) [APublish 0 10; AReact 0; ADeliver 0 1; ADeliver 0 2; ADeliver 0 3;
                        ADownload 1; ADownload 2; ADownload 3; AReact 1; AReact 2; AReact 3] = 3%nat.
Proof. vm_compute. auto. Qed.

(* ================================================================================================
   Part 6: joins.  A fresh client c joins in a quiescent state in which every peer holds v.
   [JInv c v s]: everybody but c is idle and holds v, the only traffic is the snapshot announcement on
   (host, c) and c's download from the host, at most one of them, covered by one token.
   ================================================================================================ *)

Record JInv (c : peer) (v : option content) (s : astate) : Prop := {
  j_ch : c <> host;
  j_frozen : forall q, q <> c ->
    (peers s q -> pstore s q = v) /\ pevents s q = 0%nat /\ ptok s q = false /\ ppending s q = [];
  j_links : forall a b, (a, b) <> (host, c) -> link s a b = [];
  j_owner_l : forall o, o ∈ link s host c -> o = host;
  j_owner_p : forall o, o ∈ ppending s c -> o = host;
  j_served_c : pserved s c = None;
  j_cnt : (length (link s host c) + length (ppending s c) + pevents s c <= 1)%nat;
  j_tok : pevents s c = 0%nat /\ ptok s c = false \/ pevents s c = 1%nat /\ ptok s c = true;
  j_ev_store : pevents s c <> 0%nat -> pstore s c <> None;
  j_host : (v <> None /\ pserved s host = v) \/ (link s host c = [] /\ ppending s c = []);
  j_store : pstore s c = v \/ link s host c <> [] \/ ppending s c <> []
}.

Lemma jinv_ext c v s s' :
  (forall q, getp s' q = getp s q) -> (forall a b, link s' a b = link s a b) -> aconn s' = aconn s ->
  JInv c v s -> JInv c v s'.
Proof.
  intros Hg Hl Hc HJ. destruct HJ.
  constructor; unfold peers, pstore, pevents, ptok, pserved, ppending in *; intros; rewrite ?Hg, ?Hl, ?Hc in *; eauto.
Qed.

Lemma jinv_step1 c v s e s' :
  match e with AReact1 _ | ADeliver _ _ | ADownload _ => True | _ => False end ->
  awf s -> JInv c v s -> astep s e = Some s' -> JInv c v s' /\ aconn s' = aconn s.
Proof.
  intros He Hwf HJ Hstep. pose proof (wf_nodup s Hwf) as Hnd.
  destruct e as [p x|p|p|src dst|p|c' pre]; try contradiction.
  - (* AReact1 *)
    apply step_react1 in Hstep as (Hex & Hc & _ & Hp & Hq & Hl); [|exact Hnd]. split; [|exact Hc].
    destruct (react1_cases (getp s p)) as [[E0 E]|[(k & E0 & E1 & E)|[(k & x & E0 & E1 & E2 & E)|(k & x & E0 & E1 & E2 & E)]]].
    + eapply jinv_ext; [| |exact Hc|exact HJ].
      * intros q. destruct (decide (q = p)) as [->|Hne]; [rewrite Hp, E; reflexivity|apply Hq; exact Hne].
      * intros a b. rewrite Hl, E. cbn [snd]. cdec as [[Hf _]|_]; [discriminate|reflexivity].
    + exfalso. destruct (decide (p = c)) as [->|Hne].
      * eapply (j_ev_store _ _ _ HJ); [unfold pevents; rewrite E0; discriminate|exact E1].
      * destruct (j_frozen _ _ _ HJ p Hne) as (_ & H0 & _). unfold pevents in H0. congruence.
    + assert (Hpc : p = c).
      { destruct (decide (p = c)) as [?|Hne]; [assumption|].
        destruct (j_frozen _ _ _ HJ p Hne) as (_ & H0 & _). unfold pevents in H0. congruence. }
      subst p.
      assert (Hk : k = 0%nat).
      { destruct (j_tok _ _ _ HJ) as [[H0 _]|[H1 _]]; unfold pevents in *; [congruence|lia]. }
      subst k. rewrite E in Hp, Hl. cbn [fst snd] in Hp, Hl.
      assert (Hlk : forall a b, link s' a b = link s a b).
      { intros a b. rewrite Hl. cdec as [[Hf _]|_]; [discriminate|reflexivity]. }
      assert (Hothers : forall q, q <> c -> getp s' q = getp s q) by exact Hq.
      destruct HJ. constructor; unfold peers; intros; rewrite ?Hlk, ?Hc in *; eauto.
      * unfold pstore, pevents, ptok, ppending. rewrite Hothers by assumption. apply j_frozen0. assumption.
      * unfold ppending in H. rewrite Hp in H. simpl in H. apply j_owner_p0. exact H.
      * unfold pserved. rewrite Hp. exact j_served_c0.
      * unfold ppending, pevents. rewrite Hp. simpl. unfold ppending, pevents in j_cnt0. lia.
      * left. unfold pevents, ptok. rewrite Hp. auto.
      * unfold pevents in H. rewrite Hp in H. simpl in H. congruence.
      * unfold pserved, ppending. rewrite (Hothers host) by auto. rewrite Hp. exact j_host0.
      * unfold pstore, ppending. rewrite Hp. simpl. rewrite <- E1. exact j_store0.
    + exfalso. destruct (decide (p = c)) as [->|Hne].
      * destruct (j_tok _ _ _ HJ) as [[H0 _]|[_ H1]]; unfold pevents, ptok in *; congruence.
      * destruct (j_frozen _ _ _ HJ p Hne) as (_ & H0 & _). unfold pevents in H0. congruence.
  - (* ADeliver *)
    apply step_deliver in Hstep as (o & rest & Hl0 & Hd & Hc & _ & Hp & Hq & Hl); [|exact Hnd]. split; [|exact Hc].
    assert (Hsd : (src, dst) = (host, c)).
    { destruct (decide ((src, dst) = (host, c))) as [?|Hne]; [assumption|].
      rewrite (j_links _ _ _ HJ src dst Hne) in Hl0. discriminate. }
    inversion Hsd; subst src dst. pose proof (j_ch _ _ _ HJ) as Hch.
    assert (Hoh : o = host) by (apply (j_owner_l _ _ _ HJ); rewrite Hl0; left). subst o.
    assert (Hp' : getp s' c = APeer (pstore s c) (pevents s c) (ptok s c) None (ppending s c ++ [host])).
    { rewrite Hp. unfold request_peer. pose proof (j_served_c _ _ _ HJ) as Hs. unfold pserved in Hs. rewrite Hs. reflexivity. }
    assert (Hlk : forall a b, link s' a b = if decide ((a, b) = (host, c)) then rest else link s a b).
    { intros a b. rewrite Hl. destruct (decide (c = host /\ _)) as [[? _]|_]; [contradiction|]. apply app_nil_r. }
    assert (Hflight : v <> None /\ pserved s host = v).
    { destruct (j_host _ _ _ HJ) as [H|[H _]]; [exact H|]. rewrite H in Hl0. discriminate. }
    destruct HJ. constructor; unfold peers; intros; rewrite ?Hc in *; eauto.
    + unfold pstore, pevents, ptok, ppending. rewrite Hq by assumption. apply j_frozen0. assumption.
    + rewrite Hlk. destruct (decide ((a, b) = (host, c))); [contradiction|apply j_links0; assumption].
    + rewrite Hlk in H. destruct (decide ((host, c) = (host, c))) as [_|?]; [|congruence].
      apply j_owner_l0. rewrite Hl0. right. exact H.
    + unfold ppending in H. rewrite Hp' in H. simpl in H. apply elem_of_app in H as [H|H]; [apply j_owner_p0; exact H|].
      apply elem_of_list_singleton in H. exact H.
    + unfold pserved. rewrite Hp'. reflexivity.
    + rewrite Hlk. destruct (decide ((host, c) = (host, c))) as [_|?]; [|congruence].
      unfold ppending, pevents. rewrite Hp'. cbn [pending events]. rewrite app_length. cbn [length].
      rewrite Hl0 in j_cnt0. cbn [length] in j_cnt0. fold (ppending s c). fold (pevents s c). lia.
    + unfold pevents, ptok. rewrite Hp'. exact j_tok0.
    + unfold pevents, pstore in *. rewrite Hp' in *. simpl in *. auto.
    + left. unfold pserved. rewrite Hq by auto. exact Hflight.
    + right. right. unfold ppending. rewrite Hp'. simpl. apply app_not_nil_r. discriminate.
  - (* ADownload *)
    apply step_download in Hstep as (o & rest & Hp0 & Hex & Hc & Hl & _ & Hp & Hq). split; [|exact Hc].
    assert (Hlk : forall a b, link s' a b = link s a b) by (intros; unfold link; rewrite Hl; reflexivity).
    assert (Hpc : p = c).
    { destruct (decide (p = c)) as [?|Hne]; [assumption|].
      destruct (j_frozen _ _ _ HJ p Hne) as (_ & _ & _ & H0). rewrite H0 in Hp0. discriminate. }
    subst p. pose proof (j_ch _ _ _ HJ) as Hch.
    assert (Hoh : o = host) by (apply (j_owner_p _ _ _ HJ); rewrite Hp0; left). subst o.
    assert (Hflight : v <> None /\ pserved s host = v).
    { destruct (j_host _ _ _ HJ) as [H|[_ H]]; [exact H|]. rewrite H in Hp0. discriminate. }
    destruct Hflight as [Hv Hsh]. destruct v as [x|]; [|congruence].
    pose proof (j_cnt _ _ _ HJ) as Hcnt. rewrite Hp0 in Hcnt. cbn [length] in Hcnt.
    assert (He0 : pevents s c = 0%nat) by lia.
    assert (Hl0 : link s host c = []) by (destruct (link s host c); [reflexivity|simpl in Hcnt; lia]).
    assert (Hr : rest = []) by (destruct rest; [reflexivity|simpl in Hcnt; lia]).
    assert (Hp' : getp s' c = APeer (Some x) 1 true (pserved s c) []).
    { rewrite Hp, Hsh. unfold download_peer. unfold pevents, ppending in *. rewrite He0, Hp0, Hr. reflexivity. }
    destruct HJ. constructor; unfold peers; intros; rewrite ?Hlk, ?Hc in *; eauto.
    + unfold pstore, pevents, ptok, ppending. rewrite Hq by assumption. apply j_frozen0. assumption.
    + unfold ppending in H. rewrite Hp' in H. inversion H.
    + unfold pserved. rewrite Hp'. exact j_served_c0.
    + unfold ppending, pevents. rewrite Hp', Hl0. simpl. lia.
    + right. unfold pevents, ptok. rewrite Hp'. auto.
    + unfold pstore. rewrite Hp'. discriminate.
    + left. split; [discriminate|]. unfold pserved. rewrite Hq by auto. exact Hsh.
    + left. unfold pstore. rewrite Hp'. reflexivity.
Qed.

Lemma jinv_run c v tr : forall s s',
  awf s -> JInv c v s -> Forall plain tr -> arun s tr = Some s' ->
  awf s' /\ JInv c v s' /\ aconn s' = aconn s.
Proof.
  induction tr as [|e tr IH]; intros s s' Hwf HJ Hpl Hrun.
  - simpl in Hrun. inversion Hrun; subst. auto.
  - cbn [arun] in Hrun. destruct (astep s e) as [s1|] eqn:Hstep; [|discriminate].
    apply Forall_cons in Hpl as [He Hpl].
    assert (H1 : JInv c v s1 /\ aconn s1 = aconn s).
    { destruct e as [p x|p|p|src dst|p|c' pre]; try (simpl in He; contradiction);
        try (eapply jinv_step1; [|exact Hwf|exact HJ|exact Hstep]; exact I).
      apply step_react_runs in Hstep.
      pose (P := fun s1 => awf s1 /\ JInv c v s1 /\ aconn s1 = aconn s).
      assert (HP : P s1); [|destruct HP as (_ & H1 & H2); auto].
      eapply (react1s_ind P p); [|split; [exact Hwf|split; [exact HJ|reflexivity]]|exact Hstep].
      intros s2 s3 (Hw2 & HJ2 & Hc2) H23. split; [eapply step_wf; eauto|].
      destruct (jinv_step1 c v s2 (AReact1 p) s3 I Hw2 HJ2 H23) as [HJ3 Hc3]. split; [exact HJ3|congruence]. }
    destruct H1 as [HJ1 Hc1].
    destruct (IH s1 s' (step_wf _ _ _ Hwf Hstep) HJ1 Hpl Hrun) as (Hwf' & HJ' & Hc'). split; [exact Hwf'|]. split; [exact HJ'|congruence].
Qed.

Lemma jinv_after_join s c v s2 :
  awf s -> aquiescent s -> (forall q, peers s q -> pstore s q = v) -> astep s (AJoin c None) = Some s2 ->
  JInv c v s2 /\ aconn s2 = aconn s ++ [c].
Proof.
  intros Hwf Hqs Hag Hstep. apply step_join in Hstep as (Hch & Hcn & Hnone & Hc & _ & Hpc & Hph & Hq & Hl).
  split; [|exact Hc].
  assert (Hvh : pstore s host = v) by (apply Hag; left; reflexivity).
  assert (Hgetq : forall q, q <> c -> pstore s2 q = pstore s q /\ pevents s2 q = pevents s q /\ ptok s2 q = ptok s q /\ ppending s2 q = ppending s q).
  { intros q Hne. unfold pstore, pevents, ptok, ppending. destruct (decide (q = host)) as [->|Hnh].
    - rewrite Hph. simpl. auto.
    - rewrite Hq by assumption. auto. }
  assert (Hlc : link s2 host c = snapshot s).
  { rewrite Hl. destruct (decide ((host, c) = (host, c))) as [_|?]; [|congruence]. rewrite (quiescent_link s _ _ Hqs). reflexivity. }
  constructor; unfold peers; intros.
  - exact Hch.
  - destruct (Hgetq q H) as (-> & -> & -> & ->). destruct (quiescent_peer s q Hqs) as (-> & -> & ->).
    split; [|auto]. intros Hp. apply Hag. rewrite Hc in Hp. destruct Hp as [Hp|Hp]; [left; exact Hp|].
    apply elem_of_app in Hp as [Hp|Hp]; [right; exact Hp|]. apply elem_of_list_singleton in Hp. contradiction.
  - rewrite Hl. destruct (decide ((a, b) = (host, c))); [contradiction|]. apply quiescent_link. exact Hqs.
  - rewrite Hlc in H. unfold snapshot in H. destruct (pstore s host); [apply elem_of_list_singleton in H; exact H|inversion H].
  - unfold ppending in H. rewrite Hpc in H. inversion H.
  - unfold pserved. rewrite Hpc. reflexivity.
  - rewrite Hlc. unfold ppending, pevents. rewrite Hpc. simpl. unfold snapshot. destruct (pstore s host); simpl; lia.
  - left. unfold pevents, ptok. rewrite Hpc. auto.
  - unfold pevents in H. rewrite Hpc in H. simpl in H. congruence.
  - rewrite Hlc. unfold snapshot, pserved, ppending. rewrite Hph, Hpc. unfold serve_store. simpl. fold (pstore s host).
    rewrite Hvh. destruct v as [x|]; [left; split; [discriminate|reflexivity]|right; auto].
  - rewrite Hlc. unfold snapshot, pstore at 1. rewrite Hpc. simpl. rewrite Hvh.
    destruct v as [x|]; [right; left; discriminate|left; reflexivity].
Qed.

Lemma jinv_quiescent c v s : JInv c v s -> aquiescent s -> forall q, peers s q -> pstore s q = v.
Proof.
  intros HJ Hq q Hp. destruct (decide (q = c)) as [->|Hne]; [|apply (j_frozen _ _ _ HJ q Hne); exact Hp].
  destruct (j_store _ _ _ HJ) as [H|[H|H]]; [exact H| |].
  - rewrite (quiescent_link s _ _ Hq) in H. contradiction.
  - destruct (quiescent_peer s c Hq) as (_ & _ & H'). contradiction.
Qed.

(* a fresh client joining in ANY quiescent state in which all peers agree ends up, at quiescence, with
   the same content -- whatever happened before (in particular whoever the publishers were) *)
Theorem join_from_agreement s c v s2 tr2 s' :
  awf s -> aquiescent s -> (forall q, peers s q -> pstore s q = v) ->
  astep s (AJoin c None) = Some s2 -> Forall plain tr2 -> arun s2 tr2 = Some s' -> aquiescent s' ->
  c ∈ aconn s' /\ forall q, peers s' q -> pstore s' q = v.
Proof.
  intros Hwf Hqs Hag Hstep Hpl Hrun Hq'.
  destruct (jinv_after_join s c v s2 Hwf Hqs Hag Hstep) as [HJ2 Hc2].
  destruct (jinv_run c v tr2 s2 s' (step_wf _ _ _ Hwf Hstep) HJ2 Hpl Hrun) as (_ & HJ' & Hc').
  split; [rewrite Hc', Hc2; apply elem_of_app; right; apply elem_of_list_singleton; reflexivity|].
  apply (jinv_quiescent c v s' HJ' Hq').
Qed.
Print Assumptions join_from_agreement.

Lemma arun_app s tr1 tr2 : arun s (tr1 ++ tr2) = match arun s tr1 with Some s1 => arun s1 tr2 | None => None end.
Proof. revert s. induction tr1 as [|e tr1 IH]; intros s; simpl; [reflexivity|]. destruct (astep s e); auto. Qed.

Lemma ops_app s tr1 tr2 s1 :
  arun s tr1 = Some s1 -> ops_at_quiescence s (tr1 ++ tr2) = true ->
  ops_at_quiescence s tr1 = true /\ ops_at_quiescence s1 tr2 = true.
Proof.
  revert s. induction tr1 as [|e tr1 IH]; intros s Hrun Hops; simpl in Hrun.
  - inversion Hrun; subst. auto.
  - cbn [app ops_at_quiescence] in Hops |- *. destruct (astep s e) as [s2|]; [|discriminate].
    apply andb_true_iff in Hops as [H1 H2]. destruct (IH s2 Hrun H2) as [H3 H4]. rewrite H1, H3. auto.
Qed.

(* join_gets_asset: after a drain-separated single-publisher history (host or client), a fresh client
   that joins in a quiescent state ends with the host's content, which is the last published one *)
Theorem join_gets_asset n w tr1 c tr2 s' :
  arun (ainit n) (tr1 ++ AJoin c None :: tr2) = Some s' ->
  only_publisher w tr1 -> joins_ok w tr1 -> ops_at_quiescence (ainit n) (tr1 ++ AJoin c None :: tr2) = true ->
  Forall plain tr2 -> aquiescent s' ->
  c ∈ aconn s' /\ pstore s' c = pstore s' host /\ forall q, peers s' q -> pstore s' q = last (published tr1).
Proof.
  intros Hrun Hop Hj Hops Hpl Hq'. rewrite arun_app in Hrun.
  destruct (arun (ainit n) tr1) as [s1|] eqn:Hrun1; [|discriminate]. cbn [arun] in Hrun.
  destruct (astep s1 (AJoin c None)) as [s2|] eqn:Hstep; [|discriminate].
  destruct (ops_app _ _ _ _ Hrun1 Hops) as [Hops1 Hops2]. cbn [ops_at_quiescence] in Hops2. rewrite Hstep in Hops2.
  apply andb_true_iff in Hops2 as [Hq1 _]. simpl in Hq1. apply bool_decide_eq_true in Hq1.
  pose proof (C06_drain_separated_overwrites_replicate n w tr1 s1 Hrun1 Hop Hj Hops1 Hq1) as Hag.
  destruct (join_from_agreement s1 c _ s2 tr2 s' (run_wf _ _ _ (ainit_wf n) Hrun1) Hq1 Hag Hstep Hpl Hrun Hq') as [Hin Hall].
  split; [exact Hin|]. split; [|exact Hall]. rewrite (Hall c (or_intror Hin)), (Hall host (or_introl eq_refl)). reflexivity.
Qed.
Print Assumptions join_gets_asset.

Example join_gets_asset_nonvacuous :
  let tr1 := [APublish 1 10; AReact 1; ADeliver 1 0; ADownload 0; ADeliver 0 2; AReact 0; ADownload 2; AReact 2;
              APublish 1 20; AReact 1; ADeliver 1 0; ADeliver 0 2; ADownload 2; ADownload 0; AReact 0; AReact 2] in
  let tr2 := [ADeliver 0 3; ADownload 3; AReact 3] in
  only_publisher 1 tr1 /\ joins_ok 1 tr1 /\ ops_at_quiescence (ainit 2) (tr1 ++ AJoin 3 None :: tr2) = true /\
  Forall plain tr2 /\
  (fun s => aview s [0; 1; 2; 3]) <$> arun (ainit 2) (tr1 ++ AJoin 3 None :: tr2)
  = Some ([Some 20; Some 20; Some 20; Some 20], true).
Proof.
  split; [only_pub|]. split; [reflexivity|]. split; [vm_compute; reflexivity|]. split; [repeat constructor|vm_compute; reflexivity].
Qed.

(* ================================================================================================
   Part M: materials (inline content)
   ================================================================================================ *)

Lemma lastd_app d l1 l2 : lastd d (l1 ++ l2) = lastd (lastd d l1) l2.
Proof. unfold lastd. apply foldl_app. Qed.
Lemma lastd_snoc d l v : lastd d (l ++ [v]) = Some v.
Proof. rewrite lastd_app. reflexivity. Qed.

Lemma mgetp_insert m c l p x : mgetp (MState (<[p := x]> m) c l) p = x.
Proof. unfold mgetp. simpl. rewrite lookup_insert. reflexivity. Qed.
Lemma mgetp_insert_ne m c l c' l' p q x :
  q <> p -> mgetp (MState (<[p := x]> m) c l) q = mgetp (MState m c' l') q.
Proof. intros H. unfold mgetp. simpl. rewrite lookup_insert_ne by congruence. reflexivity. Qed.
Lemma mgetp_exists s p x : mp s !! p = Some x -> mgetp s p = x.
Proof. intros H. unfold mgetp. rewrite H. reflexivity. Qed.

Lemma mexists_insert (m : gmap peer mpeer) p x y q :
  m !! p = Some y -> is_Some (<[p := x]> m !! q) <-> is_Some (m !! q).
Proof.
  intros Hy. destruct (decide (q = p)) as [->|Hne].
  - rewrite lookup_insert, Hy. split; eauto.
  - rewrite lookup_insert_ne by congruence. reflexivity.
Qed.

Lemma mstep_publish s p c s' :
  mstep s (MPublish p c) = Some s' ->
  is_Some (mp s !! p) /\ mconn s' = mconn s /\ mlinks s' = mlinks s /\
  (forall q, is_Some (mp s' !! q) <-> is_Some (mp s !! q)) /\
  mgetp s' p = MPeer (Some c) (S (mpevents s p)) (mptok s p) /\
  (forall q, q <> p -> mgetp s' q = mgetp s q).
Proof.
  simpl. destruct (mp s !! p) as [x|] eqn:Hx; [|discriminate]. intros [= <-].
  unfold mpevents, mptok. rewrite (mgetp_exists _ _ _ Hx).
  split; [eauto|]. split; [reflexivity|]. split; [reflexivity|]. split; [|split].
  - intros q. simpl. eapply mexists_insert; eauto.
  - apply mgetp_insert.
  - intros q Hne. destruct s; simpl. apply mgetp_insert_ne. exact Hne.
Qed.

Lemma mreact1_cases x :
  (mevents x = 0%nat /\ mreact1_peer x = (x, None)) \/
  (exists k, mevents x = S k /\ mstore x = None /\ mreact1_peer x = (MPeer None k (mtok x), None)) \/
  (exists k c, mevents x = S k /\ mstore x = Some c /\ mtok x = true /\ mreact1_peer x = (MPeer (Some c) k false, None)) \/
  (exists k c, mevents x = S k /\ mstore x = Some c /\ mtok x = false /\ mreact1_peer x = (MPeer (Some c) k false, Some c)).
Proof.
  unfold mreact1_peer. destruct (mevents x) as [|k]; [left; auto|]. right.
  destruct (mstore x) as [c|]; [|left; eauto]. right.
  destruct (mtok x); [left|right]; eauto 10.
Qed.

Definition mann_links (s : mstate) (p : peer) (ann : option content) (a b : peer) : list content :=
  match ann with
  | Some c => if decide (a = p /\ b ∈ mdsts_of s p) then mlink s a b ++ [c] else mlink s a b
  | None => mlink s a b
  end.

Lemma mstep_react1 s p s' :
  NoDup (mconn s) ->
  mstep s (MReact1 p) = Some s' ->
  is_Some (mp s !! p) /\ mconn s' = mconn s /\
  (forall q, is_Some (mp s' !! q) <-> is_Some (mp s !! q)) /\
  mgetp s' p = (mreact1_peer (mgetp s p)).1 /\
  (forall q, q <> p -> mgetp s' q = mgetp s q) /\
  (forall a b, mlink s' a b = mann_links s p (mreact1_peer (mgetp s p)).2 a b).
Proof.
  intros Hnd. simpl. unfold mreact1. destruct (mp s !! p) as [x|] eqn:Hx; [|discriminate].
  rewrite (mgetp_exists _ _ _ Hx). destruct (mreact1_peer x) as [x' ann] eqn:Hr. intros [= <-].
  split; [eauto|]. split; [reflexivity|]. split; [|split; [|split]].
  - intros q. simpl. eapply mexists_insert; eauto.
  - apply mgetp_insert.
  - intros q Hne. destruct s; simpl. apply mgetp_insert_ne. exact Hne.
  - intros a b. unfold mlink, mann_links. simpl. destruct ann as [c|]; [|reflexivity].
    apply lget_send_to. unfold mdsts_of. destruct (p =? host)%N; [exact Hnd|apply NoDup_singleton].
Qed.

Lemma mreact_n_run k s p : mreact_n k s p = mrun s (replicate k (MReact1 p)).
Proof. revert s. induction k as [|k IH]; intros s; simpl; [reflexivity|]. destruct (mreact1 s p); auto. Qed.

Lemma mstep_react_runs s p s' :
  mstep s (MReact p) = Some s' -> mrun s (replicate (mpevents s p) (MReact1 p)) = Some s'.
Proof.
  simpl. destruct (mp s !! p) as [x|] eqn:Hx; [|discriminate]. unfold mpevents. rewrite (mgetp_exists _ _ _ Hx).
  rewrite mreact_n_run. auto.
Qed.

Lemma mreact1s_ind (P : mstate -> Prop) p :
  (forall s s', P s -> mstep s (MReact1 p) = Some s' -> P s') ->
  forall k s s', P s -> mrun s (replicate k (MReact1 p)) = Some s' -> P s'.
Proof.
  intros Hstep. induction k as [|k IH]; intros s s' HP Hrun; simpl in Hrun.
  - inversion Hrun; subst. exact HP.
  - destruct (mreact1 s p) as [s1|] eqn:H1; [|discriminate]. eapply IH; [|exact Hrun]. eapply Hstep; eauto.
Qed.

Lemma mstep_deliver s src dst s' :
  NoDup (mconn s) ->
  mstep s (MDeliver src dst) = Some s' ->
  exists c rest, mlink s src dst = c :: rest /\ is_Some (mp s !! dst) /\ mconn s' = mconn s /\
  (forall q, is_Some (mp s' !! q) <-> is_Some (mp s !! q)) /\
  mgetp s' dst = MPeer (Some c) (S (mpevents s dst)) true /\
  (forall q, q <> dst -> mgetp s' q = mgetp s q) /\
  (forall a b, mlink s' a b =
     (if decide ((a, b) = (src, dst)) then rest else mlink s a b) ++
     (if decide (dst = host /\ a = host /\ b ∈ others src (mconn s)) then [c] else [])).
Proof.
  intros Hnd. simpl. destruct (mlink s src dst) as [|c rest] eqn:Hl; [discriminate|].
  destruct (mp s !! dst) as [x|] eqn:Hx; [|discriminate]. intros [= <-]. exists c, rest.
  unfold mpevents. rewrite (mgetp_exists _ _ _ Hx).
  split; [reflexivity|]. split; [eauto|]. split; [reflexivity|]. split; [|split; [|split]].
  - intros q. simpl. eapply mexists_insert; eauto.
  - apply mgetp_insert.
  - intros q Hne. destruct s; simpl. apply mgetp_insert_ne. exact Hne.
  - intros a b. unfold mlink. simpl. destruct (dst =? host)%N eqn:Hd.
    + apply N.eqb_eq in Hd. subst dst. rewrite lget_send_to by (apply NoDup_others; exact Hnd).
      rewrite lget_insert.
      destruct (decide (a = host /\ b ∈ others src (mconn s))) as [[-> Hin]|Hn].
      * destruct (decide (host = host /\ host = host /\ b ∈ others src (mconn s))) as [_|Hn]; [reflexivity|tauto].
      * destruct (decide (host = host /\ a = host /\ b ∈ others src (mconn s))) as [[_ Hy]|_]; [tauto|].
        rewrite app_nil_r. reflexivity.
    + apply N.eqb_neq in Hd. rewrite lget_insert.
      destruct (decide (dst = host /\ _)) as [[Hy _]|_]; [contradiction|]. rewrite app_nil_r. reflexivity.
Qed.

Definition msnapshot (s : mstate) : list content := match mpstore s host with Some v => [v] | None => [] end.

Lemma mstep_join s c s' :
  mstep s (MJoin c) = Some s' ->
  c <> host /\ c ∉ mconn s /\ mp s !! c = None /\ mconn s' = mconn s ++ [c] /\
  (forall q, is_Some (mp s' !! q) <-> is_Some (mp s !! q) \/ q = c) /\
  (forall q, mgetp s' q = mgetp s q) /\
  (forall a b, mlink s' a b = if decide ((a, b) = (host, c)) then mlink s host c ++ msnapshot s else mlink s a b).
Proof.
  simpl. destruct (c =? host)%N eqn:Hc; [discriminate|]. apply N.eqb_neq in Hc.
  destruct (bool_decide (c ∈ mconn s)) eqn:Hin; [discriminate|]. apply bool_decide_eq_false in Hin.
  destruct (bool_decide (is_Some (mp s !! c))) eqn:Hex; [discriminate|].
  apply bool_decide_eq_false in Hex. simpl. intros [= <-].
  assert (Hnone : mp s !! c = None) by (destruct (mp s !! c); [exfalso; eauto|reflexivity]).
  split; [exact Hc|]. split; [exact Hin|]. split; [exact Hnone|]. split; [reflexivity|]. split; [|split].
  - intros q. simpl. destruct (decide (q = c)) as [->|Hne].
    + rewrite lookup_insert. split; eauto.
    + rewrite lookup_insert_ne by congruence. split; [auto|]. intros [H|H]; [exact H|contradiction].
  - intros q. unfold mgetp. simpl. destruct (decide (q = c)) as [->|Hne].
    + rewrite lookup_insert, Hnone. reflexivity.
    + rewrite lookup_insert_ne by congruence. reflexivity.
  - intros a b. unfold mlink, msnapshot. simpl. destruct (mpstore s host) as [v|].
    + apply lget_push_link.
    + cdec as [Heq|_]; [|reflexivity]. inversion Heq; subst. rewrite app_nil_r. reflexivity.
Qed.

(* ---------- well-formedness ----------------------------------------------------------------------- *)

Lemma mwf_nodup s : mwf s -> NoDup (mconn s).
Proof. intros (H & _). exact H. Qed.
Lemma mwf_host s : mwf s -> host ∉ mconn s.
Proof. intros (_ & H & _). exact H. Qed.
Lemma mwf_exists s p : mwf s -> is_Some (mp s !! p) <-> mpeers s p.
Proof. intros (_ & _ & H & _). apply H. Qed.
Lemma mwf_link s a b : mwf s -> mlink s a b <> [] -> (a = host /\ b ∈ mconn s) \/ (b = host /\ a ∈ mconn s).
Proof. intros (_ & _ & _ & H). apply H. Qed.
Lemma mwf_link_hh s : mwf s -> mlink s host host = [].
Proof.
  intros Hwf. destruct (mlink s host host) eqn:Hl; [reflexivity|].
  destruct (mwf_link s host host Hwf) as [[_ H]|[_ H]]; [rewrite Hl; discriminate| |]; exfalso; apply (mwf_host s Hwf H).
Qed.

Lemma mstep_wf_plain1 s e s' :
  match e with MReact _ => False | _ => True end ->
  mwf s -> mstep s e = Some s' -> mwf s'.
Proof.
  intros He Hwf Hstep. pose proof Hwf as (Hnd & Hh & Hex & Hlk). destruct e as [p v|p|p|src dst|c]; [|contradiction| | |].
  - apply mstep_publish in Hstep as (_ & Hc & Hl & He' & _).
    unfold mwf, mlink, mpeers. rewrite Hc, Hl. repeat split; try assumption.
    + intros H. apply Hex, He', H. + intros H. apply He', Hex, H.
  - apply mstep_react1 in Hstep as (Hp & Hc & He' & _ & _ & Hl); [|exact Hnd].
    unfold mwf, mpeers. rewrite Hc. repeat split; try assumption.
    + intros H. apply Hex, He', H. + intros H. apply He', Hex, H.
    + intros a b. rewrite Hl. unfold mann_links. destruct (mreact1_peer (mgetp s p)).2 as [c|]; [|apply Hlk].
      destruct (decide (a = p /\ b ∈ mdsts_of s p)) as [(-> & Hin)|_]; [|apply Hlk].
      intros _. unfold mdsts_of in Hin. destruct (p =? host)%N eqn:Hph.
      * apply N.eqb_eq in Hph. left. auto.
      * apply N.eqb_neq in Hph. apply elem_of_list_singleton in Hin. right. split; [exact Hin|].
        apply Hex in Hp as [Hp|Hp]; [contradiction|exact Hp].
  - apply mstep_deliver in Hstep as (o & rest & Hl0 & Hd & Hc & He' & _ & _ & Hl); [|exact Hnd].
    unfold mwf, mpeers. rewrite Hc. repeat split; try assumption.
    + intros H. apply Hex, He', H. + intros H. apply He', Hex, H.
    + intros a b. rewrite Hl.
      destruct (decide (dst = host /\ a = host /\ b ∈ others src (mconn s))) as [(_ & -> & Hin)|_].
      * intros _. left. split; [reflexivity|]. apply elem_of_others in Hin. tauto.
      * rewrite app_nil_r. destruct (decide ((a, b) = (src, dst))) as [Heq|_]; [|apply Hlk].
        inversion Heq; subst. intros _. apply Hlk. rewrite Hl0. discriminate.
  - apply mstep_join in Hstep as (Hc0 & Hcn & Hnone & Hc & He' & _ & Hl).
    unfold mwf, mpeers. rewrite Hc. split; [|split; [|split]].
    + apply NoDup_app. split; [exact Hnd|]. split; [|apply NoDup_singleton].
      intros x Hx Hx'. apply elem_of_list_singleton in Hx'. subst. contradiction.
    + intros H. apply elem_of_app in H as [H|H]; [contradiction|]. apply elem_of_list_singleton in H. congruence.
    + intros q. rewrite He', Hex. unfold mpeers. rewrite elem_of_app, elem_of_list_singleton. tauto.
    + intros a b. rewrite Hl. rewrite elem_of_app, elem_of_app, !elem_of_list_singleton.
      destruct (decide ((a, b) = (host, c))) as [Heq|_].
      * inversion Heq; subst. intros _. left. auto.
      * intros H. apply Hlk in H. tauto.
Qed.

Lemma mstep_wf s e s' : mwf s -> mstep s e = Some s' -> mwf s'.
Proof.
  intros Hwf Hstep. destruct e as [p v|p|p|src dst|c]; try (eapply mstep_wf_plain1; [|exact Hwf|exact Hstep]; exact I).
  apply mstep_react_runs in Hstep. eapply (mreact1s_ind mwf p); [|exact Hwf|exact Hstep].
  intros s1 s2 H1 H2. eapply mstep_wf_plain1; [|exact H1|exact H2]. exact I.
Qed.

Lemma mrun_wf s tr s' : mwf s -> mrun s tr = Some s' -> mwf s'.
Proof.
  revert s. induction tr as [|e tr IH]; intros s Hwf Hrun; simpl in Hrun.
  - congruence.
  - destruct (mstep s e) as [s1|] eqn:Hs; [|discriminate]. eapply IH; [|exact Hrun]. eapply mstep_wf; eauto.
Qed.

Lemma minit_getp n p : mgetp (minit n) p = mpeer0.
Proof.
  unfold mgetp. destruct (mp (minit n) !! p) as [x|] eqn:Hx; [|reflexivity]. simpl.
  unfold minit in Hx; cbn [mp] in Hx. apply elem_of_list_to_map_2 in Hx. apply elem_of_list_fmap in Hx as (q & Heq & _). congruence.
Qed.
Lemma minit_link n a b : mlink (minit n) a b = [].
Proof. reflexivity. Qed.

Lemma minit_wf n : mwf (minit n).
Proof.
  unfold mwf. split; [apply NoDup_clients|]. split; [|split].
  - simpl. rewrite elem_of_clients. unfold host. lia.
  - intros p. unfold minit, mpeers; cbn [mp mconn].
    set (l := (fun p => (p, mpeer0)) <$> host :: clients n).
    assert (Hfst : l.*1 = host :: clients n).
    { unfold l. rewrite <- list_fmap_compose. simpl. f_equal. induction (clients n); simpl; congruence. }
    split.
    + intros [x Hx]. apply elem_of_list_to_map_2 in Hx. apply (elem_of_list_fmap_1 fst) in Hx.
      rewrite Hfst in Hx. simpl in Hx. apply elem_of_cons in Hx. exact Hx.
    + intros Hp. destruct (list_to_map l !! p) eqn:Hx; [eauto|].
      apply not_elem_of_list_to_map in Hx. rewrite Hfst in Hx. exfalso. apply Hx. apply elem_of_cons. exact Hp.
  - intros a b H. exfalso. apply H. reflexivity.
Qed.

Lemma mquiescent_link s a b : mquiescent s -> mlink s a b = [].
Proof.
  intros [H _]. unfold mlink, lget. destruct (mlinks s !! (a, b)) as [l|] eqn:Hl; [|reflexivity]. simpl. eapply H. exact Hl.
Qed.
Lemma mquiescent_peer s p : mquiescent s -> mpevents s p = 0%nat /\ mptok s p = false.
Proof.
  intros [_ H]. unfold mpevents, mptok, mgetp. destruct (mp s !! p) as [x|] eqn:Hx; simpl; [|auto].
  apply (H p x Hx).
Qed.
Lemma mquiescent_intro s :
  (forall a b, mlink s a b = []) -> (forall p, mpevents s p = 0%nat /\ mptok s p = false) -> mquiescent s.
Proof.
  intros Hl Hp. split.
  - intros [a b] l Hx. specialize (Hl a b). unfold mlink, lget in Hl. rewrite Hx in Hl. exact Hl.
  - intros p x Hx. specialize (Hp p). unfold mpevents, mptok, mgetp in Hp. rewrite Hx in Hp. exact Hp.
Qed.
Lemma minit_quiescent n : mquiescent (minit n).
Proof.
  apply mquiescent_intro; [intros; apply minit_link|]. intros p. unfold mpevents, mptok. rewrite minit_getp. auto.
Qed.

(* ---------- the single-publisher invariant for materials -------------------------------------------
   [mlatest w s q]: what q will hold once everything on its way from w has arrived (the channels are
   FIFO and the host relays in order).  Outside S7 it is w's store unless an event of w is unread. *)

Definition mlatest (w : peer) (s : mstate) (q : peer) : option content :=
  lastd (mpstore s q) (mlink s host q ++ mlink s w host).

Record MInv (w : peer) (s : mstate) : Prop := {
  mi_w : is_Some (mp s !! w);
  mi_tok : mptok s w = false;
  mi_in : forall a, mlink s a w = [];
  mi_up : forall c, c <> w -> mlink s c host = [];
  mi_recv : forall q, q <> w ->
              (mpevents s q = 0%nat /\ mptok s q = false) \/ (mpevents s q = 1%nat /\ mptok s q = true);
  mi_ev_store : forall q, mpevents s q <> 0%nat -> mpstore s q <> None;
  mi_latest : forall q, mpeers s q -> q <> w -> mlatest w s q = mpstore s w \/ mpevents s w <> 0%nat
}.

Definition mev_ok (w : peer) (e : mevent) : Prop := match e with MPublish q _ => q = w | _ => True end.
Definition mstore_after (w : peer) (s : mstate) (e : mevent) : option content :=
  match e with MPublish _ c => Some c | _ => mpstore s w end.

Lemma minv_ext w s s' :
  (forall q, mgetp s' q = mgetp s q) -> (forall a b, mlink s' a b = mlink s a b) -> mconn s' = mconn s ->
  (forall q, is_Some (mp s' !! q) <-> is_Some (mp s !! q)) ->
  MInv w s -> MInv w s'.
Proof.
  intros Hg Hl Hc He HI. destruct HI.
  constructor; unfold mlatest, mpeers, mpstore, mpevents, mptok in *; intros; rewrite ?Hg, ?Hl, ?Hc in *; eauto.
  apply He. exact mi_w0.
Qed.

Lemma mnot_in_dsts s p : mwf s -> p ∉ mdsts_of s p.
Proof.
  intros Hwf. unfold mdsts_of. destruct (p =? host)%N eqn:E.
  - apply N.eqb_eq in E. subst. apply mwf_host, Hwf.
  - apply N.eqb_neq in E. intros H. apply elem_of_list_singleton in H. contradiction.
Qed.

Lemma mdeliver_shape w s src dst c rest :
  mwf s -> MInv w s -> mlink s src dst = c :: rest ->
  dst <> w /\
  ((src = host /\ dst ∈ mconn s /\ dst <> host) \/ (dst = host /\ src = w /\ w <> host /\ w ∈ mconn s)).
Proof.
  intros Hwf HI Hl0.
  assert (Hne0 : mlink s src dst <> []) by (rewrite Hl0; discriminate).
  assert (Hdw : dst <> w). { intros ->. rewrite (mi_in _ _ HI) in Hne0. congruence. }
  split; [exact Hdw|].
  destruct (mwf_link s src dst Hwf Hne0) as [[-> Hin]|[-> Hin]].
  - left. split; [reflexivity|]. split; [exact Hin|]. intros ->. apply (mwf_host s Hwf Hin).
  - right. split; [reflexivity|]. destruct (decide (src = w)) as [->|Hn].
    + split; [reflexivity|]. split; [|exact Hin]. intros ->. apply (mwf_host s Hwf Hin).
    + rewrite (mi_up _ _ HI src Hn) in Hne0. congruence.
Qed.

Lemma minv_step1 w s e s' :
  match e with MReact _ => False | _ => True end ->
  mwf s -> MInv w s -> mev_ok w e -> mbad_S7 s e = false -> mstep s e = Some s' ->
  MInv w s' /\ mpstore s' w = mstore_after w s e.
Proof.
  intros Hnb Hwf HI Hok Hbad Hstep. pose proof (mwf_nodup s Hwf) as Hnd. pose proof (mwf_link_hh s Hwf) as Hhh.
  destruct e as [p v|p|p|src dst|c]; [|contradiction| | |].
  - (* MPublish *)
    simpl in Hok. subst p.
    apply mstep_publish in Hstep as (_ & Hc & Hl & Hex & Hp & Hq).
    assert (Hlk : forall a b, mlink s' a b = mlink s a b) by (intros; unfold mlink; rewrite Hl; reflexivity).
    destruct HI. split; [|unfold mpstore; rewrite Hp; reflexivity].
    constructor; unfold mpeers; intros; rewrite ?Hlk, ?Hc in *; eauto.
    + apply Hex. exact mi_w0.
    + unfold mptok. rewrite Hp. exact mi_tok0.
    + unfold mpevents, mptok. rewrite Hq by assumption. apply mi_recv0. assumption.
    + destruct (decide (q = w)) as [->|Hne]; [unfold mpstore; rewrite Hp; discriminate|].
      unfold mpstore, mpevents in *. rewrite Hq in * by assumption. auto.
    + right. unfold mpevents. rewrite Hp. discriminate.
  - (* MReact1 *)
    apply mstep_react1 in Hstep as (Hex & Hc & Hex' & Hp & Hq & Hl); [|exact Hnd].
    assert (Hst : mpstore s' w = mpstore s w).
    { unfold mpstore. destruct (decide (w = p)) as [->|Hne]; [|rewrite Hq by assumption; reflexivity].
      rewrite Hp. destruct (mreact1_cases (mgetp s p)) as [[_ E]|[(k & _ & E0 & E)|[(k & c & _ & E0 & _ & E)|(k & c & _ & E0 & _ & E)]]];
        rewrite E; simpl; congruence. }
    split; [|exact Hst].
    destruct (mreact1_cases (mgetp s p)) as [[E0 E]|[(k & E0 & E1 & E)|[(k & c & E0 & E1 & E2 & E)|(k & c & E0 & E1 & E2 & E)]]].
    + eapply minv_ext; [| |exact Hc|exact Hex'|exact HI].
      * intros q. destruct (decide (q = p)) as [->|Hne]; [rewrite Hp, E; reflexivity|apply Hq; exact Hne].
      * intros a b. rewrite Hl, E. reflexivity.
    + exfalso. eapply (mi_ev_store _ _ HI p); [unfold mpevents; rewrite E0; discriminate|exact E1].
    + assert (Hpw : p <> w). { intros ->. pose proof (mi_tok _ _ HI) as Ht. unfold mptok in Ht. congruence. }
      assert (Hk : k = 0%nat).
      { destruct (mi_recv _ _ HI p Hpw) as [[H0 _]|[H1 _]]; unfold mpevents in *; [congruence|lia]. }
      subst k. rewrite E in Hp, Hl. cbn [fst snd] in Hp, Hl.
      assert (Hlk : forall a b, mlink s' a b = mlink s a b) by (intros; rewrite Hl; reflexivity).
      assert (Hsto : forall q, mpstore s' q = mpstore s q).
      { intros q. unfold mpstore. destruct (decide (q = p)) as [->|Hne]; [rewrite Hp; simpl; congruence|rewrite Hq by assumption; reflexivity]. }
      destruct HI. constructor; unfold mpeers, mlatest; intros; rewrite ?Hlk, ?Hc, ?Hsto in *; eauto.
      * apply Hex'. exact mi_w0.
      * unfold mptok. rewrite Hq by congruence. exact mi_tok0.
      * destruct (decide (q = p)) as [->|Hne].
        -- left. unfold mpevents, mptok. rewrite Hp. auto.
        -- unfold mpevents, mptok. rewrite Hq by assumption. apply mi_recv0. assumption.
      * destruct (decide (q = p)) as [->|Hne]; [unfold mpevents in H; rewrite Hp in H; simpl in H; congruence|].
        unfold mpevents in *. rewrite Hq in * by assumption. auto.
      * unfold mpevents. rewrite (Hq w) by congruence. apply mi_latest0; assumption.
    + destruct (decide (p = w)) as [->|Hpw].
      2:{ exfalso. destruct (mi_recv _ _ HI p Hpw) as [[H0 _]|[_ H1]]; unfold mpevents, mptok in *; congruence. }
      rewrite E in Hp, Hl. cbn [fst snd] in Hp, Hl. unfold mann_links in Hl.
      assert (Hsw : mpstore s' w = Some c) by (unfold mpstore; rewrite Hp; reflexivity).
      destruct HI. constructor; unfold mpeers; intros; rewrite ?Hc in *.
      * apply Hex'. exact mi_w0.
      * unfold mptok. rewrite Hp. reflexivity.
      * rewrite Hl. cdec as [[_ Hin]|_]; [exfalso; eapply mnot_in_dsts; eauto|apply mi_in0].
      * rewrite Hl. cdec as [[Heq _]|_]; [contradiction|apply mi_up0; assumption].
      * unfold mpevents, mptok. rewrite Hq by assumption. apply mi_recv0. assumption.
      * destruct (decide (q = w)) as [->|Hne]; [rewrite Hsw; discriminate|].
        unfold mpstore, mpevents in *. rewrite Hq in * by assumption. auto.
      * left. rewrite Hsw. unfold mlatest. rewrite !Hl. unfold mdsts_of. destruct (decide (w = host)) as [->|Hwh].
        -- change (host =? host)%N with true. cbv iota.
           destruct (decide (host = host /\ host ∈ mconn s)) as [[_ Hin]|_]; [exfalso; apply (mwf_host s Hwf Hin)|].
           destruct (decide (host = host /\ q ∈ mconn s)) as [_|Hn].
           ++ rewrite Hhh, app_nil_r. apply lastd_snoc.
           ++ exfalso. apply Hn. split; [reflexivity|]. destruct H as [?|?]; [contradiction|assumption].
        -- destruct (w =? host)%N eqn:E'; [apply N.eqb_eq in E'; contradiction|].
           destruct (decide (w = w /\ host ∈ [host])) as [_|Hn]; [|exfalso; apply Hn; split; [reflexivity|apply elem_of_list_singleton; reflexivity]].
           destruct (decide (host = w /\ _)) as [[Hf _]|_]; [congruence|].
           rewrite app_assoc. apply lastd_snoc.
  - (* MDeliver *)
    apply mstep_deliver in Hstep as (c & rest & Hl0 & Hd & Hc & Hex' & Hp & Hq & Hl); [|exact Hnd].
    destruct (mdeliver_shape w s src dst c rest Hwf HI Hl0) as (Hdw & Hshape).
    simpl in Hbad. rewrite Hl0 in Hbad. apply negb_false_iff, Nat.eqb_eq in Hbad.
    assert (Hp' : mgetp s' dst = MPeer (Some c) 1 true) by (rewrite Hp, Hbad; reflexivity).
    assert (Hsw : mpstore s' w = mpstore s w) by (unfold mpstore; rewrite Hq by congruence; reflexivity).
    assert (Hew : mpevents s' w = mpevents s w) by (unfold mpevents; rewrite Hq by congruence; reflexivity).
    split; [|exact Hsw].
    destruct HI. constructor; unfold mpeers; intros; rewrite ?Hc in *.
    + apply Hex'. exact mi_w0.
    + unfold mptok. rewrite Hq by congruence. exact mi_tok0.
    + rewrite Hl. destruct (decide ((a, w) = (src, dst))) as [Heq|_]; [inversion Heq; congruence|].
      rewrite mi_in0. cbn [app]. cdec as [(Hdh & _ & Hin)|_]; [|reflexivity].
      apply elem_of_others in Hin as [Hn _]. destruct Hshape as [(_ & _ & ?)|(? & ? & _)]; congruence.
    + rewrite Hl. destruct (decide ((c0, host) = (src, dst))) as [Heq|_].
      * inversion Heq; subst. destruct Hshape as [(_ & _ & ?)|(_ & ? & _)]; congruence.
      * rewrite mi_up0 by assumption. cbn [app]. cdec as [(_ & _ & Hin)|_]; [|reflexivity].
        apply elem_of_others in Hin as [_ Hin]. exfalso. apply (mwf_host s Hwf Hin).
    + destruct (decide (q = dst)) as [->|Hne].
      * right. unfold mpevents, mptok. rewrite Hp'. auto.
      * unfold mpevents, mptok. rewrite Hq by assumption. apply mi_recv0. assumption.
    + destruct (decide (q = dst)) as [->|Hne]; [unfold mpstore; rewrite Hp'; discriminate|].
      unfold mpstore, mpevents in *. rewrite Hq in * by assumption. auto.
    + rewrite Hsw, Hew.
      assert (Hsame : mlatest w s' q = mlatest w s q); [|rewrite Hsame; apply mi_latest0; assumption].
      unfold mlatest. rewrite !Hl.
      destruct Hshape as [(-> & Hin & Hdh)|(-> & -> & Hwh & Hin)].
      * destruct (decide ((w, host) = (host, dst))) as [Heq|_]; [inversion Heq; congruence|].
        destruct (decide (dst = host /\ _)) as [[? _]|_]; [contradiction|].
        destruct (decide (dst = host /\ _)) as [[? _]|_]; [contradiction|]. rewrite !app_nil_r.
        destruct (decide (q = dst)) as [->|Hnq].
        -- destruct (decide ((host, dst) = (host, dst))) as [_|?]; [|congruence].
           unfold mpstore at 1. rewrite Hp'. cbn [mstore]. rewrite Hl0. reflexivity.
        -- destruct (decide ((host, q) = (host, dst))) as [Heq|_]; [inversion Heq; congruence|].
           unfold mpstore. rewrite Hq by assumption. reflexivity.
      * destruct (decide ((w, host) = (w, host))) as [_|?]; [|congruence].
        destruct (decide (host = host /\ w = host /\ _)) as [(_ & ? & _)|_]; [contradiction|]. rewrite app_nil_r.
        destruct (decide (q = host)) as [->|Hnq].
        -- destruct (decide ((host, host) = (w, host))) as [Heq|_]; [inversion Heq; congruence|].
           destruct (decide (host = host /\ host = host /\ host ∈ others w (mconn s))) as [(_ & _ & Hin')|_].
           { apply elem_of_others in Hin' as [_ Hin']. exfalso. apply (mwf_host s Hwf Hin'). }
           rewrite app_nil_r, Hhh. unfold mpstore at 1. rewrite Hp'. cbn [mstore app]. rewrite Hl0. reflexivity.
        -- destruct (decide ((host, q) = (w, host))) as [Heq|_]; [inversion Heq; congruence|].
           destruct (decide (host = host /\ host = host /\ q ∈ others w (mconn s))) as [_|Hn].
           ++ unfold mpstore. rewrite Hq by assumption. rewrite Hl0, <- app_assoc. reflexivity.
           ++ exfalso. apply Hn. split; [reflexivity|]. split; [reflexivity|]. apply elem_of_others. split; [assumption|].
              destruct H as [?|?]; [contradiction|assumption].
  - (* MJoin *)
    apply mstep_join in Hstep as (Hch & Hcn & Hnone & Hc & Hex' & Hg & Hl).
    assert (Hcw : c <> w). { intros ->. destruct (mi_w _ _ HI) as [x Hx]. congruence. }
    split; [|unfold mstore_after, mpstore; rewrite Hg; reflexivity].
    assert (Hlc0 : mlink s host c = []).
    { destruct (mlink s host c) eqn:E; [reflexivity|]. destruct (mwf_link s host c Hwf) as [[_ H]|[H _]]; [rewrite E; discriminate|contradiction|congruence]. }
    destruct HI. constructor; unfold mpeers, mpstore, mpevents, mptok; intros; rewrite ?Hg in *.
    + apply Hex'. left. exact mi_w0.
    + exact mi_tok0.
    + rewrite Hl. cdec as [Heq|_]; [inversion Heq; congruence|apply mi_in0].
    + rewrite Hl. cdec as [Heq|_]; [inversion Heq; congruence|apply mi_up0; assumption].
    + apply mi_recv0. assumption.
    + apply mi_ev_store0. assumption.
    + fold (mpstore s w). fold (mpevents s w). unfold mlatest, mpstore. rewrite Hg. fold (mpstore s q). rewrite !Hl.
      destruct (decide ((w, host) = (host, c))) as [Heq|_]; [inversion Heq; congruence|].
      destruct (decide (q = c)) as [->|Hnq].
      * destruct (decide ((host, c) = (host, c))) as [_|?]; [|congruence]. rewrite Hlc0. cbn [app].
        assert (Hsc : mpstore s c = None) by (unfold mpstore, mgetp; rewrite Hnone; reflexivity). rewrite Hsc.
        destruct (decide (w = host)) as [->|Hwh].
        -- left. rewrite Hhh, app_nil_r. unfold msnapshot, mpstore. destruct (mstore (mgetp s host)); reflexivity.
        -- assert (Hh : mlatest w s host = lastd None (msnapshot s ++ mlink s w host)).
           { unfold mlatest, msnapshot. rewrite Hhh. destruct (mpstore s host); reflexivity. }
           rewrite <- Hh. apply mi_latest0; [left; reflexivity|congruence].
      * destruct (decide ((host, q) = (host, c))) as [Heq|_]; [inversion Heq; congruence|].
        apply mi_latest0; [|assumption]. destruct H as [H|H]; [left; exact H|]. rewrite Hc in H.
        apply elem_of_app in H as [H|H]; [right; exact H|]. apply elem_of_list_singleton in H. contradiction.
Qed.

Lemma minv_step w s e s' :
  mwf s -> MInv w s -> mev_ok w e -> mbad_S7 s e = false -> mstep s e = Some s' ->
  MInv w s' /\ mpstore s' w = mstore_after w s e.
Proof.
  intros Hwf HI Hok Hbad Hstep.
  destruct e as [p v|p|p|src dst|c]; try (eapply minv_step1; eauto; exact I).
  apply mstep_react_runs in Hstep.
  pose (P := fun s1 => mwf s1 /\ MInv w s1 /\ mpstore s1 w = mpstore s w).
  assert (HP : P s') ; [|destruct HP as (_ & H1 & H2); split; [exact H1|exact H2]].
  eapply (mreact1s_ind P p); [|split; [exact Hwf|split; [exact HI|reflexivity]]|exact Hstep].
  intros s1 s2 (Hw1 & HI1 & Hs1) H12. split; [eapply mstep_wf; eauto|].
  destruct (minv_step1 w s1 (MReact1 p) s2 I Hw1 HI1 I eq_refl H12) as [HI2 Hs2].
  split; [exact HI2|]. rewrite Hs2. exact Hs1.
Qed.

Lemma mpublished_cons e tr :
  mpublished (e :: tr) = match e with MPublish _ c => c :: mpublished tr | _ => mpublished tr end.
Proof. destruct e; reflexivity. Qed.

Lemma mstore_after_lastd w s e tr :
  lastd (mstore_after w s e) (mpublished tr) = lastd (mpstore s w) (mpublished (e :: tr)).
Proof. rewrite mpublished_cons. destruct e; reflexivity. Qed.

Lemma minv_run w tr : forall s s',
  mwf s -> MInv w s -> Forall (mev_ok w) tr -> mscan mbad_S7 s tr = false -> mrun s tr = Some s' ->
  mwf s' /\ MInv w s' /\ mpstore s' w = lastd (mpstore s w) (mpublished tr).
Proof.
  induction tr as [|e tr IH]; intros s s' Hwf HI Hok Hbad Hrun.
  - simpl in Hrun. inversion Hrun; subst. auto.
  - cbn [mrun] in Hrun. cbn [mscan] in Hbad. destruct (mstep s e) as [s1|] eqn:Hstep; [|discriminate].
    apply orb_false_iff in Hbad as [Hb1 Hb2]. apply Forall_cons in Hok as [He Hok].
    destruct (minv_step w s e s1 Hwf HI He Hb1 Hstep) as [HI1 Hs1].
    destruct (IH s1 s' (mstep_wf _ _ _ Hwf Hstep) HI1 Hok Hb2 Hrun) as (Hwf' & HI' & Hs').
    split; [exact Hwf'|]. split; [exact HI'|]. rewrite Hs', Hs1. apply mstore_after_lastd.
Qed.

Lemma minv_init w n : mpeers (minit n) w -> MInv w (minit n).
Proof.
  intros Hw. constructor; unfold mlatest, mpstore, mpevents, mptok; intros; rewrite ?minit_getp, ?minit_link in *; simpl; auto.
  apply (mwf_exists _ _ (minit_wf n)). exact Hw.
Qed.

Lemma mev_ok_of w tr : monly_publisher w tr -> Forall (mev_ok w) tr.
Proof.
  unfold monly_publisher. induction tr as [|e tr IH]; intros Hp; [constructor|].
  destruct e as [p v|p|p|src dst|c]; simpl in Hp; try (constructor; [exact I|apply IH; assumption]).
  apply Forall_cons in Hp as [-> Hp]. constructor; [reflexivity|apply IH; assumption].
Qed.

Lemma minv_quiescent_agree w s : MInv w s -> mquiescent s -> forall q, mpeers s q -> mpstore s q = mpstore s w.
Proof.
  intros HI Hq q Hpq. destruct (decide (q = w)) as [->|Hne]; [reflexivity|].
  destruct (mquiescent_peer s w Hq) as (Hew & _).
  destruct (mi_latest _ _ HI q Hpq Hne) as [H|H]; [|contradiction].
  unfold mlatest in H. rewrite !(mquiescent_link s _ _ Hq) in H. exact H.
Qed.

(* Materials, one publisher (present from the start), bursts and overwrites, fresh clients joining at ANY
   moment, every interleaving: outside the class S7 every quiescent state shows the last published content
   on every peer. *)
Theorem M06_single_publisher_outside_S7 n w tr s' :
  mrun (minit n) tr = Some s' -> mpeers (minit n) w -> monly_publisher w tr ->
  mknown_S7 (minit n) tr = false -> mquiescent s' ->
  forall q, mpeers s' q -> mpstore s' q = last (mpublished tr).
Proof.
  intros Hrun Hw Hop Hk Hq q Hpq.
  destruct (minv_run w tr (minit n) s' (minit_wf n) (minv_init w n Hw) (mev_ok_of w tr Hop) Hk Hrun) as (_ & HI & Hs).
  rewrite (minv_quiescent_agree w s' HI Hq q Hpq), Hs.
  unfold mpstore at 1. rewrite minit_getp. apply lastd_None_last.
Qed.
Print Assumptions M06_single_publisher_outside_S7.

(* ---------- drain separation for materials ---------------------------------------------------------- *)

Definition MK (w : peer) (s : mstate) : nat := (mpevents s w + length (mlink s w host))%nat.
Definition MCnt (w : peer) (s : mstate) : Prop :=
  forall q, mpeers s q -> q <> w -> (MK w s + length (mlink s host q) + mpevents s q <= 1)%nat.

Lemma mcnt_ext w s s' :
  (forall q, mgetp s' q = mgetp s q) -> (forall a b, mlink s' a b = mlink s a b) -> mconn s' = mconn s ->
  MCnt w s -> MCnt w s'.
Proof.
  intros Hg Hl Hc HC q Hp Hne. unfold MK, mpeers, mpevents in *. rewrite ?Hg, ?Hl, ?Hc in *. apply HC; assumption.
Qed.

Lemma mcnt_step1 w s e s' :
  match e with MReact1 _ | MDeliver _ _ => True | _ => False end ->
  mwf s -> MInv w s -> MCnt w s -> mstep s e = Some s' -> MCnt w s' /\ mbad_S7 s e = false.
Proof.
  intros He Hwf HI HC Hstep. pose proof (mwf_nodup s Hwf) as Hnd. pose proof (mwf_link_hh s Hwf) as Hhh.
  destruct e as [p v|p|p|src dst|c]; try contradiction.
  - (* MReact1 *)
    split; [|reflexivity].
    apply mstep_react1 in Hstep as (Hex & Hc & _ & Hp & Hq & Hl); [|exact Hnd].
    destruct (mreact1_cases (mgetp s p)) as [[E0 E]|[(k & E0 & E1 & E)|[(k & c & E0 & E1 & E2 & E)|(k & c & E0 & E1 & E2 & E)]]].
    + eapply mcnt_ext; [| |exact Hc|exact HC].
      * intros q. destruct (decide (q = p)) as [->|Hne]; [rewrite Hp, E; reflexivity|apply Hq; exact Hne].
      * intros a b. rewrite Hl, E. reflexivity.
    + exfalso. eapply (mi_ev_store _ _ HI p); [unfold mpevents; rewrite E0; discriminate|exact E1].
    + assert (Hpw : p <> w). { intros ->. pose proof (mi_tok _ _ HI) as Ht. unfold mptok in Ht. congruence. }
      rewrite E in Hp, Hl. cbn [fst snd] in Hp, Hl.
      assert (Hlk : forall a b, mlink s' a b = mlink s a b) by (intros; rewrite Hl; reflexivity).
      intros q Hpq Hne. unfold mpeers in Hpq. rewrite Hc in Hpq. specialize (HC q Hpq Hne).
      unfold MK, mpevents in *. rewrite !Hlk, (Hq w) by congruence.
      destruct (decide (q = p)) as [->|Hnq]; [rewrite Hp; simpl; lia|rewrite Hq by assumption; exact HC].
    + destruct (decide (p = w)) as [->|Hpw].
      2:{ exfalso. destruct (mi_recv _ _ HI p Hpw) as [[H0 _]|[_ H1]]; unfold mpevents, mptok in *; congruence. }
      rewrite E in Hp, Hl. cbn [fst snd] in Hp, Hl. unfold mann_links in Hl.
      intros q Hpq Hne. unfold mpeers in Hpq. rewrite Hc in Hpq. specialize (HC q Hpq Hne).
      unfold MK, mpevents in *. rewrite (Hq q) by assumption. rewrite Hp. cbn [mevents].
      rewrite E0 in HC. rewrite !Hl. unfold mdsts_of. destruct (decide (w = host)) as [->|Hwh].
      * change (host =? host)%N with true. cbv iota.
        destruct (decide (host = host /\ host ∈ mconn s)) as [[_ Hin]|_]; [exfalso; apply (mwf_host s Hwf Hin)|].
        destruct (decide (host = host /\ q ∈ mconn s)) as [_|Hn].
        -- rewrite app_length. simpl. lia.
        -- exfalso. apply Hn. split; [reflexivity|]. destruct Hpq as [?|?]; [contradiction|assumption].
      * destruct (w =? host)%N eqn:E'; [apply N.eqb_eq in E'; contradiction|].
        destruct (decide (w = w /\ host ∈ [host])) as [_|Hn]; [|exfalso; apply Hn; split; [reflexivity|apply elem_of_list_singleton; reflexivity]].
        destruct (decide (host = w /\ _)) as [[Hf _]|_]; [congruence|].
        rewrite app_length. simpl. lia.
  - (* MDeliver *)
    pose proof Hstep as Hstep0.
    apply mstep_deliver in Hstep as (c & rest & Hl0 & Hd & Hc & _ & Hp & Hq & Hl); [|exact Hnd].
    destruct (mdeliver_shape w s src dst c rest Hwf HI Hl0) as (Hdw & Hshape).
    assert (Hpd : mpeers s dst) by (apply (mwf_exists s dst Hwf); exact Hd).
    assert (He0 : mpevents s dst = 0%nat).
    { pose proof (HC dst Hpd Hdw) as H. destruct Hshape as [(-> & _ & _)|(-> & -> & _ & _)].
      - rewrite Hl0 in H. simpl in H. lia.
      - unfold MK in H. rewrite Hl0 in H. simpl in H. lia. }
    split; [|simpl; rewrite Hl0, He0; reflexivity].
    assert (Hpe : mpevents s' dst = 1%nat) by (unfold mpevents at 1; rewrite Hp; cbn [mevents]; rewrite He0; reflexivity).
    intros q Hpq Hne. unfold mpeers in Hpq. rewrite Hc in Hpq. pose proof (HC q Hpq Hne) as HCq.
    assert (Hew : mpevents s' w = mpevents s w) by (unfold mpevents; rewrite Hq by congruence; reflexivity).
    unfold MK in *. rewrite Hew. rewrite !Hl.
    destruct Hshape as [(-> & Hin & Hdh)|(-> & -> & Hwh & Hin)].
    + destruct (decide ((w, host) = (host, dst))) as [Heq|_]; [inversion Heq; congruence|].
      destruct (decide (dst = host /\ _)) as [[? _]|_]; [contradiction|].
      destruct (decide (dst = host /\ _)) as [[? _]|_]; [contradiction|]. rewrite !app_nil_r.
      destruct (decide (q = dst)) as [->|Hnq].
      * destruct (decide ((host, dst) = (host, dst))) as [_|?]; [|congruence].
        rewrite Hpe. rewrite Hl0 in HCq. simpl in *. lia.
      * destruct (decide ((host, q) = (host, dst))) as [Heq|_]; [inversion Heq; congruence|].
        unfold mpevents in *. rewrite (Hq q) by assumption. exact HCq.
    + destruct (decide ((w, host) = (w, host))) as [_|?]; [|congruence].
      destruct (decide (host = host /\ w = host /\ _)) as [(_ & ? & _)|_]; [contradiction|]. rewrite app_nil_r.
      rewrite Hl0 in HCq. cbn [length] in HCq.
      destruct (decide (q = host)) as [->|Hnq].
      * destruct (decide ((host, host) = (w, host))) as [Heq|_]; [inversion Heq; congruence|].
        destruct (decide (host = host /\ host = host /\ host ∈ others w (mconn s))) as [(_ & _ & Hin')|_].
        { apply elem_of_others in Hin' as [_ Hin']. exfalso. apply (mwf_host s Hwf Hin'). }
        rewrite app_nil_r, Hpe. lia.
      * destruct (decide ((host, q) = (w, host))) as [Heq|_]; [inversion Heq; congruence|].
        destruct (decide (host = host /\ host = host /\ q ∈ others w (mconn s))) as [_|Hn].
        -- unfold mpevents in *. rewrite (Hq q) by assumption. rewrite app_length. simpl. lia.
        -- exfalso. apply Hn. split; [reflexivity|]. split; [reflexivity|]. apply elem_of_others. split; [exact Hne|].
           destruct Hpq as [?|?]; [contradiction|assumption].
Qed.

Lemma mcnt_quiescent w s : mquiescent s -> MCnt w s.
Proof.
  intros Hq q _ _. unfold MK. rewrite !(mquiescent_link s _ _ Hq).
  destruct (mquiescent_peer s w Hq) as (-> & _). destruct (mquiescent_peer s q Hq) as (-> & _). simpl. lia.
Qed.

Lemma mcnt_publish w s c s' : mquiescent s -> mstep s (MPublish w c) = Some s' -> MCnt w s'.
Proof.
  intros Hqs Hstep. apply mstep_publish in Hstep as (_ & Hc & Hl & _ & Hp & Hq).
  intros q _ Hne. unfold MK, mlink, mpevents. rewrite Hl, Hp, (Hq q) by assumption. cbn [mevents].
  fold (mlink s w host). fold (mlink s host q). rewrite !(mquiescent_link s _ _ Hqs).
  destruct (mquiescent_peer s w Hqs) as (-> & _). destruct (mquiescent_peer s q Hqs) as (He & _).
  unfold mpevents in *. rewrite He. simpl. lia.
Qed.

Lemma mcnt_join w s c s' : mquiescent s -> mstep s (MJoin c) = Some s' -> MCnt w s'.
Proof.
  intros Hqs Hstep. apply mstep_join in Hstep as (Hch & Hcn & Hnone & Hc & _ & Hg & Hl).
  intros q _ Hne. unfold MK, mpevents. rewrite !Hg, !Hl. rewrite !(mquiescent_link s _ _ Hqs).
  destruct (mquiescent_peer s w Hqs) as (He & _). destruct (mquiescent_peer s q Hqs) as (Heq & _).
  unfold mpevents in *. rewrite He, Heq.
  assert (Hs : (length (msnapshot s) <= 1)%nat) by (unfold msnapshot; destruct (mpstore s host); simpl; lia).
  destruct (decide ((w, host) = (host, c))) as [Heq'|_]; [inversion Heq'; congruence|].
  destruct (decide ((host, q) = (host, c))); simpl; lia.
Qed.

Lemma mds_run w tr : forall s s',
  mwf s -> MInv w s -> MCnt w s -> Forall (mev_ok w) tr -> mops_at_quiescence s tr = true -> mrun s tr = Some s' ->
  mwf s' /\ MInv w s' /\ MCnt w s' /\ mscan mbad_S7 s tr = false /\ mpstore s' w = lastd (mpstore s w) (mpublished tr).
Proof.
  induction tr as [|e tr IH]; intros s s' Hwf HI HC Hok Hops Hrun.
  - simpl in Hrun. inversion Hrun; subst. auto.
  - cbn [mrun] in Hrun. cbn [mops_at_quiescence] in Hops. cbn [mscan].
    destruct (mstep s e) as [s1|] eqn:Hstep; [|discriminate].
    apply andb_true_iff in Hops as [Hop1 Hops]. apply Forall_cons in Hok as [He Hok].
    assert (H1 : MInv w s1 /\ MCnt w s1 /\ mbad_S7 s e = false /\ mpstore s1 w = mstore_after w s e).
    { destruct e as [p v|p|p|src dst|c].
      - simpl in He. subst p. simpl in Hop1. apply bool_decide_eq_true in Hop1.
        destruct (minv_step1 w s (MPublish w v) s1 I Hwf HI eq_refl eq_refl Hstep) as [HI1 Hs1].
        split; [exact HI1|]. split; [eapply mcnt_publish; eauto|]. split; [reflexivity|exact Hs1].
      - apply mstep_react_runs in Hstep.
        pose (P := fun s1 => mwf s1 /\ MInv w s1 /\ MCnt w s1 /\ mpstore s1 w = mpstore s w).
        assert (HP : P s1); [|destruct HP as (_ & HI1 & HC1 & Hs1); auto].
        eapply (mreact1s_ind P p); [|split; [exact Hwf|split; [exact HI|split; [exact HC|reflexivity]]]|exact Hstep].
        intros s2 s3 (Hw2 & HI2 & HC2 & Hs2) H23. split; [eapply mstep_wf; eauto|].
        destruct (minv_step1 w s2 (MReact1 p) s3 I Hw2 HI2 I eq_refl H23) as [HI3 Hs3].
        destruct (mcnt_step1 w s2 (MReact1 p) s3 I Hw2 HI2 HC2 H23) as [HC3 _].
        split; [exact HI3|]. split; [exact HC3|]. rewrite Hs3. exact Hs2.
      - destruct (mcnt_step1 w s (MReact1 p) s1 I Hwf HI HC Hstep) as [HC1 Hb].
        destruct (minv_step1 w s (MReact1 p) s1 I Hwf HI I Hb Hstep) as [HI1 Hs1]. auto.
      - destruct (mcnt_step1 w s (MDeliver src dst) s1 I Hwf HI HC Hstep) as [HC1 Hb].
        destruct (minv_step1 w s (MDeliver src dst) s1 I Hwf HI I Hb Hstep) as [HI1 Hs1]. auto.
      - simpl in Hop1. apply bool_decide_eq_true in Hop1.
        destruct (minv_step1 w s (MJoin c) s1 I Hwf HI I eq_refl Hstep) as [HI1 Hs1].
        split; [exact HI1|]. split; [eapply mcnt_join; eauto|]. split; [reflexivity|exact Hs1]. }
    destruct H1 as (HI1 & HC1 & Hb & Hs1).
    destruct (IH s1 s' (mstep_wf _ _ _ Hwf Hstep) HI1 HC1 Hok Hops Hrun) as (Hwf' & HI' & HC' & Hsc & Hs').
    split; [exact Hwf'|]. split; [exact HI'|]. split; [exact HC'|]. split; [rewrite Hb, Hsc; reflexivity|].
    rewrite Hs', Hs1. apply mstore_after_lastd.
Qed.

(* drain-separated overwrites of a material by one publisher replicate; fresh clients may join in quiescent
   states whoever the publisher is *)
Theorem M06_drain_separated_overwrites_replicate n w tr s' :
  mrun (minit n) tr = Some s' -> mpeers (minit n) w -> monly_publisher w tr ->
  mops_at_quiescence (minit n) tr = true -> mquiescent s' ->
  mknown_S7 (minit n) tr = false /\ forall q, mpeers s' q -> mpstore s' q = last (mpublished tr).
Proof.
  intros Hrun Hw Hop Hops Hq.
  destruct (mds_run w tr (minit n) s' (minit_wf n) (minv_init w n Hw) (mcnt_quiescent w _ (minit_quiescent n))
              (mev_ok_of w tr Hop) Hops Hrun) as (_ & HI & _ & Hsc & Hs).
  split; [exact Hsc|]. intros q Hpq.
  rewrite (minv_quiescent_agree w s' HI Hq q Hpq), Hs.
  unfold mpstore at 1. rewrite minit_getp. apply lastd_None_last.
Qed.
Print Assumptions M06_drain_separated_overwrites_replicate.

Lemma mplain_trace rest :
  Forall mplain rest -> mpublished rest = [] /\ mpublishers rest = [] /\ forall s, mops_at_quiescence s rest = true.
Proof.
  induction 1 as [|e rest He _ (IH1 & IH2 & IH4)]; [repeat split|].
  destruct e; simpl in He; try contradiction; (split; [exact IH1|]; split; [exact IH2|]);
    intros s; cbn [mops_at_quiescence]; (destruct (mstep s _); [|reflexivity]); rewrite IH4; reflexivity.
Qed.

Theorem M06_first_publication_replicates n p c rest s' :
  Forall mplain rest -> mrun (minit n) (MPublish p c :: rest) = Some s' -> mquiescent s' ->
  forall q, mpeers s' q -> mpstore s' q = Some c.
Proof.
  intros Hpl Hrun Hq q Hpq. destruct (mplain_trace rest Hpl) as (H1 & H2 & H4).
  assert (Hw : mpeers (minit n) p).
  { cbn [mrun] in Hrun. destruct (mstep (minit n) (MPublish p c)) as [s1|] eqn:Hs; [|discriminate].
    apply mstep_publish in Hs as (Hex & _). apply (mwf_exists _ _ (minit_wf n)). exact Hex. }
  destruct (M06_drain_separated_overwrites_replicate n p (MPublish p c :: rest) s' Hrun Hw) as [_ Hall]; try assumption.
  - unfold monly_publisher. simpl. rewrite H2. repeat constructor.
  - cbn [mops_at_quiescence]. cbn [mrun] in Hrun. destruct (mstep (minit n) (MPublish p c)) as [s1|]; [|discriminate].
    rewrite H4. simpl. rewrite andb_true_r. apply bool_decide_eq_true. apply minit_quiescent.
  - rewrite (Hall q Hpq), mpublished_cons, H1. reflexivity.
Qed.
Print Assumptions M06_first_publication_replicates.

Example M06_nonvacuous :
  let tr := [MPublish 1 10; MReact 1; MDeliver 1 0; MDeliver 0 2; MReact 0; MReact 2;
             MJoin 3; MDeliver 0 3; MReact 3;
             MPublish 1 20; MReact 1; MDeliver 1 0; MReact 0; MDeliver 0 2; MDeliver 0 3; MReact 2; MReact 3] in
  monly_publisher 1 tr /\ mops_at_quiescence (minit 2) tr = true /\
  (fun s => mview s [0; 1; 2; 3]) <$> mrun (minit 2) tr = Some ([Some 20; Some 20; Some 20; Some 20], true).
Proof. split; [unfold monly_publisher; vm_compute; repeat constructor|]. split; vm_compute; reflexivity. Qed.

(* a burst outside S7 with a join in mid-flight *)
Example M06_outside_S7_nonvacuous :
  let tr := [MPublish 1 10; MReact 1; MPublish 1 20; MDeliver 1 0; MJoin 3; MReact 1; MReact 0; MDeliver 1 0; MReact 0;
             MDeliver 0 3; MReact 3; MDeliver 0 3; MReact 3; MDeliver 0 2; MReact 2; MDeliver 0 2; MReact 2] in
  monly_publisher 1 tr /\ mknown_S7 (minit 2) tr = false /\ mops_at_quiescence (minit 2) tr = false /\
  (fun s => mview s [0; 1; 2; 3]) <$> mrun (minit 2) tr = Some ([Some 20; Some 20; Some 20; Some 20], true).
Proof. split; [unfold monly_publisher; vm_compute; repeat constructor|]. split; [|split]; vm_compute; reflexivity. Qed.

(* ---------- unbounded echo traffic ----------------------------------------------------------------- *)

Lemma mrun_app s tr1 tr2 : mrun s (tr1 ++ tr2) = match mrun s tr1 with Some s1 => mrun s1 tr2 | None => None end.
Proof. revert s. induction tr1 as [|e tr1 IH]; intros s; simpl; [reflexivity|]. destruct (mstep s e); auto. Qed.

Lemma mtotal_sent_app s tr1 tr2 s1 :
  mrun s tr1 = Some s1 -> mtotal_sent s (tr1 ++ tr2) = (mtotal_sent s tr1 + mtotal_sent s1 tr2)%nat.
Proof.
  revert s. induction tr1 as [|e tr1 IH]; intros s Hrun; simpl in Hrun.
  - inversion Hrun; subst. reflexivity.
  - cbn [app mtotal_sent]. destruct (mstep s e) as [s2|]; [|discriminate]. rewrite (IH s2 Hrun). lia.
Qed.

Fixpoint repeat_tr (k : nat) (tr : list mevent) : list mevent :=
  match k with O => [] | S k => tr ++ repeat_tr k tr end.

(* two publications of the host can cause any number of messages: the C09 style bound
   "messages <= publications * f(n)" does NOT hold for materials outside drain separation *)
Theorem material_traffic_unbounded :
  forall B : nat, exists tr s',
    mrun (minit 2) tr = Some s' /\ monly_publisher 0 tr /\ length (mpublished tr) = 2%nat /\
    (mtotal_sent (minit 2) tr > B)%nat.
Proof.
  intros B.
  assert (Hpre : mrun (minit 2) w_echo_pre = Some s_echo) by (apply (by_decide _ (dec := decide _)); vm_compute; reflexivity).
  assert (Hloop : mrun s_echo w_echo_loop = Some s_echo) by (apply (by_decide _ (dec := decide _)); vm_compute; reflexivity).
  assert (Hsent : mtotal_sent s_echo w_echo_loop = 6%nat) by (vm_compute; reflexivity).
  assert (Hk : forall k, mrun s_echo (repeat_tr k w_echo_loop) = Some s_echo /\
                         mtotal_sent s_echo (repeat_tr k w_echo_loop) = (6 * k)%nat /\
                         mpublishers (repeat_tr k w_echo_loop) = [] /\ mpublished (repeat_tr k w_echo_loop) = []).
  { induction k as [|k (IH1 & IH2 & IH3 & IH4)]; [repeat split|]. cbn [repeat_tr].
    split; [rewrite mrun_app, Hloop; exact IH1|]. split; [rewrite (mtotal_sent_app _ _ _ _ Hloop), Hsent, IH2; lia|].
    unfold mpublishers, mpublished in *. rewrite !omap_app, IH3, IH4. split; reflexivity. }
  destruct (Hk (S B)) as (H1 & H2 & H3 & H4).
  exists (w_echo_pre ++ repeat_tr (S B) w_echo_loop), s_echo.
  split; [rewrite mrun_app, Hpre; exact H1|].
  split; [unfold monly_publisher, mpublishers in *; rewrite omap_app, H3; vm_compute; repeat constructor|].
  split; [unfold mpublished in *; rewrite omap_app, H4; reflexivity|].
  rewrite (mtotal_sent_app _ _ _ _ Hpre), H2. lia.
Qed.
Print Assumptions material_traffic_unbounded.

Print Assumptions C06_refuted.
Print Assumptions C06_burst_overwrite_refuted.
Print Assumptions C06_republish_by_other_peer_refuted.
Print Assumptions C06_host_stale_after_join_refuted.
Print Assumptions join_preloaded_refuted.
Print Assumptions join_during_download_refuted.
Print Assumptions join_before_react_refuted.
Print Assumptions M06_refuted.
Print Assumptions material_echo_cycle.
Print Assumptions single_publisher_outside_S7_never_serves.
Print Assumptions drain_separated_never_S7.
Print Assumptions quiescent_is_drained.
