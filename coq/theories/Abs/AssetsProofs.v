(* Proofs about the event-level asset replication model (Assets.v): property C06.

   Part W : the defects, as machine-checked witnesses (findings)
   Part 0-2: channel operations, one-step characterisations, well-formedness
   Part 3 : the single-publisher invariant [Inv] (what holds outside the S7 class)
   Part 4 : drain separation: the counting invariant [Cnt] (no S7 inside a round)
   Part 5 : C06 theorems (first publication, overwrites), stability, traffic
   Part 6 : joins
   Part M : materials *)
From Coq Require Import NArith List Lia.
From stdpp Require Import gmap list.
From BS Require Import Abs.Assets.

Local Open Scope N_scope.

(* ================================================================================================
   Part W: witnesses
   ================================================================================================ *)

(* The literal property: while one peer alone publishes the id (overwrites included), every quiescent
   state shows the last published content on every peer. *)
Definition C06_statement : Prop :=
  forall n p tr s',
    arun (ainit n) tr = Some s' -> only_publisher p tr -> no_joins tr -> aquiescent s' ->
    forall q, peers s' q -> pstore s' q = last (published tr).

Ltac only_pub := unfold only_publisher; vm_compute; repeat constructor.

(* S7 + S12.  The host publishes 10 and 20 in quick succession; client 1 applies both downloads before
   its react system runs: two events, one token.  The second event is not swallowed: client 1 SERVES
   the asset and announces itself as owner; the host relays that to client 2.  From now on client 1's
   own cache holds the id, so request() ignores every later announcement: when the host publishes 30,
   client 1 keeps 20 for ever.  Nobody but the host ever published. *)
Definition w_burst : list aevent :=
  [APublish 0 10; AReact 0; APublish 0 20; AReact 0;
   ADeliver 0 1; ADeliver 0 1; ADownload 1; ADownload 1; AReact 1;
   ADeliver 1 0; ADeliver 0 2; ADownload 2; AReact 2; ADeliver 0 2; ADownload 2; AReact 2;
   ADeliver 0 2; ADownload 2; AReact 2;
   APublish 0 30; AReact 0; ADeliver 0 1; ADeliver 0 2; ADownload 2; AReact 2].

Theorem C06_burst_overwrite_refuted :
  exists n p tr s',
    arun (ainit n) tr = Some s' /\ only_publisher p tr /\ no_joins tr /\ aquiescent s' /\
    known_S7 (ainit n) tr = true /\ known_S12 (ainit n) tr = true /\
    last (published tr) = Some 30 /\ pstore s' p = Some 30 /\
    pstore s' 1 = Some 20 /\ pserved s' 1 = Some 20 /\ 1 ∈ aconn s'.
Proof.
  exists 2%nat, 0, w_burst. eexists. split; [vm_compute; reflexivity|].
  split; [only_pub|]. split; [reflexivity|]. split; [apply bool_decide_eq_true; vm_compute; reflexivity|].
  vm_compute. repeat split; auto. apply elem_of_list_here.
Qed.

Theorem C06_refuted : ~ C06_statement.
Proof.
  intros H. destruct C06_burst_overwrite_refuted as (n & p & tr & s' & Hrun & Hop & Hnj & Hq & _ & _ & Hl & _ & H1 & _ & Hin).
  specialize (H n p tr s' Hrun Hop Hnj Hq 1 (or_intror Hin)). rewrite H1, Hl in H. discriminate.
Qed.

(* S12 alone.  Drain separation does not help when the publisher changes: client 1 publishes 10
   (and therefore serves the id); everything drains; client 2 publishes 20; the host fetches it, client 1
   ignores the relayed announcement.  No S7 anywhere in the run. *)
Definition w_other_publisher : list aevent :=
  [APublish 1 10; AReact 1; ADeliver 1 0; ADownload 0; ADeliver 0 2; AReact 0; ADownload 2; AReact 2;
   APublish 2 20; AReact 2; ADeliver 2 0; ADownload 0; AReact 0; ADeliver 0 1].

Theorem C06_republish_by_other_peer_refuted :
  exists n tr s',
    arun (ainit n) tr = Some s' /\ no_joins tr /\ ops_at_quiescence (ainit n) tr = true /\ aquiescent s' /\
    known_S7 (ainit n) tr = false /\ known_S12 (ainit n) tr = true /\
    published tr = [10; 20] /\ pstore s' 0 = Some 20 /\ pstore s' 2 = Some 20 /\
    pstore s' 1 = Some 10 /\ 1 ∈ aconn s'.
Proof.
  exists 2%nat, w_other_publisher. eexists. split; [vm_compute; reflexivity|].
  split; [reflexivity|]. split; [vm_compute; reflexivity|].
  split; [apply bool_decide_eq_true; vm_compute; reflexivity|].
  vm_compute. repeat split; auto. apply elem_of_list_here.
Qed.

(* S12 by the client's local build_full_sync.  A client that connects while it already holds the id
   (e.g. the same file loaded under the same uuid) serves it at once: the host's announcement in the
   snapshot is ignored, the joiner keeps its own content. *)
Theorem join_preloaded_refuted :
  exists n tr c s',
    arun (ainit n) tr = Some s' /\ only_publisher 0 tr /\ ops_at_quiescence (ainit n) tr = true /\
    aquiescent s' /\ known_S7 (ainit n) tr = false /\ known_S12 (ainit n) tr = true /\
    c ∈ aconn s' /\ pstore s' 0 = Some 10 /\ pstore s' c = Some 5.
Proof.
  exists 1%nat, [APublish 0 10; AReact 0; ADeliver 0 1; ADownload 1; AReact 1; AJoin 2 (Some 5); ADeliver 0 2], 2.
  eexists. split; [vm_compute; reflexivity|]. split; [only_pub|]. split; [vm_compute; reflexivity|].
  split; [apply bool_decide_eq_true; vm_compute; reflexivity|].
  vm_compute. repeat split; auto. apply elem_of_list_further, elem_of_list_here.
Qed.

(* S12 by the host's build_full_sync.  Client 1 is the only publisher, everything is drain separated.
   Client 2 joins (fresh): the host serves its copy for the snapshot.  From then on the host ignores
   client 1's overwrites (it still relays them: clients 1 and 2 hold 20, the host keeps 10), and a later
   joiner is given the host's stale copy. *)
Definition w_host_stale : list aevent :=
  [APublish 1 10; AReact 1; ADeliver 1 0; ADownload 0; AReact 0;
   AJoin 2 None; ADeliver 0 2; ADownload 2; AReact 2;
   APublish 1 20; AReact 1; ADeliver 1 0; ADeliver 0 2; ADownload 2; AReact 2;
   AJoin 3 None; ADeliver 0 3; ADownload 3; AReact 3].

Theorem C06_host_stale_after_join_refuted :
  exists n tr s',
    arun (ainit n) tr = Some s' /\ only_publisher 1 tr /\ fresh_joins tr /\
    ops_at_quiescence (ainit n) tr = true /\ aquiescent s' /\
    known_S7 (ainit n) tr = false /\ known_S12 (ainit n) tr = true /\
    last (published tr) = Some 20 /\
    pstore s' <$> [0; 1; 2; 3] = [Some 10; Some 20; Some 20; Some 10].
Proof.
  exists 1%nat, w_host_stale. eexists. split; [vm_compute; reflexivity|]. split; [only_pub|].
  split; [unfold fresh_joins; vm_compute; repeat constructor|]. split; [vm_compute; reflexivity|].
  split; [apply bool_decide_eq_true; vm_compute; reflexivity|].
  vm_compute. repeat split; auto.
Qed.

(* A join while the host is still downloading.  Client 1 publishes ONCE; the host has relayed the
   announcement and started its download when client 2 joins: the snapshot is built from Assets<T>, which
   does not hold the id yet; the completed download is swallowed by its token.  Client 2 never hears of
   the id.  Neither S7 nor S12 is involved. *)
Theorem join_during_download_refuted :
  exists n tr c s',
    arun (ainit n) tr = Some s' /\ published tr = [10] /\ fresh_joins tr /\ aquiescent s' /\
    known_S7 (ainit n) tr = false /\ known_S12 (ainit n) tr = false /\ known_join_window (ainit n) tr = true /\
    c ∈ aconn s' /\ pstore s' 0 = Some 10 /\ pstore s' c = None.
Proof.
  exists 1%nat, [APublish 1 10; AReact 1; ADeliver 1 0; AJoin 2 None; ADownload 0; AReact 0], 2.
  eexists. split; [vm_compute; reflexivity|]. split; [reflexivity|].
  split; [unfold fresh_joins; vm_compute; repeat constructor|].
  split; [apply bool_decide_eq_true; vm_compute; reflexivity|].
  vm_compute. repeat split; auto. apply elem_of_list_further, elem_of_list_here.
Qed.

(* S7 without a burst: the host publishes once, a client joins between the insert and the host's react
   run: it is told twice (snapshot + broadcast), applies both downloads before reacting, serves the id,
   and misses the next overwrite. *)
Theorem join_before_react_refuted :
  exists tr s',
    arun (ainit 0) tr = Some s' /\ only_publisher 0 tr /\ fresh_joins tr /\ aquiescent s' /\
    known_S7 (ainit 0) tr = true /\ published tr = [10; 20] /\ pstore s' 0 = Some 20 /\ pstore s' 1 = Some 10.
Proof.
  exists [APublish 0 10; AJoin 1 None; AReact 0; ADeliver 0 1; ADeliver 0 1; ADownload 1; ADownload 1; AReact 1;
          ADeliver 1 0; APublish 0 20; AReact 0; ADeliver 0 1].
  eexists. split; [vm_compute; reflexivity|]. split; [only_pub|].
  split; [unfold fresh_joins; vm_compute; repeat constructor|].
  split; [apply bool_decide_eq_true; vm_compute; reflexivity|].
  vm_compute. repeat split; auto.
Qed.

(* ---------- materials --------------------------------------------------------------------------- *)

Definition M06_statement : Prop :=
  forall n p tr s',
    mrun (minit n) tr = Some s' -> monly_publisher p tr -> mquiescent s' ->
    forall q, mpeers s' q -> mpstore s' q = last (mpublished tr).

(* S7 for materials, as observed on the real code: the host writes 20 and 30 while the clients do not
   step; each client applies both updates before its react system runs: the second event is not swallowed
   and sends the CURRENT content (30) back to the host.  Meanwhile the host has written 40.  The echo
   30 is applied on the host (token), the host's own event for 40 is swallowed by that token, the next
   event announces 30 to everybody: the newest write is overwritten everywhere by an older one. *)
Definition w_material : list mevent :=
  [MPublish 0 20; MReact 0; MPublish 0 30; MReact 0;
   MDeliver 0 1; MDeliver 0 1; MDeliver 0 2; MDeliver 0 2; MReact 1; MReact 2;
   MPublish 0 40; MDeliver 1 0; MDeliver 2 0; MReact 0;
   MDeliver 0 1; MReact 1; MDeliver 0 1; MReact 1; MDeliver 0 1; MReact 1;
   MDeliver 0 2; MReact 2; MDeliver 0 2; MReact 2; MDeliver 0 2; MReact 2].

Theorem M06_older_overwrites_newer_refuted :
  exists n tr s',
    mrun (minit n) tr = Some s' /\ monly_publisher 0 tr /\ mquiescent s' /\ mknown_S7 (minit n) tr = true /\
    mpublished tr = [20; 30; 40] /\ mpstore s' <$> [0; 1; 2] = [Some 30; Some 30; Some 30].
Proof.
  exists 2%nat, w_material. eexists. split; [vm_compute; reflexivity|].
  split; [unfold monly_publisher; vm_compute; repeat constructor|].
  split; [apply bool_decide_eq_true; vm_compute; reflexivity|].
  vm_compute. repeat split; auto.
Qed.

Theorem M06_refuted : ~ M06_statement.
Proof.
  intros H. destruct M06_older_overwrites_newer_refuted as (n & tr & s' & Hrun & Hop & Hq & _ & Hp & Hs).
  specialize (H n 0 tr s' Hrun Hop Hq 0 (or_introl eq_refl)). rewrite Hp in H.
  injection Hs as Hs _. rewrite Hs in H. discriminate.
Qed.

(* The echo need not die out.  After two publications of the host (even of the same content) applied
   together by both clients, there is a cycle: the two echoes reach the host, which relays each to the
   other client and -- two events, one token -- broadcasts once; each client receives two messages,
   applies both before reacting, and echoes again.  Six messages per turn, for ever, with no publication
   and the same content everywhere. *)
Definition w_echo_pre : list mevent :=
  [MPublish 0 20; MReact 0; MPublish 0 30; MReact 0;
   MDeliver 0 1; MDeliver 0 1; MDeliver 0 2; MDeliver 0 2; MReact 1; MReact 2].
Definition w_echo_loop : list mevent :=
  [MDeliver 1 0; MDeliver 2 0; MReact 0; MDeliver 0 1; MDeliver 0 1; MDeliver 0 2; MDeliver 0 2; MReact 1; MReact 2].

Theorem material_echo_cycle :
  exists n pre loop s,
    mrun (minit n) pre = Some s /\ monly_publisher 0 pre /\ length (mpublished pre) = 2%nat /\
    Forall mplain loop /\ mrun s loop = Some s /\ mtotal_sent s loop = 6%nat.
Proof.
  exists 2%nat, w_echo_pre, w_echo_loop. eexists. split; [vm_compute; reflexivity|].
  split; [unfold monly_publisher; vm_compute; repeat constructor|]. split; [reflexivity|].
  split; [repeat constructor|]. split; vm_compute; reflexivity.
Qed.
