(* Proofs about the event-level entity model (Abs/Entities.v) AFTER the S18 repair (per-session
   tombstones, despawned_locally): uniqueness, property C01 (convergence outside the one remaining
   defect class S11, with refutation witnesses for S11; the former S18 witnesses now end agreeing),
   joiners, and the traffic bound used by C09. *)
From Coq Require Import NArith List Bool Lia.
From stdpp Require Import gmap list.
From BS Require Import Abs.Entities.
Local Open Scope N_scope.

(* ================================================================================================
   0. Non-vacuity: the model runs (3 peers)
   ================================================================================================ *)

(* host spawn (10), client spawn (11), late join of 2 while traffic is in flight, live spawn (12)
   that reaches 2 twice (live + snapshot), client-2 spawn (13) relayed to 1, delete by client 1
   relayed to 2, delete by the host. *)
Definition ex_trace : list event :=
  [EvConnect 1; EvDeliver 1 0; EvDeliver 0 1;
   EvSpawn 0 10; EvSpawn 1 11; EvConnect 2; EvSpawn 0 12; EvDeliver 2 0; EvSpawn 2 13;
   EvDeliver 1 0; EvDeliver 2 0;
   EvDeliver 0 1; EvDeliver 0 1; EvDeliver 0 1;
   EvDeliver 0 2; EvDeliver 0 2; EvDeliver 0 2; EvDeliver 0 2; EvDeliver 0 2;
   EvDespawn 1 12; EvDeliver 1 0; EvDeliver 0 2;
   EvDespawn 0 10; EvDeliver 0 1; EvDeliver 0 2].

Definition ex_view (s : astate) :=
  (get_ents s 0, get_ents s 1, get_ents s 2, conn s, synced s, quiescentb s, agreeb s, sent s).

Example ex_trace_runs :
  ex_view <$> run init ex_trace = Some ([13; 11], [13; 11], [11; 13], [2; 1], [2; 1], true, true, 17).
Proof. vm_compute. reflexivity. Qed.

Example ex_trace_is_clean :
  (known_S11 ex_trace, spec_alive ex_trace, dropped_uuids ex_trace) = (false, [11; 13], []).
Proof. vm_compute. reflexivity. Qed.

(* the late joiner really receives uuid 12 twice *)
Example ex_trace_live_duplicate :
  (fun s => get_link s 0 2) <$> run init (firstn 8 ex_trace)
  = Some [ESpawn 12; ESpawn 12; ESpawn 10; EFinInit].
Proof. vm_compute. reflexivity. Qed.

(* ================================================================================================
   1. Lists
   ================================================================================================ *)

Lemma remove1_subseteq u l v : v ∈ remove1 u l -> v ∈ l.
Proof.
  induction l as [|x l IH]; simpl; [done|].
  destruct (decide (x = u)); set_solver.
Qed.

Lemma remove1_other u l v : v ∈ l -> v <> u -> v ∈ remove1 u l.
Proof.
  induction l as [|x l IH]; simpl; [done|].
  intros Hin Hne. destruct (decide (x = u)); set_solver.
Qed.

Lemma remove1_NoDup u l : NoDup l -> NoDup (remove1 u l).
Proof.
  induction l as [|x l IH]; simpl; [done|].
  intros Hnd. apply NoDup_cons in Hnd as [Hx Hnd].
  destruct (decide (x = u)); [done|].
  apply NoDup_cons. split; [|auto]. intros Hin. apply Hx. eapply remove1_subseteq; eauto.
Qed.

Lemma remove1_not_in u l : NoDup l -> u ∉ remove1 u l.
Proof.
  induction l as [|x l IH]; simpl; [set_solver|].
  intros Hnd. apply NoDup_cons in Hnd as [Hx Hnd].
  destruct (decide (x = u)); [by subst|]. set_solver.
Qed.

Lemma remove1_absent u l : u ∉ l -> remove1 u l = l.
Proof.
  induction l as [|x l IH]; simpl; [done|].
  intros Hn. destruct (decide (x = u)); [set_solver|]. f_equal. apply IH. set_solver.
Qed.

Lemma remove1_length u l : u ∈ l -> S (length (remove1 u l)) = length l.
Proof.
  induction l as [|x l IH]; simpl; [set_solver|].
  intros Hin. destruct (decide (x = u)); [done|]. simpl. f_equal. apply IH. set_solver.
Qed.

Lemma after_msgs_app u b q1 q2 : after_msgs u b (q1 ++ q2) = after_msgs u (after_msgs u b q1) q2.
Proof. apply foldl_app. Qed.

Lemma after_msgs_cons u b m q : after_msgs u b (m :: q) = after_msgs u (after_msg u b m) q.
Proof. reflexivity. Qed.

Lemma after_msgs_snoc u b q m : after_msgs u b (q ++ [m]) = after_msg u (after_msgs u b q) m.
Proof. rewrite after_msgs_app. reflexivity. Qed.

(* no message about u: membership unchanged *)
Lemma after_msgs_no_mention u b q :
  ESpawn u ∉ q -> EDelete u ∉ q -> after_msgs u b q = b.
Proof.
  revert b. induction q as [|m q IH]; intros b Hs Hd; [done|].
  rewrite after_msgs_cons, IH by set_solver.
  destruct m as [v|v| |]; simpl; try done; destruct (decide (v = u)); set_solver.
Qed.

Lemma after_msgs_no_spawn u q : ESpawn u ∉ q -> after_msgs u false q = false.
Proof.
  induction q as [|m q IH] using rev_ind; intros Hs; [done|].
  rewrite after_msgs_snoc, IH by set_solver.
  destruct m as [v|v| |]; simpl; try done; destruct (decide (v = u)); set_solver.
Qed.

Lemma after_msgs_true_inv u b q : after_msgs u b q = true -> b = true \/ ESpawn u ∈ q.
Proof.
  induction q as [|m q IH] using rev_ind; intros Ht; [by left|].
  rewrite after_msgs_snoc in Ht.
  destruct m as [v|v| |]; simpl in Ht;
    try (destruct (IH Ht) as [?|?]; [by left|right; set_solver]);
    destruct (decide (v = u)) as [->|]; try done;
    try (destruct (IH Ht) as [?|?]; [by left|right; set_solver]).
  right. set_solver.
Qed.

(* the snapshot: everything in l ends up present *)
Lemma after_msgs_spawns u b l :
  after_msgs u b (ESpawn <$> l) = b || bool_decide (u ∈ l).
Proof.
  revert b. induction l as [|x l IH]; intros b.
  - rewrite bool_decide_eq_false_2 by set_solver. by rewrite orb_false_r.
  - rewrite fmap_cons, after_msgs_cons, IH. simpl. destruct (decide (x = u)) as [->|Hne].
    + rewrite (bool_decide_eq_true_2 (u ∈ u :: l)) by set_solver. by rewrite orb_true_r.
    + destruct (decide (u ∈ l)).
      * rewrite !bool_decide_eq_true_2 by set_solver. done.
      * rewrite !bool_decide_eq_false_2 by set_solver. done.
Qed.

Lemma after_msgs_snapshot u b l :
  after_msgs u b ((ESpawn <$> l) ++ [EFinInit]) = b || bool_decide (u ∈ l).
Proof. rewrite after_msgs_snoc. simpl. apply after_msgs_spawns. Qed.

(* ================================================================================================
   2. Views of the primitive updates
   ================================================================================================ *)

Section prims.
  Implicit Types (s : astate) (a b c p : peer) (u : uuid) (m : emsg).

  Lemma get_link_send s a b ms a' b' :
    get_link (send s a b ms) a' b' =
      if decide ((a, b) = (a', b')) then get_link s a b ++ ms else get_link s a' b'.
  Proof.
    unfold get_link at 1. simpl. destruct (decide ((a, b) = (a', b'))) as [<-|Hne].
    - by rewrite lookup_insert.
    - by rewrite lookup_insert_ne.
  Qed.

  Lemma get_link_set_link s a b q a' b' :
    get_link (set_link s a b q) a' b' = if decide ((a, b) = (a', b')) then q else get_link s a' b'.
  Proof.
    unfold get_link at 1. simpl. destruct (decide ((a, b) = (a', b'))) as [<-|Hne].
    - by rewrite lookup_insert.
    - by rewrite lookup_insert_ne.
  Qed.

  Lemma get_link_drop s c a b :
    get_link (drop_links s c) a b =
      if decide ((a, b) = (0, c) \/ (a, b) = (c, 0)) then [] else get_link s a b.
  Proof.
    unfold get_link at 1. simpl. destruct (decide _) as [[->| ->]|Hne].
    - by rewrite lookup_delete.
    - destruct (decide ((0, c) = (c, 0))) as [->|?]; [by rewrite lookup_delete|].
      rewrite lookup_delete_ne by done. by rewrite lookup_delete.
    - rewrite !lookup_delete_ne by (intros Heq; apply Hne; rewrite <- Heq; auto). done.
  Qed.

  Lemma get_ents_set_ents s p l p' :
    get_ents (set_ents s p l) p' = if decide (p = p') then l else get_ents s p'.
  Proof.
    unfold get_ents at 1. simpl. destruct (decide (p = p')) as [<-|Hne].
    - by rewrite lookup_insert.
    - by rewrite lookup_insert_ne.
  Qed.

  (* bcast: all other fields *)
  Lemma bcast_fields s cs m :
    ents (bcast s cs m) = ents s /\ conn (bcast s cs m) = conn s /\
    synced (bcast s cs m) = synced s /\ used (bcast s cs m) = used s /\
    sent (bcast s cs m) = sent s + N.of_nat (length cs).
  Proof.
    induction cs as [|c cs IH]; simpl.
    - repeat split; lia.
    - destruct IH as (-> & -> & -> & -> & ->). repeat split; lia.
  Qed.

  Lemma get_ents_bcast s cs m p : get_ents (bcast s cs m) p = get_ents s p.
  Proof. unfold get_ents. by rewrite (proj1 (bcast_fields s cs m)). Qed.

  Lemma get_tomb_bcast s cs m p : get_tomb (bcast s cs m) p = get_tomb s p.
  Proof. induction cs as [|c cs IH]; simpl; [done|]. exact IH. Qed.

  Lemma get_tomb_add_tomb s p u p' :
    get_tomb (add_tomb s p u) p' =
      if decide (p' = p /\ p <> 0) then u :: get_tomb s p else get_tomb s p'.
  Proof.
    unfold get_tomb at 1. simpl. destruct (decide (p = 0)) as [->|Hp].
    - rewrite decide_False; [done|]. tauto.
    - destruct (decide (p' = p)) as [->|Hne].
      + rewrite lookup_insert. by rewrite decide_True.
      + rewrite lookup_insert_ne by done. rewrite decide_False; [done|]. tauto.
  Qed.

  Lemma get_tomb_clear_tomb s c p' :
    get_tomb (clear_tomb s c) p' = if decide (p' = c) then [] else get_tomb s p'.
  Proof.
    unfold get_tomb at 1. simpl. destruct (decide (p' = c)) as [->|Hne].
    - by rewrite lookup_insert.
    - by rewrite lookup_insert_ne.
  Qed.

  Lemma get_link_bcast s cs m a b :
    NoDup cs ->
    get_link (bcast s cs m) a b =
      if decide (a = 0 /\ b ∈ cs) then get_link s a b ++ [m] else get_link s a b.
  Proof.
    induction cs as [|c cs IH]; intros Hnd; simpl.
    - destruct (decide _) as [[_ Hin]|]; [set_solver|done].
    - apply NoDup_cons in Hnd as [Hc Hnd]. rewrite get_link_send.
      destruct (decide ((0 : peer, c) = (a, b))) as [Heq|Hne].
      + injection Heq as <- <-. rewrite IH by done.
        repeat case_decide; try done; exfalso; set_solver.
      + rewrite IH by done.
        repeat case_decide; try done; exfalso.
        * set_solver.
        * destruct_and!. subst a. set_solver.
  Qed.
End prims.

Lemma others_spec s c x : x ∈ others s c <-> x <> c /\ x ∈ conn s.
Proof. unfold others. rewrite elem_of_list_filter. done. Qed.

Lemma others_NoDup s c : NoDup (conn s) -> NoDup (others s c).
Proof. apply NoDup_filter. Qed.

(* ================================================================================================
   3. The steps, seen through get_ents / get_link / conn / synced / used
   ================================================================================================ *)

Lemma peer_on_spec s p : peer_on s p = true <-> p = 0 \/ p ∈ conn s.
Proof.
  unfold peer_on. rewrite orb_true_iff, !bool_decide_eq_true. done.
Qed.

Lemma get_link_announce s p m a b :
  NoDup (conn s) ->
  get_link (announce s p m) a b =
    if decide (p = 0)
    then (if decide (a = 0 /\ b ∈ conn s) then get_link s a b ++ [m] else get_link s a b)
    else (if decide ((p, 0) = (a, b)) then get_link s a b ++ [m] else get_link s a b).
Proof.
  intros Hnd. unfold announce. destruct (decide (p = 0)) as [->|Hp].
  - by apply get_link_bcast.
  - rewrite get_link_send. repeat case_decide; simplify_eq; done.
Qed.

Lemma announce_fields s p m :
  ents (announce s p m) = ents s /\ conn (announce s p m) = conn s /\
  synced (announce s p m) = synced s /\ used (announce s p m) = used s.
Proof.
  unfold announce. destruct (decide (p = 0)).
  - destruct (bcast_fields s (conn s) m) as (? & ? & ? & ? & _). done.
  - done.
Qed.

Lemma get_tomb_announce s p m p' : get_tomb (announce s p m) p' = get_tomb s p'.
Proof. unfold announce. destruct (decide (p = 0)); [apply get_tomb_bcast|done]. Qed.

(* what a client with tombstones T does to its own list *)
Definition cl_apply (T : list uuid) (m : emsg) (l : list uuid) : list uuid :=
  match m with
  | ESpawn u => if bool_decide (u ∈ T) then l else if bool_decide (u ∈ l) then l else u :: l
  | EDelete u => remove1 u l
  | _ => l
  end.

Definition tomb_same (s s' : astate) : Prop := forall p, get_tomb s' p = get_tomb s p.

Definition same_tables (s s' : astate) : Prop :=
  conn s' = conn s /\ synced s' = synced s /\ used s' = used s.

(* the message announced by an operation of p *)
Definition op_links (s s' : astate) (p : peer) (m : emsg) : Prop :=
  forall a b, get_link s' a b =
    if decide (p = 0)
    then (if decide (a = 0 /\ b ∈ conn s) then get_link s a b ++ [m] else get_link s a b)
    else (if decide ((p, 0) = (a, b)) then get_link s a b ++ [m] else get_link s a b).

(* the host pops m from (c,0) and repeats it to everybody but c *)
Definition relay_links (s s' : astate) (c : peer) (q : list emsg) (m : emsg) : Prop :=
  forall a b, get_link s' a b =
    if decide ((a, b) = (c, 0)) then q
    else if decide (a = 0 /\ b <> c /\ b ∈ conn s) then get_link s a b ++ [m]
    else get_link s a b.

Definition pop_links (s s' : astate) (a0 b0 : peer) (q : list emsg) : Prop :=
  forall a b, get_link s' a b = if decide ((a, b) = (a0, b0)) then q else get_link s a b.

Definition ents_upd (s s' : astate) (p : peer) (l : list uuid) : Prop :=
  forall p', get_ents s' p' = if decide (p' = p) then l else get_ents s p'.

Inductive astep (s s' : astate) : event -> Prop :=
| AS_spawn p u :
    p = 0 \/ p ∈ conn s -> u ∉ used s ->
    ents_upd s s' p (u :: get_ents s p) -> op_links s s' p (ESpawn u) ->
    conn s' = conn s -> synced s' = synced s -> used s' = u :: used s -> tomb_same s s' ->
    astep s s' (EvSpawn p u)
| AS_despawn p u :
    p = 0 \/ p ∈ conn s -> u ∈ get_ents s p ->
    ents_upd s s' p (remove1 u (get_ents s p)) -> op_links s s' p (EDelete u) ->
    same_tables s s' ->
    (forall p', get_tomb s' p' = if decide (p' = p /\ p <> 0) then u :: get_tomb s p else get_tomb s p') ->
    astep s s' (EvDespawn p u)
| AS_host_spawn c u q :
    c <> 0 -> get_link s c 0 = ESpawn u :: q ->
    ents_upd s s' 0 (u :: get_ents s 0) -> relay_links s s' c q (ESpawn u) ->
    same_tables s s' -> tomb_same s s' ->
    astep s s' (EvDeliver c 0)
| AS_host_delete c u q :
    c <> 0 -> get_link s c 0 = EDelete u :: q ->
    ents_upd s s' 0 (remove1 u (get_ents s 0)) -> relay_links s s' c q (EDelete u) ->
    same_tables s s' -> tomb_same s s' ->
    astep s s' (EvDeliver c 0)
| AS_host_req c q :
    c <> 0 -> get_link s c 0 = EReqInit :: q ->
    (forall p, get_ents s' p = get_ents s p) ->
    (forall a b, get_link s' a b =
       if decide ((a, b) = (c, 0)) then q
       else if decide ((a, b) = (0, c))
            then get_link s 0 c ++ (ESpawn <$> get_ents s 0) ++ [EFinInit]
            else get_link s a b) ->
    conn s' = conn s -> synced s' = c :: synced s -> used s' = used s -> tomb_same s s' ->
    astep s s' (EvDeliver c 0)
| AS_host_fin c q :
    c <> 0 -> get_link s c 0 = EFinInit :: q ->
    (forall p, get_ents s' p = get_ents s p) -> pop_links s s' c 0 q ->
    same_tables s s' -> tomb_same s s' ->
    astep s s' (EvDeliver c 0)
| AS_client c m q :
    c <> 0 -> get_link s 0 c = m :: q ->
    ents_upd s s' c (cl_apply (get_tomb s c) m (get_ents s c)) -> pop_links s s' 0 c q ->
    same_tables s s' -> tomb_same s s' ->
    astep s s' (EvDeliver 0 c)
| AS_connect c :
    c <> 0 -> c ∉ conn s ->
    (forall p, get_ents s' p = get_ents s p) ->
    (forall a b, get_link s' a b =
       if decide ((a, b) = (c, 0)) then get_link s c 0 ++ [EReqInit] else get_link s a b) ->
    conn s' = c :: conn s -> synced s' = synced s -> used s' = used s ->
    (forall p', get_tomb s' p' = if decide (p' = c) then [] else get_tomb s p') ->
    astep s s' (EvConnect c)
| AS_leave c :
    c ∈ conn s ->
    (forall p, get_ents s' p = get_ents s p) ->
    (forall a b, get_link s' a b =
       if decide ((a, b) = (0, c) \/ (a, b) = (c, 0)) then [] else get_link s a b) ->
    conn s' = filter (fun x => x <> c) (conn s) ->
    synced s' = filter (fun x => x <> c) (synced s) -> used s' = used s -> tomb_same s s' ->
    astep s s' (EvLeave c).

Lemma step_astep s e s' : NoDup (conn s) -> step s e = Some s' -> astep s s' e.
Proof.
  intros Hnd Hstep. destruct e as [p u|p u|a b|c|c]; simpl in Hstep.
  - destruct (peer_on s p) eqn:Hon; [|done].
    destruct (bool_decide (u ∉ used s)) eqn:Hfresh; [|done].
    simpl in Hstep. injection Hstep as <-.
    apply peer_on_spec in Hon. apply bool_decide_eq_true in Hfresh.
    set (s1 := add_used (set_ents s p (u :: get_ents s p)) u).
    destruct (announce_fields s1 p (ESpawn u)) as (He & Hc & Hs & Hu).
    apply AS_spawn; try done.
    + intros p'. unfold get_ents at 1. rewrite He.
      change (get_ents (set_ents s p (u :: get_ents s p)) p' =
              if decide (p' = p) then u :: get_ents s p else get_ents s p').
      rewrite get_ents_set_ents. repeat case_decide; simplify_eq; done.
    + intros a b. rewrite get_link_announce by done. done.
    + intros p'. rewrite get_tomb_announce. done.
  - destruct (peer_on s p) eqn:Hon; [|done].
    destruct (bool_decide (u ∈ get_ents s p)) eqn:Hin; [|done].
    simpl in Hstep. injection Hstep as <-.
    apply peer_on_spec in Hon. apply bool_decide_eq_true in Hin.
    set (s0 := set_ents s p (remove1 u (get_ents s p))).
    set (s1 := add_tomb s0 p u).
    destruct (announce_fields s1 p (EDelete u)) as (He & Hc & Hs & Hu).
    apply AS_despawn; try done.
    + intros p'. unfold get_ents at 1. rewrite He.
      change (get_ents s0 p' = if decide (p' = p) then remove1 u (get_ents s p) else get_ents s p').
      unfold s0. rewrite get_ents_set_ents. repeat case_decide; simplify_eq; done.
    + intros a b. rewrite get_link_announce by done. done.
    + intros p'. rewrite get_tomb_announce. unfold s1. rewrite get_tomb_add_tomb. done.
  - destruct (get_link s a b) as [|m q] eqn:Hl; [done|].
    destruct (decide (b = 0)) as [->|Hb].
    + destruct (decide (a = 0)) as [->|Ha]; [done|]. injection Hstep as <-.
      set (s1 := set_link s a 0 q).
      assert (Hl1 : forall a' b', get_link s1 a' b' =
                if decide ((a', b') = (a, 0)) then q else get_link s a' b').
      { intros a' b'. unfold s1. rewrite get_link_set_link. repeat case_decide; simplify_eq; done. }
      destruct m as [u|u| |]; simpl.
      * destruct (bcast_fields (set_ents s1 0 (u :: get_ents s1 0)) (others s1 a) (ESpawn u))
          as (He & Hc & Hs & Hu & _).
        eapply AS_host_spawn; try done.
        -- intros p'. rewrite get_ents_bcast, get_ents_set_ents. repeat case_decide; simplify_eq; done.
        -- intros a' b'. rewrite get_link_bcast by (by apply others_NoDup).
           change (get_link (set_ents s1 0 (u :: get_ents s1 0)) a' b') with (get_link s1 a' b').
           rewrite Hl1. destruct (decide ((a', b') = (a, 0))) as [Heq|Hne].
           ++ injection Heq as -> ->. rewrite decide_False; [done|]. intros [? _]. done.
           ++ destruct (decide (a' = 0 /\ b' ∈ others s1 a)) as [[-> Hin]|Hn].
              ** apply others_spec in Hin. rewrite decide_True by done. done.
              ** rewrite decide_False; [done|]. intros (-> & ? & ?). apply Hn. split; [done|].
                 apply others_spec. done.
        -- intros p'. rewrite get_tomb_bcast. done.
      * destruct (bcast_fields (set_ents s1 0 (remove1 u (get_ents s1 0))) (others s1 a) (EDelete u))
          as (He & Hc & Hs & Hu & _).
        eapply AS_host_delete; try done.
        -- intros p'. rewrite get_ents_bcast, get_ents_set_ents. repeat case_decide; simplify_eq; done.
        -- intros a' b'. rewrite get_link_bcast by (by apply others_NoDup).
           change (get_link (set_ents s1 0 (remove1 u (get_ents s1 0))) a' b') with (get_link s1 a' b').
           rewrite Hl1. destruct (decide ((a', b') = (a, 0))) as [Heq|Hne].
           ++ injection Heq as -> ->. rewrite decide_False; [done|]. intros [? _]. done.
           ++ destruct (decide (a' = 0 /\ b' ∈ others s1 a)) as [[-> Hin]|Hn].
              ** apply others_spec in Hin. rewrite decide_True by done. done.
              ** rewrite decide_False; [done|]. intros (-> & ? & ?). apply Hn. split; [done|].
                 apply others_spec. done.
        -- intros p'. rewrite get_tomb_bcast. done.
      * eapply AS_host_req; try done.
        intros a' b'.
        change (get_link (send s1 0 a ((ESpawn <$> get_ents s1 0) ++ [EFinInit])) a' b' = 
                if decide ((a', b') = (a, 0)) then q
                else if decide ((a', b') = (0, a))
                     then get_link s 0 a ++ (ESpawn <$> get_ents s 0) ++ [EFinInit]
                     else get_link s a' b').
        rewrite get_link_send, !Hl1.
        destruct (decide ((a', b') = (a, 0))) as [Heq|Hne].
        -- injection Heq as -> ->. rewrite decide_False by congruence. done.
        -- rewrite (decide_False (P := (0, a) = (a, 0))) by congruence.
           repeat case_decide; simplify_eq; done.
      * eapply AS_host_fin; try done; intros a' b'; apply Hl1.
    + destruct (decide (a = 0)) as [->|Ha]; [|done]. injection Hstep as <-.
      set (s1 := set_link s 0 b q).
      assert (Hl1 : forall a' b', get_link s1 a' b' =
                if decide ((a', b') = (0, b)) then q else get_link s a' b').
      { intros a' b'. unfold s1. rewrite get_link_set_link. repeat case_decide; simplify_eq; done. }
      assert (HE1 : forall p', get_ents s1 p' = get_ents s p') by done.
      assert (HT1 : forall p', get_tomb s1 p' = get_tomb s p') by done.
      assert (Hid : forall p', get_ents s p' = if decide (p' = b) then get_ents s b else get_ents s p').
      { intros p'. case_decide; simplify_eq; done. }
      eapply (AS_client s _ b m q); try done.
      * intros p'. destruct m as [u|u| |]; simpl; rewrite ?HT1, ?HE1.
        -- destruct (bool_decide (u ∈ get_tomb s b)); [rewrite HE1; apply Hid|].
           destruct (bool_decide (u ∈ get_ents s b)); [rewrite HE1; apply Hid|].
           rewrite get_ents_set_ents, HE1. repeat case_decide; simplify_eq; done.
        -- rewrite get_ents_set_ents, HE1. repeat case_decide; simplify_eq; done.
        -- apply Hid.
        -- apply Hid.
      * intros a' b'. destruct m as [u|u| |]; simpl; try apply Hl1.
        destruct (bool_decide (u ∈ get_tomb s1 b)); [apply Hl1|].
        destruct (bool_decide (u ∈ get_ents s1 b)); apply Hl1.
      * destruct m as [u|u| |]; simpl; try done.
        destruct (bool_decide (u ∈ get_tomb s1 b)); [done|].
        destruct (bool_decide (u ∈ get_ents s1 b)); done.
      * destruct m as [u|u| |]; simpl; try done.
        destruct (bool_decide (u ∈ get_tomb s1 b)); [done|].
        destruct (bool_decide (u ∈ get_ents s1 b)); done.
  - destruct (bool_decide (c <> 0)) eqn:Hc0; [|done].
    destruct (bool_decide (c ∉ conn s)) eqn:Hcc; [|done].
    simpl in Hstep. injection Hstep as <-.
    apply bool_decide_eq_true in Hc0, Hcc.
    apply AS_connect; try done.
    + intros a b. rewrite get_link_send.
      change (get_link (clear_tomb (set_conn s (c :: conn s) (synced s)) c)) with (get_link s).
      repeat case_decide; simplify_eq; done.
    + intros p'.
      change (get_tomb (clear_tomb (set_conn s (c :: conn s) (synced s)) c) p' =
              if decide (p' = c) then [] else get_tomb s p').
      rewrite get_tomb_clear_tomb. done.
  - destruct (bool_decide (c ∈ conn s)) eqn:Hcc; [|done].
    injection Hstep as <-. apply bool_decide_eq_true in Hcc.
    apply AS_leave; try done.
    intros a b. rewrite get_link_drop. done.
Qed.

(* ================================================================================================
   4. Structural invariant (holds on EVERY run) and uniqueness
   ================================================================================================ *)

Definition mentions (u : uuid) (q : list emsg) : Prop := ESpawn u ∈ q \/ EDelete u ∈ q.

(* after a message about u, no (second) ESpawn u follows in the same queue *)
Fixpoint okq (q : list emsg) : Prop :=
  match q with
  | [] => True
  | m :: q' => (forall u, mentions u [m] -> ESpawn u ∉ q') /\ okq q'
  end.

(* "u is still travelling to the host from its creator o" *)
Definition pa (s : astate) (o : peer) (u : uuid) : Prop :=
  u ∉ get_ents s 0 /\
  (forall c, ~ mentions u (get_link s 0 c)) /\
  (forall c, c <> o -> u ∉ get_ents s c /\ ~ mentions u (get_link s c 0)) /\
  (u ∈ get_ents s o \/ EDelete u ∈ get_link s o 0).

Record sinv (s : astate) : Prop := {
  s_nd_conn : NoDup (conn s);
  s_host : 0 ∉ conn s;
  s_sub : forall c, c ∈ synced s -> c ∈ conn s;
  s_links : forall a b, get_link s a b <> [] -> (a = 0 /\ b ∈ conn s) \/ (b = 0 /\ a ∈ conn s);
  s_used_e : forall p u, u ∈ get_ents s p -> u ∈ used s;
  s_used_l : forall a b u, mentions u (get_link s a b) -> u ∈ used s;
  s_nd_ents : forall p, NoDup (get_ents s p);
  s_okq : forall c, okq (get_link s c 0);
  s_req : forall c, EReqInit ∉ tail (get_link s c 0);
  s_pa : forall o u, ESpawn u ∈ get_link s o 0 -> pa s o u;
}.

Ltac step_cases_t Hinv Hstep :=
  let A := fresh "A" in
  pose proof (step_astep _ _ _ (s_nd_conn _ Hinv) Hstep) as A;
  destruct A as
   [p u Hon Hfresh HE HL Hc Hs Hu HT
   |p u Hon Hin HE HL (Hc & Hs & Hu) HT
   |c u q Hc0 Hhd HE HL (Hc & Hs & Hu) HT
   |c u q Hc0 Hhd HE HL (Hc & Hs & Hu) HT
   |c q Hc0 Hhd HE HL Hc Hs Hu HT
   |c q Hc0 Hhd HE HL (Hc & Hs & Hu) HT
   |c m q Hc0 Hhd HE HL (Hc & Hs & Hu) HT
   |c Hc0 Hnc HE HL Hc Hs Hu HT
   |c Hcc HE HL Hc Hs Hu HT].

(* the same, forgetting what the step does to the tombstones *)
Ltac step_cases Hinv Hstep :=
  let A := fresh "A" in
  pose proof (step_astep _ _ _ (s_nd_conn _ Hinv) Hstep) as A;
  destruct A as
   [p u Hon Hfresh HE HL Hc Hs Hu _
   |p u Hon Hin HE HL (Hc & Hs & Hu) _
   |c u q Hc0 Hhd HE HL (Hc & Hs & Hu) _
   |c u q Hc0 Hhd HE HL (Hc & Hs & Hu) _
   |c q Hc0 Hhd HE HL Hc Hs Hu _
   |c q Hc0 Hhd HE HL (Hc & Hs & Hu) _
   |c m q Hc0 Hhd HE HL (Hc & Hs & Hu) _
   |c Hc0 Hnc HE HL Hc Hs Hu _
   |c Hcc HE HL Hc Hs Hu _].


Lemma link_nonempty_conn s c : sinv s -> c <> 0 -> get_link s c 0 <> [] -> c ∈ conn s.
Proof.
  intros Hinv Hc0 Hne. destruct (s_links _ Hinv _ _ Hne) as [[-> _]|[_ ?]]; done.
Qed.

Lemma link_nonempty_conn_down s c : sinv s -> c <> 0 -> get_link s 0 c <> [] -> c ∈ conn s.
Proof.
  intros Hinv Hc0 Hne. destruct (s_links _ Hinv _ _ Hne) as [[_ ?]|[-> _]]; done.
Qed.

Lemma link00 s : sinv s -> get_link s 0 0 = [].
Proof.
  intros Hinv. destruct (get_link s 0 0) eqn:Heq; [done|].
  assert (Hne : get_link s 0 0 <> []) by (by rewrite Heq).
  destruct (s_links _ Hinv _ _ Hne) as [[_ ?]|[_ ?]]; by destruct (s_host _ Hinv).
Qed.

Lemma sinv_tables s e s' :
  sinv s -> step s e = Some s' ->
  NoDup (conn s') /\ 0 ∉ conn s' /\ (forall c, c ∈ synced s' -> c ∈ conn s').
Proof.
  intros Hinv Hstep. pose proof (s_nd_conn _ Hinv) as Hnd. pose proof (s_host _ Hinv) as H0.
  pose proof (s_sub _ Hinv) as Hsub.
  step_cases Hinv Hstep; rewrite ?Hc, ?Hs; try done.
  - (* req *) split; [done|]. split; [done|]. intros c' [->|Hin]%elem_of_cons; [|auto].
    apply link_nonempty_conn; [done|done|]. by rewrite Hhd.
  - (* connect *) split; [by apply NoDup_cons|]. split; [set_solver|]. set_solver.
  - (* leave *) split; [by apply NoDup_filter|]. split.
    + rewrite elem_of_list_filter. tauto.
    + intros c'. rewrite !elem_of_list_filter. naive_solver.
Qed.

Lemma sinv_links s e s' :
  sinv s -> step s e = Some s' ->
  forall a b, get_link s' a b <> [] -> (a = 0 /\ b ∈ conn s') \/ (b = 0 /\ a ∈ conn s').
Proof.
  intros Hinv Hstep. pose proof (s_links _ Hinv) as Hl.
  step_cases Hinv Hstep; intros a b; rewrite HL, ?Hc.
  - repeat case_decide; simplify_eq; try (by auto). intros _. right. destruct Hon; [done|auto].
  - repeat case_decide; simplify_eq; try (by auto). intros _. right. destruct Hon; [done|auto].
  - repeat case_decide; simplify_eq; try (by auto); try (intros _; left; tauto).
    intros _. right. split; [done|]. apply link_nonempty_conn; [done|done|by rewrite Hhd].
  - repeat case_decide; simplify_eq; try (by auto); try (intros _; left; tauto).
    intros _. right. split; [done|]. apply link_nonempty_conn; [done|done|by rewrite Hhd].
  - assert (c ∈ conn s) by (apply link_nonempty_conn; [done|done|by rewrite Hhd]).
    repeat case_decide; simplify_eq; try (by auto).
  - repeat case_decide; simplify_eq; try (by auto). intros _. apply Hl. by rewrite Hhd.
  - repeat case_decide; simplify_eq; try (by auto). intros _. apply Hl. by rewrite Hhd.
  - repeat case_decide; simplify_eq.
    + intros _. right. set_solver.
    + intros Hne. destruct (Hl _ _ Hne) as [[? ?]|[? ?]]; [left|right]; set_solver.
  - case_decide as Hd; [done|]. intros Hne.
    destruct (Hl _ _ Hne) as [[-> ?]|[-> ?]]; [left|right]; (split; [done|]);
      apply elem_of_list_filter; (split; [|done]); intros ->; apply Hd; auto.
Qed.

Lemma mentions_app u q1 q2 : mentions u (q1 ++ q2) <-> mentions u q1 \/ mentions u q2.
Proof. unfold mentions. set_solver. Qed.
Lemma mentions_cons u m q : mentions u (m :: q) <-> mentions u [m] \/ mentions u q.
Proof. unfold mentions. set_solver. Qed.
Lemma mentions_nil u : ~ mentions u [].
Proof. unfold mentions. set_solver. Qed.
Lemma mentions_spawn u v : mentions u [ESpawn v] <-> u = v.
Proof. unfold mentions. set_solver. Qed.
Lemma mentions_delete u v : mentions u [EDelete v] <-> u = v.
Proof. unfold mentions. set_solver. Qed.
Lemma mentions_req u : ~ mentions u [EReqInit].
Proof. unfold mentions. set_solver. Qed.
Lemma mentions_fin u : ~ mentions u [EFinInit].
Proof. unfold mentions. set_solver. Qed.
Lemma mentions_fmap u l : mentions u (ESpawn <$> l) <-> u ∈ l.
Proof. unfold mentions. set_solver. Qed.
Lemma mentions_snapshot u l : mentions u ((ESpawn <$> l) ++ [EFinInit]) <-> u ∈ l.
Proof. unfold mentions. set_solver. Qed.

Lemma okq_snoc q m :
  okq (q ++ [m]) <-> okq q /\ (forall u, m = ESpawn u -> ~ mentions u q).
Proof.
  induction q as [|x q IH]; simpl.
  - split.
    + intros _. split; [done|]. intros u _. apply mentions_nil.
    + intros _. split; [|done]. intros u _. set_solver.
  - rewrite IH. split.
    + intros (Hx & Hq & Hm). split; [split; [|done]|].
      * intros u Hu. specialize (Hx u Hu). set_solver.
      * intros u -> [Hu|Hu]%mentions_cons; [|by eapply Hm].
        apply (Hx u Hu). set_solver.
    + intros ((Hx & Hq) & Hm). split; [|split; [done|]].
      * intros u Hu [Hin|Hin]%elem_of_app; [by eapply Hx|].
        apply elem_of_list_singleton in Hin. apply (Hm u (eq_sym Hin)). apply mentions_cons. by left.
      * intros u -> Hu. apply (Hm u eq_refl). apply mentions_cons. by right.
Qed.

Lemma cl_apply_NoDup T m l : NoDup l -> NoDup (cl_apply T m l).
Proof.
  intros Hnd. destruct m as [u|u| |]; simpl; try done.
  - destruct (bool_decide (u ∈ T)); [done|]. case_bool_decide; [done|]. by apply NoDup_cons.
  - by apply remove1_NoDup.
Qed.

Lemma elem_of_snoc {A} (x y : A) (l : list A) : x ∈ l ++ [y] <-> x ∈ l \/ x = y.
Proof. set_solver. Qed.

Lemma cl_apply_elem_inv T w m l : w ∈ cl_apply T m l -> w ∈ l \/ m = ESpawn w.
Proof.
  destruct m as [u|u| |]; simpl; auto.
  - destruct (bool_decide (u ∈ T)); [auto|].
    case_bool_decide; [auto|]. intros [->|?]%elem_of_cons; auto.
  - intros ?%remove1_subseteq. auto.
Qed.

Lemma cl_apply_elem_keep T w m l : w ∈ l -> m <> EDelete w -> w ∈ cl_apply T m l.
Proof.
  intros Hin Hm. destruct m as [u|u| |]; simpl; auto.
  - destruct (bool_decide (u ∈ T)); [done|]. case_bool_decide; set_solver.
  - apply remove1_other; [done|]. intros ->. done.
Qed.

Lemma sinv_used s e s' :
  sinv s -> step s e = Some s' ->
  (forall p u, u ∈ get_ents s' p -> u ∈ used s') /\
  (forall a b u, mentions u (get_link s' a b) -> u ∈ used s').
Proof.
  intros Hinv Hstep. pose proof (s_used_e _ Hinv) as Hue. pose proof (s_used_l _ Hinv) as Hul.
  step_cases Hinv Hstep; rewrite ?Hu.
  - split.
    + intros p' v. rewrite HE. case_decide; [|set_solver]. intros [->|?]%elem_of_cons; set_solver.
    + intros a b v. rewrite HL. repeat case_decide; rewrite ?mentions_app, ?mentions_spawn;
        intros; destruct_or?; subst; try set_solver; apply elem_of_cons; right; eauto.
  - split.
    + intros p' v. rewrite HE. case_decide; [|eauto]. intros ?%remove1_subseteq. eauto.
    + intros a b v. rewrite HL. repeat case_decide; rewrite ?mentions_app, ?mentions_delete;
        intros; destruct_or?; subst; eauto.
  - assert (u ∈ used s).
    { apply (Hul c 0). rewrite Hhd. apply mentions_cons. left. by apply mentions_spawn. }
    split.
    + intros p' v. rewrite HE. case_decide; [|eauto]. intros [->|?]%elem_of_cons; eauto.
    + intros a b v. rewrite HL. repeat case_decide; rewrite ?mentions_app, ?mentions_spawn;
        intros; destruct_or?; subst; eauto.
      apply (Hul c 0). rewrite Hhd. apply mentions_cons. by right.
  - assert (u ∈ used s).
    { apply (Hul c 0). rewrite Hhd. apply mentions_cons. left. by apply mentions_delete. }
    split.
    + intros p' v. rewrite HE. case_decide; [|eauto]. intros ?%remove1_subseteq. eauto.
    + intros a b v. rewrite HL. repeat case_decide; rewrite ?mentions_app, ?mentions_delete;
        intros; destruct_or?; subst; eauto.
      apply (Hul c 0). rewrite Hhd. apply mentions_cons. by right.
  - split.
    + intros p' v. rewrite HE. eauto.
    + intros a b v. rewrite HL. repeat case_decide; rewrite ?mentions_app, ?mentions_fmap;
        intros; destruct_or?; simplify_eq; eauto; try (exfalso; by eapply mentions_fin).
      apply (Hul c 0). rewrite Hhd. apply mentions_cons. by right.
  - split.
    + intros p' v. rewrite HE. eauto.
    + intros a b v. rewrite HL. repeat case_decide; eauto. intros.
      apply (Hul c 0). rewrite Hhd. apply mentions_cons. by right.
  - split.
    + intros p' v. rewrite HE. case_decide; [|eauto]. subst p'.
      intros [?| ->]%cl_apply_elem_inv; [eauto|].
      apply (Hul 0 c). rewrite Hhd. apply mentions_cons. left. by apply mentions_spawn.
    + intros a b v. rewrite HL. repeat case_decide; eauto. intros. simplify_eq.
      apply (Hul 0 c). rewrite Hhd. apply mentions_cons. by right.
  - split.
    + intros p' v. rewrite HE. eauto.
    + intros a b v. rewrite HL. repeat case_decide; eauto. rewrite mentions_app.
      intros [?|[]%mentions_req]. eauto.
  - split.
    + intros p' v. rewrite HE. eauto.
    + intros a b v. rewrite HL. repeat case_decide; eauto. intros []%mentions_nil.
Qed.

Lemma okq_tail m q : okq (m :: q) -> okq q.
Proof. simpl. tauto. Qed.

Lemma sinv_okq s e s' :
  sinv s -> step s e = Some s' -> forall c, okq (get_link s' c 0).
Proof.
  intros Hinv Hstep. pose proof (s_okq _ Hinv) as Hok. pose proof (s_host _ Hinv) as H0.
  step_cases Hinv Hstep; intros c'; rewrite HL.
  - repeat case_decide; simplify_eq; try done; try (exfalso; tauto).
    apply okq_snoc. split; [done|]. intros ? [= <-] Hm.
    apply Hfresh. eapply s_used_l; eauto.
  - repeat case_decide; simplify_eq; try done; try (exfalso; tauto).
    apply okq_snoc. split; [done|]. intros ? [=].
  - repeat case_decide; simplify_eq; try done; try (exfalso; tauto).
    eapply okq_tail. rewrite <- Hhd. done.
  - repeat case_decide; simplify_eq; try done; try (exfalso; tauto).
    eapply okq_tail. rewrite <- Hhd. done.
  - repeat case_decide; simplify_eq; try done.
    eapply okq_tail. rewrite <- Hhd. done.
  - repeat case_decide; simplify_eq; try done.
    eapply okq_tail. rewrite <- Hhd. done.
  - repeat case_decide; simplify_eq; try done.
  - repeat case_decide; simplify_eq; try done.
    apply okq_snoc. split; [done|]. intros ? [=].
  - repeat case_decide; simplify_eq; try done.
Qed.

Lemma tail_snoc_not_in {A} (x y : A) (q : list A) : x ∉ tail q -> x <> y -> x ∉ tail (q ++ [y]).
Proof. destruct q; simpl; set_solver. Qed.

Lemma tail_tail_not_in {A} (x : A) (q : list A) : x ∉ tail q -> x ∉ tail (tail q).
Proof. destruct q as [|? [|? ?]]; simpl; set_solver. Qed.

Lemma sinv_req s e s' :
  sinv s -> step s e = Some s' -> forall c, EReqInit ∉ tail (get_link s' c 0).
Proof.
  intros Hinv Hstep. pose proof (s_req _ Hinv) as Hr. pose proof (s_host _ Hinv) as H0.
  assert (Hpop : forall c q m, get_link s c 0 = m :: q -> EReqInit ∉ tail q).
  { intros c q m Heq. specialize (Hr c). apply tail_tail_not_in in Hr. by rewrite Heq in Hr. }
  step_cases Hinv Hstep; intros c'; rewrite HL.
  - repeat case_decide; simplify_eq; try done; try (exfalso; tauto).
    by apply tail_snoc_not_in.
  - repeat case_decide; simplify_eq; try done; try (exfalso; tauto).
    by apply tail_snoc_not_in.
  - repeat case_decide; simplify_eq; try done; try (exfalso; tauto). eauto.
  - repeat case_decide; simplify_eq; try done; try (exfalso; tauto). eauto.
  - repeat case_decide; simplify_eq; try done. eauto.
  - repeat case_decide; simplify_eq; try done. eauto.
  - repeat case_decide; simplify_eq; try done.
  - repeat case_decide; simplify_eq; try done.
    assert (Hemp : get_link s c 0 = []).
    { destruct (get_link s c 0) eqn:Heq; [done|]. exfalso. apply Hnc.
      apply link_nonempty_conn; [done|done|]. by rewrite Heq. }
    rewrite Hemp. simpl. set_solver.
  - repeat case_decide; simplify_eq; try done. simpl. set_solver.
Qed.

Lemma sinv_nd_ents s e s' :
  sinv s -> step s e = Some s' -> forall p, NoDup (get_ents s' p).
Proof.
  intros Hinv Hstep. pose proof (s_nd_ents _ Hinv) as Hnd.
  step_cases Hinv Hstep; intros p'; rewrite HE; try done.
  - case_decide; [|done]. apply NoDup_cons. split; [|done].
    intros Hin. apply Hfresh. eapply s_used_e; eauto.
  - case_decide; [|done]. by apply remove1_NoDup.
  - case_decide; [|done]. apply NoDup_cons. split; [|done].
    assert (Hsp : ESpawn u ∈ get_link s c 0) by (rewrite Hhd; set_solver).
    destruct (s_pa _ Hinv _ _ Hsp) as (? & _). done.
  - case_decide; [|done]. by apply remove1_NoDup.
  - case_decide; [|done]. by apply cl_apply_NoDup.
Qed.

Lemma sinv_pa s e s' :
  sinv s -> step s e = Some s' -> forall o w, ESpawn w ∈ get_link s' o 0 -> pa s' o w.
Proof.
  intros Hinv Hstep. pose proof (s_host _ Hinv) as H0. pose proof (link00 _ Hinv) as H00.
  step_cases Hinv Hstep; intros o w Hsp; rewrite HL in Hsp.
  - (* spawn *)
    assert (Hnm : forall a b, ~ mentions u (get_link s a b)).
    { intros a b Hm. apply Hfresh. eapply s_used_l; eauto. }
    assert (Hne : forall p', u ∉ get_ents s p').
    { intros p' Hm. apply Hfresh. eapply s_used_e; eauto. }
    assert (Hcase : (w = u /\ o = p /\ p <> 0) \/ ESpawn w ∈ get_link s o 0).
    { repeat case_decide; simplify_eq; try (by right); try (exfalso; tauto).
      apply elem_of_snoc in Hsp as [?|[= ->]]; [by right|by left]. }
    clear Hsp. destruct Hcase as [(-> & -> & Hp)|Hold].
    + split_and!.
      * rewrite HE. case_decide; [done|]. apply Hne.
      * intros c. rewrite HL. repeat case_decide; simplify_eq. apply Hnm.
      * intros c Hcp. rewrite HE, HL. repeat case_decide; simplify_eq. split; [apply Hne|apply Hnm].
      * left. rewrite HE. case_decide; [|done]. set_solver.
    + assert (Hwu : w <> u).
      { intros ->. apply (Hnm o 0). by left. }
      destruct (s_pa _ Hinv _ _ Hold) as (P1 & P2 & P3 & P4). split_and!.
      * rewrite HE. case_decide; simplify_eq; [|done]. set_solver.
      * intros c. rewrite HL. specialize (P2 c).
        repeat case_decide; simplify_eq; rewrite ?mentions_app, ?mentions_spawn; tauto.
      * intros c Hco. destruct (P3 c Hco) as [P3a P3b]. rewrite HE, HL.
        repeat case_decide; simplify_eq; rewrite ?mentions_app, ?mentions_spawn;
          (split; [set_solver|tauto]).
      * rewrite HE, HL. destruct P4 as [P4|P4]; [left|right];
          repeat case_decide; simplify_eq; set_solver.
  - (* despawn *)
    assert (Hold : ESpawn w ∈ get_link s o 0).
    { repeat case_decide; simplify_eq; try done; apply elem_of_snoc in Hsp as [?|[=]]; done. }
    destruct (s_pa _ Hinv _ _ Hold) as (P1 & P2 & P3 & P4).
    assert (Hwu : w = u -> p = o).
    { intros ->. destruct (decide (p = o)) as [|Hpo]; [done|]. by destruct (P3 p Hpo). }
    clear Hsp. split_and!.
    + rewrite HE. case_decide; [|done]. intros ?%remove1_subseteq; simplify_eq; done.
    + intros c. rewrite HL. specialize (P2 c).
      repeat case_decide; simplify_eq; rewrite ?mentions_app, ?mentions_delete; try tauto.
      intros [?| ->]; [tauto|]. done.
    + intros c Hco. destruct (P3 c Hco) as [P3a P3b]. rewrite HE, HL. split.
      * case_decide; [|done]. intros ?%remove1_subseteq; simplify_eq; done.
      * repeat case_decide; simplify_eq; rewrite ?mentions_app, ?mentions_delete; try tauto.
    + rewrite HE, HL. destruct P4 as [P4|P4].
      * destruct (decide (w = u)) as [->|Hne].
        -- specialize (Hwu eq_refl). subst o. right.
           repeat case_decide; simplify_eq; try set_solver.
        -- left. case_decide; [|done]. subst. by apply remove1_other.
      * right. repeat case_decide; simplify_eq; set_solver.
  - (* host receives ESpawn u from c *)
    assert (Hq : forall m, m ∈ q -> m ∈ get_link s c 0) by (rewrite Hhd; set_solver).
    assert (Hold : ESpawn w ∈ get_link s o 0).
    { repeat case_decide; simplify_eq; try done; try (exfalso; tauto). by apply Hq. }
    assert (Hhead : ESpawn u ∈ get_link s c 0) by (rewrite Hhd; set_solver).
    destruct (s_pa _ Hinv _ _ Hhead) as (Q1 & Q2 & Q3 & Q4).
    destruct (s_pa _ Hinv _ _ Hold) as (P1 & P2 & P3 & P4).
    assert (Hwu : w <> u).
    { intros ->. destruct (decide (o = c)) as [->|Hoc].
      - pose proof (s_okq _ Hinv c) as Hok. rewrite Hhd in Hok. destruct Hok as [Hok _].
        apply (Hok u); [apply mentions_spawn; done|].
        repeat case_decide; simplify_eq; done.
      - destruct (Q3 o Hoc) as [_ Q3b]. apply Q3b. by left. }
    clear Hsp. split_and!.
    + rewrite HE. case_decide; [|done]. set_solver.
    + intros c'. rewrite HL. specialize (P2 c').
      repeat case_decide; simplify_eq; rewrite ?mentions_app, ?mentions_spawn; tauto.
    + intros c' Hco. destruct (P3 c' Hco) as [P3a P3b]. rewrite HE, HL. split.
      * case_decide; simplify_eq; set_solver.
      * repeat case_decide; simplify_eq; try done; try (exfalso; tauto).
        intros [?|?]; apply P3b; [left|right]; by apply Hq.
    + rewrite HE, HL. destruct P4 as [P4|P4].
      * left. case_decide; simplify_eq; set_solver.
      * right. repeat case_decide; simplify_eq; try done; try (exfalso; tauto).
        rewrite Hhd in P4. set_solver.
  - (* host receives EDelete u from c *)
    assert (Hq : forall m, m ∈ q -> m ∈ get_link s c 0) by (rewrite Hhd; set_solver).
    assert (Hold : ESpawn w ∈ get_link s o 0).
    { repeat case_decide; simplify_eq; try done; try (exfalso; tauto). by apply Hq. }
    destruct (s_pa _ Hinv _ _ Hold) as (P1 & P2 & P3 & P4).
    assert (Hwu : w <> u).
    { intros ->. destruct (decide (o = c)) as [->|Hoc].
      - pose proof (s_okq _ Hinv c) as Hok. rewrite Hhd in Hok. destruct Hok as [Hok _].
        apply (Hok u); [apply mentions_delete; done|].
        repeat case_decide; simplify_eq; done.
      - assert (Hco : c <> o) by done. destruct (P3 c Hco) as [_ P3b]. apply P3b. right.
        rewrite Hhd. set_solver. }
    clear Hsp. split_and!.
    + rewrite HE. case_decide; [|done]. intros ?%remove1_subseteq. done.
    + intros c'. rewrite HL. specialize (P2 c').
      repeat case_decide; simplify_eq; rewrite ?mentions_app, ?mentions_delete; tauto.
    + intros c' Hco. destruct (P3 c' Hco) as [P3a P3b]. rewrite HE, HL. split.
      * case_decide; simplify_eq; [|done]. intros ?%remove1_subseteq. done.
      * repeat case_decide; simplify_eq; try done; try (exfalso; tauto).
        intros [?|?]; apply P3b; [left|right]; by apply Hq.
    + rewrite HE, HL. destruct P4 as [P4|P4].
      * left. case_decide; simplify_eq; done.
      * right. repeat case_decide; simplify_eq; try done; try (exfalso; tauto).
        rewrite Hhd in P4. set_solver.
  - (* host receives EReqInit from c *)
    assert (Hq : forall m, m ∈ q -> m ∈ get_link s c 0) by (rewrite Hhd; set_solver).
    assert (Hold : ESpawn w ∈ get_link s o 0).
    { repeat case_decide; simplify_eq; try done. by apply Hq. }
    destruct (s_pa _ Hinv _ _ Hold) as (P1 & P2 & P3 & P4).
    clear Hsp. split_and!.
    + by rewrite HE.
    + intros c'. rewrite HL. specialize (P2 c').
      repeat case_decide; simplify_eq; rewrite ?mentions_app, ?mentions_fmap; try tauto.
      intros [?|[?|[]%mentions_fin]]; tauto.
    + intros c' Hco. destruct (P3 c' Hco) as [P3a P3b]. rewrite HE, HL. split; [done|].
      repeat case_decide; simplify_eq; try done.
      intros [?|?]; apply P3b; [left|right]; by apply Hq.
    + rewrite HE, HL. destruct P4 as [P4|P4]; [by left|].
      right. repeat case_decide; simplify_eq; try done.
      rewrite Hhd in P4. set_solver.
  - (* host receives EFinInit from c *)
    assert (Hq : forall m, m ∈ q -> m ∈ get_link s c 0) by (rewrite Hhd; set_solver).
    assert (Hold : ESpawn w ∈ get_link s o 0).
    { repeat case_decide; simplify_eq; try done. by apply Hq. }
    destruct (s_pa _ Hinv _ _ Hold) as (P1 & P2 & P3 & P4).
    clear Hsp. split_and!.
    + by rewrite HE.
    + intros c'. rewrite HL. specialize (P2 c').
      repeat case_decide; simplify_eq; tauto.
    + intros c' Hco. destruct (P3 c' Hco) as [P3a P3b]. rewrite HE, HL. split; [done|].
      repeat case_decide; simplify_eq; try done.
      intros [?|?]; apply P3b; [left|right]; by apply Hq.
    + rewrite HE, HL. destruct P4 as [P4|P4]; [by left|].
      right. repeat case_decide; simplify_eq; try done.
      rewrite Hhd in P4. set_solver.
  - (* client c handles m *)
    assert (Hq : forall m', m' ∈ q -> m' ∈ get_link s 0 c) by (rewrite Hhd; set_solver).
    assert (Hold : ESpawn w ∈ get_link s o 0).
    { repeat case_decide; simplify_eq; done. }
    destruct (s_pa _ Hinv _ _ Hold) as (P1 & P2 & P3 & P4).
    assert (Hm1 : m <> ESpawn w).
    { intros ->. apply (P2 c). left. rewrite Hhd. set_solver. }
    assert (Hm2 : m <> EDelete w).
    { intros ->. apply (P2 c). right. rewrite Hhd. set_solver. }
    clear Hsp. split_and!.
    + rewrite HE. case_decide; simplify_eq. done.
    + intros c'. rewrite HL. specialize (P2 c').
      repeat case_decide; simplify_eq; try tauto.
      intros [?|?]; apply P2; [left|right]; by apply Hq.
    + intros c' Hco. destruct (P3 c' Hco) as [P3a P3b]. rewrite HE, HL. split.
      * case_decide; simplify_eq; [|done]. intros [?|?]%cl_apply_elem_inv; done.
      * repeat case_decide; simplify_eq; done.
    + rewrite HE, HL. destruct P4 as [P4|P4].
      * left. case_decide; simplify_eq; [|done]. by apply cl_apply_elem_keep.
      * right. repeat case_decide; simplify_eq; done.
  - (* connect *)
    assert (Hold : ESpawn w ∈ get_link s o 0).
    { repeat case_decide; simplify_eq; try done. apply elem_of_snoc in Hsp as [?|[=]]; done. }
    destruct (s_pa _ Hinv _ _ Hold) as (P1 & P2 & P3 & P4).
    clear Hsp. split_and!.
    + by rewrite HE.
    + intros c'. rewrite HL. specialize (P2 c').
      repeat case_decide; simplify_eq; tauto.
    + intros c' Hco. destruct (P3 c' Hco) as [P3a P3b]. rewrite HE, HL. split; [done|].
      repeat case_decide; simplify_eq; try done. rewrite mentions_app.
      intros [?|[]%mentions_req]. done.
    + rewrite HE, HL. destruct P4 as [P4|P4]; [by left|].
      right. repeat case_decide; simplify_eq; set_solver.
  - (* leave *)
    assert (Hold : ESpawn w ∈ get_link s o 0 /\ ~ ((o, 0) = (0, c) \/ (o, 0) = (c, 0))).
    { case_decide; [set_solver|done]. }
    destruct Hold as [Hold Hnd].
    destruct (s_pa _ Hinv _ _ Hold) as (P1 & P2 & P3 & P4).
    clear Hsp. split_and!.
    + by rewrite HE.
    + intros c'. rewrite HL. specialize (P2 c').
      repeat case_decide; simplify_eq; [apply mentions_nil|tauto].
    + intros c' Hco. destruct (P3 c' Hco) as [P3a P3b]. rewrite HE, HL. split; [done|].
      repeat case_decide; simplify_eq; [apply mentions_nil|done].
    + rewrite HE, HL. destruct P4 as [P4|P4]; [by left|].
      right. case_decide; [tauto|done].
Qed.

Lemma sinv_step s e s' : sinv s -> step s e = Some s' -> sinv s'.
Proof.
  intros Hinv Hstep.
  destruct (sinv_tables _ _ _ Hinv Hstep) as (? & ? & ?).
  destruct (sinv_used _ _ _ Hinv Hstep) as (? & ?).
  constructor; try done.
  - by eapply sinv_links.
  - by eapply sinv_nd_ents.
  - by eapply sinv_okq.
  - by eapply sinv_req.
  - by eapply sinv_pa.
Qed.

Lemma get_link_init a b : get_link init a b = [].
Proof. reflexivity. Qed.
Lemma get_ents_init p : get_ents init p = [].
Proof. reflexivity. Qed.

Lemma sinv_init : sinv init.
Proof.
  constructor; simpl.
  - apply NoDup_nil_2.
  - set_solver.
  - set_solver.
  - intros a b Hne. by rewrite get_link_init in Hne.
  - intros p u Hin. rewrite get_ents_init in Hin. set_solver.
  - intros a b u Hm. rewrite get_link_init in Hm. by apply mentions_nil in Hm.
  - intros p. rewrite get_ents_init. apply NoDup_nil_2.
  - intros c. by rewrite get_link_init.
  - intros c. rewrite get_link_init. simpl. set_solver.
  - intros o u Hsp. rewrite get_link_init in Hsp. set_solver.
Qed.

Lemma run_app s tr1 tr2 :
  run s (tr1 ++ tr2) = match run s tr1 with Some s1 => run s1 tr2 | None => None end.
Proof.
  revert s. induction tr1 as [|e tr1 IH]; intros s; simpl; [done|].
  destruct (step s e); [apply IH|done].
Qed.

Lemma run_snoc s tr e :
  run s (tr ++ [e]) = match run s tr with Some s1 => step s1 e | None => None end.
Proof.
  rewrite run_app. destruct (run s tr) as [s1|]; [|done]. simpl. by destruct (step s1 e).
Qed.

Lemma sinv_run s tr s' : sinv s -> run s tr = Some s' -> sinv s'.
Proof.
  revert s. induction tr as [|e tr IH]; intros s Hinv; simpl.
  - by intros [= <-].
  - destruct (step s e) as [s1|] eqn:Hstep; [|done]. intros Hrun.
    eapply IH; [|done]. by eapply sinv_step.
Qed.

Lemma sinv_reachable tr s : run init tr = Some s -> sinv s.
Proof. apply sinv_run, sinv_init. Qed.

(* UNIQUENESS: on every run, whatever the interleaving / joins / departures (and also inside the
   known defect classes), no peer ever holds two entities with the same uuid.  In particular the
   host, which has no duplicate guard, never receives an ESpawn for a uuid it already holds. *)
Theorem entities_unique tr s :
  run init tr = Some s -> forall p, NoDup (get_ents s p).
Proof. intros Hrun. apply s_nd_ents. by eapply sinv_reachable. Qed.

Theorem host_never_receives_duplicate tr s c u q :
  run init tr = Some s -> get_link s c 0 = ESpawn u :: q ->
  u ∉ get_ents s 0 /\ ESpawn u ∉ q.
Proof.
  intros Hrun Hhd. pose proof (sinv_reachable _ _ Hrun) as Hinv.
  assert (Hsp : ESpawn u ∈ get_link s c 0) by (rewrite Hhd; set_solver).
  destruct (s_pa _ Hinv _ _ Hsp) as (? & _). split; [done|].
  pose proof (s_okq _ Hinv c) as Hok. rewrite Hhd in Hok. destruct Hok as [Hok _].
  apply Hok. by apply mentions_spawn.
Qed.

Print Assumptions entities_unique.
Print Assumptions host_never_receives_duplicate.

(* ================================================================================================
   5. Boolean observers; the unrestricted C01 statement is FALSE: refutations
   ================================================================================================ *)

Lemma same_set_spec l1 l2 : same_set l1 l2 = true <-> (forall u, u ∈ l1 <-> u ∈ l2).
Proof.
  unfold same_set. rewrite andb_true_iff, !forallb_forall.
  setoid_rewrite bool_decide_eq_true. setoid_rewrite <- elem_of_list_In. naive_solver.
Qed.

Lemma agreeb_spec s : agreeb s = true <-> agree s.
Proof.
  unfold agreeb, agree. rewrite andb_true_iff, bool_decide_eq_true, forallb_forall.
  setoid_rewrite <- elem_of_list_In. split.
  - intros [Hnd Hall]. split; [done|]. intros c Hc Hs. specialize (Hall c Hc).
    rewrite bool_decide_eq_true_2 in Hall by done.
    apply andb_true_iff in Hall as [Hn Hsame]. apply bool_decide_eq_true in Hn.
    split; [done|]. by apply same_set_spec.
  - intros [Hnd Hall]. split; [done|]. intros c Hc. case_bool_decide as Hs; [|done].
    destruct (Hall c Hc Hs) as [Hn Hsame].
    apply andb_true_iff. split; [by apply bool_decide_eq_true|by apply same_set_spec].
Qed.

Lemma quiescentb_spec s : quiescentb s = true <-> quiescent s.
Proof.
  unfold quiescentb, quiescent. rewrite forallb_forall. setoid_rewrite <- elem_of_list_In. split.
  - intros Hall a b. unfold get_link. destruct (links s !! (a, b)) as [q|] eqn:Hl; [|done].
    apply elem_of_map_to_list in Hl. specialize (Hall _ Hl). simpl in *. by destruct q.
  - intros Hq [[a b] q] Hin. apply elem_of_map_to_list in Hin. specialize (Hq a b).
    unfold get_link in Hq. rewrite Hin in Hq. simpl in *. by subst q.
Qed.

Definition C01_unrestricted_statement : Prop :=
  forall tr s, run init tr = Some s -> quiescent s -> agree s.

Lemma refute_by_run tr :
  match run init tr with Some s => quiescentb s && negb (agreeb s) | None => false end = true ->
  exists tr s, run init tr = Some s /\ quiescent s /\ ~ agree s.
Proof.
  destruct (run init tr) as [s|] eqn:Hrun; [|done]. intros [Hq Ha]%andb_true_iff.
  exists tr, s. split; [done|]. split; [by apply quiescentb_spec|].
  rewrite <- agreeb_spec. by destruct (agreeb s).
Qed.

(* S11: client 1 leaves, the host despawns 10 meanwhile, 1 comes back: the snapshot carries no
   deletion, 1 keeps its stale replica. *)
Definition witness_S11 : list event :=
  [EvConnect 1; EvDeliver 1 0; EvDeliver 0 1; EvSpawn 0 10; EvDeliver 0 1;
   EvLeave 1; EvDespawn 0 10; EvConnect 1; EvDeliver 1 0; EvDeliver 0 1].

(* S11, second face: 1 leaves while its own ESpawn 10 is still in flight; the announcement is
   dropped and never repeated after the reconnection: the host never learns about 10. *)
Definition witness_S11_lost_spawn : list event :=
  [EvConnect 1; EvDeliver 1 0; EvDeliver 0 1; EvSpawn 1 10;
   EvLeave 1; EvConnect 1; EvDeliver 1 0; EvDeliver 0 1].

(* Former S18 witness (the model before the despawned_locally repair ended with host [] / client 1
   [10]): 1 gets 10 live while its InitialSync request is still travelling; the snapshot then
   contains 10 again; 1 despawns its replica before the snapshot arrives.  The duplicate ESpawn is now
   ignored because of the tombstone. *)
Definition witness_S18 : list event :=
  [EvConnect 1; EvSpawn 0 10; EvDeliver 0 1; EvDeliver 1 0; EvDespawn 1 10;
   EvDeliver 0 1; EvDeliver 0 1; EvDeliver 1 0].

(* Former S18 witness, second face: the despawn happens BEFORE the host builds the snapshot (which
   will contain 10 because the EDelete is behind the EReqInit on the same link). *)
Definition witness_S18_pending : list event :=
  [EvConnect 1; EvSpawn 0 10; EvDeliver 0 1; EvDespawn 1 10; EvDeliver 1 0; EvDeliver 1 0;
   EvDeliver 0 1; EvDeliver 0 1].

(* A tombstone must not outlive its session: 1 despawns its replica of 10 and leaves before the host
   has handled the EDelete (dropped with the link); the host still holds 10.  1 re-connects (holding
   nothing, so this is not S11): the tombstone is cleared by the EvConnect and the snapshot re-creates
   10 on client 1.  (With tombstones kept across the re-connection this history ended quiescent with
   host [10] / client 1 [].) *)
Definition witness_lost_delete_rejoin : list event :=
  [EvConnect 1; EvDeliver 1 0; EvDeliver 0 1; EvSpawn 0 10; EvDeliver 0 1;
   EvDespawn 1 10; EvLeave 1; EvConnect 1; EvDeliver 1 0; EvDeliver 0 1; EvDeliver 0 1].

Theorem C01_refuted_S11 : exists tr s, run init tr = Some s /\ quiescent s /\ ~ agree s.
Proof. apply (refute_by_run witness_S11). vm_compute. reflexivity. Qed.

Theorem C01_refuted_S11_lost_spawn : exists tr s, run init tr = Some s /\ quiescent s /\ ~ agree s.
Proof. apply (refute_by_run witness_S11_lost_spawn). vm_compute. reflexivity. Qed.

Corollary C01_unrestricted_is_false : ~ C01_unrestricted_statement.
Proof.
  intros Hall. destruct C01_refuted_S11 as (tr & s & Hrun & Hq & Hn). apply Hn. by eapply Hall.
Qed.

Definition end_view (tr : list event) :=
  (fun s => (get_ents s 0, get_ents s 1, get_tomb s 1, quiescentb s, agreeb s)) <$> run init tr.

(* the two S18 histories now END AGREEING *)
Example S18_now_agrees : end_view witness_S18 = Some ([], [], [10], true, true).
Proof. vm_compute. reflexivity. Qed.

Example S18_pending_now_agrees : end_view witness_S18_pending = Some ([], [], [10], true, true).
Proof. vm_compute. reflexivity. Qed.

Example lost_delete_rejoin_agrees :
  (end_view witness_lost_delete_rejoin, known_S11 witness_lost_delete_rejoin,
   dropped_uuids witness_lost_delete_rejoin, spec_alive witness_lost_delete_rejoin)
  = (Some ([10], [10], [], true, true), false, [10], []).
Proof. vm_compute. reflexivity. Qed.

(* the S11 witnesses lie in their class, the others do not; what the stale client holds *)
Example witnesses_classified :
  (known_S11 witness_S11, known_S11 witness_S11_lost_spawn,
   known_S11 witness_S18, known_S11 witness_S18_pending, known_S11 witness_lost_delete_rejoin)
  = (true, true, false, false, false).
Proof. vm_compute. reflexivity. Qed.

Example witnesses_final_views :
  ((fun s => (get_ents s 0, get_ents s 1)) <$> run init witness_S11,
   (fun s => (get_ents s 0, get_ents s 1)) <$> run init witness_S11_lost_spawn)
  = (Some ([], [10]), Some ([], [10])).
Proof. vm_compute. reflexivity. Qed.

(* Suspected but NOT defects.  (a) Two peers despawn the same uuid concurrently: idempotent. *)
Example concurrent_despawn_converges :
  (fun s => (get_ents s 0, get_ents s 1, get_ents s 2, quiescentb s, agreeb s)) <$>
  run init [EvConnect 1; EvConnect 2; EvDeliver 1 0; EvDeliver 2 0; EvDeliver 0 1; EvDeliver 0 2;
            EvSpawn 0 10; EvSpawn 0 11; EvDeliver 0 1; EvDeliver 0 1; EvDeliver 0 2; EvDeliver 0 2;
            EvDespawn 1 10; EvDespawn 2 10; EvDespawn 0 10;
            EvDeliver 1 0; EvDeliver 2 0; EvDeliver 0 1; EvDeliver 0 1; EvDeliver 0 2; EvDeliver 0 2]
  = Some ([11], [11], [11], true, true).
Proof. vm_compute. reflexivity. Qed.

(* (b) The host cannot despawn an entity whose ESpawn from a client is still in flight: it does
   not hold it yet (and no other client does). *)
Theorem no_despawn_of_inflight_spawn tr s c u p :
  run init tr = Some s -> ESpawn u ∈ get_link s c 0 -> p <> c -> step s (EvDespawn p u) = None.
Proof.
  intros Hrun Hsp Hpc. pose proof (sinv_reachable _ _ Hrun) as Hinv.
  destruct (s_pa _ Hinv _ _ Hsp) as (_ & _ & P3 & _). destruct (P3 p Hpc) as [Hnot _].
  simpl. rewrite (bool_decide_eq_false_2 _ Hnot). by rewrite andb_false_r.
Qed.

Print Assumptions C01_refuted_S11.
Print Assumptions C01_refuted_S11_lost_spawn.
Print Assumptions C01_unrestricted_is_false.

(* ================================================================================================
   6. Tombstones (invariant of EVERY run) and the convergence invariant
   ================================================================================================ *)

Lemma op_links_up s s' p m :
  op_links s s' p m -> 0 ∉ conn s ->
  forall c, get_link s' c 0 =
    if decide (c = p /\ p <> 0) then get_link s c 0 ++ [m] else get_link s c 0.
Proof.
  intros HL H0 c. rewrite HL. destruct (decide (p = 0)) as [->|Hp].
  - rewrite (decide_False (P := c = 0 /\ 0 <> 0)) by tauto.
    rewrite decide_False; [done|]. intros [-> ?]. done.
  - destruct (decide (c = p)) as [->|Hne].
    + rewrite decide_True by done. by rewrite decide_True.
    + rewrite decide_False by (intros [= ->]; done). rewrite decide_False by tauto. done.
Qed.

Lemma op_links_down s s' p m :
  op_links s s' p m ->
  forall c, c <> 0 -> get_link s' 0 c =
    if decide (p = 0 /\ c ∈ conn s) then get_link s 0 c ++ [m] else get_link s 0 c.
Proof.
  intros HL c Hc. rewrite HL. destruct (decide (p = 0)) as [->|Hp].
  - destruct (decide (0 = 0 /\ c ∈ conn s)) as [Hd|Hd]; done.
  - rewrite decide_False by (intros [= ? ?]; done). rewrite decide_False by tauto. done.
Qed.

Lemma relay_links_up s s' c q m :
  relay_links s s' c q m -> 0 ∉ conn s ->
  forall c', get_link s' c' 0 = if decide (c' = c) then q else get_link s c' 0.
Proof.
  intros HL H0 c'. rewrite HL. destruct (decide (c' = c)) as [->|Hne].
  - by rewrite decide_True.
  - rewrite decide_False by (intros [= ->]; done). rewrite decide_False; [done|].
    intros (-> & _ & ?). done.
Qed.

Lemma relay_links_down s s' c q m :
  relay_links s s' c q m -> c <> 0 ->
  forall c', c' <> 0 -> get_link s' 0 c' =
    if decide (c' <> c /\ c' ∈ conn s) then get_link s 0 c' ++ [m] else get_link s 0 c'.
Proof.
  intros HL Hc c' Hc'. rewrite HL. rewrite decide_False by (intros [= ? ?]; simplify_eq).
  destruct (decide (c' <> c /\ c' ∈ conn s)) as [[? ?]|Hd].
  - by rewrite decide_True.
  - rewrite decide_False; [done|]. intros (_ & ? & ?). apply Hd. done.
Qed.

Record tinv (s : astate) : Prop := {
  t_used : forall c u, u ∈ get_tomb s c -> u ∈ used s;
  (* a tombstoned uuid is not held (and, being ignored by the receiver, never will be) *)
  t_ents : forall c u, u ∈ get_tomb s c -> u ∉ get_ents s c;
  (* a client's EDelete in flight is backed by a tombstone *)
  t_del : forall c u, EDelete u ∈ get_link s c 0 -> u ∈ get_tomb s c;
  (* nobody but its creator has ever heard of a uuid that is still travelling to the host *)
  t_pa : forall o u c, ESpawn u ∈ get_link s o 0 -> c <> o -> u ∉ get_tomb s c;
}.

Lemma cl_apply_tomb T w m l : w ∈ T -> w ∈ cl_apply T m l -> w ∈ l.
Proof.
  intros HT. destruct m as [u|u| |]; simpl; try done.
  - destruct (bool_decide (u ∈ T)) eqn:Hu; [done|].
    destruct (bool_decide (u ∈ l)); [done|]. intros [->|?]%elem_of_cons; [|done].
    apply bool_decide_eq_false in Hu. done.
  - apply remove1_subseteq.
Qed.

Lemma tinv_init : tinv init.
Proof.
  constructor.
  - intros c u Hin. by apply elem_of_nil in Hin.
  - intros c u Hin. by apply elem_of_nil in Hin.
  - intros c u Hin. rewrite get_link_init in Hin. by apply elem_of_nil in Hin.
  - intros o u c Hin. rewrite get_link_init in Hin. by apply elem_of_nil in Hin.
Qed.

Lemma tinv_step s e s' : sinv s -> tinv s -> step s e = Some s' -> tinv s'.
Proof.
  intros Hinv [T1 T2 T3 T4] Hstep. pose proof (s_host _ Hinv) as H0.
  pose proof (s_nd_ents _ Hinv) as Hnd.
  step_cases_t Hinv Hstep.
  - (* spawn *)
    pose proof (op_links_up _ _ _ _ HL H0) as HU.
    assert (HUi : forall c m, m ∈ get_link s' c 0 -> m ∈ get_link s c 0 \/ m = ESpawn u).
    { intros c m. rewrite HU. destruct (decide _); [|by intros; left].
      intros [?| ->]%elem_of_snoc; [by left|by right]. }
    assert (Hnt : forall c, u ∉ get_tomb s c).
    { intros c Hin. apply Hfresh. by eapply T1. }
    constructor.
    + intros c w. rewrite HT, Hu. intros Hin. apply elem_of_list_further. by eapply T1.
    + intros c w. rewrite HT, HE. intros Hin. destruct (decide (c = p)) as [->|Hne]; [|by apply T2].
      intros [->|Hw]%elem_of_cons; [by apply (Hnt p)|]. by apply (T2 p w).
    + intros c w Hin. rewrite HT. destruct (HUi _ _ Hin) as [Hold|[=]]. by apply T3.
    + intros o w c Hin Hco. rewrite HT. destruct (HUi _ _ Hin) as [Hold|[= ->]]; [by eapply T4|apply Hnt].
  - (* despawn *)
    pose proof (op_links_up _ _ _ _ HL H0) as HU.
    assert (HUi : forall c m, m ∈ get_link s' c 0 ->
              m ∈ get_link s c 0 \/ (m = EDelete u /\ c = p /\ p <> 0)).
    { intros c m. rewrite HU. destruct (decide _) as [[-> ?]|]; [|by intros; left].
      intros [?| ->]%elem_of_snoc; [by left|by right]. }
    assert (HTi : forall c w, w ∈ get_tomb s' c ->
              w ∈ get_tomb s c \/ (w = u /\ c = p /\ p <> 0)).
    { intros c w. rewrite HT. destruct (decide _) as [[-> ?]|]; [|by intros; left].
      intros [->|?]%elem_of_cons; [by right|by left]. }
    assert (HTm : forall c w, w ∈ get_tomb s c -> w ∈ get_tomb s' c).
    { intros c w Hw. rewrite HT. destruct (decide _) as [[-> ?]|]; [|done].
      by apply elem_of_list_further. }
    constructor.
    + intros c w [Hold|(-> & -> & _)]%HTi; rewrite Hu; [by eapply T1|]. by eapply s_used_e.
    + intros c w Hw. rewrite HE. destruct (HTi _ _ Hw) as [Hold|(-> & -> & _)].
      * destruct (decide (c = p)) as [->|Hne]; [|by apply T2].
        intros ?%remove1_subseteq. by apply (T2 p w).
      * rewrite decide_True by done. by apply remove1_not_in.
    + intros c w [Hold|([= ->] & -> & Hp)]%HUi; [by apply HTm, T3|].
      rewrite HT. rewrite decide_True by done. apply elem_of_list_here.
    + intros o w c Hsp Hco. destruct (HUi _ _ Hsp) as [Hold|([=] & _)].
      intros [Hw|(-> & -> & _)]%HTi; [by apply (T4 o w c)|].
      destruct (s_pa _ Hinv _ _ Hold) as (_ & _ & P3 & _). destruct (P3 p Hco) as [Hn _]. done.
  - (* host receives ESpawn u from c *)
    pose proof (relay_links_up _ _ _ _ _ HL H0) as HU.
    assert (HUi : forall c' m, m ∈ get_link s' c' 0 -> m ∈ get_link s c' 0).
    { intros c' m. rewrite HU. destruct (decide (c' = c)) as [->|]; [|done].
      rewrite Hhd. apply elem_of_list_further. }
    assert (Hsp : ESpawn u ∈ get_link s c 0) by (rewrite Hhd; apply elem_of_list_here).
    constructor.
    + intros c' w. rewrite HT, Hu. apply T1.
    + intros c' w. rewrite HT, HE. intros Hw. destruct (decide (c' = 0)) as [->|Hne]; [|by apply T2].
      intros [->|Hin]%elem_of_cons; [|by apply (T2 0 w)]. by apply (T4 c u 0).
    + intros c' w Hin%HUi. rewrite HT. by apply T3.
    + intros o w c' Hin%HUi Hco. rewrite HT. by eapply T4.
  - (* host receives EDelete u from c *)
    pose proof (relay_links_up _ _ _ _ _ HL H0) as HU.
    assert (HUi : forall c' m, m ∈ get_link s' c' 0 -> m ∈ get_link s c' 0).
    { intros c' m. rewrite HU. destruct (decide (c' = c)) as [->|]; [|done].
      rewrite Hhd. apply elem_of_list_further. }
    constructor.
    + intros c' w. rewrite HT, Hu. apply T1.
    + intros c' w. rewrite HT, HE. intros Hw. destruct (decide (c' = 0)) as [->|Hne]; [|by apply T2].
      intros ?%remove1_subseteq. by apply (T2 0 w).
    + intros c' w Hin%HUi. rewrite HT. by apply T3.
    + intros o w c' Hin%HUi Hco. rewrite HT. by eapply T4.
  - (* host receives EReqInit from c *)
    assert (HUi : forall c' m, m ∈ get_link s' c' 0 -> m ∈ get_link s c' 0).
    { intros c' m. rewrite HL. destruct (decide (c' = c)) as [->|Hne].
      - rewrite decide_True by done. rewrite Hhd. apply elem_of_list_further.
      - rewrite decide_False by (intros [= ->]; done).
        rewrite decide_False; [done|]. intros [= -> ?]. done. }
    constructor.
    + intros c' w. rewrite HT, Hu. apply T1.
    + intros c' w. rewrite HT, HE. apply T2.
    + intros c' w Hin%HUi. rewrite HT. by apply T3.
    + intros o w c' Hin%HUi Hco. rewrite HT. by eapply T4.
  - (* host receives EFinInit from c *)
    assert (HUi : forall c' m, m ∈ get_link s' c' 0 -> m ∈ get_link s c' 0).
    { intros c' m. rewrite HL. destruct (decide (c' = c)) as [->|Hne].
      - rewrite decide_True by done. rewrite Hhd. apply elem_of_list_further.
      - rewrite decide_False by (intros [= ->]; done). done. }
    constructor.
    + intros c' w. rewrite HT, Hu. apply T1.
    + intros c' w. rewrite HT, HE. apply T2.
    + intros c' w Hin%HUi. rewrite HT. by apply T3.
    + intros o w c' Hin%HUi Hco. rewrite HT. by eapply T4.
  - (* client c handles m *)
    assert (HU : forall c', get_link s' c' 0 = get_link s c' 0).
    { intros c'. rewrite HL. rewrite decide_False; [done|]. intros [= ? ?]. simplify_eq. }
    constructor.
    + intros c' w. rewrite HT, Hu. apply T1.
    + intros c' w. rewrite HT, HE. intros Hw. destruct (decide (c' = c)) as [->|Hne]; [|by apply T2].
      intros Hin%cl_apply_tomb; [|done]. by apply (T2 c w).
    + intros c' w. rewrite HU, HT. apply T3.
    + intros o w c'. rewrite HU, HT. apply T4.
  - (* connect *)
    assert (Huc : get_link s c 0 = []).
    { destruct (get_link s c 0) eqn:Heq; [done|]. exfalso. apply Hnc.
      apply link_nonempty_conn; [done|done|]. by rewrite Heq. }
    assert (HUi : forall c' m, m ∈ get_link s' c' 0 -> m <> EReqInit -> m ∈ get_link s c' 0 /\ c' <> c).
    { intros c' m. rewrite HL. destruct (decide (c' = c)) as [->|Hne].
      - rewrite decide_True by done. rewrite Huc. simpl. intros ->%elem_of_list_singleton. done.
      - rewrite decide_False by (intros [= ->]; done). intros Hin _. done. }
    assert (HTi : forall c' w, w ∈ get_tomb s' c' -> w ∈ get_tomb s c').
    { intros c' w. rewrite HT. destruct (decide (c' = c)); [by intros ?%elem_of_nil|done]. }
    constructor.
    + intros c' w Hw%HTi. rewrite Hu. by eapply T1.
    + intros c' w Hw%HTi. rewrite HE. by apply T2.
    + intros c' w Hin. destruct (HUi _ _ Hin) as [Hold Hne]; [done|].
      rewrite HT. rewrite decide_False by done. by apply T3.
    + intros o w c' Hin Hco Hw%HTi. destruct (HUi _ _ Hin) as [Hold _]; [done|]. by apply (T4 o w c').
  - (* leave *)
    assert (HUi : forall c' m, m ∈ get_link s' c' 0 -> m ∈ get_link s c' 0).
    { intros c' m. rewrite HL. destruct (decide _); [by intros ?%elem_of_nil|done]. }
    constructor.
    + intros c' w. rewrite HT, Hu. apply T1.
    + intros c' w. rewrite HT, HE. apply T2.
    + intros c' w Hin%HUi. rewrite HT. by apply T3.
    + intros o w c' Hin%HUi Hco. rewrite HT. by eapply T4.
Qed.

Lemma tinv_run s tr s' : sinv s -> tinv s -> run s tr = Some s' -> tinv s'.
Proof.
  revert s. induction tr as [|e tr IH]; intros s Hinv Ht; simpl.
  - by intros [= <-].
  - destruct (step s e) as [s1|] eqn:Hstep; [|done]. intros Hrun.
    eapply IH; [| |done]; [by eapply sinv_step|by eapply tinv_step].
Qed.

Lemma tinv_reachable tr s : run init tr = Some s -> tinv s.
Proof. apply tinv_run; [apply sinv_init|apply tinv_init]. Qed.

(* ---- convergence invariant ---- *)

Definition tb (s : astate) (c : peer) (u : uuid) : bool := bool_decide (u ∈ get_tomb s c).

(* what client c will think of u once it has handled everything queued on (0,c): with a tombstone
   for u it does not hold u and ignores every ESpawn u *)
Definition cm (s : astate) (c : peer) (u : uuid) : bool :=
  negb (tb s c u) && after_msgs u (bool_decide (u ∈ get_ents s c)) (get_link s 0 c).

Lemma cm_same s s' c u :
  get_tomb s' c = get_tomb s c -> get_ents s' c = get_ents s c ->
  get_link s' 0 c = get_link s 0 c -> cm s' c u = cm s c u.
Proof. unfold cm, tb. by intros -> -> ->. Qed.

Lemma cm_tomb s c u : u ∈ get_tomb s c -> cm s c u = false.
Proof. intros Hin. unfold cm, tb. by rewrite (bool_decide_eq_true_2 _ Hin). Qed.

Lemma cm_true_no_tomb s c u : cm s c u = true -> u ∉ get_tomb s c.
Proof. intros Ht Hin. by rewrite (cm_tomb _ _ _ Hin) in Ht. Qed.

Lemma cm_app s s' c u q :
  get_tomb s' c = get_tomb s c -> get_ents s' c = get_ents s c ->
  get_link s' 0 c = get_link s 0 c ++ q ->
  cm s' c u = negb (tb s c u) && after_msgs u (cm s c u) q.
Proof.
  unfold cm, tb. intros -> -> ->. rewrite after_msgs_app.
  destruct (bool_decide (u ∈ get_tomb s c)); done.
Qed.

Lemma cm_absorb s c u : negb (tb s c u) && cm s c u = cm s c u.
Proof. unfold cm. by destruct (tb s c u). Qed.

Lemma cm_snoc_same s s' c w m :
  get_tomb s' c = get_tomb s c -> get_ents s' c = get_ents s c ->
  get_link s' 0 c = get_link s 0 c ++ [m] -> ~ mentions w [m] -> cm s' c w = cm s c w.
Proof.
  intros HT He Hl Hm. rewrite (cm_app _ _ _ _ _ HT He Hl).
  assert (Ha : after_msgs w (cm s c w) [m] = cm s c w).
  { apply after_msgs_no_mention; intros Hin; apply Hm; [by left|by right]. }
  rewrite Ha. apply cm_absorb.
Qed.

Lemma cm_snoc_spawn s s' c u :
  get_tomb s' c = get_tomb s c -> get_ents s' c = get_ents s c ->
  get_link s' 0 c = get_link s 0 c ++ [ESpawn u] -> cm s' c u = negb (tb s c u).
Proof.
  intros HT He Hl. rewrite (cm_app _ _ _ _ _ HT He Hl). unfold after_msgs. simpl.
  rewrite decide_True by done. apply andb_true_r.
Qed.

Lemma cm_snoc_delete s s' c u :
  get_tomb s' c = get_tomb s c -> get_ents s' c = get_ents s c ->
  get_link s' 0 c = get_link s 0 c ++ [EDelete u] -> cm s' c u = false.
Proof.
  intros HT He Hl. rewrite (cm_app _ _ _ _ _ HT He Hl). unfold after_msgs. simpl.
  rewrite decide_True by done. apply andb_false_r.
Qed.

Lemma cl_apply_member T u m l :
  NoDup l -> u ∉ T ->
  bool_decide (u ∈ cl_apply T m l) = after_msg u (bool_decide (u ∈ l)) m.
Proof.
  intros Hnd HT. destruct m as [v|v| |]; simpl; try done.
  - destruct (decide (v = u)) as [->|Hvu].
    + rewrite (bool_decide_eq_false_2 _ HT). apply bool_decide_eq_true_2.
      destruct (decide (u ∈ l)) as [Hin|Hin].
      * by rewrite (bool_decide_eq_true_2 _ Hin).
      * rewrite (bool_decide_eq_false_2 _ Hin). apply elem_of_list_here.
    + destruct (bool_decide (v ∈ T)); [done|]. destruct (decide (v ∈ l)) as [Hin|Hin].
      * by rewrite (bool_decide_eq_true_2 _ Hin).
      * rewrite (bool_decide_eq_false_2 _ Hin). apply bool_decide_ext. rewrite elem_of_cons.
        split; [intros [?|?]; [congruence|done]|by right].
  - destruct (decide (v = u)) as [->|Hvu].
    + apply bool_decide_eq_false_2. by apply remove1_not_in.
    + apply bool_decide_ext. split; [apply remove1_subseteq|].
      intros Hin. apply remove1_other; [done|]. by intros ->.
Qed.

Lemma cm_pop s s' c u m q :
  NoDup (get_ents s c) -> get_link s 0 c = m :: q -> get_link s' 0 c = q ->
  get_ents s' c = cl_apply (get_tomb s c) m (get_ents s c) -> get_tomb s' c = get_tomb s c ->
  cm s' c u = cm s c u.
Proof.
  intros Hnd Hhd Hl He HT. unfold cm, tb. rewrite HT, Hl, He, Hhd, after_msgs_cons.
  destruct (decide (u ∈ get_tomb s c)) as [Hin|Hin].
  - by rewrite (bool_decide_eq_true_2 _ Hin).
  - by rewrite cl_apply_member.
Qed.

Lemma cm_no_mention s c u :
  ~ mentions u (get_link s 0 c) ->
  cm s c u = negb (tb s c u) && bool_decide (u ∈ get_ents s c).
Proof.
  intros Hm. unfold cm. f_equal.
  apply after_msgs_no_mention; intros ?; apply Hm; [by left|by right].
Qed.

Record cinv (s : astate) : Prop := {
  (* a synced client will hold everything the host holds, unless its own delete is on its way *)
  c_A : forall c u, c ∈ conn s -> c ∈ synced s -> u ∈ get_ents s 0 ->
        cm s c u = true \/ EDelete u ∈ get_link s c 0;
  (* whatever a client will hold, the host holds or is about to learn from that client *)
  c_B : forall c u, c ∈ conn s -> cm s c u = true ->
        u ∈ get_ents s 0 \/ ESpawn u ∈ get_link s c 0;
  (* a tombstone for something the host holds is justified by an EDelete in flight (also before the
     snapshot is built: the snapshot's ESpawn u will be ignored, the EDelete behind the request
     removes u from the host) *)
  c_T : forall c u, c ∈ conn s -> u ∈ get_tomb s c -> u ∈ get_ents s 0 ->
        EDelete u ∈ get_link s c 0;
}.

Lemma cinv_init : cinv init.
Proof.
  constructor; simpl; intros c u Hc; by apply elem_of_nil in Hc.
Qed.

Lemma conn_ne0 s c : sinv s -> c ∈ conn s -> c <> 0.
Proof. intros Hinv Hc ->. by apply (s_host _ Hinv). Qed.

Lemma remove1_elem u l w : NoDup l -> w ∈ remove1 u l <-> w ∈ l /\ w <> u.
Proof.
  intros Hnd. split.
  - intros Hin. split; [by eapply remove1_subseteq|]. intros ->. by eapply remove1_not_in.
  - intros [? ?]. by apply remove1_other.
Qed.

Lemma cinv_step_spawn s s' p u :
  sinv s -> tinv s -> cinv s -> step s (EvSpawn p u) = Some s' -> cinv s'.
Proof.
  intros Hinv Htinv Hcinv Hstep. pose proof (s_host _ Hinv) as H0.
  assert (A : astep s s' (EvSpawn p u)) by (apply step_astep; [apply Hinv|done]).
  inversion A as [p0 u0 Hon Hfresh HE HL Hc Hs Hu HT| | | | | | | |]; subst p0 u0. clear A.
  assert (Hnm : forall a b, ~ mentions u (get_link s a b)).
  { intros a b Hm. apply Hfresh. eapply s_used_l; eauto. }
  assert (Hne : forall p', u ∉ get_ents s p').
  { intros p' Hm. apply Hfresh. eapply s_used_e; eauto. }
  assert (Hnt : forall c, u ∉ get_tomb s c).
  { intros c Hin. apply Hfresh. by eapply (t_used _ Htinv). }
  pose proof (op_links_up _ _ _ _ HL H0) as HU.
  pose proof (op_links_down _ _ _ _ HL) as HD.
  destruct (decide (p = 0)) as [->|Hp].
  - (* the host spawns u *)
    assert (HH : get_ents s' 0 = u :: get_ents s 0).
    { rewrite HE. by rewrite decide_True. }
    assert (HEc : forall c', c' <> 0 -> get_ents s' c' = get_ents s c').
    { intros c' Hc'. rewrite HE. by rewrite decide_False. }
    assert (HDc : forall c', c' ∈ conn s -> get_link s' 0 c' = get_link s 0 c' ++ [ESpawn u]).
    { intros c' Hc'. rewrite HD by (by eapply conn_ne0). by rewrite decide_True. }
    assert (HUc : forall c', get_link s' c' 0 = get_link s c' 0).
    { intros c'. rewrite HU. rewrite decide_False; [done|]. tauto. }
    assert (Hcm_eq : forall c', c' ∈ conn s -> cm s' c' u = true).
    { intros c' Hc'. rewrite (cm_snoc_spawn s s' c' u); [|apply HT|apply HEc; by eapply conn_ne0|by apply HDc].
      unfold tb. by rewrite (bool_decide_eq_false_2 _ (Hnt c')). }
    assert (Hcm_ne : forall c' w, c' ∈ conn s -> w <> u -> cm s' c' w = cm s c' w).
    { intros c' w Hc' Hwu. apply (cm_snoc_same s s' c' w (ESpawn u));
        [apply HT|apply HEc; by eapply conn_ne0|by apply HDc|].
      rewrite mentions_spawn. done. }
    constructor.
    + intros c' w Hc' Hs' Hin. rewrite Hc in Hc'. rewrite Hs in Hs'.
      destruct (decide (w = u)) as [->|Hwu]; [left; by apply Hcm_eq|].
      rewrite Hcm_ne, HUc by done. apply (c_A _ Hcinv); try done.
      rewrite HH in Hin. apply elem_of_cons in Hin as [?|?]; done.
    + intros c' w Hc' Ht. rewrite Hc in Hc'. rewrite HH, HUc.
      destruct (decide (w = u)) as [->|Hwu]; [left; apply elem_of_list_here|].
      rewrite Hcm_ne in Ht by done.
      destruct (c_B _ Hcinv _ _ Hc' Ht); [left; by apply elem_of_list_further|by right].
    + intros c' w Hc' Hw Hin. rewrite Hc in Hc'. rewrite HT in Hw. rewrite HUc.
      rewrite HH in Hin. apply elem_of_cons in Hin as [->|Hin]; [by destruct (Hnt c')|].
      by apply (c_T _ Hcinv).
  - (* client p spawns u *)
    assert (HH : get_ents s' 0 = get_ents s 0).
    { rewrite HE. by rewrite decide_False. }
    assert (HDc : forall c', c' <> 0 -> get_link s' 0 c' = get_link s 0 c').
    { intros c' Hc'. rewrite HD by done. rewrite decide_False; [done|]. tauto. }
    assert (HUm : forall c' x, x ∈ get_link s c' 0 -> x ∈ get_link s' c' 0).
    { intros c' x Hx. rewrite HU. destruct (decide _); [|done]. apply elem_of_app. by left. }
    assert (HUp : ESpawn u ∈ get_link s' p 0).
    { rewrite HU. rewrite decide_True by done. apply elem_of_app. right. apply elem_of_list_here. }
    assert (Hcm_other : forall c' w, c' <> 0 -> c' <> p \/ w <> u -> cm s' c' w = cm s c' w).
    { intros c' w Hc0 Hor. destruct (decide (c' = p)) as [->|Hcp].
      - destruct Hor as [?|Hwu]; [done|]. unfold cm, tb. rewrite HT, HDc, HE by done.
        rewrite decide_True by done.
        rewrite (bool_decide_ext (w ∈ u :: get_ents s p) (w ∈ get_ents s p)); [done|].
        rewrite elem_of_cons. split; [intros [?|?]; done|by right].
      - apply cm_same; [apply HT| |by apply HDc]. rewrite HE. by rewrite decide_False. }
    constructor.
    + intros c' w Hc' Hs' Hin. rewrite Hc in Hc'. rewrite Hs in Hs'. rewrite HH in Hin.
      assert (Hwu : w <> u) by (intros ->; by apply (Hne 0)).
      rewrite Hcm_other; [|by eapply conn_ne0|by right].
      destruct (c_A _ Hcinv _ _ Hc' Hs' Hin) as [?|?]; [by left|right; by apply HUm].
    + intros c' w Hc' Ht. rewrite Hc in Hc'. rewrite HH.
      destruct (decide (c' = p /\ w = u)) as [[-> ->]|Hn]; [by right|].
      rewrite Hcm_other in Ht; [|by eapply conn_ne0|].
      * destruct (c_B _ Hcinv _ _ Hc' Ht); [by left|right; by apply HUm].
      * destruct (decide (c' = p)); [|by left]. right. intros ->. apply Hn. done.
    + intros c' w Hc' Hw Hin. rewrite Hc in Hc'. rewrite HT in Hw. rewrite HH in Hin.
      apply HUm. by apply (c_T _ Hcinv).
Qed.

Lemma cinv_step_despawn s s' p u :
  sinv s -> tinv s -> cinv s -> step s (EvDespawn p u) = Some s' -> cinv s'.
Proof.
  intros Hinv Htinv Hcinv Hstep. pose proof (s_host _ Hinv) as H0.
  assert (A : astep s s' (EvDespawn p u)) by (apply step_astep; [apply Hinv|done]).
  inversion A as [|p0 u0 Hon Hin HE HL (Hc & Hs & Hu) HT| | | | | | |]; subst p0 u0. clear A.
  pose proof (s_nd_ents _ Hinv) as Hnd.
  pose proof (op_links_up _ _ _ _ HL H0) as HU.
  pose proof (op_links_down _ _ _ _ HL) as HD.
  destruct (decide (p = 0)) as [->|Hp].
  - (* the host despawns u *)
    assert (HT0 : forall c', get_tomb s' c' = get_tomb s c').
    { intros c'. rewrite HT. rewrite decide_False; [done|]. tauto. }
    assert (HH : get_ents s' 0 = remove1 u (get_ents s 0)).
    { rewrite HE. by rewrite decide_True. }
    assert (HEc : forall c', c' <> 0 -> get_ents s' c' = get_ents s c').
    { intros c' Hc'. rewrite HE. by rewrite decide_False. }
    assert (HDc : forall c', c' ∈ conn s -> get_link s' 0 c' = get_link s 0 c' ++ [EDelete u]).
    { intros c' Hc'. rewrite HD by (by eapply conn_ne0). by rewrite decide_True. }
    assert (HUc : forall c', get_link s' c' 0 = get_link s c' 0).
    { intros c'. rewrite HU. rewrite decide_False; [done|]. tauto. }
    assert (Hcm_eq : forall c', c' ∈ conn s -> cm s' c' u = false).
    { intros c' Hc'. apply (cm_snoc_delete s s' c' u); [apply HT0|apply HEc; by eapply conn_ne0|by apply HDc]. }
    assert (Hcm_ne : forall c' w, c' ∈ conn s -> w <> u -> cm s' c' w = cm s c' w).
    { intros c' w Hc' Hwu. apply (cm_snoc_same s s' c' w (EDelete u));
        [apply HT0|apply HEc; by eapply conn_ne0|by apply HDc|].
      rewrite mentions_delete. done. }
    constructor.
    + intros c' w Hc' Hs' Hw. rewrite Hc in Hc'. rewrite Hs in Hs'.
      rewrite HH in Hw. apply remove1_elem in Hw as [Hw Hwu]; [|done].
      rewrite Hcm_ne, HUc by done. by apply (c_A _ Hcinv).
    + intros c' w Hc' Ht. rewrite Hc in Hc'. rewrite HH, HUc.
      destruct (decide (w = u)) as [->|Hwu]; [by rewrite Hcm_eq in Ht|].
      rewrite Hcm_ne in Ht by done.
      destruct (c_B _ Hcinv _ _ Hc' Ht); [left; by apply remove1_other|by right].
    + intros c' w Hc' Hw Hin'. rewrite Hc in Hc'. rewrite HT0 in Hw. rewrite HUc.
      rewrite HH in Hin'. apply remove1_subseteq in Hin'. by apply (c_T _ Hcinv).
  - (* client p despawns u: tombstone + EDelete *)
    assert (HTp : get_tomb s' p = u :: get_tomb s p).
    { rewrite HT. by rewrite decide_True. }
    assert (HTo : forall c', c' <> p -> get_tomb s' c' = get_tomb s c').
    { intros c' Hne. rewrite HT. rewrite decide_False; [done|]. tauto. }
    assert (HH : get_ents s' 0 = get_ents s 0).
    { rewrite HE. by rewrite decide_False. }
    assert (HDc : forall c', c' <> 0 -> get_link s' 0 c' = get_link s 0 c').
    { intros c' Hc'. rewrite HD by done. rewrite decide_False; [done|]. tauto. }
    assert (HUm : forall c' x, x ∈ get_link s c' 0 -> x ∈ get_link s' c' 0).
    { intros c' x Hx. rewrite HU. destruct (decide _); [|done]. apply elem_of_app. by left. }
    assert (HUp : EDelete u ∈ get_link s' p 0).
    { rewrite HU. rewrite decide_True by done. apply elem_of_app. right. apply elem_of_list_here. }
    assert (Hcm_pu : cm s' p u = false).
    { apply cm_tomb. rewrite HTp. apply elem_of_list_here. }
    assert (Hcm_other : forall c' w, c' <> 0 -> c' <> p \/ w <> u -> cm s' c' w = cm s c' w).
    { intros c' w Hc0 Hor. destruct (decide (c' = p)) as [->|Hcp].
      - destruct Hor as [?|Hwu]; [done|]. unfold cm, tb. rewrite HTp, HDc, HE by done.
        rewrite decide_True by done.
        rewrite (bool_decide_ext (w ∈ u :: get_tomb s p) (w ∈ get_tomb s p)).
        + rewrite (bool_decide_ext (w ∈ remove1 u (get_ents s p)) (w ∈ get_ents s p)); [done|].
          rewrite remove1_elem by done. tauto.
        + rewrite elem_of_cons. split; [intros [?|?]; done|by right].
      - apply cm_same; [by apply HTo| |by apply HDc]. rewrite HE. by rewrite decide_False. }
    assert (Hpair : forall c' w, (c' = p /\ w = u) \/ (c' <> p \/ w <> u)).
    { intros c' w. destruct (decide (c' = p)); [|by right; left].
      destruct (decide (w = u)); [by left|by right; right]. }
    constructor.
    + intros c' w Hc' Hs' Hw. rewrite Hc in Hc'. rewrite Hs in Hs'. rewrite HH in Hw.
      destruct (Hpair c' w) as [[-> ->]|Hor]; [by right|].
      rewrite Hcm_other; [|by eapply conn_ne0|done].
      destruct (c_A _ Hcinv _ _ Hc' Hs' Hw) as [?|?]; [by left|right; by apply HUm].
    + intros c' w Hc' Ht. rewrite Hc in Hc'. rewrite HH.
      destruct (Hpair c' w) as [[-> ->]|Hor]; [by rewrite Hcm_pu in Ht|].
      rewrite Hcm_other in Ht; [|by eapply conn_ne0|done].
      destruct (c_B _ Hcinv _ _ Hc' Ht); [by left|right; by apply HUm].
    + intros c' w Hc' Hw Hin'. rewrite Hc in Hc'. rewrite HH in Hin'.
      destruct (decide (c' = p)) as [->|Hcp].
      * rewrite HTp in Hw. apply elem_of_cons in Hw as [->|Hw]; [done|].
        apply HUm. by apply (c_T _ Hcinv).
      * rewrite HTo in Hw by done. apply HUm. by apply (c_T _ Hcinv).
Qed.

Lemma cinv_step_deliver_host s s' c :
  sinv s -> tinv s -> cinv s -> step s (EvDeliver c 0) = Some s' -> cinv s'.
Proof.
  intros Hinv Htinv Hcinv Hstep. pose proof (s_host _ Hinv) as H0.
  pose proof (s_nd_ents _ Hinv) as Hnd.
  assert (A : astep s s' (EvDeliver c 0)) by (apply step_astep; [apply Hinv|done]).
  inversion A as [| |c1 u q Hc0 Hhd HE HL (Hc & Hs & Hu) HT
                    |c1 u q Hc0 Hhd HE HL (Hc & Hs & Hu) HT
                    |c1 q Hc0 Hhd HE HL Hc Hs Hu HT
                    |c1 q Hc0 Hhd HE HL (Hc & Hs & Hu) HT
                    |c1 m q Hc0 Hhd HE HL (Hc & Hs & Hu) HT| |]; subst; clear A; [| | | |done].
  - (* host receives ESpawn u from c *)
    assert (Hcc : c ∈ conn s) by (apply link_nonempty_conn; [done|done|by rewrite Hhd]).
    assert (Hsp : ESpawn u ∈ get_link s c 0) by (rewrite Hhd; apply elem_of_list_here).
    destruct (s_pa _ Hinv _ _ Hsp) as (Q1 & Q2 & Q3 & Q4).
    pose proof (relay_links_up _ _ _ _ _ HL H0) as HU.
    pose proof (relay_links_down _ _ _ _ _ HL Hc0) as HD.
    assert (Hq : forall x, x ∈ get_link s c 0 -> x <> ESpawn u -> x ∈ q).
    { intros x. rewrite Hhd. intros [->|?]%elem_of_cons; done. }
    assert (HH : get_ents s' 0 = u :: get_ents s 0).
    { rewrite HE. by rewrite decide_True. }
    assert (HEc : forall c', c' <> 0 -> get_ents s' c' = get_ents s c').
    { intros c' Hc'. rewrite HE. by rewrite decide_False. }
    assert (HDc : get_link s' 0 c = get_link s 0 c).
    { rewrite HD by done. rewrite decide_False; [done|]. tauto. }
    assert (HDo : forall c', c' ∈ conn s -> c' <> c -> get_link s' 0 c' = get_link s 0 c' ++ [ESpawn u]).
    { intros c' Hc' Hne. rewrite HD by (by eapply conn_ne0). by rewrite decide_True. }
    assert (HUc : get_link s' c 0 = q) by (rewrite HU; by rewrite decide_True).
    assert (HUo : forall c', c' <> c -> get_link s' c' 0 = get_link s c' 0).
    { intros c' Hne. rewrite HU. by rewrite decide_False. }
    assert (Hcm_c : forall w, cm s' c w = cm s c w).
    { intros w. apply cm_same; [apply HT|by apply HEc|done]. }
    assert (Hcm_eq : forall c', c' ∈ conn s -> c' <> c -> cm s' c' u = true).
    { intros c' Hc' Hne.
      rewrite (cm_snoc_spawn s s' c' u); [|apply HT|apply HEc; by eapply conn_ne0|by apply HDo].
      unfold tb. rewrite bool_decide_eq_false_2; [done|]. by apply (t_pa _ Htinv c u c'). }
    assert (Hcm_ne : forall c' w, c' ∈ conn s -> c' <> c -> w <> u -> cm s' c' w = cm s c' w).
    { intros c' w Hc' Hne Hwu. apply (cm_snoc_same s s' c' w (ESpawn u));
        [apply HT|apply HEc; by eapply conn_ne0|by apply HDo|].
      rewrite mentions_spawn. done. }
    constructor.
    + intros c' w Hc' Hs' Hw. rewrite Hc in Hc'. rewrite Hs in Hs'. rewrite HH in Hw.
      destruct (decide (c' = c)) as [->|Hne].
      * rewrite Hcm_c, HUc. destruct (decide (w = u)) as [->|Hwu].
        -- destruct Q4 as [Q4|Q4]; [left|right; by apply Hq].
           rewrite cm_no_mention by apply Q2. rewrite (bool_decide_eq_true_2 _ Q4).
           unfold tb. rewrite bool_decide_eq_false_2; [done|].
           intros Htb. by apply (t_ents _ Htinv c u).
        -- assert (Hw' : w ∈ get_ents s 0) by (apply elem_of_cons in Hw as [->|Hw]; done).
           destruct (c_A _ Hcinv _ _ Hc' Hs' Hw') as [?|Hde]; [by left|right]. by apply Hq.
      * rewrite HUo by done. destruct (decide (w = u)) as [->|Hwu]; [left; by apply Hcm_eq|].
        rewrite Hcm_ne by done. apply (c_A _ Hcinv); try done.
        apply elem_of_cons in Hw as [->|Hw]; done.
    + intros c' w Hc' Ht. rewrite Hc in Hc'. rewrite HH.
      destruct (decide (w = u)) as [->|Hwu]; [left; apply elem_of_list_here|].
      destruct (decide (c' = c)) as [->|Hne].
      * rewrite Hcm_c in Ht. rewrite HUc.
        destruct (c_B _ Hcinv _ _ Hc' Ht) as [?|Hsw]; [left; by apply elem_of_list_further|].
        right. apply Hq; [done|]. intros [= ->]. done.
      * rewrite Hcm_ne in Ht by done. rewrite HUo by done.
        destruct (c_B _ Hcinv _ _ Hc' Ht); [left; by apply elem_of_list_further|by right].
    + intros c' w Hc' Hw Hin. rewrite Hc in Hc'. rewrite HT in Hw. rewrite HH in Hin.
      destruct (decide (w = u)) as [->|Hwu].
      * destruct (decide (c' = c)) as [->|Hne]; [|by destruct (t_pa _ Htinv c u c' Hsp Hne)].
        rewrite HUc. destruct Q4 as [Q4|Q4]; [by destruct (t_ents _ Htinv c u Hw)|by apply Hq].
      * assert (Hin' : w ∈ get_ents s 0) by (apply elem_of_cons in Hin as [->|Hin]; done).
        pose proof (c_T _ Hcinv _ _ Hc' Hw Hin') as Hde.
        destruct (decide (c' = c)) as [->|Hne]; [rewrite HUc; by apply Hq|by rewrite HUo].
  - (* host receives EDelete u from c *)
    assert (Hcc : c ∈ conn s) by (apply link_nonempty_conn; [done|done|by rewrite Hhd]).
    assert (Hdu : EDelete u ∈ get_link s c 0) by (rewrite Hhd; apply elem_of_list_here).
    pose proof (t_del _ Htinv _ _ Hdu) as Htu.
    pose proof (relay_links_up _ _ _ _ _ HL H0) as HU.
    pose proof (relay_links_down _ _ _ _ _ HL Hc0) as HD.
    assert (Hq : forall x, x ∈ get_link s c 0 -> x <> EDelete u -> x ∈ q).
    { intros x. rewrite Hhd. intros [->|?]%elem_of_cons; done. }
    assert (HH : get_ents s' 0 = remove1 u (get_ents s 0)).
    { rewrite HE. by rewrite decide_True. }
    assert (HEc : forall c', c' <> 0 -> get_ents s' c' = get_ents s c').
    { intros c' Hc'. rewrite HE. by rewrite decide_False. }
    assert (HDc : get_link s' 0 c = get_link s 0 c).
    { rewrite HD by done. rewrite decide_False; [done|]. tauto. }
    assert (HDo : forall c', c' ∈ conn s -> c' <> c -> get_link s' 0 c' = get_link s 0 c' ++ [EDelete u]).
    { intros c' Hc' Hne. rewrite HD by (by eapply conn_ne0). by rewrite decide_True. }
    assert (HUc : get_link s' c 0 = q) by (rewrite HU; by rewrite decide_True).
    assert (HUo : forall c', c' <> c -> get_link s' c' 0 = get_link s c' 0).
    { intros c' Hne. rewrite HU. by rewrite decide_False. }
    assert (Hcm_c : forall w, cm s' c w = cm s c w).
    { intros w. apply cm_same; [apply HT|by apply HEc|done]. }
    assert (Hcm_eq : forall c', c' ∈ conn s -> c' <> c -> cm s' c' u = false).
    { intros c' Hc' Hne.
      apply (cm_snoc_delete s s' c' u); [apply HT|apply HEc; by eapply conn_ne0|by apply HDo]. }
    assert (Hcm_ne : forall c' w, c' ∈ conn s -> c' <> c -> w <> u -> cm s' c' w = cm s c' w).
    { intros c' w Hc' Hne Hwu. apply (cm_snoc_same s s' c' w (EDelete u));
        [apply HT|apply HEc; by eapply conn_ne0|by apply HDo|].
      rewrite mentions_delete. done. }
    constructor.
    + intros c' w Hc' Hs' Hw. rewrite Hc in Hc'. rewrite Hs in Hs'. rewrite HH in Hw.
      apply remove1_elem in Hw as [Hw Hwu]; [|done].
      destruct (decide (c' = c)) as [->|Hne].
      * rewrite Hcm_c, HUc. destruct (c_A _ Hcinv _ _ Hc' Hs' Hw) as [?|Hde]; [by left|right].
        apply Hq; [done|]. intros [= ->]. done.
      * rewrite Hcm_ne, HUo by done. by apply (c_A _ Hcinv).
    + intros c' w Hc' Ht. rewrite Hc in Hc'. rewrite HH.
      destruct (decide (c' = c)) as [->|Hne].
      * rewrite Hcm_c in Ht. rewrite HUc.
        assert (Hwu : w <> u).
        { intros ->. by apply (cm_true_no_tomb _ _ _ Ht). }
        destruct (c_B _ Hcinv _ _ Hc' Ht) as [?|Hsw]; [left; by apply remove1_other|].
        right. by apply Hq.
      * destruct (decide (w = u)) as [->|Hwu]; [by rewrite Hcm_eq in Ht|].
        rewrite Hcm_ne in Ht by done. rewrite HUo by done.
        destruct (c_B _ Hcinv _ _ Hc' Ht); [left; by apply remove1_other|by right].
    + intros c' w Hc' Hw Hin. rewrite Hc in Hc'. rewrite HT in Hw. rewrite HH in Hin.
      apply remove1_elem in Hin as [Hin Hwu]; [|done].
      pose proof (c_T _ Hcinv _ _ Hc' Hw Hin) as Hde.
      destruct (decide (c' = c)) as [->|Hne]; [|by rewrite HUo].
      rewrite HUc. apply Hq; [done|]. intros [= ->]. done.
  - (* host receives EReqInit from c: the snapshot *)
    assert (Hcc : c ∈ conn s) by (apply link_nonempty_conn; [done|done|by rewrite Hhd]).
    assert (Hq : forall x, x ∈ get_link s c 0 -> x <> EReqInit -> x ∈ q).
    { intros x. rewrite Hhd. intros [->|?]%elem_of_cons; done. }
    assert (HDc : get_link s' 0 c = get_link s 0 c ++ (ESpawn <$> get_ents s 0) ++ [EFinInit]).
    { rewrite HL. rewrite decide_False by (intros [= ? ?]; simplify_eq). by rewrite decide_True. }
    assert (HDo : forall c', c' <> c -> get_link s' 0 c' = get_link s 0 c').
    { intros c' Hne. rewrite HL. rewrite decide_False by (intros [= ? ?]; simplify_eq).
      rewrite decide_False; [done|]. intros [= ->]. done. }
    assert (HUc : get_link s' c 0 = q) by (rewrite HL; by rewrite decide_True).
    assert (HUo : forall c', c' <> c -> get_link s' c' 0 = get_link s c' 0).
    { intros c' Hne. rewrite HL. rewrite decide_False by (intros [= ->]; done).
      rewrite decide_False; [done|]. intros [= -> ?]. done. }
    assert (Hcm_c : forall w, cm s' c w =
              negb (tb s c w) && (cm s c w || bool_decide (w ∈ get_ents s 0))).
    { intros w. rewrite <- after_msgs_snapshot. apply cm_app; [apply HT|apply HE|done]. }
    assert (Hcm_o : forall c' w, c' <> c -> cm s' c' w = cm s c' w).
    { intros c' w Hne. apply cm_same; [apply HT|apply HE|by apply HDo]. }
    constructor.
    + intros c' w Hc' Hs' Hw. rewrite Hc in Hc'. rewrite HE in Hw.
      destruct (decide (c' = c)) as [->|Hne].
      * rewrite Hcm_c, HUc. destruct (decide (w ∈ get_tomb s c)) as [Htw|Htw].
        -- right. apply Hq; [|done]. by apply (c_T _ Hcinv).
        -- left. unfold tb. rewrite (bool_decide_eq_false_2 _ Htw).
           rewrite (bool_decide_eq_true_2 _ Hw). simpl. apply orb_true_r.
      * rewrite Hs in Hs'. apply elem_of_cons in Hs' as [->|Hs']; [done|].
        rewrite Hcm_o, HUo by done. by apply (c_A _ Hcinv).
    + intros c' w Hc' Ht. rewrite Hc in Hc'. rewrite HE.
      destruct (decide (c' = c)) as [->|Hne].
      * rewrite Hcm_c in Ht. rewrite HUc. apply andb_true_iff in Ht as [_ Ht].
        apply orb_true_iff in Ht as [Ht|Ht]; [|left; by apply bool_decide_eq_true in Ht].
        destruct (c_B _ Hcinv _ _ Hc' Ht) as [?|Hsw]; [by left|right]. by apply Hq.
      * rewrite Hcm_o in Ht by done. rewrite HUo by done. by apply (c_B _ Hcinv).
    + intros c' w Hc' Hw Hin. rewrite Hc in Hc'. rewrite HT in Hw. rewrite HE in Hin.
      pose proof (c_T _ Hcinv _ _ Hc' Hw Hin) as Hde.
      destruct (decide (c' = c)) as [->|Hne]; [|by rewrite HUo].
      rewrite HUc. by apply Hq.
  - (* host receives EFinInit from c *)
    assert (Hq : forall x, x ∈ get_link s c 0 -> x <> EFinInit -> x ∈ q).
    { intros x. rewrite Hhd. intros [->|?]%elem_of_cons; done. }
    assert (HD : forall c', get_link s' 0 c' = get_link s 0 c').
    { intros c'. rewrite HL. rewrite decide_False; [done|]. intros [= ? ?]. simplify_eq. }
    assert (HUc : get_link s' c 0 = q) by (rewrite HL; by rewrite decide_True).
    assert (HUo : forall c', c' <> c -> get_link s' c' 0 = get_link s c' 0).
    { intros c' Hne. rewrite HL. rewrite decide_False; [done|]. intros [= ->]. done. }
    assert (Hcm : forall c' w, cm s' c' w = cm s c' w).
    { intros c' w. apply cm_same; [apply HT|apply HE|apply HD]. }
    constructor.
    + intros c' w Hc' Hs' Hw. rewrite Hc in Hc'. rewrite Hs in Hs'. rewrite HE in Hw.
      rewrite Hcm. destruct (c_A _ Hcinv _ _ Hc' Hs' Hw) as [?|Hde]; [by left|right].
      destruct (decide (c' = c)) as [->|Hne]; [|by rewrite HUo].
      rewrite HUc. by apply Hq.
    + intros c' w Hc' Ht. rewrite Hc in Hc'. rewrite Hcm in Ht. rewrite HE.
      destruct (c_B _ Hcinv _ _ Hc' Ht) as [?|Hsw]; [by left|right].
      destruct (decide (c' = c)) as [->|Hne]; [|by rewrite HUo].
      rewrite HUc. by apply Hq.
    + intros c' w Hc' Hw Hin. rewrite Hc in Hc'. rewrite HT in Hw. rewrite HE in Hin.
      pose proof (c_T _ Hcinv _ _ Hc' Hw Hin) as Hde.
      destruct (decide (c' = c)) as [->|Hne]; [|by rewrite HUo].
      rewrite HUc. by apply Hq.
Qed.

Lemma cinv_step_deliver_client s s' c :
  sinv s -> tinv s -> cinv s -> step s (EvDeliver 0 c) = Some s' -> cinv s'.
Proof.
  intros Hinv Htinv Hcinv Hstep. pose proof (s_host _ Hinv) as H0.
  pose proof (s_nd_ents _ Hinv) as Hnd.
  assert (A : astep s s' (EvDeliver 0 c)) by (apply step_astep; [apply Hinv|done]).
  inversion A as [| |c1 u q Hc0 Hhd HE HL (Hc & Hs & Hu) HT
                    |c1 u q Hc0 Hhd HE HL (Hc & Hs & Hu) HT
                    |c1 q Hc0 Hhd HE HL Hc Hs Hu HT
                    |c1 q Hc0 Hhd HE HL (Hc & Hs & Hu) HT
                    |c1 m q Hc0 Hhd HE HL (Hc & Hs & Hu) HT| |]; subst; clear A; try done.
  (* client c handles m *)
  assert (HH : get_ents s' 0 = get_ents s 0).
  { rewrite HE. by rewrite decide_False. }
  assert (HU : forall c', get_link s' c' 0 = get_link s c' 0).
  { intros c'. rewrite HL. rewrite decide_False; [done|]. intros [= ? ?]. simplify_eq. }
  assert (Hcm : forall c' w, cm s' c' w = cm s c' w).
  { intros c' w. destruct (decide (c' = c)) as [->|Hne].
    - eapply cm_pop; [apply Hnd|apply Hhd| | |apply HT].
      + rewrite HL. by rewrite decide_True.
      + rewrite HE. by rewrite decide_True.
    - apply cm_same; [apply HT| |].
      + rewrite HE. by rewrite decide_False.
      + rewrite HL. rewrite decide_False; [done|]. intros [= ?]. done. }
  constructor.
  - intros c' w Hc' Hs' Hw. rewrite Hc in Hc'. rewrite Hs in Hs'. rewrite HH in Hw.
    rewrite Hcm, HU. by apply (c_A _ Hcinv).
  - intros c' w Hc' Ht. rewrite Hc in Hc'. rewrite Hcm in Ht. rewrite HH, HU.
    by apply (c_B _ Hcinv).
  - intros c' w Hc' Hw Hin. rewrite Hc in Hc'. rewrite HT in Hw. rewrite HH in Hin. rewrite HU.
    by apply (c_T _ Hcinv).
Qed.

Lemma cinv_step_connect s s' c :
  sinv s -> tinv s -> cinv s -> bad_S11 s (EvConnect c) = false ->
  step s (EvConnect c) = Some s' -> cinv s'.
Proof.
  intros Hinv Htinv Hcinv Hbad Hstep. pose proof (s_host _ Hinv) as H0.
  assert (A : astep s s' (EvConnect c)) by (apply step_astep; [apply Hinv|done]).
  inversion A as [| | | | | | |c1 Hc0 Hnc HE HL Hc Hs Hu HT|]; subst c1; clear A.
  assert (Hec : get_ents s c = []).
  { simpl in Hbad. by destruct (get_ents s c). }
  assert (Hdc : get_link s 0 c = []).
  { destruct (get_link s 0 c) eqn:Heq; [done|]. exfalso. apply Hnc.
    apply link_nonempty_conn_down; [done|done|]. by rewrite Heq. }
  assert (HD : forall c', get_link s' 0 c' = get_link s 0 c').
  { intros c'. rewrite HL. rewrite decide_False; [done|]. intros [= ? ?]. simplify_eq. }
  assert (HUo : forall c', c' <> c -> get_link s' c' 0 = get_link s c' 0).
  { intros c' Hne. rewrite HL. rewrite decide_False; [done|]. intros [= ?]. done. }
  assert (HTc : get_tomb s' c = []) by (rewrite HT; by rewrite decide_True).
  assert (HTo : forall c', c' <> c -> get_tomb s' c' = get_tomb s c').
  { intros c' Hne. rewrite HT. by rewrite decide_False. }
  assert (Hcm_o : forall c' w, c' <> c -> cm s' c' w = cm s c' w).
  { intros c' w Hne. apply cm_same; [by apply HTo|apply HE|apply HD]. }
  assert (Hcm_c : forall w, cm s' c w = false).
  { intros w. unfold cm, tb. rewrite HTc, HE, Hec, HD, Hdc.
    rewrite bool_decide_eq_false_2 by (by intros ?%elem_of_nil). done. }
  constructor.
  - intros c' w Hc' Hs' Hw. rewrite Hs in Hs'. rewrite HE in Hw.
    pose proof (s_sub _ Hinv _ Hs') as Hc''.
    assert (Hne : c' <> c) by (intros ->; done).
    rewrite Hcm_o, HUo by done. by apply (c_A _ Hcinv).
  - intros c' w Hc' Ht. rewrite Hc in Hc'. rewrite HE.
    destruct (decide (c' = c)) as [->|Hne]; [by rewrite Hcm_c in Ht|].
    apply elem_of_cons in Hc' as [->|Hc']; [done|].
    rewrite Hcm_o in Ht by done. rewrite HUo by done. by apply (c_B _ Hcinv).
  - intros c' w Hc' Hw Hin. rewrite Hc in Hc'. rewrite HE in Hin.
    destruct (decide (c' = c)) as [->|Hne].
    + rewrite HTc in Hw. by apply elem_of_nil in Hw.
    + apply elem_of_cons in Hc' as [->|Hc']; [done|].
      rewrite HTo in Hw by done. rewrite HUo by done. by apply (c_T _ Hcinv).
Qed.

Lemma cinv_step_leave s s' c :
  sinv s -> tinv s -> cinv s -> step s (EvLeave c) = Some s' -> cinv s'.
Proof.
  intros Hinv Htinv Hcinv Hstep. pose proof (s_host _ Hinv) as H0.
  assert (A : astep s s' (EvLeave c)) by (apply step_astep; [apply Hinv|done]).
  inversion A as [| | | | | | | |c1 Hcc HE HL Hc Hs Hu HT]; subst c1; clear A.
  pose proof (conn_ne0 _ _ Hinv Hcc) as Hc0.
  assert (HD : forall c', c' <> c -> get_link s' 0 c' = get_link s 0 c').
  { intros c' Hne. rewrite HL. rewrite decide_False; [done|]. intros [[= ?]|[= ? ?]]; done. }
  assert (HU : forall c', c' <> c -> get_link s' c' 0 = get_link s c' 0).
  { intros c' Hne. rewrite HL. rewrite decide_False; [done|]. intros [[= ? ?]|[= ?]]; done. }
  assert (Hcm : forall c' w, c' <> c -> cm s' c' w = cm s c' w).
  { intros c' w Hne. apply cm_same; [apply HT|apply HE|by apply HD]. }
  constructor.
  - intros c' w Hc' Hs' Hw. rewrite Hc in Hc'. rewrite Hs in Hs'. rewrite HE in Hw.
    apply elem_of_list_filter in Hc' as [Hne Hc']. apply elem_of_list_filter in Hs' as [_ Hs'].
    rewrite Hcm, HU by done. by apply (c_A _ Hcinv).
  - intros c' w Hc' Ht. rewrite Hc in Hc'.
    apply elem_of_list_filter in Hc' as [Hne Hc']. rewrite Hcm in Ht by done.
    rewrite HE, HU by done. by apply (c_B _ Hcinv).
  - intros c' w Hc' Hw Hin. rewrite Hc in Hc'.
    apply elem_of_list_filter in Hc' as [Hne Hc']. rewrite HT in Hw. rewrite HE in Hin.
    rewrite HU by done. by apply (c_T _ Hcinv).
Qed.

Lemma cinv_step s e s' :
  sinv s -> tinv s -> cinv s -> bad_S11 s e = false -> step s e = Some s' -> cinv s'.
Proof.
  intros Hinv Htinv Hcinv H11 Hstep. destruct e as [p u|p u|a b|c|c].
  - by eapply cinv_step_spawn.
  - by eapply cinv_step_despawn.
  - destruct (decide (b = 0)) as [->|Hb].
    + by eapply cinv_step_deliver_host.
    + destruct (decide (a = 0)) as [->|Ha].
      * by eapply cinv_step_deliver_client.
      * simpl in Hstep. destruct (get_link s a b); [done|].
        rewrite decide_False in Hstep by done. by rewrite decide_False in Hstep.
  - by eapply cinv_step_connect.
  - by eapply cinv_step_leave.
Qed.

Lemma scan_cons_false bad s e tr s1 :
  scan bad s (e :: tr) = false -> step s e = Some s1 -> bad s e = false /\ scan bad s1 tr = false.
Proof. simpl. intros Hsc Hst. rewrite Hst in Hsc. by apply orb_false_iff in Hsc. Qed.

Lemma cinv_run s tr s' :
  sinv s -> tinv s -> cinv s -> scan bad_S11 s tr = false -> run s tr = Some s' -> cinv s'.
Proof.
  revert s. induction tr as [|e tr IH]; intros s Hinv Htinv Hcinv H11; simpl.
  - by intros [= <-].
  - destruct (step s e) as [s1|] eqn:Hstep; [|done]. intros Hrun.
    destruct (scan_cons_false _ _ _ _ _ H11 Hstep) as [Hb11 Hs11].
    apply (IH s1); try done.
    + by eapply sinv_step.
    + by eapply tinv_step.
    + by eapply cinv_step.
Qed.

Lemma cm_quiescent s c u :
  quiescent s -> cm s c u = negb (tb s c u) && bool_decide (u ∈ get_ents s c).
Proof. intros Hq. unfold cm. by rewrite Hq. Qed.

Lemma cinv_quiescent_agree s : sinv s -> tinv s -> cinv s -> quiescent s -> agree s.
Proof.
  intros Hinv Htinv Hcinv Hq. split; [apply (s_nd_ents _ Hinv)|].
  intros c Hc Hs. split; [apply (s_nd_ents _ Hinv)|]. intros u. split.
  - intros Hin. assert (Ht : cm s c u = true).
    { rewrite cm_quiescent by done. rewrite (bool_decide_eq_true_2 _ Hin).
      unfold tb. rewrite bool_decide_eq_false_2; [done|].
      intros Htb. by apply (t_ents _ Htinv c u). }
    destruct (c_B _ Hcinv _ _ Hc Ht) as [?|Hsp]; [done|]. rewrite Hq in Hsp. by apply elem_of_nil in Hsp.
  - intros Hin. destruct (c_A _ Hcinv _ _ Hc Hs Hin) as [Ht|Hde].
    + rewrite cm_quiescent in Ht by done. apply andb_true_iff in Ht as [_ Ht].
      by apply bool_decide_eq_true in Ht.
    + rewrite Hq in Hde. by apply elem_of_nil in Hde.
Qed.

(* C01, agreement part: outside the one remaining known class (S11), at quiescence every connected
   and synced client holds exactly the host's set, and nobody holds a uuid twice. *)
Theorem C01_agreement tr s :
  run init tr = Some s -> known_S11 tr = false -> quiescent s -> agree s.
Proof.
  intros Hrun H11 Hq.
  apply cinv_quiescent_agree; [by eapply sinv_reachable|by eapply tinv_reachable| |done].
  eapply cinv_run; [apply sinv_init|apply tinv_init|apply cinv_init|apply H11|done].
Qed.
Print Assumptions C01_agreement.

(* ================================================================================================
   7. The host's set against the trace (spec_alive)
   ================================================================================================ *)

Definition sp_of (e : event) : list uuid := match e with EvSpawn _ u => [u] | _ => [] end.
Definition ds_of (e : event) : list uuid := match e with EvDespawn _ u => [u] | _ => [] end.

Record ginv (SP DS DR : list uuid) (s : astate) : Prop := {
  g1 : forall u, u ∉ DR -> u ∈ get_ents s 0 ->
       u ∈ SP /\ (u ∈ DS -> exists c, EDelete u ∈ get_link s c 0);
  g2 : forall u, u ∉ DR -> u ∈ SP -> u ∉ get_ents s 0 ->
       (exists o, ESpawn u ∈ get_link s o 0) \/ u ∈ DS;
  g3 : forall o u, ESpawn u ∈ get_link s o 0 -> u ∈ SP;
  g4 : forall o u, ESpawn u ∈ get_link s o 0 -> u ∈ DS -> EDelete u ∈ get_link s o 0;
  g5 : forall c u, EDelete u ∈ get_link s c 0 -> u ∈ DS;
  g6 : forall u, u ∈ DS -> u ∈ used s;
}.

Lemma dropped_at_spec s c u :
  u ∈ dropped_at s (EvLeave c) <-> mentions u (get_link s c 0).
Proof.
  simpl. unfold mentions. induction (get_link s c 0) as [|m q IH]; simpl.
  - set_solver.
  - rewrite elem_of_app, IH. destruct m; simpl; set_solver.
Qed.

Lemma ginv_step SP DS DR s e s' :
  sinv s -> ginv SP DS DR s -> step s e = Some s' ->
  ginv (SP ++ sp_of e) (DS ++ ds_of e) (DR ++ dropped_at s e) s'.
Proof.
  intros Hinv [G1 G2 G3 G4 G5 G6] Hstep. pose proof (s_host _ Hinv) as H0.
  pose proof (s_nd_ents _ Hinv) as Hnd.
  step_cases Hinv Hstep; simpl; rewrite ?app_nil_r.
  - (* spawn *)
    assert (Hnm : forall a b, ~ mentions u (get_link s a b)).
    { intros a b Hm. apply Hfresh. eapply s_used_l; eauto. }
    assert (HUm : forall c m, m ∈ get_link s c 0 -> m ∈ get_link s' c 0).
    { intros c m Hm. rewrite HL. repeat case_decide; simplify_eq; try done;
        apply elem_of_app; by left. }
    assert (HUi : forall c m, m ∈ get_link s' c 0 -> m ∈ get_link s c 0 \/ (m = ESpawn u /\ c = p /\ p <> 0)).
    { intros c m. rewrite HL. repeat case_decide; simplify_eq; try (by left); try (exfalso; tauto).
      intros [?| ->]%elem_of_snoc; [by left|by right]. }
    constructor.
    + intros w Hdr Hw. rewrite HE in Hw. case_decide as Hp0.
      * subst p. apply elem_of_cons in Hw as [->|Hw].
        -- split; [apply elem_of_app; right; apply elem_of_list_here|].
           intros Hds. exfalso. apply Hfresh. by apply G6.
        -- destruct (G1 w Hdr Hw) as [? Hd]. split; [apply elem_of_app; by left|].
           intros Hds. destruct (Hd Hds) as [c Hc']. exists c. by apply HUm.
      * destruct (G1 w Hdr Hw) as [? Hd]. split; [apply elem_of_app; by left|].
        intros Hds. destruct (Hd Hds) as [c Hc']. exists c. by apply HUm.
    + intros w Hdr Hw Hnw. apply elem_of_snoc in Hw as [Hw| ->].
      * assert (Hnw' : w ∉ get_ents s 0).
        { intros Hin. apply Hnw. rewrite HE. case_decide as Hd; [subst p; apply elem_of_list_further|]; done. }
        destruct (G2 w Hdr Hw Hnw') as [[o Ho]|?]; [left|by right]. exists o. by apply HUm.
      * destruct (decide (p = 0)) as [->|Hp].
        -- exfalso. apply Hnw. rewrite HE. rewrite decide_True by done. apply elem_of_list_here.
        -- left. exists p. rewrite HL. rewrite decide_False by done. rewrite decide_True by done.
           apply elem_of_app. right. apply elem_of_list_here.
    + intros o w [Hold|([= ->] & _)]%HUi; apply elem_of_app; [left; by eapply G3|right; apply elem_of_list_here].
    + intros o w [Hold|([= ->] & _)]%HUi Hds.
      * apply HUm. by eapply G4.
      * exfalso. apply Hfresh. by apply G6.
    + intros c w [Hold|([=] & _)]%HUi. by eapply G5.
    + intros w Hds. rewrite Hu. apply elem_of_list_further. by apply G6.
  - (* despawn *)
    assert (HUm : forall c m, m ∈ get_link s c 0 -> m ∈ get_link s' c 0).
    { intros c m Hm. rewrite HL. repeat case_decide; simplify_eq; try done;
        apply elem_of_app; by left. }
    assert (HUi : forall c m, m ∈ get_link s' c 0 -> m ∈ get_link s c 0 \/ (m = EDelete u /\ c = p /\ p <> 0)).
    { intros c m. rewrite HL. repeat case_decide; simplify_eq; try (by left); try (exfalso; tauto).
      intros [?| ->]%elem_of_snoc; [by left|by right]. }
    constructor.
    + intros w Hdr Hw. rewrite HE in Hw. case_decide as Hp0.
      * subst p. apply remove1_elem in Hw as [Hw Hwu]; [|done].
        destruct (G1 w Hdr Hw) as [? Hd]. split; [done|].
        intros [Hds|Heq]%elem_of_snoc; [|done].
        destruct (Hd Hds) as [c Hc']. exists c. by apply HUm.
      * destruct (G1 w Hdr Hw) as [? Hd]. split; [done|].
        intros [Hds| ->]%elem_of_snoc.
        -- destruct (Hd Hds) as [c Hc']. exists c. by apply HUm.
        -- exists p. rewrite HL. rewrite decide_False by done. rewrite decide_True by done.
           apply elem_of_app. right. apply elem_of_list_here.
    + intros w Hdr Hw Hnw. destruct (decide (w = u)) as [->|Hwu].
      * right. apply elem_of_app. right. apply elem_of_list_here.
      * assert (Hnw' : w ∉ get_ents s 0).
        { intros Hin0. apply Hnw. rewrite HE. case_decide as Hd; [|done]. subst p. by apply remove1_other. }
        destruct (G2 w Hdr Hw Hnw') as [[o Ho]|?]; [left|right; apply elem_of_app; by left].
        exists o. by apply HUm.
    + intros o w [Hold|([=] & _)]%HUi. by eapply G3.
    + intros o w [Hold|([=] & _)]%HUi [Hds| ->]%elem_of_snoc.
      * apply HUm. by eapply G4.
      * destruct (s_pa _ Hinv _ _ Hold) as (P1 & _ & P3 & _).
        destruct (decide (p = o)) as [->|Hpo].
        -- rewrite HL. destruct (decide (o = 0)) as [->|Ho0]; [done|].
           rewrite decide_True by done. apply elem_of_app. right. apply elem_of_list_here.
        -- destruct (P3 p Hpo) as [Hnot _]. done.
    + intros c w [Hold|([= ->] & _)]%HUi; apply elem_of_app; [left; by eapply G5|right; apply elem_of_list_here].
    + intros w [Hds| ->]%elem_of_snoc; rewrite Hu; [by apply G6|].
      by eapply s_used_e.
  - (* host receives ESpawn u from c *)
    assert (Hsp : ESpawn u ∈ get_link s c 0) by (rewrite Hhd; apply elem_of_list_here).
    assert (HUi : forall c' m, m ∈ get_link s' c' 0 -> m ∈ get_link s c' 0).
    { intros c' m. rewrite HL. repeat case_decide; simplify_eq; try done; try (exfalso; tauto).
      intros Hm. rewrite Hhd. by apply elem_of_list_further. }
    assert (HUm : forall c' m, m ∈ get_link s c' 0 -> m <> ESpawn u -> m ∈ get_link s' c' 0).
    { intros c' m Hm Hne. rewrite HL. repeat case_decide; simplify_eq; try done; try (exfalso; tauto).
      rewrite Hhd in Hm. apply elem_of_cons in Hm as [->|Hm]; done. }
    constructor.
    + intros w Hdr Hw. rewrite HE in Hw. rewrite decide_True in Hw by done.
      apply elem_of_cons in Hw as [->|Hw].
      * split; [by eapply G3|]. intros Hds. exists c. apply HUm; [|done]. by eapply G4.
      * destruct (G1 w Hdr Hw) as [? Hd]. split; [done|]. intros Hds.
        destruct (Hd Hds) as [c' Hc']. exists c'. by apply HUm.
    + intros w Hdr Hw Hnw. rewrite HE in Hnw. rewrite decide_True in Hnw by done.
      apply not_elem_of_cons in Hnw as [Hwu Hnw].
      destruct (G2 w Hdr Hw Hnw) as [[o Ho]|?]; [left|by right]. exists o. apply HUm; [done|].
      intros [= ->]. done.
    + intros o w Hm%HUi. by eapply G3.
    + intros o w Hm Hds. pose proof (HUi _ _ Hm) as Hm'. apply HUm; [|done]. by eapply G4.
    + intros c' w Hm%HUi. by eapply G5.
    + intros w Hds. rewrite Hu. by apply G6.
  - (* host receives EDelete u from c *)
    assert (Hde : EDelete u ∈ get_link s c 0) by (rewrite Hhd; apply elem_of_list_here).
    assert (HUi : forall c' m, m ∈ get_link s' c' 0 -> m ∈ get_link s c' 0).
    { intros c' m. rewrite HL. repeat case_decide; simplify_eq; try done; try (exfalso; tauto).
      intros Hm. rewrite Hhd. by apply elem_of_list_further. }
    assert (HUm : forall c' m, m ∈ get_link s c' 0 -> m <> EDelete u -> m ∈ get_link s' c' 0).
    { intros c' m Hm Hne. rewrite HL. repeat case_decide; simplify_eq; try done; try (exfalso; tauto).
      rewrite Hhd in Hm. apply elem_of_cons in Hm as [->|Hm]; done. }
    constructor.
    + intros w Hdr Hw. rewrite HE in Hw. rewrite decide_True in Hw by done.
      apply remove1_elem in Hw as [Hw Hwu]; [|done].
      destruct (G1 w Hdr Hw) as [? Hd]. split; [done|]. intros Hds.
      destruct (Hd Hds) as [c' Hc']. exists c'. apply HUm; [done|]. intros [= ->]. done.
    + intros w Hdr Hw Hnw. rewrite HE in Hnw. rewrite decide_True in Hnw by done.
      destruct (decide (w = u)) as [->|Hwu]; [right; by eapply G5|].
      assert (Hnw' : w ∉ get_ents s 0).
      { intros Hin. apply Hnw. by apply remove1_other. }
      destruct (G2 w Hdr Hw Hnw') as [[o Ho]|?]; [left|by right]. exists o. by apply HUm.
    + intros o w Hm%HUi. by eapply G3.
    + intros o w Hm Hds. pose proof (HUi _ _ Hm) as Hm'.
      assert (Hwu : w <> u).
      { intros ->. destruct (decide (o = c)) as [->|Hoc].
        - pose proof (s_okq _ Hinv c) as Hok. rewrite Hhd in Hok. destruct Hok as [Hok _].
          apply (Hok u); [by apply mentions_delete|].
          rewrite HL in Hm. by rewrite decide_True in Hm.
        - destruct (s_pa _ Hinv _ _ Hm') as (_ & _ & P3 & _).
          assert (Hco : c <> o) by done. destruct (P3 c Hco) as [_ P3b]. apply P3b. by right. }
      apply HUm; [by eapply G4|]. intros [= ->]. done.
    + intros c' w Hm%HUi. by eapply G5.
    + intros w Hds. rewrite Hu. by apply G6.
  - (* host receives EReqInit from c *)
    assert (HUi : forall c' m, m ∈ get_link s' c' 0 -> m ∈ get_link s c' 0).
    { intros c' m. rewrite HL. repeat case_decide; simplify_eq; try done.
      intros Hm. rewrite Hhd. by apply elem_of_list_further. }
    assert (HUm : forall c' m, m ∈ get_link s c' 0 -> m <> EReqInit -> m ∈ get_link s' c' 0).
    { intros c' m Hm Hne. rewrite HL. repeat case_decide; simplify_eq; try done.
      rewrite Hhd in Hm. apply elem_of_cons in Hm as [->|Hm]; done. }
    constructor.
    + intros w Hdr Hw. rewrite HE in Hw. destruct (G1 w Hdr Hw) as [? Hd]. split; [done|].
      intros Hds. destruct (Hd Hds) as [c' Hc']. exists c'. by apply HUm.
    + intros w Hdr Hw Hnw. rewrite HE in Hnw.
      destruct (G2 w Hdr Hw Hnw) as [[o Ho]|?]; [left|by right]. exists o. by apply HUm.
    + intros o w Hm%HUi. by eapply G3.
    + intros o w Hm Hds. apply HUm; [|done]. eapply G4; [|done]. by apply HUi.
    + intros c' w Hm%HUi. by eapply G5.
    + intros w Hds. rewrite Hu. by apply G6.
  - (* host receives EFinInit from c *)
    assert (HUi : forall c' m, m ∈ get_link s' c' 0 -> m ∈ get_link s c' 0).
    { intros c' m. rewrite HL. repeat case_decide; simplify_eq; try done.
      intros Hm. rewrite Hhd. by apply elem_of_list_further. }
    assert (HUm : forall c' m, m ∈ get_link s c' 0 -> m <> EFinInit -> m ∈ get_link s' c' 0).
    { intros c' m Hm Hne. rewrite HL. repeat case_decide; simplify_eq; try done.
      rewrite Hhd in Hm. apply elem_of_cons in Hm as [->|Hm]; done. }
    constructor.
    + intros w Hdr Hw. rewrite HE in Hw. destruct (G1 w Hdr Hw) as [? Hd]. split; [done|].
      intros Hds. destruct (Hd Hds) as [c' Hc']. exists c'. by apply HUm.
    + intros w Hdr Hw Hnw. rewrite HE in Hnw.
      destruct (G2 w Hdr Hw Hnw) as [[o Ho]|?]; [left|by right]. exists o. by apply HUm.
    + intros o w Hm%HUi. by eapply G3.
    + intros o w Hm Hds. apply HUm; [|done]. eapply G4; [|done]. by apply HUi.
    + intros c' w Hm%HUi. by eapply G5.
    + intros w Hds. rewrite Hu. by apply G6.
  - (* client *)
    assert (HU : forall c', get_link s' c' 0 = get_link s c' 0).
    { intros c'. rewrite HL. rewrite decide_False; [done|]. intros [= ? ?]. simplify_eq. }
    assert (HH : get_ents s' 0 = get_ents s 0).
    { rewrite HE. by rewrite decide_False. }
    constructor; try setoid_rewrite HU; rewrite ?HH, ?Hu; assumption.
  - (* connect *)
    assert (HUi : forall c' m, m ∈ get_link s' c' 0 -> m <> EReqInit -> m ∈ get_link s c' 0).
    { intros c' m. rewrite HL. repeat case_decide; simplify_eq; try done.
      intros [?| ->]%elem_of_snoc; done. }
    assert (HUm : forall c' m, m ∈ get_link s c' 0 -> m ∈ get_link s' c' 0).
    { intros c' m Hm. rewrite HL. repeat case_decide; simplify_eq; try done.
      apply elem_of_app. by left. }
    constructor.
    + intros w Hdr Hw. rewrite HE in Hw. destruct (G1 w Hdr Hw) as [? Hd]. split; [done|].
      intros Hds. destruct (Hd Hds) as [c' Hc']. exists c'. by apply HUm.
    + intros w Hdr Hw Hnw. rewrite HE in Hnw.
      destruct (G2 w Hdr Hw Hnw) as [[o Ho]|?]; [left|by right]. exists o. by apply HUm.
    + intros o w Hm%HUi; [|done]. by eapply G3.
    + intros o w Hm Hds. apply HUm. eapply G4; [|done]. by apply HUi.
    + intros c' w Hm%HUi; [|done]. by eapply G5.
    + intros w Hds. rewrite Hu. by apply G6.
  - (* leave *)
    pose proof (conn_ne0 _ _ Hinv Hcc) as Hc0.
    assert (HUi : forall c' m, m ∈ get_link s' c' 0 -> m ∈ get_link s c' 0 /\ c' <> c).
    { intros c' m. rewrite HL. case_decide as Hd; [by intros ?%elem_of_nil|].
      intros Hm. split; [done|]. intros ->. apply Hd. by right. }
    assert (HUm : forall c' m, m ∈ get_link s c' 0 -> c' <> c -> m ∈ get_link s' c' 0).
    { intros c' m Hm Hne. rewrite HL. rewrite decide_False; [done|].
      intros [[= ? ?]|[= ?]]; simplify_eq. }
    assert (Hdrop : forall w, w ∉ DR ++ mjoin (msg_uuid <$> get_link s c 0) ->
              w ∉ DR /\ ~ mentions w (get_link s c 0)).
    { intros w Hn. split.
      - intros Hin. apply Hn. apply elem_of_app. by left.
      - intros Hm. apply Hn. apply elem_of_app. right. by apply (dropped_at_spec s c w). }
    constructor.
    + intros w [Hdr Hnm]%Hdrop Hw. rewrite HE in Hw. destruct (G1 w Hdr Hw) as [? Hd]. split; [done|].
      intros Hds. destruct (Hd Hds) as [c' Hc']. exists c'. apply HUm; [done|].
      intros ->. apply Hnm. by right.
    + intros w [Hdr Hnm]%Hdrop Hw Hnw. rewrite HE in Hnw.
      destruct (G2 w Hdr Hw Hnw) as [[o Ho]|?]; [left|by right]. exists o. apply HUm; [done|].
      intros ->. apply Hnm. by left.
    + intros o w [Hm _]%HUi. by eapply G3.
    + intros o w Hm Hds. destruct (HUi _ _ Hm) as [Hm' Hne]. apply HUm; [|done]. by eapply G4.
    + intros c' w [Hm _]%HUi. by eapply G5.
    + intros w Hds. rewrite Hu. by apply G6.
Qed.

Lemma collect_snoc {A} (f : astate -> event -> list A) s tr e :
  collect f s (tr ++ [e]) =
  collect f s tr ++ match run s tr with Some s1 => f s1 e | None => [] end.
Proof.
  revert s. induction tr as [|e' tr IH]; intros s; simpl.
  - destruct (step s e); by rewrite !app_nil_r.
  - destruct (step s e') as [s1|]; [|by rewrite !app_nil_r]. by rewrite IH, app_assoc.
Qed.

Lemma spawned_snoc tr e : spawned (tr ++ [e]) = spawned tr ++ sp_of e.
Proof. unfold spawned. rewrite omap_app. f_equal. by destruct e. Qed.
Lemma despawned_snoc tr e : despawned (tr ++ [e]) = despawned tr ++ ds_of e.
Proof. unfold despawned. rewrite omap_app. f_equal. by destruct e. Qed.

Lemma ginv_init : ginv [] [] [] init.
Proof.
  constructor.
  - intros u _ Hin. rewrite get_ents_init in Hin. by apply elem_of_nil in Hin.
  - intros u _ Hin. by apply elem_of_nil in Hin.
  - intros o u Hin. rewrite get_link_init in Hin. by apply elem_of_nil in Hin.
  - intros o u Hin. rewrite get_link_init in Hin. by apply elem_of_nil in Hin.
  - intros o u Hin. rewrite get_link_init in Hin. by apply elem_of_nil in Hin.
  - intros u Hin. by apply elem_of_nil in Hin.
Qed.

Lemma ginv_reachable tr s :
  run init tr = Some s -> ginv (spawned tr) (despawned tr) (dropped_uuids tr) s.
Proof.
  revert s. induction tr as [|e tr IH] using rev_ind; intros s Hrun.
  - injection Hrun as <-. apply ginv_init.
  - rewrite run_snoc in Hrun. destruct (run init tr) as [s1|] eqn:Hrun1; [|done].
    rewrite spawned_snoc, despawned_snoc. unfold dropped_uuids. rewrite collect_snoc, Hrun1.
    apply ginv_step; [by eapply sinv_reachable|by apply IH|done].
Qed.

Lemma spec_alive_spec tr u : u ∈ spec_alive tr <-> u ∈ spawned tr /\ u ∉ despawned tr.
Proof. unfold spec_alive. rewrite elem_of_list_filter. tauto. Qed.

(* C01, specification part (holds on EVERY run, also inside the known classes): at quiescence the
   host holds exactly the uuids spawned and not despawned in the trace, for every uuid whose
   announcements were not lost with a departing client. *)
Theorem C01_host_matches_spec tr s :
  run init tr = Some s -> quiescent s ->
  forall u, u ∉ dropped_uuids tr -> (u ∈ get_ents s 0 <-> u ∈ spec_alive tr).
Proof.
  intros Hrun Hq u Hdr. destruct (ginv_reachable _ _ Hrun) as [G1 G2 _ _ _ _].
  rewrite spec_alive_spec. split.
  - intros Hin. destruct (G1 u Hdr Hin) as [Hsp Hd]. split; [done|]. intros Hds.
    destruct (Hd Hds) as [c Hc]. rewrite Hq in Hc. by apply elem_of_nil in Hc.
  - intros [Hsp Hnd]. destruct (decide (u ∈ get_ents s 0)) as [|Hn]; [done|].
    destruct (G2 u Hdr Hsp Hn) as [[o Ho]|?]; [|done]. rewrite Hq in Ho. by apply elem_of_nil in Ho.
Qed.

(* without departures nothing is ever lost *)
Lemma collect_dropped_no_leave s tr :
  (forall c, EvLeave c ∉ tr) -> collect dropped_at s tr = [].
Proof.
  revert s. induction tr as [|e tr IH]; intros s Hno; simpl; [done|].
  assert (Hno' : forall c, EvLeave c ∉ tr).
  { intros c Hin. apply (Hno c). by apply elem_of_list_further. }
  assert (Hcont : match step s e with Some s' => collect dropped_at s' tr | None => [] end = []).
  { destruct (step s e); [by apply IH|done]. }
  destruct e as [p u|p u|a b|c|c]; try exact Hcont.
  exfalso. apply (Hno c). apply elem_of_list_here.
Qed.

Definition C01_statement : Prop :=
  forall tr s, run init tr = Some s ->
    known_S11 tr = false -> quiescent s ->
    agree s /\
    (forall u, u ∉ dropped_uuids tr -> (u ∈ get_ents s 0 <-> u ∈ spec_alive tr)) /\
    (forall c u, c ∈ conn s -> c ∈ synced s -> u ∉ dropped_uuids tr ->
                 (u ∈ get_ents s c <-> u ∈ spec_alive tr)).

(* PROPERTY C01 (entity slice), for any number of clients, every interleaving, joins and departures
   at any point: outside the one remaining known defect class (S11; S18 is repaired by the
   tombstones), a quiescent state is an agreeing state, and what everybody holds is what the trace
   says is alive. *)
Theorem C01_entities_converge : C01_statement.
Proof.
  intros tr s Hrun H11 Hq.
  pose proof (C01_agreement _ _ Hrun H11 Hq) as Hag.
  pose proof (C01_host_matches_spec _ _ Hrun Hq) as Hspec.
  split; [done|]. split; [done|]. intros c u Hc Hs Hdr.
  destruct Hag as [_ Hag]. destruct (Hag c Hc Hs) as [_ Hsame]. rewrite Hsame. by apply Hspec.
Qed.

(* a client that is not in the table and never left holds nothing *)
Lemma fresh_clients_step s e s' :
  sinv s -> (forall c, c <> 0 -> c ∉ conn s -> get_ents s c = []) ->
  (forall c, e <> EvLeave c) -> step s e = Some s' ->
  forall c, c <> 0 -> c ∉ conn s' -> get_ents s' c = [].
Proof.
  intros Hinv Hf Hnl Hstep. step_cases Hinv Hstep; intros c' Hc0' Hnc'; rewrite ?Hc in Hnc'; rewrite HE.
  - case_decide as Hd; [|by apply Hf]. subst c'. by destruct Hon.
  - case_decide as Hd; [|by apply Hf]. subst c'. by destruct Hon.
  - case_decide as Hd; [done|by apply Hf].
  - case_decide as Hd; [done|by apply Hf].
  - by apply Hf.
  - by apply Hf.
  - case_decide as Hd; [|by apply Hf]. subst c'. exfalso. apply Hnc'.
    apply link_nonempty_conn_down; [done|done|by rewrite Hhd].
  - apply Hf; [done|]. intros Hin. apply Hnc'. by apply elem_of_list_further.
  - by destruct (Hnl c).
Qed.

Lemma no_leave_no_S11 s tr s' :
  sinv s -> (forall c, c <> 0 -> c ∉ conn s -> get_ents s c = []) ->
  (forall c, EvLeave c ∉ tr) -> run s tr = Some s' -> scan bad_S11 s tr = false.
Proof.
  revert s. induction tr as [|e tr IH]; intros s Hinv Hf Hno; simpl; [done|].
  assert (Hno' : forall c, EvLeave c ∉ tr).
  { intros c Hin. apply (Hno c). by apply elem_of_list_further. }
  assert (Hne : forall c, e <> EvLeave c).
  { intros c ->. apply (Hno c). apply elem_of_list_here. }
  destruct (step s e) as [s1|] eqn:Hst; [|done]. intros Hrun.
  apply orb_false_iff. split.
  - destruct e as [p u|p u|a b|c|c]; try done. simpl.
    simpl in Hst. destruct (bool_decide (c <> 0)) eqn:Hc0; [|done].
    destruct (bool_decide (c ∉ conn s)) eqn:Hcc; [|done].
    apply bool_decide_eq_true in Hc0, Hcc. by rewrite (Hf c Hc0 Hcc).
  - apply IH; [by eapply sinv_step| |done|done]. by eapply fresh_clients_step.
Qed.

Corollary C01_entities_converge_no_leave tr s :
  run init tr = Some s -> (forall c, EvLeave c ∉ tr) -> quiescent s ->
  agree s /\ forall u, u ∈ get_ents s 0 <-> u ∈ spec_alive tr.
Proof.
  intros Hrun Hno Hq.
  assert (Hdr : dropped_uuids tr = []) by (by apply collect_dropped_no_leave).
  assert (H11 : known_S11 tr = false).
  { eapply no_leave_no_S11; [apply sinv_init| |done|done]. intros c _ _. apply get_ents_init. }
  destruct (C01_entities_converge _ _ Hrun H11 Hq) as (Hag & Hspec & _).
  split; [done|]. intros u. apply Hspec. rewrite Hdr. apply not_elem_of_nil.
Qed.

Print Assumptions C01_entities_converge.
Print Assumptions C01_host_matches_spec.
Print Assumptions C01_entities_converge_no_leave.

(* ================================================================================================
   8. Traffic (C09): messages per operation, hop count <= 2, self-quenching
   ================================================================================================ *)

(* number of messages enqueued by event e in state s *)
Definition enq (s : astate) (e : event) : N :=
  match e with
  | EvSpawn p _ | EvDespawn p _ => if decide (p = 0) then N.of_nat (length (conn s)) else 1
  | EvDeliver a b =>
      match get_link s a b with
      | m :: _ =>
          if decide (b = 0) then
            match m with
            | ESpawn _ | EDelete _ => N.of_nat (length (others s a))
            | EReqInit => N.of_nat (length (get_ents s 0)) + 1
            | EFinInit => 0
            end
          else 0
      | [] => 0
      end
  | EvConnect _ => 1
  | EvLeave _ => 0
  end.

Lemma sent_announce s p m :
  sent (announce s p m) = sent s + if decide (p = 0) then N.of_nat (length (conn s)) else 1.
Proof.
  unfold announce. destruct (decide (p = 0)).
  - by destruct (bcast_fields s (conn s) m) as (_ & _ & _ & _ & ->).
  - done.
Qed.

Lemma step_sent s e s' : step s e = Some s' -> sent s' = sent s + enq s e.
Proof.
  intros Hstep. destruct e as [p u|p u|a b|c|c]; simpl in *.
  - destruct (peer_on s p && bool_decide (u ∉ used s)); [|done]. injection Hstep as <-.
    by rewrite sent_announce.
  - destruct (peer_on s p && bool_decide (u ∈ get_ents s p)); [|done]. injection Hstep as <-.
    by rewrite sent_announce.
  - destruct (get_link s a b) as [|m q]; [done|].
    destruct (decide (b = 0)) as [->|Hb].
    + destruct (decide (a = 0)); [done|]. injection Hstep as <-.
      destruct m as [u|u| |]; simpl.
      * by destruct (bcast_fields (set_ents (set_link s a 0 q) 0 (u :: get_ents (set_link s a 0 q) 0))
                      (others (set_link s a 0 q) a) (ESpawn u)) as (_ & _ & _ & _ & ->).
      * by destruct (bcast_fields (set_ents (set_link s a 0 q) 0 (remove1 u (get_ents (set_link s a 0 q) 0)))
                      (others (set_link s a 0 q) a) (EDelete u)) as (_ & _ & _ & _ & ->).
      * rewrite app_length, fmap_length. simpl.
        change (get_ents (set_link s a 0 q) 0) with (get_ents s 0). lia.
      * lia.
    + destruct (decide (a = 0)); [|done]. injection Hstep as <-.
      destruct m as [u|u| |]; simpl; try lia.
      destruct (bool_decide (u ∈ get_tomb (set_link s a b q) b)); simpl; [lia|].
      destruct (bool_decide (u ∈ get_ents (set_link s a b q) b)); simpl; lia.
  - destruct (bool_decide (c <> 0) && bool_decide (c ∉ conn s)); [|done]. by injection Hstep as <-.
  - destruct (bool_decide (c ∈ conn s)); [|done]. injection Hstep as <-. simpl. lia.
Qed.

Lemma others_length s c :
  NoDup (conn s) -> c ∈ conn s -> S (length (others s c)) = length (conn s).
Proof.
  unfold others. induction (conn s) as [|x l IH]; intros Hnd Hin; [by apply elem_of_nil in Hin|].
  apply NoDup_cons in Hnd as [Hx Hnd]. rewrite filter_cons. destruct (decide (x = c)) as [->|Hne].
  - rewrite decide_False by (intros Hn; by apply Hn). f_equal.
    clear IH Hin Hnd. induction l as [|y l IH]; [done|]. rewrite filter_cons.
    rewrite decide_True by (intros ->; apply Hx, elem_of_list_here). simpl. f_equal.
    apply IH. intros Hin. apply Hx. by apply elem_of_list_further.
  - rewrite decide_True by done. simpl. f_equal. apply IH; [done|].
    apply elem_of_cons in Hin as [->|Hin]; done.
Qed.

Lemma others_length_le s c : (length (others s c) <= length (conn s))%nat.
Proof. unfold others. apply filter_length. Qed.

(* (1) one operation: at most |conn| messages are enqueued by the operation itself *)
Theorem messages_per_operation s e s' :
  sinv s -> is_op e = true -> step s e = Some s' ->
  sent s' <= sent s + N.of_nat (length (conn s)).
Proof.
  intros Hinv Hop Hstep. rewrite (step_sent _ _ _ Hstep).
  assert (Hon : forall p, peer_on s p = true -> p <> 0 -> 1 <= N.of_nat (length (conn s))).
  { intros p [->|Hin]%peer_on_spec Hp; [done|]. destruct (conn s); [by apply elem_of_nil in Hin|].
    simpl. lia. }
  destruct e as [p u|p u|a b|c|c]; try done; simpl in *.
  - destruct (peer_on s p) eqn:Hp; [|done]. clear Hstep. case_decide; [lia|]. pose proof (Hon p Hp) as Hon1. lia.
  - destruct (peer_on s p) eqn:Hp; [|done]. clear Hstep. case_decide; [lia|]. pose proof (Hon p Hp) as Hon1. lia.
Qed.

(* (2) the host repeats an entity message of c to the |conn| - 1 other clients, exactly *)
Theorem relay_cost s c s' m q :
  sinv s -> step s (EvDeliver c 0) = Some s' -> get_link s c 0 = m :: q ->
  (m = EReqInit -> sent s' = sent s + N.of_nat (length (get_ents s 0)) + 1) /\
  (m = EFinInit -> sent s' = sent s) /\
  ((exists u, m = ESpawn u \/ m = EDelete u) -> sent s' + 1 = sent s + N.of_nat (length (conn s))).
Proof.
  intros Hinv Hstep Hhd. rewrite (step_sent _ _ _ Hstep). simpl. rewrite Hhd.
  rewrite ?decide_True by done.
  assert (Hc0 : c <> 0).
  { intros ->. simpl in Hstep. by rewrite Hhd in Hstep. }
  assert (Hcc : c ∈ conn s) by (apply link_nonempty_conn; [done|done|by rewrite Hhd]).
  pose proof (others_length s c (s_nd_conn _ Hinv) Hcc) as Hlen.
  split; [intros ->; lia|]. split; [intros ->; lia|].
  intros [u [-> | ->]]; lia.
Qed.

(* (3) clients never relay: handling a message at a client enqueues nothing anywhere *)
Theorem client_never_relays s c s' :
  sinv s -> step s (EvDeliver 0 c) = Some s' ->
  sent s' = sent s /\
  forall a b, get_link s' a b = if decide ((a, b) = (0, c)) then tail (get_link s 0 c) else get_link s a b.
Proof.
  intros Hinv Hstep. split.
  - rewrite (step_sent _ _ _ Hstep). simpl. destruct (get_link s 0 c) as [|m q]; [lia|].
    destruct (decide (c = 0)) as [->|Hc0]; [|lia].
    simpl in Hstep. rewrite (link00 _ Hinv) in Hstep. done.
  - assert (A : astep s s' (EvDeliver 0 c)) by (apply step_astep; [apply Hinv|done]).
    inversion A as [| |c1 u q Hc0 Hhd HE HL (Hc & Hs & Hu)
                    |c1 u q Hc0 Hhd HE HL (Hc & Hs & Hu)
                    |c1 q Hc0 Hhd HE HL Hc Hs Hu
                    |c1 q Hc0 Hhd HE HL (Hc & Hs & Hu)
                    |c1 m q Hc0 Hhd HE HL (Hc & Hs & Hu)| |]; subst; try done.
    intros a b. rewrite HL, Hhd. done.
Qed.

(* (4) relays are never relayed again: what the host enqueues goes to links (0,_) only, and those
   are consumed by clients, which (3) enqueue nothing.  Hop count <= 2. *)
Theorem host_enqueues_downwards_only s c s' a b :
  sinv s -> step s (EvDeliver c 0) = Some s' -> a <> 0 ->
  get_link s' a b = if decide ((a, b) = (c, 0)) then tail (get_link s c 0) else get_link s a b.
Proof.
  intros Hinv Hstep Ha.
  assert (A : astep s s' (EvDeliver c 0)) by (apply step_astep; [apply Hinv|done]).
  inversion A as [| |c1 u q Hc0 Hhd HE HL (Hc & Hs & Hu)
                  |c1 u q Hc0 Hhd HE HL (Hc & Hs & Hu)
                  |c1 q Hc0 Hhd HE HL Hc Hs Hu
                  |c1 q Hc0 Hhd HE HL (Hc & Hs & Hu)
                  |c1 m q Hc0 Hhd HE HL (Hc & Hs & Hu)| |]; subst; try done;
    rewrite HL, Hhd; simpl; repeat case_decide; simplify_eq; try done; exfalso; tauto.
Qed.

(* (5) self-quenching: in a quiescent state no delivery is enabled; the only enabled events are new
   operations, connections and departures.  Nothing is ever sent spontaneously. *)
Theorem self_quenching s a b : quiescent s -> step s (EvDeliver a b) = None.
Proof. intros Hq. simpl. by rewrite Hq. Qed.

Theorem quiescent_enabled_events s e s' :
  quiescent s -> step s e = Some s' ->
  is_op e = true \/ (exists c, e = EvConnect c) \/ (exists c, e = EvLeave c).
Proof.
  intros Hq Hstep. destruct e as [p u|p u|a b|c|c]; eauto.
  by rewrite self_quenching in Hstep.
Qed.

(* ---- the global bound ---- *)

Fixpoint cnt (q : list emsg) : N :=
  match q with
  | [] => 0
  | m :: q' => (match m with ESpawn _ | EDelete _ => 1 | _ => 0 end) + cnt q'
  end.

Lemma cnt_app q1 q2 : cnt (q1 ++ q2) = cnt q1 + cnt q2.
Proof. induction q1 as [|m q1 IH]; simpl; [done|]. rewrite IH. lia. Qed.

Definition sumf (f : peer -> N) (l : list peer) : N := foldr (fun c acc => f c + acc) 0 l.

Lemma sumf_ext f g l : (forall c, c ∈ l -> f c = g c) -> sumf f l = sumf g l.
Proof.
  induction l as [|x l IH]; intros Hfg; simpl; [done|].
  rewrite (Hfg x) by apply elem_of_list_here. rewrite IH; [done|].
  intros c Hc. apply Hfg. by apply elem_of_list_further.
Qed.

Lemma sumf_upd f g l c :
  NoDup l -> c ∈ l -> (forall x, x ∈ l -> x <> c -> g x = f x) ->
  sumf g l + f c = sumf f l + g c.
Proof.
  induction l as [|x l IH]; intros Hnd Hin Hfg; [by apply elem_of_nil in Hin|].
  apply NoDup_cons in Hnd as [Hx Hnd]. simpl. destruct (decide (x = c)) as [->|Hne].
  - rewrite (sumf_ext g f l); [lia|]. intros y Hy. apply Hfg; [by apply elem_of_list_further|].
    intros ->. done.
  - rewrite (Hfg x) by (done || apply elem_of_list_here).
    apply elem_of_cons in Hin as [->|Hin]; [done|].
    specialize (IH Hnd Hin). rewrite <- !N.add_assoc. rewrite IH; [lia|].
    intros y Hy. apply Hfg. by apply elem_of_list_further.
Qed.

Lemma sumf_filter_le f (P : peer -> Prop) `{forall x, Decision (P x)} l :
  sumf f (filter P l) <= sumf f l.
Proof.
  induction l as [|x l IH]; simpl; [done|]. rewrite filter_cons.
  destruct (decide (P x)); simpl; lia.
Qed.

(* entity messages still travelling towards the host: each will be repeated once *)
Definition pendU (s : astate) : N := sumf (fun c => cnt (get_link s c 0)) (conn s).

Definition charge (s : astate) (e : event) (M : N) : N :=
  M * (if is_op e then 1 else 0) + foldr N.add 0 (snapshot_at s e) + (if is_connect e then 1 else 0).

Lemma traffic_step s e s' M :
  sinv s -> step s e = Some s' -> N.of_nat (length (conn s)) <= M ->
  sent s' + (M - 1) * pendU s' <= sent s + (M - 1) * pendU s + charge s e M.
Proof.
  intros Hinv Hstep HM. rewrite (step_sent _ _ _ Hstep). unfold charge.
  pose proof (s_host _ Hinv) as H0. pose proof (s_nd_conn _ Hinv) as Hnd.
  step_cases Hinv Hstep.
  - (* spawn *) simpl. destruct (decide (p = 0)) as [->|Hp]; rewrite ?decide_True, ?decide_False by done.
    + assert (Hpu : pendU s' = pendU s).
      { unfold pendU. rewrite Hc. apply sumf_ext. intros c Hc'. rewrite HL.
        rewrite decide_True by done. rewrite decide_False; [done|]. intros [-> _]. done. }
      rewrite Hpu. lia.
    + assert (Hpc : p ∈ conn s) by (by destruct Hon).
      assert (Hpu : pendU s' = pendU s + 1).
      { unfold pendU. rewrite Hc.
        pose proof (sumf_upd (fun c => cnt (get_link s c 0)) (fun c => cnt (get_link s' c 0))
                      (conn s) p Hnd Hpc) as Hs'.
        assert (Hside : forall x, x ∈ conn s -> x <> p -> cnt (get_link s' x 0) = cnt (get_link s x 0)).
        { intros x _ Hx. rewrite HL. rewrite decide_False by done. rewrite decide_False; [done|].
          intros [= ->]. done. }
        specialize (Hs' Hside). simpl in Hs'.
        assert (Hgp : cnt (get_link s' p 0) = cnt (get_link s p 0) + 1).
        { rewrite HL. rewrite decide_False by done. rewrite decide_True by done.
          rewrite cnt_app. simpl. lia. }
        lia. }
      rewrite Hpu. assert (1 <= M). { destruct (conn s); [by apply elem_of_nil in Hpc|]. simpl in HM. lia. }
      rewrite N.mul_add_distr_l. lia.
  - (* despawn *) simpl. destruct (decide (p = 0)) as [->|Hp]; rewrite ?decide_True, ?decide_False by done.
    + assert (Hpu : pendU s' = pendU s).
      { unfold pendU. rewrite Hc. apply sumf_ext. intros c Hc'. rewrite HL.
        rewrite decide_True by done. rewrite decide_False; [done|]. intros [-> _]. done. }
      rewrite Hpu. lia.
    + assert (Hpc : p ∈ conn s) by (by destruct Hon).
      assert (Hpu : pendU s' = pendU s + 1).
      { unfold pendU. rewrite Hc.
        pose proof (sumf_upd (fun c => cnt (get_link s c 0)) (fun c => cnt (get_link s' c 0))
                      (conn s) p Hnd Hpc) as Hs'.
        assert (Hside : forall x, x ∈ conn s -> x <> p -> cnt (get_link s' x 0) = cnt (get_link s x 0)).
        { intros x _ Hx. rewrite HL. rewrite decide_False by done. rewrite decide_False; [done|].
          intros [= ->]. done. }
        specialize (Hs' Hside). simpl in Hs'.
        assert (Hgp : cnt (get_link s' p 0) = cnt (get_link s p 0) + 1).
        { rewrite HL. rewrite decide_False by done. rewrite decide_True by done.
          rewrite cnt_app. simpl. lia. }
        lia. }
      rewrite Hpu. assert (1 <= M). { destruct (conn s); [by apply elem_of_nil in Hpc|]. simpl in HM. lia. }
      rewrite N.mul_add_distr_l. lia.
  - (* host receives ESpawn *)
    assert (Hcc : c ∈ conn s) by (apply link_nonempty_conn; [done|done|by rewrite Hhd]).
    pose proof (others_length s c Hnd Hcc) as Hlen.
    assert (Hpu : pendU s' + 1 = pendU s).
    { unfold pendU. rewrite Hc.
      pose proof (sumf_upd (fun c => cnt (get_link s c 0)) (fun c => cnt (get_link s' c 0))
                    (conn s) c Hnd Hcc) as Hs'.
      assert (Hside : forall x, x ∈ conn s -> x <> c -> cnt (get_link s' x 0) = cnt (get_link s x 0)).
      { intros x Hx Hne. rewrite HL. rewrite decide_False by (intros [= ->]; done).
        rewrite decide_False; [done|]. intros [-> _]. done. }
      specialize (Hs' Hside). simpl in Hs'. rewrite Hhd in Hs'. simpl in Hs'.
      assert (Hq : cnt (get_link s' c 0) = cnt q).
      { rewrite HL. by rewrite decide_True. }
      lia. }
    simpl. rewrite Hhd. simpl. rewrite <- Hpu. rewrite N.mul_add_distr_l. lia.
  - (* host receives EDelete *)
    assert (Hcc : c ∈ conn s) by (apply link_nonempty_conn; [done|done|by rewrite Hhd]).
    pose proof (others_length s c Hnd Hcc) as Hlen.
    assert (Hpu : pendU s' + 1 = pendU s).
    { unfold pendU. rewrite Hc.
      pose proof (sumf_upd (fun c => cnt (get_link s c 0)) (fun c => cnt (get_link s' c 0))
                    (conn s) c Hnd Hcc) as Hs'.
      assert (Hside : forall x, x ∈ conn s -> x <> c -> cnt (get_link s' x 0) = cnt (get_link s x 0)).
      { intros x Hx Hne. rewrite HL. rewrite decide_False by (intros [= ->]; done).
        rewrite decide_False; [done|]. intros [-> _]. done. }
      specialize (Hs' Hside). simpl in Hs'. rewrite Hhd in Hs'. simpl in Hs'.
      assert (Hq : cnt (get_link s' c 0) = cnt q).
      { rewrite HL. by rewrite decide_True. }
      lia. }
    simpl. rewrite Hhd. simpl. rewrite <- Hpu. rewrite N.mul_add_distr_l. lia.
  - (* host receives EReqInit *)
    assert (Hpu : pendU s' = pendU s).
    { unfold pendU. rewrite Hc. apply sumf_ext. intros x Hx. rewrite HL.
      destruct (decide (x = c)) as [->|Hne].
      - rewrite decide_True by done. by rewrite Hhd.
      - rewrite decide_False by (intros [= ->]; done). rewrite decide_False; [done|].
        intros [= -> ?]. done. }
    simpl. rewrite Hhd. simpl. rewrite decide_False by done. rewrite Hpu. simpl. lia.
  - (* host receives EFinInit *)
    assert (Hpu : pendU s' = pendU s).
    { unfold pendU. rewrite Hc. apply sumf_ext. intros x Hx. rewrite HL.
      destruct (decide (x = c)) as [->|Hne].
      - rewrite decide_True by done. by rewrite Hhd.
      - rewrite decide_False; [done|]. intros [= ->]. done. }
    simpl. rewrite Hhd. simpl. rewrite Hpu. lia.
  - (* client *)
    assert (Hpu : pendU s' = pendU s).
    { unfold pendU. rewrite Hc. apply sumf_ext. intros x Hx. rewrite HL.
      rewrite decide_False; [done|]. intros [= -> ?]. done. }
    simpl. rewrite Hhd. rewrite decide_False by done. rewrite Hpu.
    destruct m; simpl; lia.
  - (* connect *)
    assert (Huc : get_link s c 0 = []).
    { destruct (get_link s c 0) eqn:Heq; [done|]. exfalso. apply Hnc.
      apply link_nonempty_conn; [done|done|]. by rewrite Heq. }
    assert (Hpu : pendU s' = pendU s).
    { unfold pendU. rewrite Hc. simpl. rewrite HL. rewrite decide_True by done. rewrite Huc. simpl.
      apply sumf_ext. intros x Hx. rewrite HL. rewrite decide_False; [done|]. intros [= ->]. done. }
    simpl. rewrite Hpu. lia.
  - (* leave *)
    assert (Hpu : pendU s' <= pendU s).
    { unfold pendU. rewrite Hc.
      rewrite (sumf_ext _ (fun c => cnt (get_link s c 0))).
      - apply sumf_filter_le.
      - intros x [Hne Hx]%elem_of_list_filter. rewrite HL. rewrite decide_False; [done|].
        intros [[= -> ?]|[= ->]]; [|done]. by apply (conn_ne0 _ _ Hinv Hcc). }
    simpl. apply (N.mul_le_mono_l _ _ (M - 1)) in Hpu. lia.
Qed.

Lemma foldr_add_app l1 l2 : foldr N.add 0 (l1 ++ l2) = foldr N.add 0 l1 + foldr N.add 0 l2.
Proof. induction l1 as [|x l1 IH]; simpl; [done|]. rewrite IH. lia. Qed.

Lemma traffic_run s tr s' M :
  sinv s -> run s tr = Some s' -> max_conn s tr <= M ->
  sent s' + (M - 1) * pendU s' <=
  sent s + (M - 1) * pendU s + M * ops tr + foldr N.add 0 (collect snapshot_at s tr) + connects tr.
Proof.
  revert s. induction tr as [|e tr IH]; intros s Hinv Hrun HM.
  - injection Hrun as <-. unfold ops, connects. simpl. lia.
  - simpl in Hrun, HM. destruct (step s e) as [s1|] eqn:Hstep; [|done].
    assert (HM0 : N.of_nat (length (conn s)) <= M) by lia.
    assert (HM1 : max_conn s1 tr <= M) by lia.
    pose proof (traffic_step _ _ _ _ Hinv Hstep HM0) as Hone.
    pose proof (IH s1 (sinv_step _ _ _ Hinv Hstep) Hrun HM1) as Hrest.
    unfold charge in Hone. unfold ops, connects in *. simpl. rewrite Hstep.
    rewrite foldr_add_app. rewrite N.mul_add_distr_l. lia.
Qed.

(* C09 traffic bound: over a whole run, every operation (EvSpawn / EvDespawn) costs at most M
   messages in total INCLUDING its relays, where M is the largest client table seen during the run;
   the rest of the traffic is the snapshots (|ents 0| + 1 each) and one EReqInit per connection. *)
Theorem traffic_bound tr s :
  run init tr = Some s ->
  sent s <= max_conn init tr * ops tr + snapshots tr + connects tr.
Proof.
  intros Hrun.
  pose proof (traffic_run init tr s (max_conn init tr) sinv_init Hrun (N.le_refl _)) as Hb.
  unfold snapshots. change (sent init) with 0 in Hb. change (pendU init) with 0 in Hb. lia.
Qed.

Example traffic_bound_on_ex_trace :
  (sent <$> run init ex_trace, max_conn init ex_trace, ops ex_trace, snapshots ex_trace, connects ex_trace)
  = (Some 17, 2, 6, 4, 2).
Proof. vm_compute. reflexivity. Qed.

(* non-vacuity of the main theorem: its hypotheses hold on the 3-peer example, and it yields the
   agreement that the example computed *)
Example C01_applies_to_ex_trace :
  exists s, run init ex_trace = Some s /\ quiescent s /\ agree s /\
            forall u, u ∈ get_ents s 0 <-> u ∈ spec_alive ex_trace.
Proof.
  destruct (run init ex_trace) as [s|] eqn:Hrun; [|by vm_compute in Hrun].
  assert (Hq : quiescent s).
  { apply quiescentb_spec. vm_compute in Hrun. injection Hrun as <-. vm_compute. reflexivity. }
  exists s. split; [reflexivity|]. split; [exact Hq|].
  assert (H11 : known_S11 ex_trace = false) by (vm_compute; reflexivity).
  assert (Hdr : dropped_uuids ex_trace = []) by (vm_compute; reflexivity).
  destruct (C01_entities_converge ex_trace s Hrun H11 Hq) as (Hag & Hspec & _).
  split; [exact Hag|]. intros u. apply Hspec. rewrite Hdr. apply not_elem_of_nil.
Qed.

Print Assumptions messages_per_operation.
Print Assumptions relay_cost.
Print Assumptions client_never_relays.
Print Assumptions host_enqueues_downwards_only.
Print Assumptions self_quenching.
Print Assumptions quiescent_enabled_events.
Print Assumptions traffic_bound.

(* ================================================================================================
   9. Joiners: a connected client whose links are empty is synced, and holds the host's set
   ================================================================================================ *)

(* a connected client has had its snapshot enqueued, or its request is still on its way *)
Definition qinv (s : astate) : Prop :=
  forall c, c ∈ conn s -> c ∈ synced s \/ EReqInit ∈ get_link s c 0.

Lemma qinv_init : qinv init.
Proof. intros c Hc. by apply elem_of_nil in Hc. Qed.

Lemma qinv_step s e s' : sinv s -> qinv s -> step s e = Some s' -> qinv s'.
Proof.
  intros Hinv Hq Hstep. pose proof (s_host _ Hinv) as H0.
  step_cases Hinv Hstep; intros c' Hc'; rewrite ?Hc in Hc'.
  - (* spawn *)
    rewrite Hs. destruct (Hq c' Hc') as [?|Hr]; [by left|right].
    rewrite (op_links_up _ _ _ _ HL H0). destruct (decide _); [|done]. apply elem_of_app. by left.
  - (* despawn *)
    rewrite Hs. destruct (Hq c' Hc') as [?|Hr]; [by left|right].
    rewrite (op_links_up _ _ _ _ HL H0). destruct (decide _); [|done]. apply elem_of_app. by left.
  - (* host receives ESpawn *)
    rewrite Hs. destruct (Hq c' Hc') as [?|Hr]; [by left|right].
    rewrite (relay_links_up _ _ _ _ _ HL H0). destruct (decide (c' = c)) as [->|Hne]; [|done].
    rewrite Hhd in Hr. apply elem_of_cons in Hr as [[=]|Hr]. done.
  - (* host receives EDelete *)
    rewrite Hs. destruct (Hq c' Hc') as [?|Hr]; [by left|right].
    rewrite (relay_links_up _ _ _ _ _ HL H0). destruct (decide (c' = c)) as [->|Hne]; [|done].
    rewrite Hhd in Hr. apply elem_of_cons in Hr as [[=]|Hr]. done.
  - (* host receives EReqInit *)
    rewrite Hs. destruct (decide (c' = c)) as [->|Hne]; [left; apply elem_of_list_here|].
    destruct (Hq c' Hc') as [?|Hr]; [left; by apply elem_of_list_further|right].
    rewrite HL. rewrite decide_False by (intros [= ->]; done).
    rewrite decide_False; [done|]. intros [= -> ?]. done.
  - (* host receives EFinInit *)
    rewrite Hs. destruct (Hq c' Hc') as [?|Hr]; [by left|right].
    rewrite HL. destruct (decide (c' = c)) as [->|Hne].
    + rewrite decide_True by done. rewrite Hhd in Hr. apply elem_of_cons in Hr as [[=]|Hr]. done.
    + rewrite decide_False by (intros [= ->]; done). done.
  - (* client *)
    rewrite Hs. destruct (Hq c' Hc') as [?|Hr]; [by left|right].
    rewrite HL. rewrite decide_False; [done|]. intros [= ? ?]. simplify_eq.
  - (* connect *)
    rewrite Hs. destruct (decide (c' = c)) as [->|Hne].
    + right. rewrite HL. rewrite decide_True by done. apply elem_of_app. right. apply elem_of_list_here.
    + apply elem_of_cons in Hc' as [->|Hc']; [done|].
      destruct (Hq c' Hc') as [?|Hr]; [by left|right].
      rewrite HL. rewrite decide_False by (intros [= ->]; done). done.
  - (* leave *)
    apply elem_of_list_filter in Hc' as [Hne Hc'].
    rewrite Hs. destruct (Hq c' Hc') as [?|Hr]; [left; by apply elem_of_list_filter|right].
    rewrite HL. rewrite decide_False; [done|]. intros [[= ? ?]|[= ?]]; simplify_eq.
Qed.

Lemma qinv_reachable tr s : run init tr = Some s -> qinv s.
Proof.
  assert (Hgen : forall s0, sinv s0 -> qinv s0 -> run s0 tr = Some s -> qinv s).
  { induction tr as [|e tr IH]; intros s0 Hinv Hq; simpl.
    - by intros [= <-].
    - destruct (step s0 e) as [s1|] eqn:Hstep; [|done]. intros Hrun.
      apply (IH s1); [by eapply sinv_step|by eapply qinv_step|done]. }
  apply Hgen; [apply sinv_init|apply qinv_init].
Qed.

(* E4: a connected client whose links are empty has had its snapshot enqueued (and delivered) *)
Theorem quiescent_conn_synced tr s :
  run init tr = Some s -> quiescent s -> forall c, c ∈ conn s -> c ∈ synced s.
Proof.
  intros Hrun Hq c Hc. destruct (qinv_reachable _ _ Hrun c Hc) as [?|Hr]; [done|].
  rewrite Hq in Hr. by apply elem_of_nil in Hr.
Qed.

(* hence the "synced" side condition of C01 is redundant at quiescence *)
Corollary C01_every_connected_client tr s :
  run init tr = Some s -> known_S11 tr = false -> quiescent s ->
  forall c, c ∈ conn s ->
    NoDup (get_ents s c) /\ (forall u, u ∈ get_ents s c <-> u ∈ get_ents s 0) /\
    (forall u, u ∉ dropped_uuids tr -> (u ∈ get_ents s c <-> u ∈ spec_alive tr)).
Proof.
  intros Hrun H11 Hq c Hc.
  pose proof (quiescent_conn_synced _ _ Hrun Hq c Hc) as Hs.
  destruct (C01_entities_converge _ _ Hrun H11 Hq) as ([_ Hag] & _ & Hspec).
  destruct (Hag c Hc Hs) as [Hnd Hsame]. split; [done|]. split; [done|].
  intros u Hdr. by apply Hspec.
Qed.

(* E4: a client that connects at ANY moment of the history and is still connected at the end ends
   with exactly the host's entities *)
Corollary joiner_gets_entities tr1 c tr2 s :
  run init (tr1 ++ EvConnect c :: tr2) = Some s ->
  known_S11 (tr1 ++ EvConnect c :: tr2) = false -> quiescent s -> c ∈ conn s ->
  NoDup (get_ents s c) /\ forall u, u ∈ get_ents s c <-> u ∈ get_ents s 0.
Proof.
  intros Hrun H11 Hq Hc.
  destruct (C01_every_connected_client _ _ Hrun H11 Hq c Hc) as (? & ? & _). done.
Qed.

Print Assumptions quiescent_conn_synced.
Print Assumptions C01_every_connected_client.
Print Assumptions joiner_gets_entities.

(* ================================================================================================
   10. Non-vacuity of the repaired statement
   ================================================================================================ *)

Lemma C01_by_run tr :
  match run init tr with Some s => quiescentb s | None => false end = true ->
  known_S11 tr = false ->
  exists s, run init tr = Some s /\ quiescent s /\ agree s /\
            (forall u, u ∉ dropped_uuids tr -> (u ∈ get_ents s 0 <-> u ∈ spec_alive tr)) /\
            forall c, c ∈ conn s -> forall u, u ∈ get_ents s c <-> u ∈ get_ents s 0.
Proof.
  destruct (run init tr) as [s|] eqn:Hrun; [|done]. intros Hq%quiescentb_spec H11.
  exists s. split; [done|]. split; [done|].
  destruct (C01_entities_converge _ _ Hrun H11 Hq) as (Hag & Hspec & _).
  split; [done|]. split; [done|]. intros c Hc.
  by destruct (C01_every_connected_client _ _ Hrun H11 Hq c Hc) as (_ & ? & _).
Qed.

(* the former S18 histories satisfy the hypotheses of C01 (despawn inside the join window) *)
Example C01_applies_to_former_S18 :
  exists s, run init witness_S18 = Some s /\ quiescent s /\ agree s /\
            (forall u, u ∉ dropped_uuids witness_S18 -> (u ∈ get_ents s 0 <-> u ∈ spec_alive witness_S18)) /\
            forall c, c ∈ conn s -> forall u, u ∈ get_ents s c <-> u ∈ get_ents s 0.
Proof. apply C01_by_run; vm_compute; reflexivity. Qed.

Example C01_applies_to_former_S18_pending :
  exists s, run init witness_S18_pending = Some s /\ quiescent s /\ agree s /\
            (forall u, u ∉ dropped_uuids witness_S18_pending ->
                       (u ∈ get_ents s 0 <-> u ∈ spec_alive witness_S18_pending)) /\
            forall c, c ∈ conn s -> forall u, u ∈ get_ents s c <-> u ∈ get_ents s 0.
Proof. apply C01_by_run; vm_compute; reflexivity. Qed.

(* 3 peers: 2 joins late, gets 12 live AND in its snapshot, and despawns its replica of 12 inside
   its join window (after its request was handled, before the snapshot arrives): the duplicate
   ESpawn 12 of the snapshot is ignored, everybody ends with [10]. *)
Definition ex_window_despawn : list event :=
  [EvConnect 1; EvDeliver 1 0; EvDeliver 0 1; EvSpawn 0 10; EvConnect 2; EvSpawn 0 12;
   EvDeliver 0 2; EvDeliver 2 0; EvDespawn 2 12;
   EvDeliver 0 2; EvDeliver 0 2; EvDeliver 0 2; EvDeliver 2 0;
   EvDeliver 0 1; EvDeliver 0 1; EvDeliver 0 1].

Example ex_window_despawn_runs :
  (ex_view <$> run init ex_window_despawn,
   (fun s => (get_link s 0 2, get_tomb s 2)) <$> run init (firstn 9 ex_window_despawn),
   known_S11 ex_window_despawn, spec_alive ex_window_despawn, dropped_uuids ex_window_despawn)
  = (Some ([10], [10], [10], [2; 1], [2; 1], true, true, 11),
     Some ([ESpawn 12; ESpawn 10; EFinInit], [12]), false, [10], []).
Proof. vm_compute. reflexivity. Qed.

Example C01_applies_to_ex_window_despawn :
  exists s, run init ex_window_despawn = Some s /\ quiescent s /\ agree s /\
            (forall u, u ∉ dropped_uuids ex_window_despawn ->
                       (u ∈ get_ents s 0 <-> u ∈ spec_alive ex_window_despawn)) /\
            forall c, c ∈ conn s -> forall u, u ∈ get_ents s c <-> u ∈ get_ents s 0.
Proof. apply C01_by_run; vm_compute; reflexivity. Qed.

(* 3 peers: client 1 spawns 20; client 2 gets the relay and despawns 20 at once, while client 3
   joins: 3's snapshot contains 20, the relayed EDelete 20 follows it on (0,3). *)
Definition ex_relay_despawn : list event :=
  [EvConnect 1; EvConnect 2; EvDeliver 1 0; EvDeliver 2 0; EvDeliver 0 1; EvDeliver 0 2;
   EvSpawn 1 20; EvDeliver 1 0; EvConnect 3; EvDeliver 0 2; EvDeliver 3 0; EvDespawn 2 20;
   EvDeliver 2 0; EvDeliver 0 1; EvDeliver 0 3; EvDeliver 0 3; EvDeliver 0 3].

Example ex_relay_despawn_runs :
  ((fun s => (get_ents s 0, get_ents s 1, get_ents s 2, get_ents s 3, conn s, quiescentb s, agreeb s))
     <$> run init ex_relay_despawn,
   (fun s => get_link s 0 3) <$> run init (firstn 13 ex_relay_despawn),
   known_S11 ex_relay_despawn)
  = (Some ([], [], [], [], [3; 2; 1], true, true), Some [ESpawn 20; EFinInit; EDelete 20], false).
Proof. vm_compute. reflexivity. Qed.

(* joiner_gets_entities on the 3-peer trace of section 0: client 2 connects in the middle *)
Example joiner_applies_to_ex_trace :
  exists s, run init ex_trace = Some s /\
            NoDup (get_ents s 2) /\ forall u, u ∈ get_ents s 2 <-> u ∈ get_ents s 0.
Proof.
  destruct (run init ex_trace) as [s|] eqn:Hrun; [|by vm_compute in Hrun].
  exists s. split; [done|].
  change ex_trace with (firstn 5 ex_trace ++ EvConnect 2 :: skipn 6 ex_trace) in Hrun.
  eapply joiner_gets_entities; [exact Hrun|vm_compute; reflexivity| |].
  - apply quiescentb_spec. vm_compute in Hrun. injection Hrun as <-. vm_compute. reflexivity.
  - vm_compute in Hrun. injection Hrun as <-. vm_compute. set_solver.
Qed.
