(* Proofs about the event-level entity model (Abs/Entities.v): property C01 (convergence, with the
   exact classes of traces for which the real protocol does NOT converge) and the traffic bound
   used by C09. *)
From Coq Require Import NArith List Bool Lia.
From stdpp Require Import gmap list.
From BS Require Import Abs.Entities.
Local Open Scope N_scope.

(* ================================================================================================
   0. Non-vacuity: the model runs (3 peers)
   ================================================================================================ *)

(* host spawn (10), client spawn (11), late join of 2 while traffic is in flight, live spawn (12)
   that reaches 2 twice (live + snapshot), client-2 spawn (13) relayed to 1, delete by client 1
   relayed to 2, delete by the host. *)
Definition ex_trace : list event :=
  [EvConnect 1; EvDeliver 1 0; EvDeliver 0 1;
   EvSpawn 0 10; EvSpawn 1 11; EvConnect 2; EvSpawn 0 12; EvDeliver 2 0; EvSpawn 2 13;
   EvDeliver 1 0; EvDeliver 2 0;
   EvDeliver 0 1; EvDeliver 0 1; EvDeliver 0 1;
   EvDeliver 0 2; EvDeliver 0 2; EvDeliver 0 2; EvDeliver 0 2; EvDeliver 0 2;
   EvDespawn 1 12; EvDeliver 1 0; EvDeliver 0 2;
   EvDespawn 0 10; EvDeliver 0 1; EvDeliver 0 2].

Definition ex_view (s : astate) :=
  (get_ents s 0, get_ents s 1, get_ents s 2, conn s, synced s, quiescentb s, agreeb s, sent s).

Example ex_trace_runs :
  ex_view <$> run init ex_trace = Some ([13; 11], [13; 11], [11; 13], [2; 1], [2; 1], true, true, 17).
Proof. vm_compute. reflexivity. Qed.

Example ex_trace_is_clean :
  (known_S11 ex_trace, known_S18 ex_trace, known_S18_window ex_trace,
   spec_alive ex_trace, dropped_uuids ex_trace) = (false, false, false, [11; 13], []).
Proof. vm_compute. reflexivity. Qed.

(* the late joiner really receives uuid 12 twice *)
Example ex_trace_live_duplicate :
  (fun s => get_link s 0 2) <$> run init (firstn 8 ex_trace)
  = Some [ESpawn 12; ESpawn 12; ESpawn 10; EFinInit].
Proof. vm_compute. reflexivity. Qed.

(* ================================================================================================
   1. Lists
   ================================================================================================ *)

Lemma remove1_subseteq u l v : v ∈ remove1 u l -> v ∈ l.
Proof.
  induction l as [|x l IH]; simpl; [done|].
  destruct (decide (x = u)); set_solver.
Qed.

Lemma remove1_other u l v : v ∈ l -> v <> u -> v ∈ remove1 u l.
Proof.
  induction l as [|x l IH]; simpl; [done|].
  intros Hin Hne. destruct (decide (x = u)); set_solver.
Qed.

Lemma remove1_NoDup u l : NoDup l -> NoDup (remove1 u l).
Proof.
  induction l as [|x l IH]; simpl; [done|].
  intros Hnd. apply NoDup_cons in Hnd as [Hx Hnd].
  destruct (decide (x = u)); [done|].
  apply NoDup_cons. split; [|auto]. intros Hin. apply Hx. eapply remove1_subseteq; eauto.
Qed.

Lemma remove1_not_in u l : NoDup l -> u ∉ remove1 u l.
Proof.
  induction l as [|x l IH]; simpl; [set_solver|].
  intros Hnd. apply NoDup_cons in Hnd as [Hx Hnd].
  destruct (decide (x = u)); [by subst|]. set_solver.
Qed.

Lemma remove1_absent u l : u ∉ l -> remove1 u l = l.
Proof.
  induction l as [|x l IH]; simpl; [done|].
  intros Hn. destruct (decide (x = u)); [set_solver|]. f_equal. apply IH. set_solver.
Qed.

Lemma remove1_length u l : u ∈ l -> S (length (remove1 u l)) = length l.
Proof.
  induction l as [|x l IH]; simpl; [set_solver|].
  intros Hin. destruct (decide (x = u)); [done|]. simpl. f_equal. apply IH. set_solver.
Qed.

Lemma after_msgs_app u b q1 q2 : after_msgs u b (q1 ++ q2) = after_msgs u (after_msgs u b q1) q2.
Proof. apply foldl_app. Qed.

Lemma after_msgs_cons u b m q : after_msgs u b (m :: q) = after_msgs u (after_msg u b m) q.
Proof. reflexivity. Qed.

Lemma after_msgs_snoc u b q m : after_msgs u b (q ++ [m]) = after_msg u (after_msgs u b q) m.
Proof. rewrite after_msgs_app. reflexivity. Qed.

(* no message about u: membership unchanged *)
Lemma after_msgs_no_mention u b q :
  ESpawn u ∉ q -> EDelete u ∉ q -> after_msgs u b q = b.
Proof.
  revert b. induction q as [|m q IH]; intros b Hs Hd; [done|].
  rewrite after_msgs_cons, IH by set_solver.
  destruct m as [v|v| |]; simpl; try done; destruct (decide (v = u)); set_solver.
Qed.

Lemma after_msgs_no_spawn u q : ESpawn u ∉ q -> after_msgs u false q = false.
Proof.
  induction q as [|m q IH] using rev_ind; intros Hs; [done|].
  rewrite after_msgs_snoc, IH by set_solver.
  destruct m as [v|v| |]; simpl; try done; destruct (decide (v = u)); set_solver.
Qed.

Lemma after_msgs_true_inv u b q : after_msgs u b q = true -> b = true \/ ESpawn u ∈ q.
Proof.
  induction q as [|m q IH] using rev_ind; intros Ht; [by left|].
  rewrite after_msgs_snoc in Ht.
  destruct m as [v|v| |]; simpl in Ht;
    try (destruct (IH Ht) as [?|?]; [by left|right; set_solver]);
    destruct (decide (v = u)) as [->|]; try done;
    try (destruct (IH Ht) as [?|?]; [by left|right; set_solver]).
  right. set_solver.
Qed.

(* the snapshot: everything in l ends up present *)
Lemma after_msgs_spawns u b l :
  after_msgs u b (ESpawn <$> l) = b || bool_decide (u ∈ l).
Proof.
  revert b. induction l as [|x l IH]; intros b.
  - rewrite bool_decide_eq_false_2 by set_solver. by rewrite orb_false_r.
  - rewrite fmap_cons, after_msgs_cons, IH. simpl. destruct (decide (x = u)) as [->|Hne].
    + rewrite (bool_decide_eq_true_2 (u ∈ u :: l)) by set_solver. by rewrite orb_true_r.
    + destruct (decide (u ∈ l)).
      * rewrite !bool_decide_eq_true_2 by set_solver. done.
      * rewrite !bool_decide_eq_false_2 by set_solver. done.
Qed.

Lemma after_msgs_snapshot u b l :
  after_msgs u b ((ESpawn <$> l) ++ [EFinInit]) = b || bool_decide (u ∈ l).
Proof. rewrite after_msgs_snoc. simpl. apply after_msgs_spawns. Qed.

(* ================================================================================================
   2. Views of the primitive updates
   ================================================================================================ *)

Section prims.
  Implicit Types (s : astate) (a b c p : peer) (u : uuid) (m : emsg).

  Lemma get_link_send s a b ms a' b' :
    get_link (send s a b ms) a' b' =
      if decide ((a, b) = (a', b')) then get_link s a b ++ ms else get_link s a' b'.
  Proof.
    unfold get_link at 1. simpl. destruct (decide ((a, b) = (a', b'))) as [<-|Hne].
    - by rewrite lookup_insert.
    - by rewrite lookup_insert_ne.
  Qed.

  Lemma get_link_set_link s a b q a' b' :
    get_link (set_link s a b q) a' b' = if decide ((a, b) = (a', b')) then q else get_link s a' b'.
  Proof.
    unfold get_link at 1. simpl. destruct (decide ((a, b) = (a', b'))) as [<-|Hne].
    - by rewrite lookup_insert.
    - by rewrite lookup_insert_ne.
  Qed.

  Lemma get_link_drop s c a b :
    get_link (drop_links s c) a b =
      if decide ((a, b) = (0, c) \/ (a, b) = (c, 0)) then [] else get_link s a b.
  Proof.
    unfold get_link at 1. simpl. destruct (decide _) as [[->| ->]|Hne].
    - by rewrite lookup_delete.
    - destruct (decide ((0, c) = (c, 0))) as [->|?]; [by rewrite lookup_delete|].
      rewrite lookup_delete_ne by done. by rewrite lookup_delete.
    - rewrite !lookup_delete_ne by (intros Heq; apply Hne; rewrite <- Heq; auto). done.
  Qed.

  Lemma get_ents_set_ents s p l p' :
    get_ents (set_ents s p l) p' = if decide (p = p') then l else get_ents s p'.
  Proof.
    unfold get_ents at 1. simpl. destruct (decide (p = p')) as [<-|Hne].
    - by rewrite lookup_insert.
    - by rewrite lookup_insert_ne.
  Qed.

  (* bcast: all other fields *)
  Lemma bcast_fields s cs m :
    ents (bcast s cs m) = ents s /\ conn (bcast s cs m) = conn s /\
    synced (bcast s cs m) = synced s /\ used (bcast s cs m) = used s /\
    sent (bcast s cs m) = sent s + N.of_nat (length cs).
  Proof.
    induction cs as [|c cs IH]; simpl.
    - repeat split; lia.
    - destruct IH as (-> & -> & -> & -> & ->). repeat split; lia.
  Qed.

  Lemma get_ents_bcast s cs m p : get_ents (bcast s cs m) p = get_ents s p.
  Proof. unfold get_ents. by rewrite (proj1 (bcast_fields s cs m)). Qed.

  Lemma get_link_bcast s cs m a b :
    NoDup cs ->
    get_link (bcast s cs m) a b =
      if decide (a = 0 /\ b ∈ cs) then get_link s a b ++ [m] else get_link s a b.
  Proof.
    induction cs as [|c cs IH]; intros Hnd; simpl.
    - destruct (decide _) as [[_ Hin]|]; [set_solver|done].
    - apply NoDup_cons in Hnd as [Hc Hnd]. rewrite get_link_send, IH by done.
      destruct (decide ((0, c) = (a, b))) as [Heq|Hne].
      + injection Heq as <- <-.
        rewrite decide_False by (intros [_ ?]; done).
        rewrite decide_True by (split; [done|set_solver]). done.
      + destruct (decide (a = 0 /\ b ∈ cs)) as [[-> Hin]|Hn].
        * rewrite decide_True by (split; [done|set_solver]). done.
        * rewrite decide_False; [done|]. intros [-> Hin]. apply Hn. split; [done|].
          apply elem_of_cons in Hin as [->|]; [done|done].
  Qed.
End prims.

Lemma others_spec s c x : x ∈ others s c <-> x <> c /\ x ∈ conn s.
Proof. unfold others. apply elem_of_list_filter. Qed.

Lemma others_NoDup s c : NoDup (conn s) -> NoDup (others s c).
Proof. apply NoDup_filter. Qed.
