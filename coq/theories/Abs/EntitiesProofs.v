(* Proofs about the event-level entity model (Abs/Entities.v): property C01 (convergence, with the
   exact classes of traces for which the real protocol does NOT converge) and the traffic bound
   used by C09. *)
From Coq Require Import NArith List Bool Lia.
From stdpp Require Import gmap list.
From BS Require Import Abs.Entities.
Local Open Scope N_scope.

(* ================================================================================================
   0. Non-vacuity: the model runs (3 peers)
   ================================================================================================ *)

(* host spawn (10), client spawn (11), late join of 2 while traffic is in flight, live spawn (12)
   that reaches 2 twice (live + snapshot), client-2 spawn (13) relayed to 1, delete by client 1
   relayed to 2, delete by the host. *)
Definition ex_trace : list event :=
  [EvConnect 1; EvDeliver 1 0; EvDeliver 0 1;
   EvSpawn 0 10; EvSpawn 1 11; EvConnect 2; EvSpawn 0 12; EvDeliver 2 0; EvSpawn 2 13;
   EvDeliver 1 0; EvDeliver 2 0;
   EvDeliver 0 1; EvDeliver 0 1; EvDeliver 0 1;
   EvDeliver 0 2; EvDeliver 0 2; EvDeliver 0 2; EvDeliver 0 2; EvDeliver 0 2;
   EvDespawn 1 12; EvDeliver 1 0; EvDeliver 0 2;
   EvDespawn 0 10; EvDeliver 0 1; EvDeliver 0 2].

Definition ex_view (s : astate) :=
  (get_ents s 0, get_ents s 1, get_ents s 2, conn s, synced s, quiescentb s, agreeb s, sent s).

Example ex_trace_runs :
  ex_view <$> run init ex_trace = Some ([13; 11], [13; 11], [11; 13], [2; 1], [2; 1], true, true, 17).
Proof. vm_compute. reflexivity. Qed.

Example ex_trace_is_clean :
  (known_S11 ex_trace, known_S18 ex_trace, known_S18_window ex_trace,
   spec_alive ex_trace, dropped_uuids ex_trace) = (false, false, false, [11; 13], []).
Proof. vm_compute. reflexivity. Qed.

(* the late joiner really receives uuid 12 twice *)
Example ex_trace_live_duplicate :
  (fun s => get_link s 0 2) <$> run init (firstn 8 ex_trace)
  = Some [ESpawn 12; ESpawn 12; ESpawn 10; EFinInit].
Proof. vm_compute. reflexivity. Qed.

(* ================================================================================================
   1. Lists
   ================================================================================================ *)

Lemma remove1_subseteq u l v : v ∈ remove1 u l -> v ∈ l.
Proof.
  induction l as [|x l IH]; simpl; [done|].
  destruct (decide (x = u)); set_solver.
Qed.

Lemma remove1_other u l v : v ∈ l -> v <> u -> v ∈ remove1 u l.
Proof.
  induction l as [|x l IH]; simpl; [done|].
  intros Hin Hne. destruct (decide (x = u)); set_solver.
Qed.

Lemma remove1_NoDup u l : NoDup l -> NoDup (remove1 u l).
Proof.
  induction l as [|x l IH]; simpl; [done|].
  intros Hnd. apply NoDup_cons in Hnd as [Hx Hnd].
  destruct (decide (x = u)); [done|].
  apply NoDup_cons. split; [|auto]. intros Hin. apply Hx. eapply remove1_subseteq; eauto.
Qed.

Lemma remove1_not_in u l : NoDup l -> u ∉ remove1 u l.
Proof.
  induction l as [|x l IH]; simpl; [set_solver|].
  intros Hnd. apply NoDup_cons in Hnd as [Hx Hnd].
  destruct (decide (x = u)); [by subst|]. set_solver.
Qed.

Lemma remove1_absent u l : u ∉ l -> remove1 u l = l.
Proof.
  induction l as [|x l IH]; simpl; [done|].
  intros Hn. destruct (decide (x = u)); [set_solver|]. f_equal. apply IH. set_solver.
Qed.

Lemma remove1_length u l : u ∈ l -> S (length (remove1 u l)) = length l.
Proof.
  induction l as [|x l IH]; simpl; [set_solver|].
  intros Hin. destruct (decide (x = u)); [done|]. simpl. f_equal. apply IH. set_solver.
Qed.

Lemma after_msgs_app u b q1 q2 : after_msgs u b (q1 ++ q2) = after_msgs u (after_msgs u b q1) q2.
Proof. apply foldl_app. Qed.

Lemma after_msgs_cons u b m q : after_msgs u b (m :: q) = after_msgs u (after_msg u b m) q.
Proof. reflexivity. Qed.

Lemma after_msgs_snoc u b q m : after_msgs u b (q ++ [m]) = after_msg u (after_msgs u b q) m.
Proof. rewrite after_msgs_app. reflexivity. Qed.

(* no message about u: membership unchanged *)
Lemma after_msgs_no_mention u b q :
  ESpawn u ∉ q -> EDelete u ∉ q -> after_msgs u b q = b.
Proof.
  revert b. induction q as [|m q IH]; intros b Hs Hd; [done|].
  rewrite after_msgs_cons, IH by set_solver.
  destruct m as [v|v| |]; simpl; try done; destruct (decide (v = u)); set_solver.
Qed.

Lemma after_msgs_no_spawn u q : ESpawn u ∉ q -> after_msgs u false q = false.
Proof.
  induction q as [|m q IH] using rev_ind; intros Hs; [done|].
  rewrite after_msgs_snoc, IH by set_solver.
  destruct m as [v|v| |]; simpl; try done; destruct (decide (v = u)); set_solver.
Qed.

Lemma after_msgs_true_inv u b q : after_msgs u b q = true -> b = true \/ ESpawn u ∈ q.
Proof.
  induction q as [|m q IH] using rev_ind; intros Ht; [by left|].
  rewrite after_msgs_snoc in Ht.
  destruct m as [v|v| |]; simpl in Ht;
    try (destruct (IH Ht) as [?|?]; [by left|right; set_solver]);
    destruct (decide (v = u)) as [->|]; try done;
    try (destruct (IH Ht) as [?|?]; [by left|right; set_solver]).
  right. set_solver.
Qed.

(* the snapshot: everything in l ends up present *)
Lemma after_msgs_spawns u b l :
  after_msgs u b (ESpawn <$> l) = b || bool_decide (u ∈ l).
Proof.
  revert b. induction l as [|x l IH]; intros b.
  - rewrite bool_decide_eq_false_2 by set_solver. by rewrite orb_false_r.
  - rewrite fmap_cons, after_msgs_cons, IH. simpl. destruct (decide (x = u)) as [->|Hne].
    + rewrite (bool_decide_eq_true_2 (u ∈ u :: l)) by set_solver. by rewrite orb_true_r.
    + destruct (decide (u ∈ l)).
      * rewrite !bool_decide_eq_true_2 by set_solver. done.
      * rewrite !bool_decide_eq_false_2 by set_solver. done.
Qed.

Lemma after_msgs_snapshot u b l :
  after_msgs u b ((ESpawn <$> l) ++ [EFinInit]) = b || bool_decide (u ∈ l).
Proof. rewrite after_msgs_snoc. simpl. apply after_msgs_spawns. Qed.

(* ================================================================================================
   2. Views of the primitive updates
   ================================================================================================ *)

Section prims.
  Implicit Types (s : astate) (a b c p : peer) (u : uuid) (m : emsg).

  Lemma get_link_send s a b ms a' b' :
    get_link (send s a b ms) a' b' =
      if decide ((a, b) = (a', b')) then get_link s a b ++ ms else get_link s a' b'.
  Proof.
    unfold get_link at 1. simpl. destruct (decide ((a, b) = (a', b'))) as [<-|Hne].
    - by rewrite lookup_insert.
    - by rewrite lookup_insert_ne.
  Qed.

  Lemma get_link_set_link s a b q a' b' :
    get_link (set_link s a b q) a' b' = if decide ((a, b) = (a', b')) then q else get_link s a' b'.
  Proof.
    unfold get_link at 1. simpl. destruct (decide ((a, b) = (a', b'))) as [<-|Hne].
    - by rewrite lookup_insert.
    - by rewrite lookup_insert_ne.
  Qed.

  Lemma get_link_drop s c a b :
    get_link (drop_links s c) a b =
      if decide ((a, b) = (0, c) \/ (a, b) = (c, 0)) then [] else get_link s a b.
  Proof.
    unfold get_link at 1. simpl. destruct (decide _) as [[->| ->]|Hne].
    - by rewrite lookup_delete.
    - destruct (decide ((0, c) = (c, 0))) as [->|?]; [by rewrite lookup_delete|].
      rewrite lookup_delete_ne by done. by rewrite lookup_delete.
    - rewrite !lookup_delete_ne by (intros Heq; apply Hne; rewrite <- Heq; auto). done.
  Qed.

  Lemma get_ents_set_ents s p l p' :
    get_ents (set_ents s p l) p' = if decide (p = p') then l else get_ents s p'.
  Proof.
    unfold get_ents at 1. simpl. destruct (decide (p = p')) as [<-|Hne].
    - by rewrite lookup_insert.
    - by rewrite lookup_insert_ne.
  Qed.

  (* bcast: all other fields *)
  Lemma bcast_fields s cs m :
    ents (bcast s cs m) = ents s /\ conn (bcast s cs m) = conn s /\
    synced (bcast s cs m) = synced s /\ used (bcast s cs m) = used s /\
    sent (bcast s cs m) = sent s + N.of_nat (length cs).
  Proof.
    induction cs as [|c cs IH]; simpl.
    - repeat split; lia.
    - destruct IH as (-> & -> & -> & -> & ->). repeat split; lia.
  Qed.

  Lemma get_ents_bcast s cs m p : get_ents (bcast s cs m) p = get_ents s p.
  Proof. unfold get_ents. by rewrite (proj1 (bcast_fields s cs m)). Qed.

  Lemma get_link_bcast s cs m a b :
    NoDup cs ->
    get_link (bcast s cs m) a b =
      if decide (a = 0 /\ b ∈ cs) then get_link s a b ++ [m] else get_link s a b.
  Proof.
    induction cs as [|c cs IH]; intros Hnd; simpl.
    - destruct (decide _) as [[_ Hin]|]; [set_solver|done].
    - apply NoDup_cons in Hnd as [Hc Hnd]. rewrite get_link_send.
      destruct (decide ((0 : peer, c) = (a, b))) as [Heq|Hne].
      + injection Heq as <- <-. rewrite IH by done.
        repeat case_decide; try done; exfalso; set_solver.
      + rewrite IH by done.
        repeat case_decide; try done; exfalso.
        * set_solver.
        * destruct_and!. subst a. set_solver.
  Qed.
End prims.

Lemma others_spec s c x : x ∈ others s c <-> x <> c /\ x ∈ conn s.
Proof. unfold others. rewrite elem_of_list_filter. done. Qed.

Lemma others_NoDup s c : NoDup (conn s) -> NoDup (others s c).
Proof. apply NoDup_filter. Qed.

(* ================================================================================================
   3. The steps, seen through get_ents / get_link / conn / synced / used
   ================================================================================================ *)

Lemma peer_on_spec s p : peer_on s p = true <-> p = 0 \/ p ∈ conn s.
Proof.
  unfold peer_on. rewrite orb_true_iff, !bool_decide_eq_true. done.
Qed.

Lemma get_link_announce s p m a b :
  NoDup (conn s) ->
  get_link (announce s p m) a b =
    if decide (p = 0)
    then (if decide (a = 0 /\ b ∈ conn s) then get_link s a b ++ [m] else get_link s a b)
    else (if decide ((p, 0) = (a, b)) then get_link s a b ++ [m] else get_link s a b).
Proof.
  intros Hnd. unfold announce. destruct (decide (p = 0)) as [->|Hp].
  - by apply get_link_bcast.
  - rewrite get_link_send. repeat case_decide; simplify_eq; done.
Qed.

Lemma announce_fields s p m :
  ents (announce s p m) = ents s /\ conn (announce s p m) = conn s /\
  synced (announce s p m) = synced s /\ used (announce s p m) = used s.
Proof.
  unfold announce. destruct (decide (p = 0)).
  - destruct (bcast_fields s (conn s) m) as (? & ? & ? & ? & _). done.
  - done.
Qed.

(* what a client does to its own list *)
Definition cl_apply (m : emsg) (l : list uuid) : list uuid :=
  match m with
  | ESpawn u => if bool_decide (u ∈ l) then l else u :: l
  | EDelete u => remove1 u l
  | _ => l
  end.

Definition same_tables (s s' : astate) : Prop :=
  conn s' = conn s /\ synced s' = synced s /\ used s' = used s.

(* the message announced by an operation of p *)
Definition op_links (s s' : astate) (p : peer) (m : emsg) : Prop :=
  forall a b, get_link s' a b =
    if decide (p = 0)
    then (if decide (a = 0 /\ b ∈ conn s) then get_link s a b ++ [m] else get_link s a b)
    else (if decide ((p, 0) = (a, b)) then get_link s a b ++ [m] else get_link s a b).

(* the host pops m from (c,0) and repeats it to everybody but c *)
Definition relay_links (s s' : astate) (c : peer) (q : list emsg) (m : emsg) : Prop :=
  forall a b, get_link s' a b =
    if decide ((a, b) = (c, 0)) then q
    else if decide (a = 0 /\ b <> c /\ b ∈ conn s) then get_link s a b ++ [m]
    else get_link s a b.

Definition pop_links (s s' : astate) (a0 b0 : peer) (q : list emsg) : Prop :=
  forall a b, get_link s' a b = if decide ((a, b) = (a0, b0)) then q else get_link s a b.

Definition ents_upd (s s' : astate) (p : peer) (l : list uuid) : Prop :=
  forall p', get_ents s' p' = if decide (p' = p) then l else get_ents s p'.

Inductive astep (s s' : astate) : event -> Prop :=
| AS_spawn p u :
    p = 0 \/ p ∈ conn s -> u ∉ used s ->
    ents_upd s s' p (u :: get_ents s p) -> op_links s s' p (ESpawn u) ->
    conn s' = conn s -> synced s' = synced s -> used s' = u :: used s ->
    astep s s' (EvSpawn p u)
| AS_despawn p u :
    p = 0 \/ p ∈ conn s -> u ∈ get_ents s p ->
    ents_upd s s' p (remove1 u (get_ents s p)) -> op_links s s' p (EDelete u) ->
    same_tables s s' ->
    astep s s' (EvDespawn p u)
| AS_host_spawn c u q :
    c <> 0 -> get_link s c 0 = ESpawn u :: q ->
    ents_upd s s' 0 (u :: get_ents s 0) -> relay_links s s' c q (ESpawn u) ->
    same_tables s s' ->
    astep s s' (EvDeliver c 0)
| AS_host_delete c u q :
    c <> 0 -> get_link s c 0 = EDelete u :: q ->
    ents_upd s s' 0 (remove1 u (get_ents s 0)) -> relay_links s s' c q (EDelete u) ->
    same_tables s s' ->
    astep s s' (EvDeliver c 0)
| AS_host_req c q :
    c <> 0 -> get_link s c 0 = EReqInit :: q ->
    (forall p, get_ents s' p = get_ents s p) ->
    (forall a b, get_link s' a b =
       if decide ((a, b) = (c, 0)) then q
       else if decide ((a, b) = (0, c))
            then get_link s 0 c ++ (ESpawn <$> get_ents s 0) ++ [EFinInit]
            else get_link s a b) ->
    conn s' = conn s -> synced s' = c :: synced s -> used s' = used s ->
    astep s s' (EvDeliver c 0)
| AS_host_fin c q :
    c <> 0 -> get_link s c 0 = EFinInit :: q ->
    (forall p, get_ents s' p = get_ents s p) -> pop_links s s' c 0 q ->
    same_tables s s' ->
    astep s s' (EvDeliver c 0)
| AS_client c m q :
    c <> 0 -> get_link s 0 c = m :: q ->
    ents_upd s s' c (cl_apply m (get_ents s c)) -> pop_links s s' 0 c q ->
    same_tables s s' ->
    astep s s' (EvDeliver 0 c)
| AS_connect c :
    c <> 0 -> c ∉ conn s ->
    (forall p, get_ents s' p = get_ents s p) ->
    (forall a b, get_link s' a b =
       if decide ((a, b) = (c, 0)) then get_link s c 0 ++ [EReqInit] else get_link s a b) ->
    conn s' = c :: conn s -> synced s' = synced s -> used s' = used s ->
    astep s s' (EvConnect c)
| AS_leave c :
    c ∈ conn s ->
    (forall p, get_ents s' p = get_ents s p) ->
    (forall a b, get_link s' a b =
       if decide ((a, b) = (0, c) \/ (a, b) = (c, 0)) then [] else get_link s a b) ->
    conn s' = filter (fun x => x <> c) (conn s) ->
    synced s' = filter (fun x => x <> c) (synced s) -> used s' = used s ->
    astep s s' (EvLeave c).

Lemma step_astep s e s' : NoDup (conn s) -> step s e = Some s' -> astep s s' e.
Proof.
  intros Hnd Hstep. destruct e as [p u|p u|a b|c|c]; simpl in Hstep.
  - destruct (peer_on s p) eqn:Hon; [|done].
    destruct (bool_decide (u ∉ used s)) eqn:Hfresh; [|done].
    simpl in Hstep. injection Hstep as <-.
    apply peer_on_spec in Hon. apply bool_decide_eq_true in Hfresh.
    set (s1 := add_used (set_ents s p (u :: get_ents s p)) u).
    destruct (announce_fields s1 p (ESpawn u)) as (He & Hc & Hs & Hu).
    apply AS_spawn; try done.
    + intros p'. unfold get_ents at 1. rewrite He.
      change (get_ents (set_ents s p (u :: get_ents s p)) p' =
              if decide (p' = p) then u :: get_ents s p else get_ents s p').
      rewrite get_ents_set_ents. repeat case_decide; simplify_eq; done.
    + intros a b. rewrite get_link_announce by done. done.
  - destruct (peer_on s p) eqn:Hon; [|done].
    destruct (bool_decide (u ∈ get_ents s p)) eqn:Hin; [|done].
    simpl in Hstep. injection Hstep as <-.
    apply peer_on_spec in Hon. apply bool_decide_eq_true in Hin.
    set (s1 := set_ents s p (remove1 u (get_ents s p))).
    destruct (announce_fields s1 p (EDelete u)) as (He & Hc & Hs & Hu).
    apply AS_despawn; try done.
    + intros p'. unfold get_ents at 1. rewrite He.
      change (get_ents s1 p' = if decide (p' = p) then remove1 u (get_ents s p) else get_ents s p').
      unfold s1. rewrite get_ents_set_ents. repeat case_decide; simplify_eq; done.
    + intros a b. rewrite get_link_announce by done. done.
  - destruct (get_link s a b) as [|m q] eqn:Hl; [done|].
    destruct (decide (b = 0)) as [->|Hb].
    + destruct (decide (a = 0)) as [->|Ha]; [done|]. injection Hstep as <-.
      set (s1 := set_link s a 0 q).
      assert (Hl1 : forall a' b', get_link s1 a' b' =
                if decide ((a', b') = (a, 0)) then q else get_link s a' b').
      { intros a' b'. unfold s1. rewrite get_link_set_link. repeat case_decide; simplify_eq; done. }
      destruct m as [u|u| |]; simpl.
      * destruct (bcast_fields (set_ents s1 0 (u :: get_ents s1 0)) (others s1 a) (ESpawn u))
          as (He & Hc & Hs & Hu & _).
        eapply AS_host_spawn; try done.
        -- intros p'. rewrite get_ents_bcast, get_ents_set_ents. repeat case_decide; simplify_eq; done.
        -- intros a' b'. rewrite get_link_bcast by (by apply others_NoDup).
           change (get_link (set_ents s1 0 (u :: get_ents s1 0)) a' b') with (get_link s1 a' b').
           rewrite Hl1. destruct (decide ((a', b') = (a, 0))) as [Heq|Hne].
           ++ injection Heq as -> ->. rewrite decide_False; [done|]. intros [? _]. done.
           ++ destruct (decide (a' = 0 /\ b' ∈ others s1 a)) as [[-> Hin]|Hn].
              ** apply others_spec in Hin. rewrite decide_True by done. done.
              ** rewrite decide_False; [done|]. intros (-> & ? & ?). apply Hn. split; [done|].
                 apply others_spec. done.
      * destruct (bcast_fields (set_ents s1 0 (remove1 u (get_ents s1 0))) (others s1 a) (EDelete u))
          as (He & Hc & Hs & Hu & _).
        eapply AS_host_delete; try done.
        -- intros p'. rewrite get_ents_bcast, get_ents_set_ents. repeat case_decide; simplify_eq; done.
        -- intros a' b'. rewrite get_link_bcast by (by apply others_NoDup).
           change (get_link (set_ents s1 0 (remove1 u (get_ents s1 0))) a' b') with (get_link s1 a' b').
           rewrite Hl1. destruct (decide ((a', b') = (a, 0))) as [Heq|Hne].
           ++ injection Heq as -> ->. rewrite decide_False; [done|]. intros [? _]. done.
           ++ destruct (decide (a' = 0 /\ b' ∈ others s1 a)) as [[-> Hin]|Hn].
              ** apply others_spec in Hin. rewrite decide_True by done. done.
              ** rewrite decide_False; [done|]. intros (-> & ? & ?). apply Hn. split; [done|].
                 apply others_spec. done.
      * eapply AS_host_req; try done.
        intros a' b'.
        change (get_link (send s1 0 a ((ESpawn <$> get_ents s1 0) ++ [EFinInit])) a' b' = 
                if decide ((a', b') = (a, 0)) then q
                else if decide ((a', b') = (0, a))
                     then get_link s 0 a ++ (ESpawn <$> get_ents s 0) ++ [EFinInit]
                     else get_link s a' b').
        rewrite get_link_send, !Hl1.
        destruct (decide ((a', b') = (a, 0))) as [Heq|Hne].
        -- injection Heq as -> ->. rewrite decide_False by congruence. done.
        -- rewrite (decide_False (P := (0, a) = (a, 0))) by congruence.
           repeat case_decide; simplify_eq; done.
      * eapply AS_host_fin; try done; intros a' b'; apply Hl1.
    + destruct (decide (a = 0)) as [->|Ha]; [|done]. injection Hstep as <-.
      set (s1 := set_link s 0 b q).
      assert (Hl1 : forall a' b', get_link s1 a' b' =
                if decide ((a', b') = (0, b)) then q else get_link s a' b').
      { intros a' b'. unfold s1. rewrite get_link_set_link. repeat case_decide; simplify_eq; done. }
      eapply AS_client; try done.
      * intros p'. destruct m as [u|u| |]; simpl.
        -- change (get_ents s1 b) with (get_ents s b).
           destruct (bool_decide (u ∈ get_ents s b)).
           ++ change (get_ents s1 p') with (get_ents s p'). repeat case_decide; simplify_eq; done.
           ++ rewrite get_ents_set_ents. repeat case_decide; simplify_eq; done.
        -- rewrite get_ents_set_ents. change (get_ents s1 b) with (get_ents s b).
           repeat case_decide; simplify_eq; done.
        -- change (get_ents s1 p') with (get_ents s p'). repeat case_decide; simplify_eq; done.
        -- change (get_ents s1 p') with (get_ents s p'). repeat case_decide; simplify_eq; done.
      * intros a' b'. destruct m as [u|u| |]; simpl; try apply Hl1. destruct (bool_decide (u ∈ get_ents s1 b)); apply Hl1.
      * destruct m as [u|u| |]; simpl; try done. destruct (bool_decide (u ∈ get_ents s1 b)); done.
  - destruct (bool_decide (c <> 0)) eqn:Hc0; [|done].
    destruct (bool_decide (c ∉ conn s)) eqn:Hcc; [|done].
    simpl in Hstep. injection Hstep as <-.
    apply bool_decide_eq_true in Hc0, Hcc.
    apply AS_connect; try done.
    intros a b. rewrite get_link_send.
    change (get_link (set_conn s (c :: conn s) (synced s))) with (get_link s).
    repeat case_decide; simplify_eq; done.
  - destruct (bool_decide (c ∈ conn s)) eqn:Hcc; [|done].
    injection Hstep as <-. apply bool_decide_eq_true in Hcc.
    apply AS_leave; try done.
    intros a b. rewrite get_link_drop. done.
Qed.

(* ================================================================================================
   4. Structural invariant (holds on EVERY run) and uniqueness
   ================================================================================================ *)

Definition mentions (u : uuid) (q : list emsg) : Prop := ESpawn u ∈ q \/ EDelete u ∈ q.

(* after a message about u, no (second) ESpawn u follows in the same queue *)
Fixpoint okq (q : list emsg) : Prop :=
  match q with
  | [] => True
  | m :: q' => (forall u, mentions u [m] -> ESpawn u ∉ q') /\ okq q'
  end.

(* "u is still travelling to the host from its creator o" *)
Definition pa (s : astate) (o : peer) (u : uuid) : Prop :=
  u ∉ get_ents s 0 /\
  (forall c, ~ mentions u (get_link s 0 c)) /\
  (forall c, c <> o -> u ∉ get_ents s c /\ ~ mentions u (get_link s c 0)) /\
  (u ∈ get_ents s o \/ EDelete u ∈ get_link s o 0).

Record sinv (s : astate) : Prop := {
  s_nd_conn : NoDup (conn s);
  s_host : 0 ∉ conn s;
  s_sub : forall c, c ∈ synced s -> c ∈ conn s;
  s_links : forall a b, get_link s a b <> [] -> (a = 0 /\ b ∈ conn s) \/ (b = 0 /\ a ∈ conn s);
  s_used_e : forall p u, u ∈ get_ents s p -> u ∈ used s;
  s_used_l : forall a b u, mentions u (get_link s a b) -> u ∈ used s;
  s_nd_ents : forall p, NoDup (get_ents s p);
  s_okq : forall c, okq (get_link s c 0);
  s_req : forall c, EReqInit ∉ tail (get_link s c 0);
  s_pa : forall o u, ESpawn u ∈ get_link s o 0 -> pa s o u;
}.

Ltac step_cases Hinv Hstep :=
  let A := fresh "A" in
  pose proof (step_astep _ _ _ (s_nd_conn _ Hinv) Hstep) as A;
  destruct A as
   [p u Hon Hfresh HE HL Hc Hs Hu
   |p u Hon Hin HE HL (Hc & Hs & Hu)
   |c u q Hc0 Hhd HE HL (Hc & Hs & Hu)
   |c u q Hc0 Hhd HE HL (Hc & Hs & Hu)
   |c q Hc0 Hhd HE HL Hc Hs Hu
   |c q Hc0 Hhd HE HL (Hc & Hs & Hu)
   |c m q Hc0 Hhd HE HL (Hc & Hs & Hu)
   |c Hc0 Hnc HE HL Hc Hs Hu
   |c Hcc HE HL Hc Hs Hu].

Lemma link_nonempty_conn s c : sinv s -> c <> 0 -> get_link s c 0 <> [] -> c ∈ conn s.
Proof.
  intros Hinv Hc0 Hne. destruct (s_links _ Hinv _ _ Hne) as [[-> _]|[_ ?]]; done.
Qed.

Lemma link_nonempty_conn_down s c : sinv s -> c <> 0 -> get_link s 0 c <> [] -> c ∈ conn s.
Proof.
  intros Hinv Hc0 Hne. destruct (s_links _ Hinv _ _ Hne) as [[_ ?]|[-> _]]; done.
Qed.

Lemma link00 s : sinv s -> get_link s 0 0 = [].
Proof.
  intros Hinv. destruct (get_link s 0 0) eqn:Heq; [done|].
  assert (Hne : get_link s 0 0 <> []) by (by rewrite Heq).
  destruct (s_links _ Hinv _ _ Hne) as [[_ ?]|[_ ?]]; by destruct (s_host _ Hinv).
Qed.

Lemma sinv_tables s e s' :
  sinv s -> step s e = Some s' ->
  NoDup (conn s') /\ 0 ∉ conn s' /\ (forall c, c ∈ synced s' -> c ∈ conn s').
Proof.
  intros Hinv Hstep. pose proof (s_nd_conn _ Hinv) as Hnd. pose proof (s_host _ Hinv) as H0.
  pose proof (s_sub _ Hinv) as Hsub.
  step_cases Hinv Hstep; rewrite ?Hc, ?Hs; try done.
  - (* req *) split; [done|]. split; [done|]. intros c' [->|Hin]%elem_of_cons; [|auto].
    apply link_nonempty_conn; [done|done|]. by rewrite Hhd.
  - (* connect *) split; [by apply NoDup_cons|]. split; [set_solver|]. set_solver.
  - (* leave *) split; [by apply NoDup_filter|]. split.
    + rewrite elem_of_list_filter. tauto.
    + intros c'. rewrite !elem_of_list_filter. naive_solver.
Qed.

Lemma sinv_links s e s' :
  sinv s -> step s e = Some s' ->
  forall a b, get_link s' a b <> [] -> (a = 0 /\ b ∈ conn s') \/ (b = 0 /\ a ∈ conn s').
Proof.
  intros Hinv Hstep. pose proof (s_links _ Hinv) as Hl.
  step_cases Hinv Hstep; intros a b; rewrite HL, ?Hc.
  - repeat case_decide; simplify_eq; try (by auto). intros _. right. destruct Hon; [done|auto].
  - repeat case_decide; simplify_eq; try (by auto). intros _. right. destruct Hon; [done|auto].
  - repeat case_decide; simplify_eq; try (by auto); try (intros _; left; tauto).
    intros _. right. split; [done|]. apply link_nonempty_conn; [done|done|by rewrite Hhd].
  - repeat case_decide; simplify_eq; try (by auto); try (intros _; left; tauto).
    intros _. right. split; [done|]. apply link_nonempty_conn; [done|done|by rewrite Hhd].
  - assert (c ∈ conn s) by (apply link_nonempty_conn; [done|done|by rewrite Hhd]).
    repeat case_decide; simplify_eq; try (by auto).
  - repeat case_decide; simplify_eq; try (by auto). intros _. apply Hl. by rewrite Hhd.
  - repeat case_decide; simplify_eq; try (by auto). intros _. apply Hl. by rewrite Hhd.
  - repeat case_decide; simplify_eq.
    + intros _. right. set_solver.
    + intros Hne. destruct (Hl _ _ Hne) as [[? ?]|[? ?]]; [left|right]; set_solver.
  - case_decide as Hd; [done|]. intros Hne.
    destruct (Hl _ _ Hne) as [[-> ?]|[-> ?]]; [left|right]; (split; [done|]);
      apply elem_of_list_filter; (split; [|done]); intros ->; apply Hd; auto.
Qed.

Lemma mentions_app u q1 q2 : mentions u (q1 ++ q2) <-> mentions u q1 \/ mentions u q2.
Proof. unfold mentions. set_solver. Qed.
Lemma mentions_cons u m q : mentions u (m :: q) <-> mentions u [m] \/ mentions u q.
Proof. unfold mentions. set_solver. Qed.
Lemma mentions_nil u : ~ mentions u [].
Proof. unfold mentions. set_solver. Qed.
Lemma mentions_spawn u v : mentions u [ESpawn v] <-> u = v.
Proof. unfold mentions. set_solver. Qed.
Lemma mentions_delete u v : mentions u [EDelete v] <-> u = v.
Proof. unfold mentions. set_solver. Qed.
Lemma mentions_req u : ~ mentions u [EReqInit].
Proof. unfold mentions. set_solver. Qed.
Lemma mentions_fin u : ~ mentions u [EFinInit].
Proof. unfold mentions. set_solver. Qed.
Lemma mentions_fmap u l : mentions u (ESpawn <$> l) <-> u ∈ l.
Proof. unfold mentions. set_solver. Qed.
Lemma mentions_snapshot u l : mentions u ((ESpawn <$> l) ++ [EFinInit]) <-> u ∈ l.
Proof. unfold mentions. set_solver. Qed.

Lemma okq_snoc q m :
  okq (q ++ [m]) <-> okq q /\ (forall u, m = ESpawn u -> ~ mentions u q).
Proof.
  induction q as [|x q IH]; simpl.
  - split.
    + intros _. split; [done|]. intros u _. apply mentions_nil.
    + intros _. split; [|done]. intros u _. set_solver.
  - rewrite IH. split.
    + intros (Hx & Hq & Hm). split; [split; [|done]|].
      * intros u Hu. specialize (Hx u Hu). set_solver.
      * intros u -> [Hu|Hu]%mentions_cons; [|by eapply Hm].
        apply (Hx u Hu). set_solver.
    + intros ((Hx & Hq) & Hm). split; [|split; [done|]].
      * intros u Hu [Hin|Hin]%elem_of_app; [by eapply Hx|].
        apply elem_of_list_singleton in Hin. apply (Hm u (eq_sym Hin)). apply mentions_cons. by left.
      * intros u -> Hu. apply (Hm u eq_refl). apply mentions_cons. by right.
Qed.

Lemma sinv_used s e s' :
  sinv s -> step s e = Some s' ->
  (forall p u, u ∈ get_ents s' p -> u ∈ used s') /\
  (forall a b u, mentions u (get_link s' a b) -> u ∈ used s').
Proof.
  intros Hinv Hstep. pose proof (s_used_e _ Hinv) as Hue. pose proof (s_used_l _ Hinv) as Hul.
  step_cases Hinv Hstep; rewrite ?Hu.
  - split.
    + intros p' v. rewrite HE. case_decide; [|set_solver]. intros [->|?]%elem_of_cons; set_solver.
    + intros a b v. rewrite HL. repeat case_decide; rewrite ?mentions_app, ?mentions_spawn;
        intros; destruct_or?; subst; try set_solver; apply elem_of_cons; right; eauto.
  - split.
    + intros p' v. rewrite HE. case_decide; [|eauto]. intros ?%remove1_subseteq. eauto.
    + intros a b v. rewrite HL. repeat case_decide; rewrite ?mentions_app, ?mentions_delete;
        intros; destruct_or?; subst; eauto.
  - assert (u ∈ used s).
    { apply (Hul c 0). rewrite Hhd. apply mentions_cons. left. by apply mentions_spawn. }
    split.
    + intros p' v. rewrite HE. case_decide; [|eauto]. intros [->|?]%elem_of_cons; eauto.
    + intros a b v. rewrite HL. repeat case_decide; rewrite ?mentions_app, ?mentions_spawn;
        intros; destruct_or?; subst; eauto.
      apply (Hul c 0). rewrite Hhd. apply mentions_cons. by right.
  - assert (u ∈ used s).
    { apply (Hul c 0). rewrite Hhd. apply mentions_cons. left. by apply mentions_delete. }
    split.
    + intros p' v. rewrite HE. case_decide; [|eauto]. intros ?%remove1_subseteq. eauto.
    + intros a b v. rewrite HL. repeat case_decide; rewrite ?mentions_app, ?mentions_delete;
        intros; destruct_or?; subst; eauto.
      apply (Hul c 0). rewrite Hhd. apply mentions_cons. by right.
  - split.
    + intros p' v. rewrite HE. eauto.
    + intros a b v. rewrite HL. repeat case_decide; rewrite ?mentions_app, ?mentions_fmap;
        intros; destruct_or?; simplify_eq; eauto; try (exfalso; by eapply mentions_fin).
      apply (Hul c 0). rewrite Hhd. apply mentions_cons. by right.
  - split.
    + intros p' v. rewrite HE. eauto.
    + intros a b v. rewrite HL. repeat case_decide; eauto. intros.
      apply (Hul c 0). rewrite Hhd. apply mentions_cons. by right.
  - split.
    + intros p' v. rewrite HE. case_decide; [|eauto]. subst p'.
      destruct m as [w|w| |]; simpl; eauto.
      * case_bool_decide; [eauto|]. intros [->|?]%elem_of_cons; [|eauto].
        apply (Hul 0 c). rewrite Hhd. apply mentions_cons. left. by apply mentions_spawn.
      * intros ?%remove1_subseteq. eauto.
    + intros a b v. rewrite HL. repeat case_decide; eauto. intros. simplify_eq.
      apply (Hul 0 c). rewrite Hhd. apply mentions_cons. by right.
  - split.
    + intros p' v. rewrite HE. eauto.
    + intros a b v. rewrite HL. repeat case_decide; eauto. rewrite mentions_app.
      intros [?|[]%mentions_req]. eauto.
  - split.
    + intros p' v. rewrite HE. eauto.
    + intros a b v. rewrite HL. repeat case_decide; eauto. intros []%mentions_nil.
Qed.

Lemma okq_tail m q : okq (m :: q) -> okq q.
Proof. simpl. tauto. Qed.

Lemma sinv_okq s e s' :
  sinv s -> step s e = Some s' -> forall c, okq (get_link s' c 0).
Proof.
  intros Hinv Hstep. pose proof (s_okq _ Hinv) as Hok. pose proof (s_host _ Hinv) as H0.
  step_cases Hinv Hstep; intros c'; rewrite HL.
  - repeat case_decide; simplify_eq; try done; try (exfalso; tauto).
    apply okq_snoc. split; [done|]. intros ? [= <-] Hm.
    apply Hfresh. eapply s_used_l; eauto.
  - repeat case_decide; simplify_eq; try done; try (exfalso; tauto).
    apply okq_snoc. split; [done|]. intros ? [=].
  - repeat case_decide; simplify_eq; try done; try (exfalso; tauto).
    eapply okq_tail. rewrite <- Hhd. done.
  - repeat case_decide; simplify_eq; try done; try (exfalso; tauto).
    eapply okq_tail. rewrite <- Hhd. done.
  - repeat case_decide; simplify_eq; try done.
    eapply okq_tail. rewrite <- Hhd. done.
  - repeat case_decide; simplify_eq; try done.
    eapply okq_tail. rewrite <- Hhd. done.
  - repeat case_decide; simplify_eq; try done.
  - repeat case_decide; simplify_eq; try done.
    apply okq_snoc. split; [done|]. intros ? [=].
  - repeat case_decide; simplify_eq; try done.
Qed.

Lemma tail_snoc_not_in {A} (x y : A) (q : list A) : x ∉ tail q -> x <> y -> x ∉ tail (q ++ [y]).
Proof. destruct q; simpl; set_solver. Qed.

Lemma tail_tail_not_in {A} (x : A) (q : list A) : x ∉ tail q -> x ∉ tail (tail q).
Proof. destruct q as [|? [|? ?]]; simpl; set_solver. Qed.

Lemma sinv_req s e s' :
  sinv s -> step s e = Some s' -> forall c, EReqInit ∉ tail (get_link s' c 0).
Proof.
  intros Hinv Hstep. pose proof (s_req _ Hinv) as Hr. pose proof (s_host _ Hinv) as H0.
  assert (Hpop : forall c q m, get_link s c 0 = m :: q -> EReqInit ∉ tail q).
  { intros c q m Heq. specialize (Hr c). apply tail_tail_not_in in Hr. by rewrite Heq in Hr. }
  step_cases Hinv Hstep; intros c'; rewrite HL.
  - repeat case_decide; simplify_eq; try done; try (exfalso; tauto).
    by apply tail_snoc_not_in.
  - repeat case_decide; simplify_eq; try done; try (exfalso; tauto).
    by apply tail_snoc_not_in.
  - repeat case_decide; simplify_eq; try done; try (exfalso; tauto). eauto.
  - repeat case_decide; simplify_eq; try done; try (exfalso; tauto). eauto.
  - repeat case_decide; simplify_eq; try done. eauto.
  - repeat case_decide; simplify_eq; try done. eauto.
  - repeat case_decide; simplify_eq; try done.
  - repeat case_decide; simplify_eq; try done.
    assert (Hemp : get_link s c 0 = []).
    { destruct (get_link s c 0) eqn:Heq; [done|]. exfalso. apply Hnc.
      apply link_nonempty_conn; [done|done|]. by rewrite Heq. }
    rewrite Hemp. simpl. set_solver.
  - repeat case_decide; simplify_eq; try done. simpl. set_solver.
Qed.

Lemma cl_apply_NoDup m l : NoDup l -> NoDup (cl_apply m l).
Proof.
  intros Hnd. destruct m as [u|u| |]; simpl; try done.
  - case_bool_decide; [done|]. by apply NoDup_cons.
  - by apply remove1_NoDup.
Qed.

Lemma sinv_nd_ents s e s' :
  sinv s -> step s e = Some s' -> forall p, NoDup (get_ents s' p).
Proof.
  intros Hinv Hstep. pose proof (s_nd_ents _ Hinv) as Hnd.
  step_cases Hinv Hstep; intros p'; rewrite HE; try done.
  - case_decide; [|done]. apply NoDup_cons. split; [|done].
    intros Hin. apply Hfresh. eapply s_used_e; eauto.
  - case_decide; [|done]. by apply remove1_NoDup.
  - case_decide; [|done]. apply NoDup_cons. split; [|done].
    assert (Hsp : ESpawn u ∈ get_link s c 0) by (rewrite Hhd; set_solver).
    destruct (s_pa _ Hinv _ _ Hsp) as (? & _). done.
  - case_decide; [|done]. by apply remove1_NoDup.
  - case_decide; [|done]. by apply cl_apply_NoDup.
Qed.

Lemma elem_of_snoc {A} (x y : A) (l : list A) : x ∈ l ++ [y] <-> x ∈ l \/ x = y.
Proof. set_solver. Qed.

Lemma cl_apply_elem_inv w m l : w ∈ cl_apply m l -> w ∈ l \/ m = ESpawn w.
Proof.
  destruct m as [u|u| |]; simpl; auto.
  - case_bool_decide; [auto|]. intros [->|?]%elem_of_cons; auto.
  - intros ?%remove1_subseteq. auto.
Qed.

Lemma cl_apply_elem_keep w m l : w ∈ l -> m <> EDelete w -> w ∈ cl_apply m l.
Proof.
  intros Hin Hm. destruct m as [u|u| |]; simpl; auto.
  - case_bool_decide; set_solver.
  - apply remove1_other; [done|]. intros ->. done.
Qed.

Lemma sinv_pa s e s' :
  sinv s -> step s e = Some s' -> forall o w, ESpawn w ∈ get_link s' o 0 -> pa s' o w.
Proof.
  intros Hinv Hstep. pose proof (s_host _ Hinv) as H0. pose proof (link00 _ Hinv) as H00.
  step_cases Hinv Hstep; intros o w Hsp; rewrite HL in Hsp.
  - (* spawn *)
    assert (Hnm : forall a b, ~ mentions u (get_link s a b)).
    { intros a b Hm. apply Hfresh. eapply s_used_l; eauto. }
    assert (Hne : forall p', u ∉ get_ents s p').
    { intros p' Hm. apply Hfresh. eapply s_used_e; eauto. }
    assert (Hcase : (w = u /\ o = p /\ p <> 0) \/ ESpawn w ∈ get_link s o 0).
    { repeat case_decide; simplify_eq; try (by right); try (exfalso; tauto).
      apply elem_of_snoc in Hsp as [?|[= ->]]; [by right|by left]. }
    clear Hsp. destruct Hcase as [(-> & -> & Hp)|Hold].
    + split_and!.
      * rewrite HE. case_decide; [done|]. apply Hne.
      * intros c. rewrite HL. repeat case_decide; simplify_eq. apply Hnm.
      * intros c Hcp. rewrite HE, HL. repeat case_decide; simplify_eq. split; [apply Hne|apply Hnm].
      * left. rewrite HE. case_decide; [|done]. set_solver.
    + assert (Hwu : w <> u).
      { intros ->. apply (Hnm o 0). by left. }
      destruct (s_pa _ Hinv _ _ Hold) as (P1 & P2 & P3 & P4). split_and!.
      * rewrite HE. case_decide; simplify_eq; [|done]. set_solver.
      * intros c. rewrite HL. specialize (P2 c).
        repeat case_decide; simplify_eq; rewrite ?mentions_app, ?mentions_spawn; tauto.
      * intros c Hco. destruct (P3 c Hco) as [P3a P3b]. rewrite HE, HL.
        repeat case_decide; simplify_eq; rewrite ?mentions_app, ?mentions_spawn;
          (split; [set_solver|tauto]).
      * rewrite HE, HL. destruct P4 as [P4|P4]; [left|right];
          repeat case_decide; simplify_eq; set_solver.
  - (* despawn *)
    assert (Hold : ESpawn w ∈ get_link s o 0).
    { repeat case_decide; simplify_eq; try done; apply elem_of_snoc in Hsp as [?|[=]]; done. }
    destruct (s_pa _ Hinv _ _ Hold) as (P1 & P2 & P3 & P4).
    assert (Hwu : w = u -> p = o).
    { intros ->. destruct (decide (p = o)) as [|Hpo]; [done|]. by destruct (P3 p Hpo). }
    clear Hsp. split_and!.
    + rewrite HE. case_decide; [|done]. intros ?%remove1_subseteq; simplify_eq; done.
    + intros c. rewrite HL. specialize (P2 c).
      repeat case_decide; simplify_eq; rewrite ?mentions_app, ?mentions_delete; try tauto.
      intros [?| ->]; [tauto|]. done.
    + intros c Hco. destruct (P3 c Hco) as [P3a P3b]. rewrite HE, HL. split.
      * case_decide; [|done]. intros ?%remove1_subseteq; simplify_eq; done.
      * repeat case_decide; simplify_eq; rewrite ?mentions_app, ?mentions_delete; try tauto.
    + rewrite HE, HL. destruct P4 as [P4|P4].
      * destruct (decide (w = u)) as [->|Hne].
        -- specialize (Hwu eq_refl). subst o. right.
           repeat case_decide; simplify_eq; try set_solver.
        -- left. case_decide; [|done]. subst. by apply remove1_other.
      * right. repeat case_decide; simplify_eq; set_solver.
  - (* host receives ESpawn u from c *)
    assert (Hq : forall m, m ∈ q -> m ∈ get_link s c 0) by (rewrite Hhd; set_solver).
    assert (Hold : ESpawn w ∈ get_link s o 0).
    { repeat case_decide; simplify_eq; try done; try (exfalso; tauto). by apply Hq. }
    assert (Hhead : ESpawn u ∈ get_link s c 0) by (rewrite Hhd; set_solver).
    destruct (s_pa _ Hinv _ _ Hhead) as (Q1 & Q2 & Q3 & Q4).
    destruct (s_pa _ Hinv _ _ Hold) as (P1 & P2 & P3 & P4).
    assert (Hwu : w <> u).
    { intros ->. destruct (decide (o = c)) as [->|Hoc].
      - pose proof (s_okq _ Hinv c) as Hok. rewrite Hhd in Hok. destruct Hok as [Hok _].
        apply (Hok u); [apply mentions_spawn; done|].
        repeat case_decide; simplify_eq; done.
      - destruct (Q3 o Hoc) as [_ Q3b]. apply Q3b. by left. }
    clear Hsp. split_and!.
    + rewrite HE. case_decide; [|done]. set_solver.
    + intros c'. rewrite HL. specialize (P2 c').
      repeat case_decide; simplify_eq; rewrite ?mentions_app, ?mentions_spawn; tauto.
    + intros c' Hco. destruct (P3 c' Hco) as [P3a P3b]. rewrite HE, HL. split.
      * case_decide; simplify_eq; set_solver.
      * repeat case_decide; simplify_eq; try done; try (exfalso; tauto).
        intros [?|?]; apply P3b; [left|right]; by apply Hq.
    + rewrite HE, HL. destruct P4 as [P4|P4].
      * left. case_decide; simplify_eq; set_solver.
      * right. repeat case_decide; simplify_eq; try done; try (exfalso; tauto).
        rewrite Hhd in P4. set_solver.
  - (* host receives EDelete u from c *)
    assert (Hq : forall m, m ∈ q -> m ∈ get_link s c 0) by (rewrite Hhd; set_solver).
    assert (Hold : ESpawn w ∈ get_link s o 0).
    { repeat case_decide; simplify_eq; try done; try (exfalso; tauto). by apply Hq. }
    destruct (s_pa _ Hinv _ _ Hold) as (P1 & P2 & P3 & P4).
    assert (Hwu : w <> u).
    { intros ->. destruct (decide (o = c)) as [->|Hoc].
      - pose proof (s_okq _ Hinv c) as Hok. rewrite Hhd in Hok. destruct Hok as [Hok _].
        apply (Hok u); [apply mentions_delete; done|].
        repeat case_decide; simplify_eq; done.
      - assert (Hco : c <> o) by done. destruct (P3 c Hco) as [_ P3b]. apply P3b. right.
        rewrite Hhd. set_solver. }
    clear Hsp. split_and!.
    + rewrite HE. case_decide; [|done]. intros ?%remove1_subseteq. done.
    + intros c'. rewrite HL. specialize (P2 c').
      repeat case_decide; simplify_eq; rewrite ?mentions_app, ?mentions_delete; tauto.
    + intros c' Hco. destruct (P3 c' Hco) as [P3a P3b]. rewrite HE, HL. split.
      * case_decide; simplify_eq; [|done]. intros ?%remove1_subseteq. done.
      * repeat case_decide; simplify_eq; try done; try (exfalso; tauto).
        intros [?|?]; apply P3b; [left|right]; by apply Hq.
    + rewrite HE, HL. destruct P4 as [P4|P4].
      * left. case_decide; simplify_eq; done.
      * right. repeat case_decide; simplify_eq; try done; try (exfalso; tauto).
        rewrite Hhd in P4. set_solver.
  - (* host receives EReqInit from c *)
    assert (Hq : forall m, m ∈ q -> m ∈ get_link s c 0) by (rewrite Hhd; set_solver).
    assert (Hold : ESpawn w ∈ get_link s o 0).
    { repeat case_decide; simplify_eq; try done. by apply Hq. }
    destruct (s_pa _ Hinv _ _ Hold) as (P1 & P2 & P3 & P4).
    clear Hsp. split_and!.
    + by rewrite HE.
    + intros c'. rewrite HL. specialize (P2 c').
      repeat case_decide; simplify_eq; rewrite ?mentions_app, ?mentions_fmap; try tauto.
      intros [?|[?|[]%mentions_fin]]; tauto.
    + intros c' Hco. destruct (P3 c' Hco) as [P3a P3b]. rewrite HE, HL. split; [done|].
      repeat case_decide; simplify_eq; try done.
      intros [?|?]; apply P3b; [left|right]; by apply Hq.
    + rewrite HE, HL. destruct P4 as [P4|P4]; [by left|].
      right. repeat case_decide; simplify_eq; try done.
      rewrite Hhd in P4. set_solver.
  - (* host receives EFinInit from c *)
    assert (Hq : forall m, m ∈ q -> m ∈ get_link s c 0) by (rewrite Hhd; set_solver).
    assert (Hold : ESpawn w ∈ get_link s o 0).
    { repeat case_decide; simplify_eq; try done. by apply Hq. }
    destruct (s_pa _ Hinv _ _ Hold) as (P1 & P2 & P3 & P4).
    clear Hsp. split_and!.
    + by rewrite HE.
    + intros c'. rewrite HL. specialize (P2 c').
      repeat case_decide; simplify_eq; tauto.
    + intros c' Hco. destruct (P3 c' Hco) as [P3a P3b]. rewrite HE, HL. split; [done|].
      repeat case_decide; simplify_eq; try done.
      intros [?|?]; apply P3b; [left|right]; by apply Hq.
    + rewrite HE, HL. destruct P4 as [P4|P4]; [by left|].
      right. repeat case_decide; simplify_eq; try done.
      rewrite Hhd in P4. set_solver.
  - (* client c handles m *)
    assert (Hq : forall m', m' ∈ q -> m' ∈ get_link s 0 c) by (rewrite Hhd; set_solver).
    assert (Hold : ESpawn w ∈ get_link s o 0).
    { repeat case_decide; simplify_eq; done. }
    destruct (s_pa _ Hinv _ _ Hold) as (P1 & P2 & P3 & P4).
    assert (Hm1 : m <> ESpawn w).
    { intros ->. apply (P2 c). left. rewrite Hhd. set_solver. }
    assert (Hm2 : m <> EDelete w).
    { intros ->. apply (P2 c). right. rewrite Hhd. set_solver. }
    clear Hsp. split_and!.
    + rewrite HE. case_decide; simplify_eq. done.
    + intros c'. rewrite HL. specialize (P2 c').
      repeat case_decide; simplify_eq; try tauto.
      intros [?|?]; apply P2; [left|right]; by apply Hq.
    + intros c' Hco. destruct (P3 c' Hco) as [P3a P3b]. rewrite HE, HL. split.
      * case_decide; simplify_eq; [|done]. intros [?|?]%cl_apply_elem_inv; done.
      * repeat case_decide; simplify_eq; done.
    + rewrite HE, HL. destruct P4 as [P4|P4].
      * left. case_decide; simplify_eq; [|done]. by apply cl_apply_elem_keep.
      * right. repeat case_decide; simplify_eq; done.
  - (* connect *)
    assert (Hold : ESpawn w ∈ get_link s o 0).
    { repeat case_decide; simplify_eq; try done. apply elem_of_snoc in Hsp as [?|[=]]; done. }
    destruct (s_pa _ Hinv _ _ Hold) as (P1 & P2 & P3 & P4).
    clear Hsp. split_and!.
    + by rewrite HE.
    + intros c'. rewrite HL. specialize (P2 c').
      repeat case_decide; simplify_eq; tauto.
    + intros c' Hco. destruct (P3 c' Hco) as [P3a P3b]. rewrite HE, HL. split; [done|].
      repeat case_decide; simplify_eq; try done. rewrite mentions_app.
      intros [?|[]%mentions_req]. done.
    + rewrite HE, HL. destruct P4 as [P4|P4]; [by left|].
      right. repeat case_decide; simplify_eq; set_solver.
  - (* leave *)
    assert (Hold : ESpawn w ∈ get_link s o 0 /\ ~ ((o, 0) = (0, c) \/ (o, 0) = (c, 0))).
    { case_decide; [set_solver|done]. }
    destruct Hold as [Hold Hnd].
    destruct (s_pa _ Hinv _ _ Hold) as (P1 & P2 & P3 & P4).
    clear Hsp. split_and!.
    + by rewrite HE.
    + intros c'. rewrite HL. specialize (P2 c').
      repeat case_decide; simplify_eq; [apply mentions_nil|tauto].
    + intros c' Hco. destruct (P3 c' Hco) as [P3a P3b]. rewrite HE, HL. split; [done|].
      repeat case_decide; simplify_eq; [apply mentions_nil|done].
    + rewrite HE, HL. destruct P4 as [P4|P4]; [by left|].
      right. case_decide; [tauto|done].
Qed.

Lemma sinv_step s e s' : sinv s -> step s e = Some s' -> sinv s'.
Proof.
  intros Hinv Hstep.
  destruct (sinv_tables _ _ _ Hinv Hstep) as (? & ? & ?).
  destruct (sinv_used _ _ _ Hinv Hstep) as (? & ?).
  constructor; try done.
  - by eapply sinv_links.
  - by eapply sinv_nd_ents.
  - by eapply sinv_okq.
  - by eapply sinv_req.
  - by eapply sinv_pa.
Qed.

Lemma get_link_init a b : get_link init a b = [].
Proof. reflexivity. Qed.
Lemma get_ents_init p : get_ents init p = [].
Proof. reflexivity. Qed.

Lemma sinv_init : sinv init.
Proof.
  constructor; simpl.
  - apply NoDup_nil_2.
  - set_solver.
  - set_solver.
  - intros a b Hne. by rewrite get_link_init in Hne.
  - intros p u Hin. rewrite get_ents_init in Hin. set_solver.
  - intros a b u Hm. rewrite get_link_init in Hm. by apply mentions_nil in Hm.
  - intros p. rewrite get_ents_init. apply NoDup_nil_2.
  - intros c. by rewrite get_link_init.
  - intros c. rewrite get_link_init. simpl. set_solver.
  - intros o u Hsp. rewrite get_link_init in Hsp. set_solver.
Qed.

Lemma run_app s tr1 tr2 :
  run s (tr1 ++ tr2) = match run s tr1 with Some s1 => run s1 tr2 | None => None end.
Proof.
  revert s. induction tr1 as [|e tr1 IH]; intros s; simpl; [done|].
  destruct (step s e); [apply IH|done].
Qed.

Lemma run_snoc s tr e :
  run s (tr ++ [e]) = match run s tr with Some s1 => step s1 e | None => None end.
Proof.
  rewrite run_app. destruct (run s tr) as [s1|]; [|done]. simpl. by destruct (step s1 e).
Qed.

Lemma sinv_run s tr s' : sinv s -> run s tr = Some s' -> sinv s'.
Proof.
  revert s. induction tr as [|e tr IH]; intros s Hinv; simpl.
  - by intros [= <-].
  - destruct (step s e) as [s1|] eqn:Hstep; [|done]. intros Hrun.
    eapply IH; [|done]. by eapply sinv_step.
Qed.

Lemma sinv_reachable tr s : run init tr = Some s -> sinv s.
Proof. apply sinv_run, sinv_init. Qed.

(* UNIQUENESS: on every run, whatever the interleaving / joins / departures (and also inside the
   known defect classes), no peer ever holds two entities with the same uuid.  In particular the
   host, which has no duplicate guard, never receives an ESpawn for a uuid it already holds. *)
Theorem entities_unique tr s :
  run init tr = Some s -> forall p, NoDup (get_ents s p).
Proof. intros Hrun. apply s_nd_ents. by eapply sinv_reachable. Qed.

Theorem host_never_receives_duplicate tr s c u q :
  run init tr = Some s -> get_link s c 0 = ESpawn u :: q ->
  u ∉ get_ents s 0 /\ ESpawn u ∉ q.
Proof.
  intros Hrun Hhd. pose proof (sinv_reachable _ _ Hrun) as Hinv.
  assert (Hsp : ESpawn u ∈ get_link s c 0) by (rewrite Hhd; set_solver).
  destruct (s_pa _ Hinv _ _ Hsp) as (? & _). split; [done|].
  pose proof (s_okq _ Hinv c) as Hok. rewrite Hhd in Hok. destruct Hok as [Hok _].
  apply Hok. by apply mentions_spawn.
Qed.

Print Assumptions entities_unique.
Print Assumptions host_never_receives_duplicate.

(* ================================================================================================
   5. Boolean observers; the unrestricted C01 statement is FALSE: refutations
   ================================================================================================ *)

Lemma same_set_spec l1 l2 : same_set l1 l2 = true <-> (forall u, u ∈ l1 <-> u ∈ l2).
Proof.
  unfold same_set. rewrite andb_true_iff, !forallb_forall.
  setoid_rewrite bool_decide_eq_true. setoid_rewrite <- elem_of_list_In. naive_solver.
Qed.

Lemma agreeb_spec s : agreeb s = true <-> agree s.
Proof.
  unfold agreeb, agree. rewrite andb_true_iff, bool_decide_eq_true, forallb_forall.
  setoid_rewrite <- elem_of_list_In. split.
  - intros [Hnd Hall]. split; [done|]. intros c Hc Hs. specialize (Hall c Hc).
    rewrite bool_decide_eq_true_2 in Hall by done.
    apply andb_true_iff in Hall as [Hn Hsame]. apply bool_decide_eq_true in Hn.
    split; [done|]. by apply same_set_spec.
  - intros [Hnd Hall]. split; [done|]. intros c Hc. case_bool_decide as Hs; [|done].
    destruct (Hall c Hc Hs) as [Hn Hsame].
    apply andb_true_iff. split; [by apply bool_decide_eq_true|by apply same_set_spec].
Qed.

Lemma quiescentb_spec s : quiescentb s = true <-> quiescent s.
Proof.
  unfold quiescentb, quiescent. rewrite forallb_forall. setoid_rewrite <- elem_of_list_In. split.
  - intros Hall a b. unfold get_link. destruct (links s !! (a, b)) as [q|] eqn:Hl; [|done].
    apply elem_of_map_to_list in Hl. specialize (Hall _ Hl). simpl in *. by destruct q.
  - intros Hq [[a b] q] Hin. apply elem_of_map_to_list in Hin. specialize (Hq a b).
    unfold get_link in Hq. rewrite Hin in Hq. simpl in *. by subst q.
Qed.

Definition C01_unrestricted_statement : Prop :=
  forall tr s, run init tr = Some s -> quiescent s -> agree s.

Lemma refute_by_run tr :
  match run init tr with Some s => quiescentb s && negb (agreeb s) | None => false end = true ->
  exists tr s, run init tr = Some s /\ quiescent s /\ ~ agree s.
Proof.
  destruct (run init tr) as [s|] eqn:Hrun; [|done]. intros [Hq Ha]%andb_true_iff.
  exists tr, s. split; [done|]. split; [by apply quiescentb_spec|].
  rewrite <- agreeb_spec. by destruct (agreeb s).
Qed.

(* S11: client 1 leaves, the host despawns 10 meanwhile, 1 comes back: the snapshot carries no
   deletion, 1 keeps its stale replica. *)
Definition witness_S11 : list event :=
  [EvConnect 1; EvDeliver 1 0; EvDeliver 0 1; EvSpawn 0 10; EvDeliver 0 1;
   EvLeave 1; EvDespawn 0 10; EvConnect 1; EvDeliver 1 0; EvDeliver 0 1].

(* S11, second face: 1 leaves while its own ESpawn 10 is still in flight; the announcement is
   dropped and never repeated after the reconnection: the host never learns about 10. *)
Definition witness_S11_lost_spawn : list event :=
  [EvConnect 1; EvDeliver 1 0; EvDeliver 0 1; EvSpawn 1 10;
   EvLeave 1; EvConnect 1; EvDeliver 1 0; EvDeliver 0 1].

(* S18: 1 gets 10 live while its InitialSync request is still travelling; the snapshot then
   contains 10 again; 1 despawns its replica before the snapshot arrives: the duplicate ESpawn
   re-creates 10 on client 1 only (the host deletes 10 and does not echo the EDelete to 1). *)
Definition witness_S18 : list event :=
  [EvConnect 1; EvSpawn 0 10; EvDeliver 0 1; EvDeliver 1 0; EvDespawn 1 10;
   EvDeliver 0 1; EvDeliver 0 1; EvDeliver 1 0].

(* S18, second face: the despawn happens BEFORE the host builds the snapshot (which will contain
   10 because the EDelete is behind the EReqInit on the same link). *)
Definition witness_S18_pending : list event :=
  [EvConnect 1; EvSpawn 0 10; EvDeliver 0 1; EvDespawn 1 10; EvDeliver 1 0; EvDeliver 1 0;
   EvDeliver 0 1; EvDeliver 0 1].

Theorem C01_refuted_S11 : exists tr s, run init tr = Some s /\ quiescent s /\ ~ agree s.
Proof. apply (refute_by_run witness_S11). vm_compute. reflexivity. Qed.

Theorem C01_refuted_S11_lost_spawn : exists tr s, run init tr = Some s /\ quiescent s /\ ~ agree s.
Proof. apply (refute_by_run witness_S11_lost_spawn). vm_compute. reflexivity. Qed.

Theorem C01_refuted_S18 : exists tr s, run init tr = Some s /\ quiescent s /\ ~ agree s.
Proof. apply (refute_by_run witness_S18). vm_compute. reflexivity. Qed.

Theorem C01_refuted_S18_pending : exists tr s, run init tr = Some s /\ quiescent s /\ ~ agree s.
Proof. apply (refute_by_run witness_S18_pending). vm_compute. reflexivity. Qed.

Corollary C01_unrestricted_is_false : ~ C01_unrestricted_statement.
Proof.
  intros Hall. destruct C01_refuted_S18 as (tr & s & Hrun & Hq & Hn). apply Hn. by eapply Hall.
Qed.

(* each witness lies in exactly its own class; what the stale client holds *)
Example witnesses_classified :
  (known_S11 witness_S11, known_S18 witness_S11,
   known_S11 witness_S11_lost_spawn, known_S18 witness_S11_lost_spawn,
   known_S11 witness_S18, known_S18 witness_S18, known_S18_window witness_S18,
   known_S11 witness_S18_pending, known_S18 witness_S18_pending)
  = (true, false, true, false, false, true, true, false, true).
Proof. vm_compute. reflexivity. Qed.

Example witnesses_final_views :
  ((fun s => (get_ents s 0, get_ents s 1)) <$> run init witness_S11,
   (fun s => (get_ents s 0, get_ents s 1)) <$> run init witness_S11_lost_spawn,
   (fun s => (get_ents s 0, get_ents s 1)) <$> run init witness_S18,
   (fun s => (get_ents s 0, get_ents s 1)) <$> run init witness_S18_pending)
  = (Some ([], [10]), Some ([], [10]), Some ([], [10]), Some ([], [10])).
Proof. vm_compute. reflexivity. Qed.

(* Suspected but NOT defects.  (a) Two peers despawn the same uuid concurrently: idempotent. *)
Example concurrent_despawn_converges :
  (fun s => (get_ents s 0, get_ents s 1, get_ents s 2, quiescentb s, agreeb s)) <$>
  run init [EvConnect 1; EvConnect 2; EvDeliver 1 0; EvDeliver 2 0; EvDeliver 0 1; EvDeliver 0 2;
            EvSpawn 0 10; EvSpawn 0 11; EvDeliver 0 1; EvDeliver 0 1; EvDeliver 0 2; EvDeliver 0 2;
            EvDespawn 1 10; EvDespawn 2 10; EvDespawn 0 10;
            EvDeliver 1 0; EvDeliver 2 0; EvDeliver 0 1; EvDeliver 0 1; EvDeliver 0 2; EvDeliver 0 2]
  = Some ([11], [11], [11], true, true).
Proof. vm_compute. reflexivity. Qed.

(* (b) The host cannot despawn an entity whose ESpawn from a client is still in flight: it does
   not hold it yet (and no other client does). *)
Theorem no_despawn_of_inflight_spawn tr s c u p :
  run init tr = Some s -> ESpawn u ∈ get_link s c 0 -> p <> c -> step s (EvDespawn p u) = None.
Proof.
  intros Hrun Hsp Hpc. pose proof (sinv_reachable _ _ Hrun) as Hinv.
  destruct (s_pa _ Hinv _ _ Hsp) as (_ & _ & P3 & _). destruct (P3 p Hpc) as [Hnot _].
  simpl. rewrite (bool_decide_eq_false_2 _ Hnot). by rewrite andb_false_r.
Qed.

Print Assumptions C01_refuted_S11.
Print Assumptions C01_refuted_S18.
Print Assumptions C01_refuted_S18_pending.
