(* Proofs about the event-level parent-link replication model (Parents.v): C05, its part of C09,
   the S19 ping-pong, joins, stability. *)
From Coq Require Import NArith List Lia.
From stdpp Require Import gmap list.
From BS Require Import Abs.Parents.

(* ================================================================================================
   Part 0: channel operations, sums over the connected clients
   ================================================================================================ *)

Lemma plget_insert L a b l a' b' :
  plget (<[(a, b) := l]> L) a' b' = if decide ((a', b') = (a, b)) then l else plget L a' b'.
Proof.
  unfold plget. destruct (decide ((a', b') = (a, b))) as [Heq|Hne].
  - rewrite Heq, lookup_insert. reflexivity.
  - rewrite lookup_insert_ne by congruence. reflexivity.
Qed.

Lemma plget_push_link L a b vs a' b' :
  plget (ppush_link L a b vs) a' b' = if decide ((a', b') = (a, b)) then plget L a b ++ vs else plget L a' b'.
Proof. unfold ppush_link. apply plget_insert. Qed.

Lemma plget_send_to L src dsts vs a b :
  NoDup dsts ->
  plget (psend_to L src dsts vs) a b = if decide (a = src /\ b ∈ dsts) then plget L a b ++ vs else plget L a b.
Proof.
  intros Hnd. induction Hnd as [|d dsts Hnotin Hnd IH]; simpl.
  - destruct (decide (a = src /\ b ∈ [])) as [[_ Hin]|_]; [inversion Hin|reflexivity].
  - rewrite plget_push_link. destruct (decide ((a, b) = (src, d))) as [Heq|Hne].
    + inversion Heq; subst. rewrite IH.
      destruct (decide (src = src /\ d ∈ dsts)) as [[_ Hin]|_]; [contradiction|].
      destruct (decide (src = src /\ d ∈ d :: dsts)) as [_|Hn]; [reflexivity|].
      exfalso. apply Hn. split; [reflexivity|left].
    + rewrite IH. destruct (decide (a = src /\ b ∈ dsts)) as [[-> Hin]|Hn].
      * destruct (decide (src = src /\ b ∈ d :: dsts)) as [_|Hn2]; [reflexivity|].
        exfalso. apply Hn2. split; [reflexivity|right; exact Hin].
      * destruct (decide (a = src /\ b ∈ d :: dsts)) as [[-> Hin]|_]; [|reflexivity].
        exfalso. apply elem_of_cons in Hin as [->|Hin]; [apply Hne; reflexivity|apply Hn; auto].
Qed.

Lemma NoDup_pothers src l : NoDup l -> NoDup (pothers src l).
Proof. intros H. unfold pothers. apply NoDup_filter. exact H. Qed.

Lemma elem_of_pothers src l c : c ∈ pothers src l <-> c <> src /\ c ∈ l.
Proof. unfold pothers. rewrite elem_of_list_filter. reflexivity. Qed.

Lemma pothers_notin src l : src ∉ l -> pothers src l = l.
Proof.
  induction l as [|a l IH]; intros Hn; [reflexivity|].
  unfold pothers in *. rewrite filter_cons. destruct (decide (a <> src)) as [_|Heq].
  - f_equal. apply IH. intros H. apply Hn. right. exact H.
  - exfalso. apply Hn. destruct (decide (a = src)) as [->|Hne]; [left|contradiction].
Qed.

Lemma length_pothers src l : NoDup l -> src ∈ l -> length (pothers src l) + 1 = length l.
Proof.
  intros Hnd. induction Hnd as [|a l Hnotin Hnd IH]; intros Hin; [inversion Hin|].
  unfold pothers in *. rewrite filter_cons. destruct (decide (a <> src)) as [Hne|Heq].
  - simpl. apply elem_of_cons in Hin as [->|Hin]; [contradiction|]. rewrite <- (IH Hin). lia.
  - assert (a = src) as -> by (destruct (decide (a = src)); [assumption|contradiction]).
    fold (pothers src l). rewrite pothers_notin by exact Hnotin. simpl. lia.
Qed.

Lemma sumf_ext f g l : (forall c, c ∈ l -> g c = f c) -> sumf g l = sumf f l.
Proof.
  induction l as [|a l IH]; intros H; [reflexivity|]. simpl.
  rewrite (H a) by left. rewrite IH; [reflexivity|]. intros c Hc. apply H. right. exact Hc.
Qed.

Lemma sumf_one f g l c :
  NoDup l -> c ∈ l -> (forall c', c' ∈ l -> c' <> c -> g c' = f c') ->
  sumf g l + f c = sumf f l + g c.
Proof.
  intros Hnd. induction Hnd as [|a l Hnotin Hnd IH]; intros Hin H; [inversion Hin|]. simpl.
  apply elem_of_cons in Hin as [->|Hin].
  - rewrite (sumf_ext f g l); [lia|]. intros c' Hc'. apply H; [right; exact Hc'|]. intros ->. contradiction.
  - rewrite (H a); [|left|intros ->; contradiction].
    specialize (IH Hin). lapply IH; [lia|]. intros c' Hc' Hne. apply H; [right; exact Hc'|exact Hne].
Qed.

Lemma sumf_all1 f g l : (forall c, c ∈ l -> g c = f c + 1) -> sumf g l = sumf f l + length l.
Proof.
  induction l as [|a l IH]; intros H; [reflexivity|]. simpl.
  rewrite (H a) by left. rewrite IH; [lia|]. intros c Hc. apply H. right. exact Hc.
Qed.

Lemma sumf_others f g l c :
  NoDup l -> c ∈ l -> g c = f c -> (forall c', c' ∈ l -> c' <> c -> g c' = f c' + 1) ->
  sumf g l + 1 = sumf f l + length l.
Proof.
  intros Hnd. induction Hnd as [|a l Hnotin Hnd IH]; intros Hin Hc H; [inversion Hin|]. simpl.
  apply elem_of_cons in Hin as [->|Hin].
  - rewrite Hc. rewrite (sumf_all1 f g l); [lia|].
    intros c' Hc'. apply H; [right; exact Hc'|]. intros ->. contradiction.
  - rewrite (H a); [|left|intros ->; contradiction].
    specialize (IH Hin Hc). lapply IH; [lia|]. intros c' Hc' Hne. apply H; [right; exact Hc'|exact Hne].
Qed.

Lemma sumf_zero f l : sumf f l = 0 <-> forall c, c ∈ l -> f c = 0.
Proof.
  induction l as [|a l IH]; simpl.
  - split; [intros _ c Hc; inversion Hc|reflexivity].
  - split.
    + intros H c Hc. apply elem_of_cons in Hc as [->|Hc]; [lia|]. apply IH; [lia|exact Hc].
    + intros H. rewrite (H a) by left. simpl. apply IH. intros c Hc. apply H. right. exact Hc.
Qed.

Lemma sumf_bound f l k : (forall c, c ∈ l -> f c <= k) -> sumf f l <= k * length l.
Proof.
  induction l as [|a l IH]; intros H; simpl; [lia|].
  specialize (H a (elem_of_list_here a l)) as Ha.
  lapply IH; [nia|]. intros c Hc. apply H. right. exact Hc.
Qed.

Lemma sumf_app f l1 l2 : sumf f (l1 ++ l2) = sumf f l1 + sumf f l2.
Proof. induction l1 as [|a l1 IH]; simpl; [reflexivity|]. rewrite IH. lia. Qed.

(* ================================================================================================
   Part 1: getters after one step
   ================================================================================================ *)

Lemma pget_insert m c l p x : pget (PState (<[p := x]> m) c l) p = x.
Proof. unfold pget. simpl. rewrite lookup_insert. reflexivity. Qed.
Lemma pget_insert_ne m c l p q x :
  q <> p -> pget (PState (<[p := x]> m) c l) q = pget (PState m c l) q.
Proof. intros H. unfold pget. simpl. rewrite lookup_insert_ne by congruence. reflexivity. Qed.
Lemma pget_exists s p x : pp s !! p = Some x -> pget s p = x.
Proof. intros H. unfold pget. rewrite H. reflexivity. Qed.
Lemma pget_none s p : pp s !! p = None -> pget s p = ppeer0.
Proof. intros H. unfold pget. rewrite H. reflexivity. Qed.

Lemma is_Some_insert_same (m : gmap peer ppeer) p x y q :
  m !! p = Some y -> is_Some (<[p := x]> m !! q) <-> is_Some (m !! q).
Proof.
  intros Hy. destruct (decide (q = p)) as [->|Hne].
  - rewrite lookup_insert, Hy. split; eauto.
  - rewrite lookup_insert_ne by congruence. reflexivity.
Qed.

(* PSet *)
Lemma step_set s p u s' :
  pstep s (PSet p u) = Some s' ->
  is_Some (pp s !! p) /\ pconn s' = pconn s /\ plinks s' = plinks s /\
  (forall q, is_Some (pp s' !! q) <-> is_Some (pp s !! q)) /\
  (forall q, ppar s' q = if decide (q = p) then Some u else ppar s q) /\
  (forall q, pchg s' q = if decide (q = p) then true else pchg s q).
Proof.
  simpl. destruct (pp s !! p) as [x|] eqn:Hx; [|discriminate]. intros [= <-].
  split; [eauto|]. split; [reflexivity|]. split; [reflexivity|]. split; [|split].
  - intros q. simpl. eapply is_Some_insert_same. exact Hx.
  - intros q. unfold ppar, pset_peer. destruct (decide (q = p)) as [->|Hne].
    + rewrite pget_insert. reflexivity.
    + destruct s; simpl. rewrite pget_insert_ne by exact Hne. reflexivity.
  - intros q. unfold pchg, pset_peer. destruct (decide (q = p)) as [->|Hne].
    + rewrite pget_insert. reflexivity.
    + destruct s; simpl. rewrite pget_insert_ne by exact Hne. reflexivity.
Qed.

Lemma NoDup_pdsts s p : NoDup (pconn s) -> NoDup (pdsts s p).
Proof. intros H. unfold pdsts. destruct (p =? host)%N; [exact H|apply NoDup_singleton]. Qed.

(* PAnnounce *)
Lemma step_announce s p s' :
  NoDup (pconn s) ->
  pstep s (PAnnounce p) = Some s' ->
  is_Some (pp s !! p) /\
  ((pchg s p = false /\ s' = s) \/
   (pchg s p = true /\ pconn s' = pconn s /\
    (forall q, is_Some (pp s' !! q) <-> is_Some (pp s !! q)) /\
    (forall q, ppar s' q = ppar s q) /\
    (forall q, pchg s' q = if decide (q = p) then false else pchg s q) /\
    (forall a b, plink s' a b =
       if decide (a = p /\ b ∈ pdsts s p) then plink s a b ++ plink_msg (ppar s p) else plink s a b))).
Proof.
  intros Hnd. simpl. destruct (pp s !! p) as [x|] eqn:Hx; [|discriminate].
  intros Hstep. split; [eauto|]. revert Hstep. unfold pchg, ppar. rewrite (pget_exists _ _ _ Hx).
  destruct (changed x) eqn:Hc; intros [= <-]; [right|left; auto].
  split; [reflexivity|]. split; [reflexivity|]. split; [|split; [|split]].
  - intros q. simpl. eapply is_Some_insert_same. exact Hx.
  - intros q. destruct (decide (q = p)) as [->|Hne].
    + rewrite pget_insert, (pget_exists _ _ _ Hx). reflexivity.
    + destruct s; simpl. rewrite pget_insert_ne by exact Hne. reflexivity.
  - intros q. destruct (decide (q = p)) as [->|Hne].
    + rewrite pget_insert. reflexivity.
    + destruct s; simpl. rewrite pget_insert_ne by exact Hne. reflexivity.
  - intros a b. unfold plink. simpl. apply plget_send_to. apply NoDup_pdsts. exact Hnd.
Qed.

(* PDeliver *)
Lemma step_deliver s src dst s' :
  NoDup (pconn s) ->
  pstep s (PDeliver src dst) = Some s' ->
  exists u rest, plink s src dst = u :: rest /\ is_Some (pp s !! dst) /\ pconn s' = pconn s /\
  (forall q, is_Some (pp s' !! q) <-> is_Some (pp s !! q)) /\
  (forall q, ppar s' q = if decide (q = dst) then Some u else ppar s q) /\
  (forall q, pchg s' q = if decide (q = dst) then pchg s dst || negb (bool_decide (ppar s dst = Some u))
                         else pchg s q) /\
  (forall a b, plink s' a b =
      (if decide ((a, b) = (src, dst)) then rest else plink s a b) ++
      (if decide (dst = host /\ a = host /\ b ∈ pothers src (pconn s)) then [u] else [])).
Proof.
  intros Hnd. simpl. destruct (plink s src dst) as [|u rest] eqn:Hl; [discriminate|].
  destruct (pp s !! dst) as [x|] eqn:Hx; [|discriminate].
  intros [= <-]. exists u, rest.
  split; [reflexivity|]. split; [eauto|]. split; [reflexivity|].
  unfold ppar, pchg. rewrite (pget_exists _ _ _ Hx).
  split; [|split; [|split]].
  - intros q. simpl. destruct (bool_decide (par x = Some u)); [reflexivity|].
    eapply is_Some_insert_same. exact Hx.
  - intros q. destruct (bool_decide (par x = Some u)) eqn:Hc.
    + apply bool_decide_eq_true in Hc. destruct (decide (q = dst)) as [->|Hne]; [|reflexivity].
      unfold pget. simpl. rewrite Hx. exact Hc.
    + destruct (decide (q = dst)) as [->|Hne].
      * rewrite pget_insert. reflexivity.
      * destruct s; simpl. rewrite pget_insert_ne by exact Hne. reflexivity.
  - intros q. destruct (bool_decide (par x = Some u)) eqn:Hc.
    + destruct (decide (q = dst)) as [->|Hne]; [|reflexivity].
      unfold pget. simpl. rewrite Hx. simpl. rewrite orb_false_r. reflexivity.
    + destruct (decide (q = dst)) as [->|Hne].
      * rewrite pget_insert. simpl. rewrite orb_true_r. reflexivity.
      * destruct s; simpl. rewrite pget_insert_ne by exact Hne. reflexivity.
  - intros a b. unfold plink. simpl. destruct (dst =? host)%N eqn:Hd.
    + apply N.eqb_eq in Hd. subst dst. rewrite plget_send_to by (apply NoDup_pothers; exact Hnd).
      rewrite plget_insert.
      destruct (decide (a = host /\ b ∈ pothers src (pconn s))) as [[-> Hin]|Hn].
      * destruct (decide (host = host /\ host = host /\ b ∈ pothers src (pconn s))) as [_|Hn]; [reflexivity|tauto].
      * destruct (decide (host = host /\ a = host /\ b ∈ pothers src (pconn s))) as [[_ Hy]|_]; [tauto|].
        rewrite app_nil_r. reflexivity.
    + apply N.eqb_neq in Hd. rewrite plget_insert.
      destruct (decide (dst = host /\ _)) as [[Hy _]|_]; [contradiction|]. rewrite app_nil_r. reflexivity.
Qed.

(* PJoin *)
Lemma step_join s c s' :
  pstep s (PJoin c) = Some s' ->
  c <> host /\ c ∉ pconn s /\ pp s !! c = None /\ pconn s' = pconn s ++ [c] /\
  (forall q, is_Some (pp s' !! q) <-> is_Some (pp s !! q) \/ q = c) /\
  (forall q, pget s' q = pget s q) /\
  (forall a b, plink s' a b =
     if decide ((a, b) = (host, c)) then plink s host c ++ plink_msg (ppar s host) else plink s a b).
Proof.
  simpl. destruct (c =? host)%N eqn:Hc; [discriminate|]. apply N.eqb_neq in Hc.
  destruct (bool_decide (c ∈ pconn s)) eqn:Hin; [discriminate|]. apply bool_decide_eq_false in Hin.
  unfold ppexists. destruct (bool_decide (is_Some (pp s !! c))) eqn:Hex; [discriminate|].
  apply bool_decide_eq_false in Hex. simpl. intros [= <-].
  assert (Hnone : pp s !! c = None) by (destruct (pp s !! c); [exfalso; eauto|reflexivity]).
  split; [exact Hc|]. split; [exact Hin|]. split; [exact Hnone|]. split; [reflexivity|]. split; [|split].
  - intros q. simpl. destruct (decide (q = c)) as [->|Hne].
    + rewrite lookup_insert. split; eauto.
    + rewrite lookup_insert_ne by congruence. split; [auto|]. intros [H|H]; [exact H|contradiction].
  - intros q. unfold pget. simpl. destruct (decide (q = c)) as [->|Hne].
    + rewrite lookup_insert, Hnone. reflexivity.
    + rewrite lookup_insert_ne by congruence. reflexivity.
  - intros a b. unfold plink. simpl. apply plget_push_link.
Qed.

Lemma join_par s c s' q : pstep s (PJoin c) = Some s' -> ppar s' q = ppar s q.
Proof. intros H. apply step_join in H as (_ & _ & _ & _ & _ & Hg & _). unfold ppar. rewrite Hg. reflexivity. Qed.
Lemma join_chg s c s' q : pstep s (PJoin c) = Some s' -> pchg s' q = pchg s q.
Proof. intros H. apply step_join in H as (_ & _ & _ & _ & _ & Hg & _). unfold pchg. rewrite Hg. reflexivity. Qed.

(* ================================================================================================
   Part 2: well-formedness, the initial state, quiescence through getters
   ================================================================================================ *)

Lemma wf_nodup s : pwf s -> NoDup (pconn s).
Proof. intros (H & _). exact H. Qed.
Lemma wf_host s : pwf s -> host ∉ pconn s.
Proof. intros (_ & H & _). exact H. Qed.
Lemma wf_exists s p : pwf s -> is_Some (pp s !! p) <-> ppeers s p.
Proof. intros (_ & _ & H & _). apply H. Qed.
Lemma wf_link s a b : pwf s -> plink s a b <> [] -> (a = host /\ b ∈ pconn s) \/ (b = host /\ a ∈ pconn s).
Proof. intros (_ & _ & _ & H). apply H. Qed.
Lemma wf_conn_ne s c : pwf s -> c ∈ pconn s -> c <> host.
Proof. intros Hwf Hc ->. eapply wf_host; eauto. Qed.
Lemma wf_link_nil s a b : pwf s -> a ∉ pconn s -> b ∉ pconn s -> plink s a b = [].
Proof.
  intros Hwf Ha Hb. destruct (plink s a b) eqn:Hl; [reflexivity|].
  destruct (wf_link s a b Hwf) as [[_ H]|[_ H]]; [rewrite Hl; discriminate|contradiction|contradiction].
Qed.
Lemma wf_absent s p : pwf s -> ~ ppeers s p -> ppar s p = None /\ pchg s p = false.
Proof.
  intros Hwf Hp. unfold ppar, pchg. rewrite pget_none; [auto|].
  destruct (pp s !! p) eqn:Hx; [|reflexivity]. exfalso. apply Hp. apply (wf_exists s p Hwf). eauto.
Qed.

Lemma step_wf s e s' : pwf s -> pstep s e = Some s' -> pwf s'.
Proof.
  intros Hwf Hstep. pose proof Hwf as (Hnd & Hh & Hex & Hlk). destruct e as [p u|p|src dst|c].
  - apply step_set in Hstep as (_ & Hc & Hl & He & _).
    unfold pwf, ppeers, plink. rewrite Hc, Hl. repeat split; try assumption.
    + intros H. apply Hex, He, H. + intros H. apply He, Hex, H.
  - apply step_announce in Hstep as (Hp & [(_ & ->)|(_ & Hc & He & _ & _ & Hl)]); [exact Hwf| |exact Hnd].
    unfold pwf, ppeers. rewrite Hc. repeat split; try assumption.
    + intros H. apply Hex, He, H. + intros H. apply He, Hex, H.
    + intros a b. rewrite Hl. destruct (decide (a = p /\ b ∈ pdsts s p)) as [[-> Hin]|_]; [|apply Hlk].
      intros _. unfold pdsts in Hin. destruct (p =? host)%N eqn:Hph.
      * apply N.eqb_eq in Hph. left. auto.
      * apply N.eqb_neq in Hph. apply elem_of_list_singleton in Hin. right. split; [exact Hin|].
        apply Hex in Hp as [Hp|Hp]; [contradiction|exact Hp].
  - apply step_deliver in Hstep as (u & rest & Hl0 & Hd & Hc & He & _ & _ & Hl); [|exact Hnd].
    unfold pwf, ppeers. rewrite Hc. repeat split; try assumption.
    + intros H. apply Hex, He, H. + intros H. apply He, Hex, H.
    + intros a b. rewrite Hl.
      destruct (decide (dst = host /\ a = host /\ b ∈ pothers src (pconn s))) as [(_ & -> & Hin)|_].
      * intros _. left. split; [reflexivity|]. apply elem_of_pothers in Hin. tauto.
      * rewrite app_nil_r. destruct (decide ((a, b) = (src, dst))) as [Heq|_]; [|apply Hlk].
        inversion Heq; subst. intros _. apply Hlk. rewrite Hl0. discriminate.
  - apply step_join in Hstep as (Hc0 & Hcn & Hnone & Hc & He & _ & Hl).
    unfold pwf, ppeers. rewrite Hc. split; [|split; [|split]].
    + apply NoDup_app. split; [exact Hnd|]. split; [|apply NoDup_singleton].
      intros x Hx Hx'. apply elem_of_list_singleton in Hx'. subst. contradiction.
    + intros H. apply elem_of_app in H as [H|H]; [contradiction|]. apply elem_of_list_singleton in H. congruence.
    + intros q. rewrite He, Hex. unfold ppeers. rewrite elem_of_app, elem_of_list_singleton. tauto.
    + intros a b. rewrite Hl. rewrite elem_of_app, elem_of_app, !elem_of_list_singleton.
      destruct (decide ((a, b) = (host, c))) as [Heq|_].
      * inversion Heq; subst. intros _. left. auto.
      * intros H. apply Hlk in H. tauto.
Qed.

Lemma run_wf s tr s' : pwf s -> prun s tr = Some s' -> pwf s'.
Proof.
  revert s. induction tr as [|e tr IH]; intros s Hwf Hrun; simpl in Hrun.
  - congruence.
  - destruct (pstep s e) as [s1|] eqn:Hs; [|discriminate]. eapply IH; [|exact Hrun]. eapply step_wf; eauto.
Qed.

Lemma prun_app s tr1 tr2 :
  prun s (tr1 ++ tr2) = match prun s tr1 with Some s1 => prun s1 tr2 | None => None end.
Proof. revert s. induction tr1 as [|e tr1 IH]; intros s; simpl; [reflexivity|]. destruct (pstep s e); [apply IH|reflexivity]. Qed.

Lemma elem_of_pclients n p : p ∈ pclients n <-> (1 <= p <= N.of_nat n)%N.
Proof.
  unfold pclients. rewrite elem_of_list_fmap. split.
  - intros (k & -> & Hk). apply elem_of_seq in Hk. lia.
  - intros H. exists (N.to_nat p). split; [lia|]. apply elem_of_seq. lia.
Qed.

Lemma NoDup_pclients n : NoDup (pclients n).
Proof. unfold pclients. apply NoDup_fmap_2; [intros a b; lia|apply NoDup_seq]. Qed.

Lemma length_pclients n : length (pclients n) = n.
Proof. unfold pclients. rewrite fmap_length, seq_length. reflexivity. Qed.

Lemma pinit_pget n p : pget (pinit n) p = ppeer0.
Proof.
  unfold pget. destruct (pp (pinit n) !! p) as [x|] eqn:Hx; [|reflexivity]. simpl.
  unfold pinit in Hx; cbn [pp] in Hx. apply elem_of_list_to_map_2 in Hx.
  apply elem_of_list_fmap in Hx as (q & Heq & _). congruence.
Qed.

Lemma pinit_link n a b : plink (pinit n) a b = [].
Proof. reflexivity. Qed.

Lemma pinit_wf n : pwf (pinit n).
Proof.
  unfold pwf. split; [apply NoDup_pclients|]. split; [|split].
  - simpl. rewrite elem_of_pclients. unfold host. lia.
  - intros p. unfold pinit, ppeers; cbn [pp pconn].
    set (l := (fun p => (p, ppeer0)) <$> host :: pclients n).
    assert (Hfst : l.*1 = host :: pclients n).
    { unfold l. rewrite <- list_fmap_compose. simpl. f_equal. induction (pclients n); simpl; congruence. }
    split.
    + intros [x Hx]. apply elem_of_list_to_map_2 in Hx. apply (elem_of_list_fmap_1 fst) in Hx.
      rewrite Hfst in Hx. simpl in Hx. apply elem_of_cons in Hx. exact Hx.
    + intros Hp. destruct (list_to_map l !! p) eqn:Hx; [eauto|].
      apply not_elem_of_list_to_map in Hx. rewrite Hfst in Hx. exfalso. apply Hx. apply elem_of_cons. exact Hp.
  - intros a b H. exfalso. apply H. reflexivity.
Qed.

Lemma pinit_quiescent n : pquiescent (pinit n).
Proof.
  split; [apply map_Forall_empty|].
  intros p x Hx. unfold pinit in Hx; cbn [pp] in Hx. apply elem_of_list_to_map_2 in Hx.
  apply elem_of_list_fmap in Hx as (q & Heq & _). inversion Heq; subst. reflexivity.
Qed.

Lemma quiescent_link s a b : pquiescent s -> plink s a b = [].
Proof.
  intros [H _]. unfold plink, plget. destruct (plinks s !! (a, b)) as [l|] eqn:Hl; [|reflexivity]. simpl. eapply H. exact Hl.
Qed.
Lemma quiescent_chg s p : pquiescent s -> pchg s p = false.
Proof.
  intros [_ H]. unfold pchg, pget. destruct (pp s !! p) as [x|] eqn:Hx; simpl; [|reflexivity].
  apply (H p x Hx).
Qed.
Lemma quiescent_intro s : (forall a b, plink s a b = []) -> (forall p, pchg s p = false) -> pquiescent s.
Proof.
  intros Hl Hp. split.
  - intros [a b] l Hx. specialize (Hl a b). unfold plink, plget in Hl. rewrite Hx in Hl. exact Hl.
  - intros p x Hx. specialize (Hp p). unfold pchg, pget in Hp. rewrite Hx in Hp. exact Hp.
Qed.
Lemma quiescent_iff s : pquiescent s <-> (forall a b, plink s a b = []) /\ (forall p, pchg s p = false).
Proof.
  split; [|intros [H1 H2]; apply quiescent_intro; assumption].
  intros H. split; [intros a b; apply quiescent_link; exact H|intros p; apply quiescent_chg; exact H].
Qed.

(* a state that is not quiescent has a raised flag or a message in flight *)
Lemma not_quiescent s :
  ~ pquiescent s -> (exists p, pchg s p = true) \/ (exists a b, plink s a b <> []).
Proof.
  intros Hn. destruct (decide (map_Forall (fun _ l => l = []) (plinks s))) as [Hl|Hl].
  - left. destruct (decide (map_Forall (fun (_ : peer) x => changed x = false) (pp s))) as [Hp|Hp].
    + exfalso. apply Hn. split; assumption.
    + apply map_not_Forall in Hp; [|apply _]. destruct Hp as (p & x & Hx & Hc). exists p.
      unfold pchg. rewrite (pget_exists _ _ _ Hx). destruct (changed x); [reflexivity|contradiction].
  - right. apply map_not_Forall in Hl; [|apply _]. destruct Hl as ([a b] & l & Hx & Hc). exists a, b.
    unfold plink, plget. rewrite Hx. exact Hc.
Qed.

(* ================================================================================================
   Part 3: a quiescent state is stable -- only PSet / PJoin change anything
   ================================================================================================ *)

Theorem quiescent_is_stable s :
  pquiescent s ->
  forall e s', pstep s e = Some s' -> (match e with PSet _ _ | PJoin _ => True | _ => False end) \/ s' = s.
Proof.
  intros Hq e s' Hstep. destruct e as [p u|p|src dst|c]; [left; exact I| | |left; exact I]; right.
  - simpl in Hstep. destruct (pp s !! p) as [x|] eqn:Hx; [|discriminate].
    pose proof (quiescent_chg s p Hq) as Hc. unfold pchg in Hc. rewrite (pget_exists _ _ _ Hx) in Hc.
    rewrite Hc in Hstep. congruence.
  - simpl in Hstep. rewrite (quiescent_link s src dst Hq) in Hstep. discriminate.
Qed.
Print Assumptions quiescent_is_stable.

Corollary quiescent_run_stable s tr s' :
  pquiescent s -> Forall drain_event tr -> prun s tr = Some s' -> s' = s /\ ptotal_sent s tr = 0.
Proof.
  intros Hq Hd. revert s' . induction Hd as [|e tr He Hd IH]; intros s' Hrun; simpl in *; [split; congruence|].
  destruct (pstep s e) as [s1|] eqn:Hs; [|discriminate].
  destruct (quiescent_is_stable s Hq e s1 Hs) as [Hk | ->]; [destruct e; simpl in He, Hk; contradiction|].
  destruct (IH s' Hrun) as [-> Ht]. split; [reflexivity|]. rewrite Ht.
  destruct e as [p u|p|src dst|c]; simpl in *; try contradiction.
  - rewrite (quiescent_chg _ _ Hq). reflexivity.
  - rewrite (quiescent_link _ _ _ Hq). reflexivity.
Qed.

Example quiescent_is_stable_nonvacuous :
  (fun s => (pquiescentb s, (fun s' => pview s' [0; 1; 2]%N) <$> pstep s (PAnnounce 2%N),
             (fun s' => pview s' [0; 1; 2]%N) <$> pstep s (PDeliver 0%N 2%N),
             (fun s' => pview s' [0; 1; 2]%N) <$> pstep s (PSet 2%N 8%N))) <$> prun (pinit 2) ex_single
  = Some (true, Some ([Some 7; Some 7; Some 7]%N, true), None, Some ([Some 7; Some 7; Some 8]%N, false)).
Proof. vm_compute. reflexivity. Qed.

(* ================================================================================================
   Part 4: KNOWN DEFECT S19 -- one peer re-parents the child twice without waiting: ping-pong
   ================================================================================================ *)

Global Instance ppeer_eq_dec : EqDecision ppeer.
Proof. solve_decision. Defined.
Global Instance pstate_eq_dec : EqDecision pstate.
Proof. solve_decision. Defined.

Lemma ptotal_sent_app s tr1 tr2 :
  ptotal_sent s (tr1 ++ tr2) =
  match prun s tr1 with Some s1 => ptotal_sent s tr1 + ptotal_sent s1 tr2 | None => ptotal_sent s tr1 end.
Proof.
  revert s. induction tr1 as [|e tr1 IH]; intros s; simpl; [reflexivity|].
  destruct (pstep s e) as [s1|]; [|reflexivity]. rewrite IH. destruct (prun s1 tr1); lia.
Qed.

Fixpoint iter_tr (k : nat) (loop : list pevent) : list pevent :=
  match k with O => [] | S k => loop ++ iter_tr k loop end.

(* a cycle can be repeated for ever: an infinite execution, with unbounded traffic if the cycle sends *)
Lemma cycle_forever s loop m :
  prun s loop = Some s -> ptotal_sent s loop = m ->
  forall k, prun s (iter_tr k loop) = Some s /\ ptotal_sent s (iter_tr k loop) = k * m.
Proof.
  intros Hrun Hsent k. induction k as [|k [IH1 IH2]]; simpl; [auto|].
  rewrite prun_app, Hrun, ptotal_sent_app, Hrun, IH2, Hsent. auto.
Qed.

(* Two peers.  Frames in the order of the real plugin: a peer first announces what its
   Changed<Parent> filter sees, then the links it received are applied (deferred commands).
   Client 1 makes the child a child of 1; one frame of the client, one of the host (the host has now
   applied 1 and will echo it); the client re-parents to 2; then lockstep frames.  The host's echo of
   1 crosses the announcement of 2 and from then on the two values chase each other: the state after
   the first lockstep round recurs every 3 rounds, 4 messages per period (observed on the real code:
   80 messages in 60 rounds, never quiescent). *)
Definition s19_prefix : list pevent :=
  [PSet 1 1; PAnnounce 1;                   (* client frame *)
   PAnnounce 0; PDeliver 1 0;               (* host frame: applies 1 *)
   PSet 1 2;
   PAnnounce 1;                             (* round 1, client: announces 2 *)
   PAnnounce 0; PDeliver 1 0]%N.            (* round 1, host: echoes 1, applies 2 *)
Definition s19_loop : list pevent :=
  [PAnnounce 1; PDeliver 0 1;               (* client: nothing to announce, applies the echo 1 *)
   PAnnounce 0;                             (* host: echoes 2 *)
   PAnnounce 1; PDeliver 0 1;               (* client: announces 1, applies 2 *)
   PAnnounce 0; PDeliver 1 0;               (* host: nothing to announce, applies 1 *)
   PAnnounce 1;                             (* client: announces 2 *)
   PAnnounce 0; PDeliver 1 0]%N.            (* host: echoes 1, applies 2 *)

(* everything that is decidable about a prefix + cycle witness, as one boolean for vm_compute *)
Definition cycle_check (n : nat) (pre loop : list pevent) (sent_pre sent_loop : nat) : bool :=
  match prun (pinit n) pre with
  | Some s =>
      bool_decide (prun s loop = Some s) && Nat.eqb (ptotal_sent s loop) sent_loop &&
      Nat.eqb (ptotal_sent (pinit n) pre) sent_pre &&
      forallb (fun st => negb (pquiescentb st)) (pstates s loop)
  | None => false
  end.

Lemma cycle_check_sound n pre loop a b :
  cycle_check n pre loop a b = true ->
  exists s, prun (pinit n) pre = Some s /\ prun s loop = Some s /\ ptotal_sent s loop = b /\
            forallb (fun st => negb (pquiescentb st)) (pstates s loop) = true /\
            (forall k, prun (pinit n) (pre ++ iter_tr k loop) = Some s /\
                       ptotal_sent (pinit n) (pre ++ iter_tr k loop) = a + k * b).
Proof.
  unfold cycle_check. destruct (prun (pinit n) pre) as [s|] eqn:Hs; [|discriminate].
  intros H. apply andb_true_iff in H as [H H4]. apply andb_true_iff in H as [H H3].
  apply andb_true_iff in H as [H1 H2]. apply bool_decide_eq_true in H1.
  apply Nat.eqb_eq in H2. apply Nat.eqb_eq in H3.
  exists s. split; [reflexivity|]. split; [exact H1|]. split; [exact H2|]. split; [exact H4|].
  intros k. destruct (cycle_forever s loop b H1 H2 k) as [Hk1 Hk2].
  rewrite prun_app, Hs, ptotal_sent_app, Hs, Hk2, H3. auto.
Qed.

Theorem C05_pingpong_refuted :
  exists (s : pstate),
    prun (pinit 1) s19_prefix = Some s /\
    prun s s19_loop = Some s /\                          (* a cycle ... *)
    ptotal_sent s s19_loop = 4 /\                       (* ... in which messages are sent ... *)
    forallb (fun st => negb (pquiescentb st)) (pstates s s19_loop) = true /\   (* ... never quiescent *)
    (forall k, prun (pinit 1) (s19_prefix ++ iter_tr k s19_loop) = Some s /\
               ptotal_sent (pinit 1) (s19_prefix ++ iter_tr k s19_loop) = 3 + k * 4).
Proof. apply cycle_check_sound. vm_compute. reflexivity. Qed.
Print Assumptions C05_pingpong_refuted.

(* the history consists of two operations of ONE peer (no conflict between peers), the cycle is not
   empty, both peers take turns in it (fair), and the history is in the class [known_S19] *)
Example C05_pingpong_shape :
  psets s19_prefix = [(1, 1); (1, 2)]%N /\ psets s19_loop = [] /\ pjoiners (s19_prefix ++ s19_loop) = [] /\
  length s19_loop = 10 /\ known_S19 (pinit 1) s19_prefix = true.
Proof. vm_compute. auto. Qed.

(* the same two operations can also end quiescent -- with the FIRST parent everywhere, on the peer
   that issued the second operation too: the echo of 1 overwrites 2 before 2 is announced *)
Example C05_last_set_lost_example :
  let tr := [PSet 1 1; PAnnounce 1; PDeliver 1 0; PAnnounce 0; PSet 1 2; PDeliver 0 1; PAnnounce 1; PDeliver 1 0]%N in
  (fun s => pview s [0; 1]%N) <$> prun (pinit 1) tr = Some ([Some 1; Some 1]%N, true) /\
  last_set tr = Some 2%N /\ known_S19 (pinit 1) tr = true.
Proof. vm_compute. auto. Qed.

(* ================================================================================================
   Part 5: the invariant of an exchange towards parent u
   [Ph u s]: every message in flight carries u, a raised flag means the peer already has u, and every
   peer that does not have u yet is COVERED: something pending will reach it.
     the host is covered by a client with a raised flag or a message on its way up;
     a client c is covered by a message on its way down to c, by the host's raised flag, or by ANOTHER
     client with a raised flag / a message on its way up (the host relays it to everybody but its sender).
   Preserved by announce and deliver events, by re-parenting to u again (any peer), by safe joins.
   ================================================================================================ *)

Definition pend (s : pstate) (c : peer) : Prop := pchg s c = true \/ plink s c host <> [].

Record Ph (u : puid) (s : pstate) : Prop := {
  ph_msgs : forall a b m, m ∈ plink s a b -> m = u;
  ph_flag : forall p, pchg s p = true -> ppar s p = Some u;
  ph_host : ppar s host = Some u \/ exists c, c ∈ pconn s /\ pend s c;
  ph_cli : forall c, c ∈ pconn s ->
    ppar s c = Some u \/ plink s host c <> [] \/ pchg s host = true \/
    exists c', c' ∈ pconn s /\ c' <> c /\ pend s c'
}.

Definition Agree (s : pstate) (x : option puid) : Prop := forall p, ppeers s p -> ppar s p = x.

Lemma app_ne_nil_l {A} (l k : list A) : l <> [] -> l ++ k <> [].
Proof. destruct l; simpl; congruence. Qed.
Lemma app_ne_nil_r {A} (l k : list A) : k <> [] -> l ++ k <> [].
Proof. destruct l; simpl; [auto|discriminate]. Qed.

Lemma ph_quiescent_agree u s : pquiescent s -> Ph u s -> Agree s (Some u).
Proof.
  intros Hq [_ _ Hh Hc] p [->|Hp].
  - destruct Hh as [H|(c & _ & [H|H])]; [exact H| |].
    + rewrite (quiescent_chg _ _ Hq) in H. discriminate.
    + rewrite (quiescent_link _ _ _ Hq) in H. contradiction.
  - destruct (Hc p Hp) as [H|[H|[H|(c' & _ & _ & [H|H])]]]; [exact H| | | |].
    + rewrite (quiescent_link _ _ _ Hq) in H. contradiction.
    + rewrite (quiescent_chg _ _ Hq) in H. discriminate.
    + rewrite (quiescent_chg _ _ Hq) in H. discriminate.
    + rewrite (quiescent_link _ _ _ Hq) in H. contradiction.
Qed.

Lemma agree_quiescent_ph u s : pquiescent s -> Agree s (Some u) -> Ph u s.
Proof.
  intros Hq Ha. split.
  - intros a b m Hm. rewrite (quiescent_link _ _ _ Hq) in Hm. inversion Hm.
  - intros p Hp. rewrite (quiescent_chg _ _ Hq) in Hp. discriminate.
  - left. apply Ha. left. reflexivity.
  - intros c Hc. left. apply Ha. right. exact Hc.
Qed.

(* PSet from a quiescent state starts an exchange (whatever the peers had before) *)
Lemma ph_set_quiescent s p u s' :
  pwf s -> pquiescent s -> pstep s (PSet p u) = Some s' -> Ph u s'.
Proof.
  intros Hwf Hq Hstep. apply step_set in Hstep as (Hp & Hc & Hl & _ & Hpar & Hchg).
  assert (Hlk : forall a b, plink s' a b = []).
  { intros a b. unfold plink. rewrite Hl. apply (quiescent_link s a b Hq). }
  apply (wf_exists s p Hwf) in Hp.
  assert (Hpp : pchg s' p = true) by (rewrite Hchg; destruct (decide (p = p)); [reflexivity|contradiction]).
  assert (Hpu : ppar s' p = Some u) by (rewrite Hpar; destruct (decide (p = p)); [reflexivity|contradiction]).
  split.
  - intros a b m Hm. rewrite Hlk in Hm. inversion Hm.
  - intros q Hq'. rewrite Hchg in Hq'. rewrite Hpar. destruct (decide (q = p)); [reflexivity|].
    rewrite (quiescent_chg _ _ Hq) in Hq'. discriminate.
  - destruct Hp as [->|Hp]; [left; exact Hpu|]. right. exists p. rewrite Hc. split; [exact Hp|]. left. exact Hpp.
  - intros c Hcc. rewrite Hc in Hcc. destruct (decide (c = p)) as [->|Hne]; [left; exact Hpu|].
    destruct Hp as [->|Hp]; [right; right; left; exact Hpp|].
    right. right. right. exists p. rewrite Hc. split; [exact Hp|]. split; [congruence|]. left. exact Hpp.
Qed.

(* re-parenting to the SAME parent during the exchange is harmless, whoever does it *)
Lemma ph_set_same s p u s' :
  Ph u s -> pstep s (PSet p u) = Some s' -> Ph u s'.
Proof.
  intros [Hm Hf Hh Hcl] Hstep. apply step_set in Hstep as (_ & Hc & Hl & _ & Hpar & Hchg).
  assert (Hlk : forall a b, plink s' a b = plink s a b) by (intros a b; unfold plink; rewrite Hl; reflexivity).
  assert (Hmono : forall q, pchg s q = true -> pchg s' q = true).
  { intros q Hq. rewrite Hchg. destruct (decide (q = p)); [reflexivity|exact Hq]. }
  assert (Hpu : forall q, ppar s q = Some u -> ppar s' q = Some u).
  { intros q Hq. rewrite Hpar. destruct (decide (q = p)); [reflexivity|exact Hq]. }
  assert (Hpend : forall c, pend s c -> pend s' c).
  { intros c [H|H]; [left; apply Hmono; exact H|right; rewrite Hlk; exact H]. }
  split.
  - intros a b m. rewrite Hlk. apply Hm.
  - intros q Hq. rewrite Hchg in Hq. rewrite Hpar. destruct (decide (q = p)); [reflexivity|apply Hf; exact Hq].
  - destruct Hh as [H|(c & Hcc & H)]; [left; apply Hpu; exact H|].
    right. exists c. rewrite Hc. split; [exact Hcc|apply Hpend; exact H].
  - intros c Hcc. rewrite Hc in Hcc. destruct (Hcl c Hcc) as [H|[H|[H|(c' & Hc' & Hne & H)]]].
    + left. apply Hpu. exact H.
    + right. left. rewrite Hlk. exact H.
    + right. right. left. apply Hmono. exact H.
    + right. right. right. exists c'. rewrite Hc. split; [exact Hc'|]. split; [exact Hne|apply Hpend; exact H].
Qed.

Lemma ph_announce u s p s' :
  pwf s -> Ph u s -> pstep s (PAnnounce p) = Some s' -> Ph u s'.
Proof.
  intros Hwf HP Hstep. pose proof HP as [Hm Hf Hh Hcl].
  apply step_announce in Hstep as (Hp & [(_ & ->)|(Hpc & Hc & _ & Hpar & Hchg & Hl)]); [exact HP| |apply wf_nodup; exact Hwf].
  apply (wf_exists s p Hwf) in Hp.
  pose proof (Hf p Hpc) as Hpu. rewrite Hpu in Hl. simpl in Hl.
  assert (Hlmono : forall a b, plink s a b <> [] -> plink s' a b <> []).
  { intros a b H. rewrite Hl. destruct (decide _); [apply app_ne_nil_l|]; exact H. }
  assert (Hpend : forall c, c <> host -> pend s c -> pend s' c).
  { intros c Hne [H|H]; [|right; apply Hlmono; exact H].
    destruct (decide (c = p)) as [->|Hcp].
    - right. rewrite Hl. destruct (decide (p = p /\ host ∈ pdsts s p)) as [_|Hn]; [apply app_ne_nil_r; discriminate|].
      exfalso. apply Hn. split; [reflexivity|]. unfold pdsts.
      destruct (p =? host)%N eqn:Hph; [apply N.eqb_eq in Hph; contradiction|]. apply elem_of_list_singleton. reflexivity.
    - left. rewrite Hchg. destruct (decide (c = p)); [contradiction|exact H]. }
  split.
  - intros a b m. rewrite Hl. destruct (decide _); [|apply Hm].
    intros H. apply elem_of_app in H as [H|H]; [eapply Hm; exact H|]. apply elem_of_list_singleton in H. exact H.
  - intros q Hq. rewrite Hchg in Hq. rewrite Hpar. destruct (decide (q = p)); [discriminate|apply Hf; exact Hq].
  - destruct Hh as [H|(c & Hcc & H)]; [left; rewrite Hpar; exact H|].
    right. exists c. rewrite Hc. split; [exact Hcc|]. apply Hpend; [|exact H]. eapply wf_conn_ne; eauto.
  - intros c Hcc. rewrite Hc in Hcc. destruct (Hcl c Hcc) as [H|[H|[H|(c' & Hc' & Hne & H)]]].
    + left. rewrite Hpar. exact H.
    + right. left. apply Hlmono. exact H.
    + destruct (decide (p = host)) as [->|Hph].
      * right. left. rewrite Hl. destruct (decide (host = host /\ c ∈ pdsts s host)) as [_|Hn]; [apply app_ne_nil_r; discriminate|].
        exfalso. apply Hn. split; [reflexivity|exact Hcc].
      * right. right. left. rewrite Hchg. destruct (decide (host = p)); [congruence|exact H].
    + right. right. right. exists c'. rewrite Hc. split; [exact Hc'|]. split; [exact Hne|].
      apply Hpend; [|exact H]. eapply wf_conn_ne; eauto.
Qed.

Lemma ph_deliver u s src dst s' :
  pwf s -> Ph u s -> pstep s (PDeliver src dst) = Some s' -> Ph u s'.
Proof.
  intros Hwf HP Hstep. pose proof HP as [Hm Hf Hh Hcl].
  apply step_deliver in Hstep as (m & rest & Hl0 & Hd & Hc & _ & Hpar & Hchg & Hl); [|apply wf_nodup; exact Hwf].
  assert (m = u) as -> by (apply (Hm src dst); rewrite Hl0; left).
  assert (Hends : (src = host /\ dst ∈ pconn s) \/ (dst = host /\ src ∈ pconn s)).
  { apply (wf_link s src dst Hwf). rewrite Hl0. discriminate. }
  assert (Hcmono : forall q, pchg s q = true -> pchg s' q = true).
  { intros q Hq. rewrite Hchg. destruct (decide (q = dst)) as [->|_]; [rewrite Hq; reflexivity|exact Hq]. }
  assert (Hpu : forall q, ppar s q = Some u -> ppar s' q = Some u).
  { intros q Hq. rewrite Hpar. destruct (decide (q = dst)); [reflexivity|exact Hq]. }
  assert (Hlother : forall a b, (a, b) <> (src, dst) -> plink s a b <> [] -> plink s' a b <> []).
  { intros a b Hne H. rewrite Hl. destruct (decide ((a, b) = (src, dst))); [contradiction|]. apply app_ne_nil_l. exact H. }
  assert (Hpend : forall c, c <> src -> pend s c -> pend s' c).
  { intros c Hne [H|H]; [left; apply Hcmono; exact H|]. right. apply Hlother; [congruence|exact H]. }
  split.
  - intros a b x. rewrite Hl. intros H. apply elem_of_app in H as [H|H].
    + destruct (decide ((a, b) = (src, dst))) as [Heq|_]; [|eapply Hm; exact H].
      apply (Hm src dst). rewrite Hl0. right. exact H.
    + destruct (decide _); [|inversion H]. apply elem_of_list_singleton in H. exact H.
  - intros q Hq. rewrite Hpar. destruct (decide (q = dst)) as [->|Hne]; [reflexivity|].
    apply Hf. rewrite Hchg in Hq. destruct (decide (q = dst)); [contradiction|exact Hq].
  - destruct Hends as [[-> Hdc]|[-> Hsc]].
    + (* down to a client: the host and everything travelling up are untouched *)
      destruct Hh as [H|(c & Hcc & H)]; [left; apply Hpu; exact H|].
      right. exists c. rewrite Hc. split; [exact Hcc|]. apply Hpend; [|exact H]. eapply wf_conn_ne; eauto.
    + left. rewrite Hpar. destruct (decide (host = host)); [reflexivity|contradiction].
  - intros c Hcc. rewrite Hc in Hcc. pose proof (wf_conn_ne s c Hwf Hcc) as Hch.
    destruct Hends as [[-> Hdc]|[-> Hsc]].
    + (* host -> dst *)
      destruct (decide (c = dst)) as [->|Hne].
      { left. rewrite Hpar. destruct (decide (dst = dst)); [reflexivity|contradiction]. }
      destruct (Hcl c Hcc) as [H|[H|[H|(c' & Hc' & Hne' & H)]]].
      * left. apply Hpu. exact H.
      * right. left. apply Hlother; [congruence|exact H].
      * right. right. left. apply Hcmono. exact H.
      * right. right. right. exists c'. rewrite Hc. split; [exact Hc'|]. split; [exact Hne'|].
        apply Hpend; [|exact H]. eapply wf_conn_ne; eauto.
    + (* src -> host: relayed to every client but src *)
      destruct (decide (c = src)) as [->|Hne].
      * destruct (Hcl src Hcc) as [H|[H|[H|(c' & Hc' & Hne' & H)]]].
        -- left. apply Hpu. exact H.
        -- right. left. apply Hlother; [congruence|exact H].
        -- right. right. left. apply Hcmono. exact H.
        -- right. right. right. exists c'. rewrite Hc. split; [exact Hc'|]. split; [exact Hne'|].
           apply Hpend; [exact Hne'|exact H].
      * right. left. rewrite Hl. apply app_ne_nil_r.
        destruct (decide (host = host /\ host = host /\ c ∈ pothers src (pconn s))) as [_|Hn]; [discriminate|].
        exfalso. apply Hn. split; [reflexivity|]. split; [reflexivity|]. apply elem_of_pothers. auto.
Qed.

(* a join while the host has no parent yet, or already has u *)
Lemma ph_join u s c s' :
  pwf s -> Ph u s -> ppar s host = None \/ ppar s host = Some u ->
  pstep s (PJoin c) = Some s' -> Ph u s'.
Proof.
  intros Hwf HP Hsafe Hstep. pose proof HP as [Hm Hf Hh Hcl].
  pose proof (join_par s c s') as Hpar. pose proof (join_chg s c s') as Hchg.
  specialize (fun q => Hpar q Hstep). specialize (fun q => Hchg q Hstep).
  apply step_join in Hstep as (Hch & Hcn & Hnone & Hc & _ & _ & Hl).
  assert (Hlmono : forall a b, plink s a b <> [] -> plink s' a b <> []).
  { intros a b H. rewrite Hl. destruct (decide _) as [Heq|_]; [|exact H]. inversion Heq; subst. apply app_ne_nil_l. exact H. }
  assert (Hpend : forall c', pend s c' -> pend s' c').
  { intros c' [H|H]; [left; rewrite Hchg; exact H|right; apply Hlmono; exact H]. }
  assert (Hcabs : ~ ppeers s c).
  { intros H. apply (wf_exists s c Hwf) in H. rewrite Hnone in H. destruct H; discriminate. }
  split.
  - intros a b m. rewrite Hl. destruct (decide _) as [Heq|_]; [|apply Hm].
    intros H. apply elem_of_app in H as [H|H]; [eapply Hm; exact H|].
    destruct Hsafe as [Hs|Hs]; rewrite Hs in H; simpl in H; [inversion H|]. apply elem_of_list_singleton in H. exact H.
  - intros q. rewrite Hchg, Hpar. apply Hf.
  - rewrite Hpar. destruct Hh as [H|(c' & Hc' & H)]; [left; exact H|].
    right. exists c'. rewrite Hc. split; [apply elem_of_app; left; exact Hc'|apply Hpend; exact H].
  - intros c0 Hc0. rewrite Hc in Hc0. apply elem_of_app in Hc0 as [Hc0|Hc0].
    + destruct (Hcl c0 Hc0) as [H|[H|[H|(c' & Hc' & Hne & H)]]].
      * left. rewrite Hpar. exact H.
      * right. left. apply Hlmono. exact H.
      * right. right. left. rewrite Hchg. exact H.
      * right. right. right. exists c'. rewrite Hc. split; [apply elem_of_app; left; exact Hc'|].
        split; [exact Hne|apply Hpend; exact H].
    + apply elem_of_list_singleton in Hc0. subst c0.
      destruct Hsafe as [Hs|Hs].
      * (* no snapshot: the host itself is still waiting for u, from a client that is not c *)
        destruct Hh as [H|(c' & Hc' & H)]; [congruence|].
        right. right. right. exists c'. rewrite Hc. split; [apply elem_of_app; left; exact Hc'|].
        split; [|apply Hpend; exact H]. intros ->. apply Hcabs. right. exact Hc'.
      * right. left. rewrite Hl. destruct (decide ((host, c) = (host, c))) as [_|Hn]; [|contradiction].
        rewrite Hs. apply app_ne_nil_r. discriminate.
Qed.

(* ================================================================================================
   Part 6: termination measure and traffic potential of an exchange
   ================================================================================================ *)

Lemma pcnt1_flag_down u s s' p :
  ppar s' p = ppar s p -> pchg s p = true -> pchg s' p = false -> pcnt1 u s' p + 1 = pcnt1 u s p.
Proof. intros Hp H1 H2. unfold pcnt1. rewrite Hp, H1, H2. lia. Qed.

Lemma pcnt1_same u s s' p : ppar s' p = ppar s p -> pchg s' p = pchg s p -> pcnt1 u s' p = pcnt1 u s p.
Proof. intros Hp Hc. unfold pcnt1. rewrite Hp, Hc. reflexivity. Qed.

Lemma pcnt1_apply u s s' p :
  ppar s' p = Some u -> pchg s' p = pchg s p || negb (bool_decide (ppar s p = Some u)) ->
  pcnt1 u s' p <= pcnt1 u s p.
Proof.
  intros Hp Hc. unfold pcnt1. rewrite Hp, Hc. rewrite bool_decide_eq_true_2 by reflexivity.
  destruct (bool_decide (ppar s p = Some u)); destruct (pchg s p); simpl; lia.
Qed.

(* what one effective announce / deliver event does to the three counters *)
Lemma count_announce_host u s s' :
  pwf s -> Ph u s -> pchg s host = true -> pstep s (PAnnounce host) = Some s' ->
  pconn s' = pconn s /\ pcnt u s' + 1 = pcnt u s /\ pups s' = pups s /\ pdowns s' = pdowns s + length (pconn s).
Proof.
  intros Hwf HP Hflag Hstep. pose proof (ph_flag u s HP host Hflag) as Hpu.
  apply step_announce in Hstep as (_ & [(Hn & _)|(_ & Hc & _ & Hpar & Hchg & Hl)]); [congruence| |apply wf_nodup; exact Hwf].
  rewrite Hpu in Hl. simpl in Hl. split; [exact Hc|].
  unfold pcnt, pups, pdowns. rewrite Hc. split; [|split].
  - rewrite (sumf_ext (pcnt1 u s) (pcnt1 u s')).
    + rewrite <- (pcnt1_flag_down u s s' host); [lia|apply Hpar|exact Hflag|].
      rewrite Hchg. destruct (decide (host = host)); [reflexivity|contradiction].
    + intros c Hcc. apply pcnt1_same; [apply Hpar|]. rewrite Hchg.
      destruct (decide (c = host)) as [->|_]; [|reflexivity]. exfalso. eapply wf_host; eauto.
  - apply sumf_ext. intros c Hcc. rewrite Hl. destruct (decide (c = host /\ _)) as [[-> _]|_]; [|reflexivity].
    exfalso. eapply wf_host; eauto.
  - apply sumf_all1. intros c Hcc. rewrite Hl.
    destruct (decide (host = host /\ c ∈ pdsts s host)) as [_|Hn]; [rewrite app_length; reflexivity|].
    exfalso. apply Hn. split; [reflexivity|exact Hcc].
Qed.

Lemma count_announce_client u s p s' :
  pwf s -> Ph u s -> p ∈ pconn s -> pchg s p = true -> pstep s (PAnnounce p) = Some s' ->
  pconn s' = pconn s /\ pcnt u s' + 1 = pcnt u s /\ pups s' = pups s + 1 /\ pdowns s' = pdowns s.
Proof.
  intros Hwf HP Hpc Hflag Hstep. pose proof (ph_flag u s HP p Hflag) as Hpu.
  pose proof (wf_conn_ne s p Hwf Hpc) as Hph. pose proof (wf_nodup s Hwf) as Hnd.
  apply step_announce in Hstep as (_ & [(Hn & _)|(_ & Hc & _ & Hpar & Hchg & Hl)]); [congruence| |exact Hnd].
  rewrite Hpu in Hl. simpl in Hl. split; [exact Hc|].
  assert (Hdst : pdsts s p = [host]).
  { unfold pdsts. destruct (p =? host)%N eqn:E; [apply N.eqb_eq in E; contradiction|reflexivity]. }
  unfold pcnt, pups, pdowns. rewrite Hc. split; [|split].
  - rewrite (pcnt1_same u s s' host); [|apply Hpar|rewrite Hchg; destruct (decide (host = p)); [congruence|reflexivity]].
    pose proof (sumf_one (pcnt1 u s) (pcnt1 u s') (pconn s) p Hnd Hpc) as H. lapply H.
    + intros H'. rewrite <- (pcnt1_flag_down u s s' p) in H'; [lia|apply Hpar|exact Hflag|].
      rewrite Hchg. destruct (decide (p = p)); [reflexivity|contradiction].
    + intros c' _ Hne. apply pcnt1_same; [apply Hpar|]. rewrite Hchg. destruct (decide (c' = p)); [contradiction|reflexivity].
  - pose proof (sumf_one (fun c => length (plink s c host)) (fun c => length (plink s' c host)) (pconn s) p Hnd Hpc) as H.
    lapply H.
    + intros H'. rewrite (Hl p host) in H'. rewrite Hdst in H'.
      destruct (decide (p = p /\ host ∈ [host])) as [_|Hn]; [rewrite app_length in H'; simpl in H'; lia|].
      exfalso. apply Hn. split; [reflexivity|apply elem_of_list_singleton; reflexivity].
    + intros c' _ Hne. simpl. rewrite Hl. destruct (decide (c' = p /\ _)) as [[-> _]|_]; [contradiction|reflexivity].
  - apply sumf_ext. intros c Hcc. rewrite Hl. destruct (decide (host = p /\ _)) as [[E _]|_]; [congruence|reflexivity].
Qed.

Lemma count_deliver_up u s src s' :
  pwf s -> Ph u s -> src ∈ pconn s -> pstep s (PDeliver src host) = Some s' ->
  pconn s' = pconn s /\ pcnt u s' <= pcnt u s /\ pups s' + 1 = pups s /\ pdowns s' + 1 = pdowns s + length (pconn s).
Proof.
  intros Hwf HP Hsc Hstep. pose proof (wf_conn_ne s src Hwf Hsc) as Hsh. pose proof (wf_nodup s Hwf) as Hnd.
  apply step_deliver in Hstep as (m & rest & Hl0 & _ & Hc & _ & Hpar & Hchg & Hl); [|exact Hnd].
  assert (m = u) as -> by (apply (ph_msgs u s HP src host); rewrite Hl0; left).
  split; [exact Hc|]. unfold pcnt, pups, pdowns. rewrite Hc. split; [|split].
  - rewrite (sumf_ext (pcnt1 u s) (pcnt1 u s')).
    + assert (pcnt1 u s' host <= pcnt1 u s host); [|lia]. apply pcnt1_apply.
      * rewrite Hpar. destruct (decide (host = host)); [reflexivity|contradiction].
      * rewrite Hchg. destruct (decide (host = host)); [reflexivity|contradiction].
    + intros c Hcc. pose proof (wf_conn_ne s c Hwf Hcc) as Hch. apply pcnt1_same.
      * rewrite Hpar. destruct (decide (c = host)); [contradiction|reflexivity].
      * rewrite Hchg. destruct (decide (c = host)); [contradiction|reflexivity].
  - pose proof (sumf_one (fun c => length (plink s c host)) (fun c => length (plink s' c host)) (pconn s) src Hnd Hsc) as H.
    lapply H.
    + intros H'. rewrite (Hl src host), Hl0 in H'.
      destruct (decide ((src, host) = (src, host))) as [_|Hn]; [|contradiction].
      destruct (decide (host = host /\ src = host /\ _)) as [(_ & E & _)|_]; [contradiction|].
      rewrite app_nil_r in H'. simpl in H'. lia.
    + intros c' Hc' Hne. simpl. rewrite Hl.
      destruct (decide ((c', host) = (src, host))) as [E|_]; [congruence|].
      destruct (decide (host = host /\ c' = host /\ _)) as [(_ & E & _)|_]; [|rewrite app_nil_r; reflexivity].
      exfalso. subst c'. eapply wf_host; eauto.
  - apply (sumf_others _ _ _ src Hnd Hsc).
    + rewrite Hl. destruct (decide ((host, src) = (src, host))) as [E|_]; [congruence|].
      destruct (decide (host = host /\ host = host /\ src ∈ pothers src (pconn s))) as [(_ & _ & E)|_]; [|rewrite app_nil_r; reflexivity].
      apply elem_of_pothers in E. tauto.
    + intros c' Hc' Hne. rewrite Hl. destruct (decide ((host, c') = (src, host))) as [E|_]; [congruence|].
      destruct (decide (host = host /\ host = host /\ c' ∈ pothers src (pconn s))) as [_|Hn]; [rewrite app_length; reflexivity|].
      exfalso. apply Hn. split; [reflexivity|]. split; [reflexivity|]. apply elem_of_pothers. auto.
Qed.

Lemma count_deliver_down u s dst s' :
  pwf s -> Ph u s -> dst ∈ pconn s -> pstep s (PDeliver host dst) = Some s' ->
  pconn s' = pconn s /\ pcnt u s' <= pcnt u s /\ pups s' = pups s /\ pdowns s' + 1 = pdowns s.
Proof.
  intros Hwf HP Hdc Hstep. pose proof (wf_conn_ne s dst Hwf Hdc) as Hdh. pose proof (wf_nodup s Hwf) as Hnd.
  apply step_deliver in Hstep as (m & rest & Hl0 & _ & Hc & _ & Hpar & Hchg & Hl); [|exact Hnd].
  assert (m = u) as -> by (apply (ph_msgs u s HP host dst); rewrite Hl0; left).
  assert (Hnorelay : forall a b, plink s' a b = if decide ((a, b) = (host, dst)) then rest else plink s a b).
  { intros a b. rewrite Hl. destruct (decide (dst = host /\ _)) as [[E _]|_]; [contradiction|]. apply app_nil_r. }
  split; [exact Hc|]. unfold pcnt, pups, pdowns. rewrite Hc. split; [|split].
  - rewrite (pcnt1_same u s s' host).
    + pose proof (sumf_one (pcnt1 u s) (pcnt1 u s') (pconn s) dst Hnd Hdc) as H. lapply H.
      * intros H'. assert (pcnt1 u s' dst <= pcnt1 u s dst); [|lia]. apply pcnt1_apply.
        -- rewrite Hpar. destruct (decide (dst = dst)); [reflexivity|contradiction].
        -- rewrite Hchg. destruct (decide (dst = dst)); [reflexivity|contradiction].
      * intros c' _ Hne. apply pcnt1_same.
        -- rewrite Hpar. destruct (decide (c' = dst)); [contradiction|reflexivity].
        -- rewrite Hchg. destruct (decide (c' = dst)); [contradiction|reflexivity].
    + rewrite Hpar. destruct (decide (host = dst)); [congruence|reflexivity].
    + rewrite Hchg. destruct (decide (host = dst)); [congruence|reflexivity].
  - apply sumf_ext. intros c Hcc. rewrite Hnorelay. destruct (decide ((c, host) = (host, dst))) as [E|_]; [|reflexivity].
    congruence.
  - pose proof (sumf_one (fun c => length (plink s host c)) (fun c => length (plink s' host c)) (pconn s) dst Hnd Hdc) as H.
    lapply H.
    + intros H'. rewrite (Hnorelay host dst), Hl0 in H'.
      destruct (decide ((host, dst) = (host, dst))) as [_|Hn]; [simpl in H'; lia|contradiction].
    + intros c' _ Hne. simpl. rewrite Hnorelay. destruct (decide ((host, c') = (host, dst))) as [E|_]; [congruence|reflexivity].
Qed.

(* one announce / deliver event of an exchange: a no-op, or the measure strictly decreases and the
   messages it sends are paid for by the potential *)
Lemma drain_step_measure u s e s' :
  pwf s -> Ph u s -> drain_event e -> pstep s e = Some s' ->
  (effective s e = false /\ s' = s /\ psent_by s e = 0) \/
  (effective s e = true /\ pmeasure u s' < pmeasure u s /\ psent_by s e + ppotential u s' <= ppotential u s).
Proof.
  intros Hwf HP He Hstep. pose proof (wf_nodup s Hwf) as Hnd.
  destruct e as [p x|p|src dst|c]; simpl in He; try contradiction.
  - (* announce *)
    destruct (pchg s p) eqn:Hflag.
    + right. split; [exact Hflag|].
      assert (Hp : ppeers s p).
      { apply (wf_exists s p Hwf). unfold pchg, pget in Hflag. destruct (pp s !! p); [eauto|discriminate]. }
      pose proof (ph_flag u s HP p Hflag) as Hpu.
      unfold pmeasure, ppotential, psent_by. rewrite Hflag, Hpu. simpl length.
      destruct Hp as [->|Hp].
      * destruct (count_announce_host u s s' Hwf HP Hflag Hstep) as (Hc & H1 & H2 & H3).
        rewrite Hc, H2, H3. unfold pdsts. simpl. split; nia.
      * destruct (count_announce_client u s p s' Hwf HP Hp Hflag Hstep) as (Hc & H1 & H2 & H3).
        rewrite Hc, H2, H3. unfold pdsts.
        destruct (p =? host)%N eqn:E; [apply N.eqb_eq in E; subst p; exfalso; eapply wf_host; eauto|].
        assert (1 <= length (pconn s)) by (destruct (pconn s); [inversion Hp|simpl; lia]).
        simpl length. split; nia.
    + left. apply step_announce in Hstep as (_ & [(_ & ->)|(Hn & _)]); [|congruence|exact Hnd].
      split; [exact Hflag|]. split; [reflexivity|]. unfold psent_by. rewrite Hflag. reflexivity.
  - (* deliver *)
    right. split; [reflexivity|].
    assert (Hne : plink s src dst <> []).
    { simpl in Hstep. destruct (plink s src dst); [discriminate|discriminate]. }
    unfold pmeasure, ppotential, psent_by. destruct (plink s src dst) as [|m rest] eqn:Hl0; [contradiction|].
    destruct (wf_link s src dst Hwf) as [[-> Hdc]|[-> Hsc]]; [rewrite Hl0; discriminate| |].
    + destruct (count_deliver_down u s dst s' Hwf HP Hdc Hstep) as (Hc & H1 & H2 & H3).
      rewrite Hc, H2.
      destruct (dst =? host)%N eqn:E; [apply N.eqb_eq in E; subst dst; exfalso; eapply wf_host; eauto|].
      split; nia.
    + destruct (count_deliver_up u s src s' Hwf HP Hsc Hstep) as (Hc & H1 & H2 & H3).
      rewrite Hc. pose proof (length_pothers src (pconn s) Hnd Hsc) as Hlen.
      simpl. split; nia.
Qed.

Lemma drain_step_ph u s e s' :
  pwf s -> Ph u s -> drain_event e -> pstep s e = Some s' -> Ph u s'.
Proof.
  intros Hwf HP He Hstep. destruct e as [p x|p|src dst|c]; simpl in He; try contradiction.
  - eapply ph_announce; eauto.
  - eapply ph_deliver; eauto.
Qed.

Lemma drain_step_conn s e s' : drain_event e -> pstep s e = Some s' -> pconn s' = pconn s.
Proof.
  intros He Hstep. destruct e as [p x|p|src dst|c]; simpl in He; try contradiction; simpl in Hstep.
  - destruct (pp s !! p) as [y|]; [|discriminate]. destruct (changed y); injection Hstep as <-; reflexivity.
  - destruct (plink s src dst); [discriminate|]. destruct (pp s !! dst); [|discriminate].
    injection Hstep as <-. reflexivity.
Qed.

Lemma drain_run u tr : forall s s',
  pwf s -> Ph u s -> Forall drain_event tr -> prun s tr = Some s' ->
  pwf s' /\ Ph u s' /\ pconn s' = pconn s /\
  peffective_count s tr + pmeasure u s' <= pmeasure u s /\
  ptotal_sent s tr + ppotential u s' <= ppotential u s.
Proof.
  induction tr as [|e tr IH]; intros s s' Hwf HP Hd Hrun; simpl in *.
  - injection Hrun as <-. split; [exact Hwf|]. split; [exact HP|]. split; [reflexivity|]. split; lia.
  - destruct (pstep s e) as [s1|] eqn:Hs; [|discriminate].
    apply Forall_cons in Hd as [He Hd].
    pose proof (step_wf s e s1 Hwf Hs) as Hwf1. pose proof (drain_step_ph u s e s1 Hwf HP He Hs) as HP1.
    destruct (IH s1 s' Hwf1 HP1 Hd Hrun) as (Hwf' & HP' & Hc' & Hm' & Hs').
    split; [exact Hwf'|]. split; [exact HP'|]. split; [rewrite Hc'; eapply drain_step_conn; eauto|].
    destruct (drain_step_measure u s e s1 Hwf HP He Hs) as [(Heff & -> & Hz)|(Heff & Hlt & Hpot)]; rewrite Heff.
    + rewrite Hz. split; simpl; assumption.
    + split; lia.
Qed.

(* progress: a state that is not quiescent has an enabled effective announce / deliver event *)
Lemma drain_progress s :
  pwf s -> ~ pquiescent s -> exists e s', drain_event e /\ effective s e = true /\ pstep s e = Some s'.
Proof.
  intros Hwf Hn. apply not_quiescent in Hn as [(p & Hp)|(a & b & Hl)].
  - exists (PAnnounce p). simpl. unfold pchg, pget in Hp. destruct (pp s !! p) as [x|] eqn:Hx; [|discriminate].
    simpl in Hp. rewrite Hp. eexists. split; [exact I|]. split; [|reflexivity].
    unfold pchg. rewrite (pget_exists _ _ _ Hx). exact Hp.
  - exists (PDeliver a b). simpl. destruct (plink s a b) as [|m rest] eqn:Hl0; [contradiction|].
    assert (Hb : is_Some (pp s !! b)).
    { apply (wf_exists s b Hwf). destruct (wf_link s a b Hwf) as [[_ H]|[-> _]]; [rewrite Hl0; discriminate|right; exact H|left; reflexivity]. }
    destruct Hb as [x Hx]. rewrite Hx. eexists. split; [exact I|]. split; reflexivity.
Qed.

(* every exchange can be driven to quiescence ... *)
Lemma drain_terminates u : forall k s,
  pmeasure u s <= k -> pwf s -> Ph u s ->
  exists tr s', Forall drain_event tr /\ prun s tr = Some s' /\ pquiescent s'.
Proof.
  induction k as [|k IH]; intros s Hk Hwf HP.
  - destruct (decide (pquiescent s)) as [Hq|Hn]; [exists [], s; auto|].
    destruct (drain_progress s Hwf Hn) as (e & s1 & He & Heff & Hs).
    destruct (drain_step_measure u s e s1 Hwf HP He Hs) as [(Hf & _)|(_ & Hlt & _)]; [congruence|lia].
  - destruct (decide (pquiescent s)) as [Hq|Hn]; [exists [], s; auto|].
    destruct (drain_progress s Hwf Hn) as (e & s1 & He & Heff & Hs).
    destruct (drain_step_measure u s e s1 Hwf HP He Hs) as [(Hf & _)|(_ & Hlt & _)]; [congruence|].
    destruct (IH s1) as (tr & s' & Hd & Hrun & Hq); [lia|eapply step_wf; eauto|eapply drain_step_ph; eauto|].
    exists (e :: tr), s'. split; [constructor; assumption|]. split; [simpl; rewrite Hs; exact Hrun|exact Hq].
Qed.

(* ... and no exchange goes on for ever: there is no infinite sequence of effective events *)
Theorem no_infinite_exchange u (st : nat -> pstate) (ev : nat -> pevent) :
  pwf (st 0) -> Ph u (st 0) ->
  (forall i, drain_event (ev i) /\ effective (st i) (ev i) = true /\ pstep (st i) (ev i) = Some (st (S i))) ->
  False.
Proof.
  intros Hwf HP Hinf.
  assert (H : forall i, pwf (st i) /\ Ph u (st i) /\ pmeasure u (st i) + i <= pmeasure u (st 0)).
  { induction i as [|i (Hwi & HPi & Hmi)]; [split; [exact Hwf|]; split; [exact HP|lia]|].
    destruct (Hinf i) as (He & Heff & Hs).
    split; [eapply step_wf; eauto|]. split; [eapply drain_step_ph; eauto|].
    destruct (drain_step_measure u (st i) (ev i) (st (S i)) Hwi HPi He Hs) as [(Hf & _)|(_ & Hlt & _)]; [congruence|lia]. }
  destruct (H (S (pmeasure u (st 0)))) as (_ & _ & Hbad). lia.
Qed.
Print Assumptions no_infinite_exchange.

(* ================================================================================================
   Part 7: one operation from a quiescent state (C05, single operation; its part of C09)
   ================================================================================================ *)

Lemma set_quiescent_counts s w u s1 :
  pwf s -> pquiescent s -> pstep s (PSet w u) = Some s1 ->
  pconn s1 = pconn s /\ pcnt u s1 <= length (pconn s) + 1 /\ pups s1 = 0 /\ pdowns s1 = 0.
Proof.
  intros Hwf Hq Hstep. apply step_set in Hstep as (_ & Hc & Hl & _ & Hpar & Hchg).
  assert (Hlk : forall a b, plink s1 a b = []).
  { intros a b. unfold plink. rewrite Hl. apply (quiescent_link s a b Hq). }
  assert (H1 : forall q, pcnt1 u s1 q <= 1).
  { intros q. unfold pcnt1. rewrite Hpar, Hchg. destruct (decide (q = w)).
    - rewrite bool_decide_eq_true_2 by reflexivity. lia.
    - rewrite (quiescent_chg _ _ Hq). destruct (bool_decide _); lia. }
  split; [exact Hc|]. unfold pcnt, pups, pdowns. rewrite Hc. split; [|split].
  - pose proof (H1 host). pose proof (sumf_bound (pcnt1 u s1) (pconn s) 1 (fun c _ => H1 c)). lia.
  - apply sumf_zero. intros c _. rewrite Hlk. reflexivity.
  - apply sumf_zero. intros c _. rewrite Hlk. reflexivity.
Qed.

(* the exact worst case: n clients, the operation costs at most n*(n+1) messages
   (originator -> host -> others: n; the host's own announcement: n; each of the n-1 other clients
   echoes once (n-1) -- with the originator's announcement that is n messages to the host, each
   relayed to the n-1 other clients) -- less than the square of the number of peers, (n+1)^2 *)
Theorem parent_messages_bounded s0 w u s1 tr s' :
  pwf s0 -> pquiescent s0 -> pstep s0 (PSet w u) = Some s1 ->
  Forall drain_event tr -> prun s1 tr = Some s' ->
  ptotal_sent s1 tr <= length (pconn s0) * (length (pconn s0) + 1).
Proof.
  intros Hwf Hq Hset Hd Hrun.
  destruct (set_quiescent_counts s0 w u s1 Hwf Hq Hset) as (Hc & Hcnt & Hu & Hdn).
  pose proof (step_wf _ _ _ Hwf Hset) as Hwf1. pose proof (ph_set_quiescent _ _ _ _ Hwf Hq Hset) as HP1.
  destruct (drain_run u tr s1 s' Hwf1 HP1 Hd Hrun) as (_ & _ & _ & _ & Hs).
  unfold ppotential in Hs at 2. rewrite Hc, Hu in Hs. nia.
Qed.
Print Assumptions parent_messages_bounded.

(* the bound is reached *)
Example parent_messages_bound_tight :
  ptotal_sent (pinit 2) ex_single = length (pconn (pinit 2)) * (length (pconn (pinit 2)) + 1).
Proof. vm_compute. reflexivity. Qed.

Theorem C05_single_operation_converges s0 w u s1 tr s' :
  pwf s0 -> pquiescent s0 -> pstep s0 (PSet w u) = Some s1 ->
  Forall drain_event tr -> prun s1 tr = Some s' ->
  let n := length (pconn s0) in
  (* whenever the run is quiescent, every peer has the new parent *)
  (pquiescent s' -> Agree s' (Some u)) /\
  (* at most (n+1)^2 events of the run do anything at all; at most n*(n+1) messages are sent *)
  peffective_count s1 tr <= (n + 1) * (n + 1) /\
  ptotal_sent s1 tr <= n * (n + 1) /\
  (* the measure: as long as the state is not quiescent something can happen, and whatever
     happens (any effective announce / deliver event of any peer) strictly decreases it *)
  (~ pquiescent s' -> exists e s'', drain_event e /\ effective s' e = true /\ pstep s' e = Some s'') /\
  (forall e s'', drain_event e -> effective s' e = true -> pstep s' e = Some s'' -> pmeasure u s'' < pmeasure u s') /\
  (* hence every maximal run is finite and ends quiescent: the run can be completed ... *)
  (exists tr2 s'', Forall drain_event tr2 /\ prun s' tr2 = Some s'' /\ pquiescent s'' /\ Agree s'' (Some u)) /\
  (* ... and cannot be continued for ever *)
  (forall (st : nat -> pstate) (ev : nat -> pevent), st 0 = s' ->
     (forall i, drain_event (ev i) /\ effective (st i) (ev i) = true /\ pstep (st i) (ev i) = Some (st (S i))) -> False).
Proof.
  intros Hwf Hq Hset Hd Hrun n.
  destruct (set_quiescent_counts s0 w u s1 Hwf Hq Hset) as (Hc & Hcnt & Hu & Hdn).
  pose proof (step_wf _ _ _ Hwf Hset) as Hwf1. pose proof (ph_set_quiescent _ _ _ _ Hwf Hq Hset) as HP1.
  destruct (drain_run u tr s1 s' Hwf1 HP1 Hd Hrun) as (Hwf' & HP' & Hc' & Hm & Hs).
  split; [intros Hq'; apply ph_quiescent_agree; assumption|].
  split; [unfold pmeasure in Hm at 2; rewrite Hc, Hu, Hdn in Hm; subst n; nia|].
  split; [eapply parent_messages_bounded; eauto|].
  split; [intros Hn; apply drain_progress; assumption|].
  split.
  { intros e s'' He Heff Hstep.
    destruct (drain_step_measure u s' e s'' Hwf' HP' He Hstep) as [(Hf & _)|(_ & Hlt & _)]; [congruence|exact Hlt]. }
  split.
  { destruct (drain_terminates u (pmeasure u s') s' (le_n _) Hwf' HP') as (tr2 & s'' & Hd2 & Hrun2 & Hq2).
    exists tr2, s''. split; [exact Hd2|]. split; [exact Hrun2|]. split; [exact Hq2|].
    destruct (drain_run u tr2 s' s'' Hwf' HP' Hd2 Hrun2) as (_ & HP'' & _). apply ph_quiescent_agree; assumption. }
  intros st ev H0 Hinf. apply (no_infinite_exchange u st ev); rewrite ?H0; assumption.
Qed.
Print Assumptions C05_single_operation_converges.

(* non-vacuity: 3 peers, client 1 sets the parent; [ex_single] is such a run, it ends quiescent,
   and a prefix of it is not quiescent (so the progress clause is not vacuous either) *)
Example C05_single_operation_nonvacuous :
  exists s1 s', pwf (pinit 2) /\ pquiescent (pinit 2) /\ pstep (pinit 2) (PSet 1%N 7%N) = Some s1 /\
    Forall drain_event (tail ex_single) /\ prun s1 (tail ex_single) = Some s' /\ pquiescent s' /\
    Agree s' (Some 7%N) /\ peffective_count s1 (tail ex_single) = 9 /\
    (exists s2, prun s1 (take 4 (tail ex_single)) = Some s2 /\ ~ pquiescent s2).
Proof.
  destruct (pstep (pinit 2) (PSet 1%N 7%N)) as [s1|] eqn:H1; [|vm_compute in H1; discriminate].
  assert (Hcons : forall r, prun s1 (tail ex_single) = r -> prun (pinit 2) ex_single = r).
  { intros r Hr. change (prun (pinit 2) ex_single)
      with (match pstep (pinit 2) (PSet 1%N 7%N) with Some x => prun x (tail ex_single) | None => None end).
    rewrite H1. exact Hr. }
  destruct (prun s1 (tail ex_single)) as [s'|] eqn:H2.
  2:{ exfalso. pose proof (Hcons None eq_refl) as H. vm_compute in H. discriminate. }
  pose proof (Hcons _ eq_refl) as Hrun.
  assert (Hd : Forall drain_event (tail ex_single)) by (simpl; repeat constructor).
  assert (Hq : pquiescent s').
  { apply (bool_decide_eq_true_1 (pquiescent s')). change (pquiescentb s' = true).
    assert (H : pquiescentb <$> prun (pinit 2) ex_single = Some true) by (vm_compute; reflexivity).
    rewrite Hrun in H. simpl in H. congruence. }
  exists s1, s'. split; [apply pinit_wf|]. split; [apply pinit_quiescent|]. split; [first [reflexivity|exact H1]|].
  split; [exact Hd|]. split; [first [reflexivity|exact H2]|]. split; [exact Hq|]. split.
  - apply (C05_single_operation_converges (pinit 2) 1%N 7%N s1 (tail ex_single) s'); auto using pinit_wf, pinit_quiescent.
  - split.
    + assert (H : match pstep (pinit 2) (PSet 1%N 7%N) with Some s1 => peffective_count s1 (tail ex_single) | None => 0 end = 9)
        by (vm_compute; reflexivity).
      rewrite H1 in H. exact H.
    + destruct (prun s1 (take 4 (tail ex_single))) as [s2|] eqn:H3.
      * exists s2. split; [reflexivity|]. intros Hq2.
        assert (H : match pstep (pinit 2) (PSet 1%N 7%N) with
                    | Some s1 => pquiescentb <$> prun s1 (take 4 (tail ex_single)) | None => None end = Some false)
          by (vm_compute; reflexivity).
        rewrite H1, H3 in H. simpl in H. injection H as H. apply bool_decide_eq_false in H. contradiction.
      * exfalso.
        assert (H : match pstep (pinit 2) (PSet 1%N 7%N) with
                    | Some s1 => pquiescentb <$> prun s1 (take 4 (tail ex_single)) | None => None end = Some false)
          by (vm_compute; reflexivity).
        rewrite H1, H3 in H. discriminate.
Qed.

(* ================================================================================================
   Part 8: histories -- operations separated by quiescence, safe joins (C05)
   [PhI t s]: t = the parent given by the last PSet; None = nothing has ever been set.
   ================================================================================================ *)

Definition Ph0 (s : pstate) : Prop :=
  (forall a b, plink s a b = []) /\ (forall p, pchg s p = false /\ ppar s p = None).
Definition PhI (t : option puid) (s : pstate) : Prop :=
  match t with Some u => Ph u s | None => Ph0 s end.

Lemma ph0_quiescent s : Ph0 s -> pquiescent s.
Proof. intros [Hl Hp]. apply quiescent_intro; [exact Hl|]. intros p. apply Hp. Qed.

Lemma ph0_init n : Ph0 (pinit n).
Proof. split; [intros a b; reflexivity|]. intros p. unfold pchg, ppar. rewrite pinit_pget. auto. Qed.

Lemma phI_quiescent_agree t s : PhI t s -> pquiescent s -> Agree s t.
Proof.
  destruct t as [u|]; simpl; intros HP Hq.
  - apply ph_quiescent_agree; assumption.
  - intros p _. apply HP.
Qed.

Lemma ph0_join s c s' : Ph0 s -> pstep s (PJoin c) = Some s' -> Ph0 s'.
Proof.
  intros [Hl Hp] Hstep. pose proof (join_par s c s') as Hpar. pose proof (join_chg s c s') as Hchg.
  specialize (fun q => Hpar q Hstep). specialize (fun q => Hchg q Hstep).
  apply step_join in Hstep as (_ & _ & _ & _ & _ & _ & Hl').
  split.
  - intros a b. rewrite Hl'. destruct (decide _); [|apply Hl]. rewrite Hl. destruct (Hp host) as [_ ->]. reflexivity.
  - intros p. rewrite Hpar, Hchg. apply Hp.
Qed.

(* what the history must respect at each event *)
Definition ev_ok (t : option puid) (s : pstate) (e : pevent) : Prop :=
  match e with
  | PSet _ u => pquiescent s \/ t = Some u
  | PJoin _ => ppar s host = None \/ ppar s host = t
  | _ => True
  end.
Definition next_target (t : option puid) (e : pevent) : option puid :=
  match e with PSet _ u => Some u | _ => t end.

Lemma phI_step t s e s' :
  pwf s -> PhI t s -> ev_ok t s e -> pstep s e = Some s' -> PhI (next_target t e) s'.
Proof.
  intros Hwf HP Hok Hstep. destruct e as [p u|p|src dst|c]; simpl in Hok |- *.
  - destruct Hok as [Hq| ->]; [eapply ph_set_quiescent; eauto|eapply ph_set_same; eauto].
  - destruct t as [u|]; simpl in HP |- *; [eapply ph_announce; eauto|].
    destruct (quiescent_is_stable s (ph0_quiescent s HP) _ _ Hstep) as [[]| ->]. exact HP.
  - destruct t as [u|]; simpl in HP |- *; [eapply ph_deliver; eauto|].
    destruct (quiescent_is_stable s (ph0_quiescent s HP) _ _ Hstep) as [[]| ->]. exact HP.
  - destruct t as [u|]; simpl in HP, Hok |- *; [eapply ph_join; eauto|eapply ph0_join; eauto].
Qed.

Lemma target_after_cons t e tr : target_after t (e :: tr) = target_after (next_target t e) tr.
Proof. unfold target_after. simpl. destruct e; reflexivity. Qed.

Lemma scan_ev_ok t s e s' tr :
  pstep s e = Some s' -> s19_from t s (e :: tr) = false -> js_from t s (e :: tr) = true ->
  ev_ok t s e /\ s19_from (next_target t e) s' tr = false /\ js_from (next_target t e) s' tr = true.
Proof.
  intros Hstep H19 Hjs. simpl in H19, Hjs. rewrite Hstep in H19, Hjs.
  destruct e as [p u|p|src dst|c]; simpl; try (split; [exact I|split; assumption]).
  - apply orb_false_iff in H19 as [Ha Hb]. split; [|split; assumption].
    apply andb_false_iff in Ha as [Ha|Ha]; apply negb_false_iff in Ha.
    + left. apply (bool_decide_eq_true_1 (pquiescent s)). exact Ha.
    + right. apply bool_decide_eq_true in Ha. exact Ha.
  - apply andb_true_iff in Hjs as [Ha Hb]. split; [|split; assumption].
    apply bool_decide_eq_true in Ha. exact Ha.
Qed.

Lemma C05_general tr : forall t s s',
  pwf s -> PhI t s -> s19_from t s tr = false -> js_from t s tr = true -> prun s tr = Some s' ->
  pwf s' /\ PhI (target_after t tr) s'.
Proof.
  induction tr as [|e tr IH]; intros t s s' Hwf HP H19 Hjs Hrun.
  - simpl in Hrun. injection Hrun as <-. split; assumption.
  - simpl in Hrun. destruct (pstep s e) as [s1|] eqn:Hs; [|discriminate].
    destruct (scan_ev_ok t s e s1 tr Hs H19 Hjs) as (Hok & H19' & Hjs').
    rewrite target_after_cons. apply (IH _ s1); try assumption.
    + eapply step_wf; eauto.
    + eapply phI_step; eauto.
Qed.

Lemma s19_from_prefix t s tr1 tr2 : s19_from t s (tr1 ++ tr2) = false -> s19_from t s tr1 = false.
Proof.
  revert t s. induction tr1 as [|e tr1 IH]; intros t s H; simpl in *; [reflexivity|].
  destruct (pstep s e) as [s1|]; [|reflexivity]. destruct e; eauto.
  apply orb_false_iff in H as [Ha Hb]. rewrite Ha. simpl. eauto.
Qed.

Lemma js_from_prefix t s tr1 tr2 : js_from t s (tr1 ++ tr2) = true -> js_from t s tr1 = true.
Proof.
  revert t s. induction tr1 as [|e tr1 IH]; intros t s H; simpl in *; [reflexivity|].
  destruct (pstep s e) as [s1|]; [|reflexivity]. destruct e; eauto.
  apply andb_true_iff in H as [Ha Hb]. rewrite Ha. simpl. eauto.
Qed.

Lemma js_from_nojoin t s tr : pjoiners tr = [] -> js_from t s tr = true.
Proof.
  revert t s. induction tr as [|e tr IH]; intros t s H; simpl in *; [reflexivity|].
  destruct (pstep s e) as [s1|]; [|reflexivity]. destruct e; simpl in H; try discriminate; eauto.
Qed.

(* a join at a quiescent state of a history outside [known_S19] is safe *)
Lemma joins_quiescent_safe tr : forall t s,
  pwf s -> PhI t s -> s19_from t s tr = false -> joins_quiescent s tr = true -> js_from t s tr = true.
Proof.
  induction tr as [|e tr IH]; intros t s Hwf HP H19 Hjq; [reflexivity|].
  simpl in *. destruct (pstep s e) as [s1|] eqn:Hs; [|reflexivity].
  pose proof (step_wf s e s1 Hwf Hs) as Hwf1.
  destruct e as [p u|p|src dst|c].
  - apply orb_false_iff in H19 as [Ha Hb]. apply (IH _ s1 Hwf1); [|exact Hb|exact Hjq].
    apply (phI_step t s (PSet p u) s1 Hwf HP); [|exact Hs]. simpl.
    apply andb_false_iff in Ha as [Ha|Ha]; apply negb_false_iff in Ha.
    + left. apply (bool_decide_eq_true_1 (pquiescent s)). exact Ha.
    + right. apply bool_decide_eq_true in Ha. exact Ha.
  - apply (IH _ s1 Hwf1); [|exact H19|exact Hjq]. apply (phI_step t s (PAnnounce p) s1 Hwf HP I Hs).
  - apply (IH _ s1 Hwf1); [|exact H19|exact Hjq]. apply (phI_step t s (PDeliver src dst) s1 Hwf HP I Hs).
  - apply andb_true_iff in Hjq as [Hq Hjq]. apply (bool_decide_eq_true_1 (pquiescent s)) in Hq.
    assert (Hh : ppar s host = t) by (apply (phI_quiescent_agree t s HP Hq); left; reflexivity).
    apply andb_true_iff. split; [apply bool_decide_eq_true; right; exact Hh|].
    apply (IH _ s1 Hwf1); [|exact H19|exact Hjq].
    apply (phI_step t s (PJoin c) s1 Hwf HP); [|exact Hs]. simpl. right. exact Hh.
Qed.

(* on histories without joins [known_S19] is literally "two PSet with different parents and no
   quiescent state in between" *)
Lemma s19_lit_from_eq tr : forall g t s,
  pjoiners tr = [] -> (pquiescent s \/ exists u', g = Some u' /\ t = Some u') ->
  s19_lit_from g s tr = s19_from t s tr.
Proof.
  induction tr as [|e tr IH]; intros g t s Hj Hinv; [reflexivity|].
  cbn [s19_lit_from s19_from]. destruct (pstep s e) as [s1|] eqn:Hs; [|reflexivity].
  destruct e as [p u|p|src dst|c]; [| | |simpl in Hj; discriminate].
  - rewrite (IH (Some u) (Some u) s1 Hj) by (right; eauto). f_equal.
    unfold pquiescentb. destruct (decide (pquiescent s)) as [Hq|Hq].
    + rewrite (bool_decide_eq_true_2 _ Hq). reflexivity.
    + rewrite (bool_decide_eq_false_2 _ Hq). destruct Hinv as [Hq'|(u' & -> & ->)]; [contradiction|].
      simpl. f_equal. apply bool_decide_ext. split; congruence.
  - apply IH; [exact Hj|]. unfold pquiescentb. destruct (decide (pquiescent s)) as [Hq|Hq].
    + destruct (quiescent_is_stable s Hq _ _ Hs) as [[]| ->]. left. exact Hq.
    + rewrite (bool_decide_eq_false_2 _ Hq). destruct Hinv as [Hq'|Hr]; [contradiction|right; exact Hr].
  - apply IH; [exact Hj|]. unfold pquiescentb. destruct (decide (pquiescent s)) as [Hq|Hq].
    + destruct (quiescent_is_stable s Hq _ _ Hs) as [[]| ->]. left. exact Hq.
    + rewrite (bool_decide_eq_false_2 _ Hq). destruct Hinv as [Hq'|Hr]; [contradiction|right; exact Hr].
Qed.

Lemma known_S19_literal_nojoin n tr :
  pjoiners tr = [] -> known_S19_literal (pinit n) tr = known_S19 (pinit n) tr.
Proof. intros Hj. apply s19_lit_from_eq; [exact Hj|]. left. apply pinit_quiescent. Qed.

Lemma pinit_host_par n : ppar (pinit n) host = None.
Proof. unfold ppar. rewrite pinit_pget. reflexivity. Qed.

(* C05, histories: operations on the child's parent by any peers, to any parents, each issued at a
   quiescent state (or repeating the parent of the previous one), joins while the host has no parent
   or already the last one: at every quiescent state all peers agree on the parent given by the
   last PSet. *)
Theorem C05_drain_separated_converge n tr s' :
  prun (pinit n) tr = Some s' ->
  known_S19 (pinit n) tr = false -> joins_safe (pinit n) tr = true ->
  pquiescent s' -> Agree s' (last_set tr).
Proof.
  unfold known_S19, joins_safe. rewrite pinit_host_par. intros Hrun H19 Hjs Hq.
  destruct (C05_general tr None (pinit n) s' (pinit_wf n) (ph0_init n) H19 Hjs Hrun) as [_ HP].
  apply phI_quiescent_agree; assumption.
Qed.
Print Assumptions C05_drain_separated_converge.

Theorem C05_every_quiescent_state n tr1 tr2 s1 :
  prun (pinit n) tr1 = Some s1 ->
  known_S19 (pinit n) (tr1 ++ tr2) = false -> joins_safe (pinit n) (tr1 ++ tr2) = true ->
  pquiescent s1 -> Agree s1 (last_set tr1).
Proof.
  intros Hrun H19 Hjs. apply (C05_drain_separated_converge n tr1 s1 Hrun).
  - eapply s19_from_prefix. exact H19.
  - eapply js_from_prefix. exact Hjs.
Qed.

Corollary C05_drain_separated_no_joins n tr s' :
  prun (pinit n) tr = Some s' -> known_S19 (pinit n) tr = false -> pjoiners tr = [] ->
  pquiescent s' -> Agree s' (last_set tr).
Proof. intros Hrun H19 Hj. apply (C05_drain_separated_converge n tr s' Hrun H19). apply js_from_nojoin. exact Hj. Qed.

Corollary C05_drain_separated_joins_quiescent n tr s' :
  prun (pinit n) tr = Some s' -> known_S19 (pinit n) tr = false -> joins_quiescent (pinit n) tr = true ->
  pquiescent s' -> Agree s' (last_set tr).
Proof.
  intros Hrun H19 Hj. apply (C05_drain_separated_converge n tr s' Hrun H19).
  unfold known_S19, joins_safe in *. rewrite pinit_host_par in *.
  apply (joins_quiescent_safe tr None (pinit n) (pinit_wf n) (ph0_init n) H19 Hj).
Qed.

(* ... and such a history never leaves the exchange running for ever: after it, the pending
   exchange can be completed, ends with the last parent everywhere, every effective event decreases
   the measure, and there is no infinite continuation by announce / deliver events *)
Theorem C05_drain_separated_terminates n tr s' :
  prun (pinit n) tr = Some s' ->
  known_S19 (pinit n) tr = false -> joins_safe (pinit n) tr = true ->
  (exists tr2 s'', Forall drain_event tr2 /\ prun s' tr2 = Some s'' /\ pquiescent s'' /\ Agree s'' (last_set tr)) /\
  (forall (st : nat -> pstate) (ev : nat -> pevent), st 0 = s' ->
     (forall i, drain_event (ev i) /\ effective (st i) (ev i) = true /\ pstep (st i) (ev i) = Some (st (S i))) -> False).
Proof.
  unfold known_S19, joins_safe. rewrite pinit_host_par. intros Hrun H19 Hjs.
  destruct (C05_general tr None (pinit n) s' (pinit_wf n) (ph0_init n) H19 Hjs Hrun) as [Hwf HP].
  fold (last_set tr) in HP. destruct (last_set tr) as [u|]; simpl in HP.
  - split.
    + destruct (drain_terminates u (pmeasure u s') s' (le_n _) Hwf HP) as (tr2 & s'' & Hd2 & Hrun2 & Hq2).
      exists tr2, s''. split; [exact Hd2|]. split; [exact Hrun2|]. split; [exact Hq2|].
      destruct (drain_run u tr2 s' s'' Hwf HP Hd2 Hrun2) as (_ & HP'' & _). apply ph_quiescent_agree; assumption.
    + intros st ev H0 Hinf. apply (no_infinite_exchange u st ev); rewrite ?H0; assumption.
  - pose proof (ph0_quiescent s' HP) as Hq. split.
    + exists [], s'. split; [constructor|]. split; [reflexivity|]. split; [exact Hq|]. intros p _. apply HP.
    + intros st ev H0 Hinf. destruct (Hinf 0) as (He & Heff & Hs). rewrite H0 in Heff, Hs.
      destruct (ev 0) as [p u|p|src dst|c]; simpl in He; try contradiction.
      * simpl in Heff. rewrite (quiescent_chg _ _ Hq) in Heff. discriminate.
      * simpl in Hs. rewrite (quiescent_link _ _ _ Hq) in Hs. discriminate.
Qed.
Print Assumptions C05_drain_separated_terminates.

(* non-vacuity: three operations by three different peers (host included) and a join *)
Definition ex_history : list pevent :=
  (ex_single ++
   [PSet 2 9; PAnnounce 2; PDeliver 2 0; PDeliver 0 1; PAnnounce 0; PAnnounce 1; PDeliver 1 0;
    PDeliver 0 1; PDeliver 0 2; PDeliver 0 2;
    PJoin 3; PDeliver 0 3; PAnnounce 3; PDeliver 3 0; PDeliver 0 1; PDeliver 0 2;
    PSet 0 4; PSet 3 4; PAnnounce 0; PAnnounce 3])%N.
Example C05_drain_separated_nonvacuous :
  (fun s => pview s [0; 1; 2; 3]%N) <$> prun (pinit 2) ex_history
    = Some ([Some 4; Some 9; Some 9; Some 4]%N, false) /\
  known_S19 (pinit 2) ex_history = false /\ joins_safe (pinit 2) ex_history = true /\
  joins_quiescent (pinit 2) ex_history = true /\
  psets ex_history = [(1, 7); (2, 9); (0, 4); (3, 4)]%N /\ last_set ex_history = Some 4%N /\
  (fun s => pview s [0; 1; 2; 3]%N) <$> prun (pinit 2) (take 26 ex_history)
    = Some ([Some 9; Some 9; Some 9; Some 9]%N, true).
Proof. vm_compute. auto 10. Qed.

(* ================================================================================================
   Part 9: joins
   ================================================================================================ *)

Lemma conn_step_mono s e s' c : pstep s e = Some s' -> c ∈ pconn s -> c ∈ pconn s'.
Proof.
  intros Hstep Hc. destruct e as [p u|p|src dst|c0]; simpl in Hstep.
  - destruct (pp s !! p); [|discriminate]. injection Hstep as <-. exact Hc.
  - destruct (pp s !! p) as [y|]; [|discriminate]. destruct (changed y); injection Hstep as <-; exact Hc.
  - destruct (plink s src dst); [discriminate|]. destruct (pp s !! dst); [|discriminate].
    injection Hstep as <-. exact Hc.
  - destruct (_ || _); [discriminate|]. injection Hstep as <-. simpl. apply elem_of_app. left. exact Hc.
Qed.

Lemma conn_run_mono s tr s' c : prun s tr = Some s' -> c ∈ pconn s -> c ∈ pconn s'.
Proof.
  revert s. induction tr as [|e tr IH]; intros s Hrun Hc; simpl in Hrun; [congruence|].
  destruct (pstep s e) as [s1|] eqn:Hs; [|discriminate]. eapply IH; [exact Hrun|]. eapply conn_step_mono; eauto.
Qed.

Lemma joined_connected s tr1 c tr2 s' : prun s (tr1 ++ PJoin c :: tr2) = Some s' -> c ∈ pconn s'.
Proof.
  rewrite prun_app. destruct (prun s tr1) as [s1|]; [|discriminate]. cbn [prun].
  destruct (pstep s1 (PJoin c)) as [s2|] eqn:Hs; [|discriminate]. intros Hrun.
  eapply conn_run_mono; [exact Hrun|]. apply step_join in Hs as (_ & _ & _ & Hc & _). rewrite Hc.
  apply elem_of_app. right. apply elem_of_list_singleton. reflexivity.
Qed.

(* a client that joins during a history of drain-separated operations -- at any quiescent state,
   and also in the middle of an exchange provided the host has no parent yet or already the new
   one -- ends with the host's parent, the one given by the last PSet *)
Theorem join_gets_parent n tr1 c tr2 s' :
  let tr := tr1 ++ PJoin c :: tr2 in
  prun (pinit n) tr = Some s' ->
  known_S19 (pinit n) tr = false -> joins_safe (pinit n) tr = true ->
  pquiescent s' -> ppar s' c = ppar s' host /\ ppar s' c = last_set tr.
Proof.
  intros tr Hrun H19 Hjs Hq.
  pose proof (C05_drain_separated_converge n tr s' Hrun H19 Hjs Hq) as Ha.
  rewrite (Ha c), (Ha host); [auto|left; reflexivity|right; eapply joined_connected; exact Hrun].
Qed.
Print Assumptions join_gets_parent.

Corollary join_gets_parent_quiescent_joins n tr1 c tr2 s' :
  let tr := tr1 ++ PJoin c :: tr2 in
  prun (pinit n) tr = Some s' ->
  known_S19 (pinit n) tr = false -> joins_quiescent (pinit n) tr = true ->
  pquiescent s' -> ppar s' c = ppar s' host /\ ppar s' c = last_set tr.
Proof.
  intros tr Hrun H19 Hjq. apply (join_gets_parent n tr1 c tr2 s' Hrun H19).
  unfold known_S19, joins_safe in *. rewrite pinit_host_par in *.
  apply (joins_quiescent_safe tr None (pinit n) (pinit_wf n) (ph0_init n) H19 Hjq).
Qed.

(* non-vacuity: client 3 joins in the MIDDLE of the very first exchange (the host has nothing yet:
   no snapshot; it is reached by the relay) and client 4 joins after the host got the parent *)
Definition ex_join_mid : list pevent :=
  [PSet 1 7; PAnnounce 1; PJoin 3; PDeliver 1 0; PJoin 4; PAnnounce 0;
   PDeliver 0 2; PDeliver 0 3; PDeliver 0 4; PDeliver 0 1; PDeliver 0 2; PDeliver 0 3; PDeliver 0 4;
   PAnnounce 2; PAnnounce 3; PAnnounce 4; PDeliver 2 0; PDeliver 3 0; PDeliver 4 0;
   PDeliver 0 1; PDeliver 0 1; PDeliver 0 1; PDeliver 0 2; PDeliver 0 2; PDeliver 0 3; PDeliver 0 3;
   PDeliver 0 4; PDeliver 0 4]%N.
Example join_nonvacuous :
  (fun s => pview s [0; 1; 2; 3; 4]%N) <$> prun (pinit 2) ex_join_mid
    = Some ([Some 7; Some 7; Some 7; Some 7; Some 7]%N, true) /\
  known_S19 (pinit 2) ex_join_mid = false /\ joins_safe (pinit 2) ex_join_mid = true /\
  joins_quiescent (pinit 2) ex_join_mid = false.
Proof. vm_compute. auto. Qed.

(* The statement at full strength -- "at ANY moment" -- is FALSE.  If a client joins while a
   RE-parenting is in flight and the host still has the old parent, the snapshot carries the old
   parent; the joiner applies it and (no token for parents) announces it back to the host, which by
   then has the new parent, finds the old one different, applies it and broadcasts it. *)
Definition join_gets_parent_statement : Prop :=
  forall n tr1 c tr2 s',
    let tr := tr1 ++ PJoin c :: tr2 in
    prun (pinit n) tr = Some s' -> known_S19 (pinit n) tr = false ->
    pquiescent s' -> ppar s' c = ppar s' host /\ ppar s' c = last_set tr.

(* (a) the re-parenting 7 -> 9 is lost on EVERY peer, its author included: quiescent with 7 *)
Definition ex_join_lost_pre : list pevent :=
  [PSet 1 7; PAnnounce 1; PDeliver 1 0; PAnnounce 0; PDeliver 0 1;        (* 7 everywhere, quiescent *)
   PSet 1 9; PAnnounce 1]%N.
Definition ex_join_lost_post : list pevent :=
  [PDeliver 1 0; PDeliver 0 2; PAnnounce 2; PDeliver 2 0; PDeliver 0 1; PAnnounce 0;
   PDeliver 0 2; PDeliver 0 2; PAnnounce 2; PAnnounce 1; PDeliver 0 1; PDeliver 1 0; PDeliver 2 0;
   PDeliver 0 1; PDeliver 0 2]%N.

Theorem join_any_moment_refuted : ~ join_gets_parent_statement.
Proof.
  intros H. specialize (H 1 ex_join_lost_pre 2%N ex_join_lost_post).
  destruct (prun (pinit 1) (ex_join_lost_pre ++ PJoin 2%N :: ex_join_lost_post)) as [s'|] eqn:Hrun.
  - assert (Hv : (fun s => (pquiescentb s, ppar s 2%N)) <$>
                 prun (pinit 1) (ex_join_lost_pre ++ PJoin 2%N :: ex_join_lost_post) = Some (true, Some 7%N))
      by (vm_compute; reflexivity).
    rewrite Hrun in Hv. simpl in Hv. injection Hv as Hq Hp.
    destruct (H s' Hrun) as [_ Hbad].
    + vm_compute. reflexivity.
    + apply (bool_decide_eq_true_1 (pquiescent s')). exact Hq.
    + rewrite Hp in Hbad. vm_compute in Hbad. discriminate.
  - vm_compute in Hrun. discriminate.
Qed.
Print Assumptions join_any_moment_refuted.

Example join_lost_shape :
  let tr := ex_join_lost_pre ++ PJoin 2%N :: ex_join_lost_post in
  (fun s => pview s [0; 1; 2]%N) <$> prun (pinit 1) tr = Some ([Some 7; Some 7; Some 7]%N, true) /\
  psets tr = [(1, 7); (1, 9)]%N /\ last_set tr = Some 9%N /\
  known_S19 (pinit 1) tr = false /\ joins_safe (pinit 1) tr = false.
Proof. vm_compute. auto. Qed.

(* (b) from the same join the exchange can also go on for ever (lockstep frames: deliver, then
   announce): a cycle of two rounds with 12 messages *)
Definition ex_join_cycle_pre : list pevent :=
  (ex_join_lost_pre ++
   [PJoin 2; PDeliver 1 0; PDeliver 0 2; PAnnounce 2; PDeliver 0 2; PDeliver 2 0;
    PAnnounce 0; PDeliver 0 1; PAnnounce 1; PAnnounce 2;
    PDeliver 1 0; PDeliver 2 0; PAnnounce 0; PDeliver 0 1; PAnnounce 1; PDeliver 0 2; PAnnounce 2;
    PDeliver 2 0; PAnnounce 0; PDeliver 0 1; PDeliver 0 1; PAnnounce 1; PDeliver 0 2; PDeliver 0 2; PAnnounce 2;
    PDeliver 1 0; PDeliver 2 0; PAnnounce 0; PDeliver 0 1; PDeliver 0 1; PAnnounce 1; PDeliver 0 2; PAnnounce 2])%N.
Definition ex_join_cycle_loop : list pevent :=
  [PDeliver 1 0; PDeliver 2 0; PAnnounce 0; PDeliver 0 1; PDeliver 0 1; PAnnounce 1; PDeliver 0 2; PDeliver 0 2;
   PAnnounce 2; PDeliver 1 0; PDeliver 2 0; PAnnounce 0; PDeliver 0 1; PDeliver 0 1; PAnnounce 1; PDeliver 0 2;
   PDeliver 0 2; PAnnounce 2]%N.

Theorem join_midflight_pingpong :
  exists s, prun (pinit 1) ex_join_cycle_pre = Some s /\
    prun s ex_join_cycle_loop = Some s /\ ptotal_sent s ex_join_cycle_loop = 12 /\
    forallb (fun st => negb (pquiescentb st)) (pstates s ex_join_cycle_loop) = true /\
    (forall k, prun (pinit 1) (ex_join_cycle_pre ++ iter_tr k ex_join_cycle_loop) = Some s /\
               ptotal_sent (pinit 1) (ex_join_cycle_pre ++ iter_tr k ex_join_cycle_loop) = 27 + k * 12).
Proof. apply cycle_check_sound. vm_compute. reflexivity. Qed.
Print Assumptions join_midflight_pingpong.

Example join_midflight_pingpong_shape :
  psets ex_join_cycle_pre = [(1, 7); (1, 9)]%N /\ pjoiners ex_join_cycle_pre = [2%N] /\
  known_S19 (pinit 1) ex_join_cycle_pre = false /\ joins_safe (pinit 1) ex_join_cycle_pre = false.
Proof. vm_compute. auto. Qed.

(* traffic of a join at a quiescent state: the snapshot, the joiner's echo, its relay to the others *)
Theorem join_messages_bounded s c s1 tr s' :
  pwf s -> pquiescent s -> (exists x, Agree s x) -> pstep s (PJoin c) = Some s1 ->
  Forall drain_event tr -> prun s1 tr = Some s' ->
  ptotal_sent s (PJoin c :: tr) <= length (pconn s) + 2 /\ (pquiescent s' -> Agree s' (ppar s host)).
Proof.
  intros Hwf Hq [x Ha] Hjoin Hd Hrun. cbn [ptotal_sent psent_by]. rewrite Hjoin.
  pose proof (step_wf _ _ _ Hwf Hjoin) as Hwf1.
  assert (Hh : ppar s host = x) by (apply Ha; left; reflexivity). rewrite Hh.
  destruct x as [u|].
  - pose proof (agree_quiescent_ph u s Hq Ha) as HP.
    assert (HP1 : Ph u s1) by (apply (ph_join u s c s1 Hwf HP (or_intror Hh) Hjoin)).
    destruct (drain_run u tr s1 s' Hwf1 HP1 Hd Hrun) as (_ & HP' & _ & _ & Hs).
    split; [|intros Hq'; apply ph_quiescent_agree; assumption].
    pose proof (join_par s c s1) as Hpar. pose proof (join_chg s c s1) as Hchg.
    specialize (fun q => Hpar q Hjoin). specialize (fun q => Hchg q Hjoin).
    pose proof Hjoin as Hj. apply step_join in Hj as (Hch & Hcn & Hnone & Hc & _ & _ & Hl).
    assert (Hcabs : ~ ppeers s c).
    { intros H. apply (wf_exists s c Hwf) in H. rewrite Hnone in H. destruct H; discriminate. }
    assert (H0 : forall q, ppeers s q -> pcnt1 u s1 q = 0).
    { intros q Hq'. unfold pcnt1. rewrite Hpar, Hchg, (Ha q Hq'), (quiescent_chg _ _ Hq).
      rewrite bool_decide_eq_true_2 by reflexivity. reflexivity. }
    assert (Hcnt : pcnt u s1 = 1).
    { unfold pcnt. rewrite Hc, sumf_app. rewrite (H0 host) by (left; reflexivity).
      assert (Hz : sumf (pcnt1 u s1) (pconn s) = 0) by (apply sumf_zero; intros q Hq'; apply H0; right; exact Hq').
      rewrite Hz. simpl. unfold pcnt1. rewrite Hpar, Hchg. destruct (wf_absent s c Hwf Hcabs) as [-> ->].
      rewrite bool_decide_eq_false_2 by discriminate. reflexivity. }
    assert (Hup : pups s1 = 0).
    { unfold pups. apply sumf_zero. intros q _. rewrite Hl.
      destruct (decide ((q, host) = (host, c))) as [E|_]; [congruence|]. rewrite (quiescent_link _ _ _ Hq). reflexivity. }
    unfold ppotential in Hs at 2. rewrite Hcnt, Hup, Hc, app_length in Hs. simpl in *. nia.
  - assert (HP : Ph0 s).
    { split; [intros a b; apply quiescent_link; exact Hq|]. intros p. split; [apply quiescent_chg; exact Hq|].
      destruct (decide (ppeers s p)) as [Hp|Hp]; [apply Ha; exact Hp|apply (wf_absent s p Hwf Hp)]. }
    pose proof (ph0_join s c s1 HP Hjoin) as HP1.
    destruct (quiescent_run_stable s1 tr s' (ph0_quiescent _ HP1) Hd Hrun) as [-> Hz].
    rewrite Hz. simpl. split; [lia|]. intros _ p _. apply HP1.
Qed.
Print Assumptions join_messages_bounded.
