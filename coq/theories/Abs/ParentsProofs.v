(* Proofs about the event-level parent-link replication model (Parents.v) AFTER THE REPAIR of the
   parent ping-pong (value token [parent_from_network], consumed by the announcing system).

   Main results (each followed by Print Assumptions: all closed under the global context):
     1. pinit_run_invariant            pwf + tracker invariant on every run from pinit n
     2. armed_only_by_set, deliver_no_echo, no_echo, C09_announce_has_local_cause      (NO ECHO, C09)
     3. drain_measure_decreases, drain_effective_bounded, no_infinite_exchange, drain_terminates
                                       termination from ANY well-formed state, no premise on the history
     4. parent_messages_bounded (n messages per operation, tight), join_messages_bounded (1),
        total_traffic_bounded          (#sets * M + #joins for ANY history, M = n + #joins)
     5. C05_converges, C05_every_quiescent_state, C05_terminates, join_gets_parent
                                       premise: writers_drain_separated only; joins at ANY moment
     6. old_pingpong_now_quiescent / _every_drain, old_join_in_flight_now_quiescent / _every_drain,
        join_at_armed_host_converges   (the hole of the first repair attempt)
     7. quiescent_is_stable
     8. conflict_diverges              two writers that are not drain separated: quiescent and swapped
   Nothing is partial, nothing is refuted. *)
From Coq Require Import NArith List Lia.
From stdpp Require Import gmap list.
From BS Require Import Abs.Parents.

(* ================================================================================================
   Part 0: channel operations, sums over the connected clients
   ================================================================================================ *)

Lemma plget_insert L a b l a' b' :
  plget (<[(a, b) := l]> L) a' b' = if decide ((a', b') = (a, b)) then l else plget L a' b'.
Proof.
  unfold plget. destruct (decide ((a', b') = (a, b))) as [Heq|Hne].
  - rewrite Heq, lookup_insert. reflexivity.
  - rewrite lookup_insert_ne by congruence. reflexivity.
Qed.

Lemma plget_push_link L a b vs a' b' :
  plget (ppush_link L a b vs) a' b' = if decide ((a', b') = (a, b)) then plget L a b ++ vs else plget L a' b'.
Proof. unfold ppush_link. apply plget_insert. Qed.

Lemma plget_send_to L src dsts vs a b :
  NoDup dsts ->
  plget (psend_to L src dsts vs) a b = if decide (a = src /\ b ∈ dsts) then plget L a b ++ vs else plget L a b.
Proof.
  intros Hnd. induction Hnd as [|d dsts Hnotin Hnd IH]; simpl.
  - destruct (decide (a = src /\ b ∈ [])) as [[_ Hin]|_]; [inversion Hin|reflexivity].
  - rewrite plget_push_link. destruct (decide ((a, b) = (src, d))) as [Heq|Hne].
    + inversion Heq; subst. rewrite IH.
      destruct (decide (src = src /\ d ∈ dsts)) as [[_ Hin]|_]; [contradiction|].
      destruct (decide (src = src /\ d ∈ d :: dsts)) as [_|Hn]; [reflexivity|].
      exfalso. apply Hn. split; [reflexivity|left].
    + rewrite IH. destruct (decide (a = src /\ b ∈ dsts)) as [[-> Hin]|Hn].
      * destruct (decide (src = src /\ b ∈ d :: dsts)) as [_|Hn2]; [reflexivity|].
        exfalso. apply Hn2. split; [reflexivity|right; exact Hin].
      * destruct (decide (a = src /\ b ∈ d :: dsts)) as [[-> Hin]|_]; [|reflexivity].
        exfalso. apply elem_of_cons in Hin as [->|Hin]; [apply Hne; reflexivity|apply Hn; auto].
Qed.

Lemma NoDup_pothers src l : NoDup l -> NoDup (pothers src l).
Proof. intros H. unfold pothers. apply NoDup_filter. exact H. Qed.

Lemma elem_of_pothers src l c : c ∈ pothers src l <-> c <> src /\ c ∈ l.
Proof. unfold pothers. rewrite elem_of_list_filter. reflexivity. Qed.

Lemma pothers_notin src l : src ∉ l -> pothers src l = l.
Proof.
  induction l as [|a l IH]; intros Hn; [reflexivity|].
  unfold pothers in *. rewrite filter_cons. destruct (decide (a <> src)) as [_|Heq].
  - f_equal. apply IH. intros H. apply Hn. right. exact H.
  - exfalso. apply Hn. destruct (decide (a = src)) as [->|Hne]; [left|contradiction].
Qed.

Lemma length_pothers src l : NoDup l -> src ∈ l -> length (pothers src l) + 1 = length l.
Proof.
  intros Hnd. induction Hnd as [|a l Hnotin Hnd IH]; intros Hin; [inversion Hin|].
  unfold pothers in *. rewrite filter_cons. destruct (decide (a <> src)) as [Hne|Heq].
  - simpl. apply elem_of_cons in Hin as [->|Hin]; [contradiction|]. rewrite <- (IH Hin). lia.
  - assert (a = src) as -> by (destruct (decide (a = src)); [assumption|contradiction]).
    fold (pothers src l). rewrite pothers_notin by exact Hnotin. simpl. lia.
Qed.

Lemma sumf_ext f g l : (forall c, c ∈ l -> g c = f c) -> sumf g l = sumf f l.
Proof.
  induction l as [|a l IH]; intros H; [reflexivity|]. simpl.
  rewrite (H a) by left. rewrite IH; [reflexivity|]. intros c Hc. apply H. right. exact Hc.
Qed.

Lemma sumf_one f g l c :
  NoDup l -> c ∈ l -> (forall c', c' ∈ l -> c' <> c -> g c' = f c') ->
  sumf g l + f c = sumf f l + g c.
Proof.
  intros Hnd. induction Hnd as [|a l Hnotin Hnd IH]; intros Hin H; [inversion Hin|]. simpl.
  apply elem_of_cons in Hin as [->|Hin].
  - rewrite (sumf_ext f g l); [lia|]. intros c' Hc'. apply H; [right; exact Hc'|]. intros ->. contradiction.
  - rewrite (H a); [|left|intros ->; contradiction].
    specialize (IH Hin). lapply IH; [lia|]. intros c' Hc' Hne. apply H; [right; exact Hc'|exact Hne].
Qed.

Lemma sumf_all1 f g l : (forall c, c ∈ l -> g c = f c + 1) -> sumf g l = sumf f l + length l.
Proof.
  induction l as [|a l IH]; intros H; [reflexivity|]. simpl.
  rewrite (H a) by left. rewrite IH; [lia|]. intros c Hc. apply H. right. exact Hc.
Qed.

Lemma sumf_others f g l c :
  NoDup l -> c ∈ l -> g c = f c -> (forall c', c' ∈ l -> c' <> c -> g c' = f c' + 1) ->
  sumf g l + 1 = sumf f l + length l.
Proof.
  intros Hnd. induction Hnd as [|a l Hnotin Hnd IH]; intros Hin Hc H; [inversion Hin|]. simpl.
  apply elem_of_cons in Hin as [->|Hin].
  - rewrite Hc. rewrite (sumf_all1 f g l); [lia|].
    intros c' Hc'. apply H; [right; exact Hc'|]. intros ->. contradiction.
  - rewrite (H a); [|left|intros ->; contradiction].
    specialize (IH Hin Hc). lapply IH; [lia|]. intros c' Hc' Hne. apply H; [right; exact Hc'|exact Hne].
Qed.

Lemma sumf_zero f l : sumf f l = 0 <-> forall c, c ∈ l -> f c = 0.
Proof.
  induction l as [|a l IH]; simpl.
  - split; [intros _ c Hc; inversion Hc|reflexivity].
  - split.
    + intros H c Hc. apply elem_of_cons in Hc as [->|Hc]; [lia|]. apply IH; [lia|exact Hc].
    + intros H. rewrite (H a) by left. simpl. apply IH. intros c Hc. apply H. right. exact Hc.
Qed.

Lemma sumf_bound f l k : (forall c, c ∈ l -> f c <= k) -> sumf f l <= k * length l.
Proof.
  induction l as [|a l IH]; intros H; simpl; [lia|].
  specialize (H a (elem_of_list_here a l)) as Ha.
  lapply IH; [nia|]. intros c Hc. apply H. right. exact Hc.
Qed.

Lemma sumf_app f l1 l2 : sumf f (l1 ++ l2) = sumf f l1 + sumf f l2.
Proof. induction l1 as [|a l1 IH]; simpl; [reflexivity|]. rewrite IH. lia. Qed.

(* ================================================================================================
   Part 1: getters after one step
   ================================================================================================ *)

Lemma pget_insert m c l p x : pget (PState (<[p := x]> m) c l) p = x.
Proof. unfold pget. simpl. rewrite lookup_insert. reflexivity. Qed.
Lemma pget_insert_ne m c l p q x :
  q <> p -> pget (PState (<[p := x]> m) c l) q = pget (PState m c l) q.
Proof. intros H. unfold pget. simpl. rewrite lookup_insert_ne by congruence. reflexivity. Qed.
Lemma pget_exists s p x : pp s !! p = Some x -> pget s p = x.
Proof. intros H. unfold pget. rewrite H. reflexivity. Qed.
Lemma pget_none s p : pp s !! p = None -> pget s p = ppeer0.
Proof. intros H. unfold pget. rewrite H. reflexivity. Qed.

Lemma pget_insert_dec s p x c l q :
  pget (PState (<[p := x]> (pp s)) c l) q = if decide (q = p) then x else pget s q.
Proof.
  destruct (decide (q = p)) as [->|Hne]; [apply pget_insert|].
  rewrite pget_insert_ne by exact Hne. reflexivity.
Qed.

Lemma is_Some_insert_same (m : gmap peer ppeer) p x y q :
  m !! p = Some y -> is_Some (<[p := x]> m !! q) <-> is_Some (m !! q).
Proof.
  intros Hy. destruct (decide (q = p)) as [->|Hne].
  - rewrite lookup_insert, Hy. split; eauto.
  - rewrite lookup_insert_ne by congruence. reflexivity.
Qed.

(* PSet *)
Lemma step_set s p u s' :
  pstep s (PSet p u) = Some s' ->
  is_Some (pp s !! p) /\ pconn s' = pconn s /\ plinks s' = plinks s /\
  (forall q, is_Some (pp s' !! q) <-> is_Some (pp s !! q)) /\
  (forall q, pget s' q = if decide (q = p) then pset_rec u (pget s p) else pget s q).
Proof.
  simpl. destruct (pp s !! p) as [x|] eqn:Hx; [|discriminate]. intros [= <-].
  split; [eauto|]. split; [reflexivity|]. split; [reflexivity|]. split.
  - intros q. simpl. eapply is_Some_insert_same. exact Hx.
  - intros q. unfold pset_peer. rewrite pget_insert_dec, (pget_exists _ _ _ Hx). reflexivity.
Qed.

Lemma NoDup_pdsts s p : NoDup (pconn s) -> NoDup (pdsts s p).
Proof. intros H. unfold pdsts. destruct (p =? host)%N; [exact H|apply NoDup_singleton]. Qed.

(* PAnnounce *)
Lemma step_announce s p s' :
  NoDup (pconn s) ->
  pstep s (PAnnounce p) = Some s' ->
  is_Some (pp s !! p) /\
  ((pchg s p = false /\ s' = s) \/
   (pchg s p = true /\ pconn s' = pconn s /\
    (forall q, is_Some (pp s' !! q) <-> is_Some (pp s !! q)) /\
    (forall q, pget s' q = if decide (q = p) then pann_peer (pget s p) else pget s q) /\
    (forall a b, plink s' a b =
       if decide (a = p /\ b ∈ pdsts s p) then plink s a b ++ pann_msg (pget s p) else plink s a b))).
Proof.
  intros Hnd. simpl. destruct (pp s !! p) as [x|] eqn:Hx; [|discriminate].
  intros Hstep. split; [eauto|]. revert Hstep. unfold pchg. rewrite (pget_exists _ _ _ Hx).
  destruct (changed x) eqn:Hc; intros [= <-]; [right|left; auto].
  split; [reflexivity|]. split; [reflexivity|]. split; [|split].
  - intros q. simpl. eapply is_Some_insert_same. exact Hx.
  - intros q. apply pget_insert_dec.
  - intros a b. unfold plink. simpl. apply plget_send_to. apply NoDup_pdsts. exact Hnd.
Qed.

(* PDeliver *)
Lemma step_deliver s src dst s' :
  NoDup (pconn s) ->
  pstep s (PDeliver src dst) = Some s' ->
  exists u rest, plink s src dst = u :: rest /\ is_Some (pp s !! dst) /\ pconn s' = pconn s /\
  (forall q, is_Some (pp s' !! q) <-> is_Some (pp s !! q)) /\
  (forall q, pget s' q = if decide (q = dst) then pdel_peer u (pget s dst) else pget s q) /\
  (forall a b, plink s' a b =
      (if decide ((a, b) = (src, dst)) then rest else plink s a b) ++
      (if decide (dst = host /\ a = host /\ b ∈ pothers src (pconn s)) then [u] else [])).
Proof.
  intros Hnd. simpl. destruct (plink s src dst) as [|u rest] eqn:Hl; [discriminate|].
  destruct (pp s !! dst) as [x|] eqn:Hx; [|discriminate].
  intros [= <-]. exists u, rest.
  split; [reflexivity|]. split; [eauto|]. split; [reflexivity|].
  rewrite (pget_exists _ _ _ Hx).
  split; [|split].
  - intros q. simpl. eapply is_Some_insert_same. exact Hx.
  - intros q. apply pget_insert_dec.
  - intros a b. unfold plink. simpl. destruct (dst =? host)%N eqn:Hd.
    + apply N.eqb_eq in Hd. subst dst. rewrite plget_send_to by (apply NoDup_pothers; exact Hnd).
      rewrite plget_insert.
      destruct (decide (a = host /\ b ∈ pothers src (pconn s))) as [[-> Hin]|Hn].
      * destruct (decide (host = host /\ host = host /\ b ∈ pothers src (pconn s))) as [_|Hn]; [reflexivity|tauto].
      * destruct (decide (host = host /\ a = host /\ b ∈ pothers src (pconn s))) as [[_ Hy]|_]; [tauto|].
        rewrite app_nil_r. reflexivity.
    + apply N.eqb_neq in Hd. rewrite plget_insert.
      destruct (decide (dst = host /\ _)) as [[Hy _]|_]; [contradiction|]. rewrite app_nil_r. reflexivity.
Qed.

(* PJoin *)
Lemma step_join s c s' :
  pstep s (PJoin c) = Some s' ->
  c <> host /\ c ∉ pconn s /\ pp s !! c = None /\ pconn s' = pconn s ++ [c] /\
  (forall q, is_Some (pp s' !! q) <-> is_Some (pp s !! q) \/ q = c) /\
  (forall q, pget s' q = pget s q) /\
  (forall a b, plink s' a b =
     if decide ((a, b) = (host, c)) then plink s host c ++ plink_msg (ppar s host) else plink s a b).
Proof.
  simpl. destruct (c =? host)%N eqn:Hc; [discriminate|]. apply N.eqb_neq in Hc.
  destruct (bool_decide (c ∈ pconn s)) eqn:Hin; [discriminate|]. apply bool_decide_eq_false in Hin.
  unfold ppexists. destruct (bool_decide (is_Some (pp s !! c))) eqn:Hex; [discriminate|].
  apply bool_decide_eq_false in Hex. simpl. intros [= <-].
  assert (Hnone : pp s !! c = None) by (destruct (pp s !! c); [exfalso; eauto|reflexivity]).
  split; [exact Hc|]. split; [exact Hin|]. split; [exact Hnone|]. split; [reflexivity|]. split; [|split].
  - intros q. simpl. destruct (decide (q = c)) as [->|Hne].
    + rewrite lookup_insert. split; eauto.
    + rewrite lookup_insert_ne by congruence. split; [auto|]. intros [H|H]; [exact H|contradiction].
  - intros q. unfold pget. simpl. destruct (decide (q = c)) as [->|Hne].
    + rewrite lookup_insert, Hnone. reflexivity.
    + rewrite lookup_insert_ne by congruence. reflexivity.
  - intros a b. unfold plink. simpl. apply plget_push_link.
Qed.

(* the three fields through a record equation *)
Lemma pget_fields s' q x :
  pget s' q = x -> ppar s' q = par x /\ pchg s' q = changed x /\ ptok s' q = tok x.
Proof. intros H. unfold ppar, pchg, ptok. rewrite H. auto. Qed.

Lemma pget_same_fields s' s q :
  pget s' q = pget s q -> ppar s' q = ppar s q /\ pchg s' q = pchg s q /\ ptok s' q = ptok s q /\
                          parmed s' q = parmed s q.
Proof. intros H. unfold parmed, ppar, pchg, ptok. rewrite H. auto. Qed.

Lemma parmed_rarmed s p : parmed s p = rarmed (pget s p).
Proof. reflexivity. Qed.

(* an event that does not concern p leaves p's record alone *)
Definition touches (p : peer) (e : pevent) : Prop :=
  match e with PSet q _ => q = p | PAnnounce q => q = p | PDeliver _ d => d = p | PJoin _ => False end.

Lemma step_untouched s e s' p : pstep s e = Some s' -> ~ touches p e -> pget s' p = pget s p.
Proof.
  intros Hstep Hn. destruct e as [q u|q|src dst|c]; simpl in Hn.
  - apply step_set in Hstep as (_ & _ & _ & _ & Hg). rewrite Hg.
    destruct (decide (p = q)); [congruence|reflexivity].
  - simpl in Hstep. destruct (pp s !! q) as [x|] eqn:Hx; [|discriminate].
    destruct (changed x); injection Hstep as <-; [|reflexivity].
    rewrite pget_insert_dec. destruct (decide (p = q)); [congruence|reflexivity].
  - simpl in Hstep. destruct (plink s src dst); [discriminate|]. destruct (pp s !! dst); [|discriminate].
    injection Hstep as <-. rewrite pget_insert_dec. destruct (decide (p = dst)); [congruence|reflexivity].
  - apply step_join in Hstep as (_ & _ & _ & _ & _ & Hg & _). apply Hg.
Qed.

Lemma join_par s c s' q : pstep s (PJoin c) = Some s' -> ppar s' q = ppar s q.
Proof. intros H. apply step_join in H as (_ & _ & _ & _ & _ & Hg & _). unfold ppar. rewrite Hg. reflexivity. Qed.
Lemma join_chg s c s' q : pstep s (PJoin c) = Some s' -> pchg s' q = pchg s q.
Proof. intros H. apply step_join in H as (_ & _ & _ & _ & _ & Hg & _). unfold pchg. rewrite Hg. reflexivity. Qed.
(* ================================================================================================
   Part 2: well-formedness, the initial state, quiescence through getters
   ================================================================================================ *)

Lemma wf_nodup s : pwf s -> NoDup (pconn s).
Proof. intros (H & _). exact H. Qed.
Lemma wf_host s : pwf s -> host ∉ pconn s.
Proof. intros (_ & H & _). exact H. Qed.
Lemma wf_exists s p : pwf s -> is_Some (pp s !! p) <-> ppeers s p.
Proof. intros (_ & _ & H & _). apply H. Qed.
Lemma wf_link s a b : pwf s -> plink s a b <> [] -> (a = host /\ b ∈ pconn s) \/ (b = host /\ a ∈ pconn s).
Proof. intros (_ & _ & _ & H). apply H. Qed.
Lemma wf_conn_ne s c : pwf s -> c ∈ pconn s -> c <> host.
Proof. intros Hwf Hc ->. eapply wf_host; eauto. Qed.
Lemma wf_link_nil s a b : pwf s -> a ∉ pconn s -> b ∉ pconn s -> plink s a b = [].
Proof.
  intros Hwf Ha Hb. destruct (plink s a b) eqn:Hl; [reflexivity|].
  destruct (wf_link s a b Hwf) as [[_ H]|[_ H]]; [rewrite Hl; discriminate|contradiction|contradiction].
Qed.
Lemma wf_absent s p : pwf s -> ~ ppeers s p -> ppar s p = None /\ pchg s p = false.
Proof.
  intros Hwf Hp. unfold ppar, pchg. rewrite pget_none; [auto|].
  destruct (pp s !! p) eqn:Hx; [|reflexivity]. exfalso. apply Hp. apply (wf_exists s p Hwf). eauto.
Qed.

Lemma step_wf s e s' : pwf s -> pstep s e = Some s' -> pwf s'.
Proof.
  intros Hwf Hstep. pose proof Hwf as (Hnd & Hh & Hex & Hlk). destruct e as [p u|p|src dst|c].
  - apply step_set in Hstep as (_ & Hc & Hl & He & _).
    unfold pwf, ppeers, plink. rewrite Hc, Hl. repeat split; try assumption.
    + intros H. apply Hex, He, H. + intros H. apply He, Hex, H.
  - apply step_announce in Hstep as (Hp & [(_ & ->)|(_ & Hc & He & _ & Hl)]); [exact Hwf| |exact Hnd].
    unfold pwf, ppeers. rewrite Hc. repeat split; try assumption.
    + intros H. apply Hex, He, H. + intros H. apply He, Hex, H.
    + intros a b. rewrite Hl. destruct (decide (a = p /\ b ∈ pdsts s p)) as [[-> Hin]|_]; [|apply Hlk].
      intros _. unfold pdsts in Hin. destruct (p =? host)%N eqn:Hph.
      * apply N.eqb_eq in Hph. left. auto.
      * apply N.eqb_neq in Hph. apply elem_of_list_singleton in Hin. right. split; [exact Hin|].
        apply Hex in Hp as [Hp|Hp]; [contradiction|exact Hp].
  - apply step_deliver in Hstep as (u & rest & Hl0 & Hd & Hc & He & _ & Hl); [|exact Hnd].
    unfold pwf, ppeers. rewrite Hc. repeat split; try assumption.
    + intros H. apply Hex, He, H. + intros H. apply He, Hex, H.
    + intros a b. rewrite Hl.
      destruct (decide (dst = host /\ a = host /\ b ∈ pothers src (pconn s))) as [(_ & -> & Hin)|_].
      * intros _. left. split; [reflexivity|]. apply elem_of_pothers in Hin. tauto.
      * rewrite app_nil_r. destruct (decide ((a, b) = (src, dst))) as [Heq|_]; [|apply Hlk].
        inversion Heq; subst. intros _. apply Hlk. rewrite Hl0. discriminate.
  - apply step_join in Hstep as (Hc0 & Hcn & Hnone & Hc & He & _ & Hl).
    unfold pwf, ppeers. rewrite Hc. split; [|split; [|split]].
    + apply NoDup_app. split; [exact Hnd|]. split; [|apply NoDup_singleton].
      intros x Hx Hx'. apply elem_of_list_singleton in Hx'. subst. contradiction.
    + intros H. apply elem_of_app in H as [H|H]; [contradiction|]. apply elem_of_list_singleton in H. congruence.
    + intros q. rewrite He, Hex. unfold ppeers. rewrite elem_of_app, elem_of_list_singleton. tauto.
    + intros a b. rewrite Hl. rewrite elem_of_app, elem_of_app, !elem_of_list_singleton.
      destruct (decide ((a, b) = (host, c))) as [Heq|_].
      * inversion Heq; subst. intros _. left. auto.
      * intros H. apply Hlk in H. tauto.
Qed.

Lemma run_wf s tr s' : pwf s -> prun s tr = Some s' -> pwf s'.
Proof.
  revert s. induction tr as [|e tr IH]; intros s Hwf Hrun; simpl in Hrun.
  - congruence.
  - destruct (pstep s e) as [s1|] eqn:Hs; [|discriminate]. eapply IH; [|exact Hrun]. eapply step_wf; eauto.
Qed.

Lemma prun_app s tr1 tr2 :
  prun s (tr1 ++ tr2) = match prun s tr1 with Some s1 => prun s1 tr2 | None => None end.
Proof. revert s. induction tr1 as [|e tr1 IH]; intros s; simpl; [reflexivity|]. destruct (pstep s e); [apply IH|reflexivity]. Qed.

Lemma elem_of_pclients n p : p ∈ pclients n <-> (1 <= p <= N.of_nat n)%N.
Proof.
  unfold pclients. rewrite elem_of_list_fmap. split.
  - intros (k & -> & Hk). apply elem_of_seq in Hk. lia.
  - intros H. exists (N.to_nat p). split; [lia|]. apply elem_of_seq. lia.
Qed.

Lemma NoDup_pclients n : NoDup (pclients n).
Proof. unfold pclients. apply NoDup_fmap_2; [intros a b; lia|apply NoDup_seq]. Qed.

Lemma length_pclients n : length (pclients n) = n.
Proof. unfold pclients. rewrite fmap_length, seq_length. reflexivity. Qed.

Lemma pinit_pget n p : pget (pinit n) p = ppeer0.
Proof.
  unfold pget. destruct (pp (pinit n) !! p) as [x|] eqn:Hx; [|reflexivity]. simpl.
  unfold pinit in Hx; cbn [pp] in Hx. apply elem_of_list_to_map_2 in Hx.
  apply elem_of_list_fmap in Hx as (q & Heq & _). congruence.
Qed.

Lemma pinit_link n a b : plink (pinit n) a b = [].
Proof. reflexivity. Qed.

Lemma pinit_wf n : pwf (pinit n).
Proof.
  unfold pwf. split; [apply NoDup_pclients|]. split; [|split].
  - simpl. rewrite elem_of_pclients. unfold host. lia.
  - intros p. unfold pinit, ppeers; cbn [pp pconn].
    set (l := (fun p => (p, ppeer0)) <$> host :: pclients n).
    assert (Hfst : l.*1 = host :: pclients n).
    { unfold l. rewrite <- list_fmap_compose. simpl. f_equal. induction (pclients n); simpl; congruence. }
    split.
    + intros [x Hx]. apply elem_of_list_to_map_2 in Hx. apply (elem_of_list_fmap_1 fst) in Hx.
      rewrite Hfst in Hx. simpl in Hx. apply elem_of_cons in Hx. exact Hx.
    + intros Hp. destruct (list_to_map l !! p) eqn:Hx; [eauto|].
      apply not_elem_of_list_to_map in Hx. rewrite Hfst in Hx. exfalso. apply Hx. apply elem_of_cons. exact Hp.
  - intros a b H. exfalso. apply H. reflexivity.
Qed.

Lemma pinit_quiescent n : pquiescent (pinit n).
Proof.
  split; [apply map_Forall_empty|].
  intros p x Hx. unfold pinit in Hx; cbn [pp] in Hx. apply elem_of_list_to_map_2 in Hx.
  apply elem_of_list_fmap in Hx as (q & Heq & _). inversion Heq; subst. reflexivity.
Qed.

Lemma quiescent_link s a b : pquiescent s -> plink s a b = [].
Proof.
  intros [H _]. unfold plink, plget. destruct (plinks s !! (a, b)) as [l|] eqn:Hl; [|reflexivity]. simpl. eapply H. exact Hl.
Qed.
Lemma quiescent_chg s p : pquiescent s -> pchg s p = false.
Proof.
  intros [_ H]. unfold pchg, pget. destruct (pp s !! p) as [x|] eqn:Hx; simpl; [|reflexivity].
  apply (H p x Hx).
Qed.
Lemma quiescent_intro s : (forall a b, plink s a b = []) -> (forall p, pchg s p = false) -> pquiescent s.
Proof.
  intros Hl Hp. split.
  - intros [a b] l Hx. specialize (Hl a b). unfold plink, plget in Hl. rewrite Hx in Hl. exact Hl.
  - intros p x Hx. specialize (Hp p). unfold pchg, pget in Hp. rewrite Hx in Hp. exact Hp.
Qed.
Lemma quiescent_iff s : pquiescent s <-> (forall a b, plink s a b = []) /\ (forall p, pchg s p = false).
Proof.
  split; [|intros [H1 H2]; apply quiescent_intro; assumption].
  intros H. split; [intros a b; apply quiescent_link; exact H|intros p; apply quiescent_chg; exact H].
Qed.

(* a state that is not quiescent has a raised flag or a message in flight *)
Lemma not_quiescent s :
  ~ pquiescent s -> (exists p, pchg s p = true) \/ (exists a b, plink s a b <> []).
Proof.
  intros Hn. destruct (decide (map_Forall (fun _ l => l = []) (plinks s))) as [Hl|Hl].
  - left. destruct (decide (map_Forall (fun (_ : peer) x => changed x = false) (pp s))) as [Hp|Hp].
    + exfalso. apply Hn. split; assumption.
    + apply map_not_Forall in Hp; [|apply _]. destruct Hp as (p & x & Hx & Hc). exists p.
      unfold pchg. rewrite (pget_exists _ _ _ Hx). destruct (changed x); [reflexivity|contradiction].
  - right. apply map_not_Forall in Hl; [|apply _]. destruct Hl as ([a b] & l & Hx & Hc). exists a, b.
    unfold plink, plget. rewrite Hx. exact Hc.
Qed.

(* ================================================================================================
   Part 3: a quiescent state is stable -- only PSet / PJoin change anything
   ================================================================================================ *)

Theorem quiescent_is_stable s :
  pquiescent s ->
  forall e s', pstep s e = Some s' -> (match e with PSet _ _ | PJoin _ => True | _ => False end) \/ s' = s.
Proof.
  intros Hq e s' Hstep. destruct e as [p u|p|src dst|c]; [left; exact I| | |left; exact I]; right.
  - simpl in Hstep. destruct (pp s !! p) as [x|] eqn:Hx; [|discriminate].
    pose proof (quiescent_chg s p Hq) as Hc. unfold pchg in Hc. rewrite (pget_exists _ _ _ Hx) in Hc.
    rewrite Hc in Hstep. congruence.
  - simpl in Hstep. rewrite (quiescent_link s src dst Hq) in Hstep. discriminate.
Qed.
Print Assumptions quiescent_is_stable.

Corollary quiescent_run_stable s tr s' :
  pquiescent s -> Forall drain_event tr -> prun s tr = Some s' -> s' = s /\ ptotal_sent s tr = 0.
Proof.
  intros Hq Hd. revert s' . induction Hd as [|e tr He Hd IH]; intros s' Hrun; simpl in *; [split; congruence|].
  destruct (pstep s e) as [s1|] eqn:Hs; [|discriminate].
  destruct (quiescent_is_stable s Hq e s1 Hs) as [Hk | ->]; [destruct e; simpl in He, Hk; contradiction|].
  destruct (IH s' Hrun) as [-> Ht]. split; [reflexivity|]. rewrite Ht.
  destruct e as [p u|p|src dst|c]; simpl in *; try contradiction.
  - rewrite (quiescent_chg _ _ Hq). reflexivity.
  - rewrite (quiescent_link _ _ _ Hq). reflexivity.
Qed.

Example quiescent_is_stable_nonvacuous :
  (fun s => (pquiescentb s, (fun s' => pview s' [0; 1; 2]%N) <$> pstep s (PAnnounce 2%N),
             (fun s' => pview s' [0; 1; 2]%N) <$> pstep s (PDeliver 0%N 2%N),
             (fun s' => pview s' [0; 1; 2]%N) <$> pstep s (PSet 2%N 8%N))) <$> prun (pinit 2) ex_single
  = Some (true, Some ([Some 7; Some 7; Some 7]%N, true), None, Some ([Some 7; Some 7; Some 8]%N, false)).
Proof. vm_compute. reflexivity. Qed.

(* ================================================================================================
   Part 3b: the tracker invariant; the invariants of every run from [pinit n]   (theorem 1)
   ================================================================================================ *)

(* the record of every peer after one event, without any assumption on the state *)
Lemma step_pget s e s' q :
  pstep s e = Some s' ->
  pget s' q =
  match e with
  | PSet p u => if decide (q = p) then pset_rec u (pget s p) else pget s q
  | PAnnounce p => if decide (q = p) then (if pchg s p then pann_peer (pget s p) else pget s p) else pget s q
  | PDeliver src dst =>
      if decide (q = dst) then match plink s src dst with u :: _ => pdel_peer u (pget s dst) | [] => pget s q end
      else pget s q
  | PJoin _ => pget s q
  end.
Proof.
  intros Hstep. destruct e as [p u|p|src dst|c].
  - apply step_set in Hstep as (_ & _ & _ & _ & Hg). apply Hg.
  - simpl in Hstep. destruct (pp s !! p) as [x|] eqn:Hx; [|discriminate].
    unfold pchg. rewrite (pget_exists _ _ _ Hx).
    destruct (changed x); injection Hstep as <-.
    + rewrite pget_insert_dec. reflexivity.
    + destruct (decide (q = p)) as [->|_]; [apply pget_exists; exact Hx|reflexivity].
  - simpl in Hstep. destruct (plink s src dst) as [|u rest]; [discriminate|].
    destruct (pp s !! dst) as [x|] eqn:Hx; [|discriminate].
    injection Hstep as <-. rewrite pget_insert_dec, (pget_exists _ _ _ Hx). reflexivity.
  - apply step_join in Hstep as (_ & _ & _ & _ & _ & Hg & _). apply Hg.
Qed.

Lemma step_sync_inv s e s' : psync_inv s -> pstep s e = Some s' -> psync_inv s'.
Proof.
  intros Hinv Hstep q. unfold ptok, pchg, ppar. rewrite (step_pget s e s' q Hstep).
  pose proof (Hinv q) as Hq. unfold ptok, pchg, ppar in Hq.
  destruct e as [p u|p|src dst|c].
  - destruct (decide (q = p)) as [->|_]; [|exact Hq]. simpl. split; [reflexivity|discriminate].
  - destruct (decide (q = p)) as [->|_]; [|exact Hq]. destruct (pchg s p); [|exact Hq].
    simpl. split; [intros H; exfalso; apply H; reflexivity|discriminate].
  - destruct (decide (q = dst)) as [->|_]; [|exact Hq]. destruct (plink s src dst) as [|u rest]; [exact Hq|].
    pose proof (Hinv dst) as Hd. unfold ptok, pchg, ppar in Hd.
    unfold pdel_peer. destruct (bool_decide (par (pget s dst) = Some u)); [exact Hd|].
    simpl. split; [reflexivity|discriminate].
  - exact Hq.
Qed.

Lemma pinit_sync_inv n : psync_inv (pinit n).
Proof.
  intros p. unfold ptok, pchg, ppar. rewrite pinit_pget. simpl.
  split; [intros H; exfalso; apply H; reflexivity|discriminate].
Qed.

Lemma run_sync_inv s tr s' : psync_inv s -> prun s tr = Some s' -> psync_inv s'.
Proof.
  revert s. induction tr as [|e tr IH]; intros s Hinv Hrun; simpl in Hrun.
  - injection Hrun as <-. exact Hinv.
  - destruct (pstep s e) as [s1|] eqn:Hs; [|discriminate]. eapply IH; [|exact Hrun]. eapply step_sync_inv; eauto.
Qed.

(* THEOREM 1: every state of every run from [pinit n] is well-formed and satisfies the tracker
   invariant: a token is present only while the flag is raised, a raised flag means a parent *)
Theorem pinit_run_invariant n tr s :
  prun (pinit n) tr = Some s ->
  pwf s /\ forall p, (ptok s p <> None -> pchg s p = true) /\ (pchg s p = true -> ppar s p <> None).
Proof.
  intros Hrun. split.
  - eapply run_wf; [apply pinit_wf|exact Hrun].
  - eapply run_sync_inv; [apply pinit_sync_inv|exact Hrun].
Qed.
Print Assumptions pinit_run_invariant.

(* where a token comes from: it is the parent applied by a delivery (and it is the current parent
   at that moment); only a later local set_parent can make the parent differ from it *)
Lemma token_origin s e s' p u :
  pstep s e = Some s' -> ptok s' p = Some u ->
  ptok s p = Some u \/ (exists src, e = PDeliver src p) /\ ppar s' p = Some u /\ pchg s' p = true.
Proof.
  intros Hstep. unfold ptok, ppar, pchg. rewrite (step_pget s e s' p Hstep).
  destruct e as [q v|q|src dst|c]; [| | |auto].
  - destruct (decide (p = q)) as [->|_]; simpl; auto.
  - destruct (decide (p = q)) as [->|_]; [|auto]. destruct (pchg s q); [simpl; discriminate|auto].
  - destruct (decide (p = dst)) as [->|_]; [|auto]. destruct (plink s src dst) as [|m rest]; [auto|].
    unfold pdel_peer. destruct (bool_decide (par (pget s dst) = Some m)); [auto|].
    simpl. intros [= ->]. right. eauto.
Qed.

(* ... and only a local set_parent: a token that is not the current parent was already so before the
   event, or the event is a PSet on that peer *)
Lemma token_differs_only_by_set s e s' p u :
  pstep s e = Some s' -> ptok s' p = Some u -> ppar s' p <> Some u ->
  ptok s p = Some u /\ (ppar s p <> Some u \/ exists v, e = PSet p v).
Proof.
  intros Hstep Ht Hne. destruct (token_origin s e s' p u Hstep Ht) as [H|(_ & H & _)]; [|contradiction].
  split; [exact H|].
  pose proof (step_pget s e s' p Hstep) as Hg.
  destruct e as [q v|q|src dst|c].
  - destruct (decide (p = q)) as [->|Hpq]; [right; eauto|left].
    intros Hp. apply Hne. unfold ppar in *. rewrite Hg. exact Hp.
  - left. intros Hp. apply Hne. unfold ppar in *. rewrite Hg.
    destruct (decide (p = q)) as [->|_]; [|exact Hp]. destruct (pchg s q); exact Hp.
  - left. intros Hp. apply Hne. unfold ppar, ptok in *. rewrite Hg in Ht |- *.
    destruct (decide (p = dst)) as [->|_]; [|exact Hp]. destruct (plink s src dst) as [|m rest]; [exact Hp|].
    unfold pdel_peer in *. destruct (bool_decide (par (pget s dst) = Some m)); [exact Hp|].
    simpl in *. exact Ht.
  - left. intros Hp. apply Hne. unfold ppar in *. rewrite Hg. exact Hp.
Qed.

Example pinit_run_invariant_nonvacuous :
  (fun s => (ptok s <$> [0; 1; 2]%N, pchg s <$> [0; 1; 2]%N)) <$>
     prun (pinit 2) [PSet 1 7; PAnnounce 1; PDeliver 1 0; PDeliver 0 2]%N
  = Some ([Some 7; None; Some 7]%N, [true; false; true]).
Proof. vm_compute. reflexivity. Qed.

(* ================================================================================================
   Part 4: NO ECHO (the parent-link part of C09): applying a link received from the network never
   makes a peer emit a message.  [parmed s p] ("armed") is exactly "the next run of p's announcing
   system sends something"; only a LOCAL set_parent on p arms p.
   ================================================================================================ *)

Lemma sends_iff_armed s p :
  psync_inv s -> pdsts s p <> [] -> (psent_by s (PAnnounce p) <> 0 <-> parmed s p = true).
Proof.
  intros Hinv Hd. unfold psent_by, parmed, pann_msg. destruct (Hinv p) as [_ Hpar].
  unfold ppar, ptok, pchg in *. destruct (changed (pget s p)); [|simpl; split; [congruence|discriminate]].
  destruct (par (pget s p)) as [u|]; [|exfalso; apply Hpar; reflexivity].
  simpl. destruct (pdsts s p) as [|d l]; [contradiction|].
  destruct (decide (tok (pget s p) = Some u)) as [Ht|Ht].
  - rewrite (bool_decide_eq_true_2 _ Ht). rewrite bool_decide_eq_true_2 by congruence. simpl. split; [congruence|discriminate].
  - rewrite (bool_decide_eq_false_2 _ Ht). rewrite bool_decide_eq_false_2 by congruence. simpl. split; [reflexivity|discriminate].
Qed.

Lemma sends_only_if_armed s p : psent_by s (PAnnounce p) <> 0 -> parmed s p = true.
Proof.
  unfold psent_by, parmed, pann_msg, ppar, ptok, pchg. destruct (changed (pget s p)); [|congruence].
  destruct (par (pget s p)) as [u|]; [|simpl; congruence].
  destruct (decide (tok (pget s p) = Some u)) as [Ht|Ht].
  - rewrite (bool_decide_eq_true_2 _ Ht). simpl. congruence.
  - intros _. simpl. rewrite bool_decide_eq_false_2 by congruence. reflexivity.
Qed.

(* only a local set_parent arms a peer: no delivery, no announcement, no join does *)
Theorem armed_only_by_set s e s' p :
  pstep s e = Some s' -> parmed s' p = true -> parmed s p = true \/ exists u, e = PSet p u.
Proof.
  intros Hstep. rewrite !parmed_rarmed, (step_pget s e s' p Hstep).
  destruct e as [q v|q|src dst|c]; [| | |auto].
  - destruct (decide (p = q)) as [->|_]; [eauto|auto].
  - destruct (decide (p = q)) as [->|_]; [|auto]. destruct (pchg s q); [|auto].
    unfold rarmed. simpl. discriminate.
  - destruct (decide (p = dst)) as [->|_]; [|auto]. destruct (plink s src dst) as [|m rest]; [auto|].
    unfold pdel_peer. destruct (bool_decide (par (pget s dst) = Some m)); [auto|].
    unfold rarmed. simpl. rewrite bool_decide_eq_true_2 by reflexivity. discriminate.
Qed.
Print Assumptions armed_only_by_set.

(* THEOREM 2a: the announcing system of the receiver stays silent after a delivery, unless the
   receiver had a local change of its own waiting *)
Theorem deliver_no_echo s src dst s1 :
  pstep s (PDeliver src dst) = Some s1 -> parmed s dst = false -> psent_by s1 (PAnnounce dst) = 0.
Proof.
  intros Hstep Hna. destruct (Nat.eq_dec (psent_by s1 (PAnnounce dst)) 0) as [H|H]; [exact H|].
  apply sends_only_if_armed in H.
  destruct (armed_only_by_set _ _ _ _ Hstep H) as [Ha|[u Hu]]; [congruence|discriminate].
Qed.
Print Assumptions deliver_no_echo.

Corollary deliver_no_echo_flag_down s src dst s1 :
  pstep s (PDeliver src dst) = Some s1 -> pchg s dst = false -> psent_by s1 (PAnnounce dst) = 0.
Proof. intros Hstep Hc. apply (deliver_no_echo s src dst s1 Hstep). unfold parmed. rewrite Hc. reflexivity. Qed.

(* a local set_parent between a delivery that applied u and the next announcement is announced
   iff it gives a parent different from u: a different value is never swallowed *)
Lemma set_after_apply_announced s p u v s1 :
  ptok s p = Some u -> pstep s (PSet p v) = Some s1 ->
  psent_by s1 (PAnnounce p) = if bool_decide (v = u) then 0 else length (pdsts s1 p).
Proof.
  intros Ht Hstep. unfold psent_by, pchg, ptok in *. rewrite (step_pget _ _ _ p Hstep).
  destruct (decide (p = p)) as [_|Hn]; [|contradiction]. simpl. unfold pann_msg. simpl. rewrite Ht.
  destruct (decide (v = u)) as [->|Hne].
  - rewrite !bool_decide_eq_true_2 by reflexivity. reflexivity.
  - rewrite !bool_decide_eq_false_2 by congruence. simpl. lia.
Qed.

(* THEOREM 2b: from a state where no peer is armed, NO run of announce / deliver events (any
   schedule, any length) originates a message: everything that is sent is a relay by the host *)
Theorem no_echo s tr s' :
  (forall p, parmed s p = false) -> Forall drain_event tr -> prun s tr = Some s' ->
  (forall p, parmed s' p = false) /\ ptotal_announced s tr = 0.
Proof.
  intros Hna Hd. revert s Hna. induction Hd as [|e tr He Hd IH]; intros s Hna Hrun; simpl in *.
  - injection Hrun as <-. auto.
  - destruct (pstep s e) as [s1|] eqn:Hs; [|discriminate].
    assert (Hna1 : forall p, parmed s1 p = false).
    { intros p. destruct (parmed s1 p) eqn:Ha; [|reflexivity].
      destruct (armed_only_by_set _ _ _ _ Hs Ha) as [H|[u ->]]; [rewrite Hna in H; discriminate|contradiction]. }
    destruct (IH s1 Hna1 Hrun) as [Hfin Hz]. split; [exact Hfin|]. rewrite Hz.
    destruct e as [p u|p|src dst|c]; simpl; try reflexivity.
    destruct (Nat.eq_dec (psent_by s (PAnnounce p)) 0) as [H|H]; [simpl in H; rewrite H; reflexivity|].
    apply sends_only_if_armed in H. rewrite Hna in H. discriminate.
Qed.
Print Assumptions no_echo.

(* THEOREM 2c (histories): whenever a peer is armed, the parent it is about to announce was given by
   a local set_parent on that peer, and the peer's announcing system has not run since *)
Definition resets (p : peer) (e : pevent) : Prop :=
  match e with PSet q _ | PAnnounce q => q = p | _ => False end.

Theorem C09_announce_has_local_cause s0 tr s p :
  prun s0 tr = Some s -> parmed s p = true ->
  parmed s0 p = true \/
  exists tr1 u tr2, tr = tr1 ++ PSet p u :: tr2 /\ ppar s p = Some u /\ Forall (fun e => ~ resets p e) tr2.
Proof.
  revert s. induction tr as [|e tr IH] using rev_ind; intros s Hrun Ha.
  - simpl in Hrun. injection Hrun as <-. left. exact Ha.
  - rewrite prun_app in Hrun. destruct (prun s0 tr) as [s1|] eqn:Hr1; [|discriminate].
    simpl in Hrun. destruct (pstep s1 e) as [s2|] eqn:Hs; [|discriminate]. injection Hrun as ->.
    destruct (armed_only_by_set _ _ _ _ Hs Ha) as [Ha1|[u ->]].
    + (* e did not arm p: it is not a reset of p (a reset would have disarmed it or is a PSet) *)
      assert (Hkeep : (exists u, e = PSet p u) \/ (~ resets p e /\ pget s p = pget s1 p)).
      { pose proof (step_pget s1 e s p Hs) as Hg. rewrite parmed_rarmed in Ha.
        destruct e as [q v|q|src dst|c]; simpl.
        - destruct (decide (p = q)) as [->|Hne]; [left; eauto|right; split; [congruence|exact Hg]].
        - right. destruct (decide (p = q)) as [->|Hne]; [|split; [congruence|exact Hg]].
          destruct (pchg s1 q) eqn:Hc.
          + rewrite Hg in Ha. unfold rarmed in Ha. simpl in Ha. discriminate.
          + rewrite parmed_rarmed in Ha1. unfold rarmed in Ha1. unfold pchg in Hc. rewrite Hc in Ha1. discriminate.
        - right. split; [tauto|]. destruct (decide (p = dst)) as [->|Hne]; [|exact Hg].
          destruct (plink s1 src dst) as [|m rest]; [exact Hg|]. rewrite Hg. unfold pdel_peer.
          destruct (bool_decide (par (pget s1 dst) = Some m)) eqn:Hb; [reflexivity|].
          rewrite Hg in Ha. unfold pdel_peer in Ha. rewrite Hb in Ha. unfold rarmed in Ha. simpl in Ha.
          rewrite bool_decide_eq_true_2 in Ha by reflexivity. discriminate.
        - right. split; [tauto|exact Hg]. }
      destruct Hkeep as [[u ->]|[Hnr Hsame]].
      * right. exists tr, u, []. split; [reflexivity|]. split; [|constructor].
        unfold ppar. rewrite (step_pget _ _ _ p Hs). destruct (decide (p = p)); [reflexivity|contradiction].
      * destruct (IH s1 eq_refl Ha1) as [H0|(tr1 & u & tr2 & -> & Hpar & Hall)]; [left; exact H0|].
        right. exists tr1, u, (tr2 ++ [e]). split; [rewrite <- app_assoc; reflexivity|].
        split; [unfold ppar in *; rewrite Hsame; exact Hpar|].
        apply Forall_app. split; [exact Hall|constructor; [exact Hnr|constructor]].
    + right. exists tr, u, []. split; [reflexivity|]. split; [|constructor].
      unfold ppar. rewrite (step_pget _ _ _ p Hs). destruct (decide (p = p)); [reflexivity|contradiction].
Qed.
Print Assumptions C09_announce_has_local_cause.

Lemma pinit_unarmed n p : parmed (pinit n) p = false.
Proof. rewrite parmed_rarmed, pinit_pget. reflexivity. Qed.

(* non-vacuity: after client 2 applied the relayed parent its announcing system is silent, while
   client 1 (armed by its own set_parent) announces; a peer that re-parents locally after applying a
   link does announce *)
Example no_echo_nonvacuous :
  (fun s => (parmed s <$> [0; 1; 2]%N, psent_by s (PAnnounce 2%N), psent_by s (PAnnounce 0%N))) <$>
     prun (pinit 2) [PSet 1 7; PAnnounce 1; PDeliver 1 0; PDeliver 0 2]%N
  = Some ([false; false; false], 0, 0) /\
  (fun s => (parmed s 1%N, psent_by s (PAnnounce 1%N))) <$> prun (pinit 2) [PSet 1 7]%N = Some (true, 1) /\
  (fun s => (parmed s 2%N, psent_by s (PAnnounce 2%N))) <$>
     prun (pinit 2) [PSet 1 7; PAnnounce 1; PDeliver 1 0; PDeliver 0 2; PSet 2 8]%N = Some (true, 1) /\
  (fun s => (parmed s 2%N, psent_by s (PAnnounce 2%N))) <$>
     prun (pinit 2) [PSet 1 7; PAnnounce 1; PDeliver 1 0; PDeliver 0 2; PSet 2 7]%N = Some (false, 0).
Proof. vm_compute. auto. Qed.

(* ================================================================================================
   Part 5: termination measure and traffic potential -- for ANY well-formed state, no premise on the
   history (theorems 3 and 4)
   ================================================================================================ *)

Lemma sumf_all_k f g l k : (forall c, c ∈ l -> g c = f c + k) -> sumf g l = sumf f l + k * length l.
Proof.
  induction l as [|a l IH]; intros H; [simpl; lia|]. simpl.
  rewrite (H a) by left. rewrite IH; [lia|]. intros c Hc. apply H. right. exact Hc.
Qed.

Lemma wsum_one f s s' p :
  pwf s -> pconn s' = pconn s -> ppeers s p -> (forall q, q <> p -> pget s' q = pget s q) ->
  wsum f s' + f (pget s p) = wsum f s + f (pget s' p).
Proof.
  intros Hwf Hc Hp Hsame. unfold wsum. rewrite Hc. destruct Hp as [->|Hp].
  - rewrite (sumf_ext (fun c => f (pget s c)) (fun c => f (pget s' c))); [lia|].
    intros c Hcc. simpl. rewrite Hsame; [reflexivity|]. eapply wf_conn_ne; eauto.
  - rewrite (Hsame host) by (intros E; symmetry in E; revert E; eapply wf_conn_ne; eauto).
    pose proof (sumf_one (fun c => f (pget s c)) (fun c => f (pget s' c)) (pconn s) p (wf_nodup s Hwf) Hp) as H.
    lapply H; [simpl; lia|]. intros c' _ Hne. simpl. rewrite Hsame by exact Hne. reflexivity.
Qed.

Lemma wsum_same f s s' :
  pconn s' = pconn s -> (forall q, pget s' q = pget s q) -> wsum f s' = wsum f s.
Proof.
  intros Hc Hsame. unfold wsum. rewrite Hc, Hsame. f_equal. apply sumf_ext. intros c _. rewrite Hsame. reflexivity.
Qed.

Lemma drain_step_conn s e s' : drain_event e -> pstep s e = Some s' -> pconn s' = pconn s.
Proof.
  intros He Hstep. destruct e as [p x|p|src dst|c]; simpl in He; try contradiction; simpl in Hstep.
  - destruct (pp s !! p) as [y|]; [|discriminate]. destruct (changed y); injection Hstep as <-; reflexivity.
  - destruct (plink s src dst); [discriminate|]. destruct (pp s !! dst); [|discriminate].
    injection Hstep as <-. reflexivity.
Qed.

Lemma pdsts_client s p : p <> host -> pdsts s p = [host].
Proof. intros H. unfold pdsts. destruct (p =? host)%N eqn:E; [apply N.eqb_eq in E; contradiction|reflexivity]. Qed.

(* the link counters after an effective announce / deliver event *)
Lemma cnt_announce_host s s' :
  pwf s -> pchg s host = true -> pstep s (PAnnounce host) = Some s' ->
  pups s' = pups s /\ pdowns s' = pdowns s + length (pann_msg (pget s host)) * length (pconn s).
Proof.
  intros Hwf Hflag Hstep.
  pose proof (drain_step_conn s (PAnnounce host) s' I Hstep) as Hc.
  apply step_announce in Hstep as (_ & [(Hn & _)|(_ & _ & _ & _ & Hl)]); [congruence| |apply wf_nodup; exact Hwf].
  unfold pups, pdowns. rewrite Hc. split.
  - apply sumf_ext. intros c Hcc. rewrite Hl. destruct (decide (c = host /\ _)) as [[-> _]|_]; [|reflexivity].
    exfalso. eapply wf_host; eauto.
  - apply sumf_all_k. intros c Hcc. rewrite Hl.
    destruct (decide (host = host /\ c ∈ pdsts s host)) as [_|Hn]; [rewrite app_length; reflexivity|].
    exfalso. apply Hn. split; [reflexivity|exact Hcc].
Qed.

Lemma cnt_announce_client s p s' :
  pwf s -> p ∈ pconn s -> pchg s p = true -> pstep s (PAnnounce p) = Some s' ->
  pups s' = pups s + length (pann_msg (pget s p)) /\ pdowns s' = pdowns s.
Proof.
  intros Hwf Hpc Hflag Hstep.
  pose proof (drain_step_conn s (PAnnounce p) s' I Hstep) as Hc.
  pose proof (wf_conn_ne s p Hwf Hpc) as Hph. pose proof (wf_nodup s Hwf) as Hnd.
  apply step_announce in Hstep as (_ & [(Hn & _)|(_ & _ & _ & _ & Hl)]); [congruence| |exact Hnd].
  rewrite (pdsts_client s p Hph) in Hl.
  unfold pups, pdowns. rewrite Hc. split.
  - pose proof (sumf_one (fun c => length (plink s c host)) (fun c => length (plink s' c host)) (pconn s) p Hnd Hpc) as H.
    lapply H.
    + intros H'. rewrite (Hl p host) in H'.
      destruct (decide (p = p /\ host ∈ [host])) as [_|Hn]; [rewrite app_length in H'; lia|].
      exfalso. apply Hn. split; [reflexivity|apply elem_of_list_singleton; reflexivity].
    + intros c' _ Hne. simpl. rewrite Hl. destruct (decide (c' = p /\ _)) as [[-> _]|_]; [contradiction|reflexivity].
  - apply sumf_ext. intros c Hcc. rewrite Hl. destruct (decide (host = p /\ _)) as [[E _]|_]; [congruence|reflexivity].
Qed.

Lemma cnt_deliver_up s src s' :
  pwf s -> src ∈ pconn s -> pstep s (PDeliver src host) = Some s' ->
  pups s' + 1 = pups s /\ pdowns s' + 1 = pdowns s + length (pconn s).
Proof.
  intros Hwf Hsc Hstep. pose proof (drain_step_conn s (PDeliver src host) s' I Hstep) as Hc.
  pose proof (wf_conn_ne s src Hwf Hsc) as Hsh. pose proof (wf_nodup s Hwf) as Hnd.
  apply step_deliver in Hstep as (m & rest & Hl0 & _ & _ & _ & _ & Hl); [|exact Hnd].
  unfold pups, pdowns. rewrite Hc. split.
  - pose proof (sumf_one (fun c => length (plink s c host)) (fun c => length (plink s' c host)) (pconn s) src Hnd Hsc) as H.
    lapply H.
    + intros H'. rewrite (Hl src host), Hl0 in H'.
      destruct (decide ((src, host) = (src, host))) as [_|Hn]; [|contradiction].
      destruct (decide (host = host /\ src = host /\ _)) as [(_ & E & _)|_]; [contradiction|].
      rewrite app_nil_r in H'. simpl in H'. lia.
    + intros c' Hc' Hne. simpl. rewrite Hl.
      destruct (decide ((c', host) = (src, host))) as [E|_]; [congruence|].
      destruct (decide (host = host /\ c' = host /\ _)) as [(_ & E & _)|_]; [|rewrite app_nil_r; reflexivity].
      exfalso. subst c'. eapply wf_host; eauto.
  - apply (sumf_others _ _ _ src Hnd Hsc).
    + rewrite Hl. destruct (decide ((host, src) = (src, host))) as [E|_]; [congruence|].
      destruct (decide (host = host /\ host = host /\ src ∈ pothers src (pconn s))) as [(_ & _ & E)|_]; [|rewrite app_nil_r; reflexivity].
      apply elem_of_pothers in E. tauto.
    + intros c' Hc' Hne. rewrite Hl. destruct (decide ((host, c') = (src, host))) as [E|_]; [congruence|].
      destruct (decide (host = host /\ host = host /\ c' ∈ pothers src (pconn s))) as [_|Hn]; [rewrite app_length; reflexivity|].
      exfalso. apply Hn. split; [reflexivity|]. split; [reflexivity|]. apply elem_of_pothers. auto.
Qed.

Lemma cnt_deliver_down s dst s' :
  pwf s -> dst ∈ pconn s -> pstep s (PDeliver host dst) = Some s' ->
  pups s' = pups s /\ pdowns s' + 1 = pdowns s.
Proof.
  intros Hwf Hdc Hstep. pose proof (drain_step_conn s (PDeliver host dst) s' I Hstep) as Hc.
  pose proof (wf_conn_ne s dst Hwf Hdc) as Hdh. pose proof (wf_nodup s Hwf) as Hnd.
  apply step_deliver in Hstep as (m & rest & Hl0 & _ & _ & _ & _ & Hl); [|exact Hnd].
  assert (Hnorelay : forall a b, plink s' a b = if decide ((a, b) = (host, dst)) then rest else plink s a b).
  { intros a b. rewrite Hl. destruct (decide (dst = host /\ _)) as [[E _]|_]; [contradiction|]. apply app_nil_r. }
  unfold pups, pdowns. rewrite Hc. split.
  - apply sumf_ext. intros c Hcc. rewrite Hnorelay. destruct (decide ((c, host) = (host, dst))) as [E|_]; [|reflexivity].
    congruence.
  - pose proof (sumf_one (fun c => length (plink s host c)) (fun c => length (plink s' host c)) (pconn s) dst Hnd Hdc) as H.
    lapply H.
    + intros H'. rewrite (Hnorelay host dst), Hl0 in H'.
      destruct (decide ((host, dst) = (host, dst))) as [_|Hn]; [simpl in H'; lia|contradiction].
    + intros c' _ Hne. simpl. rewrite Hnorelay. destruct (decide ((host, c') = (host, dst))) as [E|_]; [congruence|reflexivity].
Qed.

(* the weights of a peer record after its own announcement / a delivery *)
Lemma pw1_announce n x :
  changed x = true ->
  pw1 n (pann_peer x) = 0 /\ 1 <= pw1 n x /\ length (pann_msg x) <= 1 /\
  (length (pann_msg x) = 1 -> pw1 n x = 2 * n + 1).
Proof.
  intros Hc. unfold pw1, pann_peer, pann_msg. rewrite Hc. simpl.
  split; [reflexivity|]. split; [destruct (bool_decide _); lia|].
  destruct (par x) as [u|]; [|simpl; split; [lia|discriminate]].
  destruct (decide (tok x = Some u)) as [Ht|Ht].
  - rewrite (bool_decide_eq_true_2 _ Ht). simpl. split; [lia|discriminate].
  - rewrite (bool_decide_eq_false_2 _ Ht). simpl. split; [lia|]. intros _.
    rewrite bool_decide_eq_false_2 by congruence. reflexivity.
Qed.

Lemma parm1_announce x :
  changed x = true -> parm1 (pann_peer x) = 0 /\ length (pann_msg x) <= parm1 x.
Proof.
  intros Hc. unfold parm1, rarmed, pann_peer, pann_msg. rewrite Hc. simpl. split; [reflexivity|].
  destruct (par x) as [u|]; [|simpl; lia].
  destruct (decide (tok x = Some u)) as [Ht|Ht].
  - rewrite (bool_decide_eq_true_2 _ Ht). simpl. lia.
  - rewrite (bool_decide_eq_false_2 _ Ht). rewrite bool_decide_eq_false_2 by congruence. simpl. lia.
Qed.

Lemma pw1_deliver n u x : pw1 n (pdel_peer u x) <= pw1 n x + 1.
Proof.
  unfold pdel_peer. destruct (bool_decide (par x = Some u)); [lia|].
  unfold pw1. simpl. rewrite bool_decide_eq_true_2 by reflexivity.
  destruct (changed x); [destruct (bool_decide _); lia|lia].
Qed.

Lemma parm1_deliver u x : parm1 (pdel_peer u x) <= parm1 x.
Proof.
  unfold pdel_peer. destruct (bool_decide (par x = Some u)); [lia|].
  unfold parm1, rarmed. simpl. rewrite bool_decide_eq_true_2 by reflexivity. simpl. lia.
Qed.

(* ONE announce / deliver event, from ANY well-formed state: a no-op, or the measure strictly
   decreases and the messages it sends are paid for by the potential *)
Lemma drain_step_measure M s e s' :
  pwf s -> length (pconn s) <= M -> drain_event e -> pstep s e = Some s' ->
  (effective s e = false /\ s' = s /\ psent_by s e = 0) \/
  (effective s e = true /\ pmeasure s' < pmeasure s /\ psent_by s e + ppotential M s' <= ppotential M s).
Proof.
  intros Hwf HM He Hstep. pose proof (wf_nodup s Hwf) as Hnd.
  pose proof (drain_step_conn s e s' He Hstep) as Hc.
  destruct e as [p x|p|src dst|c]; simpl in He; try contradiction.
  - (* announce *)
    destruct (pchg s p) eqn:Hflag.
    + right. split; [exact Hflag|].
      assert (Hp : ppeers s p).
      { apply (wf_exists s p Hwf). unfold pchg, pget in Hflag. destruct (pp s !! p); [eauto|discriminate]. }
      pose proof (step_pget s _ s' p Hstep) as Hgp. simpl in Hgp. rewrite Hflag in Hgp.
      destruct (decide (p = p)) as [_|Hn]; [|contradiction].
      assert (Hsame : forall q, q <> p -> pget s' q = pget s q).
      { intros q Hq. rewrite (step_pget s _ s' q Hstep). simpl. destruct (decide (q = p)); [contradiction|reflexivity]. }
      set (n := length (pconn s)) in *.
      pose proof (wsum_one (pw1 n) s s' p Hwf Hc Hp Hsame) as HW.
      pose proof (wsum_one parm1 s s' p Hwf Hc Hp Hsame) as HA.
      rewrite Hgp in HW, HA.
      destruct (pw1_announce n (pget s p) Hflag) as (Hw0 & Hw1 & Hm1 & Hm2).
      destruct (parm1_announce (pget s p) Hflag) as (Ha0 & Ha1).
      rewrite Hw0 in HW. rewrite Ha0 in HA.
      unfold pmeasure, ppotential, psent_by. rewrite Hflag, Hc. fold n.
      set (m := length (pann_msg (pget s p))) in *.
      destruct Hp as [->|Hp].
      * destruct (cnt_announce_host s s' Hwf Hflag Hstep) as (H2 & H3). fold m n in H3.
        rewrite H2, H3. unfold pdsts. simpl. fold n.
        assert (Hm : m = 0 \/ m = 1) by lia. destruct Hm as [Hm|Hm]; rewrite Hm in *.
        -- split; nia.
        -- specialize (Hm2 eq_refl). split; nia.
      * destruct (cnt_announce_client s p s' Hwf Hp Hflag Hstep) as (H2 & H3). fold m in H2.
        rewrite H2, H3. rewrite (pdsts_client s p) by (eapply wf_conn_ne; eauto). simpl length.
        assert (1 <= n) by (subst n; destruct (pconn s); [inversion Hp|simpl; lia]).
        assert (Hm : m = 0 \/ m = 1) by lia. destruct Hm as [Hm|Hm]; rewrite Hm in *.
        -- split; nia.
        -- specialize (Hm2 eq_refl). destruct M as [|M']; [lia|]. simpl. rewrite Nat.sub_0_r. split; nia.
    + left. apply step_announce in Hstep as (_ & [(_ & ->)|(Hn & _)]); [|congruence|exact Hnd].
      split; [exact Hflag|]. split; [reflexivity|]. unfold psent_by. rewrite Hflag. reflexivity.
  - (* deliver *)
    right. split; [reflexivity|].
    destruct (plink s src dst) as [|m rest] eqn:Hl0; [simpl in Hstep; rewrite Hl0 in Hstep; discriminate|].
    pose proof (step_pget s _ s' dst Hstep) as Hgd. simpl in Hgd. rewrite Hl0 in Hgd.
    destruct (decide (dst = dst)) as [_|Hn]; [|contradiction].
    assert (Hsame : forall q, q <> dst -> pget s' q = pget s q).
    { intros q Hq. rewrite (step_pget s _ s' q Hstep). simpl. destruct (decide (q = dst)); [contradiction|reflexivity]. }
    set (n := length (pconn s)) in *.
    assert (Hends : (src = host /\ dst ∈ pconn s) \/ (dst = host /\ src ∈ pconn s)).
    { apply (wf_link s src dst Hwf). rewrite Hl0. discriminate. }
    assert (Hd : ppeers s dst) by (destruct Hends as [[_ H]|[-> _]]; [right; exact H|left; reflexivity]).
    pose proof (wsum_one (pw1 n) s s' dst Hwf Hc Hd Hsame) as HW.
    pose proof (wsum_one parm1 s s' dst Hwf Hc Hd Hsame) as HA.
    rewrite Hgd in HW, HA.
    pose proof (pw1_deliver n m (pget s dst)) as Hw. pose proof (parm1_deliver m (pget s dst)) as Ha.
    unfold pmeasure, ppotential, psent_by. rewrite Hl0, Hc. fold n.
    destruct Hends as [[-> Hdc]|[-> Hsc]].
    + destruct (cnt_deliver_down s dst s' Hwf Hdc Hstep) as (H2 & H3). rewrite H2.
      destruct (dst =? host)%N eqn:E; [apply N.eqb_eq in E; subst dst; exfalso; eapply wf_host; eauto|].
      split; nia.
    + destruct (cnt_deliver_up s src s' Hwf Hsc Hstep) as (H2 & H3). fold n in H3.
      pose proof (length_pothers src (pconn s) Hnd Hsc) as Hlen. fold n in Hlen.
      simpl. destruct M as [|M']; [lia|]. simpl. rewrite Nat.sub_0_r. split; nia.
Qed.

Lemma drain_run M tr : forall s s',
  pwf s -> length (pconn s) <= M -> Forall drain_event tr -> prun s tr = Some s' ->
  pwf s' /\ pconn s' = pconn s /\
  peffective_count s tr + pmeasure s' <= pmeasure s /\
  ptotal_sent s tr + ppotential M s' <= ppotential M s.
Proof.
  induction tr as [|e tr IH]; intros s s' Hwf HM Hd Hrun; simpl in *.
  - injection Hrun as <-. split; [exact Hwf|]. split; [reflexivity|]. split; lia.
  - destruct (pstep s e) as [s1|] eqn:Hs; [|discriminate].
    apply Forall_cons in Hd as [He Hd].
    pose proof (step_wf s e s1 Hwf Hs) as Hwf1. pose proof (drain_step_conn s e s1 He Hs) as Hc1.
    destruct (IH s1 s' Hwf1) as (Hwf' & Hc' & Hm' & Hs'); [rewrite Hc1; exact HM|exact Hd|exact Hrun|].
    split; [exact Hwf'|]. split; [rewrite Hc'; exact Hc1|].
    destruct (drain_step_measure M s e s1 Hwf HM He Hs) as [(Heff & -> & Hz)|(Heff & Hlt & Hpot)]; rewrite Heff.
    + rewrite Hz. split; simpl; assumption.
    + split; lia.
Qed.

(* progress: a state that is not quiescent has an enabled effective announce / deliver event *)
Lemma drain_progress s :
  pwf s -> ~ pquiescent s -> exists e s', drain_event e /\ effective s e = true /\ pstep s e = Some s'.
Proof.
  intros Hwf Hn. apply not_quiescent in Hn as [(p & Hp)|(a & b & Hl)].
  - exists (PAnnounce p). simpl. unfold pchg, pget in Hp. destruct (pp s !! p) as [x|] eqn:Hx; [|discriminate].
    simpl in Hp. rewrite Hp. eexists. split; [exact I|]. split; [|reflexivity].
    unfold pchg. rewrite (pget_exists _ _ _ Hx). exact Hp.
  - exists (PDeliver a b). simpl. destruct (plink s a b) as [|m rest] eqn:Hl0; [contradiction|].
    assert (Hb : is_Some (pp s !! b)).
    { apply (wf_exists s b Hwf). destruct (wf_link s a b Hwf) as [[_ H]|[-> _]]; [rewrite Hl0; discriminate|right; exact H|left; reflexivity]. }
    destruct Hb as [x Hx]. rewrite Hx. eexists. split; [exact I|]. split; reflexivity.
Qed.

Lemma drain_terminates_aux : forall k s,
  pmeasure s <= k -> pwf s -> exists tr s', Forall drain_event tr /\ prun s tr = Some s' /\ pquiescent s'.
Proof.
  induction k as [|k IH]; intros s Hk Hwf.
  - destruct (decide (pquiescent s)) as [Hq|Hn]; [exists [], s; auto|].
    destruct (drain_progress s Hwf Hn) as (e & s1 & He & Heff & Hs).
    destruct (drain_step_measure _ s e s1 Hwf (le_n _) He Hs) as [(Hf & _)|(_ & Hlt & _)]; [congruence|lia].
  - destruct (decide (pquiescent s)) as [Hq|Hn]; [exists [], s; auto|].
    destruct (drain_progress s Hwf Hn) as (e & s1 & He & Heff & Hs).
    destruct (drain_step_measure _ s e s1 Hwf (le_n _) He Hs) as [(Hf & _)|(_ & Hlt & _)]; [congruence|].
    destruct (IH s1) as (tr & s' & Hd & Hrun & Hq); [lia|eapply step_wf; eauto|].
    exists (e :: tr), s'. split; [constructor; assumption|]. split; [simpl; rewrite Hs; exact Hrun|exact Hq].
Qed.

(* THEOREM 3 (termination, no premise on the history).
   (a) every effective announce / deliver event strictly decreases [pmeasure], from any well-formed state *)
Theorem drain_measure_decreases s e s' :
  pwf s -> drain_event e -> effective s e = true -> pstep s e = Some s' -> pmeasure s' < pmeasure s.
Proof.
  intros Hwf He Heff Hs.
  destruct (drain_step_measure _ s e s' Hwf (le_n _) He Hs) as [(Hf & _)|(_ & Hlt & _)]; [congruence|exact Hlt].
Qed.
Print Assumptions drain_measure_decreases.

(* (b) hence any sequence of announce / deliver events contains at most [pmeasure s] effective ones *)
Theorem drain_effective_bounded s tr s' :
  pwf s -> Forall drain_event tr -> prun s tr = Some s' -> peffective_count s tr <= pmeasure s.
Proof.
  intros Hwf Hd Hrun. destruct (drain_run _ tr s s' Hwf (le_n _) Hd Hrun) as (_ & _ & H & _). lia.
Qed.
Print Assumptions drain_effective_bounded.

(* (c) there is no infinite sequence of effective announce / deliver events *)
Theorem no_infinite_exchange (st : nat -> pstate) (ev : nat -> pevent) :
  pwf (st 0) ->
  (forall i, drain_event (ev i) /\ effective (st i) (ev i) = true /\ pstep (st i) (ev i) = Some (st (S i))) ->
  False.
Proof.
  intros Hwf Hinf.
  assert (H : forall i, pwf (st i) /\ pmeasure (st i) + i <= pmeasure (st 0)).
  { induction i as [|i (Hwi & Hmi)]; [split; [exact Hwf|lia]|].
    destruct (Hinf i) as (He & Heff & Hs).
    split; [eapply step_wf; eauto|].
    pose proof (drain_measure_decreases (st i) (ev i) (st (S i)) Hwi He Heff Hs). lia. }
  destruct (H (S (pmeasure (st 0)))) as (_ & Hbad). lia.
Qed.
Print Assumptions no_infinite_exchange.

(* (d) and every well-formed state can be drained to a quiescent one *)
Theorem drain_terminates s :
  pwf s -> exists tr s', Forall drain_event tr /\ prun s tr = Some s' /\ pquiescent s'.
Proof. intros Hwf. apply (drain_terminates_aux (pmeasure s) s (le_n _) Hwf). Qed.
Print Assumptions drain_terminates.

(* non-vacuity: a non-quiescent state in the middle of a conflict of two writers (not a state of any
   "nice" history): measure 10, and the drain below makes 10 effective events: the bound is reached *)
Example termination_nonvacuous :
  (fun s => (pquiescentb s, pmeasure s,
             peffective_count s [PAnnounce 1; PAnnounce 0; PDeliver 1 0; PDeliver 0 1; PDeliver 0 2; PAnnounce 0;
                                 PAnnounce 1; PAnnounce 2; PDeliver 0 2; PAnnounce 2]%N,
             pquiescentb <$> prun s [PAnnounce 1; PAnnounce 0; PDeliver 1 0; PDeliver 0 1; PDeliver 0 2; PAnnounce 0;
                                 PAnnounce 1; PAnnounce 2; PDeliver 0 2; PAnnounce 2]%N)) <$>
    prun (pinit 2) [PSet 1 7; PSet 0 8]%N
  = Some (false, 10, 10, Some true).
Proof. vm_compute. reflexivity. Qed.

(* ================================================================================================
   Part 6: traffic bounds (theorem 4)
   ================================================================================================ *)

Lemma wsum_zero f s : (forall p, f (pget s p) = 0) -> wsum f s = 0.
Proof.
  intros H. unfold wsum. rewrite H. simpl. apply sumf_zero. intros c _. apply H.
Qed.

Lemma parm1_le1 x : parm1 x <= 1.
Proof. unfold parm1. destruct (rarmed x); lia. Qed.

Lemma quiescent_unarmed s p : pquiescent s -> parmed s p = false.
Proof. intros Hq. unfold parmed. rewrite (quiescent_chg _ _ Hq). reflexivity. Qed.

Lemma quiescent_potential M s : pquiescent s -> ppotential M s = 0.
Proof.
  intros Hq. unfold ppotential.
  rewrite (wsum_zero parm1 s).
  - assert (H : pups s = 0); [|rewrite H; lia].
    unfold pups. apply sumf_zero. intros c _. rewrite (quiescent_link _ _ _ Hq). reflexivity.
  - intros p. unfold parm1. rewrite <- parmed_rarmed, (quiescent_unarmed _ _ Hq). reflexivity.
Qed.

Lemma psets_drain tr : Forall drain_event tr -> psets tr = [] /\ pjoiners tr = [].
Proof.
  induction 1 as [|e tr He _ [IH1 IH2]]; [auto|].
  destruct e; simpl in He; try contradiction; simpl; auto.
Qed.

(* what a PSet does to the potential: at most one more armed peer *)
Lemma set_potential M s p u s1 :
  pwf s -> pstep s (PSet p u) = Some s1 -> ppotential M s1 <= ppotential M s + M.
Proof.
  intros Hwf Hstep. pose proof (step_set _ _ _ _ Hstep) as (Hp & Hc & Hl & _ & Hg).
  apply (wf_exists s p Hwf) in Hp.
  assert (Hsame : forall q, q <> p -> pget s1 q = pget s q).
  { intros q Hq. rewrite Hg. destruct (decide (q = p)); [contradiction|reflexivity]. }
  pose proof (wsum_one parm1 s s1 p Hwf Hc Hp Hsame) as HA.
  pose proof (parm1_le1 (pget s1 p)).
  assert (Hu : pups s1 = pups s) by (unfold pups, plink; rewrite Hc, Hl; reflexivity).
  unfold ppotential. rewrite Hu. nia.
Qed.

(* ... and a join: nothing (the joiner is not armed, the snapshot travels from the host) *)
Lemma join_potential M s c s1 :
  pwf s -> pstep s (PJoin c) = Some s1 ->
  ppotential M s1 = ppotential M s /\ length (pconn s1) = length (pconn s) + 1 /\ psent_by s (PJoin c) <= 1.
Proof.
  intros Hwf Hstep. pose proof (step_join _ _ _ Hstep) as (Hch & Hcn & Hnone & Hc & _ & Hg & Hl).
  assert (Hw : wsum parm1 s1 = wsum parm1 s).
  { unfold wsum. rewrite Hc, Hg, sumf_app. simpl. rewrite Hg, (pget_none _ _ Hnone). simpl.
    rewrite (sumf_ext (fun c0 => parm1 (pget s c0)) (fun c0 => parm1 (pget s1 c0))); [lia|].
    intros c0 _. rewrite Hg. reflexivity. }
  assert (Hu : pups s1 = pups s).
  { unfold pups. rewrite Hc, sumf_app. simpl. rewrite Hl.
    destruct (decide ((c, host) = (host, c))) as [E|_]; [congruence|].
    rewrite (wf_link_nil s c host Hwf Hcn (wf_host s Hwf)). simpl.
    rewrite (sumf_ext (fun c0 => length (plink s c0 host)) (fun c0 => length (plink s1 c0 host))); [lia|].
    intros c0 _. rewrite Hl. destruct (decide ((c0, host) = (host, c))) as [E|_]; [congruence|reflexivity]. }
  split; [unfold ppotential; rewrite Hw, Hu; reflexivity|].
  split; [rewrite Hc, app_length; simpl; lia|].
  simpl. destruct (ppar s host); simpl; lia.
Qed.

Lemma traffic_general M tr : forall s,
  pwf s -> length (pconn s) + length (pjoiners tr) <= M ->
  ptotal_sent s tr <= ppotential M s + M * length (psets tr) + length (pjoiners tr).
Proof.
  induction tr as [|e tr IH]; intros s Hwf HM; simpl; [lia|].
  destruct (pstep s e) as [s1|] eqn:Hs; [|lia].
  pose proof (step_wf s e s1 Hwf Hs) as Hwf1.
  destruct e as [p u|p|src dst|c]; simpl in HM |- *.
  - pose proof (set_potential M s p u s1 Hwf Hs) as Hpot.
    assert (Hc : pconn s1 = pconn s) by (apply step_set in Hs; tauto).
    specialize (IH s1 Hwf1). rewrite Hc in IH. specialize (IH HM). lia.
  - pose proof (drain_step_conn s (PAnnounce p) s1 I Hs) as Hc.
    specialize (IH s1 Hwf1). rewrite Hc in IH. specialize (IH HM).
    destruct (drain_step_measure M s (PAnnounce p) s1 Hwf ltac:(lia) I Hs) as [(_ & -> & Hz)|(_ & _ & Hpot)].
    + simpl in Hz. rewrite Hz. lia.
    + simpl in Hpot. lia.
  - pose proof (drain_step_conn s (PDeliver src dst) s1 I Hs) as Hc.
    specialize (IH s1 Hwf1). rewrite Hc in IH. specialize (IH HM).
    destruct (drain_step_measure M s (PDeliver src dst) s1 Hwf ltac:(lia) I Hs) as [(Hf & _)|(_ & _ & Hpot)].
    + simpl in Hf. discriminate.
    + simpl in Hpot. lia.
  - destruct (join_potential M s c s1 Hwf Hs) as (Hpot & Hlen & Hsent). simpl in Hsent.
    specialize (IH s1 Hwf1). rewrite Hlen, Hpot in IH. lapply IH; [lia|lia].
Qed.

(* THEOREM 4a: one operation issued at a quiescent state costs at most n messages, n = number of
   connected clients (a client's announcement + n-1 relays, or the host's n broadcasts), whatever
   the schedule -- the peers need not even agree beforehand *)
Theorem parent_messages_bounded s0 w u s1 tr s' :
  pwf s0 -> pquiescent s0 -> pstep s0 (PSet w u) = Some s1 ->
  Forall drain_event tr -> prun s1 tr = Some s' ->
  ptotal_sent s1 tr <= length (pconn s0).
Proof.
  intros Hwf Hq Hset Hd Hrun.
  pose proof (step_wf _ _ _ Hwf Hset) as Hwf1.
  assert (Hc : pconn s1 = pconn s0) by (apply step_set in Hset; tauto).
  pose proof (set_potential (length (pconn s0)) s0 w u s1 Hwf Hset) as Hpot.
  rewrite (quiescent_potential _ s0 Hq) in Hpot.
  destruct (drain_run (length (pconn s0)) tr s1 s' Hwf1) as (_ & _ & _ & Hs); [rewrite Hc; lia|exact Hd|exact Hrun|].
  lia.
Qed.
Print Assumptions parent_messages_bounded.

(* the bound is reached, by a client's operation and by the host's *)
Example parent_messages_bound_tight :
  ptotal_sent (pinit 2) ex_single = length (pconn (pinit 2)) /\
  ptotal_sent (pinit 2) ex_host_sets = length (pconn (pinit 2)) /\
  pquiescentb <$> prun (pinit 2) ex_single = Some true /\ pquiescentb <$> prun (pinit 2) ex_host_sets = Some true.
Proof. vm_compute. auto. Qed.

(* a join at a quiescent state costs the snapshot and nothing else *)
Theorem join_messages_bounded s c s1 tr s' :
  pwf s -> pquiescent s -> pstep s (PJoin c) = Some s1 ->
  Forall drain_event tr -> prun s1 tr = Some s' ->
  ptotal_sent s (PJoin c :: tr) <= 1.
Proof.
  intros Hwf Hq Hjoin Hd Hrun.
  destruct (psets_drain tr Hd) as [Hs Hj].
  pose proof (traffic_general (length (pconn s) + 1) (PJoin c :: tr) s Hwf) as H.
  simpl pjoiners in H. simpl psets in H. rewrite Hs, Hj, (quiescent_potential _ s Hq) in H. simpl in H.
  lapply H; [|lia]. simpl. lia.
Qed.
Print Assumptions join_messages_bounded.

(* THEOREM 4b: ANY history from [pinit n] (any operations by any peers at any pace, conflicts
   included, joins at any moment, any schedule): every operation costs at most M messages, every
   join one, where M = n + number of joins bounds the number of connected clients *)
Theorem total_traffic_bounded n tr :
  ptotal_sent (pinit n) tr <=
  length (psets tr) * (n + length (pjoiners tr)) + length (pjoiners tr).
Proof.
  pose proof (traffic_general (n + length (pjoiners tr)) tr (pinit n) (pinit_wf n)) as H.
  rewrite (quiescent_potential _ _ (pinit_quiescent n)) in H.
  simpl pconn in H. rewrite length_pclients in H. lapply H; [lia|lia].
Qed.
Print Assumptions total_traffic_bounded.

Corollary total_traffic_bounded_uniform n tr :
  ptotal_sent (pinit n) tr <= (length (psets tr) + length (pjoiners tr)) * (n + length (pjoiners tr)).
Proof. pose proof (total_traffic_bounded n tr). nia. Qed.

(* non-vacuity: two writers in conflict, a join in the middle: 2 operations * 3 clients + 1 join *)
Example total_traffic_nonvacuous :
  let tr := [PSet 1 7; PSet 0 8; PAnnounce 1; PJoin 3; PAnnounce 0; PDeliver 1 0; PDeliver 0 1; PDeliver 0 2;
             PDeliver 0 2; PDeliver 0 3; PDeliver 0 3; PDeliver 0 3]%N in
  ptotal_sent (pinit 2) tr = 7 /\ length (psets tr) * (2 + length (pjoiners tr)) + length (pjoiners tr) = 7.
Proof. vm_compute. auto. Qed.

Lemma ptotal_sent_app s tr1 tr2 :
  ptotal_sent s (tr1 ++ tr2) =
  match prun s tr1 with Some s1 => ptotal_sent s tr1 + ptotal_sent s1 tr2 | None => ptotal_sent s tr1 end.
Proof.
  revert s. induction tr1 as [|e tr1 IH]; intros s; simpl; [reflexivity|].
  destruct (pstep s e) as [s1|]; [|reflexivity]. rewrite IH. destruct (prun s1 tr1); lia.
Qed.

(* ================================================================================================
   Part 7: the invariant of a BLOCK of operations of one writer w (any number of PSet by w, at any
   pace, with any parents; announce / deliver events of everybody; joins at any moment).
     - w holds no token, nobody else is armed, only w's link towards the host carries anything upwards;
     - what travels from w to the host ends with w's current parent unless w's flag is raised;
     - what travels from the host to a client c ends with the host's current parent (unless the
       writer is the host and its flag is raised: then its next announcement reaches everybody).
   [last_or l d]: the last element of l, d if l is empty -- the value the receiver ends up with.
   ================================================================================================ *)

Fixpoint last_or (l : list puid) (d : option puid) : option puid :=
  match l with [] => d | x :: l => last_or l (Some x) end.

Lemma last_or_snoc l u d : last_or (l ++ [u]) d = Some u.
Proof. revert d. induction l as [|x l IH]; intros d; simpl; [reflexivity|apply IH]. Qed.

Definition Agree (s : pstate) (x : option puid) : Prop := forall p, ppeers s p -> ppar s p = x.

Record Bk (w : peer) (s : pstate) : Prop := {
  bk_w : ppeers s w;
  bk_tok : ptok s w = None;
  bk_quiet : forall p, p <> w -> parmed s p = false;
  bk_up : forall c, c ∈ pconn s -> c <> w -> plink s c host = [];
  bk_wdown : w <> host -> plink s host w = [];
  bk_wup : w <> host -> pchg s w = true \/ last_or (plink s w host) (ppar s host) = ppar s w;
  bk_down : forall c, c ∈ pconn s -> c <> w ->
    (w = host /\ pchg s host = true) \/ last_or (plink s host c) (ppar s c) = ppar s host
}.

Lemma bk_quiescent_agree w s : pquiescent s -> Bk w s -> Agree s (ppar s w).
Proof.
  intros Hq HB.
  assert (Hh : ppar s host = ppar s w).
  { destruct (decide (w = host)) as [->|Hne]; [reflexivity|].
    destruct (bk_wup w s HB Hne) as [H|H]; [rewrite (quiescent_chg _ _ Hq) in H; discriminate|].
    rewrite (quiescent_link _ _ _ Hq) in H. exact H. }
  intros p [->|Hp]; [exact Hh|].
  destruct (decide (p = w)) as [->|Hne]; [reflexivity|].
  destruct (bk_down w s HB p Hp Hne) as [[_ H]|H]; [rewrite (quiescent_chg _ _ Hq) in H; discriminate|].
  rewrite (quiescent_link _ _ _ Hq) in H. simpl in H. congruence.
Qed.

(* any peer can start a block at a quiescent state where all peers agree *)
Lemma bk_start s x w :
  psync_inv s -> pquiescent s -> Agree s x -> ppeers s w -> Bk w s.
Proof.
  intros Hinv Hq Ha Hw. split.
  - exact Hw.
  - destruct (ptok s w) as [u|] eqn:Ht; [|reflexivity].
    destruct (Hinv w) as [H _]. rewrite Ht in H. rewrite (quiescent_chg _ _ Hq) in H.
    lapply H; [discriminate|discriminate].
  - intros p _. apply quiescent_unarmed. exact Hq.
  - intros c _ _. apply quiescent_link. exact Hq.
  - intros _. apply quiescent_link. exact Hq.
  - intros _. right. rewrite (quiescent_link _ _ _ Hq). simpl.
    rewrite (Ha host), (Ha w); [reflexivity|exact Hw|left; reflexivity].
  - intros c Hc _. right. rewrite (quiescent_link _ _ _ Hq). simpl.
    rewrite (Ha host), (Ha c); [reflexivity|right; exact Hc|left; reflexivity].
Qed.

Lemma par_pdel u x : par (pdel_peer u x) = Some u.
Proof.
  unfold pdel_peer. destruct (bool_decide (par x = Some u)) eqn:Hb; [|reflexivity].
  apply bool_decide_eq_true in Hb. exact Hb.
Qed.

Lemma rarmed_pdel u x : rarmed x = false -> rarmed (pdel_peer u x) = false.
Proof.
  intros H. unfold pdel_peer. destruct (bool_decide (par x = Some u)); [exact H|].
  unfold rarmed. simpl. rewrite bool_decide_eq_true_2 by reflexivity. reflexivity.
Qed.

Lemma tok_pdel_chg u x : changed x = true -> changed (pdel_peer u x) = true.
Proof. intros H. unfold pdel_peer. destruct (bool_decide _); [exact H|reflexivity]. Qed.

(* what an unarmed peer with a raised flag announces: nothing *)
Lemma unarmed_msg s p : psync_inv s -> pchg s p = true -> parmed s p = false -> pann_msg (pget s p) = [].
Proof.
  intros Hinv Hc Ha. unfold parmed in Ha. rewrite Hc in Ha. simpl in Ha.
  apply negb_false_iff, bool_decide_eq_true in Ha. destruct (Hinv p) as [_ Hpar]. specialize (Hpar Hc).
  unfold pann_msg. unfold ppar, ptok in *. destruct (par (pget s p)) as [u|]; [|reflexivity].
  rewrite bool_decide_eq_true_2 by congruence. reflexivity.
Qed.

(* what a peer without token and with a raised flag announces: its parent *)
Lemma notoken_msg s p : psync_inv s -> pchg s p = true -> ptok s p = None ->
  exists u, ppar s p = Some u /\ pann_msg (pget s p) = [u].
Proof.
  intros Hinv Hc Ht. destruct (Hinv p) as [_ Hpar]. specialize (Hpar Hc).
  unfold pann_msg. unfold ppar, ptok in *. destruct (par (pget s p)) as [u|]; [|contradiction].
  exists u. split; [reflexivity|]. rewrite Ht. rewrite bool_decide_eq_false_2 by discriminate. reflexivity.
Qed.

(* the block invariant is preserved by every event except a PSet of another peer *)
Lemma bk_step w s e s' :
  pwf s -> psync_inv s -> Bk w s -> pstep s e = Some s' ->
  match e with PSet p _ => p = w | _ => True end ->
  Bk w s' /\ ppar s' w = match e with PSet _ u => Some u | _ => ppar s w end.
Proof.
  intros Hwf Hinv HB Hstep Hok. pose proof (wf_nodup s Hwf) as Hnd.
  pose proof HB as [Hw Htok Hquiet Hup Hwdown Hwup Hdown].
  destruct e as [p u|p|src dst|c].
  - (* PSet w u *)
    subst p. apply step_set in Hstep as (_ & Hc & Hl & _ & Hg).
    assert (Hlk : forall a b, plink s' a b = plink s a b) by (intros a b; unfold plink; rewrite Hl; reflexivity).
    assert (Hgw : pget s' w = pset_rec u (pget s w)) by (rewrite Hg; destruct (decide (w = w)); [reflexivity|contradiction]).
    assert (Hgo : forall q, q <> w -> pget s' q = pget s q) by (intros q Hq; rewrite Hg; destruct (decide (q = w)); [contradiction|reflexivity]).
    split; [|unfold ppar; rewrite Hgw; reflexivity]. split.
    + unfold ppeers. rewrite Hc. exact Hw.
    + unfold ptok. rewrite Hgw. exact Htok.
    + intros q Hq. rewrite !parmed_rarmed, Hgo in * by exact Hq. rewrite <- parmed_rarmed. apply Hquiet. exact Hq.
    + intros c. rewrite Hc, Hlk. apply Hup.
    + rewrite Hlk. exact Hwdown.
    + intros _. left. unfold pchg. rewrite Hgw. reflexivity.
    + intros c. rewrite Hc. intros Hcc Hne. destruct (decide (w = host)) as [Hwh|Hwh].
      * left. split; [exact Hwh|]. subst w. unfold pchg. rewrite Hgw. reflexivity.
      * right. destruct (Hdown c Hcc Hne) as [[E _]|H]; [contradiction|].
        rewrite Hlk. unfold ppar. rewrite (Hgo c Hne), (Hgo host) by congruence. exact H.
  - (* PAnnounce p *)
    apply step_announce in Hstep as (_ & [(_ & ->)|(Hpc & Hc & _ & Hg & Hl)]); [split; [exact HB|reflexivity]| |exact Hnd].
    assert (Hpar : forall q, ppar s' q = ppar s q).
    { intros q. unfold ppar. rewrite Hg. destruct (decide (q = p)) as [->|_]; reflexivity. }
    assert (Hgo : forall q, q <> p -> pget s' q = pget s q) by (intros q Hq; rewrite Hg; destruct (decide (q = p)); [contradiction|reflexivity]).
    assert (Hgp : pget s' p = pann_peer (pget s p)) by (rewrite Hg; destruct (decide (p = p)); [reflexivity|contradiction]).
    split; [|apply Hpar].
    destruct (decide (p = w)) as [->|Hpw].
    + (* the writer announces its current parent *)
      destruct (notoken_msg s w Hinv Hpc Htok) as (u & Hwu & Hmsg). rewrite Hmsg in Hl.
      split.
      * unfold ppeers. rewrite Hc. exact Hw.
      * unfold ptok. rewrite Hgp. reflexivity.
      * intros q Hq. rewrite parmed_rarmed, Hgo by exact Hq. rewrite <- parmed_rarmed. apply Hquiet. exact Hq.
      * intros c. rewrite Hc. intros Hcc Hne. rewrite Hl.
        destruct (decide (c = w /\ _)) as [[E _]|_]; [contradiction|]. apply Hup; assumption.
      * intros Hwh. rewrite Hl. destruct (decide (host = w /\ _)) as [[E _]|_]; [congruence|]. apply Hwdown. exact Hwh.
      * intros Hwh. right. rewrite Hl. rewrite (pdsts_client s w Hwh).
        destruct (decide (w = w /\ host ∈ [host])) as [_|Hn].
        -- rewrite last_or_snoc, Hpar. symmetry. exact Hwu.
        -- exfalso. apply Hn. split; [reflexivity|apply elem_of_list_singleton; reflexivity].
      * intros c. rewrite Hc. intros Hcc Hne. right. rewrite Hl, !Hpar.
        destruct (decide (host = w /\ c ∈ pdsts s w)) as [[<- _]|Hn].
        -- rewrite last_or_snoc. symmetry. exact Hwu.
        -- destruct (Hdown c Hcc Hne) as [[-> _]|H]; [|exact H].
           exfalso. apply Hn. split; [reflexivity|]. exact Hcc.
    + (* somebody else: its flag goes down, nothing is sent *)
      pose proof (unarmed_msg s p Hinv Hpc (Hquiet p Hpw)) as Hmsg. rewrite Hmsg in Hl.
      assert (Hlk : forall a b, plink s' a b = plink s a b).
      { intros a b. rewrite Hl. destruct (decide _); [apply app_nil_r|reflexivity]. }
      split.
      * unfold ppeers. rewrite Hc. exact Hw.
      * unfold ptok. rewrite Hgo by congruence. exact Htok.
      * intros q Hq. destruct (decide (q = p)) as [->|Hqp].
        -- rewrite parmed_rarmed, Hgp. reflexivity.
        -- rewrite parmed_rarmed, Hgo by exact Hqp. rewrite <- parmed_rarmed. apply Hquiet. exact Hq.
      * intros c. rewrite Hc, Hlk. apply Hup.
      * rewrite Hlk. exact Hwdown.
      * intros Hwh. rewrite Hlk, !Hpar. unfold pchg. rewrite Hgo by congruence. apply Hwup. exact Hwh.
      * intros c. rewrite Hc. intros Hcc Hne. rewrite Hlk, !Hpar.
        destruct (Hdown c Hcc Hne) as [[-> H]|H]; [|right; exact H].
        left. split; [reflexivity|]. unfold pchg. rewrite Hgo by congruence. exact H.
  - (* PDeliver src dst *)
    apply step_deliver in Hstep as (u & rest & Hl0 & _ & Hc & _ & Hg & Hl); [|exact Hnd].
    assert (Hgo : forall q, q <> dst -> pget s' q = pget s q) by (intros q Hq; rewrite Hg; destruct (decide (q = dst)); [contradiction|reflexivity]).
    assert (Hgd : pget s' dst = pdel_peer u (pget s dst)) by (rewrite Hg; destruct (decide (dst = dst)); [reflexivity|contradiction]).
    assert (Hpd : ppar s' dst = Some u) by (unfold ppar; rewrite Hgd; apply par_pdel).
    assert (Hends : (src = host /\ dst ∈ pconn s) \/ (dst = host /\ src ∈ pconn s)).
    { apply (wf_link s src dst Hwf). rewrite Hl0. discriminate. }
    assert (Hquiet' : forall q, q <> w -> parmed s' q = false).
    { intros q Hq. rewrite parmed_rarmed. destruct (decide (q = dst)) as [->|Hqd].
      - rewrite Hgd. apply rarmed_pdel. rewrite <- parmed_rarmed. apply Hquiet. exact Hq.
      - rewrite Hgo by exact Hqd. rewrite <- parmed_rarmed. apply Hquiet. exact Hq. }
    destruct Hends as [[-> Hdc]|[-> Hsc]].
    + (* host -> dst: dst is not the writer *)
      pose proof (wf_conn_ne s dst Hwf Hdc) as Hdh.
      assert (Hdw : dst <> w).
      { intros ->. rewrite (Hwdown Hdh) in Hl0. discriminate. }
      assert (Hlk : forall a b, plink s' a b = if decide ((a, b) = (host, dst)) then rest else plink s a b).
      { intros a b. rewrite Hl. destruct (decide (dst = host /\ _)) as [[E _]|_]; [contradiction|]. apply app_nil_r. }
      split; [|unfold ppar; rewrite Hgo by congruence; reflexivity]. split.
      * unfold ppeers. rewrite Hc. exact Hw.
      * unfold ptok. rewrite Hgo by congruence. exact Htok.
      * exact Hquiet'.
      * intros c. rewrite Hc. intros Hcc Hne. rewrite Hlk.
        destruct (decide ((c, host) = (host, dst))) as [E|_]; [|apply Hup; assumption].
        exfalso. injection E as -> _. eapply wf_host; eauto.
      * intros Hwh. rewrite Hlk. destruct (decide ((host, w) = (host, dst))) as [E|_]; [congruence|]. apply Hwdown. exact Hwh.
      * intros Hwh. rewrite Hlk. destruct (decide ((w, host) = (host, dst))) as [E|_]; [congruence|].
        unfold pchg, ppar. rewrite (Hgo w), (Hgo host) by congruence. apply Hwup. exact Hwh.
      * intros c. rewrite Hc. intros Hcc Hne.
        assert (Hch : pchg s' host = pchg s host) by (unfold pchg; rewrite Hgo by congruence; reflexivity).
        assert (Hph : ppar s' host = ppar s host) by (unfold ppar; rewrite Hgo by congruence; reflexivity).
        rewrite Hch, Hph, Hlk. destruct (Hdown c Hcc Hne) as [H|H]; [left; exact H|]. right.
        destruct (decide ((host, c) = (host, dst))) as [E|Hn].
        -- injection E as ->. rewrite Hpd. rewrite Hl0 in H. exact H.
        -- unfold ppar at 1. rewrite Hgo by congruence. exact H.
    + (* src -> host: src is the writer, a client; the host relays to everybody else *)
      pose proof (wf_conn_ne s src Hwf Hsc) as Hsh.
      assert (src = w) as -> by (destruct (decide (src = w)) as [E|Hne]; [exact E|rewrite (Hup src Hsc Hne) in Hl0; discriminate]).
      split; [|unfold ppar; rewrite Hgo by exact Hsh; reflexivity]. split.
      * unfold ppeers. rewrite Hc. exact Hw.
      * unfold ptok. rewrite Hgo by exact Hsh. exact Htok.
      * exact Hquiet'.
      * intros c. rewrite Hc. intros Hcc Hne. rewrite Hl. pose proof (wf_conn_ne s c Hwf Hcc) as Hch.
        destruct (decide ((c, host) = (w, host))) as [E|_]; [congruence|].
        destruct (decide (host = host /\ c = host /\ _)) as [(_ & E & _)|_]; [contradiction|].
        rewrite app_nil_r. apply Hup; assumption.
      * intros _. rewrite Hl. destruct (decide ((host, w) = (w, host))) as [E|_]; [congruence|].
        destruct (decide (host = host /\ host = host /\ w ∈ pothers w (pconn s))) as [(_ & _ & E)|_].
        -- apply elem_of_pothers in E. tauto.
        -- rewrite app_nil_r. apply Hwdown. exact Hsh.
      * intros _. rewrite Hl. destruct (decide ((w, host) = (w, host))) as [_|Hn]; [|contradiction].
        destruct (decide (host = host /\ w = host /\ _)) as [(_ & E & _)|_]; [contradiction|].
        rewrite app_nil_r.
        assert (Hcw : pchg s' w = pchg s w) by (unfold pchg; rewrite (Hgo w) by exact Hsh; reflexivity).
        assert (Hpw : ppar s' w = ppar s w) by (unfold ppar; rewrite (Hgo w) by exact Hsh; reflexivity).
        rewrite Hcw, Hpw, Hpd.
        destruct (Hwup Hsh) as [H|H]; [left; exact H|right]. rewrite Hl0 in H. simpl in H. exact H.
      * intros c. rewrite Hc. intros Hcc Hne. right. rewrite Hl, Hpd.
        destruct (decide ((host, c) = (w, host))) as [E|_]; [congruence|].
        destruct (decide (host = host /\ host = host /\ c ∈ pothers w (pconn s))) as [_|Hn].
        -- apply last_or_snoc.
        -- exfalso. apply Hn. split; [reflexivity|]. split; [reflexivity|]. apply elem_of_pothers. auto.
  - (* PJoin c *)
    pose proof (join_par s c s' ) as Hpar. specialize (fun q => Hpar q Hstep).
    pose proof (join_chg s c s' ) as Hchg. specialize (fun q => Hchg q Hstep).
    apply step_join in Hstep as (Hch & Hcn & Hnone & Hc & _ & Hg & Hl).
    assert (Hcw : c <> w) by (intros ->; destruct Hw as [E|E]; contradiction).
    split; [|apply Hpar]. split.
    + unfold ppeers. rewrite Hc. destruct Hw as [E|E]; [left; exact E|right; apply elem_of_app; left; exact E].
    + unfold ptok. rewrite Hg. exact Htok.
    + intros q Hq. rewrite parmed_rarmed, Hg, <- parmed_rarmed. apply Hquiet. exact Hq.
    + intros c0. rewrite Hc. intros Hcc Hne. rewrite Hl.
      destruct (decide ((c0, host) = (host, c))) as [E|_]; [congruence|].
      apply elem_of_app in Hcc as [Hcc|Hcc]; [apply Hup; assumption|].
      apply elem_of_list_singleton in Hcc. subst c0. apply (wf_link_nil s c host Hwf Hcn (wf_host s Hwf)).
    + intros Hwh. rewrite Hl. destruct (decide ((host, w) = (host, c))) as [E|_]; [congruence|]. apply Hwdown. exact Hwh.
    + intros Hwh. rewrite Hl, Hchg, !Hpar. destruct (decide ((w, host) = (host, c))) as [E|_]; [congruence|]. apply Hwup. exact Hwh.
    + intros c0. rewrite Hc. intros Hcc Hne. rewrite Hl, Hchg, !Hpar.
      apply elem_of_app in Hcc as [Hcc|Hcc].
      * destruct (decide ((host, c0) = (host, c))) as [E|_]; [congruence|]. apply Hdown; assumption.
      * apply elem_of_list_singleton in Hcc. subst c0. right.
        destruct (decide ((host, c) = (host, c))) as [_|Hn]; [|contradiction].
        rewrite (wf_link_nil s host c Hwf (wf_host s Hwf) Hcn). unfold ppar at 2. rewrite (pget_none _ _ Hnone).
        destruct (ppar s host); reflexivity.
Qed.

(* ================================================================================================
   Part 8: histories (C05).  [PhI w t s]: w = the peer that issued the last PSet (None: nothing has
   ever been set), t = the parent it gave.
   ================================================================================================ *)

Definition Ph0 (s : pstate) : Prop :=
  (forall a b, plink s a b = []) /\ (forall p, pchg s p = false /\ ppar s p = None).
Definition PhI (w : option peer) (t : option puid) (s : pstate) : Prop :=
  match w with Some w => Bk w s /\ ppar s w = t | None => Ph0 s /\ t = None end.

Lemma ph0_quiescent s : Ph0 s -> pquiescent s.
Proof. intros [Hl Hp]. apply quiescent_intro; [exact Hl|]. intros p. apply Hp. Qed.

Lemma ph0_init n : Ph0 (pinit n).
Proof. split; [intros a b; reflexivity|]. intros p. unfold pchg, ppar. rewrite pinit_pget. auto. Qed.

Lemma ph0_join s c s' : Ph0 s -> pstep s (PJoin c) = Some s' -> Ph0 s'.
Proof.
  intros [Hl Hp] Hstep. pose proof (join_par s c s') as Hpar. pose proof (join_chg s c s') as Hchg.
  specialize (fun q => Hpar q Hstep). specialize (fun q => Hchg q Hstep).
  apply step_join in Hstep as (_ & _ & _ & _ & _ & _ & Hl').
  split.
  - intros a b. rewrite Hl'. destruct (decide _); [|apply Hl]. rewrite Hl. destruct (Hp host) as [_ ->]. reflexivity.
  - intros p. rewrite Hpar, Hchg. apply Hp.
Qed.

Lemma phI_quiescent_agree w t s : PhI w t s -> pquiescent s -> Agree s t.
Proof.
  destruct w as [w|]; simpl; intros [HP Ht] Hq; subst t.
  - apply bk_quiescent_agree; assumption.
  - intros p _. apply HP.
Qed.

(* what the history must respect at each event *)
Definition ev_ok (w : option peer) (s : pstate) (e : pevent) : Prop :=
  match e, w with
  | PSet p _, Some q => q = p \/ pquiescent s
  | _, _ => True
  end.
Definition next_target (t : option puid) (e : pevent) : option puid :=
  match e with PSet _ u => Some u | _ => t end.
Definition next_writer (w : option peer) (e : pevent) : option peer :=
  match e with PSet p _ => Some p | _ => w end.

Lemma set_peer_exists s p u s' : pwf s -> pstep s (PSet p u) = Some s' -> ppeers s p.
Proof. intros Hwf Hstep. apply step_set in Hstep as (Hp & _). apply (wf_exists s p Hwf). exact Hp. Qed.

Lemma phI_step w t s e s' :
  pwf s -> psync_inv s -> PhI w t s -> ev_ok w s e -> pstep s e = Some s' ->
  PhI (next_writer w e) (next_target t e) s'.
Proof.
  intros Hwf Hinv HP Hok Hstep.
  assert (Hnew : forall p u x, e = PSet p u -> pquiescent s -> Agree s x -> PhI (Some p) (Some u) s').
  { intros p u x -> Hq Ha. pose proof (set_peer_exists s p u s' Hwf Hstep) as Hp.
    pose proof (bk_start s x p Hinv Hq Ha Hp) as HB.
    destruct (bk_step p s (PSet p u) s' Hwf Hinv HB Hstep eq_refl) as [HB' Hpar]. split; assumption. }
  destruct w as [w|]; simpl in HP; destruct HP as [HP Ht].
  - destruct e as [p u|p|src dst|c]; simpl in Hok |- *.
    + destruct (decide (w = p)) as [->|Hne].
      * destruct (bk_step p s (PSet p u) s' Hwf Hinv HP Hstep eq_refl) as [HB' Hpar]. split; assumption.
      * destruct Hok as [E|Hq]; [contradiction|].
        apply (Hnew p u (ppar s w) eq_refl Hq). apply bk_quiescent_agree; assumption.
    + destruct (bk_step w s (PAnnounce p) s' Hwf Hinv HP Hstep I) as [HB' Hpar]. split; [exact HB'|congruence].
    + destruct (bk_step w s (PDeliver src dst) s' Hwf Hinv HP Hstep I) as [HB' Hpar]. split; [exact HB'|congruence].
    + destruct (bk_step w s (PJoin c) s' Hwf Hinv HP Hstep I) as [HB' Hpar]. split; [exact HB'|congruence].
  - pose proof (ph0_quiescent s HP) as Hq. destruct e as [p u|p|src dst|c]; simpl.
    + apply (Hnew p u None eq_refl Hq). intros q _. apply HP.
    + destruct (quiescent_is_stable s Hq _ _ Hstep) as [[]| ->]. split; assumption.
    + destruct (quiescent_is_stable s Hq _ _ Hstep) as [[]| ->]. split; assumption.
    + split; [eapply ph0_join; eauto|exact Ht].
Qed.

Lemma target_after_cons t e tr : target_after t (e :: tr) = target_after (next_target t e) tr.
Proof. unfold target_after. simpl. destruct e; reflexivity. Qed.
Lemma writer_after_cons w e tr : writer_after w (e :: tr) = writer_after (next_writer w e) tr.
Proof. unfold writer_after. simpl. destruct e; reflexivity. Qed.

Lemma scan_ev_ok w s e s' tr :
  pstep s e = Some s' -> wds_from w s (e :: tr) = true ->
  ev_ok w s e /\ wds_from (next_writer w e) s' tr = true.
Proof.
  intros Hstep H. simpl in H. rewrite Hstep in H.
  destruct e as [p u|p|src dst|c]; simpl; try (split; [destruct w; exact I|exact H]).
  apply andb_true_iff in H as [Ha Hb]. split; [|exact Hb].
  destruct w as [q|]; [|exact I]. apply orb_true_iff in Ha as [Ha|Ha].
  - left. apply bool_decide_eq_true in Ha. exact Ha.
  - right. apply (bool_decide_eq_true_1 (pquiescent s)). exact Ha.
Qed.

Lemma C05_general tr : forall w t s s',
  pwf s -> psync_inv s -> PhI w t s -> wds_from w s tr = true -> prun s tr = Some s' ->
  pwf s' /\ psync_inv s' /\ PhI (writer_after w tr) (target_after t tr) s'.
Proof.
  induction tr as [|e tr IH]; intros w t s s' Hwf Hinv HP Hwds Hrun.
  - simpl in Hrun. injection Hrun as <-. auto.
  - simpl in Hrun. destruct (pstep s e) as [s1|] eqn:Hs; [|discriminate].
    destruct (scan_ev_ok w s e s1 tr Hs Hwds) as (Hok & Hwds').
    rewrite target_after_cons, writer_after_cons. apply (IH _ _ s1); try assumption.
    + eapply step_wf; eauto.
    + eapply step_sync_inv; eauto.
    + eapply phI_step; eauto.
Qed.

Lemma wds_from_prefix w s tr1 tr2 : wds_from w s (tr1 ++ tr2) = true -> wds_from w s tr1 = true.
Proof.
  revert w s. induction tr1 as [|e tr1 IH]; intros w s H; simpl in *; [reflexivity|].
  destruct (pstep s e) as [s1|]; [|reflexivity]. destruct e; eauto.
  apply andb_true_iff in H as [Ha Hb]. rewrite Ha. simpl. eauto.
Qed.

Lemma wds_from_drain w s tr : Forall drain_event tr -> wds_from w s tr = true.
Proof.
  intros Hd. revert s. induction Hd as [|e tr He Hd IH]; intros s; simpl; [reflexivity|].
  destruct (pstep s e) as [s1|]; [|reflexivity]. destruct e; simpl in He; try contradiction; apply IH.
Qed.

Lemma pinit_general n tr s' :
  prun (pinit n) tr = Some s' -> writers_drain_separated (pinit n) tr = true ->
  pwf s' /\ psync_inv s' /\ PhI (writer_after None tr) (last_set tr) s'.
Proof.
  intros Hrun Hwds.
  apply (C05_general tr None None (pinit n) s' (pinit_wf n) (pinit_sync_inv n)); [|exact Hwds|exact Hrun].
  split; [apply ph0_init|reflexivity].
Qed.

(* THEOREM 5 (C05): operations on the child's parent by any peers, with any parents; operations of one
   and the same peer at ANY pace (A -> B -> A included); an operation of a peer other than the author
   of the previous one is issued at a quiescent state; clients join at ANY moment.  Then at every
   quiescent state all peers have the parent given by the last operation. *)
Theorem C05_converges n tr s' :
  prun (pinit n) tr = Some s' -> writers_drain_separated (pinit n) tr = true ->
  pquiescent s' -> forall p, ppeers s' p -> ppar s' p = last_set tr.
Proof.
  intros Hrun Hwds Hq. destruct (pinit_general n tr s' Hrun Hwds) as (_ & _ & HP).
  apply (phI_quiescent_agree _ _ _ HP Hq).
Qed.
Print Assumptions C05_converges.

Theorem C05_every_quiescent_state n tr1 tr2 s1 :
  prun (pinit n) tr1 = Some s1 -> writers_drain_separated (pinit n) (tr1 ++ tr2) = true ->
  pquiescent s1 -> forall p, ppeers s1 p -> ppar s1 p = last_set tr1.
Proof.
  intros Hrun Hwds. apply (C05_converges n tr1 s1 Hrun). eapply wds_from_prefix. exact Hwds.
Qed.
Print Assumptions C05_every_quiescent_state.

Lemma phI_drain_run w t tr : forall s s',
  pwf s -> psync_inv s -> PhI w t s -> Forall drain_event tr -> prun s tr = Some s' -> PhI w t s'.
Proof.
  intros s s' Hwf Hinv HP Hd Hrun.
  destruct (C05_general tr w t s s' Hwf Hinv HP (wds_from_drain w s tr Hd) Hrun) as (_ & _ & H).
  assert (E1 : writer_after w tr = w).
  { clear -Hd. revert w. induction Hd as [|e tr He _ IH]; intros w; [reflexivity|].
    rewrite writer_after_cons. destruct e; simpl in He; try contradiction; apply IH. }
  assert (E2 : target_after t tr = t).
  { clear -Hd. revert t. induction Hd as [|e tr He _ IH]; intros t; [reflexivity|].
    rewrite target_after_cons. destruct e; simpl in He; try contradiction; apply IH. }
  rewrite E1, E2 in H. exact H.
Qed.

(* ... and after ANY such history (quiescent or not) the exchange in progress terminates, whatever
   the schedule, with the last parent everywhere *)
Theorem C05_terminates n tr s' :
  prun (pinit n) tr = Some s' -> writers_drain_separated (pinit n) tr = true ->
  (* every continuation by announce / deliver events that reaches a quiescent state agrees on the last parent *)
  (forall tr2 s'', Forall drain_event tr2 -> prun s' tr2 = Some s'' -> pquiescent s'' ->
     forall p, ppeers s'' p -> ppar s'' p = last_set tr) /\
  (* at most [pmeasure s'] of its events do anything, at most [ppotential n' s'] messages are sent *)
  (forall tr2 s'', Forall drain_event tr2 -> prun s' tr2 = Some s'' ->
     peffective_count s' tr2 <= pmeasure s' /\ ptotal_sent s' tr2 <= ppotential (length (pconn s')) s') /\
  (* one of them does reach a quiescent state *)
  (exists tr2 s'', Forall drain_event tr2 /\ prun s' tr2 = Some s'' /\ pquiescent s'') /\
  (* and none goes on for ever *)
  (forall (st : nat -> pstate) (ev : nat -> pevent), st 0 = s' ->
     (forall i, drain_event (ev i) /\ effective (st i) (ev i) = true /\ pstep (st i) (ev i) = Some (st (S i))) -> False).
Proof.
  intros Hrun Hwds. destruct (pinit_general n tr s' Hrun Hwds) as (Hwf & Hinv & HP).
  split; [|split; [|split]].
  - intros tr2 s'' Hd Hrun2 Hq.
    apply (phI_quiescent_agree (writer_after None tr) (last_set tr) s''); [|exact Hq].
    apply (phI_drain_run _ _ tr2 s' s'' Hwf Hinv HP Hd Hrun2).
  - intros tr2 s'' Hd Hrun2. destruct (drain_run _ tr2 s' s'' Hwf (le_n _) Hd Hrun2) as (_ & _ & H1 & H2). lia.
  - apply drain_terminates. exact Hwf.
  - intros st ev H0 Hinf. apply (no_infinite_exchange st ev); [rewrite H0; exact Hwf|exact Hinf].
Qed.
Print Assumptions C05_terminates.

(* ================================================================================================
   Part 9: joins
   ================================================================================================ *)

Lemma conn_step_mono s e s' c : pstep s e = Some s' -> c ∈ pconn s -> c ∈ pconn s'.
Proof.
  intros Hstep Hc. destruct e as [p u|p|src dst|c0]; simpl in Hstep.
  - destruct (pp s !! p); [|discriminate]. injection Hstep as <-. exact Hc.
  - destruct (pp s !! p) as [y|]; [|discriminate]. destruct (changed y); injection Hstep as <-; exact Hc.
  - destruct (plink s src dst); [discriminate|]. destruct (pp s !! dst); [|discriminate].
    injection Hstep as <-. exact Hc.
  - destruct (_ || _); [discriminate|]. injection Hstep as <-. simpl. apply elem_of_app. left. exact Hc.
Qed.

Lemma conn_run_mono s tr s' c : prun s tr = Some s' -> c ∈ pconn s -> c ∈ pconn s'.
Proof.
  revert s. induction tr as [|e tr IH]; intros s Hrun Hc; simpl in Hrun; [congruence|].
  destruct (pstep s e) as [s1|] eqn:Hs; [|discriminate]. eapply IH; [exact Hrun|]. eapply conn_step_mono; eauto.
Qed.

Lemma joined_connected s tr1 c tr2 s' : prun s (tr1 ++ PJoin c :: tr2) = Some s' -> c ∈ pconn s'.
Proof.
  rewrite prun_app. destruct (prun s tr1) as [s1|]; [|discriminate]. cbn [prun].
  destruct (pstep s1 (PJoin c)) as [s2|] eqn:Hs; [|discriminate]. intros Hrun.
  eapply conn_run_mono; [exact Hrun|]. apply step_join in Hs as (_ & _ & _ & Hc & _). rewrite Hc.
  apply elem_of_app. right. apply elem_of_list_singleton. reflexivity.
Qed.

(* a client that joins at ANY moment of such a history -- in the middle of an exchange, between a
   set_parent on the host and its announcement, ... -- ends with the host's parent, the last one *)
Theorem join_gets_parent n tr1 c tr2 s' :
  let tr := tr1 ++ PJoin c :: tr2 in
  prun (pinit n) tr = Some s' -> writers_drain_separated (pinit n) tr = true ->
  pquiescent s' -> ppar s' c = ppar s' host /\ ppar s' c = last_set tr.
Proof.
  intros tr Hrun Hwds Hq.
  pose proof (C05_converges n tr s' Hrun Hwds Hq) as Ha.
  rewrite (Ha c), (Ha host); [auto|left; reflexivity|right; eapply joined_connected; exact Hrun].
Qed.
Print Assumptions join_gets_parent.

(* ================================================================================================
   Part 10: non-vacuity; the old witnesses; what is outside the property
   ================================================================================================ *)

(* Three writers (client 1, the host, client 2), 2 clients at the start, 3 joiners.
   - client 1 re-parents 7 -> 8 -> 7 at full pace (its announcements interleaved with the PSet);
   - client 3 joins in the MIDDLE of that exchange (two links in flight towards the host, the host has
     nothing yet), client 4 after the host applied the first link (the snapshot carries 7, then 8 and 7
     are relayed);
   - the host re-parents 4 -> 5 -> 4 WITHOUT its announcing system running in between, and client 5
     joins between the first set_parent and the announcement (the snapshot carries 4);
   - client 2 re-parents twice to the same parent. *)
Definition ex_history : list pevent :=
  [PSet 1 7; PAnnounce 1; PSet 1 8; PAnnounce 1; PSet 1 7; PJoin 3; PAnnounce 1; PDeliver 1 0; PJoin 4; PDeliver 1 0;
   PAnnounce 0; PDeliver 1 0; PAnnounce 0; PDeliver 0 2; PAnnounce 2; PDeliver 0 2; PAnnounce 2; PDeliver 0 2;
   PAnnounce 2; PDeliver 0 3; PAnnounce 3; PDeliver 0 3; PAnnounce 3; PDeliver 0 3; PAnnounce 3; PDeliver 0 4;
   PAnnounce 4; PDeliver 0 4; PAnnounce 4; PDeliver 0 4; PAnnounce 4;                       (* 31: quiescent, 7 *)
   PSet 0 4; PJoin 5; PSet 0 5; PSet 0 4; PAnnounce 0; PDeliver 0 1; PAnnounce 1; PDeliver 0 2; PAnnounce 2;
   PDeliver 0 3; PAnnounce 3; PDeliver 0 4; PAnnounce 4; PDeliver 0 5; PAnnounce 5; PDeliver 0 5;   (* 47: quiescent, 4 *)
   PSet 2 9; PAnnounce 2; PSet 2 9; PAnnounce 2; PDeliver 2 0; PAnnounce 0; PDeliver 2 0; PDeliver 0 1; PAnnounce 1;
   PDeliver 0 1; PDeliver 0 3; PAnnounce 3; PDeliver 0 3; PDeliver 0 4; PAnnounce 4; PDeliver 0 4; PDeliver 0 5;
   PAnnounce 5; PDeliver 0 5]%N.                                                           (* 66: quiescent, 9 *)

Example C05_nonvacuous :
  writers_drain_separated (pinit 2) ex_history = true /\
  psets ex_history = [(1, 7); (1, 8); (1, 7); (0, 4); (0, 5); (0, 4); (2, 9); (2, 9)]%N /\
  pjoiners ex_history = [3; 4; 5]%N /\ last_set ex_history = Some 9%N /\
  (fun s => pview s [0; 1; 2; 3; 4; 5]%N) <$> prun (pinit 2) ex_history
    = Some ([Some 9; Some 9; Some 9; Some 9; Some 9; Some 9]%N, true) /\
  (* the quiescent states in between (C05_every_quiescent_state) *)
  (fun s => pview s [0; 1; 2; 3; 4]%N) <$> prun (pinit 2) (take 31 ex_history)
    = Some ([Some 7; Some 7; Some 7; Some 7; Some 7]%N, true) /\
  (fun s => pview s [0; 1; 2; 3; 4; 5]%N) <$> prun (pinit 2) (take 47 ex_history)
    = Some ([Some 4; Some 4; Some 4; Some 4; Some 4; Some 4]%N, true) /\
  (* the joins happen in the middle of exchanges: the state is not quiescent *)
  pquiescentb <$> prun (pinit 2) (take 5 ex_history) = Some false /\
  (fun s => (plink s 1 0, ppar s 0))%N <$> prun (pinit 2) (take 5 ex_history) = Some ([7; 8]%N, None) /\
  pquiescentb <$> prun (pinit 2) (take 8 ex_history) = Some false /\
  (fun s => (parmed s 0, ppar s 0, ptok s 0))%N <$> prun (pinit 2) (take 32 ex_history) = Some (true, Some 4%N, None) /\
  (* between two quiescent states no state is quiescent *)
  forallb (fun s => negb (pquiescentb s)) (tail (removelast (pstates (pinit 2) (take 31 ex_history)))) = true /\
  ptotal_sent (pinit 2) ex_history = 28.
Proof. vm_compute. repeat split; reflexivity. Qed.

(* the theorems apply to it *)
Example C05_nonvacuous_applied s' :
  prun (pinit 2) ex_history = Some s' -> pquiescent s' ->
  (forall p, ppeers s' p -> ppar s' p = Some 9%N) /\ ppar s' 3%N = ppar s' host /\ ppar s' 5%N = ppar s' host.
Proof.
  intros Hrun Hq.
  assert (Hwds : writers_drain_separated (pinit 2) ex_history = true) by (vm_compute; reflexivity).
  split; [apply (C05_converges 2 ex_history s' Hrun Hwds Hq)|].
  split.
  - apply (join_gets_parent 2 (take 5 ex_history) 3%N (drop 6 ex_history) s' Hrun Hwds Hq).
  - apply (join_gets_parent 2 (take 32 ex_history) 5%N (drop 33 ex_history) s' Hrun Hwds Hq).
Qed.

(* The hole of the FIRST repair (parent_synced = last parent announced or received, not consumed):
   the host re-parents 1 -> 2 -> 1, a client joins between the last two set_parent, before the host's
   announcing system runs.  The snapshot carries 2.  With the value token the host's announcement of
   1 is not suppressed (the host holds no token): the joiner ends with 1. *)
Definition ex_join_armed_host : list pevent :=
  [PSet 0 1; PAnnounce 0; PSet 0 2; PJoin 1; PSet 0 1; PAnnounce 0; PDeliver 0 1; PAnnounce 1; PDeliver 0 1; PAnnounce 1]%N.
Example join_at_armed_host_converges :
  (fun s => pview s [0; 1]%N) <$> prun (pinit 0) ex_join_armed_host = Some ([Some 1; Some 1]%N, true) /\
  (fun s => (plink s 0 1, parmed s 0))%N <$> prun (pinit 0) (take 6 ex_join_armed_host) = Some ([2; 1]%N, false) /\
  writers_drain_separated (pinit 0) ex_join_armed_host = true /\ last_set ex_join_armed_host = Some 1%N.
Proof. vm_compute. auto. Qed.

(* ---- THEOREM 6: the old witnesses no longer loop -------------------------------------------- *)

(* any history within the premise, whatever drain follows: a generic corollary for concrete prefixes *)
Corollary converges_under_every_drain n tr tr2 s'' :
  writers_drain_separated (pinit n) tr = true -> Forall drain_event tr2 ->
  prun (pinit n) (tr ++ tr2) = Some s'' -> pquiescent s'' ->
  forall p, ppeers s'' p -> ppar s'' p = last_set tr.
Proof.
  intros Hwds Hd Hrun Hq. rewrite prun_app in Hrun. destruct (prun (pinit n) tr) as [s'|] eqn:Hr; [|discriminate].
  destruct (C05_terminates n tr s' Hr Hwds) as (H & _). apply (H tr2 s'' Hd Hrun Hq).
Qed.

Fixpoint iter_tr (k : nat) (loop : list pevent) : list pevent :=
  match k with O => [] | S k => loop ++ iter_tr k loop end.

(* S19: client 1 makes the child a child of 1, and a frame later of 2 (frames in the order of the
   real plugin: announce, then apply what was received).  Before the repair the state after
   [s19_prefix] recurred for ever under the lockstep schedule [s19_loop], 4 messages per period. *)
Definition s19_prefix : list pevent :=
  [PSet 1 1; PAnnounce 1;                   (* client frame *)
   PAnnounce 0; PDeliver 1 0;               (* host frame: applies 1 *)
   PSet 1 2;
   PAnnounce 1;                             (* round 1, client: announces 2 *)
   PAnnounce 0; PDeliver 1 0]%N.            (* round 1, host: (no echo of 1 any more) applies 2 *)
Definition s19_loop : list pevent :=
  [PAnnounce 1; PDeliver 0 1; PAnnounce 0; PAnnounce 1; PDeliver 0 1;
   PAnnounce 0; PDeliver 1 0; PAnnounce 1; PAnnounce 0; PDeliver 1 0]%N.

Example old_pingpong_now_quiescent :
  (* the prefix is a run of the repaired model too: 2 messages instead of 3, both peers have 2 *)
  (fun s => pview s [0; 1]%N) <$> prun (pinit 1) s19_prefix = Some ([Some 2; Some 2]%N, false) /\
  ptotal_sent (pinit 1) s19_prefix = 2 /\
  (* the old schedule (deliveries with nothing to deliver skipped): quiescent after ONE period, and
     it stays so: no message is ever sent again *)
  pview (prun_skip (pinit 1) (s19_prefix ++ s19_loop)) [0; 1]%N = ([Some 2; Some 2]%N, true) /\
  prun_skip (pinit 1) (s19_prefix ++ iter_tr 5 s19_loop) = prun_skip (pinit 1) (s19_prefix ++ s19_loop) /\
  (* the only thing left to do after the prefix: the host's announcing system sees its flag *)
  (fun s => pview s [0; 1]%N) <$> prun (pinit 1) (s19_prefix ++ [PAnnounce 0%N]) = Some ([Some 2; Some 2]%N, true) /\
  writers_drain_separated (pinit 1) s19_prefix = true /\ last_set s19_prefix = Some 2%N.
Proof. vm_compute. repeat split; reflexivity. Qed.

(* ... and under EVERY schedule: every drain of the prefix that is quiescent has 2 everywhere, at most
   1 of its events does anything, it sends nothing *)
Example old_pingpong_every_drain tr2 s'' :
  Forall drain_event tr2 -> prun (pinit 1) (s19_prefix ++ tr2) = Some s'' ->
  (pquiescent s'' -> forall p, ppeers s'' p -> ppar s'' p = Some 2%N) /\
  ptotal_sent (pinit 1) (s19_prefix ++ tr2) = 2.
Proof.
  intros Hd Hrun.
  assert (Hwds : writers_drain_separated (pinit 1) s19_prefix = true) by (vm_compute; reflexivity).
  split; [intros Hq; apply (converges_under_every_drain 1 s19_prefix tr2 s'' Hwds Hd Hrun Hq)|].
  rewrite ptotal_sent_app. rewrite prun_app in Hrun.
  destruct (prun (pinit 1) s19_prefix) as [s'|] eqn:Hr; [|discriminate].
  assert (Hsent : ptotal_sent (pinit 1) s19_prefix = 2) by (vm_compute; reflexivity).
  assert (Hpot : (fun s => ppotential (length (pconn s)) s) <$> prun (pinit 1) s19_prefix = Some 0) by (vm_compute; reflexivity).
  rewrite Hr in Hpot. simpl in Hpot. injection Hpot as Hpot.
  destruct (C05_terminates 1 s19_prefix s' Hr Hwds) as (_ & H & _). destruct (H tr2 s'' Hd Hrun) as [_ H2]. lia.
Qed.

(* the old join-in-flight history: everybody has 7, client 1 re-parents to 9 and announces it, client
   2 joins while the link is in flight (the snapshot carries the OLD parent 7).  Before the repair
   the joiner echoed 7 back: the re-parenting was lost everywhere or the exchange went on for ever.
   (The delivery host -> 1 of the old prefix is gone: the host does not echo any more.) *)
Definition ex_join_flight_pre : list pevent :=
  [PSet 1 7; PAnnounce 1; PDeliver 1 0; PAnnounce 0; PSet 1 9; PAnnounce 1; PJoin 2]%N.
(* the old schedules after the join: the one that lost the re-parenting, and prefix + cycle *)
Definition ex_join_lost_post : list pevent :=
  [PDeliver 1 0; PDeliver 0 2; PAnnounce 2; PDeliver 2 0; PDeliver 0 1; PAnnounce 0;
   PDeliver 0 2; PDeliver 0 2; PAnnounce 2; PAnnounce 1; PDeliver 0 1; PDeliver 1 0; PDeliver 2 0;
   PDeliver 0 1; PDeliver 0 2]%N.
Definition ex_join_cycle_post : list pevent :=
  [PDeliver 1 0; PDeliver 0 2; PAnnounce 2; PDeliver 0 2; PDeliver 2 0;
   PAnnounce 0; PDeliver 0 1; PAnnounce 1; PAnnounce 2;
   PDeliver 1 0; PDeliver 2 0; PAnnounce 0; PDeliver 0 1; PAnnounce 1; PDeliver 0 2; PAnnounce 2;
   PDeliver 2 0; PAnnounce 0; PDeliver 0 1; PDeliver 0 1; PAnnounce 1; PDeliver 0 2; PDeliver 0 2; PAnnounce 2;
   PDeliver 1 0; PDeliver 2 0; PAnnounce 0; PDeliver 0 1; PDeliver 0 1; PAnnounce 1; PDeliver 0 2; PAnnounce 2]%N.
Definition ex_join_cycle_loop : list pevent :=
  [PDeliver 1 0; PDeliver 2 0; PAnnounce 0; PDeliver 0 1; PDeliver 0 1; PAnnounce 1; PDeliver 0 2; PDeliver 0 2;
   PAnnounce 2; PDeliver 1 0; PDeliver 2 0; PAnnounce 0; PDeliver 0 1; PDeliver 0 1; PAnnounce 1; PDeliver 0 2;
   PDeliver 0 2; PAnnounce 2]%N.

Example old_join_in_flight_now_quiescent :
  (fun s => (pview s [0; 1; 2]%N, plink s 1 0, plink s 0 2))%N <$> prun (pinit 1) ex_join_flight_pre
    = Some (([Some 7; Some 9; None]%N, false), [9]%N, [7]%N) /\
  pview (prun_skip (pinit 1) (ex_join_flight_pre ++ ex_join_lost_post)) [0; 1; 2]%N = ([Some 9; Some 9; Some 9]%N, true) /\
  pview (prun_skip (pinit 1) (ex_join_flight_pre ++ ex_join_cycle_post)) [0; 1; 2]%N = ([Some 9; Some 9; Some 9]%N, true) /\
  prun_skip (pinit 1) (ex_join_flight_pre ++ ex_join_cycle_post ++ iter_tr 4 ex_join_cycle_loop)
    = prun_skip (pinit 1) (ex_join_flight_pre ++ ex_join_cycle_post) /\
  (* a complete drain: the joiner first applies the old parent (and stays silent), then the new one *)
  (fun s => pview s [0; 1; 2]%N) <$>
    prun (pinit 1) (ex_join_flight_pre ++ [PDeliver 0 2; PAnnounce 2; PDeliver 1 0; PAnnounce 0; PDeliver 0 2; PAnnounce 2]%N)
    = Some ([Some 9; Some 9; Some 9]%N, true) /\
  ptotal_sent (pinit 1)
    (ex_join_flight_pre ++ [PDeliver 0 2; PAnnounce 2; PDeliver 1 0; PAnnounce 0; PDeliver 0 2; PAnnounce 2]%N) = 4 /\
  writers_drain_separated (pinit 1) ex_join_flight_pre = true /\ last_set ex_join_flight_pre = Some 9%N.
Proof. vm_compute. repeat split; reflexivity. Qed.

Example old_join_in_flight_every_drain tr2 s'' :
  Forall drain_event tr2 -> prun (pinit 1) (ex_join_flight_pre ++ tr2) = Some s'' -> pquiescent s'' ->
  forall p, ppeers s'' p -> ppar s'' p = Some 9%N.
Proof.
  intros Hd Hrun Hq.
  apply (converges_under_every_drain 1 ex_join_flight_pre tr2 s''); [vm_compute; reflexivity|assumption..].
Qed.

(* ---- 8: outside the property: operations of two peers that are NOT drain separated ------------
   The host and client 1 re-parent at the same time: the two links cross, each peer applies the
   other's parent and (no echo) stays silent: quiescent for ever, and the two peers have SWAPPED
   parents.  Three peers: the clients end with different parents. *)
Theorem conflict_diverges :
  exists tr s, prun (pinit 1) tr = Some s /\ pquiescent s /\
    psets tr = [(0, 1); (1, 2)]%N /\ writers_drain_separated (pinit 1) tr = false /\
    ppar s 0%N = Some 2%N /\ ppar s 1%N = Some 1%N.
Proof.
  set (tr := [PSet 0 1; PSet 1 2; PAnnounce 0; PAnnounce 1; PDeliver 0 1; PDeliver 1 0; PAnnounce 0; PAnnounce 1]%N).
  destruct (prun (pinit 1) tr) as [s|] eqn:Hrun; [|vm_compute in Hrun; discriminate].
  assert (Hv : (fun s => (pquiescentb s, ppar s 0%N, ppar s 1%N)) <$> prun (pinit 1) tr = Some (true, Some 2%N, Some 1%N))
    by (vm_compute; reflexivity).
  rewrite Hrun in Hv. simpl in Hv. injection Hv as Hq H0 H1.
  exists tr, s. split; [exact Hrun|]. split; [apply (bool_decide_eq_true_1 (pquiescent s)); exact Hq|].
  split; [reflexivity|]. split; [vm_compute; reflexivity|]. split; assumption.
Qed.
Print Assumptions conflict_diverges.

Example conflict_diverges_three_peers :
  let tr := [PSet 1 7; PSet 2 8; PAnnounce 1; PAnnounce 2; PDeliver 1 0; PDeliver 2 0; PDeliver 0 1; PDeliver 0 2;
             PAnnounce 0; PAnnounce 1; PAnnounce 2]%N in
  (fun s => pview s [0; 1; 2]%N) <$> prun (pinit 2) tr = Some ([Some 8; Some 8; Some 7]%N, true) /\
  writers_drain_separated (pinit 2) tr = false.
Proof. vm_compute. auto. Qed.
