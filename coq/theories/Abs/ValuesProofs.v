(* Proofs about the event-level value replication model (Values.v): C10, C02, joins, traffic. *)
From Coq Require Import NArith List Lia.
From stdpp Require Import gmap list.
From BS Require Import Abs.Values.

Local Open Scope N_scope.

(* ================================================================================================
   Part 0: channel operations
   ================================================================================================ *)

Lemma lget_insert L a b l a' b' :
  lget (<[(a, b) := l]> L) a' b' = if decide ((a', b') = (a, b)) then l else lget L a' b'.
Proof.
  unfold lget. destruct (decide ((a', b') = (a, b))) as [Heq|Hne].
  - rewrite Heq, lookup_insert. reflexivity.
  - rewrite lookup_insert_ne by congruence. reflexivity.
Qed.

Lemma lget_push_link L a b vs a' b' :
  lget (push_link L a b vs) a' b' = if decide ((a', b') = (a, b)) then lget L a b ++ vs else lget L a' b'.
Proof. unfold push_link. apply lget_insert. Qed.

Lemma lget_send_to L src dsts vs a b :
  NoDup dsts ->
  lget (send_to L src dsts vs) a b = if decide (a = src /\ b ∈ dsts) then lget L a b ++ vs else lget L a b.
Proof.
  intros Hnd. induction Hnd as [|d dsts Hnotin Hnd IH]; simpl.
  - destruct (decide (a = src /\ b ∈ [])) as [[_ Hin]|_]; [inversion Hin|reflexivity].
  - rewrite lget_push_link. destruct (decide ((a, b) = (src, d))) as [Heq|Hne].
    + inversion Heq; subst. rewrite IH.
      destruct (decide (src = src /\ d ∈ dsts)) as [[_ Hin]|_]; [contradiction|].
      destruct (decide (src = src /\ d ∈ d :: dsts)) as [_|Hn]; [reflexivity|].
      exfalso. apply Hn. split; [reflexivity|left].
    + rewrite IH. destruct (decide (a = src /\ b ∈ dsts)) as [[-> Hin]|Hn].
      * destruct (decide (src = src /\ b ∈ d :: dsts)) as [_|Hn2]; [reflexivity|].
        exfalso. apply Hn2. split; [reflexivity|right; exact Hin].
      * destruct (decide (a = src /\ b ∈ d :: dsts)) as [[-> Hin]|_]; [|reflexivity].
        exfalso. apply elem_of_cons in Hin as [->|Hin]; [apply Hne; reflexivity|apply Hn; auto].
Qed.

Lemma NoDup_others src l : NoDup l -> NoDup (others src l).
Proof. intros H. unfold others. apply NoDup_filter. exact H. Qed.

Lemma elem_of_others src l c : c ∈ others src l <-> c <> src /\ c ∈ l.
Proof. unfold others. rewrite elem_of_list_filter. reflexivity. Qed.

(* ================================================================================================
   Part 1: getters after one step
   ================================================================================================ *)

Definition peers (s : vstate) (p : peer) : Prop := p = host \/ p ∈ vconn s.

Lemma getp_insert m c l p x :
  getp (VState (<[p := x]> m) c l) p = x.
Proof. unfold getp. simpl. rewrite lookup_insert. reflexivity. Qed.
Lemma getp_insert_ne m c l p q x :
  q <> p -> getp (VState (<[p := x]> m) c l) q = getp (VState m c l) q.
Proof. intros H. unfold getp. simpl. rewrite lookup_insert_ne by congruence. reflexivity. Qed.
Lemma getp_links m c l l' q : getp (VState m c l) q = getp (VState m c l') q.
Proof. reflexivity. Qed.

Lemma getp_exists s p x : vp s !! p = Some x -> getp s p = x.
Proof. intros H. unfold getp. rewrite H. reflexivity. Qed.

Lemma wf_exists s p : vwf s -> is_Some (vp s !! p) <-> peers s p.
Proof. intros (_ & _ & H & _). apply H. Qed.

Definition detect' (x : vpeer) : vpeer := if dirty x || token x then vdetect x else x.

(* VWrite *)
Lemma step_write s p v s' :
  vstep s (VWrite p v) = Some s' ->
  is_Some (vp s !! p) /\ vconn s' = vconn s /\ vlinks s' = vlinks s /\
  (forall q, is_Some (vp s' !! q) <-> is_Some (vp s !! q)) /\
  getp s' p = VPeer (Some v) true (ptoken s p) (poutq s p) /\
  (forall q, q <> p -> getp s' q = getp s q).
Proof.
  simpl. destruct (vp s !! p) as [x|] eqn:Hx; [|discriminate]. intros [= <-].
  split; [eauto|]. split; [reflexivity|]. split; [reflexivity|]. split; [|split].
  - intros q. simpl. destruct (decide (q = p)) as [->|Hne].
    + rewrite lookup_insert, Hx. split; eauto.
    + rewrite lookup_insert_ne by congruence. reflexivity.
  - unfold set_peer. rewrite getp_insert. unfold ptoken, poutq. rewrite (getp_exists _ _ _ Hx). reflexivity.
  - intros q Hne. unfold set_peer. destruct s; simpl. apply getp_insert_ne. exact Hne.
Qed.

(* VDetect *)
Lemma step_detect s p s' :
  vstep s (VDetect p) = Some s' ->
  is_Some (vp s !! p) /\ vconn s' = vconn s /\ vlinks s' = vlinks s /\
  (forall q, is_Some (vp s' !! q) <-> is_Some (vp s !! q)) /\
  getp s' p = detect' (getp s p) /\
  (forall q, q <> p -> getp s' q = getp s q).
Proof.
  simpl. destruct (vp s !! p) as [x|] eqn:Hx; [|discriminate].
  unfold detect'. rewrite (getp_exists _ _ _ Hx).
  destruct (dirty x || token x) eqn:Hd; intros [= <-].
  - split; [eauto|]. split; [reflexivity|]. split; [reflexivity|]. split; [|split].
    + intros q. simpl. destruct (decide (q = p)) as [->|Hne].
      * rewrite lookup_insert, Hx. split; eauto.
      * rewrite lookup_insert_ne by congruence. reflexivity.
    + unfold set_peer. apply getp_insert.
    + intros q Hne. unfold set_peer. destruct s; simpl. apply getp_insert_ne. exact Hne.
  - split; [eauto|]. repeat split; try tauto. apply getp_exists. exact Hx.
Qed.

(* VSend *)
Definition dsts_of (s : vstate) (p : peer) : list peer := if (p =? host)%N then vconn s else [host].

Lemma step_send s p s' :
  NoDup (vconn s) ->
  vstep s (VSend p) = Some s' ->
  is_Some (vp s !! p) /\ vconn s' = vconn s /\
  (forall q, is_Some (vp s' !! q) <-> is_Some (vp s !! q)) /\
  getp s' p = VPeer (pcur s p) (pdirty s p) (ptoken s p) [] /\
  (forall q, q <> p -> getp s' q = getp s q) /\
  (forall a b, link s' a b = if decide (a = p /\ b ∈ dsts_of s p) then link s a b ++ poutq s p else link s a b).
Proof.
  intros Hnd. simpl. destruct (vp s !! p) as [x|] eqn:Hx; [|discriminate].
  unfold pcur, pdirty, ptoken, poutq. rewrite (getp_exists _ _ _ Hx).
  destruct (outq x) as [|v0 q0] eqn:Hq; intros [= <-].
  - split; [eauto|]. split; [reflexivity|]. split; [tauto|]. split; [|split].
    + rewrite (getp_exists _ _ _ Hx). destruct x; simpl in *. subst. reflexivity.
    + reflexivity.
    + intros a b. destruct (decide _); [rewrite app_nil_r|]; reflexivity.
  - split; [eauto|]. split; [reflexivity|]. split; [|split; [|split]].
    + intros q. simpl. destruct (decide (q = p)) as [->|Hne].
      * rewrite lookup_insert, Hx. split; eauto.
      * rewrite lookup_insert_ne by congruence. reflexivity.
    + apply getp_insert.
    + intros q Hne. destruct s; simpl. rewrite getp_insert_ne by exact Hne. reflexivity.
    + intros a b. unfold link. simpl. apply lget_send_to.
      unfold dsts_of. destruct (p =? host)%N; [exact Hnd|]. apply NoDup_singleton.
Qed.

(* VDeliver *)
Lemma step_deliver s src dst s' :
  NoDup (vconn s) ->
  vstep s (VDeliver src dst) = Some s' ->
  exists v rest, link s src dst = v :: rest /\ is_Some (vp s !! dst) /\ vconn s' = vconn s /\
  (forall q, is_Some (vp s' !! q) <-> is_Some (vp s !! q)) /\
  (forall q, q <> dst -> getp s' q = getp s q) /\
  ((pcur s dst = Some v /\ getp s' dst = getp s dst /\
    forall a b, link s' a b = if decide ((a, b) = (src, dst)) then rest else link s a b)
   \/
   (pcur s dst <> Some v /\ getp s' dst = VPeer (Some v) (pdirty s dst) true (poutq s dst) /\
    forall a b, link s' a b =
      (if decide ((a, b) = (src, dst)) then rest else link s a b) ++
      (if decide (dst = host /\ a = host /\ b ∈ others src (vconn s)) then [v] else []))).
Proof.
  intros Hnd. simpl. destruct (link s src dst) as [|v rest] eqn:Hl; [discriminate|].
  destruct (vp s !! dst) as [x|] eqn:Hx; [|discriminate].
  unfold pcur, pdirty, poutq. rewrite (getp_exists _ _ _ Hx).
  destruct (bool_decide (cur x = Some v)) eqn:Hc; intros [= <-]; exists v, rest.
  - apply bool_decide_eq_true in Hc.
    split; [reflexivity|]. split; [eauto|]. split; [reflexivity|]. split; [tauto|]. split; [reflexivity|].
    left. split; [exact Hc|]. split; [unfold getp; simpl; rewrite Hx; reflexivity|].
    intros a b. unfold link. simpl. apply lget_insert.
  - apply bool_decide_eq_false in Hc.
    split; [reflexivity|]. split; [eauto|]. split; [reflexivity|]. split; [|split].
    + intros q. simpl. destruct (decide (q = dst)) as [->|Hne].
      * rewrite lookup_insert, Hx. split; eauto.
      * rewrite lookup_insert_ne by congruence. reflexivity.
    + intros q Hne. destruct s; simpl. rewrite getp_insert_ne by exact Hne. reflexivity.
    + right. split; [exact Hc|]. split; [apply getp_insert|].
      intros a b. unfold link. simpl. destruct (dst =? host)%N eqn:Hd.
      * apply N.eqb_eq in Hd. subst dst. rewrite lget_send_to by (apply NoDup_others; exact Hnd).
        rewrite lget_insert.
        destruct (decide (a = host /\ b ∈ others src (vconn s))) as [[-> Hin]|Hn].
        -- destruct (decide (host = host /\ host = host /\ b ∈ others src (vconn s))) as [_|Hn]; [reflexivity|tauto].
        -- destruct (decide (host = host /\ a = host /\ b ∈ others src (vconn s))) as [[_ Hy]|_]; [tauto|].
           rewrite app_nil_r. reflexivity.
      * apply N.eqb_neq in Hd. rewrite lget_insert.
        destruct (decide (dst = host /\ _)) as [[Hy _]|_]; [contradiction|]. rewrite app_nil_r. reflexivity.
Qed.

(* VJoin *)
Definition snapshot (s : vstate) : list value := match pcur s host with Some v => [v] | None => [] end.

Lemma step_join s c s' :
  vstep s (VJoin c) = Some s' ->
  c <> host /\ c ∉ vconn s /\ vp s !! c = None /\ vconn s' = vconn s ++ [c] /\
  (forall q, is_Some (vp s' !! q) <-> is_Some (vp s !! q) \/ q = c) /\
  (forall q, getp s' q = getp s q) /\
  (forall a b, link s' a b = if decide ((a, b) = (host, c)) then link s host c ++ snapshot s else link s a b).
Proof.
  simpl. destruct (c =? host)%N eqn:Hc; [discriminate|]. apply N.eqb_neq in Hc.
  destruct (bool_decide (c ∈ vconn s)) eqn:Hin; [discriminate|]. apply bool_decide_eq_false in Hin.
  unfold pexists. destruct (bool_decide (is_Some (vp s !! c))) eqn:Hex; [discriminate|].
  apply bool_decide_eq_false in Hex. simpl. intros [= <-].
  assert (Hnone : vp s !! c = None) by (destruct (vp s !! c); [exfalso; eauto|reflexivity]).
  split; [exact Hc|]. split; [exact Hin|]. split; [exact Hnone|]. split; [reflexivity|]. split; [|split].
  - intros q. simpl. destruct (decide (q = c)) as [->|Hne].
    + rewrite lookup_insert. split; eauto.
    + rewrite lookup_insert_ne by congruence. split; [auto|]. intros [H|H]; [exact H|contradiction].
  - intros q. unfold getp. simpl. destruct (decide (q = c)) as [->|Hne].
    + rewrite lookup_insert, Hnone. reflexivity.
    + rewrite lookup_insert_ne by congruence. reflexivity.
  - intros a b. unfold link, snapshot. simpl. destruct (pcur s host) as [v|].
    + apply lget_push_link.
    + destruct (decide _) as [Heq|_]; [|reflexivity]. inversion Heq; subst. rewrite app_nil_r. reflexivity.
Qed.
