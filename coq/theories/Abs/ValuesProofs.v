(* Proofs about the event-level value replication model (Values.v): C10, C02, joins, traffic. *)
From Coq Require Import NArith List Lia.
From stdpp Require Import gmap list.
From BS Require Import Abs.Values.

Local Open Scope N_scope.

(* ================================================================================================
   Part 0: channel operations
   ================================================================================================ *)

Lemma lget_insert L a b l a' b' :
  lget (<[(a, b) := l]> L) a' b' = if decide ((a', b') = (a, b)) then l else lget L a' b'.
Proof.
  unfold lget. destruct (decide ((a', b') = (a, b))) as [Heq|Hne].
  - rewrite Heq, lookup_insert. reflexivity.
  - rewrite lookup_insert_ne by congruence. reflexivity.
Qed.

Lemma lget_push_link L a b vs a' b' :
  lget (push_link L a b vs) a' b' = if decide ((a', b') = (a, b)) then lget L a b ++ vs else lget L a' b'.
Proof. unfold push_link. apply lget_insert. Qed.

Lemma lget_send_to L src dsts vs a b :
  NoDup dsts ->
  lget (send_to L src dsts vs) a b = if decide (a = src /\ b ∈ dsts) then lget L a b ++ vs else lget L a b.
Proof.
  intros Hnd. induction Hnd as [|d dsts Hnotin Hnd IH]; simpl.
  - destruct (decide (a = src /\ b ∈ [])) as [[_ Hin]|_]; [inversion Hin|reflexivity].
  - rewrite lget_push_link. destruct (decide ((a, b) = (src, d))) as [Heq|Hne].
    + inversion Heq; subst. rewrite IH.
      destruct (decide (src = src /\ d ∈ dsts)) as [[_ Hin]|_]; [contradiction|].
      destruct (decide (src = src /\ d ∈ d :: dsts)) as [_|Hn]; [reflexivity|].
      exfalso. apply Hn. split; [reflexivity|left].
    + rewrite IH. destruct (decide (a = src /\ b ∈ dsts)) as [[-> Hin]|Hn].
      * destruct (decide (src = src /\ b ∈ d :: dsts)) as [_|Hn2]; [reflexivity|].
        exfalso. apply Hn2. split; [reflexivity|right; exact Hin].
      * destruct (decide (a = src /\ b ∈ d :: dsts)) as [[-> Hin]|_]; [|reflexivity].
        exfalso. apply elem_of_cons in Hin as [->|Hin]; [apply Hne; reflexivity|apply Hn; auto].
Qed.

Lemma NoDup_others src l : NoDup l -> NoDup (others src l).
Proof. intros H. unfold others. apply NoDup_filter. exact H. Qed.

Lemma elem_of_others src l c : c ∈ others src l <-> c <> src /\ c ∈ l.
Proof. unfold others. rewrite elem_of_list_filter. reflexivity. Qed.

(* ================================================================================================
   Part 1: getters after one step
   ================================================================================================ *)

Definition peers (s : vstate) (p : peer) : Prop := p = host \/ p ∈ vconn s.

Lemma getp_insert m c l p x :
  getp (VState (<[p := x]> m) c l) p = x.
Proof. unfold getp. simpl. rewrite lookup_insert. reflexivity. Qed.
Lemma getp_insert_ne m c l p q x :
  q <> p -> getp (VState (<[p := x]> m) c l) q = getp (VState m c l) q.
Proof. intros H. unfold getp. simpl. rewrite lookup_insert_ne by congruence. reflexivity. Qed.
Lemma getp_links m c l l' q : getp (VState m c l) q = getp (VState m c l') q.
Proof. reflexivity. Qed.

Lemma getp_exists s p x : vp s !! p = Some x -> getp s p = x.
Proof. intros H. unfold getp. rewrite H. reflexivity. Qed.

Lemma wf_exists s p : vwf s -> is_Some (vp s !! p) <-> peers s p.
Proof. intros (_ & _ & H & _). apply H. Qed.

Definition detect' (x : vpeer) : vpeer := if dirty x || token x then vdetect x else x.

(* VWrite *)
Lemma step_write s p v s' :
  vstep s (VWrite p v) = Some s' ->
  is_Some (vp s !! p) /\ vconn s' = vconn s /\ vlinks s' = vlinks s /\
  (forall q, is_Some (vp s' !! q) <-> is_Some (vp s !! q)) /\
  getp s' p = VPeer (Some v) true false (poutq s p) /\
  (forall q, q <> p -> getp s' q = getp s q).
Proof.
  simpl. destruct (vp s !! p) as [x|] eqn:Hx; [|discriminate]. intros [= <-].
  split; [eauto|]. split; [reflexivity|]. split; [reflexivity|]. split; [|split].
  - intros q. simpl. destruct (decide (q = p)) as [->|Hne].
    + rewrite lookup_insert, Hx. split; eauto.
    + rewrite lookup_insert_ne by congruence. reflexivity.
  - unfold set_peer. rewrite getp_insert. unfold poutq. rewrite (getp_exists _ _ _ Hx). reflexivity.
  - intros q Hne. unfold set_peer. destruct s; simpl. apply getp_insert_ne. exact Hne.
Qed.

(* VDetect *)
Lemma step_detect s p s' :
  vstep s (VDetect p) = Some s' ->
  is_Some (vp s !! p) /\ vconn s' = vconn s /\ vlinks s' = vlinks s /\
  (forall q, is_Some (vp s' !! q) <-> is_Some (vp s !! q)) /\
  getp s' p = detect' (getp s p) /\
  (forall q, q <> p -> getp s' q = getp s q).
Proof.
  simpl. destruct (vp s !! p) as [x|] eqn:Hx; [|discriminate].
  unfold detect'. rewrite (getp_exists _ _ _ Hx).
  destruct (dirty x || token x) eqn:Hd; intros [= <-].
  - split; [eauto|]. split; [reflexivity|]. split; [reflexivity|]. split; [|split].
    + intros q. simpl. destruct (decide (q = p)) as [->|Hne].
      * rewrite lookup_insert, Hx. split; eauto.
      * rewrite lookup_insert_ne by congruence. reflexivity.
    + unfold set_peer. apply getp_insert.
    + intros q Hne. unfold set_peer. destruct s; simpl. apply getp_insert_ne. exact Hne.
  - split; [eauto|]. repeat split; try tauto. apply getp_exists. exact Hx.
Qed.

(* VSend *)
Definition dsts_of (s : vstate) (p : peer) : list peer := if (p =? host)%N then vconn s else [host].

Lemma step_send s p s' :
  NoDup (vconn s) ->
  vstep s (VSend p) = Some s' ->
  is_Some (vp s !! p) /\ vconn s' = vconn s /\
  (forall q, is_Some (vp s' !! q) <-> is_Some (vp s !! q)) /\
  getp s' p = VPeer (pcur s p) (pdirty s p) (ptoken s p) [] /\
  (forall q, q <> p -> getp s' q = getp s q) /\
  (forall a b, link s' a b = if decide (a = p /\ b ∈ dsts_of s p) then link s a b ++ poutq s p else link s a b).
Proof.
  intros Hnd. simpl. destruct (vp s !! p) as [x|] eqn:Hx; [|discriminate].
  unfold pcur, pdirty, ptoken, poutq. rewrite (getp_exists _ _ _ Hx).
  destruct (outq x) as [|v0 q0] eqn:Hq; intros [= <-].
  - split; [eauto|]. split; [reflexivity|]. split; [tauto|]. split; [|split].
    + rewrite (getp_exists _ _ _ Hx). destruct x; simpl in *. subst. reflexivity.
    + reflexivity.
    + intros a b. destruct (decide _); [rewrite app_nil_r|]; reflexivity.
  - split; [eauto|]. split; [reflexivity|]. split; [|split; [|split]].
    + intros q. simpl. destruct (decide (q = p)) as [->|Hne].
      * rewrite lookup_insert, Hx. split; eauto.
      * rewrite lookup_insert_ne by congruence. reflexivity.
    + apply getp_insert.
    + intros q Hne. destruct s; simpl. rewrite getp_insert_ne by exact Hne. reflexivity.
    + intros a b. unfold link. simpl. apply lget_send_to.
      unfold dsts_of. destruct (p =? host)%N; [exact Hnd|]. apply NoDup_singleton.
Qed.

(* VDeliver *)
Lemma step_deliver s src dst s' :
  NoDup (vconn s) ->
  vstep s (VDeliver src dst) = Some s' ->
  exists v rest, link s src dst = v :: rest /\ is_Some (vp s !! dst) /\ vconn s' = vconn s /\
  (forall q, is_Some (vp s' !! q) <-> is_Some (vp s !! q)) /\
  (forall q, q <> dst -> getp s' q = getp s q) /\
  ((pcur s dst = Some v /\ getp s' dst = getp s dst /\
    forall a b, link s' a b = if decide ((a, b) = (src, dst)) then rest else link s a b)
   \/
   (pcur s dst <> Some v /\ getp s' dst = VPeer (Some v) (pdirty s dst) true (poutq s dst) /\
    forall a b, link s' a b =
      (if decide ((a, b) = (src, dst)) then rest else link s a b) ++
      (if decide (dst = host /\ a = host /\ b ∈ others src (vconn s)) then [v] else []))).
Proof.
  intros Hnd. simpl. destruct (link s src dst) as [|v rest] eqn:Hl; [discriminate|].
  destruct (vp s !! dst) as [x|] eqn:Hx; [|discriminate].
  unfold pcur, pdirty, poutq. rewrite (getp_exists _ _ _ Hx).
  destruct (bool_decide (cur x = Some v)) eqn:Hc; intros [= <-]; exists v, rest.
  - apply bool_decide_eq_true in Hc.
    split; [reflexivity|]. split; [eauto|]. split; [reflexivity|]. split; [tauto|]. split; [reflexivity|].
    left. split; [exact Hc|]. split; [unfold getp; simpl; rewrite Hx; reflexivity|].
    intros a b. unfold link. simpl. apply lget_insert.
  - apply bool_decide_eq_false in Hc.
    split; [reflexivity|]. split; [eauto|]. split; [reflexivity|]. split; [|split].
    + intros q. simpl. destruct (decide (q = dst)) as [->|Hne].
      * rewrite lookup_insert, Hx. split; eauto.
      * rewrite lookup_insert_ne by congruence. reflexivity.
    + intros q Hne. destruct s; simpl. rewrite getp_insert_ne by exact Hne. reflexivity.
    + right. split; [exact Hc|]. split; [apply getp_insert|].
      intros a b. unfold link. simpl. destruct (dst =? host)%N eqn:Hd.
      * apply N.eqb_eq in Hd. subst dst. rewrite lget_send_to by (apply NoDup_others; exact Hnd).
        rewrite lget_insert.
        destruct (decide (a = host /\ b ∈ others src (vconn s))) as [[-> Hin]|Hn].
        -- destruct (decide (host = host /\ host = host /\ b ∈ others src (vconn s))) as [_|Hn]; [reflexivity|tauto].
        -- destruct (decide (host = host /\ a = host /\ b ∈ others src (vconn s))) as [[_ Hy]|_]; [tauto|].
           rewrite app_nil_r. reflexivity.
      * apply N.eqb_neq in Hd. rewrite lget_insert.
        destruct (decide (dst = host /\ _)) as [[Hy _]|_]; [contradiction|]. rewrite app_nil_r. reflexivity.
Qed.

(* VJoin.  Since the repair of S21 (8f66353) [VJoin c] is [VSend host] ([vflush_host]) followed by the former
   join, [vjoin0].  [vstep0] = [vstep] with the former join: the step lemmas below are proved for [vstep0]
   and lifted to [vstep] through [vstep_split] / [lift_step]. *)
Definition snapshot (s : vstate) : list value := match pcur s host with Some v => [v] | None => [] end.

Definition vjoin0 (s : vstate) (c : peer) : option vstate :=
  if (c =? host)%N || bool_decide (c ∈ vconn s) || pexists s c then None
  else Some (VState (<[c := vpeer0]> (vp s)) (vconn s ++ [c])
                    (match pcur s host with
                     | Some v => push_link (vlinks s) host c [v]
                     | None => vlinks s
                     end)).

Definition vstep0 (s : vstate) (e : vevent) : option vstate :=
  match e with VJoin c => vjoin0 s c | _ => vstep s e end.

Lemma step_join0 s c s' :
  vjoin0 s c = Some s' ->
  c <> host /\ c ∉ vconn s /\ vp s !! c = None /\ vconn s' = vconn s ++ [c] /\
  (forall q, is_Some (vp s' !! q) <-> is_Some (vp s !! q) \/ q = c) /\
  (forall q, getp s' q = getp s q) /\
  (forall a b, link s' a b = if decide ((a, b) = (host, c)) then link s host c ++ snapshot s else link s a b).
Proof.
  unfold vjoin0. destruct (c =? host)%N eqn:Hc; [discriminate|]. apply N.eqb_neq in Hc.
  destruct (bool_decide (c ∈ vconn s)) eqn:Hin; [discriminate|]. apply bool_decide_eq_false in Hin.
  unfold pexists. destruct (bool_decide (is_Some (vp s !! c))) eqn:Hex; [discriminate|].
  apply bool_decide_eq_false in Hex. simpl. intros [= <-].
  assert (Hnone : vp s !! c = None) by (destruct (vp s !! c); [exfalso; eauto|reflexivity]).
  split; [exact Hc|]. split; [exact Hin|]. split; [exact Hnone|]. split; [reflexivity|]. split; [|split].
  - intros q. simpl. destruct (decide (q = c)) as [->|Hne].
    + rewrite lookup_insert. split; eauto.
    + rewrite lookup_insert_ne by congruence. split; [auto|]. intros [H|H]; [exact H|contradiction].
  - intros q. unfold getp. simpl. destruct (decide (q = c)) as [->|Hne].
    + rewrite lookup_insert, Hnone. reflexivity.
    + rewrite lookup_insert_ne by congruence. reflexivity.
  - intros a b. unfold link, snapshot. simpl. destruct (pcur s host) as [v|].
    + apply lget_push_link.
    + destruct (decide _) as [Heq|_]; [|reflexivity]. inversion Heq; subst. rewrite app_nil_r. reflexivity.
Qed.

(* the flush of the host's queue *)
Lemma vflush_host_conn s : vconn (vflush_host s) = vconn s.
Proof. unfold vflush_host. destruct (vp s !! host) as [x|]; [|reflexivity]. destruct (outq x); reflexivity. Qed.

Lemma vflush_host_lookup s c : c <> host -> vp (vflush_host s) !! c = vp s !! c.
Proof.
  intros Hc. unfold vflush_host. destruct (vp s !! host) as [x|]; [|reflexivity].
  destruct (outq x); [reflexivity|]. simpl. apply lookup_insert_ne. congruence.
Qed.

Lemma vflush_host_exists s q : is_Some (vp (vflush_host s) !! q) <-> is_Some (vp s !! q).
Proof.
  destruct (decide (q = host)) as [->|Hne]; [|rewrite vflush_host_lookup by exact Hne; reflexivity].
  unfold vflush_host. destruct (vp s !! host) as [x|] eqn:Hx; [|rewrite Hx; reflexivity].
  destruct (outq x); [rewrite Hx; reflexivity|]. simpl. rewrite lookup_insert. split; eauto.
Qed.

Lemma vflush_host_send s : is_Some (vp s !! host) -> vstep s (VSend host) = Some (vflush_host s).
Proof. intros [x Hx]. unfold vflush_host. cbn [vstep]. rewrite Hx. destruct (outq x); reflexivity. Qed.

Lemma vflush_host_idle s : poutq s host = [] -> vflush_host s = s.
Proof.
  unfold poutq, getp, vflush_host. destruct (vp s !! host) as [x|]; [|reflexivity]. simpl. intros ->. reflexivity.
Qed.

(* the host's record and the links after the flush: those of [VSend host] *)
Lemma vflush_host_getp s q :
  getp (vflush_host s) q =
  if decide (q = host) then VPeer (pcur s host) (pdirty s host) (ptoken s host) [] else getp s q.
Proof.
  destruct (decide (q = host)) as [->|Hne].
  - unfold pcur, pdirty, ptoken, getp, vflush_host. destruct (vp s !! host) as [x|] eqn:Hx.
    + destruct (outq x) eqn:Hq; [rewrite Hx; destruct x; simpl in *; subst; reflexivity|].
      simpl. rewrite lookup_insert. reflexivity.
    + rewrite Hx. reflexivity.
  - unfold getp. rewrite vflush_host_lookup by exact Hne. reflexivity.
Qed.

Lemma vflush_host_cur s q : pcur (vflush_host s) q = pcur s q.
Proof. unfold pcur at 1. rewrite vflush_host_getp. destruct (decide (q = host)) as [->|]; reflexivity. Qed.

Lemma vflush_host_outq s : poutq (vflush_host s) host = [].
Proof. unfold poutq. rewrite vflush_host_getp. destruct (decide (host = host)); [reflexivity|congruence]. Qed.

(* [VJoin c] = flush, then the former join *)
Lemma join_split s c : vstep s (VJoin c) = vjoin0 (vflush_host s) c.
Proof.
  unfold vjoin0. cbn [vstep]. rewrite vflush_host_conn.
  destruct (c =? host)%N eqn:Hc; [reflexivity|]. apply N.eqb_neq in Hc.
  unfold pexists. rewrite (vflush_host_lookup s c Hc). reflexivity.
Qed.

Lemma join_noflush s c : poutq s host = [] -> vstep s (VJoin c) = vjoin0 s c.
Proof. intros H. rewrite join_split, (vflush_host_idle s H). reflexivity. Qed.

Lemma step_join s c s' :
  vstep s (VJoin c) = Some s' ->
  c <> host /\ c ∉ vconn s /\ vp s !! c = None /\ vconn s' = vconn s ++ [c] /\
  (forall q, is_Some (vp s' !! q) <-> is_Some (vp s !! q) \/ q = c) /\
  (forall q, pcur s' q = pcur s q) /\
  vjoin0 (vflush_host s) c = Some s'.
Proof.
  rewrite join_split. intros Hstep. pose proof Hstep as Hstep0.
  apply step_join0 in Hstep as (Hc & Hin & Hnone & Hcn & Hex & Hg & _).
  rewrite vflush_host_conn in Hin, Hcn. rewrite vflush_host_lookup in Hnone by exact Hc.
  split; [exact Hc|]. split; [exact Hin|]. split; [exact Hnone|]. split; [exact Hcn|]. split; [|split; [|exact Hstep0]].
  - intros q. rewrite Hex, vflush_host_exists. reflexivity.
  - intros q. unfold pcur at 1. rewrite Hg. apply vflush_host_cur.
Qed.

(* ================================================================================================
   Part 2: well-formedness
   ================================================================================================ *)

Lemma wf_nodup s : vwf s -> NoDup (vconn s).
Proof. intros (H & _). exact H. Qed.
Lemma wf_host s : vwf s -> host ∉ vconn s.
Proof. intros (_ & H & _). exact H. Qed.
Lemma wf_link s a b : vwf s -> link s a b <> [] -> (a = host /\ b ∈ vconn s) \/ (b = host /\ a ∈ vconn s).
Proof. intros (_ & _ & _ & H). apply H. Qed.
Lemma wf_link_nil s a b : vwf s -> a ∉ vconn s -> b ∉ vconn s -> link s a b = [].
Proof.
  intros Hwf Ha Hb. destruct (link s a b) eqn:Hl; [reflexivity|].
  destruct (wf_link s a b Hwf) as [[_ H]|[_ H]]; [rewrite Hl; discriminate|contradiction|contradiction].
Qed.

Lemma step_wf0 s e s' : vwf s -> vstep0 s e = Some s' -> vwf s'.
Proof.
  intros Hwf Hstep. pose proof Hwf as (Hnd & Hh & Hex & Hlk). destruct e as [p v|p|p|src dst|c]; cbn [vstep0] in Hstep.
  - apply step_write in Hstep as (_ & Hc & Hl & He & _).
    unfold vwf, link. rewrite Hc, Hl. repeat split; try assumption.
    + intros H. apply Hex, He, H. + intros H. apply He, Hex, H.
  - apply step_detect in Hstep as (_ & Hc & Hl & He & _).
    unfold vwf, link. rewrite Hc, Hl. repeat split; try assumption.
    + intros H. apply Hex, He, H. + intros H. apply He, Hex, H.
  - apply step_send in Hstep as (Hp & Hc & He & _ & _ & Hl); [|exact Hnd].
    unfold vwf. rewrite Hc. repeat split; try assumption.
    + intros H. apply Hex, He, H. + intros H. apply He, Hex, H.
    + intros a b. rewrite Hl. destruct (decide (a = p /\ b ∈ dsts_of s p)) as [[-> Hin]|_]; [|apply Hlk].
      intros _. unfold dsts_of in Hin. destruct (p =? host)%N eqn:Hph.
      * apply N.eqb_eq in Hph. left. auto.
      * apply N.eqb_neq in Hph. apply elem_of_list_singleton in Hin. right. split; [exact Hin|].
        apply Hex in Hp as [Hp|Hp]; [contradiction|exact Hp].
  - apply step_deliver in Hstep as (v & rest & Hl0 & Hd & Hc & He & _ & Hcase); [|exact Hnd].
    unfold vwf. rewrite Hc. repeat split; try assumption.
    + intros H. apply Hex, He, H. + intros H. apply He, Hex, H.
    + intros a b. destruct Hcase as [(_ & _ & Hl)|(_ & _ & Hl)]; rewrite Hl.
      * destruct (decide ((a, b) = (src, dst))) as [Heq|_]; [|apply Hlk].
        inversion Heq; subst. intros _. apply Hlk. rewrite Hl0. discriminate.
      * destruct (decide (dst = host /\ a = host /\ b ∈ others src (vconn s))) as [(_ & -> & Hin)|_].
        -- intros _. left. split; [reflexivity|]. apply elem_of_others in Hin. tauto.
        -- rewrite app_nil_r. destruct (decide ((a, b) = (src, dst))) as [Heq|_]; [|apply Hlk].
           inversion Heq; subst. intros _. apply Hlk. rewrite Hl0. discriminate.
  - apply step_join0 in Hstep as (Hc0 & Hcn & Hnone & Hc & He & _ & Hl).
    unfold vwf. rewrite Hc. split; [|split; [|split]].
    + apply NoDup_app. split; [exact Hnd|]. split; [|apply NoDup_singleton].
      intros x Hx Hx'. apply elem_of_list_singleton in Hx'. subst. contradiction.
    + intros H. apply elem_of_app in H as [H|H]; [contradiction|]. apply elem_of_list_singleton in H. congruence.
    + intros q. rewrite He, Hex. rewrite elem_of_app, elem_of_list_singleton. tauto.
    + intros a b. rewrite Hl. rewrite elem_of_app, elem_of_app, !elem_of_list_singleton.
      destruct (decide ((a, b) = (host, c))) as [Heq|_].
      * inversion Heq; subst. intros _. left. auto.
      * intros H. apply Hlk in H. tauto.
Qed.

(* one step of [vstep] in terms of [vstep0] *)
Lemma vstep_split s e s' :
  vwf s -> vstep s e = Some s' ->
  match e with
  | VJoin c => vstep0 s (VSend host) = Some (vflush_host s) /\ vstep0 (vflush_host s) (VJoin c) = Some s'
  | _ => vstep0 s e = Some s'
  end.
Proof.
  intros Hwf Hstep. destruct e as [p v|p|p|src dst|c]; try exact Hstep.
  split; [|cbn [vstep0]; rewrite <- join_split; exact Hstep].
  cbn [vstep0]. apply vflush_host_send. apply (proj1 (proj2 (proj2 Hwf)) host). left. reflexivity.
Qed.

Lemma step_wf s e s' : vwf s -> vstep s e = Some s' -> vwf s'.
Proof.
  intros Hwf Hstep. apply (vstep_split _ _ _ Hwf) in Hstep.
  destruct e; try (eapply step_wf0; eassumption).
  destruct Hstep as [H1 H2]. eapply step_wf0; [|exact H2]. eapply step_wf0; eassumption.
Qed.

Lemma vflush_host_wf s : vwf s -> vwf (vflush_host s).
Proof.
  intros Hwf. apply (step_wf s (VSend host)); [exact Hwf|].
  apply vflush_host_send. apply (proj1 (proj2 (proj2 Hwf)) host). left. reflexivity.
Qed.

(* an invariant preserved by every [vstep0] (for the events allowed by [ok], which allows [VSend host]) is
   preserved by every [vstep] *)
Lemma lift_step (I : vstate -> Prop) (ok : vevent -> Prop) :
  ok (VSend host) ->
  (forall s e s', vwf s -> I s -> ok e -> vstep0 s e = Some s' -> I s') ->
  forall s e s', vwf s -> I s -> ok e -> vstep s e = Some s' -> I s'.
Proof.
  intros Hoks H0 s e s' Hwf HI Hok Hstep. apply (vstep_split _ _ _ Hwf) in Hstep.
  destruct e; try (eapply H0; eassumption).
  destruct Hstep as [H1 H2]. eapply (H0 (vflush_host s)); [apply vflush_host_wf, Hwf| |exact Hok|exact H2].
  eapply H0; [exact Hwf|exact HI|exact Hoks|exact H1].
Qed.

Lemma run_wf s tr s' : vwf s -> vrun s tr = Some s' -> vwf s'.
Proof.
  revert s. induction tr as [|e tr IH]; intros s Hwf Hrun; simpl in Hrun.
  - congruence.
  - destruct (vstep s e) as [s1|] eqn:Hs; [|discriminate]. eapply IH; [|exact Hrun]. eapply step_wf; eauto.
Qed.

Lemma elem_of_clients n p : p ∈ clients n <-> (1 <= p <= N.of_nat n).
Proof.
  unfold clients. rewrite elem_of_list_fmap. split.
  - intros (k & -> & Hk). apply elem_of_seq in Hk. lia.
  - intros H. exists (N.to_nat p). split; [lia|]. apply elem_of_seq. lia.
Qed.

Lemma NoDup_clients n : NoDup (clients n).
Proof. unfold clients. apply NoDup_fmap_2; [intros a b; lia|apply NoDup_seq]. Qed.

Lemma vinit_getp n p : getp (vinit n) p = vpeer0.
Proof.
  unfold getp. destruct (vp (vinit n) !! p) as [x|] eqn:Hx; [|reflexivity]. simpl.
  unfold vinit in Hx; cbn [vp] in Hx. apply elem_of_list_to_map_2 in Hx. apply elem_of_list_fmap in Hx as (q & Heq & _). congruence.
Qed.

Lemma vinit_link n a b : link (vinit n) a b = [].
Proof. reflexivity. Qed.

Lemma vinit_wf n : vwf (vinit n).
Proof.
  unfold vwf. split; [apply NoDup_clients|]. split; [|split].
  - simpl. rewrite elem_of_clients. unfold host. lia.
  - intros p. unfold vinit; cbn [vp].
    set (l := (fun p => (p, vpeer0)) <$> host :: clients n).
    assert (Hfst : l.*1 = host :: clients n).
    { unfold l. rewrite <- list_fmap_compose. simpl. f_equal. induction (clients n); simpl; congruence. }
    split.
    + intros [x Hx]. apply elem_of_list_to_map_2 in Hx. apply (elem_of_list_fmap_1 fst) in Hx.
      rewrite Hfst in Hx. simpl in Hx. apply elem_of_cons in Hx. exact Hx.
    + intros Hp. destruct (list_to_map l !! p) eqn:Hx; [eauto|].
      apply not_elem_of_list_to_map in Hx. rewrite Hfst in Hx. exfalso. apply Hx. apply elem_of_cons. exact Hp.
  - intros a b H. exfalso. apply H. reflexivity.
Qed.

Lemma vinit_quiescent n : vquiescent (vinit n).
Proof.
  split; [apply map_Forall_empty|].
  intros p x Hx. unfold vinit in Hx; cbn [vp] in Hx. apply elem_of_list_to_map_2 in Hx. apply elem_of_list_fmap in Hx as (q & Heq & _).
  inversion Heq; subst. repeat split.
Qed.

(* quiescence through getters *)
Lemma quiescent_link s a b : vquiescent s -> link s a b = [].
Proof.
  intros [H _]. unfold link, lget. destruct (vlinks s !! (a, b)) as [l|] eqn:Hl; [|reflexivity]. simpl. eapply H. exact Hl.
Qed.
Lemma quiescent_peer s p : vquiescent s -> poutq s p = [] /\ pdirty s p = false /\ ptoken s p = false.
Proof.
  intros [_ H]. unfold poutq, pdirty, ptoken, getp. destruct (vp s !! p) as [x|] eqn:Hx; simpl; [|auto].
  apply (H p x Hx).
Qed.
Lemma quiescent_intro s :
  (forall a b, link s a b = []) -> (forall p, poutq s p = [] /\ pdirty s p = false /\ ptoken s p = false) -> vquiescent s.
Proof.
  intros Hl Hp. split.
  - intros [a b] l Hx. specialize (Hl a b). unfold link, lget in Hl. rewrite Hx in Hl. exact Hl.
  - intros p x Hx. specialize (Hp p). unfold poutq, pdirty, ptoken, getp in Hp. rewrite Hx in Hp. exact Hp.
Qed.

(* ================================================================================================
   Part 3: token / queue discipline of a single-writer phase
   [Disc w s]: only w has pending local changes or queued announcements, nothing travels towards w,
   the uplinks of the other clients are empty.  Preserved by every event except a write by another
   peer and the join of w itself.
   ================================================================================================ *)

Record Disc (w : peer) (s : vstate) : Prop := {
  disc_idle : forall p, p <> w -> pdirty s p = false /\ poutq s p = [];
  disc_token : ptoken s w = false;
  disc_in : forall c, link s c w = [];
  disc_up : forall c, c <> w -> link s c host = []
}.

Definition ev_ok (w : peer) (e : vevent) : Prop :=
  match e with VWrite p _ => p = w | VJoin c => c <> w | _ => True end.

Lemma detect'_idle x : dirty x = false -> outq x = [] -> dirty (detect' x) = false /\ outq (detect' x) = [].
Proof.
  intros Hd Ho. unfold detect', vdetect. rewrite Hd. simpl. destruct (token x) eqn:Ht; simpl; auto.
Qed.
Lemma detect'_token x : token x = false -> token (detect' x) = false.
Proof. intros Ht. unfold detect', vdetect. rewrite Ht. destruct (dirty x || false); simpl; auto. Qed.

Lemma disc_step0 w s e s' : vwf s -> Disc w s -> ev_ok w e -> vstep0 s e = Some s' -> Disc w s'.
Proof.
  intros Hwf [HA HB HC HU] Hok Hstep. destruct e as [p v|p|p|src dst|c]; simpl in Hok; cbn [vstep0] in Hstep.
  - subst p. apply step_write in Hstep as (_ & _ & Hl & _ & Hp & Hq).
    split; unfold pdirty, poutq, ptoken, link in *.
    + intros p Hne. rewrite Hq by exact Hne. apply HA, Hne.
    + rewrite Hp. reflexivity.
    + intros c. rewrite Hl. apply HC.
    + intros c Hne. rewrite Hl. apply HU, Hne.
  - apply step_detect in Hstep as (_ & _ & Hl & _ & Hp & Hq).
    split; unfold pdirty, poutq, ptoken, link in *.
    + intros q Hne. destruct (decide (q = p)) as [->|Hqp].
      * rewrite Hp. destruct (HA p Hne). apply detect'_idle; assumption.
      * rewrite Hq by exact Hqp. apply HA, Hne.
    + destruct (decide (w = p)) as [->|Hwp].
      * rewrite Hp. apply detect'_token, HB.
      * rewrite Hq by exact Hwp. exact HB.
    + intros c. rewrite Hl. apply HC.
    + intros c Hne. rewrite Hl. apply HU, Hne.
  - apply step_send in Hstep as (Hex & _ & _ & Hp & Hq & Hl); [|apply wf_nodup, Hwf].
    destruct (decide (p = w)) as [->|Hpw].
    + split; unfold pdirty, poutq, ptoken in *.
      * intros q Hne. rewrite Hq by exact Hne. apply HA, Hne.
      * rewrite Hp. simpl. exact HB.
      * intros c. rewrite Hl. destruct (decide (c = w /\ w ∈ dsts_of s w)) as [[-> Hin]|_]; [|apply HC].
        exfalso. unfold dsts_of in Hin. destruct (w =? host)%N eqn:Hwh.
        -- apply N.eqb_eq in Hwh. subst. apply (wf_host s Hwf Hin).
        -- apply N.eqb_neq in Hwh. apply elem_of_list_singleton in Hin. contradiction.
      * intros c Hne. rewrite Hl. destruct (decide (c = w /\ _)) as [[Hcw _]|_]; [contradiction|apply HU, Hne].
    + destruct (HA p Hpw) as [Hd Ho].
      assert (Hl' : forall a b, link s' a b = link s a b).
      { intros a b. rewrite Hl. unfold poutq in Ho. unfold poutq. rewrite Ho, app_nil_r. destruct (decide _); reflexivity. }
      split; unfold pdirty, poutq, ptoken in *.
      * intros q Hne. destruct (decide (q = p)) as [->|Hqp].
        -- rewrite Hp. simpl. auto.
        -- rewrite Hq by exact Hqp. apply HA, Hne.
      * rewrite Hq by congruence. exact HB.
      * intros c. rewrite Hl'. apply HC.
      * intros c Hne. rewrite Hl'. apply HU, Hne.
  - apply step_deliver in Hstep as (v & rest & Hl0 & _ & Hcn & _ & Hq & Hcase); [|apply wf_nodup, Hwf].
    assert (Hdw : dst <> w). { intros ->. rewrite HC in Hl0. discriminate. }
    assert (Hsrc : dst = host -> src = w).
    { intros ->. destruct (decide (src = w)) as [|Hne]; [assumption|]. rewrite HU in Hl0 by exact Hne. discriminate. }
    assert (Hold : forall a b, (a, b) = (src, dst) -> link s a b <> []).
    { intros a b Heq. inversion Heq; subst. rewrite Hl0. discriminate. }
    split; unfold pdirty, poutq, ptoken in *.
    + intros q Hne. destruct (decide (q = dst)) as [->|Hqd].
      * destruct (HA dst Hne) as [Hd Ho]. destruct Hcase as [(_ & Hp & _)|(_ & Hp & _)]; rewrite Hp; simpl; auto.
      * rewrite Hq by exact Hqd. apply HA, Hne.
    + rewrite Hq by congruence. exact HB.
    + intros c. destruct Hcase as [(_ & _ & Hl)|(_ & _ & Hl)]; rewrite Hl.
      * destruct (decide ((c, w) = (src, dst))) as [Heq|_]; [|apply HC]. inversion Heq; subst. contradiction.
      * destruct (decide ((c, w) = (src, dst))) as [Heq|_]; [inversion Heq; subst; contradiction|].
        rewrite HC. simpl.
        destruct (decide (dst = host /\ c = host /\ w ∈ others src (vconn s))) as [(Hd & _ & Hin)|_]; [|reflexivity].
        apply elem_of_others in Hin as [Hne _]. exfalso. apply Hne. symmetry. apply Hsrc, Hd.
    + intros c Hne. destruct Hcase as [(_ & _ & Hl)|(_ & _ & Hl)]; rewrite Hl.
      * destruct (decide ((c, host) = (src, dst))) as [Heq|_]; [|apply HU, Hne].
        exfalso. apply (Hold _ _ Heq). apply HU, Hne.
      * destruct (decide ((c, host) = (src, dst))) as [Heq|_].
        -- exfalso. apply (Hold _ _ Heq). apply HU, Hne.
        -- rewrite HU by exact Hne. simpl.
           destruct (decide (dst = host /\ c = host /\ host ∈ others src (vconn s))) as [(_ & _ & Hin)|_]; [|reflexivity].
           apply elem_of_others in Hin as [_ Hin]. exfalso. apply (wf_host s Hwf Hin).
  - apply step_join0 in Hstep as (Hch & Hcn & _ & _ & _ & Hq & Hl).
    split; unfold pdirty, poutq, ptoken in *.
    + intros q Hne. rewrite Hq. apply HA, Hne.
    + rewrite Hq. exact HB.
    + intros a. rewrite Hl. destruct (decide ((a, w) = (host, c))) as [Heq|_]; [|apply HC].
      inversion Heq; subst. contradiction.
    + intros a Hne. rewrite Hl. destruct (decide ((a, host) = (host, c))) as [Heq|_]; [|apply HU, Hne].
      inversion Heq; subst. contradiction.
Qed.

Lemma disc_step w s e s' : vwf s -> Disc w s -> ev_ok w e -> vstep s e = Some s' -> Disc w s'.
Proof. apply (lift_step (Disc w) (ev_ok w)); [exact I|]. intros s0 e0 s1. apply disc_step0. Qed.

Lemma quiescent_disc w s : vquiescent s -> Disc w s.
Proof.
  intros Hq. split.
  - intros p _. destruct (quiescent_peer s p Hq) as (? & ? & ?). auto.
  - apply (quiescent_peer s w Hq).
  - intros c. apply quiescent_link, Hq.
  - intros c _. apply quiescent_link, Hq.
Qed.

(* ================================================================================================
   Part 4: convergence chains of a single-writer phase
   [lastd d l]: the value a peer displaying d ends with after applying l in order.
   ================================================================================================ *)

Definition lastd (d : option value) (l : list value) : option value := foldl (fun _ v => Some v) d l.

Lemma lastd_nil d : lastd d [] = d.
Proof. reflexivity. Qed.
Lemma lastd_cons d v l : lastd d (v :: l) = lastd (Some v) l.
Proof. reflexivity. Qed.
Lemma lastd_app d l1 l2 : lastd d (l1 ++ l2) = lastd (lastd d l1) l2.
Proof. unfold lastd. apply foldl_app. Qed.
Lemma lastd_snoc d l v : lastd d (l ++ [v]) = Some v.
Proof. rewrite lastd_app. reflexivity. Qed.
Lemma lastd_last d l : lastd d l = match last l with Some v => Some v | None => d end.
Proof.
  revert d. induction l as [|v l IH]; intros d; [reflexivity|]. rewrite lastd_cons, IH.
  destruct l as [|v0 l]; [reflexivity|]. change (last (v :: v0 :: l)) with (last (v0 :: l)).
  destruct (last (v0 :: l)) eqn:E; [reflexivity|]. apply last_None in E. discriminate.
Qed.

Record Conv (w : peer) (s : vstate) : Prop := {
  conv_h1 : w = host -> pdirty s host = false -> forall c, c ∈ vconn s ->
            lastd (pcur s c) (link s host c ++ poutq s host) = pcur s host;
  conv_h2 : w = host -> pdirty s host = false -> lastd (pcur s host) (poutq s host) = pcur s host;
  conv_k1 : w <> host -> pdirty s w = false -> lastd (pcur s host) (link s w host ++ poutq s w) = pcur s w;
  conv_k2 : w <> host -> forall c, c ∈ vconn s -> c <> w -> lastd (pcur s c) (link s host c) = pcur s host;
  conv_n : pdirty s w = true -> is_Some (pcur s w)
}.

Definition Phase (w : peer) (s : vstate) : Prop := Disc w s /\ Conv w s.

Definition writes_by (w : peer) (e : vevent) : Prop := match e with VWrite p _ => p = w | _ => True end.

Lemma getp_none s p : vp s !! p = None -> getp s p = vpeer0.
Proof. intros H. unfold getp. rewrite H. reflexivity. Qed.

Lemma detect'_cur x : cur (detect' x) = cur x.
Proof. unfold detect', vdetect. destruct (dirty x || token x), (token x); reflexivity. Qed.
Lemma detect'_clean x : dirty x = false -> dirty (detect' x) = false /\ outq (detect' x) = outq x.
Proof. intros H. unfold detect', vdetect. rewrite H. simpl. destruct (token x); auto. Qed.
Lemma detect'_dirty x : dirty x = true -> token x = false ->
  dirty (detect' x) = false /\ outq (detect' x) = outq x ++ match cur x with Some v => [v] | None => [] end.
Proof. intros H Ht. unfold detect', vdetect. rewrite H, Ht. simpl. auto. Qed.

Lemma lastd_snapshot s : lastd None (snapshot s) = pcur s host.
Proof. unfold snapshot. destruct (pcur s host); reflexivity. Qed.

(* where a deliverable message can be, in a single-writer phase *)
Lemma deliver_shape w s src dst :
  vwf s -> Disc w s -> link s src dst <> [] ->
  dst <> w /\ ((w = host /\ src = host /\ dst ∈ vconn s) \/
               (w <> host /\ src = w /\ dst = host) \/
               (w <> host /\ src = host /\ dst ∈ vconn s)).
Proof.
  intros Hwf HD Hl.
  assert (Hdw : dst <> w). { intros ->. apply Hl. apply (disc_in _ _ HD). }
  split; [exact Hdw|].
  destruct (wf_link s src dst Hwf Hl) as [[-> Hin]|[-> Hin]].
  - destruct (decide (w = host)); [left|right; right]; auto.
  - right; left. split; [congruence|]. split; [|reflexivity].
    destruct (decide (src = w)) as [|Hne]; [assumption|]. exfalso. apply Hl. apply (disc_up _ _ HD). exact Hne.
Qed.

Lemma conv_write w s v s' : Conv w s -> vstep s (VWrite w v) = Some s' -> Conv w s'.
Proof.
  intros HC Hstep. apply step_write in Hstep as (_ & Hcn & Hl & _ & Hp & Hq).
  assert (Hd : pdirty s' w = true) by (unfold pdirty; rewrite Hp; reflexivity).
  split; unfold link; rewrite ?Hl, ?Hcn.
  - intros -> Hd'. congruence.
  - intros -> Hd'. congruence.
  - intros _ Hd'. congruence.
  - intros Hwh c Hc Hcw. unfold pcur. rewrite !Hq by congruence. apply (conv_k2 _ _ HC); assumption.
  - intros _. unfold pcur. rewrite Hp. simpl. eauto.
Qed.

Lemma conv_detect w s p s' : Disc w s -> Conv w s -> vstep s (VDetect p) = Some s' -> Conv w s'.
Proof.
  intros HD HC Hstep. apply step_detect in Hstep as (_ & Hcn & Hl & _ & Hp & Hq).
  assert (Hcur : forall q, pcur s' q = pcur s q).
  { intros q. unfold pcur. destruct (decide (q = p)) as [->|Hne]; [rewrite Hp; apply detect'_cur|rewrite Hq by exact Hne; reflexivity]. }
  assert (Hlk : forall a b, link s' a b = link s a b) by (intros; unfold link; rewrite Hl; reflexivity).
  destruct (decide (p = w)) as [->|Hpw].
  - (* the writer's detector *)
    assert (Hoth : forall q, q <> w -> getp s' q = getp s q) by exact Hq.
    destruct (pdirty s w) eqn:Hdw.
    + destruct (conv_n _ _ HC Hdw) as [v Hv].
      destruct (detect'_dirty (getp s w) Hdw (disc_token _ _ HD)) as [Hd' Ho'].
      fold (pcur s w) in Ho'. rewrite Hv in Ho'. rewrite <- Hp in Hd', Ho'.
      fold (pdirty s' w) in Hd'. fold (poutq s' w) in Ho'. fold (poutq s w) in Ho'.
      split; rewrite ?Hcn.
      * intros -> _ c Hc. rewrite Hlk, Ho', Hcur, app_assoc, lastd_snoc, Hcur. symmetry. exact Hv.
      * intros -> _. rewrite Ho', lastd_snoc, Hcur. symmetry. exact Hv.
      * intros _ _. rewrite Hlk, Ho', app_assoc, lastd_snoc, Hcur. symmetry. exact Hv.
      * intros Hwh c Hc Hcw. rewrite Hlk, !Hcur. apply (conv_k2 _ _ HC); assumption.
      * intros Hx. congruence.
    + destruct (detect'_clean (getp s w) Hdw) as [Hd' Ho']. rewrite <- Hp in Hd', Ho'.
      fold (pdirty s' w) in Hd'. fold (poutq s' w) in Ho'. fold (poutq s w) in Ho'.
      split; rewrite ?Hcn.
      * intros -> _ c Hc. rewrite Hlk, Ho', !Hcur. apply (conv_h1 _ _ HC); auto.
      * intros -> _. rewrite Ho', !Hcur. apply (conv_h2 _ _ HC); auto.
      * intros Hwh _. rewrite Hlk, Ho', !Hcur. apply (conv_k1 _ _ HC); auto.
      * intros Hwh c Hc Hcw. rewrite Hlk, !Hcur. apply (conv_k2 _ _ HC); assumption.
      * intros Hx. congruence.
  - (* another peer's detector: at most swallows a token *)
    assert (Hw : getp s' w = getp s w) by (apply Hq; congruence).
    assert (Hdo : forall q, pdirty s' q = pdirty s q /\ poutq s' q = poutq s q).
    { intros q. unfold pdirty, poutq. destruct (decide (q = p)) as [->|Hne].
      - rewrite Hp. destruct (disc_idle _ _ HD p Hpw) as [Hd Ho]. unfold pdirty in Hd.
        destruct (detect'_clean _ Hd) as [H1 H2]. rewrite H1, H2, Hd. auto.
      - rewrite Hq by exact Hne. auto. }
    split; rewrite ?Hcn.
    + intros Hwh Hd c Hc. rewrite Hlk, !Hcur, (proj2 (Hdo host)). apply (conv_h1 _ _ HC); auto.
      rewrite <- (proj1 (Hdo host)). exact Hd.
    + intros Hwh Hd. rewrite !Hcur, (proj2 (Hdo host)). apply (conv_h2 _ _ HC); auto.
      rewrite <- (proj1 (Hdo host)). exact Hd.
    + intros Hwh Hd. rewrite Hlk, !Hcur, (proj2 (Hdo w)). apply (conv_k1 _ _ HC); auto.
      rewrite <- (proj1 (Hdo w)). exact Hd.
    + intros Hwh c Hc Hcw. rewrite Hlk, !Hcur. apply (conv_k2 _ _ HC); assumption.
    + intros Hd. rewrite Hcur. apply (conv_n _ _ HC). rewrite <- (proj1 (Hdo w)). exact Hd.
Qed.

Lemma conv_send w s p s' : vwf s -> Disc w s -> Conv w s -> vstep s (VSend p) = Some s' -> Conv w s'.
Proof.
  intros Hwf HD HC Hstep.
  apply step_send in Hstep as (_ & Hcn & _ & Hp & Hq & Hl); [|apply wf_nodup, Hwf].
  assert (Hcur : forall q, pcur s' q = pcur s q).
  { intros q. unfold pcur. destruct (decide (q = p)) as [->|Hne]; [rewrite Hp; reflexivity|rewrite Hq by exact Hne; reflexivity]. }
  assert (Hdir : forall q, pdirty s' q = pdirty s q).
  { intros q. unfold pdirty. destruct (decide (q = p)) as [->|Hne]; [rewrite Hp; reflexivity|rewrite Hq by exact Hne; reflexivity]. }
  assert (Hop : poutq s' p = []) by (unfold poutq; rewrite Hp; reflexivity).
  destruct (decide (p = w)) as [->|Hpw].
  - split; rewrite ?Hcn.
    + intros -> Hd c Hc. rewrite Hop, app_nil_r, Hl, !Hcur.
      destruct (decide (host = host /\ c ∈ dsts_of s host)) as [_|Hn]; [|exfalso; apply Hn; auto].
      apply (conv_h1 _ _ HC); auto. rewrite <- Hdir. exact Hd.
    + intros -> Hd. rewrite Hop. reflexivity.
    + intros Hwh Hd. rewrite Hop, app_nil_r, Hl, !Hcur.
      destruct (decide (w = w /\ host ∈ dsts_of s w)) as [_|Hn].
      * apply (conv_k1 _ _ HC); auto. rewrite <- Hdir. exact Hd.
      * exfalso. apply Hn. split; [reflexivity|]. unfold dsts_of.
        destruct (w =? host)%N eqn:E; [apply N.eqb_eq in E; contradiction|]. apply elem_of_list_singleton. reflexivity.
    + intros Hwh c Hc Hcw. rewrite Hl, !Hcur.
      destruct (decide (host = w /\ _)) as [[E _]|_]; [congruence|]. apply (conv_k2 _ _ HC); assumption.
    + intros Hd. rewrite Hcur. apply (conv_n _ _ HC). rewrite <- Hdir. exact Hd.
  - destruct (disc_idle _ _ HD p Hpw) as [_ Ho].
    assert (Hlk : forall a b, link s' a b = link s a b).
    { intros a b. rewrite Hl, Ho, app_nil_r. destruct (decide _); reflexivity. }
    assert (Hout : forall q, poutq s' q = poutq s q).
    { intros q. destruct (decide (q = p)) as [->|Hne]; [rewrite Hop, Ho; reflexivity|]. unfold poutq. rewrite Hq by exact Hne. reflexivity. }
    split; rewrite ?Hcn.
    + intros Hwh Hd c Hc. rewrite Hlk, !Hcur, Hout. apply (conv_h1 _ _ HC); auto. rewrite <- Hdir. exact Hd.
    + intros Hwh Hd. rewrite !Hcur, Hout. apply (conv_h2 _ _ HC); auto. rewrite <- Hdir. exact Hd.
    + intros Hwh Hd. rewrite Hlk, !Hcur, Hout. apply (conv_k1 _ _ HC); auto. rewrite <- Hdir. exact Hd.
    + intros Hwh c Hc Hcw. rewrite Hlk, !Hcur. apply (conv_k2 _ _ HC); assumption.
    + intros Hd. rewrite Hcur. apply (conv_n _ _ HC). rewrite <- Hdir. exact Hd.
Qed.

Lemma conv_join0 w s c s' : vwf s -> Conv w s -> vjoin0 s c = Some s' -> Conv w s'.
Proof.
  intros Hwf HC Hstep. apply step_join0 in Hstep as (Hch & Hcn & Hnone & Hcn' & _ & Hq & Hl).
  assert (Hcur : forall q, pcur s' q = pcur s q) by (intros; unfold pcur; rewrite Hq; reflexivity).
  assert (Hdir : forall q, pdirty s' q = pdirty s q) by (intros; unfold pdirty; rewrite Hq; reflexivity).
  assert (Hout : forall q, poutq s' q = poutq s q) by (intros; unfold poutq; rewrite Hq; reflexivity).
  assert (Hc0 : pcur s c = None) by (unfold pcur; rewrite (getp_none _ _ Hnone); reflexivity).
  assert (Hl0 : link s host c = []) by (apply wf_link_nil; [exact Hwf|apply wf_host, Hwf|exact Hcn]).
  split; rewrite ?Hcn'.
  - intros Hwh Hd c' Hc'. rewrite Hl, !Hcur, Hout. rewrite Hdir in Hd.
    destruct (decide ((host, c') = (host, c))) as [Heq|Hne].
    + inversion Heq; subst c'. rewrite Hl0, Hc0. simpl. rewrite lastd_app, lastd_snapshot. apply (conv_h2 _ _ HC); auto.
    + apply (conv_h1 _ _ HC); auto. apply elem_of_app in Hc' as [H|H]; [exact H|].
      apply elem_of_list_singleton in H. congruence.
  - intros Hwh Hd. rewrite !Hcur, Hout. apply (conv_h2 _ _ HC); auto. rewrite <- Hdir. exact Hd.
  - intros Hwh Hd. rewrite Hl, !Hcur, Hout.
    destruct (decide ((w, host) = (host, c))) as [Heq|_]; [inversion Heq; congruence|].
    apply (conv_k1 _ _ HC); auto. rewrite <- Hdir. exact Hd.
  - intros Hwh c' Hc' Hcw. rewrite Hl, !Hcur.
    destruct (decide ((host, c') = (host, c))) as [Heq|Hne].
    + inversion Heq; subst c'. rewrite Hl0, Hc0. simpl. apply lastd_snapshot.
    + apply (conv_k2 _ _ HC); auto. apply elem_of_app in Hc' as [H|H]; [exact H|].
      apply elem_of_list_singleton in H. congruence.
  - intros Hd. rewrite Hcur. apply (conv_n _ _ HC). rewrite <- Hdir. exact Hd.
Qed.

Lemma conv_deliver w s src dst s' :
  vwf s -> Disc w s -> Conv w s -> vstep s (VDeliver src dst) = Some s' -> Conv w s'.
Proof.
  intros Hwf HD HC Hstep.
  apply step_deliver in Hstep as (v & rest & Hl0 & _ & Hcn & _ & Hq & Hcase); [|apply wf_nodup, Hwf].
  assert (Hne0 : link s src dst <> []) by (rewrite Hl0; discriminate).
  destruct (deliver_shape w s src dst Hwf HD Hne0) as [Hdw Hshape].
  assert (Hdir : forall q, pdirty s' q = pdirty s q).
  { intros q. unfold pdirty. destruct (decide (q = dst)) as [->|Hne]; [|rewrite Hq by exact Hne; reflexivity].
    destruct Hcase as [(_ & Hp & _)|(_ & Hp & _)]; rewrite Hp; reflexivity. }
  assert (Hout : forall q, poutq s' q = poutq s q).
  { intros q. unfold poutq. destruct (decide (q = dst)) as [->|Hne]; [|rewrite Hq by exact Hne; reflexivity].
    destruct Hcase as [(_ & Hp & _)|(_ & Hp & _)]; rewrite Hp; reflexivity. }
  assert (Hcur : forall q, q <> dst -> pcur s' q = pcur s q).
  { intros q Hne. unfold pcur. rewrite Hq by exact Hne. reflexivity. }
  assert (Hcd : pcur s' dst = Some v).
  { unfold pcur. destruct Hcase as [(Hc & Hp & _)|(_ & Hp & _)]; rewrite Hp; [exact Hc|reflexivity]. }
  destruct Hshape as [(-> & -> & Hin)|[(Hwh & -> & ->)|(Hwh & -> & Hin)]].
  - (* writer = host, host -> client dst *)
    assert (Hdh : dst <> host) by exact Hdw.
    assert (Hlk : forall a b, link s' a b = if decide ((a, b) = (host, dst)) then rest else link s a b).
    { intros a b. destruct Hcase as [(_ & _ & Hl)|(_ & _ & Hl)]; rewrite Hl; [reflexivity|].
      destruct (decide (dst = host /\ _)) as [[E _]|_]; [contradiction|]. apply app_nil_r. }
    split; rewrite ?Hcn; try (intros; exfalso; congruence).
    + intros _ Hd c Hc. rewrite Hlk, Hout, (Hcur host) by congruence. rewrite Hdir in Hd.
      pose proof (conv_h1 _ _ HC eq_refl Hd c Hc) as H1.
      destruct (decide ((host, c) = (host, dst))) as [Heq|Hne].
      * inversion Heq; subst c. rewrite Hcd. rewrite Hl0, <- app_comm_cons, lastd_cons in H1. exact H1.
      * rewrite Hcur by congruence. exact H1.
    + intros _ Hd. rewrite Hout, (Hcur host) by congruence. apply (conv_h2 _ _ HC); auto. rewrite <- Hdir. exact Hd.
    + intros Hd. rewrite Hcur by congruence. apply (conv_n _ _ HC). rewrite <- Hdir. exact Hd.
  - (* writer = client w, w -> host *)
    split; rewrite ?Hcn; try (intros; exfalso; congruence).
    + intros _ Hd. rewrite Hout, Hcd, (Hcur w) by congruence. rewrite Hdir in Hd.
      pose proof (conv_k1 _ _ HC Hwh Hd) as H1. rewrite Hl0, <- app_comm_cons, lastd_cons in H1.
      destruct Hcase as [(_ & _ & Hl)|(_ & _ & Hl)]; rewrite Hl.
      * destruct (decide ((w, host) = (w, host))) as [_|Hn]; [exact H1|congruence].
      * destruct (decide ((w, host) = (w, host))) as [_|Hn]; [|congruence].
        destruct (decide (host = host /\ w = host /\ _)) as [(_ & E & _)|_]; [congruence|]. rewrite app_nil_r. exact H1.
    + intros _ c Hc Hcw. rewrite Hcd.
      assert (Hch : c <> host) by (intros ->; apply (wf_host s Hwf Hc)).
      rewrite (Hcur c) by exact Hch.
      pose proof (conv_k2 _ _ HC Hwh c Hc Hcw) as H2.
      destruct Hcase as [(Hc0 & _ & Hl)|(_ & _ & Hl)]; rewrite Hl.
      * destruct (decide ((host, c) = (w, host))) as [Heq|_]; [inversion Heq; congruence|].
        rewrite H2. exact Hc0.
      * destruct (decide ((host, c) = (w, host))) as [Heq|_]; [inversion Heq; congruence|].
        destruct (decide (host = host /\ host = host /\ c ∈ others w (vconn s))) as [_|Hn].
        -- apply lastd_snoc.
        -- exfalso. apply Hn. split; [reflexivity|]. split; [reflexivity|]. apply elem_of_others. auto.
    + intros Hd. rewrite Hcur by congruence. apply (conv_n _ _ HC). rewrite <- Hdir. exact Hd.
  - (* writer = client w, host -> another client dst *)
    assert (Hdh : dst <> host) by (intros ->; apply (wf_host s Hwf Hin)).
    assert (Hlk : forall a b, link s' a b = if decide ((a, b) = (host, dst)) then rest else link s a b).
    { intros a b. destruct Hcase as [(_ & _ & Hl)|(_ & _ & Hl)]; rewrite Hl; [reflexivity|].
      destruct (decide (dst = host /\ _)) as [[E _]|_]; [contradiction|]. apply app_nil_r. }
    split; rewrite ?Hcn; try (intros; exfalso; congruence).
    + intros _ Hd. rewrite Hlk, Hout, (Hcur host), (Hcur w) by congruence.
      destruct (decide ((w, host) = (host, dst))) as [Heq|_]; [inversion Heq; congruence|].
      apply (conv_k1 _ _ HC); auto. rewrite <- Hdir. exact Hd.
    + intros _ c Hc Hcw. rewrite Hlk, (Hcur host) by congruence.
      pose proof (conv_k2 _ _ HC Hwh c Hc Hcw) as H2.
      destruct (decide ((host, c) = (host, dst))) as [Heq|Hne].
      * inversion Heq; subst c. rewrite Hcd. rewrite Hl0, lastd_cons in H2. exact H2.
      * rewrite Hcur by congruence. exact H2.
    + intros Hd. rewrite Hcur by congruence. apply (conv_n _ _ HC). rewrite <- Hdir. exact Hd.
Qed.

(* ---------- the phase invariant is inductive ------------------------------------------------------ *)

Lemma phase_step0 w s e s' : vwf s -> Phase w s -> writes_by w e -> vstep0 s e = Some s' -> Phase w s'.
Proof.
  intros Hwf [HD HC] Hok Hstep. split.
  - destruct (decide (e = VJoin w)) as [->|Hne].
    + (* w itself joins: nobody has a value yet, the snapshot is empty *)
      pose proof Hstep as Hstep0. cbn [vstep0] in Hstep.
      apply step_join0 in Hstep as (Hwh & Hcn & Hnone & _ & _ & Hq & Hl).
      assert (Hh : pcur s host = None).
      { pose proof (conv_k1 _ _ HC Hwh) as H1. unfold pdirty, poutq, pcur in H1. rewrite (getp_none _ _ Hnone) in H1.
        rewrite (wf_link_nil s w host Hwf Hcn (wf_host s Hwf)) in H1. simpl in H1. apply H1. reflexivity. }
      assert (Hlk : forall a b, link s' a b = link s a b).
      { intros a b. rewrite Hl. unfold snapshot. rewrite Hh, app_nil_r. destruct (decide _) as [Heq|_]; [|reflexivity].
        inversion Heq; subst. reflexivity. }
      destruct HD as [HA HB HI HU]. split; unfold pdirty, poutq, ptoken in *.
      * intros p Hp. rewrite Hq. apply HA, Hp.
      * rewrite Hq. exact HB.
      * intros c. rewrite Hlk. apply HI.
      * intros c Hc. rewrite Hlk. apply HU, Hc.
    + eapply disc_step0; eauto. destruct e; simpl in *; auto. congruence.
  - destruct e as [p v|p|p|src dst|c]; simpl in Hok; cbn [vstep0] in Hstep.
    + subst p. eapply conv_write; eauto.
    + eapply conv_detect; eauto.
    + eapply conv_send; eauto.
    + eapply conv_deliver; eauto.
    + eapply conv_join0; eauto.
Qed.

Lemma phase_step w s e s' : vwf s -> Phase w s -> writes_by w e -> vstep s e = Some s' -> Phase w s'.
Proof. apply (lift_step (Phase w) (writes_by w)); [exact I|]. intros s0 e0 s1. apply phase_step0. Qed.

Definition no_write (e : vevent) : Prop := match e with VWrite _ _ => False | _ => True end.

(* the writer's own value is only changed by its writes *)
Lemma phase_cur_w w s e s' : vwf s -> Disc w s -> no_write e -> vstep s e = Some s' -> pcur s' w = pcur s w.
Proof.
  intros Hwf HD Hnw Hstep. destruct e as [p v|p|p|src dst|c]; simpl in Hnw; [contradiction| | | |].
  - apply step_detect in Hstep as (_ & _ & _ & _ & Hp & Hq). unfold pcur.
    destruct (decide (w = p)) as [->|Hne]; [rewrite Hp; apply detect'_cur|rewrite Hq by exact Hne; reflexivity].
  - apply step_send in Hstep as (_ & _ & _ & Hp & Hq & _); [|apply wf_nodup, Hwf]. unfold pcur.
    destruct (decide (w = p)) as [->|Hne]; [rewrite Hp; reflexivity|rewrite Hq by exact Hne; reflexivity].
  - apply step_deliver in Hstep as (v & rest & Hl0 & _ & _ & _ & Hq & _); [|apply wf_nodup, Hwf].
    unfold pcur. rewrite Hq; [reflexivity|]. intros ->. rewrite (disc_in _ _ HD) in Hl0. discriminate.
  - apply step_join in Hstep as (_ & _ & _ & _ & _ & Hq & _). apply Hq.
Qed.

(* ---------- quiescence and agreement ---------------------------------------------------------------- *)

Definition Agree (s : vstate) (x : option value) : Prop := forall p, peers s p -> pcur s p = x.

Lemma phase_quiescent_agree w s : vquiescent s -> Phase w s -> Agree s (pcur s w).
Proof.
  intros Hq [HD HC] p Hp.
  assert (Hd : forall q, pdirty s q = false) by (intros q; apply (quiescent_peer s q Hq)).
  assert (Ho : forall q, poutq s q = []) by (intros q; apply (quiescent_peer s q Hq)).
  destruct (decide (w = host)) as [->|Hwh].
  - destruct Hp as [->|Hp]; [reflexivity|].
    pose proof (conv_h1 _ _ HC eq_refl (Hd host) p Hp) as H1.
    rewrite (quiescent_link s host p Hq), Ho in H1. exact H1.
  - pose proof (conv_k1 _ _ HC Hwh (Hd w)) as H1. rewrite (quiescent_link s w host Hq), Ho in H1. simpl in H1.
    destruct Hp as [->|Hp]; [exact H1|].
    destruct (decide (p = w)) as [->|Hpw]; [reflexivity|].
    pose proof (conv_k2 _ _ HC Hwh p Hp Hpw) as H2. rewrite (quiescent_link s host p Hq) in H2. simpl in H2. congruence.
Qed.

Lemma agree_quiescent_phase w s x : vquiescent s -> Agree s x -> peers s w -> Phase w s.
Proof.
  intros Hq Ha Hw. split; [apply quiescent_disc, Hq|].
  assert (Hd : forall q, pdirty s q = false) by (intros q; apply (quiescent_peer s q Hq)).
  assert (Ho : forall q, poutq s q = []) by (intros q; apply (quiescent_peer s q Hq)).
  assert (Hh : pcur s host = x) by (apply Ha; left; reflexivity).
  split.
  - intros _ _ c Hc. rewrite (quiescent_link s host c Hq), Ho. simpl. rewrite Hh. apply Ha. right. exact Hc.
  - intros _ _. rewrite Ho. reflexivity.
  - intros _ _. rewrite (quiescent_link s w host Hq), Ho. simpl. rewrite Hh. symmetry. apply Ha, Hw.
  - intros _ c Hc _. rewrite (quiescent_link s host c Hq). simpl. rewrite Hh. apply Ha. right. exact Hc.
  - intros H. rewrite Hd in H. discriminate.
Qed.

(* ================================================================================================
   Part 5: C02 -- drain-separated writers converge to the most recent write
   ================================================================================================ *)

Definition owner (g : option peer) : peer := default host g.

Lemma peers_step s e s' p : vstep s e = Some s' -> peers s p -> peers s' p.
Proof.
  intros Hstep [->|Hp]; [left; reflexivity|]. right. destruct e as [q v|q|q|src dst|c].
  - apply step_write in Hstep as (_ & -> & _). exact Hp.
  - apply step_detect in Hstep as (_ & -> & _). exact Hp.
  - simpl in Hstep. destruct (vp s !! q); [|discriminate]. destruct (outq v); inversion Hstep; subst; exact Hp.
  - simpl in Hstep. destruct (link s src dst); [discriminate|]. destruct (vp s !! dst); [|discriminate].
    destruct (bool_decide _); inversion Hstep; subst; exact Hp.
  - apply step_join in Hstep as (_ & _ & _ & -> & _). apply elem_of_app. left. exact Hp.
Qed.

Lemma peers_step_inv s e s' p : vstep s e = Some s' -> peers s' p -> peers s p \/ e = VJoin p.
Proof.
  intros Hstep [->|Hp]; [left; left; reflexivity|]. destruct e as [q v|q|q|src dst|c].
  - apply step_write in Hstep as (_ & Hc & _). rewrite Hc in Hp. left; right; exact Hp.
  - apply step_detect in Hstep as (_ & Hc & _). rewrite Hc in Hp. left; right; exact Hp.
  - simpl in Hstep. destruct (vp s !! q); [|discriminate]. destruct (outq v); inversion Hstep; subst; left; right; exact Hp.
  - simpl in Hstep. destruct (link s src dst); [discriminate|]. destruct (vp s !! dst); [|discriminate].
    destruct (bool_decide _); inversion Hstep; subst; left; right; exact Hp.
  - apply step_join in Hstep as (_ & _ & _ & Hc & _). rewrite Hc in Hp. apply elem_of_app in Hp as [Hp|Hp].
    + left; right; exact Hp. + apply elem_of_list_singleton in Hp. subst. right. reflexivity.
Qed.

(* [Calm s]: nobody has written since the last quiescent state: the only messages in flight are the
   snapshots of the clients that joined since; tokens may be up, nothing is queued anywhere. *)
Record Calm (s : vstate) : Prop := {
  calm_idle : forall p, pdirty s p = false /\ poutq s p = [];
  calm_up : forall c, link s c host = [];
  calm_down : forall c, c ∈ vconn s -> lastd (pcur s c) (link s host c) = pcur s host
}.

Lemma calm_step s e s' :
  vwf s -> Calm s -> no_write e -> vstep s e = Some s' ->
  Calm s' /\ pcur s' host = pcur s host /\
  (forall p, link s host p = [] -> e <> VJoin p -> link s' host p = []).
Proof.
  intros Hwf [HI HU HDn] Hnw Hstep. destruct e as [p v|p|p|src dst|c]; simpl in Hnw; [contradiction| | | |].
  - (* detect: at most swallows a token *)
    apply step_detect in Hstep as (_ & Hcn & Hl & _ & Hp & Hq).
    assert (Hlk : forall a b, link s' a b = link s a b) by (intros; unfold link; rewrite Hl; reflexivity).
    assert (Hcur : forall q, pcur s' q = pcur s q).
    { intros q. unfold pcur. destruct (decide (q = p)) as [->|Hne]; [rewrite Hp; apply detect'_cur|rewrite Hq by exact Hne; reflexivity]. }
    split; [|split; [apply Hcur|intros q Hq0 _; rewrite Hlk; exact Hq0]]. split.
    + intros q. unfold pdirty, poutq. destruct (decide (q = p)) as [->|Hne].
      * rewrite Hp. destruct (HI p) as [Hd Ho]. destruct (detect'_clean _ Hd) as [H1 H2]. rewrite H1, H2. auto.
      * rewrite Hq by exact Hne. apply HI.
    + intros c. rewrite Hlk. apply HU.
    + intros c Hc. rewrite Hcn in Hc. rewrite Hlk, !Hcur. apply HDn, Hc.
  - (* send: the queue is empty *)
    apply step_send in Hstep as (_ & Hcn & _ & Hp & Hq & Hl); [|apply wf_nodup, Hwf].
    destruct (HI p) as [Hdp Hop].
    assert (Hlk : forall a b, link s' a b = link s a b).
    { intros a b. rewrite Hl, Hop, app_nil_r. destruct (decide _); reflexivity. }
    assert (Hcur : forall q, pcur s' q = pcur s q).
    { intros q. unfold pcur. destruct (decide (q = p)) as [->|Hne]; [rewrite Hp; reflexivity|rewrite Hq by exact Hne; reflexivity]. }
    split; [|split; [apply Hcur|intros q Hq0 _; rewrite Hlk; exact Hq0]]. split.
    + intros q. unfold pdirty, poutq. destruct (decide (q = p)) as [->|Hne].
      * rewrite Hp. simpl. auto.
      * rewrite Hq by exact Hne. apply HI.
    + intros c. rewrite Hlk. apply HU.
    + intros c Hc. rewrite Hcn in Hc. rewrite Hlk, !Hcur. apply HDn, Hc.
  - (* deliver: a snapshot reaches its joiner *)
    apply step_deliver in Hstep as (v & rest & Hl0 & _ & Hcn & _ & Hq & Hcase); [|apply wf_nodup, Hwf].
    assert (Hne0 : link s src dst <> []) by (rewrite Hl0; discriminate).
    destruct (wf_link s src dst Hwf Hne0) as [[-> Hin]|[-> Hin]]; [|exfalso; apply Hne0, HU].
    assert (Hdh : dst <> host) by (intros ->; apply (wf_host s Hwf Hin)).
    assert (Hlk : forall a b, link s' a b = if decide ((a, b) = (host, dst)) then rest else link s a b).
    { intros a b. destruct Hcase as [(_ & _ & Hl)|(_ & _ & Hl)]; rewrite Hl; [reflexivity|].
      destruct (decide (dst = host /\ _)) as [[E _]|_]; [contradiction|]. apply app_nil_r. }
    assert (Hcur : forall q, q <> dst -> pcur s' q = pcur s q).
    { intros q Hne. unfold pcur. rewrite Hq by exact Hne. reflexivity. }
    assert (Hcd : pcur s' dst = Some v).
    { unfold pcur. destruct Hcase as [(Hc & Hp & _)|(_ & Hp & _)]; rewrite Hp; [exact Hc|reflexivity]. }
    split; [|split; [apply Hcur; congruence|]].
    + split.
      * intros q. unfold pdirty, poutq. destruct (decide (q = dst)) as [->|Hne].
        -- destruct (HI dst) as [Hd Ho]. destruct Hcase as [(_ & Hp & _)|(_ & Hp & _)]; rewrite Hp; simpl; auto.
        -- rewrite Hq by exact Hne. apply HI.
      * intros c. rewrite Hlk. destruct (decide ((c, host) = (host, dst))) as [E|_]; [inversion E; congruence|apply HU].
      * intros c Hc. rewrite Hcn in Hc. rewrite Hlk, (Hcur host) by congruence.
        pose proof (HDn c Hc) as H1. destruct (decide ((host, c) = (host, dst))) as [E|Hne].
        -- inversion E; subst c. rewrite Hcd. rewrite Hl0, lastd_cons in H1. exact H1.
        -- rewrite Hcur by congruence. exact H1.
    + intros q Hq0 _. rewrite Hlk. destruct (decide ((host, q) = (host, dst))) as [E|_]; [|exact Hq0].
      inversion E; subst q. congruence.
  - (* join: one more snapshot; the host's queue is empty: nothing to flush *)
    rewrite (join_noflush s c (proj2 (HI host))) in Hstep.
    apply step_join0 in Hstep as (Hch & Hcn & Hnone & Hcn' & _ & Hq & Hl).
    assert (Hcur : forall q, pcur s' q = pcur s q) by (intros; unfold pcur; rewrite Hq; reflexivity).
    assert (Hc0 : pcur s c = None) by (unfold pcur; rewrite (getp_none _ _ Hnone); reflexivity).
    assert (Hl0 : link s host c = []) by (apply wf_link_nil; [exact Hwf|apply wf_host, Hwf|exact Hcn]).
    split; [|split; [apply Hcur|]].
    + split.
      * intros q. unfold pdirty, poutq. rewrite Hq. apply HI.
      * intros a. rewrite Hl. destruct (decide ((a, host) = (host, c))) as [E|_]; [inversion E; congruence|apply HU].
      * intros c' Hc'. rewrite Hcn' in Hc'. rewrite Hl, !Hcur.
        destruct (decide ((host, c') = (host, c))) as [E|Hne].
        -- inversion E; subst c'. rewrite Hl0, Hc0. simpl. apply lastd_snapshot.
        -- apply HDn. apply elem_of_app in Hc' as [H|H]; [exact H|]. apply elem_of_list_singleton in H. congruence.
    + intros q Hq0 Hne. rewrite Hl. destruct (decide ((host, q) = (host, c))) as [E|_]; [|exact Hq0].
      inversion E; subst q. exfalso. apply Hne. reflexivity.
Qed.

(* the first write after a calm period opens the writer's phase, provided nothing travels towards it *)
Lemma calm_write_phase s p v s1 :
  vwf s -> Calm s -> link s host p = [] -> vstep s (VWrite p v) = Some s1 -> Phase p s1.
Proof.
  intros Hwf [HI HU HDn] Hl0 Hstep. apply step_write in Hstep as (_ & Hcn & Hl & _ & Hp & Hq).
  assert (Hlk : forall a b, link s1 a b = link s a b) by (intros; unfold link; rewrite Hl; reflexivity).
  assert (Hd : pdirty s1 p = true) by (unfold pdirty; rewrite Hp; reflexivity).
  split.
  - split.
    + intros q Hne. unfold pdirty, poutq. rewrite Hq by exact Hne. apply HI.
    + unfold ptoken. rewrite Hp. reflexivity.
    + intros c. rewrite Hlk. destruct (link s c p) eqn:E; [reflexivity|]. exfalso.
      assert (Hne : link s c p <> []) by (rewrite E; discriminate).
      destruct (wf_link s c p Hwf Hne) as [[-> _]|[-> _]]; [congruence|]. apply Hne, HU.
    + intros c _. rewrite Hlk. apply HU.
  - split; rewrite ?Hcn.
    + intros -> Hd'. congruence.
    + intros -> Hd'. congruence.
    + intros _ Hd'. congruence.
    + intros Hph c Hc Hcp. rewrite Hlk. unfold pcur. rewrite !Hq by congruence. apply HDn, Hc.
    + intros _. unfold pcur. rewrite Hp. simpl. eauto.
Qed.

Lemma quiescent_calm s x : vquiescent s -> Agree s x -> Calm s.
Proof.
  intros Hq Ha. split.
  - intros p. destruct (quiescent_peer s p Hq) as (? & ? & _). auto.
  - intros c. apply quiescent_link, Hq.
  - intros c Hc. rewrite (quiescent_link s host c Hq). simpl. rewrite (Ha c (or_intror Hc)), (Ha host (or_introl eq_refl)). reflexivity.
Qed.

Lemma calm_quiescent_agree s : vquiescent s -> Calm s -> Agree s (pcur s host).
Proof.
  intros Hq HC p [->|Hp]; [reflexivity|].
  pose proof (calm_down _ HC p Hp) as H. rewrite (quiescent_link s host p Hq) in H. exact H.
Qed.

(* [g] = the peer that wrote since the last quiescent state; [blk] = the clients that joined since *)
Record C02Inv (g : option peer) (blk : list peer) (lw : option value) (s : vstate) : Prop := {
  c02_wf : vwf s;
  c02_phase : forall w, g = Some w -> Phase w s;
  c02_calm : g = None -> Calm s /\ forall p, p ∉ blk -> link s host p = [];
  c02_owner : peers s (owner g);
  c02_last : pcur s (owner g) = lw
}.

Lemma c02_agree g blk lw s : C02Inv g blk lw s -> vquiescent s -> Agree s lw.
Proof.
  intros [Hwf Hph Hcalm Hop Hl] Hq. rewrite <- Hl. destruct g as [w|]; simpl.
  - apply phase_quiescent_agree; [exact Hq|]. apply Hph. reflexivity.
  - apply calm_quiescent_agree; [exact Hq|]. apply Hcalm. reflexivity.
Qed.

Lemma c02_reset g blk lw s :
  C02Inv g blk lw s ->
  C02Inv (if vquiescentb s then None else g) (if vquiescentb s then [] else blk) lw s.
Proof.
  intros HI. unfold vquiescentb. destruct (bool_decide (vquiescent s)) eqn:Hq; [|exact HI].
  apply bool_decide_eq_true in Hq. pose proof (c02_agree _ _ _ _ HI Hq) as Hag.
  destruct HI as [Hwf Hph Hcalm Hop Hl]. split.
  - exact Hwf.
  - intros w Hw. discriminate.
  - intros _. split; [eapply quiescent_calm; eauto|]. intros p _. apply quiescent_link, Hq.
  - left. reflexivity.
  - apply Hag. left. reflexivity.
Qed.

Lemma c02_step_nonwrite g blk lw s e s1 :
  C02Inv g blk lw s -> no_write e -> vstep s e = Some s1 ->
  C02Inv g (match e with VJoin c => c :: blk | _ => blk end) lw s1.
Proof.
  intros [Hwf Hph Hcalm Hop Hl] Hnw Hstep. split.
  - eapply step_wf; eauto.
  - intros w Hg. eapply phase_step; [exact Hwf|exact (Hph w Hg)| |exact Hstep]. destruct e; simpl in *; try contradiction; exact I.
  - intros Hg. destruct (Hcalm Hg) as [HC Hb]. destruct (calm_step s e s1 Hwf HC Hnw Hstep) as (HC1 & _ & Hlk).
    split; [exact HC1|]. intros p Hp. apply Hlk.
    + apply Hb. destruct e; try exact Hp. apply not_elem_of_cons in Hp. apply Hp.
    + intros ->. apply not_elem_of_cons in Hp. destruct Hp as [Hp _]. congruence.
  - eapply peers_step; eauto.
  - rewrite <- Hl. destruct g as [w|]; simpl.
    + eapply phase_cur_w; [exact Hwf|exact (proj1 (Hph w eq_refl))|exact Hnw|exact Hstep].
    + destruct (Hcalm eq_refl) as [HC _]. apply (calm_step s e s1 Hwf HC Hnw Hstep).
Qed.

Lemma C02_general tr : forall g blk lw s s',
  C02Inv g blk lw s -> vrun s tr = Some s' -> ds_from g s tr = true -> jr_from blk s tr = true ->
  exists g' blk', C02Inv g' blk' (lastd lw (written tr)) s'.
Proof.
  induction tr as [|e tr IH]; intros g blk lw s s' HI Hrun Hds Hjs.
  - simpl in Hrun. inversion Hrun; subst. exists g, blk. exact HI.
  - cbn [vrun] in Hrun. cbn [ds_from] in Hds. cbn [jr_from] in Hjs.
    destruct (vstep s e) as [s1|] eqn:Hstep; [|discriminate].
    apply c02_reset in HI. revert HI Hds Hjs.
    generalize (if vquiescentb s then None else g). generalize (if vquiescentb s then [] else blk).
    clear g blk. intros blk g HI Hds Hjs.
    destruct e as [p v|p|p|src dst|c];
      [|cbn [written omap];
        (eapply IH; [eapply c02_step_nonwrite; [exact HI| |exact Hstep]; exact I|exact Hrun|exact Hds|exact Hjs])..].
    + (* a write: p takes (or keeps) the phase *)
      destruct HI as [Hwf Hph Hcalm Hop Hl].
      apply andb_prop in Hds as [Hg Hds]. apply bool_decide_eq_true in Hg.
      apply andb_prop in Hjs as [Hb Hjs]. apply bool_decide_eq_true in Hb.
      assert (Hp1 : Phase p s1).
      { destruct Hg as [Hg|Hg].
        - destruct (Hcalm Hg) as [HC Hlb]. eapply calm_write_phase; [exact Hwf|exact HC| |exact Hstep].
          destruct Hb as [Hb|Hb]; [apply Hlb, Hb|exact Hb].
        - eapply phase_step; [exact Hwf|exact (Hph p Hg)| |exact Hstep]. reflexivity. }
      change (written (VWrite p v :: tr)) with (v :: written tr). rewrite lastd_cons.
      eapply (IH (Some p) blk); [|exact Hrun|exact Hds|exact Hjs].
      split.
      * eapply step_wf; eauto.
      * intros w [= <-]. exact Hp1.
      * intros [=].
      * simpl. apply step_write in Hstep as (Hex & Hcn & _). unfold peers. rewrite Hcn. apply (wf_exists s p Hwf), Hex.
      * simpl. apply step_write in Hstep as (_ & _ & _ & _ & Hpv & _). unfold pcur. rewrite Hpv. reflexivity.
Qed.

Lemma c02_init n : C02Inv None [] None (vinit n).
Proof.
  split.
  - apply vinit_wf.
  - intros w [=].
  - intros _. split; [|intros p _; apply vinit_link].
    apply (quiescent_calm _ None (vinit_quiescent n)). intros p _. unfold pcur. rewrite vinit_getp. reflexivity.
  - left. reflexivity.
  - unfold pcur. rewrite vinit_getp. reflexivity.
Qed.

Lemma lastd_None_last l : lastd None l = last l.
Proof. rewrite lastd_last. destruct (last l); reflexivity. Qed.

(* [joiners_received] is weaker than the premise [joiners_settled] it replaces *)
Lemma js_jr_from tr : forall blk s, js_from blk s tr = true -> jr_from blk s tr = true.
Proof.
  induction tr as [|e tr IH]; intros blk s H; [reflexivity|]. cbn [js_from jr_from] in *.
  destruct (vstep s e) as [s1|]; [|reflexivity].
  destruct e; try (apply IH; exact H).
  apply andb_prop in H as [H1 H2]. apply bool_decide_eq_true in H1.
  apply andb_true_intro. split; [apply bool_decide_eq_true; left; exact H1|apply IH; exact H2].
Qed.
Lemma joiners_settled_received s tr : joiners_settled s tr -> joiners_received s tr.
Proof. apply js_jr_from. Qed.

(* C02: with drain-separated writers (and joiners that do not write while their snapshot is still travelling
   towards them), at a quiescent state every peer (host and every connected client) holds the most recent
   write.  Before fix e13e196 the second premise had to be [joiners_settled]. *)
Theorem C02_values_converge n tr s' :
  vrun (vinit n) tr = Some s' ->
  drain_separated (vinit n) tr -> joiners_received (vinit n) tr ->
  vquiescent s' ->
  forall p, peers s' p -> pcur s' p = last (written tr).
Proof.
  intros Hrun Hds Hjs Hq.
  destruct (C02_general tr None [] None (vinit n) s' (c02_init n) Hrun Hds Hjs) as (g' & blk' & HI).
  rewrite <- lastd_None_last. exact (c02_agree _ _ _ _ HI Hq).
Qed.
Print Assumptions C02_values_converge.

(* the hypotheses are prefix-closed, so the statement holds at EVERY quiescent state along the run *)
Lemma vrun_app s tr1 tr2 : vrun s (tr1 ++ tr2) = match vrun s tr1 with Some s1 => vrun s1 tr2 | None => None end.
Proof.
  revert s. induction tr1 as [|e tr1 IH]; intros s; simpl; [reflexivity|]. destruct (vstep s e); [apply IH|reflexivity].
Qed.
Lemma ds_from_prefix g s tr1 tr2 : ds_from g s (tr1 ++ tr2) = true -> ds_from g s tr1 = true.
Proof.
  revert g s. induction tr1 as [|e tr1 IH]; intros g s H; [reflexivity|].
  cbn [app ds_from] in *. destruct (vstep s e) as [s1|]; [|reflexivity].
  destruct e; try (eapply IH; exact H).
  apply andb_prop in H as [H1 H2]. rewrite H1. simpl. eapply IH; exact H2.
Qed.
Lemma js_from_prefix blk s tr1 tr2 : js_from blk s (tr1 ++ tr2) = true -> js_from blk s tr1 = true.
Proof.
  revert blk s. induction tr1 as [|e tr1 IH]; intros blk s H; [reflexivity|].
  cbn [app js_from] in *. destruct (vstep s e) as [s1|]; [|reflexivity].
  destruct e; try (eapply IH; exact H).
  apply andb_prop in H as [H1 H2]. rewrite H1. simpl. eapply IH; exact H2.
Qed.
Lemma jr_from_prefix blk s tr1 tr2 : jr_from blk s (tr1 ++ tr2) = true -> jr_from blk s tr1 = true.
Proof.
  revert blk s. induction tr1 as [|e tr1 IH]; intros blk s H; [reflexivity|].
  cbn [app jr_from] in *. destruct (vstep s e) as [s1|]; [|reflexivity].
  destruct e; try (eapply IH; exact H).
  apply andb_prop in H as [H1 H2]. rewrite H1. simpl. eapply IH; exact H2.
Qed.

Theorem C02_every_quiescent_state n tr1 tr2 s1 :
  drain_separated (vinit n) (tr1 ++ tr2) -> joiners_received (vinit n) (tr1 ++ tr2) ->
  is_Some (vrun (vinit n) (tr1 ++ tr2)) ->
  vrun (vinit n) tr1 = Some s1 -> vquiescent s1 ->
  forall p, peers s1 p -> pcur s1 p = last (written tr1).
Proof.
  intros Hds Hjs _ Hrun Hq. eapply C02_values_converge; eauto.
  - eapply ds_from_prefix; exact Hds. - eapply jr_from_prefix; exact Hjs.
Qed.
Print Assumptions C02_every_quiescent_state.

(* non-vacuity: three writers taking turns, a client joining in between *)
Definition ex_turns : list vevent :=
  [VWrite 1 10; VDetect 1; VSend 1; VDeliver 1 0; VDeliver 0 2; VDetect 0; VDetect 2;
   VWrite 0 20; VJoin 3; VDetect 0; VSend 0; VDeliver 0 1; VDeliver 0 2; VDeliver 0 3; VDeliver 0 3;
   VDetect 1; VDetect 2; VDetect 3;
   VWrite 3 30; VWrite 3 31; VDetect 3; VSend 3; VDeliver 3 0; VDeliver 0 1; VDeliver 0 2;
   VDetect 0; VDetect 1; VDetect 2].
Example C02_nonvacuous :
  drain_separated (vinit 2) ex_turns /\ joiners_settled (vinit 2) ex_turns /\ joiners_received (vinit 2) ex_turns /\
  (fun s => view s [0; 1; 2; 3]) <$> vrun (vinit 2) ex_turns = Some ([Some 31; Some 31; Some 31; Some 31], true).
Proof. vm_compute. auto. Qed.

(* without drain separation: two peers end quiescent with different values *)
Definition ex_conflict : list vevent :=
  [VWrite 1 10; VWrite 2 20; VDetect 1; VDetect 2; VSend 1; VSend 2; VDeliver 1 0; VDeliver 2 0;
   VDeliver 0 2; VDeliver 0 1; VDetect 0; VDetect 1; VDetect 2].
Example C02_conflict_example :
  ds_from None (vinit 2) ex_conflict = false /\
  (fun s => view s [0; 1; 2]) <$> vrun (vinit 2) ex_conflict = Some ([Some 20; Some 20; Some 10], true).
Proof. vm_compute. auto. Qed.

(* without drain separation: a local write that lands BEFORE a network apply reaches its peer is
   overwritten and never announced (the token swallows the change flag it raised).  Since fix e13e196 a
   write that lands AFTER the apply is announced (second half; before the fix it was swallowed and the
   run ended quiescent with 10, 10, 99). *)
Example C02_lost_write_example :
  let tr := [VWrite 1 10; VDetect 1; VSend 1; VDeliver 1 0; VWrite 2 99; VDeliver 0 2; VDetect 2; VDetect 0] in
  let tr' := [VWrite 1 10; VDetect 1; VSend 1; VDeliver 1 0; VDeliver 0 2; VWrite 2 99; VDetect 2; VDetect 0;
              VSend 2; VDeliver 2 0; VDeliver 0 1; VDetect 0; VDetect 1] in
  ds_from None (vinit 2) tr = false /\ last (written tr) = Some 99 /\
  (fun s => view s [0; 1; 2]) <$> vrun (vinit 2) tr = Some ([Some 10; Some 10; Some 10], true) /\
  ds_from None (vinit 2) tr' = false /\
  (fun s => view s [0; 1; 2]) <$> vrun (vinit 2) tr' = Some ([Some 99; Some 99; Some 99], true).
Proof. vm_compute. auto 10. Qed.

(* S22, fixed by e13e196: a joiner writes after its snapshot has arrived but before its detector has seen
   the snapshot's token.  Before the fix the token swallowed the write ([C02_join_write_refuted]: quiescent
   with 5 on the host and 7 on the joiner); now the write clears the token and the history converges.
   The premise of C02 is satisfied although [joiners_settled] is not. *)
Definition ex_join_write : list vevent :=
  [VWrite 0 5; VDetect 0; VSend 0; VDeliver 0 1; VDetect 1; VJoin 2; VDeliver 0 2; VWrite 2 7; VDetect 2;
   VSend 2; VDeliver 2 0; VDeliver 0 1; VDetect 0; VDetect 1].
Example C02_join_write_example :
  drain_separated (vinit 1) ex_join_write /\ joiners_received (vinit 1) ex_join_write /\
  js_from [] (vinit 1) ex_join_write = false /\
  (fun s => view s [0; 1; 2]) <$> vrun (vinit 1) ex_join_write = Some ([Some 7; Some 7; Some 7], true) /\
  (* the old counterexample trace itself: the joiner now holds a queued announcement instead of being idle *)
  (fun s => (view s [0; 2], poutq s 2)) <$> vrun (vinit 1) (take 9 ex_join_write) = Some (([Some 5; Some 7], false), [7]).
Proof. vm_compute. auto 10. Qed.

(* the residue of S22: drain separation alone is still not enough.  A client that writes while its snapshot
   is still travelling towards it conflicts with the snapshot exactly like two concurrent writers: its
   announcement reaches the host and everybody else, the snapshot overwrites its own value; the run ends
   quiescent with 7 everywhere except on the joiner, which shows 5 for ever -- hence [joiners_received].
   (Second witness: if the snapshot arrives before the joiner's detector runs, the write is overwritten and
   never announced: everybody agrees on 5, the write 7 is lost.) *)
Definition ex_join_window : list vevent :=
  [VWrite 0 5; VDetect 0; VSend 0; VDeliver 0 1; VDetect 1; VJoin 2; VWrite 2 7; VDetect 2; VSend 2;
   VDeliver 0 2; VDeliver 2 0; VDeliver 0 1; VDetect 0; VDetect 1; VDetect 2].
Definition ex_join_window_lost : list vevent :=
  [VWrite 0 5; VDetect 0; VSend 0; VDeliver 0 1; VDetect 1; VJoin 2; VWrite 2 7; VDeliver 0 2; VDetect 2].
Theorem C02_join_window_refuted :
  exists n tr s' p q,
    vrun (vinit n) tr = Some s' /\ drain_separated (vinit n) tr /\ vquiescent s' /\ peers s' p /\ peers s' q /\
    pcur s' p <> last (written tr) /\ pcur s' p <> pcur s' q /\ ~ joiners_received (vinit n) tr.
Proof.
  exists 1%nat, ex_join_window.
  destruct (vrun (vinit 1) ex_join_window) as [s'|] eqn:Hrun; [|vm_compute in Hrun; discriminate].
  exists s', 2, 0. split; [reflexivity|]. split; [vm_compute; reflexivity|].
  assert (Hv : (view s' [0; 2], vconn s') = (([Some 7; Some 5], true), [1; 2])).
  { assert (H : (fun s => (view s [0; 2], vconn s)) <$> vrun (vinit 1) ex_join_window = Some (([Some 7; Some 5], true), [1; 2]))
      by (vm_compute; reflexivity).
    rewrite Hrun in H. simpl in H. congruence. }
  inversion Hv as [[H0 H2 Hq Hc]]. split; [apply bool_decide_eq_true in Hq; exact Hq|].
  split; [right; rewrite Hc; set_solver|]. split; [left; reflexivity|]. split; [|split].
  - rewrite H2. vm_compute. congruence.
  - rewrite H2, H0. congruence.
  - unfold joiners_received. vm_compute. discriminate.
Qed.
Example C02_join_window_lost_example :
  drain_separated (vinit 1) ex_join_window_lost /\ jr_from [] (vinit 1) ex_join_window_lost = false /\
  last (written ex_join_window_lost) = Some 7 /\
  (fun s => view s [0; 1; 2]) <$> vrun (vinit 1) ex_join_window_lost = Some ([Some 5; Some 5; Some 5], true).
Proof. vm_compute. auto. Qed.

(* ================================================================================================
   Part 6: C10 -- a single writer's updates are observed in order, never invented
   Positions: [at_ W k] is the k-th written value (1-based; 0 = "no value yet").
   [chain W lo l hi]: the values of l sit at non-decreasing positions of W between lo and hi.
   ================================================================================================ *)

Definition at_ (W : list value) (k : nat) : option value := match k with O => None | S j => W !! j end.

Inductive chain (W : list value) : nat -> list value -> nat -> Prop :=
| chain_nil lo hi : (lo <= hi)%nat -> chain W lo [] hi
| chain_cons lo j v l hi : (lo <= j)%nat -> at_ W j = Some v -> chain W j l hi -> chain W lo (v :: l) hi.

Lemma chain_le W lo l hi : chain W lo l hi -> (lo <= hi)%nat.
Proof. induction 1; lia. Qed.
Lemma chain_lo W lo lo' l hi : (lo' <= lo)%nat -> chain W lo l hi -> chain W lo' l hi.
Proof. intros Hle H. destruct H; [apply chain_nil; lia|eapply chain_cons; [|eassumption|eassumption]; lia]. Qed.
Lemma chain_hi W lo l hi hi' : (hi <= hi')%nat -> chain W lo l hi -> chain W lo l hi'.
Proof. intros Hle H. induction H; [apply chain_nil; lia|eapply chain_cons; [eassumption|eassumption|auto]]. Qed.
Lemma chain_snoc W lo l hi v : chain W lo l hi -> at_ W hi = Some v -> chain W lo (l ++ [v]) hi.
Proof.
  intros H Hv. induction H as [lo hi Hle|lo j v0 l hi Hle Hat Hc IH]; simpl.
  - eapply chain_cons; [exact Hle|exact Hv|apply chain_nil; lia].
  - eapply chain_cons; eauto.
Qed.
Lemma at_mono W v k x : at_ W k = Some x -> at_ (W ++ [v]) k = Some x.
Proof. destruct k as [|j]; simpl; [discriminate|]. intros H. apply lookup_app_l_Some. exact H. Qed.
Lemma at_app_le W v k : (k <= length W)%nat -> at_ (W ++ [v]) k = at_ W k.
Proof. destruct k as [|j]; simpl; [reflexivity|]. intros H. apply lookup_app_l. lia. Qed.
Lemma at_last W v : at_ (W ++ [v]) (S (length W)) = Some v.
Proof. simpl. apply list_lookup_middle. reflexivity. Qed.
Lemma at_elem W k v : at_ W k = Some v -> v ∈ W.
Proof. destruct k; simpl; [discriminate|]. apply elem_of_list_lookup_2. Qed.
Lemma chain_mono W v lo l hi : chain W lo l hi -> chain (W ++ [v]) lo l hi.
Proof. intros H. induction H; [apply chain_nil; assumption|eapply chain_cons; eauto using at_mono]. Qed.
Lemma chain_head W lo v l hi :
  chain W lo (v :: l) hi -> exists j, (lo <= j)%nat /\ at_ W j = Some v /\ chain W j l hi.
Proof. intros H. inversion H; subst. eauto. Qed.

Lemma sublist_take_le {A} (l : list A) i j : (i <= j)%nat -> take i l `sublist_of` take j l.
Proof.
  intros Hle. replace i with (i `min` j)%nat by lia. rewrite <- take_take. apply sublist_take.
Qed.

(* a displayed change lands strictly later in W *)
Lemma disp_extend W D i j v :
  D `sublist_of` take i W -> (i <= j)%nat -> at_ W i <> Some v -> at_ W j = Some v ->
  D ++ [v] `sublist_of` take j W.
Proof.
  intros HD Hle Hne Hj. destruct j as [|j0]; [discriminate|]. simpl in Hj.
  assert (Hij : (i <= j0)%nat). { destruct (decide (i = S j0)) as [->|]; [simpl in Hne; contradiction|lia]. }
  rewrite (take_S_r _ _ _ Hj). apply sublist_app; [|reflexivity].
  etransitivity; [exact HD|]. apply sublist_take_le. exact Hij.
Qed.

Definition delta (p : peer) (s s' : vstate) : list value :=
  if bool_decide (pcur s' p = pcur s p) then [] else match pcur s' p with Some v => [v] | None => [] end.

Definition upd (pos : peer -> nat) (q : peer) (k : nat) : peer -> nat := fun p => if decide (p = q) then k else pos p.
Lemma upd_eq pos q k : upd pos q k q = k.
Proof. unfold upd. destruct (decide (q = q)); congruence. Qed.
Lemma upd_ne pos q k p : p <> q -> upd pos q k p = pos p.
Proof. intros H. unfold upd. destruct (decide (p = q)); congruence. Qed.

Record PosI (w : peer) (W : list value) (D : peer -> list value) (s : vstate) (pos : peer -> nat) : Prop := {
  pi_cur : forall p, pcur s p = at_ W (pos p);
  pi_le : forall p, (pos p <= length W)%nat;
  pi_w : pos w = length W;
  pi_non : forall p, p <> w -> ~ peers s p -> pos p = O;
  pi_disp : forall p, p <> w -> D p `sublist_of` take (pos p) W;
  pi_h : w = host -> forall c, c ∈ vconn s -> chain W (pos c) (link s host c ++ poutq s host) (length W);
  pi_k1 : w <> host -> chain W (pos host) (link s w host ++ poutq s w) (length W);
  pi_k2 : w <> host -> forall c, c ∈ vconn s -> c <> w -> chain W (pos c) (link s host c) (pos host)
}.

Lemma PosI_ext w W D D' s pos : (forall p, D' p = D p) -> PosI w W D s pos -> PosI w W D' s pos.
Proof.
  intros He HP. split; try apply HP. intros p Hne. rewrite He. apply (pi_disp _ _ _ _ _ HP), Hne.
Qed.

Lemma delta_same p s s' : pcur s' p = pcur s p -> delta p s s' = [].
Proof. intros H. unfold delta. rewrite bool_decide_eq_true_2 by exact H. reflexivity. Qed.

Lemma pos_write w W D s pos v s' :
  vwf s -> PosI w W D s pos -> vstep s (VWrite w v) = Some s' ->
  PosI w (W ++ [v]) (fun p => D p ++ delta p s s') s' (upd pos w (S (length W))).
Proof.
  intros Hwf HP Hstep. apply step_write in Hstep as (_ & Hcn & Hl & _ & Hp & Hq).
  assert (Hcur : forall p, p <> w -> pcur s' p = pcur s p) by (intros p Hne; unfold pcur; rewrite Hq by exact Hne; reflexivity).
  assert (Hout : forall p, poutq s' p = poutq s p).
  { intros p. unfold poutq. destruct (decide (p = w)) as [->|Hne]; [rewrite Hp; reflexivity|rewrite Hq by exact Hne; reflexivity]. }
  assert (Hlk : forall a b, link s' a b = link s a b) by (intros; unfold link; rewrite Hl; reflexivity).
  assert (Hlen : length (W ++ [v]) = S (length W)) by (rewrite app_length; simpl; lia).
  split; rewrite ?Hcn, ?Hlen.
  - intros p. destruct (decide (p = w)) as [->|Hne].
    + rewrite upd_eq. unfold pcur. rewrite Hp. simpl. symmetry. apply list_lookup_middle. reflexivity.
    + rewrite upd_ne, Hcur by exact Hne. rewrite at_app_le by apply (pi_le _ _ _ _ _ HP). apply (pi_cur _ _ _ _ _ HP).
  - intros p. unfold upd. destruct (decide (p = w)); [lia|]. pose proof (pi_le _ _ _ _ _ HP p). lia.
  - apply upd_eq.
  - intros p Hne Hnp. rewrite upd_ne by exact Hne. apply (pi_non _ _ _ _ _ HP); [exact Hne|].
    unfold peers in *. rewrite Hcn in Hnp. exact Hnp.
  - intros p Hne. rewrite upd_ne, delta_same, app_nil_r by auto.
    rewrite take_app_le by apply (pi_le _ _ _ _ _ HP). apply (pi_disp _ _ _ _ _ HP), Hne.
  - intros Hwh c Hc. assert (c <> w) by (intros ->; subst; apply (wf_host s Hwf Hc)).
    rewrite upd_ne, Hlk, Hout by assumption. apply chain_mono. eapply chain_hi; [|apply (pi_h _ _ _ _ _ HP); auto]. lia.
  - intros Hwh. rewrite upd_ne, Hlk, Hout by congruence. apply chain_mono. eapply chain_hi; [|apply (pi_k1 _ _ _ _ _ HP); auto]. lia.
  - intros Hwh c Hc Hcw. rewrite !upd_ne, Hlk by congruence. apply chain_mono. apply (pi_k2 _ _ _ _ _ HP); auto.
Qed.

(* events that change no displayed value and no membership: only the chains must be re-established *)
Lemma pos_transfer w W D s pos s' :
  (forall p, pcur s' p = pcur s p) -> vconn s' = vconn s ->
  (w = host -> forall c, c ∈ vconn s -> chain W (pos c) (link s' host c ++ poutq s' host) (length W)) ->
  (w <> host -> chain W (pos host) (link s' w host ++ poutq s' w) (length W)) ->
  (w <> host -> forall c, c ∈ vconn s -> c <> w -> chain W (pos c) (link s' host c) (pos host)) ->
  PosI w W D s pos -> PosI w W (fun p => D p ++ delta p s s') s' pos.
Proof.
  intros Hcur Hcn H1 H2 H3 HP. split; rewrite ?Hcn; try assumption.
  - intros p. rewrite Hcur. apply (pi_cur _ _ _ _ _ HP).
  - apply (pi_le _ _ _ _ _ HP).
  - apply (pi_w _ _ _ _ _ HP).
  - intros p Hne Hnp. apply (pi_non _ _ _ _ _ HP); [exact Hne|]. unfold peers in *. rewrite Hcn in Hnp. exact Hnp.
  - intros p Hne. rewrite delta_same, app_nil_r by apply Hcur. apply (pi_disp _ _ _ _ _ HP), Hne.
Qed.

Lemma pos_detect w W D s pos p s' :
  Phase w s -> PosI w W D s pos -> vstep s (VDetect p) = Some s' ->
  PosI w W (fun q => D q ++ delta q s s') s' pos.
Proof.
  intros [HD HC] HP Hstep. apply step_detect in Hstep as (_ & Hcn & Hl & _ & Hp & Hq).
  assert (Hcur : forall q, pcur s' q = pcur s q).
  { intros q. unfold pcur. destruct (decide (q = p)) as [->|Hne]; [rewrite Hp; apply detect'_cur|rewrite Hq by exact Hne; reflexivity]. }
  assert (Hlk : forall a b, link s' a b = link s a b) by (intros; unfold link; rewrite Hl; reflexivity).
  assert (Hout : forall q, q <> w -> poutq s' q = poutq s q).
  { intros q Hne. unfold poutq. destruct (decide (q = p)) as [->|Hqp]; [|rewrite Hq by exact Hqp; reflexivity].
    rewrite Hp. destruct (disc_idle _ _ HD p Hne) as [Hd _]. apply (detect'_clean _ Hd). }
  assert (Hw : poutq s' w = poutq s w \/ exists v, poutq s' w = poutq s w ++ [v] /\ at_ W (length W) = Some v).
  { destruct (decide (w = p)) as [->|Hne]; [|left; unfold poutq; rewrite Hq by exact Hne; reflexivity].
    unfold poutq. rewrite Hp. destruct (pdirty s p) eqn:Hd.
    - right. destruct (conv_n _ _ HC Hd) as [v Hv]. exists v.
      destruct (detect'_dirty _ Hd (disc_token _ _ HD)) as [_ Ho]. fold (pcur s p) in Ho. rewrite Hv in Ho.
      split; [exact Ho|]. rewrite <- (pi_w _ _ _ _ _ HP), <- (pi_cur _ _ _ _ _ HP). exact Hv.
    - left. apply (detect'_clean _ Hd). }
  apply pos_transfer; try assumption.
  - intros -> c Hc. rewrite Hlk. destruct Hw as [->|(v & -> & Hv)]; [apply (pi_h _ _ _ _ _ HP); auto|].
    rewrite app_assoc. apply chain_snoc; [apply (pi_h _ _ _ _ _ HP); auto|exact Hv].
  - intros Hwh. rewrite Hlk. destruct Hw as [->|(v & -> & Hv)]; [apply (pi_k1 _ _ _ _ _ HP); auto|].
    rewrite app_assoc. apply chain_snoc; [apply (pi_k1 _ _ _ _ _ HP); auto|exact Hv].
  - intros Hwh c Hc Hcw. rewrite Hlk. apply (pi_k2 _ _ _ _ _ HP); auto.
Qed.

Lemma pos_send w W D s pos p s' :
  vwf s -> Phase w s -> PosI w W D s pos -> vstep s (VSend p) = Some s' ->
  PosI w W (fun q => D q ++ delta q s s') s' pos.
Proof.
  intros Hwf [HD HC] HP Hstep.
  apply step_send in Hstep as (_ & Hcn & _ & Hp & Hq & Hl); [|apply wf_nodup, Hwf].
  assert (Hcur : forall q, pcur s' q = pcur s q).
  { intros q. unfold pcur. destruct (decide (q = p)) as [->|Hne]; [rewrite Hp; reflexivity|rewrite Hq by exact Hne; reflexivity]. }
  assert (Hop : poutq s' p = []) by (unfold poutq; rewrite Hp; reflexivity).
  destruct (decide (p = w)) as [->|Hpw].
  - apply pos_transfer; try assumption.
    + intros -> c Hc. rewrite Hop, app_nil_r, Hl.
      destruct (decide (host = host /\ c ∈ dsts_of s host)) as [_|Hn]; [|exfalso; apply Hn; auto].
      apply (pi_h _ _ _ _ _ HP); auto.
    + intros Hwh. rewrite Hop, app_nil_r, Hl.
      destruct (decide (w = w /\ host ∈ dsts_of s w)) as [_|Hn]; [apply (pi_k1 _ _ _ _ _ HP); auto|].
      exfalso. apply Hn. split; [reflexivity|]. unfold dsts_of.
      destruct (w =? host)%N eqn:E; [apply N.eqb_eq in E; contradiction|]. apply elem_of_list_singleton. reflexivity.
    + intros Hwh c Hc Hcw. rewrite Hl. destruct (decide (host = w /\ _)) as [[E _]|_]; [congruence|].
      apply (pi_k2 _ _ _ _ _ HP); auto.
  - destruct (disc_idle _ _ HD p Hpw) as [_ Ho].
    assert (Hlk : forall a b, link s' a b = link s a b).
    { intros a b. rewrite Hl, Ho, app_nil_r. destruct (decide _); reflexivity. }
    assert (Hout : forall q, poutq s' q = poutq s q).
    { intros q. destruct (decide (q = p)) as [->|Hne]; [rewrite Hop, Ho; reflexivity|]. unfold poutq. rewrite Hq by exact Hne. reflexivity. }
    apply pos_transfer; try assumption.
    + intros Hwh c Hc. rewrite Hlk, Hout. apply (pi_h _ _ _ _ _ HP); auto.
    + intros Hwh. rewrite Hlk, Hout. apply (pi_k1 _ _ _ _ _ HP); auto.
    + intros Hwh c Hc Hcw. rewrite Hlk. apply (pi_k2 _ _ _ _ _ HP); auto.
Qed.

Lemma chain_snapshot W s lo hi :
  (lo <= hi)%nat -> pcur s host = at_ W hi -> chain W lo (snapshot s) hi.
Proof.
  intros Hle Hh. unfold snapshot. destruct (pcur s host) as [v|] eqn:Hv.
  - eapply chain_cons; [exact Hle|symmetry; exact Hh|apply chain_nil; lia].
  - apply chain_nil. exact Hle.
Qed.

Lemma pos_join0 w W D s pos c s' :
  vwf s -> PosI w W D s pos -> (w = host -> poutq s host = []) -> vjoin0 s c = Some s' ->
  PosI w W (fun q => D q ++ delta q s s') s' pos.
Proof.
  intros Hwf HP Hclean Hstep. pose proof Hstep as Hstep0.
  apply step_join0 in Hstep as (Hch & Hcn & Hnone & Hcn' & _ & Hq & Hl).
  assert (Hcur : forall q, pcur s' q = pcur s q) by (intros; unfold pcur; rewrite Hq; reflexivity).
  assert (Hout : forall q, poutq s' q = poutq s q) by (intros; unfold poutq; rewrite Hq; reflexivity).
  assert (Hl0 : link s host c = []) by (apply wf_link_nil; [exact Hwf|apply wf_host, Hwf|exact Hcn]).
  assert (Hnp : ~ peers s c) by (intros [?|?]; contradiction).
  split.
  - intros p. rewrite Hcur. apply (pi_cur _ _ _ _ _ HP).
  - apply (pi_le _ _ _ _ _ HP).
  - apply (pi_w _ _ _ _ _ HP).
  - intros p Hne Hn. apply (pi_non _ _ _ _ _ HP); [exact Hne|]. intros Hp. apply Hn.
    destruct Hp as [->|Hp]; [left; reflexivity|right; rewrite Hcn'; apply elem_of_app; left; exact Hp].
  - intros p Hne. rewrite delta_same, app_nil_r by apply Hcur. apply (pi_disp _ _ _ _ _ HP), Hne.
  - intros Hwh c' Hc'. rewrite Hcn' in Hc'. rewrite Hl, Hout.
    destruct (decide ((host, c') = (host, c))) as [Heq|Hne].
    + inversion Heq; subst c'. rewrite Hl0, (Hclean Hwh), app_nil_r. simpl.
      assert (Hpc : pos c = O) by (apply (pi_non _ _ _ _ _ HP); [congruence|exact Hnp]).
      rewrite Hpc. apply chain_snapshot; [lia|]. rewrite (pi_cur _ _ _ _ _ HP), <- Hwh, (pi_w _ _ _ _ _ HP). reflexivity.
    + apply (pi_h _ _ _ _ _ HP); auto. apply elem_of_app in Hc' as [H|H]; [exact H|]. apply elem_of_list_singleton in H. congruence.
  - intros Hwh. rewrite Hl, Hout. destruct (decide ((w, host) = (host, c))) as [Heq|_]; [inversion Heq; congruence|].
    apply (pi_k1 _ _ _ _ _ HP); auto.
  - intros Hwh c' Hc' Hcw. rewrite Hcn' in Hc'. rewrite Hl.
    destruct (decide ((host, c') = (host, c))) as [Heq|Hne].
    + inversion Heq; subst c'. rewrite Hl0. simpl.
      assert (Hpc : pos c = O) by (apply (pi_non _ _ _ _ _ HP); [exact Hcw|exact Hnp]).
      rewrite Hpc. apply chain_snapshot; [lia|]. apply (pi_cur _ _ _ _ _ HP).
    + apply (pi_k2 _ _ _ _ _ HP); auto. apply elem_of_app in Hc' as [H|H]; [exact H|]. apply elem_of_list_singleton in H. congruence.
Qed.

(* the join of the repaired code: the host's queue is flushed first ([VSend host]), so the snapshot can no
   longer overtake a queued announcement: no premise on the host's queue is needed any more *)
Lemma pos_join w W D s pos c s' :
  vwf s -> Phase w s -> PosI w W D s pos -> vstep s (VJoin c) = Some s' ->
  PosI w W (fun q => D q ++ delta q s s') s' pos.
Proof.
  intros Hwf Hph HP Hstep.
  pose proof (vstep_split _ _ _ Hwf Hstep) as [H1 H2]. cbn [vstep0] in H1, H2.
  pose proof (pos_send w W D s pos host _ Hwf Hph HP H1) as HP0.
  pose proof (pos_join0 w W _ _ pos c s' (vflush_host_wf s Hwf) HP0 (fun _ => vflush_host_outq s) H2) as HP1.
  eapply PosI_ext; [|exact HP1]. intros p. cbv beta.
  assert (Hd : forall a b, delta p a b = if bool_decide (pcur b p = pcur a p) then []
                                         else match pcur b p with Some v => [v] | None => [] end) by reflexivity.
  rewrite !Hd, !vflush_host_cur. rewrite (bool_decide_eq_true_2 (pcur s p = pcur s p) eq_refl), app_nil_r. reflexivity.
Qed.

Lemma disp_deliver W D i j v old :
  D `sublist_of` take i W -> (i <= j)%nat -> at_ W j = Some v -> old = at_ W i ->
  D ++ (if bool_decide (Some v = old) then [] else [v]) `sublist_of` take j W.
Proof.
  intros HD Hle Hj Hold. destruct (bool_decide (Some v = old)) eqn:Hb.
  - rewrite app_nil_r. etransitivity; [exact HD|]. apply sublist_take_le. exact Hle.
  - apply bool_decide_eq_false in Hb. eapply disp_extend; eauto. congruence.
Qed.

Lemma pos_deliver w W D s pos src dst s' :
  vwf s -> Phase w s -> PosI w W D s pos -> vstep s (VDeliver src dst) = Some s' ->
  exists pos', PosI w W (fun q => D q ++ delta q s s') s' pos'.
Proof.
  intros Hwf [HD HC] HP Hstep.
  apply step_deliver in Hstep as (v & rest & Hl0 & _ & Hcn & _ & Hq & Hcase); [|apply wf_nodup, Hwf].
  assert (Hne0 : link s src dst <> []) by (rewrite Hl0; discriminate).
  destruct (deliver_shape w s src dst Hwf HD Hne0) as [Hdw Hshape].
  assert (Hout : forall q, poutq s' q = poutq s q).
  { intros q. unfold poutq. destruct (decide (q = dst)) as [->|Hne]; [|rewrite Hq by exact Hne; reflexivity].
    destruct Hcase as [(_ & Hp & _)|(_ & Hp & _)]; rewrite Hp; reflexivity. }
  assert (Hcur : forall q, q <> dst -> pcur s' q = pcur s q).
  { intros q Hne. unfold pcur. rewrite Hq by exact Hne. reflexivity. }
  assert (Hcd : pcur s' dst = Some v).
  { unfold pcur. destruct Hcase as [(Hc & Hp & _)|(_ & Hp & _)]; rewrite Hp; [exact Hc|reflexivity]. }
  assert (Hpeers : forall p, peers s' p <-> peers s p) by (intros p; unfold peers; rewrite Hcn; reflexivity).
  assert (Hdp : peers s dst).
  { destruct Hshape as [(_ & _ & Hin)|[(_ & _ & ->)|(_ & _ & Hin)]]; [right; exact Hin|left; reflexivity|right; exact Hin]. }
  (* common part, given the position j of the delivered value *)
  assert (Hcommon : forall j, (pos dst <= j)%nat -> (j <= length W)%nat -> at_ W j = Some v ->
            (forall p, pcur s' p = at_ W (upd pos dst j p)) /\
            (forall p, (upd pos dst j p <= length W)%nat) /\
            upd pos dst j w = length W /\
            (forall p, p <> w -> ~ peers s' p -> upd pos dst j p = O) /\
            (forall p, p <> w -> D p ++ delta p s s' `sublist_of` take (upd pos dst j p) W)).
  { intros j Hlo Hhi Hj. split; [|split; [|split; [|split]]].
    - intros p. destruct (decide (p = dst)) as [->|Hne]; [rewrite upd_eq, Hcd, Hj; reflexivity|].
      rewrite upd_ne, Hcur by exact Hne. apply (pi_cur _ _ _ _ _ HP).
    - intros p. unfold upd. destruct (decide (p = dst)); [exact Hhi|apply (pi_le _ _ _ _ _ HP)].
    - rewrite upd_ne by congruence. apply (pi_w _ _ _ _ _ HP).
    - intros p Hne Hnp. destruct (decide (p = dst)) as [->|Hpd]; [exfalso; apply Hnp, Hpeers, Hdp|].
      rewrite upd_ne by exact Hpd. apply (pi_non _ _ _ _ _ HP); [exact Hne|]. intros Hp. apply Hnp, Hpeers, Hp.
    - intros p Hne. destruct (decide (p = dst)) as [->|Hpd].
      + rewrite upd_eq. unfold delta. rewrite Hcd.
        apply (disp_deliver W (D dst) (pos dst) j v (pcur s dst)); auto.
        * apply (pi_disp _ _ _ _ _ HP), Hne. * apply (pi_cur _ _ _ _ _ HP).
      + rewrite upd_ne, delta_same, app_nil_r by auto. apply (pi_disp _ _ _ _ _ HP), Hne. }
  destruct Hshape as [(-> & -> & Hin)|[(Hwh & -> & ->)|(Hwh & -> & Hin)]].
  - (* writer = host, host -> client dst *)
    assert (Hdh : dst <> host) by exact Hdw.
    assert (Hlk : forall a b, link s' a b = if decide ((a, b) = (host, dst)) then rest else link s a b).
    { intros a b. destruct Hcase as [(_ & _ & Hl)|(_ & _ & Hl)]; rewrite Hl; [reflexivity|].
      destruct (decide (dst = host /\ _)) as [[E _]|_]; [contradiction|]. apply app_nil_r. }
    pose proof (pi_h _ _ _ _ _ HP eq_refl dst Hin) as Hch. rewrite Hl0, <- app_comm_cons in Hch.
    apply chain_head in Hch as (j & Hlo & Hj & Hch).
    destruct (Hcommon j Hlo (chain_le _ _ _ _ Hch) Hj) as (C1 & C2 & C3 & C4 & C5).
    exists (upd pos dst j). split; rewrite ?Hcn; try assumption; try (intros; exfalso; congruence).
    intros _ c Hc. rewrite Hlk, Hout. destruct (decide ((host, c) = (host, dst))) as [Heq|Hne].
    + inversion Heq; subst c. rewrite upd_eq. exact Hch.
    + rewrite upd_ne by congruence. apply (pi_h _ _ _ _ _ HP); auto.
  - (* writer = client w, w -> host *)
    pose proof (pi_k1 _ _ _ _ _ HP Hwh) as Hch. rewrite Hl0, <- app_comm_cons in Hch.
    apply chain_head in Hch as (j & Hlo & Hj & Hch).
    destruct (Hcommon j Hlo (chain_le _ _ _ _ Hch) Hj) as (C1 & C2 & C3 & C4 & C5).
    exists (upd pos host j). split; rewrite ?Hcn; try assumption; try (intros; exfalso; congruence).
    + intros _. rewrite upd_eq, Hout.
      assert (Hlw : link s' w host = rest).
      { destruct Hcase as [(_ & _ & Hl)|(_ & _ & Hl)]; rewrite Hl;
          (destruct (decide ((w, host) = (w, host))) as [_|Hn]; [|congruence]); [reflexivity|].
        destruct (decide (host = host /\ w = host /\ _)) as [(_ & E & _)|_]; [congruence|]. apply app_nil_r. }
      rewrite Hlw. exact Hch.
    + intros _ c Hc Hcw. assert (Hch0 : c <> host) by (intros ->; apply (wf_host s Hwf Hc)).
      rewrite upd_eq, upd_ne by exact Hch0.
      pose proof (chain_hi _ _ _ _ j Hlo (pi_k2 _ _ _ _ _ HP Hwh c Hc Hcw)) as H2.
      destruct Hcase as [(_ & _ & Hl)|(_ & _ & Hl)]; rewrite Hl;
        (destruct (decide ((host, c) = (w, host))) as [Heq|_]; [inversion Heq; congruence|]); [exact H2|].
      destruct (decide (host = host /\ host = host /\ c ∈ others w (vconn s))) as [_|Hn].
      * apply chain_snoc; assumption.
      * rewrite app_nil_r. exact H2.
  - (* writer = client w, host -> another client dst *)
    assert (Hdh : dst <> host) by (intros ->; apply (wf_host s Hwf Hin)).
    assert (Hlk : forall a b, link s' a b = if decide ((a, b) = (host, dst)) then rest else link s a b).
    { intros a b. destruct Hcase as [(_ & _ & Hl)|(_ & _ & Hl)]; rewrite Hl; [reflexivity|].
      destruct (decide (dst = host /\ _)) as [[E _]|_]; [contradiction|]. apply app_nil_r. }
    pose proof (pi_k2 _ _ _ _ _ HP Hwh dst Hin Hdw) as Hch. rewrite Hl0 in Hch.
    apply chain_head in Hch as (j & Hlo & Hj & Hch).
    assert (Hjh : (j <= length W)%nat) by (pose proof (chain_le _ _ _ _ Hch); pose proof (pi_le _ _ _ _ _ HP host); lia).
    destruct (Hcommon j Hlo Hjh Hj) as (C1 & C2 & C3 & C4 & C5).
    exists (upd pos dst j). split; rewrite ?Hcn; try assumption; try (intros; exfalso; congruence).
    + intros _. rewrite Hlk, Hout, upd_ne by congruence.
      destruct (decide ((w, host) = (host, dst))) as [Heq|_]; [inversion Heq; congruence|].
      apply (pi_k1 _ _ _ _ _ HP Hwh).
    + intros _ c Hc Hcw. rewrite Hlk, (upd_ne _ _ _ host) by congruence.
      destruct (decide ((host, c) = (host, dst))) as [Heq|Hne].
      * inversion Heq; subst c. rewrite upd_eq. exact Hch.
      * rewrite upd_ne by congruence. apply (pi_k2 _ _ _ _ _ HP); auto.
Qed.

Definition PosInv (w : peer) (W : list value) (D : peer -> list value) (s : vstate) : Prop :=
  exists pos, PosI w W D s pos.

Lemma only_writer_cons w e tr : only_writer w (e :: tr) -> writes_by w e /\ only_writer w tr.
Proof.
  unfold only_writer. destruct e; simpl; try (intros H; split; [exact I|exact H]).
  intros H. apply Forall_cons in H. exact H.
Qed.

Lemma C10_general w tr : forall W D s s',
  vwf s -> Phase w s -> PosInv w W D s -> only_writer w tr ->
  vrun s tr = Some s' ->
  vwf s' /\ Phase w s' /\ PosInv w (W ++ written tr) (fun p => D p ++ displayed p s tr) s'.
Proof.
  induction tr as [|e tr IH]; intros W D s s' Hwf Hph [pos HP] How Hrun.
  - simpl in Hrun. inversion Hrun; subst. split; [exact Hwf|]. split; [exact Hph|].
    exists pos. cbn [written omap displayed]. rewrite app_nil_r.
    eapply PosI_ext; [|exact HP]. intros p. apply app_nil_r.
  - cbn [vrun] in Hrun. destruct (vstep s e) as [s1|] eqn:Hstep; [|discriminate].
    apply only_writer_cons in How as [Hwe How].
    pose proof (step_wf _ _ _ Hwf Hstep) as Hwf1.
    pose proof (phase_step _ _ _ _ Hwf Hph Hwe Hstep) as Hph1.
    assert (Hstep1 : exists W1, W ++ written (e :: tr) = W1 ++ written tr /\
                                PosInv w W1 (fun p => D p ++ delta p s s1) s1).
    { destruct e as [p v|p|p|src dst|c].
      - simpl in Hwe. subst p. exists (W ++ [v]). split.
        + change (written (VWrite w v :: tr)) with (v :: written tr). rewrite <- app_assoc. reflexivity.
        + eexists. eapply pos_write; eauto.
      - exists W. split; [reflexivity|]. exists pos. eapply pos_detect; eauto.
      - exists W. split; [reflexivity|]. exists pos. eapply pos_send; eauto.
      - exists W. split; [reflexivity|]. eapply pos_deliver; eauto.
      - exists W. split; [reflexivity|]. exists pos. eapply pos_join; eauto. }
    destruct Hstep1 as (W1 & HW & HP1).
    destruct (IH W1 _ s1 s' Hwf1 Hph1 HP1 How Hrun) as (Hwf' & Hph' & [pos' HP']).
    split; [exact Hwf'|]. split; [exact Hph'|]. exists pos'. rewrite HW.
    eapply PosI_ext; [|exact HP']. intros p. cbn [displayed]. rewrite Hstep. fold (delta p s s1). apply app_assoc.
Qed.

Lemma phase_init w n : Phase w (vinit n).
Proof.
  split; [apply quiescent_disc, vinit_quiescent|].
  assert (Hc : forall p, pcur (vinit n) p = None) by (intros; unfold pcur; rewrite vinit_getp; reflexivity).
  assert (Ho : forall p, poutq (vinit n) p = []) by (intros; unfold poutq; rewrite vinit_getp; reflexivity).
  assert (Hd : forall p, pdirty (vinit n) p = false) by (intros; unfold pdirty; rewrite vinit_getp; reflexivity).
  split; intros; rewrite ?vinit_link, ?Ho, ?Hc; try reflexivity. rewrite Hd in *. discriminate.
Qed.

Lemma posinv_init w n : PosInv w [] (fun _ => []) (vinit n).
Proof.
  assert (Ho : forall p, poutq (vinit n) p = []) by (intros; unfold poutq; rewrite vinit_getp; reflexivity).
  exists (fun _ => O). split; intros; rewrite ?vinit_link, ?Ho; simpl; try reflexivity; try (apply chain_nil; lia).
  unfold pcur. rewrite vinit_getp. reflexivity.
Qed.

Lemma only_writer_app w tr1 tr2 : only_writer w (tr1 ++ tr2) -> only_writer w tr1.
Proof.
  unfold only_writer, writers. rewrite omap_app. intros H. apply Forall_app in H. apply H.
Qed.
Lemma joins_clean_prefix s tr1 tr2 : joins_clean s (tr1 ++ tr2) = true -> joins_clean s tr1 = true.
Proof.
  revert s. induction tr1 as [|e tr1 IH]; intros s H; [reflexivity|].
  cbn [app joins_clean] in *. destruct (vstep s e) as [s1|]; [|reflexivity].
  destruct e; try (eapply IH; exact H).
  apply andb_prop in H as [H1 H2]. rewrite H1. simpl. eapply IH; exact H2.
Qed.
Lemma written_app tr1 tr2 : written (tr1 ++ tr2) = written tr1 ++ written tr2.
Proof. apply omap_app. Qed.

(* C10, order and provenance.  [displayed p (vinit n) tr] lists the CHANGES of p's value; being a
   sublist of [written tr] means: there is a strictly increasing map from the displayed changes to
   positions in [written tr] (see [sublist_positions]): no invented value, an older write never
   reappears after a newer one was shown, coalesced writes are simply skipped.  Holds for clients
   reached through the host's relay as well, and -- since the repair of S21 (8f66353: the host's queue
   is sent before the snapshot is built) -- for a host writer with joins at ANY moment. *)
Theorem C10_single_writer_any_join n w tr s' :
  vrun (vinit n) tr = Some s' -> only_writer w tr ->
  (forall p v, pcur s' p = Some v -> v ∈ written tr) /\
  (forall p, p <> w -> displayed p (vinit n) tr `sublist_of` written tr).
Proof.
  intros Hrun How.
  destruct (C10_general w tr [] (fun _ => []) (vinit n) s' (vinit_wf n) (phase_init w n) (posinv_init w n) How Hrun)
    as (_ & _ & pos & HP).
  simpl in HP. split.
  - intros p v Hv. rewrite (pi_cur _ _ _ _ _ HP) in Hv. eapply at_elem; eauto.
  - intros p Hne. etransitivity; [apply (pi_disp _ _ _ _ _ HP p Hne)|]. apply sublist_take.
Qed.
Print Assumptions C10_single_writer_any_join.

(* the statement of before the repair (joins had to happen while the host's queue was empty, [joins_clean]):
   now a corollary, the premise is not used *)
Theorem C10_single_writer n w tr s' :
  vrun (vinit n) tr = Some s' -> only_writer w tr ->
  (w = host -> joins_clean (vinit n) tr = true) ->
  (forall p v, pcur s' p = Some v -> v ∈ written tr) /\
  (forall p, p <> w -> displayed p (vinit n) tr `sublist_of` written tr).
Proof. intros Hrun How _. exact (C10_single_writer_any_join n w tr s' Hrun How). Qed.
Print Assumptions C10_single_writer.

Corollary C10_client_writer n w tr s' :
  vrun (vinit n) tr = Some s' -> only_writer w tr -> w <> host ->
  (forall p v, pcur s' p = Some v -> v ∈ written tr) /\
  (forall p, p <> w -> displayed p (vinit n) tr `sublist_of` written tr).
Proof. intros Hrun How _. eapply C10_single_writer_any_join; eauto. Qed.

(* ... at every prefix: what p shows at any moment was written BEFORE that moment *)
Corollary C10_every_prefix_any_join n w tr1 tr2 s1 :
  only_writer w (tr1 ++ tr2) ->
  vrun (vinit n) tr1 = Some s1 ->
  (forall p v, pcur s1 p = Some v -> v ∈ written tr1) /\
  (forall p, p <> w -> displayed p (vinit n) tr1 `sublist_of` written tr1).
Proof.
  intros How Hrun. eapply C10_single_writer_any_join; eauto. eapply only_writer_app; eauto.
Qed.
Print Assumptions C10_every_prefix_any_join.

Corollary C10_every_prefix n w tr1 tr2 s1 :
  only_writer w (tr1 ++ tr2) -> (w = host -> joins_clean (vinit n) (tr1 ++ tr2) = true) ->
  vrun (vinit n) tr1 = Some s1 ->
  (forall p v, pcur s1 p = Some v -> v ∈ written tr1) /\
  (forall p, p <> w -> displayed p (vinit n) tr1 `sublist_of` written tr1).
Proof. intros How _ Hrun. exact (C10_every_prefix_any_join n w tr1 tr2 s1 How Hrun). Qed.
Print Assumptions C10_every_prefix.

(* the monotone map behind "sublist" *)
Lemma sublist_positions (l1 l2 : list value) :
  l1 `sublist_of` l2 ->
  exists js : list nat, length js = length l1 /\
    (forall i j v, js !! i = Some j -> l1 !! i = Some v -> l2 !! j = Some v) /\
    (forall i i' j j', (i < i')%nat -> js !! i = Some j -> js !! i' = Some j' -> (j < j')%nat).
Proof.
  induction 1 as [|x l1 l2 Hs (js & Hlen & Hval & Hmono)|x l1 l2 Hs (js & Hlen & Hval & Hmono)].
  - exists []. split; [reflexivity|]. split; intros; rewrite lookup_nil in *; discriminate.
  - exists (O :: (S <$> js)). split; [simpl; rewrite fmap_length, Hlen; reflexivity|]. split.
    + intros [|i] j v Hj Hv; simpl in *.
      * inversion Hj; subst. exact Hv.
      * rewrite list_lookup_fmap in Hj. destruct (js !! i) as [j0|] eqn:E; [|discriminate].
        simpl in Hj. inversion Hj; subst. simpl. eapply Hval; eauto.
    + intros i i' j j' Hlt Hj Hj'. destruct i' as [|i']; [lia|]. simpl in Hj'.
      rewrite list_lookup_fmap in Hj'. destruct (js !! i') as [j0'|] eqn:E'; [|discriminate].
      simpl in Hj'. inversion Hj'; subst. destruct i as [|i]; simpl in Hj.
      * inversion Hj; subst. lia.
      * rewrite list_lookup_fmap in Hj. destruct (js !! i) as [j0|] eqn:E; [|discriminate].
        simpl in Hj. inversion Hj; subst. assert (j0 < j0')%nat by (eapply Hmono; [|exact E|exact E']; lia). lia.
  - exists (S <$> js). split; [rewrite fmap_length; exact Hlen|]. split.
    + intros i j v Hj Hv. rewrite list_lookup_fmap in Hj. destruct (js !! i) as [j0|] eqn:E; [|discriminate].
      simpl in Hj. inversion Hj; subst. simpl. eapply Hval; eauto.
    + intros i i' j j' Hlt Hj Hj'. rewrite list_lookup_fmap in Hj, Hj'.
      destruct (js !! i) as [j0|] eqn:E; [|discriminate]. destruct (js !! i') as [j0'|] eqn:E'; [|discriminate].
      simpl in *. inversion Hj; inversion Hj'; subst. assert (j0 < j0')%nat by (eapply Hmono; eauto). lia.
Qed.

Lemma phase_run w tr : forall s s',
  vwf s -> Phase w s -> only_writer w tr -> vrun s tr = Some s' ->
  vwf s' /\ Phase w s' /\ pcur s' w = lastd (pcur s w) (written tr).
Proof.
  induction tr as [|e tr IH]; intros s s' Hwf Hph How Hrun.
  - simpl in Hrun. inversion Hrun; subst. auto.
  - cbn [vrun] in Hrun. destruct (vstep s e) as [s1|] eqn:Hstep; [|discriminate].
    apply only_writer_cons in How as [Hwe How].
    pose proof (step_wf _ _ _ Hwf Hstep) as Hwf1.
    pose proof (phase_step _ _ _ _ Hwf Hph Hwe Hstep) as Hph1.
    destruct (IH s1 s' Hwf1 Hph1 How Hrun) as (Hwf' & Hph' & Hc).
    split; [exact Hwf'|]. split; [exact Hph'|]. rewrite Hc.
    destruct e as [p v|p|p|src dst|c].
    + simpl in Hwe. subst p. change (written (VWrite w v :: tr)) with (v :: written tr). rewrite lastd_cons.
      apply step_write in Hstep as (_ & _ & _ & _ & Hp & _). unfold pcur at 1. rewrite Hp. reflexivity.
    + change (written (VDetect p :: tr)) with (written tr). f_equal.
      eapply phase_cur_w; [exact Hwf|exact (proj1 Hph)| |exact Hstep]; exact I.
    + change (written (VSend p :: tr)) with (written tr). f_equal.
      eapply phase_cur_w; [exact Hwf|exact (proj1 Hph)| |exact Hstep]; exact I.
    + change (written (VDeliver src dst :: tr)) with (written tr). f_equal.
      eapply phase_cur_w; [exact Hwf|exact (proj1 Hph)| |exact Hstep]; exact I.
    + change (written (VJoin c :: tr)) with (written tr). f_equal.
      eapply phase_cur_w; [exact Hwf|exact (proj1 Hph)| |exact Hstep]; exact I.
Qed.

(* C10, liveness half: once everything has drained, every peer shows the writer's last value.
   No restriction on joins, the writer may itself be a late joiner, any n, any interleaving. *)
Theorem C10_ends_with_last n w tr s' :
  vrun (vinit n) tr = Some s' -> only_writer w tr -> vquiescent s' ->
  forall p, peers s' p -> pcur s' p = last (written tr).
Proof.
  intros Hrun How Hq p Hp.
  destruct (phase_run w tr (vinit n) s' (vinit_wf n) (phase_init w n) How Hrun) as (_ & Hph & Hc).
  rewrite (phase_quiescent_agree w s' Hq Hph p Hp), Hc. unfold pcur. rewrite vinit_getp. apply lastd_None_last.
Qed.
Print Assumptions C10_ends_with_last.

(* "the host relays only if the value differs from its own" loses nothing: at all times the last
   value in a client's pipeline (or its current value if the pipeline is empty) is the host's value *)
Theorem relay_loses_nothing n w tr s' :
  vrun (vinit n) tr = Some s' -> only_writer w tr -> w <> host ->
  forall c, c ∈ vconn s' -> c <> w -> lastd (pcur s' c) (link s' host c) = pcur s' host.
Proof.
  intros Hrun How Hwh c Hc Hcw.
  destruct (phase_run w tr (vinit n) s' (vinit_wf n) (phase_init w n) How Hrun) as (_ & [_ HC] & _).
  apply (conv_k2 _ _ HC); assumption.
Qed.

(* the writer never gets its own updates back, and nobody else ever announces anything *)
Theorem single_writer_discipline n w tr s' :
  vrun (vinit n) tr = Some s' -> only_writer w tr ->
  ptoken s' w = false /\ (forall c, link s' c w = []) /\
  (forall p, p <> w -> pdirty s' p = false /\ poutq s' p = []) /\
  (forall c, c <> w -> link s' c host = []).
Proof.
  intros Hrun How.
  destruct (phase_run w tr (vinit n) s' (vinit_wf n) (phase_init w n) How Hrun) as (_ & [HD _] & _).
  destruct HD; auto.
Qed.

(* non-vacuity: the burst example is a single-writer trace; a, b, a with a coalesced write *)
Example C10_nonvacuous :
  only_writer 1 ex_burst /\ displayed 2 (vinit 2) ex_burst = [10; 20; 30] /\ written ex_burst = [10; 20; 30] /\
  (fun s => view s [0; 1; 2]) <$> vrun (vinit 2) ex_burst = Some ([Some 30; Some 30; Some 30], true).
Proof. split; [|vm_compute; auto]. unfold only_writer. vm_compute. repeat constructor. Qed.

Definition ex_aba : list vevent :=
  [VWrite 1 10; VDetect 1; VSend 1; VDeliver 1 0; VDeliver 0 2;
   VWrite 1 20; VWrite 1 10; VDetect 1; VSend 1; VDeliver 1 0;     (* 20 is coalesced away; host already shows 10: no relay *)
   VWrite 1 20; VDetect 1; VSend 1; VWrite 1 10; VDetect 1; VSend 1;
   VDeliver 1 0; VDeliver 1 0; VDeliver 0 2; VDeliver 0 2; VDetect 0; VDetect 2].
Example C10_aba_example :
  written ex_aba = [10; 20; 10; 20; 10] /\ displayed 2 (vinit 2) ex_aba = [10; 20; 10] /\
  displayed 0 (vinit 2) ex_aba = [10; 20; 10] /\
  (fun s => view s [0; 1; 2]) <$> vrun (vinit 2) ex_aba = Some ([Some 10; Some 10; Some 10], true).
Proof. vm_compute. auto. Qed.

(* S21, repaired by 8f66353.  Before: REFUTED for a host writer with unrestricted joins: the host detects a
   (queued), writes b, a client joins and gets the snapshot b, THEN the queued a is broadcast: the new client
   showed b, a, (b) ([C10_host_join_refuted], deleted).  Now the join first sends the queued a to the clients
   connected so far; the joiner gets the snapshot b only.  The former witness trace (n = 0, joiner 1): its
   first six events still run, the joiner shows 20 only; the seventh event (delivery of the stale 10 to the
   joiner) has nothing to deliver any more. *)
Definition ex_host_join_old : list vevent :=
  [VWrite 0 10; VDetect 0; VWrite 0 20; VJoin 1; VSend 0; VDeliver 0 1; VDeliver 0 1;
   VDetect 0; VSend 0; VDeliver 0 1; VDetect 1].
Example C10_host_join_old_witness_fixed :
  only_writer 0 ex_host_join_old /\
  written ex_host_join_old = [10; 20] /\
  displayed 1 (vinit 0) ex_host_join_old = [20] /\
  displayed 1 (vinit 0) ex_host_join_old `sublist_of` written ex_host_join_old /\
  (fun s => (view s [0; 1], link s 0 1)) <$> vrun (vinit 0) (take 6 ex_host_join_old) = Some (([Some 20; Some 20], false), []) /\
  vrun (vinit 0) (take 7 ex_host_join_old) = None.
Proof.
  split; [unfold only_writer; vm_compute; repeat constructor|].
  split; [vm_compute; reflexivity|].
  assert (Hd : displayed 1 (vinit 0) ex_host_join_old = [20]) by (vm_compute; reflexivity).
  split; [exact Hd|]. split; [|vm_compute; auto].
  rewrite Hd. change (written ex_host_join_old) with [10; 20]. apply sublist_cons. reflexivity.
Qed.
(* the same scenario with a client connected before (n = 1, joiner 2), run to quiescence: the join is NOT
   [joins_clean]; it hands the queued 10 to client 1 and the snapshot 20 to the joiner; client 1 shows
   10, 20, the joiner 20; [C10_single_writer_any_join] applies *)
Definition ex_host_join : list vevent :=
  [VWrite 0 10; VDetect 0; VWrite 0 20; VJoin 2; VSend 0; VDeliver 0 2; VDeliver 0 1;
   VDetect 0; VSend 0; VDeliver 0 1; VDeliver 0 2; VDetect 1; VDetect 2].
Example C10_host_join_example :
  only_writer 0 ex_host_join /\ joins_clean (vinit 1) ex_host_join = false /\
  written ex_host_join = [10; 20] /\
  (fun s => (link s 0 1, link s 0 2, poutq s 0)) <$> vrun (vinit 1) (take 4 ex_host_join) = Some ([10], [20], []) /\
  displayed 1 (vinit 1) ex_host_join = [10; 20] /\ displayed 2 (vinit 1) ex_host_join = [20] /\
  (fun s => view s [0; 1; 2]) <$> vrun (vinit 1) ex_host_join = Some ([Some 20; Some 20; Some 20], true).
Proof. split; [unfold only_writer; vm_compute; repeat constructor|]. vm_compute. auto 10. Qed.

(* ================================================================================================
   Part 7: joins
   ================================================================================================ *)

Lemma peers_run s tr s' p : vrun s tr = Some s' -> peers s p -> peers s' p.
Proof.
  revert s. induction tr as [|e tr IH]; intros s Hrun Hp; simpl in Hrun.
  - inversion Hrun; subst. exact Hp.
  - destruct (vstep s e) as [s1|] eqn:Hs; [|discriminate]. eapply IH; [exact Hrun|]. eapply peers_step; eauto.
Qed.

Lemma joined_connected s tr1 c tr2 s' :
  vrun s (tr1 ++ VJoin c :: tr2) = Some s' -> c <> host /\ c ∈ vconn s'.
Proof.
  rewrite vrun_app. destruct (vrun s tr1) as [s1|]; [|discriminate]. cbn [vrun].
  destruct (vstep s1 (VJoin c)) as [s2|] eqn:Hj; [|discriminate]. intros Hrun.
  apply step_join in Hj as (Hch & _ & _ & Hcn & _). split; [exact Hch|].
  assert (Hp : peers s2 c) by (right; rewrite Hcn; apply elem_of_app; right; apply elem_of_list_singleton; reflexivity).
  destruct (peers_run _ _ _ _ Hrun Hp) as [?|?]; [contradiction|assumption].
Qed.

(* a client joining at ANY moment -- also while updates are in flight -- ends, at quiescence, with the
   host's value, which is the most recent write *)
Theorem join_gets_current_value n w tr1 c tr2 s' :
  let tr := tr1 ++ VJoin c :: tr2 in
  vrun (vinit n) tr = Some s' -> only_writer w tr -> vquiescent s' ->
  c ∈ vconn s' /\ pcur s' c = pcur s' host /\ pcur s' c = last (written tr).
Proof.
  intros tr Hrun How Hq. destruct (joined_connected _ _ _ _ _ Hrun) as [Hch Hc].
  split; [exact Hc|].
  rewrite (C10_ends_with_last n w tr s' Hrun How Hq c (or_intror Hc)).
  rewrite (C10_ends_with_last n w tr s' Hrun How Hq host (or_introl eq_refl)). auto.
Qed.
Print Assumptions join_gets_current_value.

Theorem join_gets_current_value_drain_separated n tr1 c tr2 s' :
  let tr := tr1 ++ VJoin c :: tr2 in
  vrun (vinit n) tr = Some s' -> drain_separated (vinit n) tr -> joiners_received (vinit n) tr -> vquiescent s' ->
  c ∈ vconn s' /\ pcur s' c = pcur s' host /\ pcur s' c = last (written tr).
Proof.
  intros tr Hrun Hds Hjs Hq. destruct (joined_connected _ _ _ _ _ Hrun) as [Hch Hc].
  split; [exact Hc|].
  rewrite (C02_values_converge n tr s' Hrun Hds Hjs Hq c (or_intror Hc)).
  rewrite (C02_values_converge n tr s' Hrun Hds Hjs Hq host (or_introl eq_refl)). auto.
Qed.
Print Assumptions join_gets_current_value_drain_separated.

Example join_nonvacuous :
  let tr := [VWrite 1 10; VDetect 1; VSend 1; VDeliver 1 0; VWrite 1 20; VDetect 1; VSend 1] ++ VJoin 3 ::
            [VDeliver 1 0; VDeliver 0 3; VDeliver 0 3; VDeliver 0 2; VDeliver 0 2; VDetect 0; VDetect 2; VDetect 3] in
  only_writer 1 tr /\ displayed 3 (vinit 2) tr = [10; 20] /\
  (fun s => view s [0; 1; 2; 3]) <$> vrun (vinit 2) tr = Some ([Some 20; Some 20; Some 20; Some 20], true).
Proof. split; [|vm_compute; auto]. unfold only_writer. vm_compute. repeat constructor. Qed.

(* ================================================================================================
   Part 8: traffic (C09)
   ================================================================================================ *)

(* from a quiescent state nothing but a VWrite or a VJoin changes anything *)
Theorem quiescent_is_stable s :
  vquiescent s ->
  (forall p s', vstep s (VDetect p) = Some s' -> s' = s) /\
  (forall p s', vstep s (VSend p) = Some s' -> s' = s) /\
  (forall a b, vstep s (VDeliver a b) = None).
Proof.
  intros Hq. split; [|split].
  - intros p s'. simpl. destruct (vp s !! p) as [x|] eqn:Hx; [|discriminate].
    destruct Hq as [_ Hq]. destruct (Hq p x Hx) as (_ & -> & ->). simpl. congruence.
  - intros p s'. simpl. destruct (vp s !! p) as [x|] eqn:Hx; [|discriminate].
    destruct Hq as [_ Hq]. destruct (Hq p x Hx) as (-> & _ & _). congruence.
  - intros a b. simpl. rewrite (quiescent_link s a b Hq). reflexivity.
Qed.
Print Assumptions quiescent_is_stable.

(* potential: the messages the writer's pending work can still cause *)
Definition phi (w : peer) (s : vstate) : nat :=
  let N := length (vconn s) in
  (if pdirty s w then N else 0)%nat + length (poutq s w) * N +
  (if decide (w = host) then 0 else length (link s w host) * (N - 1))%nat.

Definition plain (e : vevent) : Prop :=
  match e with VDetect _ | VSend _ | VDeliver _ _ => True | _ => False end.

Lemma detect'_outq_len x : (length (outq (detect' x)) <= length (outq x) + (if dirty x then 1 else 0))%nat.
Proof.
  unfold detect', vdetect. destruct (dirty x), (token x); simpl; try lia.
  rewrite app_length. destruct (cur x); simpl; lia.
Qed.
Lemma detect'_not_dirty x : dirty (detect' x) = true -> False.
Proof. unfold detect', vdetect. destruct (dirty x) eqn:Hd, (token x); simpl; congruence. Qed.

Lemma traffic_step w s e s' :
  vwf s -> Disc w s -> plain e -> vstep s e = Some s' ->
  vconn s' = vconn s /\ (sent_by s e + phi w s' <= phi w s)%nat.
Proof.
  intros Hwf HD Hpl Hstep. destruct e as [p v|p|p|src dst|c]; simpl in Hpl; try contradiction.
  - (* detect *)
    apply step_detect in Hstep as (_ & Hcn & Hl & _ & Hp & Hq). split; [exact Hcn|].
    unfold phi, link. rewrite Hcn, Hl. simpl sent_by.
    destruct (decide (p = w)) as [->|Hne].
    + unfold pdirty, poutq. rewrite Hp. pose proof (detect'_outq_len (getp s w)) as Hlen.
      destruct (dirty (detect' (getp s w))) eqn:Hd'; [exfalso; eapply detect'_not_dirty; eauto|].
      destruct (dirty (getp s w)); nia.
    + unfold pdirty, poutq. rewrite Hq by congruence. lia.
  - (* send *)
    pose proof Hstep as Hstep0.
    apply step_send in Hstep as (Hex & Hcn & _ & Hp & Hq & Hl); [|apply wf_nodup, Hwf]. split; [exact Hcn|].
    unfold phi. rewrite Hcn. simpl sent_by.
    destruct (decide (p = w)) as [->|Hne].
    + unfold pdirty at 1. unfold poutq at 2. rewrite Hp. simpl. fold (pdirty s w). rewrite Hl.
      destruct (decide (w = host)) as [->|Hwh].
      * change (host =? host)%N with true. cbv iota. destruct (pdirty s host); lia.
      * destruct (w =? host)%N eqn:E; [apply N.eqb_eq in E; contradiction|].
        destruct (decide (w = w /\ host ∈ dsts_of s w)) as [_|Hn].
        -- rewrite app_length.
           assert (Hin : w ∈ vconn s). { apply (wf_exists s w Hwf) in Hex as [?|?]; [contradiction|assumption]. }
           assert (length (vconn s) >= 1)%nat by (destruct (vconn s); [inversion Hin|simpl; lia]).
           destruct (pdirty s w); nia.
        -- exfalso. apply Hn. split; [reflexivity|]. unfold dsts_of. rewrite E. apply elem_of_list_singleton. reflexivity.
    + destruct (disc_idle _ _ HD p Hne) as [_ Ho]. rewrite Hl, Ho, app_nil_r. simpl.
      destruct (decide (w = p /\ _)) as [[E _]|_]; [congruence|].
      unfold pdirty, poutq. rewrite Hq by congruence. lia.
  - (* deliver *)
    apply step_deliver in Hstep as (v & rest & Hl0 & _ & Hcn & _ & Hq & Hcase); [|apply wf_nodup, Hwf].
    split; [exact Hcn|].
    assert (Hne0 : link s src dst <> []) by (rewrite Hl0; discriminate).
    destruct (deliver_shape w s src dst Hwf HD Hne0) as [Hdw Hshape].
    unfold phi. rewrite Hcn. unfold pdirty, poutq. rewrite Hq by congruence. fold (pdirty s w). fold (poutq s w).
    simpl sent_by. rewrite Hl0.
    destruct Hshape as [(-> & -> & Hin)|[(Hwh & -> & ->)|(Hwh & -> & Hin)]].
    + destruct (dst =? host)%N eqn:E; [apply N.eqb_eq in E; congruence|].
      destruct (decide (host = host)) as [_|?]; [|congruence]. destruct (bool_decide _); lia.
    + destruct (decide (w = host)) as [?|_]; [contradiction|].
      assert (Hwin : w ∈ vconn s).
      { destruct (wf_link s w host Hwf Hne0) as [[? _]|[_ ?]]; [contradiction|assumption]. }
      assert (Hoth : (length (others w (vconn s)) < length (vconn s))%nat).
      { unfold others. eapply filter_length_lt; [exact Hwin|]. intros H. apply H. reflexivity. }
      change (host =? host)%N with true. cbv iota.
      assert (Hlw : length (link s' w host) = length rest).
      { destruct Hcase as [(_ & _ & Hl)|(_ & _ & Hl)]; rewrite Hl;
          (destruct (decide ((w, host) = (w, host))) as [_|Hn]; [|congruence]); [reflexivity|].
        destruct (decide (host = host /\ w = host /\ _)) as [(_ & E & _)|_]; [congruence|]. rewrite app_nil_r. reflexivity. }
      rewrite Hlw, Hl0. simpl length. destruct (bool_decide _); nia.
    + assert (Hdh : dst <> host) by (intros ->; apply (wf_host s Hwf Hin)).
      destruct (dst =? host)%N eqn:E; [apply N.eqb_eq in E; congruence|].
      destruct (decide (w = host)) as [?|_]; [contradiction|].
      assert (Hlw : link s' w host = link s w host).
      { destruct Hcase as [(_ & _ & Hl)|(_ & _ & Hl)]; rewrite Hl;
          (destruct (decide ((w, host) = (host, dst))) as [Heq|_]; [inversion Heq; congruence|]); [reflexivity|].
        destruct (decide (dst = host /\ _)) as [[? _]|_]; [contradiction|]. apply app_nil_r. }
      rewrite Hlw. destruct (bool_decide _); lia.
Qed.

Definition tr_ok (w : peer) (tr : list vevent) : Prop := Forall (fun e => plain e \/ exists v, e = VWrite w v) tr.

Lemma traffic_run w tr : forall s s',
  vwf s -> Disc w s -> tr_ok w tr -> vrun s tr = Some s' ->
  vconn s' = vconn s /\ (total_sent s tr + phi w s' <= phi w s + length (written tr) * length (vconn s))%nat.
Proof.
  induction tr as [|e tr IH]; intros s s' Hwf HD Hok Hrun.
  - simpl in Hrun. inversion Hrun; subst. simpl. split; [reflexivity|lia].
  - cbn [vrun] in Hrun. cbn [total_sent]. destruct (vstep s e) as [s1|] eqn:Hstep; [|discriminate].
    apply Forall_cons in Hok as [He Hok].
    pose proof (step_wf _ _ _ Hwf Hstep) as Hwf1.
    assert (HD1 : Disc w s1).
    { eapply disc_step; [exact Hwf|exact HD| |exact Hstep]. destruct He as [He|[v ->]]; [|reflexivity].
      destruct e; simpl in *; auto; contradiction. }
    destruct (IH s1 s' Hwf1 HD1 Hok Hrun) as [Hcn IHle].
    destruct He as [He|[v ->]].
    + destruct (traffic_step w s e s1 Hwf HD He Hstep) as [Hcn1 Hle].
      assert (Hw : written (e :: tr) = written tr) by (destruct e; simpl in He; try contradiction; reflexivity).
      rewrite Hw. rewrite Hcn1 in *. split; [exact Hcn|]. lia.
    + change (written (VWrite w v :: tr)) with (v :: written tr). simpl length. simpl sent_by.
      apply step_write in Hstep as (_ & Hcn1 & Hl & _ & Hp & _).
      assert (Hphi : (phi w s1 <= phi w s + length (vconn s))%nat).
      { unfold phi, link. rewrite Hcn1, Hl. unfold pdirty at 1. unfold poutq at 1. rewrite Hp. simpl.
        fold (poutq s w). destruct (pdirty s w); lia. }
      rewrite Hcn1 in *. split; [exact Hcn|]. lia.
Qed.

Lemma phi_quiescent w s : vquiescent s -> phi w s = O.
Proof.
  intros Hq. unfold phi. destruct (quiescent_peer s w Hq) as (-> & -> & _). rewrite (quiescent_link s w host Hq).
  simpl. destruct (decide (w = host)); lia.
Qed.

(* one write from a quiescent state causes at most |vconn| messages in total, relays included, whatever
   the interleaving of detections, sends and deliveries that follows *)
Theorem value_messages_bounded s w v rest s' :
  vwf s -> vquiescent s -> Forall plain rest ->
  vrun s (VWrite w v :: rest) = Some s' ->
  (total_sent s (VWrite w v :: rest) <= length (vconn s))%nat.
Proof.
  intros Hwf Hq Hpl Hrun.
  assert (Hok : tr_ok w (VWrite w v :: rest)).
  { apply Forall_cons. split; [right; eauto|]. eapply Forall_impl; [exact Hpl|]. intros e He. left. exact He. }
  destruct (traffic_run w _ s s' Hwf (quiescent_disc w s Hq) Hok Hrun) as [_ Hle].
  rewrite (phi_quiescent w s Hq) in Hle.
  change (written (VWrite w v :: rest)) with (v :: written rest) in Hle.
  assert (Hr : written rest = []).
  { clear -Hpl. induction Hpl as [|e rest He _ IH]; [reflexivity|]. destruct e; simpl in He; try contradiction; exact IH. }
  rewrite Hr in Hle. cbn [length] in Hle. lia.
Qed.
Print Assumptions value_messages_bounded.

(* k writes of a single writer cause at most k * n messages, for any interleaving *)
Theorem value_messages_bounded_run n w tr s' :
  vrun (vinit n) tr = Some s' -> tr_ok w tr ->
  (total_sent (vinit n) tr <= length (written tr) * n)%nat.
Proof.
  intros Hrun Hok.
  destruct (traffic_run w tr (vinit n) s' (vinit_wf n) (quiescent_disc w _ (vinit_quiescent n)) Hok Hrun) as [_ Hle].
  rewrite (phi_quiescent w _ (vinit_quiescent n)) in Hle.
  assert (Hn : length (vconn (vinit n)) = n) by (simpl; unfold clients; rewrite fmap_length, seq_length; reflexivity).
  rewrite Hn in Hle. lia.
Qed.
Print Assumptions value_messages_bounded_run.

(* the bound is reached: a client's write costs 1 + (n-1), the host's write costs n *)
Example traffic_tight :
  total_sent (vinit 3) [VWrite 1 10; VDetect 1; VSend 1; VDeliver 1 0; VDeliver 0 2; VDeliver 0 3;
                        VDetect 0; VDetect 2; VDetect 3] = 3%nat /\
  total_sent (vinit 3) [VWrite 0 10; VDetect 0; VSend 0; VDeliver 0 1; VDeliver 0 2; VDeliver 0 3;
                        VDetect 1; VDetect 2; VDetect 3] = 3%nat /\
  (* re-writing the value the host already shows costs the uplink message only *)
  total_sent (vinit 3) [VWrite 1 10; VDetect 1; VSend 1; VDeliver 1 0; VDeliver 0 2; VDeliver 0 3;
                        VDetect 0; VDetect 2; VDetect 3; VWrite 1 10; VDetect 1; VSend 1; VDeliver 1 0] = 4%nat.
Proof. vm_compute. auto. Qed.

Print Assumptions C02_join_window_refuted.
Print Assumptions relay_loses_nothing.
Print Assumptions single_writer_discipline.

(* ================================================================================================
   Part 9: C09, component part: replication traffic is finite and self-quenching, for ANY history
   V1 no echo ([armed_only_by_write], [deliver_no_echo], [no_echo]);
   V2 termination without any premise on the past ([measure_decreases], [exchange_bounded],
      [no_infinite_exchange], [drain_terminates]);
   V3 global traffic bound ([traffic_bounded_any], [value_messages_bounded_any_writers],
      [traffic_self_quenching]);  summary [C09_component];  V4 examples.
   Definitions (executable): end of Values.v.
   ================================================================================================ *)

Local Open Scope nat_scope.

(* ---------- sums ---------- *)
Lemma sum_with_ext {A} (f g : A -> nat) l : (forall x, x ∈ l -> f x = g x) -> sum_with f l = sum_with g l.
Proof.
  induction l as [|a l IH]; intros H; simpl; [reflexivity|].
  rewrite (H a) by left. rewrite IH; [reflexivity|]. intros x Hx. apply H. right. exact Hx.
Qed.
Lemma sum_with_le {A} (f g : A -> nat) l : (forall x, x ∈ l -> f x <= g x) -> sum_with f l <= sum_with g l.
Proof.
  induction l as [|a l IH]; intros H; simpl; [lia|].
  pose proof (H a ltac:(left)) as Ha. assert (Hl : sum_with f l <= sum_with g l).
  { apply IH. intros x Hx. apply H. right. exact Hx. } lia.
Qed.
Lemma sum_with_upd {A} (f g : A -> nat) l p :
  NoDup l -> p ∈ l -> (forall x, x ∈ l -> x <> p -> g x = f x) -> sum_with g l + f p = sum_with f l + g p.
Proof.
  intros Hnd. induction Hnd as [|a l Hnotin Hnd IH]; intros Hin Hext; [inversion Hin|]. simpl.
  apply elem_of_cons in Hin as [->|Hin].
  - rewrite (sum_with_ext g f l); [lia|]. intros x Hx. apply Hext; [right; exact Hx|]. intros ->. contradiction.
  - rewrite (Hext a) by (try left; intros ->; contradiction).
    assert (H : sum_with g l + f p = sum_with f l + g p).
    { apply IH; [exact Hin|]. intros x Hx Hne. apply Hext; [right; exact Hx|exact Hne]. }
    lia.
Qed.
Lemma sum_with_plus {A} (f g : A -> nat) l : sum_with (fun x => f x + g x) l = sum_with f l + sum_with g l.
Proof. induction l as [|a l IH]; simpl; [reflexivity|]. rewrite IH. lia. Qed.
Lemma sum_with_const {A} k (l : list A) : sum_with (fun _ => k) l = length l * k.
Proof. induction l as [|a l IH]; simpl; [reflexivity|]. rewrite IH. lia. Qed.
Lemma sum_with_snoc {A} (f : A -> nat) l a : sum_with f (l ++ [a]) = sum_with f l + f a.
Proof. induction l as [|b l IH]; simpl; [lia|]. rewrite IH. lia. Qed.
Lemma sum_with_zero {A} (f : A -> nat) l : (forall x, x ∈ l -> f x = 0) -> sum_with f l = 0.
Proof. intros H. rewrite (sum_with_ext f (fun _ => 0) l H). rewrite sum_with_const. lia. Qed.

(* ---------- the peer record after one step, no well-formedness needed ---------- *)
Lemma step_getp s e s' q :
  vstep s e = Some s' ->
  getp s' q =
    match e with
    | VWrite p v => if decide (q = p) then VPeer (Some v) true false (poutq s p) else getp s q
    | VDetect p => if decide (q = p) then detect' (getp s p) else getp s q
    | VSend p => if decide (q = p) then VPeer (pcur s p) (pdirty s p) (ptoken s p) [] else getp s q
    | VDeliver src dst =>
        if decide (q = dst) then
          match link s src dst with
          | v :: _ => if bool_decide (pcur s dst = Some v) then getp s dst
                      else VPeer (Some v) (pdirty s dst) true (poutq s dst)
          | [] => getp s dst
          end
        else getp s q
    | VJoin _ =>   (* the flush of the host's queue: as [VSend host] *)
        if decide (q = host) then VPeer (pcur s host) (pdirty s host) (ptoken s host) [] else getp s q
    end.
Proof.
  intros Hstep. destruct e as [p v|p|p|src dst|c].
  - apply step_write in Hstep as (_ & _ & _ & _ & Hp & Hq).
    destruct (decide (q = p)) as [->|Hne]; [exact Hp|apply Hq, Hne].
  - apply step_detect in Hstep as (_ & _ & _ & _ & Hp & Hq).
    destruct (decide (q = p)) as [->|Hne]; [exact Hp|apply Hq, Hne].
  - simpl in Hstep. destruct (vp s !! p) as [x|] eqn:Hx; [|discriminate].
    unfold pcur, pdirty, ptoken. rewrite (getp_exists _ _ _ Hx).
    destruct (outq x) as [|v0 q0] eqn:Hq; injection Hstep as <-.
    + destruct (decide (q = p)) as [->|Hne]; [|reflexivity].
      rewrite (getp_exists _ _ _ Hx). destruct x; simpl in *; subst; reflexivity.
    + destruct (decide (q = p)) as [->|Hne]; [apply getp_insert|].
      destruct s; simpl. rewrite getp_insert_ne by exact Hne. reflexivity.
  - simpl in Hstep. destruct (link s src dst) as [|v rest] eqn:Hl; [discriminate|].
    destruct (vp s !! dst) as [x|] eqn:Hx; [|discriminate].
    unfold pcur, pdirty, poutq. rewrite (getp_exists _ _ _ Hx).
    destruct (bool_decide (cur x = Some v)) eqn:Hc; injection Hstep as <-.
    + destruct (decide (q = dst)) as [->|Hne]; [|reflexivity].
      unfold getp; simpl; rewrite Hx; reflexivity.
    + destruct (decide (q = dst)) as [->|Hne]; [apply getp_insert|].
      destruct s; simpl. rewrite getp_insert_ne by exact Hne. reflexivity.
  - apply step_join in Hstep as (_ & _ & _ & _ & _ & _ & Hj).
    apply step_join0 in Hj as (_ & _ & _ & _ & _ & Hg & _). rewrite Hg. apply vflush_host_getp.
Qed.

Lemma step_conn s e s' :
  vstep s e = Some s' -> vconn s' = match e with VJoin c => vconn s ++ [c] | _ => vconn s end.
Proof.
  intros Hstep. destruct e as [p v|p|p|src dst|c]; simpl in Hstep.
  - destruct (vp s !! p); [|discriminate]. injection Hstep as <-. reflexivity.
  - destruct (vp s !! p) as [x|]; [|discriminate]. destruct (dirty x || token x); injection Hstep as <-; reflexivity.
  - destruct (vp s !! p) as [x|]; [|discriminate]. destruct (outq x); injection Hstep as <-; reflexivity.
  - destruct (link s src dst); [discriminate|]. destruct (vp s !! dst) as [x|]; [|discriminate].
    destruct (bool_decide _); injection Hstep as <-; reflexivity.
  - apply step_join in Hstep as (_ & _ & _ & H & _). exact H.
Qed.

(* ---------- V1: no echo ---------- *)
Lemma armedx_outq x : armedx x = false -> outq x = [].
Proof. unfold armedx. destruct (outq x); [reflexivity|discriminate]. Qed.

Lemma armed_step s e s' p :
  vstep s e = Some s' -> varmed s' p = true -> varmed s p = true \/ exists v, e = VWrite p v.
Proof.
  intros Hstep. unfold varmed. rewrite (step_getp s e s' p Hstep).
  destruct e as [q v|q|q|src dst|c]; try (destruct (decide (p = q)) as [->|Hne]); auto.
  - right. eauto.
  - intros H. left. revert H. unfold detect', vdetect, armedx.
    destruct (getp s q) as [c d t o]; simpl. destruct d, t; simpl; auto.
    intros _. apply orb_true_r.
  - unfold armedx, pdirty, ptoken; simpl. intros ->. left. apply orb_true_r.
  - destruct (decide (p = dst)) as [->|Hne]; auto.
    destruct (link s src dst) as [|v rest]; auto. destruct (bool_decide _); auto.
    unfold armedx, pdirty, poutq; simpl. rewrite andb_false_r, orb_false_r. intros ->. left. reflexivity.
  - destruct (decide (p = host)) as [->|Hne]; auto.
    unfold armedx, pdirty, ptoken; simpl. intros ->. left. apply orb_true_r.
Qed.

(* [varmed] is raised by nothing but a write of that very peer *)
Theorem armed_only_by_write s e s' p :
  vstep s e = Some s' -> varmed s p = false -> varmed s' p = true -> exists v, e = VWrite p v.
Proof.
  intros Hstep Hu Ha. destruct (armed_step s e s' p Hstep Ha) as [H|H]; [congruence|exact H].
Qed.
Print Assumptions armed_only_by_write.

(* ... and (since fix e13e196: a write clears the token) EVERY write arms its peer: no write is silently
   dropped at the writer; it can only be overtaken by a network apply that lands before the detector runs
   ([deliver_disarms]) *)
Theorem write_arms s p v s' : vstep s (VWrite p v) = Some s' -> varmed s' p = true.
Proof.
  intros Hstep. unfold varmed. rewrite (step_getp _ _ _ p Hstep). destruct (decide (p = p)) as [_|?]; [|congruence].
  unfold armedx. simpl. apply orb_true_r.
Qed.
Print Assumptions write_arms.

Definition not_write_of (p : peer) (e : vevent) : Prop := match e with VWrite q _ => q <> p | _ => True end.

Lemma unarmed_run p tr : forall s s',
  varmed s p = false -> Forall (not_write_of p) tr -> vrun s tr = Some s' -> varmed s' p = false.
Proof.
  induction tr as [|e tr IH]; intros s s' Hu Hnw Hrun; simpl in Hrun.
  - congruence.
  - destruct (vstep s e) as [s1|] eqn:Hstep; [|discriminate]. apply Forall_cons in Hnw as [He Hnw].
    apply (IH s1 s'); [|exact Hnw|exact Hrun].
    destruct (varmed s1 p) eqn:Ha; [|reflexivity].
    destruct (armed_only_by_write s e s1 p Hstep Hu Ha) as [v ->]. simpl in He. congruence.
Qed.

Lemma unarmed_outq s p : varmed s p = false -> poutq s p = [].
Proof. apply armedx_outq. Qed.

Lemma unarmed_send_nothing s p : varmed s p = false -> sent_by s (VSend p) = 0.
Proof. intros H. simpl. rewrite (unarmed_outq s p H). reflexivity. Qed.

Lemma send_noop s p : is_Some (vp s !! p) -> poutq s p = [] -> vstep s (VSend p) = Some s.
Proof.
  intros [x Hx] Hq. unfold poutq in Hq. rewrite (getp_exists _ _ _ Hx) in Hq. simpl. rewrite Hx, Hq. reflexivity.
Qed.

(* an unarmed peer that handles an update and then runs its detector and its send emits nothing:
   the update is not echoed *)
Theorem deliver_no_echo s src dst s1 s2 :
  vstep s (VDeliver src dst) = Some s1 -> varmed s dst = false ->
  vstep s1 (VDetect dst) = Some s2 ->
  varmed s1 dst = false /\ varmed s2 dst = false /\ poutq s2 dst = [] /\
  sent_by s2 (VSend dst) = 0 /\ vstep s2 (VSend dst) = Some s2.
Proof.
  intros H1 Hu H2.
  assert (Hu1 : varmed s1 dst = false).
  { apply (unarmed_run dst [VDeliver src dst] s s1 Hu); [repeat constructor|]. cbn [vrun]. rewrite H1. reflexivity. }
  assert (Hu2 : varmed s2 dst = false).
  { apply (unarmed_run dst [VDetect dst] s1 s2 Hu1); [repeat constructor|]. cbn [vrun]. rewrite H2. reflexivity. }
  split; [exact Hu1|]. split; [exact Hu2|]. split; [apply unarmed_outq, Hu2|]. split; [apply unarmed_send_nothing, Hu2|].
  apply send_noop; [|apply unarmed_outq, Hu2].
  apply step_detect in H2 as (Hex & _ & _ & He & _ & _). apply He. exact Hex.
Qed.
Print Assumptions deliver_no_echo.

(* the converse: an armed peer does emit (so [varmed] is exactly "will announce unless a delivery interferes") *)
Lemma armed_emits s p s1 :
  varmed s p = true -> is_Some (pcur s p) -> vstep s (VDetect p) = Some s1 ->
  poutq s1 p <> [] /\ sent_by s1 (VSend p) = length (poutq s1 p) * (if (p =? host)%N then length (vconn s1) else 1).
Proof.
  intros Ha [v Hv] Hstep. split; [|reflexivity].
  unfold poutq. rewrite (step_getp _ _ _ p Hstep). destruct (decide (p = p)) as [_|?]; [|congruence].
  revert Ha Hv. unfold varmed, pcur, armedx, detect', vdetect. destruct (getp s p) as [c d t o]; simpl.
  intros Ha ->. destruct o as [|v0 o]; simpl in *.
  - apply andb_true_iff in Ha as [-> Ht]. apply negb_true_iff in Ht. subst t. simpl. discriminate.
  - destruct d, t; simpl; discriminate.
Qed.

Definition unarmed (s : vstate) : Prop := forall p, varmed s p = false.

Definition relay_or_snapshot (e : vevent) : Prop :=
  match e with VDeliver _ dst => dst = host | VJoin _ => True | _ => False end.

(* from a state where nobody is armed, as long as nobody writes: nobody becomes armed, every queue stays
   empty in every state visited (no detector queues anything, no send emits anything), and the only events
   that hand messages to the network are the host's relays (and the snapshots of joins) *)
Theorem no_echo tr : forall s s',
  unarmed s -> Forall no_write tr -> vrun s tr = Some s' ->
  unarmed s' /\
  Forall (fun si => forall p, poutq si p = []) (vstates s tr) /\
  Forall relay_or_snapshot (emitters s tr).
Proof.
  induction tr as [|e tr IH]; intros s s' Hu Hnw Hrun.
  - simpl in Hrun. injection Hrun as <-. split; [exact Hu|]. split.
    + simpl. constructor; [|constructor]. intros p. apply unarmed_outq, Hu.
    + constructor.
  - cbn [vrun] in Hrun. cbn [vstates emitters]. destruct (vstep s e) as [s1|] eqn:Hstep; [|discriminate].
    apply Forall_cons in Hnw as [He Hnw].
    assert (Hu1 : unarmed s1).
    { intros p. destruct (varmed s1 p) eqn:Ha; [|reflexivity].
      destruct (armed_only_by_write s e s1 p Hstep (Hu p) Ha) as [v ->]. simpl in He. contradiction. }
    destruct (IH s1 s' Hu1 Hnw Hrun) as (Hu' & Hq & Hem).
    split; [exact Hu'|]. split.
    + destruct tr as [|e2 tr]; simpl in Hq |- *.
      * constructor; [intros p; apply unarmed_outq, Hu|exact Hq].
      * constructor; [intros p; apply unarmed_outq, Hu|exact Hq].
    + apply Forall_app. split; [|exact Hem].
      destruct (sent_by s e) eqn:Hsb; [constructor|]. constructor; [|constructor].
      destruct e as [p v|p|p|src dst|c]; simpl in *; try discriminate; try contradiction.
      * rewrite (unarmed_outq s p (Hu p)) in Hsb. discriminate.
      * destruct (link s src dst); [discriminate|]. destruct (bool_decide _); [discriminate|].
        destruct (dst =? host)%N eqn:E; [apply N.eqb_eq in E; exact E|discriminate].
      * exact I.
Qed.
Print Assumptions no_echo.

(* without joins: the only emitters are relays *)
Corollary no_echo_plain tr s s' :
  unarmed s -> Forall plain tr -> vrun s tr = Some s' ->
  unarmed s' /\ Forall (fun si => forall p, poutq si p = []) (vstates s tr) /\
  Forall (fun e => exists src, e = VDeliver src host) (emitters s tr).
Proof.
  intros Hu Hpl Hrun.
  assert (Hnw : Forall no_write tr).
  { eapply Forall_impl; [exact Hpl|]. intros e He. destruct e; simpl in *; auto. }
  destruct (no_echo tr s s' Hu Hnw Hrun) as (Hu' & Hq & Hem). split; [exact Hu'|]. split; [exact Hq|].
  assert (Hsub : forall e, e ∈ emitters s tr -> plain e).
  { clear -Hpl. revert s. induction Hpl as [|e tr He _ IH]; intros s x Hx; simpl in Hx; [inversion Hx|].
    destruct (vstep s e) as [s1|]; [|inversion Hx]. apply elem_of_app in Hx as [Hx|Hx]; [|eapply IH; exact Hx].
    destruct (sent_by s e); [inversion Hx|]. apply elem_of_list_singleton in Hx. subst. exact He. }
  apply Forall_forall. intros e Hin. pose proof (Hsub e Hin) as Hp.
  rewrite Forall_forall in Hem. specialize (Hem e Hin).
  destruct e as [p v|p|p|src dst|c]; simpl in *; try contradiction. subst. eauto.
Qed.

(* ---------- V2: termination ---------- *)

Definition psum (F : peer -> vpeer -> nat) (s : vstate) : nat := sum_with (fun p => F p (getp s p)) (host :: vconn s).

Lemma wf_nodup_all s : vwf s -> NoDup (host :: vconn s).
Proof. intros Hwf. apply NoDup_cons. split; [apply wf_host, Hwf|apply wf_nodup, Hwf]. Qed.

Lemma peers_all s p : peers s p <-> p ∈ host :: vconn s.
Proof. unfold peers. rewrite elem_of_cons. reflexivity. Qed.

Lemma psum_upd F s s' p :
  vwf s -> peers s p -> vconn s' = vconn s -> (forall q, q <> p -> getp s' q = getp s q) ->
  psum F s' + F p (getp s p) = psum F s + F p (getp s' p).
Proof.
  intros Hwf Hp Hc Hq. unfold psum. rewrite Hc.
  apply (sum_with_upd (fun q => F q (getp s q)) (fun q => F q (getp s' q))).
  - apply wf_nodup_all, Hwf.
  - apply peers_all, Hp.
  - intros x _ Hne. rewrite Hq by exact Hne. reflexivity.
Qed.

Lemma psum_same F s s' :
  vconn s' = vconn s -> (forall q, getp s' q = getp s q) -> psum F s' = psum F s.
Proof. intros Hc Hq. unfold psum. rewrite Hc. apply sum_with_ext. intros x _. rewrite Hq. reflexivity. Qed.

Lemma link_sum_same (f : vstate -> peer -> list value) s s' :
  vconn s' = vconn s -> (forall c, c ∈ vconn s -> f s' c = f s c) ->
  sum_with (fun c => length (f s' c)) (vconn s') = sum_with (fun c => length (f s c)) (vconn s).
Proof. intros Hc H. rewrite Hc. apply sum_with_ext. intros x Hx. rewrite H by exact Hx. reflexivity. Qed.

Lemma down_same s s' :
  vconn s' = vconn s -> (forall c, c ∈ vconn s -> link s' host c = link s host c) -> down_msgs s' = down_msgs s.
Proof. intros Hc H. unfold down_msgs. apply (link_sum_same (fun s c => link s host c)); assumption. Qed.
Lemma up_same s s' :
  vconn s' = vconn s -> (forall c, c ∈ vconn s -> link s' c host = link s c host) -> up_msgs s' = up_msgs s.
Proof. intros Hc H. unfold up_msgs. apply (link_sum_same (fun s c => link s c host)); assumption. Qed.

Lemma down_upd s s' c :
  vwf s -> c ∈ vconn s -> vconn s' = vconn s ->
  (forall c', c' ∈ vconn s -> c' <> c -> link s' host c' = link s host c') ->
  down_msgs s' + length (link s host c) = down_msgs s + length (link s' host c).
Proof.
  intros Hwf Hin Hc H. unfold down_msgs. rewrite Hc.
  apply (sum_with_upd (fun q => length (link s host q)) (fun q => length (link s' host q))).
  - apply wf_nodup, Hwf.
  - exact Hin.
  - intros x Hx Hne. rewrite H by assumption. reflexivity.
Qed.
Lemma up_upd s s' c :
  vwf s -> c ∈ vconn s -> vconn s' = vconn s ->
  (forall c', c' ∈ vconn s -> c' <> c -> link s' c' host = link s c' host) ->
  up_msgs s' + length (link s c host) = up_msgs s + length (link s' c host).
Proof.
  intros Hwf Hin Hc H. unfold up_msgs. rewrite Hc.
  apply (sum_with_upd (fun q => length (link s q host)) (fun q => length (link s' q host))).
  - apply wf_nodup, Hwf.
  - exact Hin.
  - intros x Hx Hne. rewrite H by assumption. reflexivity.
Qed.

Lemma vmeasure_eq s :
  vmeasure s = psum (peer_cost (length (vconn s))) s + 2 * down_msgs s + (2 * length (vconn s) + 2) * up_msgs s.
Proof. reflexivity. Qed.

(* peer costs *)
Lemma qcost_pos n p : 1 <= qcost n p.
Proof. unfold qcost. destruct (p =? host)%N; lia. Qed.

Lemma detect_cost n p x : dirty x || token x = true -> peer_cost n p (detect' x) + 1 <= peer_cost n p x.
Proof.
  intros Hf. unfold detect'. rewrite Hf. unfold vdetect, peer_cost. destruct x as [c d t o]; simpl in *.
  destruct t; simpl.
  - rewrite orb_true_r. rewrite andb_false_r. lia.
  - rewrite orb_false_r in Hf. subst d. simpl. rewrite app_length. destruct c; simpl; nia.
Qed.

Lemma apply_cost n p x v : peer_cost n p (VPeer (Some v) (dirty x) true (outq x)) <= peer_cost n p x + 1.
Proof.
  unfold peer_cost. simpl. rewrite orb_true_r, andb_false_r. lia.
Qed.

Lemma send_cost n p x : peer_cost n p (VPeer (cur x) (dirty x) (token x) []) + length (outq x) * qcost n p = peer_cost n p x.
Proof. unfold peer_cost. simpl. lia. Qed.

Lemma wf_client_ne_host s c : vwf s -> c ∈ vconn s -> c <> host.
Proof. intros Hwf Hin ->. exact (wf_host s Hwf Hin). Qed.

Lemma peers_exists s p : vwf s -> is_Some (vp s !! p) -> peers s p.
Proof. intros Hwf H. apply (wf_exists s p Hwf). exact H. Qed.

(* every effective plain event strictly decreases the measure *)
Theorem measure_decreases s e s' :
  vwf s -> effective s e = true -> vstep s e = Some s' -> vmeasure s' < vmeasure s.
Proof.
  intros Hwf Heff Hstep. pose proof (step_conn s e s' Hstep) as Hconn.
  destruct e as [p v|p|p|src dst|c]; simpl in Heff; try discriminate.
  - (* detect *)
    apply step_detect in Hstep as (Hex & Hc & Hl & _ & Hp & Hq).
    rewrite !vmeasure_eq, Hc.
    assert (Hd : down_msgs s' = down_msgs s) by (apply down_same; [exact Hc|intros; unfold link; rewrite Hl; reflexivity]).
    assert (Hu : up_msgs s' = up_msgs s) by (apply up_same; [exact Hc|intros; unfold link; rewrite Hl; reflexivity]).
    pose proof (psum_upd (peer_cost (length (vconn s))) s s' p Hwf (peers_exists s p Hwf Hex) Hc Hq) as HP.
    rewrite Hp in HP. pose proof (detect_cost (length (vconn s)) p (getp s p) Heff) as Hcost.
    rewrite Hd, Hu. lia.
  - (* send *)
    apply step_send in Hstep as (Hex & Hc & _ & Hp & Hq & Hl); [|apply wf_nodup, Hwf].
    rewrite !vmeasure_eq, Hc. set (n := length (vconn s)).
    pose proof (psum_upd (peer_cost n) s s' p Hwf (peers_exists s p Hwf Hex) Hc Hq) as HP.
    rewrite Hp in HP. pose proof (send_cost n p (getp s p)) as Hcost.
    fold (pcur s p) (pdirty s p) (ptoken s p) (poutq s p) in Hcost.
    assert (Hlen : 1 <= length (poutq s p)) by (destruct (poutq s p); [discriminate|simpl; lia]).
    destruct (decide (p = host)) as [->|Hph].
    + (* the host: one copy per client *)
      assert (Hu : up_msgs s' = up_msgs s).
      { apply up_same; [exact Hc|]. intros c Hin. rewrite Hl.
        destruct (decide (c = host /\ _)) as [[E _]|_]; [|reflexivity].
        exfalso. exact (wf_client_ne_host s c Hwf Hin E). }
      assert (Hd : down_msgs s' = down_msgs s + n * length (poutq s host)).
      { unfold down_msgs. rewrite Hc.
        rewrite (sum_with_ext _ (fun c => length (link s host c) + length (poutq s host))).
        - rewrite sum_with_plus, sum_with_const. fold n. lia.
        - intros c Hin. rewrite Hl. destruct (decide (host = host /\ c ∈ dsts_of s host)) as [_|Hn].
          + apply app_length.
          + exfalso. apply Hn. split; [reflexivity|]. exact Hin. }
      rewrite Hu, Hd. unfold qcost in Hcost. change (host =? host)%N with true in Hcost. cbv iota in Hcost. nia.
    + (* a client: one message to the host *)
      assert (Hin : p ∈ vconn s).
      { destruct (peers_exists s p Hwf Hex) as [?|?]; [contradiction|assumption]. }
      assert (Hd : down_msgs s' = down_msgs s).
      { apply down_same; [exact Hc|]. intros c _. rewrite Hl.
        destruct (decide (host = p /\ _)) as [[E _]|_]; [congruence|reflexivity]. }
      assert (Hu : up_msgs s' + length (link s p host) = up_msgs s + length (link s' p host)).
      { apply up_upd; [exact Hwf|exact Hin|exact Hc|]. intros c' _ Hne. rewrite Hl.
        destruct (decide (c' = p /\ _)) as [[E _]|_]; [contradiction|reflexivity]. }
      assert (Hlp : length (link s' p host) = length (link s p host) + length (poutq s p)).
      { rewrite Hl. destruct (decide (p = p /\ host ∈ dsts_of s p)) as [_|Hn]; [apply app_length|].
        exfalso. apply Hn. split; [reflexivity|]. unfold dsts_of.
        destruct (p =? host)%N eqn:E; [apply N.eqb_eq in E; contradiction|]. apply elem_of_list_singleton. reflexivity. }
      rewrite Hd. unfold qcost in Hcost.
      destruct (p =? host)%N eqn:E; [apply N.eqb_eq in E; contradiction|]. nia.
  - (* deliver *)
    apply step_deliver in Hstep as (v & rest & Hl0 & Hex & Hc & _ & Hq & Hcase); [|apply wf_nodup, Hwf].
    rewrite !vmeasure_eq, Hc. set (n := length (vconn s)).
    assert (Hne0 : link s src dst <> []) by (rewrite Hl0; discriminate).
    pose proof (psum_upd (peer_cost n) s s' dst Hwf (peers_exists s dst Hwf Hex) Hc Hq) as HP.
    assert (HPle : psum (peer_cost n) s' <= psum (peer_cost n) s + 1).
    { destruct Hcase as [(_ & Hp & _)|(_ & Hp & _)]; rewrite Hp in HP; [lia|].
      pose proof (apply_cost n dst (getp s dst) v) as Hcost.
      fold (pdirty s dst) (poutq s dst) in Hcost. lia. }
    destruct (wf_link s src dst Hwf Hne0) as [[-> Hin]|[-> Hin]].
    + (* host -> client: no relay *)
      pose proof (wf_client_ne_host s dst Hwf Hin) as Hdh.
      assert (Hlk : forall a b, link s' a b = if decide ((a, b) = (host, dst)) then rest else link s a b).
      { destruct Hcase as [(_ & _ & Hl)|(_ & _ & Hl)]; [exact Hl|]. intros a b. rewrite Hl.
        destruct (decide (dst = host /\ _)) as [[E _]|_]; [contradiction|]. apply app_nil_r. }
      assert (Hu : up_msgs s' = up_msgs s).
      { apply up_same; [exact Hc|]. intros c Hcin. rewrite Hlk.
        destruct (decide ((c, host) = (host, dst))) as [E|_]; [|reflexivity]. inversion E; subst. contradiction. }
      assert (Hd : down_msgs s' + length (link s host dst) = down_msgs s + length (link s' host dst)).
      { apply down_upd; [exact Hwf|exact Hin|exact Hc|]. intros c' _ Hne. rewrite Hlk.
        destruct (decide ((host, c') = (host, dst))) as [E|_]; [|reflexivity]. inversion E; subst. contradiction. }
      rewrite Hlk in Hd. destruct (decide ((host, dst) = (host, dst))) as [_|?]; [|congruence].
      rewrite Hl0 in Hd. simpl in Hd. rewrite Hu. lia.
    + (* client -> host: at most n relayed messages *)
      pose proof (wf_client_ne_host s src Hwf Hin) as Hsh.
      assert (Hup : forall c, link s' c host = if decide (c = src) then rest else link s c host).
      { intros c. destruct Hcase as [(_ & _ & Hl)|(_ & _ & Hl)]; rewrite Hl.
        - destruct (decide ((c, host) = (src, host))) as [E|Hn]; destruct (decide (c = src)) as [E'|Hn']; try reflexivity; congruence.
        - destruct (decide (host = host /\ c = host /\ _)) as [(_ & E & Hoth)|_].
          + apply elem_of_others in Hoth as [_ Hoth]. exfalso. exact (wf_host s Hwf Hoth).
          + rewrite app_nil_r.
            destruct (decide ((c, host) = (src, host))) as [E|Hn]; destruct (decide (c = src)) as [E'|Hn']; try reflexivity; congruence. }
      assert (Hu : up_msgs s' + length (link s src host) = up_msgs s + length (link s' src host)).
      { apply up_upd; [exact Hwf|exact Hin|exact Hc|]. intros c' _ Hne. rewrite Hup.
        destruct (decide (c' = src)); [contradiction|reflexivity]. }
      rewrite Hup in Hu. destruct (decide (src = src)) as [_|?]; [|congruence]. rewrite Hl0 in Hu. simpl in Hu.
      assert (Hd : down_msgs s' <= down_msgs s + n).
      { unfold down_msgs. rewrite Hc.
        etransitivity; [apply (sum_with_le _ (fun c => length (link s host c) + 1))|].
        - intros c Hcin. destruct Hcase as [(_ & _ & Hl)|(_ & _ & Hl)]; rewrite Hl.
          + destruct (decide ((host, c) = (src, host))) as [E|_]; [inversion E; congruence|]. lia.
          + destruct (decide ((host, c) = (src, host))) as [E|_]; [inversion E; congruence|].
            rewrite app_length. destruct (decide _); simpl; lia.
        - rewrite sum_with_plus, sum_with_const. fold n. lia. }
      nia.
Qed.
Print Assumptions measure_decreases.

Lemma effective_run_cons s e tr :
  effective_run s (e :: tr) = true <-> effective s e = true /\ exists s1, vstep s e = Some s1 /\ effective_run s1 tr = true.
Proof.
  cbn [effective_run]. rewrite andb_true_iff. destruct (vstep s e) as [s1|].
  - split; [intros [H1 H2]; eauto|]. intros [H1 (s2 & [= <-] & H2)]. auto.
  - split; [intros [_ ?]; discriminate|]. intros [_ (s2 & ? & _)]. discriminate.
Qed.

(* a run of effective plain events is no longer than the measure of its first state *)
Theorem exchange_bounded tr : forall s, vwf s -> effective_run s tr = true -> length tr <= vmeasure s.
Proof.
  induction tr as [|e tr IH]; intros s Hwf Hrun; simpl length; [lia|].
  apply effective_run_cons in Hrun as (Heff & s1 & Hstep & Hrun).
  pose proof (measure_decreases s e s1 Hwf Heff Hstep) as Hlt.
  pose proof (IH s1 (step_wf s e s1 Hwf Hstep) Hrun). lia.
Qed.
Print Assumptions exchange_bounded.

(* there is no infinite sequence of effective plain events, from any well-formed state, whatever its past *)
Theorem no_infinite_exchange (st : nat -> vstate) (ev : nat -> vevent) :
  vwf (st 0) ->
  ~ (forall i, effective (st i) (ev i) = true /\ vstep (st i) (ev i) = Some (st (S i))).
Proof.
  intros Hwf Hinf.
  assert (Hrun : forall k i, effective_run (st i) (ev <$> seq i k) = true).
  { induction k as [|k IH]; intros i; [reflexivity|]. simpl seq. rewrite fmap_cons. apply effective_run_cons.
    destruct (Hinf i) as [He Hs]. split; [exact He|]. exists (st (S i)). split; [exact Hs|apply IH]. }
  pose proof (exchange_bounded _ (st 0) Hwf (Hrun (S (vmeasure (st 0))) 0)) as Hle.
  rewrite fmap_length, seq_length in Hle. lia.
Qed.
Print Assumptions no_infinite_exchange.

(* --- draining --- *)
Lemma first_some_Some {A B} (f : A -> option B) l y : first_some f l = Some y -> exists x, x ∈ l /\ f x = Some y.
Proof.
  induction l as [|a l IH]; simpl; [discriminate|]. destruct (f a) as [b|] eqn:Hfa.
  - intros [= <-]. exists a. split; [left|exact Hfa].
  - intros H. destruct (IH H) as (x & Hx & Hfx). exists x. split; [right; exact Hx|exact Hfx].
Qed.
Lemma first_some_None {A B} (f : A -> option B) l : first_some f l = None -> forall x, x ∈ l -> f x = None.
Proof.
  induction l as [|a l IH]; simpl; intros H x Hx; [inversion Hx|]. destruct (f a) as [b|] eqn:Hfa; [discriminate|].
  apply elem_of_cons in Hx as [->|Hx]; [exact Hfa|apply IH; assumption].
Qed.

Lemma next_event_some s e :
  vwf s -> next_event s = Some e -> plain e /\ effective s e = true /\ is_Some (vstep s e).
Proof.
  intros Hwf H. apply first_some_Some in H as (p & Hp & He). apply peers_all in Hp.
  assert (Hex : is_Some (vp s !! p)) by (apply (wf_exists s p Hwf); exact Hp).
  assert (Hexh : is_Some (vp s !! host)) by (apply (wf_exists s host Hwf); left; reflexivity).
  destruct Hex as [x Hx]. destruct Hexh as [xh Hxh].
  unfold peer_event in He. destruct (pdirty s p || ptoken s p) eqn:Hf.
  - injection He as <-. split; [exact I|]. split; [exact Hf|]. simpl. rewrite Hx.
    destruct (dirty x || token x); eauto.
  - destruct (poutq s p) as [|v0 q0] eqn:Hq.
    + destruct (link s host p) as [|v rest] eqn:Hl1.
      * destruct (link s p host) as [|v rest] eqn:Hl2; [discriminate|]. injection He as <-.
        split; [exact I|]. split; [reflexivity|]. simpl. rewrite Hl2, Hxh. destruct (bool_decide _); eauto.
      * injection He as <-. split; [exact I|]. split; [reflexivity|]. simpl. rewrite Hl1, Hx.
        destruct (bool_decide _); eauto.
    + injection He as <-. split; [exact I|]. split; [simpl; rewrite Hq; reflexivity|]. simpl. rewrite Hx.
      destruct (outq x); eauto.
Qed.

Lemma next_event_none s : vwf s -> next_event s = None -> vquiescent s.
Proof.
  intros Hwf H. pose proof (first_some_None _ _ H) as Hall.
  assert (Hp : forall p, peers s p ->
            pdirty s p = false /\ ptoken s p = false /\ poutq s p = [] /\ link s host p = [] /\ link s p host = []).
  { intros p Hp. apply peers_all in Hp. specialize (Hall p Hp). unfold peer_event in Hall.
    destruct (pdirty s p || ptoken s p) eqn:Hf; [discriminate|]. apply orb_false_iff in Hf as [Hd Ht].
    destruct (poutq s p); [|discriminate]. destruct (link s host p); [|discriminate].
    destruct (link s p host); [|discriminate]. auto. }
  apply quiescent_intro.
  - intros a b. destruct (link s a b) as [|v l] eqn:Hl; [reflexivity|]. exfalso.
    assert (Hne : link s a b <> []) by (rewrite Hl; discriminate).
    destruct (wf_link s a b Hwf Hne) as [[-> Hin]|[-> Hin]].
    + destruct (Hp b (or_intror Hin)) as (_ & _ & _ & E & _). congruence.
    + destruct (Hp a (or_intror Hin)) as (_ & _ & _ & _ & E). congruence.
  - intros p. destruct (vp s !! p) as [x|] eqn:Hx.
    + assert (Hpe : peers s p) by (apply (wf_exists s p Hwf); eauto).
      destruct (Hp p Hpe) as (? & ? & ? & _). auto.
    + unfold poutq, pdirty, ptoken. rewrite (getp_none s p Hx). auto.
Qed.

Lemma drain_general fuel : forall s,
  vwf s -> vmeasure s <= fuel ->
  exists s', vrun s (vdrain fuel s) = Some s' /\ vquiescent s' /\
             effective_run s (vdrain fuel s) = true /\ Forall plain (vdrain fuel s).
Proof.
  induction fuel as [|k IH]; intros s Hwf Hm.
  - simpl. exists s. split; [reflexivity|]. split; [|split; [reflexivity|constructor]].
    destruct (next_event s) as [e|] eqn:Hn; [|apply next_event_none; assumption].
    destruct (next_event_some s e Hwf Hn) as (_ & Heff & [s1 Hs1]).
    pose proof (measure_decreases s e s1 Hwf Heff Hs1). lia.
  - cbn [vdrain]. destruct (next_event s) as [e|] eqn:Hn.
    + destruct (next_event_some s e Hwf Hn) as (Hpl & Heff & [s1 Hs1]). rewrite Hs1.
      pose proof (measure_decreases s e s1 Hwf Heff Hs1) as Hlt.
      destruct (IH s1 (step_wf s e s1 Hwf Hs1) ltac:(lia)) as (s' & Hrun & Hq & Her & Hpls).
      exists s'. split; [cbn [vrun]; rewrite Hs1; exact Hrun|]. split; [exact Hq|]. split.
      * apply effective_run_cons. split; [exact Heff|]. eauto.
      * constructor; assumption.
    + exists s. split; [reflexivity|]. split; [apply next_event_none; assumption|]. split; [reflexivity|constructor].
Qed.

(* from ANY well-formed state (conflicting writers, joins in progress, ... whatever happened before) the
   executable schedule [vdrain] reaches a quiescent state by plain, effective events, in at most [vmeasure s]
   of them; and by [exchange_bounded] no schedule of effective events can last longer *)
Theorem drain_terminates s :
  vwf s ->
  exists tr s', Forall plain tr /\ effective_run s tr = true /\ vrun s tr = Some s' /\ vquiescent s' /\
                length tr <= vmeasure s.
Proof.
  intros Hwf. destruct (drain_general (vmeasure s) s Hwf ltac:(lia)) as (s' & Hrun & Hq & Her & Hpl).
  exists (vdrain (vmeasure s) s), s'. split; [exact Hpl|]. split; [exact Her|]. split; [exact Hrun|]. split; [exact Hq|].
  apply exchange_bounded; assumption.
Qed.
Print Assumptions drain_terminates.

(* every schedule of effective events ends, if continued as long as possible, in a quiescent state: a
   well-formed state without an effective event is quiescent *)
Theorem stuck_is_quiescent s :
  vwf s -> (forall e s', plain e -> effective s e = true -> vstep s e = Some s' -> False) -> vquiescent s.
Proof.
  intros Hwf Hstuck. destruct (next_event s) as [e|] eqn:Hn; [|apply next_event_none; assumption].
  destruct (next_event_some s e Hwf Hn) as (Hpl & Heff & [s1 Hs1]). exfalso. eauto.
Qed.

(* ---------- V3: traffic bound for any history ---------- *)

Lemma vpot_eq M s : vpot M s = psum (fun _ => armed_units) s * M + up_msgs s * (M - 1).
Proof. reflexivity. Qed.

Definition ev_budget (M : nat) (e : vevent) : nat :=
  match e with VWrite _ _ => M | VJoin _ => 1 | _ => 0 end.

Lemma units_detect x : armed_units (detect' x) <= armed_units x.
Proof.
  unfold detect', vdetect, armed_units. destruct x as [c d t o]; simpl. destruct d, t; simpl; try lia.
  rewrite app_length. destruct c; simpl; lia.
Qed.

Lemma others_length_lt src l : src ∈ l -> length (others src l) < length l.
Proof. intros Hin. unfold others. eapply filter_length_lt; [exact Hin|]. intros H. apply H. reflexivity. Qed.

(* one step: what is sent is paid by the potential, a write adds at most M, a join its snapshot *)
Lemma traffic_any_step0 M s e s1 :
  vwf s -> vstep0 s e = Some s1 -> length (vconn s1) <= M ->
  sent_by s e + vpot M s1 <= vpot M s + ev_budget M e.
Proof.
  intros Hwf Hstep HM. rewrite !vpot_eq. set (F := fun _ : peer => armed_units).
  destruct e as [p v|p|p|src dst|c]; simpl ev_budget; cbn [vstep0] in Hstep.
  - (* write *)
    apply step_write in Hstep as (Hex & Hc & Hl & _ & Hp & Hq).
    assert (Hu : up_msgs s1 = up_msgs s) by (apply up_same; [exact Hc|intros; unfold link; rewrite Hl; reflexivity]).
    pose proof (psum_upd F s s1 p Hwf (peers_exists s p Hwf Hex) Hc Hq) as HP.
    set (A1 := psum F s1) in *. set (A0 := psum F s) in *.
    rewrite Hp in HP. unfold F, armed_units in HP. simpl in HP. fold (poutq s p) in HP.
    assert (Hle : A1 <= A0 + 1).
    { unfold poutq in HP. destruct (ptoken s p), (dirty (getp s p) && negb (token (getp s p))); simpl in HP; lia. }
    rewrite Hu. simpl sent_by. nia.
  - (* detect *)
    apply step_detect in Hstep as (Hex & Hc & Hl & _ & Hp & Hq).
    assert (Hu : up_msgs s1 = up_msgs s) by (apply up_same; [exact Hc|intros; unfold link; rewrite Hl; reflexivity]).
    pose proof (psum_upd F s s1 p Hwf (peers_exists s p Hwf Hex) Hc Hq) as HP.
    set (A1 := psum F s1) in *. set (A0 := psum F s) in *.
    rewrite Hp in HP. pose proof (units_detect (getp s p)) as Hd. unfold F in HP.
    rewrite Hu. simpl sent_by. nia.
  - (* send *)
    apply step_send in Hstep as (Hex & Hc & _ & Hp & Hq & Hl); [|apply wf_nodup, Hwf].
    pose proof (psum_upd F s s1 p Hwf (peers_exists s p Hwf Hex) Hc Hq) as HP.
    set (A1 := psum F s1) in *. set (A0 := psum F s) in *.
    rewrite Hp in HP. unfold F, armed_units in HP. simpl in HP.
    fold (pdirty s p) (ptoken s p) (poutq s p) in HP. unfold pdirty, ptoken in HP.
    rewrite Hc in HM. simpl sent_by.
    destruct (decide (p = host)) as [->|Hph].
    + assert (Hu : up_msgs s1 = up_msgs s).
      { apply up_same; [exact Hc|]. intros c Hin. rewrite Hl.
        destruct (decide (c = host /\ _)) as [[E _]|_]; [|reflexivity].
        exfalso. exact (wf_client_ne_host s c Hwf Hin E). }
      change (host =? host)%N with true. cbv iota. rewrite Hu. nia.
    + assert (Hin : p ∈ vconn s).
      { destruct (peers_exists s p Hwf Hex) as [?|?]; [contradiction|assumption]. }
      assert (HM1 : 1 <= M). { destruct (vconn s); [inversion Hin|simpl in HM; lia]. }
      assert (Hu : up_msgs s1 + length (link s p host) = up_msgs s + length (link s1 p host)).
      { apply up_upd; [exact Hwf|exact Hin|exact Hc|]. intros c' _ Hne. rewrite Hl.
        destruct (decide (c' = p /\ _)) as [[E _]|_]; [contradiction|reflexivity]. }
      assert (Hlp : length (link s1 p host) = length (link s p host) + length (poutq s p)).
      { rewrite Hl. destruct (decide (p = p /\ host ∈ dsts_of s p)) as [_|Hn]; [apply app_length|].
        exfalso. apply Hn. split; [reflexivity|]. unfold dsts_of.
        destruct (p =? host)%N eqn:E; [apply N.eqb_eq in E; contradiction|]. apply elem_of_list_singleton. reflexivity. }
      destruct (p =? host)%N eqn:E; [apply N.eqb_eq in E; contradiction|].
      destruct M as [|m]; [lia|]. replace (S m - 1) with m by lia. nia.
  - (* deliver *)
    apply step_deliver in Hstep as (v & rest & Hl0 & Hex & Hc & _ & Hq & Hcase); [|apply wf_nodup, Hwf].
    rewrite Hc in HM.
    assert (Hne0 : link s src dst <> []) by (rewrite Hl0; discriminate).
    pose proof (psum_upd F s s1 dst Hwf (peers_exists s dst Hwf Hex) Hc Hq) as HP.
    set (A1 := psum F s1) in *. set (A0 := psum F s) in *.
    assert (HPle : A1 <= A0).
    { destruct Hcase as [(_ & Hp & _)|(_ & Hp & _)]; rewrite Hp in HP; [lia|].
      unfold F, armed_units in HP. simpl in HP. rewrite andb_false_r in HP. unfold poutq in HP. lia. }
    simpl sent_by. rewrite Hl0.
    destruct (wf_link s src dst Hwf Hne0) as [[-> Hin]|[-> Hin]].
    + pose proof (wf_client_ne_host s dst Hwf Hin) as Hdh.
      assert (Hlk : forall a b, link s1 a b = if decide ((a, b) = (host, dst)) then rest else link s a b).
      { destruct Hcase as [(_ & _ & Hl)|(_ & _ & Hl)]; [exact Hl|]. intros a b. rewrite Hl.
        destruct (decide (dst = host /\ _)) as [[E _]|_]; [contradiction|]. apply app_nil_r. }
      assert (Hu : up_msgs s1 = up_msgs s).
      { apply up_same; [exact Hc|]. intros c Hcin. rewrite Hlk.
        destruct (decide ((c, host) = (host, dst))) as [E|_]; [|reflexivity]. inversion E; subst. contradiction. }
      destruct (dst =? host)%N eqn:E; [apply N.eqb_eq in E; contradiction|].
      rewrite Hu. destruct (bool_decide _); nia.
    + pose proof (wf_client_ne_host s src Hwf Hin) as Hsh.
      assert (Hup : forall c, link s1 c host = if decide (c = src) then rest else link s c host).
      { intros c. destruct Hcase as [(_ & _ & Hl)|(_ & _ & Hl)]; rewrite Hl.
        - destruct (decide ((c, host) = (src, host))) as [E|Hn]; destruct (decide (c = src)) as [E'|Hn']; try reflexivity; congruence.
        - destruct (decide (host = host /\ c = host /\ _)) as [(_ & E & Hoth)|_].
          + apply elem_of_others in Hoth as [_ Hoth]. exfalso. exact (wf_host s Hwf Hoth).
          + rewrite app_nil_r.
            destruct (decide ((c, host) = (src, host))) as [E|Hn]; destruct (decide (c = src)) as [E'|Hn']; try reflexivity; congruence. }
      assert (Hu : up_msgs s1 + length (link s src host) = up_msgs s + length (link s1 src host)).
      { apply up_upd; [exact Hwf|exact Hin|exact Hc|]. intros c' _ Hne. rewrite Hup.
        destruct (decide (c' = src)); [contradiction|reflexivity]. }
      rewrite Hup in Hu. destruct (decide (src = src)) as [_|?]; [|congruence]. rewrite Hl0 in Hu. simpl in Hu.
      pose proof (others_length_lt src (vconn s) Hin) as Hoth.
      change (host =? host)%N with true. cbv iota.
      destruct M as [|m]; [lia|]. replace (S m - 1) with m by lia.
      destruct (bool_decide _); nia.
  - (* join *)
    apply step_join0 in Hstep as (Hch & Hcn & Hnone & Hc & _ & Hg & Hl).
    assert (HP : psum F s1 = psum F s).
    { unfold psum. rewrite Hc. change (host :: vconn s ++ [c]) with ((host :: vconn s) ++ [c]).
      rewrite sum_with_snoc. rewrite (sum_with_ext _ (fun p => F p (getp s p))) by (intros x _; rewrite Hg; reflexivity).
      rewrite Hg, (getp_none s c Hnone). unfold F, armed_units. simpl. lia. }
    assert (Hu : up_msgs s1 = up_msgs s).
    { unfold up_msgs. rewrite Hc, sum_with_snoc.
      rewrite (sum_with_ext _ (fun c' => length (link s c' host))).
      - rewrite Hl. destruct (decide ((c, host) = (host, c))) as [E|_]; [inversion E; congruence|].
        rewrite (wf_link_nil s c host Hwf Hcn (wf_host s Hwf)). simpl. lia.
      - intros x Hx. rewrite Hl. destruct (decide ((x, host) = (host, c))) as [E|_]; [|reflexivity].
        inversion E; subst. contradiction. }
    rewrite HP, Hu. simpl sent_by. destruct (pcur s host); lia.
Qed.

(* the messages a join hands to the network on behalf of the flush of the host's queue (repair of S21); they
   are NOT counted by [sent_by s (VJoin c)], which counts the snapshot only *)
Definition flush_sent (s : vstate) (e : vevent) : nat :=
  match e with VJoin _ => sent_by s (VSend host) | _ => 0 end.

(* ... they are paid by the potential as well: the bound holds with them *)
Lemma traffic_any_step_flush M s e s1 :
  vwf s -> vstep s e = Some s1 -> length (vconn s1) <= M ->
  flush_sent s e + sent_by s e + vpot M s1 <= vpot M s + ev_budget M e.
Proof.
  intros Hwf Hstep HM. pose proof (vstep_split _ _ _ Hwf Hstep) as Hsp.
  destruct e as [p v|p|p|src dst|c]; try (apply (traffic_any_step0 M s _ s1 Hwf Hsp HM)).
  destruct Hsp as [H1 H2].
  pose proof (step_wf0 _ _ _ Hwf H1) as Hwf0.
  pose proof (traffic_any_step0 M _ _ s1 Hwf0 H2 HM) as Hj.
  assert (HM0 : length (vconn (vflush_host s)) <= M).
  { apply step_join0 in H2 as (_ & _ & _ & Hc & _). rewrite Hc, app_length in HM. lia. }
  pose proof (traffic_any_step0 M s _ _ Hwf H1 HM0) as Hs.
  assert (Hsb : sent_by (vflush_host s) (VJoin c) = sent_by s (VJoin c)).
  { simpl. rewrite vflush_host_cur. reflexivity. }
  rewrite Hsb in Hj. unfold flush_sent. simpl ev_budget in *. lia.
Qed.

Lemma traffic_any_step M s e s1 :
  vwf s -> vstep s e = Some s1 -> length (vconn s1) <= M ->
  sent_by s e + vpot M s1 <= vpot M s + ev_budget M e.
Proof. intros Hwf Hstep HM. pose proof (traffic_any_step_flush M s e s1 Hwf Hstep HM). lia. Qed.

Lemma step_conn_len s e s1 :
  vstep s e = Some s1 -> length (vconn s1) = length (vconn s) + match e with VJoin _ => 1 | _ => 0 end.
Proof.
  intros H. rewrite (step_conn s e s1 H). destruct e; try lia. rewrite app_length. reflexivity.
Qed.

Lemma traffic_any M tr : forall s,
  vwf s -> length (vconn s) + length (joiners tr) <= M ->
  total_sent s tr + match vrun s tr with Some s' => vpot M s' | None => 0 end
  <= vpot M s + length (written tr) * M + length (joiners tr).
Proof.
  induction tr as [|e tr IH]; intros s Hwf HM.
  - simpl. lia.
  - cbn [total_sent vrun]. destruct (vstep s e) as [s1|] eqn:Hstep; [|lia].
    pose proof (step_conn_len s e s1 Hstep) as Hlen.
    assert (Hwj : length (written (e :: tr)) * M + length (joiners (e :: tr)) =
                  length (written tr) * M + length (joiners tr) + ev_budget M e /\
                  length (joiners (e :: tr)) = length (joiners tr) + match e with VJoin _ => 1 | _ => 0 end).
    { destruct e; simpl; lia. }
    destruct Hwj as [Hwj Hj].
    assert (HM1 : length (vconn s1) + length (joiners tr) <= M) by lia.
    pose proof (IH s1 (step_wf s e s1 Hwf Hstep) HM1) as IH1.
    pose proof (traffic_any_step M s e s1 Hwf Hstep ltac:(lia)) as Hs.
    lia.
Qed.

Lemma vpot_quiescent M s : vquiescent s -> vpot M s = 0.
Proof.
  intros Hq. rewrite vpot_eq. unfold psum, up_msgs. rewrite !sum_with_zero; [reflexivity| |].
  - intros c _. rewrite (quiescent_link s c host Hq). reflexivity.
  - intros p _. destruct (quiescent_peer s p Hq) as (Ho & Hd & _). unfold armed_units.
    fold (pdirty s p) (poutq s p). rewrite Ho, Hd. reflexivity.
Qed.

Lemma clients_length n : length (clients n) = n.
Proof. unfold clients. rewrite fmap_length, seq_length. reflexivity. Qed.

(* GLOBAL TRAFFIC BOUND, any history: any number of writers, conflicting or not, any interleaving, joins at
   any time, even traces that do not run to the end ([total_sent] counts the prefix that runs).
   Every write costs at most one message per client that is ever connected; every join one snapshot. *)
Theorem traffic_bounded_any n tr :
  total_sent (vinit n) tr <= length (written tr) * (n + length (joiners tr)) + length (joiners tr).
Proof.
  pose proof (traffic_any (n + length (joiners tr)) tr (vinit n) (vinit_wf n)) as H.
  simpl vconn in H. rewrite clients_length in H. specialize (H ltac:(lia)).
  rewrite (vpot_quiescent _ _ (vinit_quiescent n)) in H. lia.
Qed.
Print Assumptions traffic_bounded_any.

(* ... INCLUDING the messages a join hands to the network when it flushes the host's queue ([flush_sent],
   not counted by [sent_by] / [total_sent]): the same bound *)
Fixpoint total_flush (s : vstate) (tr : list vevent) : nat :=
  match tr with
  | [] => 0
  | e :: tr => match vstep s e with Some s' => flush_sent s e + total_flush s' tr | None => 0 end
  end.

Lemma traffic_any_flush M tr : forall s,
  vwf s -> length (vconn s) + length (joiners tr) <= M ->
  total_flush s tr + total_sent s tr + match vrun s tr with Some s' => vpot M s' | None => 0 end
  <= vpot M s + length (written tr) * M + length (joiners tr).
Proof.
  induction tr as [|e tr IH]; intros s Hwf HM.
  - simpl. lia.
  - cbn [total_flush total_sent vrun]. destruct (vstep s e) as [s1|] eqn:Hstep; [|lia].
    pose proof (step_conn_len s e s1 Hstep) as Hlen.
    assert (Hwj : length (written (e :: tr)) * M + length (joiners (e :: tr)) =
                  length (written tr) * M + length (joiners tr) + ev_budget M e /\
                  length (joiners (e :: tr)) = length (joiners tr) + match e with VJoin _ => 1 | _ => 0 end).
    { destruct e; simpl; lia. }
    destruct Hwj as [Hwj Hj].
    assert (HM1 : length (vconn s1) + length (joiners tr) <= M) by lia.
    pose proof (IH s1 (step_wf s e s1 Hwf Hstep) HM1) as IH1.
    pose proof (traffic_any_step_flush M s e s1 Hwf Hstep ltac:(lia)) as Hs.
    lia.
Qed.

Theorem traffic_bounded_any_flush n tr :
  total_flush (vinit n) tr + total_sent (vinit n) tr
  <= length (written tr) * (n + length (joiners tr)) + length (joiners tr).
Proof.
  pose proof (traffic_any_flush (n + length (joiners tr)) tr (vinit n) (vinit_wf n)) as H.
  simpl vconn in H. rewrite clients_length in H. specialize (H ltac:(lia)).
  rewrite (vpot_quiescent _ _ (vinit_quiescent n)) in H. lia.
Qed.
Print Assumptions traffic_bounded_any_flush.

(* non-vacuity: in [ex_host_join] the join flushes one message (the queued 10, to client 1) *)
Example traffic_flush_example :
  total_flush (vinit 1) ex_host_join = 1 /\ total_sent (vinit 1) ex_host_join = 3 /\
  length (written ex_host_join) * (1 + length (joiners ex_host_join)) + length (joiners ex_host_join) = 5.
Proof. vm_compute. auto. Qed.

(* the same from any quiescent well-formed state *)
Theorem traffic_bounded_from_quiescent s tr :
  vwf s -> vquiescent s ->
  total_sent s tr <= length (written tr) * (length (vconn s) + length (joiners tr)) + length (joiners tr).
Proof.
  intros Hwf Hq. pose proof (traffic_any (length (vconn s) + length (joiners tr)) tr s Hwf ltac:(lia)) as H.
  rewrite (vpot_quiescent _ _ Hq) in H. lia.
Qed.
Print Assumptions traffic_bounded_from_quiescent.

(* from ANY well-formed state: what is already pending is paid by the potential *)
Theorem traffic_bounded_from_any s tr :
  vwf s ->
  let M := length (vconn s) + length (joiners tr) in
  total_sent s tr <= vpot M s + length (written tr) * M + length (joiners tr).
Proof.
  intros Hwf M. pose proof (traffic_any M tr s Hwf ltac:(unfold M; lia)) as H. lia.
Qed.
Print Assumptions traffic_bounded_from_any.

Definition write_or_plain (e : vevent) : Prop := match e with VJoin _ => False | _ => True end.

Lemma joiners_nil tr : Forall write_or_plain tr -> joiners tr = [].
Proof. induction 1 as [|e tr He _ IH]; [reflexivity|]. destruct e; simpl in *; try contradiction; exact IH. Qed.

(* [value_messages_bounded_run] without the single-writer premise: k writes by ANY peers, in any
   interleaving with detections, sends and deliveries, cost at most k * n messages *)
Theorem value_messages_bounded_any_writers n tr :
  Forall write_or_plain tr -> total_sent (vinit n) tr <= length (written tr) * n.
Proof.
  intros Hnj. pose proof (traffic_bounded_any n tr) as H. rewrite (joiners_nil tr Hnj) in H. simpl in H.
  rewrite Nat.add_0_r in H. lia.
Qed.
Print Assumptions value_messages_bounded_any_writers.

(* SELF-QUENCHING: once nobody is armed and nobody writes or joins, the only traffic left is the relays of
   the updates still travelling towards the host *)
Lemma unarmed_units s p : varmed s p = false -> armed_units (getp s p) = 0.
Proof.
  unfold varmed, armedx, armed_units. destruct (getp s p) as [c d t o]; simpl.
  intros H. apply orb_false_iff in H as [Ho ->]. destruct o; [reflexivity|discriminate].
Qed.

Lemma written_nil tr : Forall plain tr -> written tr = [].
Proof. induction 1 as [|e tr He _ IH]; [reflexivity|]. destruct e; simpl in *; try contradiction; exact IH. Qed.

Theorem traffic_self_quenching s tr :
  vwf s -> unarmed s -> Forall plain tr ->
  total_sent s tr <= up_msgs s * (length (vconn s) - 1).
Proof.
  intros Hwf Hu Hpl.
  assert (Hj : joiners tr = []).
  { apply joiners_nil. eapply Forall_impl; [exact Hpl|]. intros e He. destruct e; simpl in *; auto. }
  pose proof (traffic_any (length (vconn s)) tr s Hwf) as H. rewrite Hj, (written_nil tr Hpl) in H.
  simpl in H. specialize (H ltac:(lia)). rewrite vpot_eq in H.
  assert (HP : psum (fun _ => armed_units) s = 0).
  { unfold psum. apply sum_with_zero. intros p _. apply unarmed_units, Hu. }
  rewrite HP in H. lia.
Qed.
Print Assumptions traffic_self_quenching.

(* in particular: nobody armed and nothing travelling towards the host => not a single message more *)
Corollary traffic_silent s tr :
  vwf s -> unarmed s -> (forall c, link s c host = []) -> Forall plain tr -> total_sent s tr = 0.
Proof.
  intros Hwf Hu Hl Hpl. pose proof (traffic_self_quenching s tr Hwf Hu Hpl) as H.
  assert (Hup : up_msgs s = 0). { unfold up_msgs. apply sum_with_zero. intros c _. rewrite Hl. reflexivity. }
  rewrite Hup in H. lia.
Qed.

(* ---------- C09, component part: summary ---------- *)

Lemma effective_run_plain tr : forall s, effective_run s tr = true -> Forall plain tr.
Proof.
  induction tr as [|e tr IH]; intros s H; [constructor|].
  apply effective_run_cons in H as (He & s1 & _ & Hr). constructor; [|eapply IH; exact Hr].
  destruct e; simpl in *; try discriminate; exact I.
Qed.

Lemma effective_run_runs tr : forall s, effective_run s tr = true -> is_Some (vrun s tr).
Proof.
  induction tr as [|e tr IH]; intros s H; [simpl; eauto|].
  apply effective_run_cons in H as (_ & s1 & Hs & Hr). cbn [vrun]. rewrite Hs. apply IH, Hr.
Qed.

(* whatever happened (any writers, any conflicts, any joins, any interleaving), in the state s reached:
   - the traffic so far is bounded by the writes and the joins,
   - any exchange that follows without new writes is finite (at most [vmeasure s] effective events) and
     costs at most [vpot] messages,
   - and it can always be driven to a quiescent state. *)
Theorem C09_component n tr s :
  vrun (vinit n) tr = Some s ->
  total_sent (vinit n) tr <= length (written tr) * (n + length (joiners tr)) + length (joiners tr) /\
  (forall tr', effective_run s tr' = true ->
     length tr' <= vmeasure s /\ total_sent s tr' <= vpot (length (vconn s)) s) /\
  (exists tr' s', effective_run s tr' = true /\ vrun s tr' = Some s' /\ vquiescent s').
Proof.
  intros Hrun. pose proof (run_wf _ _ _ (vinit_wf n) Hrun) as Hwf. split; [apply traffic_bounded_any|]. split.
  - intros tr' He. split; [apply exchange_bounded; assumption|].
    pose proof (effective_run_plain tr' s He) as Hpl.
    pose proof (traffic_bounded_from_any s tr' Hwf) as H. cbv zeta in H.
    assert (Hj : joiners tr' = []).
    { apply joiners_nil. eapply Forall_impl; [exact Hpl|]. intros e Hp. destruct e; simpl in *; auto. }
    rewrite Hj, (written_nil tr' Hpl) in H. cbn [length] in H. rewrite !Nat.add_0_r in H. lia.
  - destruct (drain_terminates s Hwf) as (tr' & s' & _ & He & Hr & Hq & _). eauto.
Qed.
Print Assumptions C09_component.

(* ---------- V4: non-vacuity ---------- *)

Lemma unarmed_check s : vwf s -> unarmedb s = true -> unarmed s.
Proof.
  intros Hwf Hb p. unfold unarmedb in Hb. rewrite forallb_forall in Hb.
  destruct (vp s !! p) as [x|] eqn:Hx.
  - assert (Hp : peers s p) by (apply (wf_exists s p Hwf); eauto).
    apply peers_all, elem_of_list_In in Hp. apply Hb in Hp. apply negb_true_iff in Hp. exact Hp.
  - unfold varmed. rewrite (getp_none s p Hx). reflexivity.
Qed.

Definition st_after (n : nat) (tr : list vevent) : vstate := default (vinit 0) (vrun (vinit n) tr).

Lemma st_after_wf n tr : is_Some (vrun (vinit n) tr) -> vwf (st_after n tr).
Proof. intros [s Hs]. unfold st_after. rewrite Hs. simpl. eapply run_wf; [apply vinit_wf|exact Hs]. Qed.

(* two clients write conflicting values at the same time; both announcements are on their way to the host *)
Definition ex_c09_conflict : list vevent :=
  [VWrite 1 10; VDetect 1; VSend 1; VWrite 2 20; VDetect 2; VSend 2]%N.
(* what follows: both are applied and relayed by the host, the relays are applied, every detector and every
   send runs: nothing is echoed *)
Definition ex_c09_follow : list vevent :=
  [VDeliver 1 0; VDeliver 2 0; VDeliver 0 2; VDeliver 0 1; VDetect 0; VDetect 1; VDetect 2;
   VSend 0; VSend 1; VSend 2]%N.

(* V1: the hypotheses of [no_echo] hold in a state with traffic in flight, the run is not trivial (two relays
   are emitted, values are applied on three peers), and the conclusion is observed *)
Example no_echo_nonvacuous :
  let s := st_after 2 ex_c09_conflict in
  unarmed s /\ Forall plain ex_c09_follow /\
  (fun s' => (view s' [0; 1; 2]%N, unarmedb s')) <$> vrun s ex_c09_follow
    = Some (([Some 20; Some 20; Some 10]%N, true), true) /\
  emitters s ex_c09_follow = [VDeliver 1 0; VDeliver 2 0]%N /\
  total_sent s ex_c09_follow = 2 /\ up_msgs s * (length (vconn s) - 1) = 2.
Proof.
  split; [|split; [|vm_compute; auto]].
  - apply unarmed_check; [apply st_after_wf; vm_compute; eauto|vm_compute; reflexivity].
  - unfold ex_c09_follow. repeat constructor.
Qed.

(* V1: [deliver_no_echo] applies to the host and to a client (the peer is unarmed, the update is applied) *)
Example deliver_no_echo_nonvacuous :
  let s := st_after 2 ex_c09_conflict in
  varmed s 0%N = false /\ is_Some (vstep s (VDeliver 1 0)%N) /\ pcur s 0%N = None /\
  (fun s' => pcur s' 0%N) <$> vstep s (VDeliver 1 0)%N = Some (Some 10%N).
Proof. vm_compute. eauto. Qed.

(* V1: arming is not monotone: a delivery DISARMS a peer whose write has not been detected yet (the token
   swallows the local write: the lost update of [C02_lost_write_example]) *)
Example deliver_disarms :
  let s := st_after 2 [VWrite 1 10; VDetect 1; VSend 1; VDeliver 1 0; VWrite 2 20]%N in
  varmed s 2%N = true /\ (fun s' => varmed s' 2%N) <$> vstep s (VDeliver 0 2)%N = Some false.
Proof. vm_compute. auto. Qed.

(* a history with three conflicting writers (the host included), a join in the middle, re-writes of values
   already sent, stopped in the middle of the exchange *)
Definition ex_c09_history : list vevent :=
  [VWrite 1 10; VWrite 2 20; VDetect 1; VDetect 2; VSend 1; VSend 2; VJoin 3; VDeliver 1 0; VWrite 0 30;
   VDeliver 2 0; VWrite 1 10; VDetect 1; VSend 1; VDetect 0; VWrite 2 20; VDeliver 0 2; VWrite 3 40;
   VDetect 3; VSend 3]%N.

(* V2: the state reached is well-formed, not quiescent, has measure 23; the executable drain schedule
   reaches a quiescent state in 18 effective events and 4 messages (<= vpot = 4) *)
Example termination_nonvacuous :
  let s := st_after 2 ex_c09_history in
  let d := vdrain (vmeasure s) s in
  is_Some (vrun (vinit 2) ex_c09_history) /\ vwf s /\ vquiescentb s = false /\ vmeasure s = 23 /\
  effective_run s d = true /\ length d = 18 /\ total_sent s d = 4 /\ vpot (length (vconn s)) s = 4 /\
  (fun s' => view s' [0; 1; 2; 3]%N) <$> vrun s d = Some ([Some 40; Some 40; Some 40; Some 10]%N, true).
Proof.
  split; [vm_compute; eauto|]. split; [apply st_after_wf; vm_compute; eauto|]. vm_compute. auto 10.
Qed.

(* every event of that drain decreases the measure: its values along the schedule *)
Example measure_trace :
  let s := st_after 2 ex_c09_history in
  vmeasure <$> vstates s (vdrain (vmeasure s) s) = [23; 22; 21; 18; 17; 16; 14; 13; 12; 11; 10; 9; 8; 5; 4; 3; 2; 1; 0].
Proof. vm_compute. reflexivity. Qed.

(* V3: 6 writes by 3 conflicting writers + 1 join cost 8 messages so far, the bound is 6*(2+1)+1 = 19 *)
Example traffic_nonvacuous :
  total_sent (vinit 2) ex_c09_history = 8 /\ length (written ex_c09_history) = 6 /\
  length (joiners ex_c09_history) = 1 /\ writers ex_c09_history = [1; 2; 0; 1; 2; 3]%N.
Proof. vm_compute. auto. Qed.

(* V3: the bound is reached: the host writes, a client joins before the send: 1 snapshot + 3 copies *)
Example traffic_any_tight :
  let tr := [VWrite 0 5; VJoin 3; VDetect 0; VSend 0]%N in
  total_sent (vinit 2) tr = 4 /\ length (written tr) * (2 + length (joiners tr)) + length (joiners tr) = 4.
Proof. vm_compute. auto. Qed.

(* V3: re-writing the value everybody already shows still costs the announcement(s) but no relay *)
Example traffic_rewrite :
  let tr1 := [VWrite 1 10; VDetect 1; VSend 1; VDeliver 1 0; VDeliver 0 2; VDetect 0; VDetect 2]%N in
  let tr2 := [VWrite 1 10; VDetect 1; VSend 1; VDeliver 1 0; VWrite 0 10; VDetect 0; VSend 0;
              VDeliver 0 1; VDeliver 0 2]%N in
  total_sent (vinit 2) tr1 = 2 /\ vquiescentb (st_after 2 tr1) = true /\
  total_sent (st_after 2 tr1) tr2 = 3 /\ vquiescentb (st_after 2 (tr1 ++ tr2)) = true.
Proof. vm_compute. auto. Qed.
