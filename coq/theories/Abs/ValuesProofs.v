(* Proofs about the event-level value replication model (Values.v): C10, C02, joins, traffic. *)
From Coq Require Import NArith List Lia.
From stdpp Require Import gmap list.
From BS Require Import Abs.Values.

Local Open Scope N_scope.

(* ================================================================================================
   Part 0: channel operations
   ================================================================================================ *)

Lemma lget_insert L a b l a' b' :
  lget (<[(a, b) := l]> L) a' b' = if decide ((a', b') = (a, b)) then l else lget L a' b'.
Proof.
  unfold lget. destruct (decide ((a', b') = (a, b))) as [Heq|Hne].
  - rewrite Heq, lookup_insert. reflexivity.
  - rewrite lookup_insert_ne by congruence. reflexivity.
Qed.

Lemma lget_push_link L a b vs a' b' :
  lget (push_link L a b vs) a' b' = if decide ((a', b') = (a, b)) then lget L a b ++ vs else lget L a' b'.
Proof. unfold push_link. apply lget_insert. Qed.

Lemma lget_send_to L src dsts vs a b :
  NoDup dsts ->
  lget (send_to L src dsts vs) a b = if decide (a = src /\ b ∈ dsts) then lget L a b ++ vs else lget L a b.
Proof.
  intros Hnd. induction Hnd as [|d dsts Hnotin Hnd IH]; simpl.
  - destruct (decide (a = src /\ b ∈ [])) as [[_ Hin]|_]; [inversion Hin|reflexivity].
  - rewrite lget_push_link. destruct (decide ((a, b) = (src, d))) as [Heq|Hne].
    + inversion Heq; subst. rewrite IH.
      destruct (decide (src = src /\ d ∈ dsts)) as [[_ Hin]|_]; [contradiction|].
      destruct (decide (src = src /\ d ∈ d :: dsts)) as [_|Hn]; [reflexivity|].
      exfalso. apply Hn. split; [reflexivity|left].
    + rewrite IH. destruct (decide (a = src /\ b ∈ dsts)) as [[-> Hin]|Hn].
      * destruct (decide (src = src /\ b ∈ d :: dsts)) as [_|Hn2]; [reflexivity|].
        exfalso. apply Hn2. split; [reflexivity|right; exact Hin].
      * destruct (decide (a = src /\ b ∈ d :: dsts)) as [[-> Hin]|_]; [|reflexivity].
        exfalso. apply elem_of_cons in Hin as [->|Hin]; [apply Hne; reflexivity|apply Hn; auto].
Qed.

Lemma NoDup_others src l : NoDup l -> NoDup (others src l).
Proof. intros H. unfold others. apply NoDup_filter. exact H. Qed.

Lemma elem_of_others src l c : c ∈ others src l <-> c <> src /\ c ∈ l.
Proof. unfold others. rewrite elem_of_list_filter. reflexivity. Qed.

(* ================================================================================================
   Part 1: getters after one step
   ================================================================================================ *)

Definition peers (s : vstate) (p : peer) : Prop := p = host \/ p ∈ vconn s.

Lemma getp_insert m c l p x :
  getp (VState (<[p := x]> m) c l) p = x.
Proof. unfold getp. simpl. rewrite lookup_insert. reflexivity. Qed.
Lemma getp_insert_ne m c l p q x :
  q <> p -> getp (VState (<[p := x]> m) c l) q = getp (VState m c l) q.
Proof. intros H. unfold getp. simpl. rewrite lookup_insert_ne by congruence. reflexivity. Qed.
Lemma getp_links m c l l' q : getp (VState m c l) q = getp (VState m c l') q.
Proof. reflexivity. Qed.

Lemma getp_exists s p x : vp s !! p = Some x -> getp s p = x.
Proof. intros H. unfold getp. rewrite H. reflexivity. Qed.

Lemma wf_exists s p : vwf s -> is_Some (vp s !! p) <-> peers s p.
Proof. intros (_ & _ & H & _). apply H. Qed.

Definition detect' (x : vpeer) : vpeer := if dirty x || token x then vdetect x else x.

(* VWrite *)
Lemma step_write s p v s' :
  vstep s (VWrite p v) = Some s' ->
  is_Some (vp s !! p) /\ vconn s' = vconn s /\ vlinks s' = vlinks s /\
  (forall q, is_Some (vp s' !! q) <-> is_Some (vp s !! q)) /\
  getp s' p = VPeer (Some v) true (ptoken s p) (poutq s p) /\
  (forall q, q <> p -> getp s' q = getp s q).
Proof.
  simpl. destruct (vp s !! p) as [x|] eqn:Hx; [|discriminate]. intros [= <-].
  split; [eauto|]. split; [reflexivity|]. split; [reflexivity|]. split; [|split].
  - intros q. simpl. destruct (decide (q = p)) as [->|Hne].
    + rewrite lookup_insert, Hx. split; eauto.
    + rewrite lookup_insert_ne by congruence. reflexivity.
  - unfold set_peer. rewrite getp_insert. unfold ptoken, poutq. rewrite (getp_exists _ _ _ Hx). reflexivity.
  - intros q Hne. unfold set_peer. destruct s; simpl. apply getp_insert_ne. exact Hne.
Qed.

(* VDetect *)
Lemma step_detect s p s' :
  vstep s (VDetect p) = Some s' ->
  is_Some (vp s !! p) /\ vconn s' = vconn s /\ vlinks s' = vlinks s /\
  (forall q, is_Some (vp s' !! q) <-> is_Some (vp s !! q)) /\
  getp s' p = detect' (getp s p) /\
  (forall q, q <> p -> getp s' q = getp s q).
Proof.
  simpl. destruct (vp s !! p) as [x|] eqn:Hx; [|discriminate].
  unfold detect'. rewrite (getp_exists _ _ _ Hx).
  destruct (dirty x || token x) eqn:Hd; intros [= <-].
  - split; [eauto|]. split; [reflexivity|]. split; [reflexivity|]. split; [|split].
    + intros q. simpl. destruct (decide (q = p)) as [->|Hne].
      * rewrite lookup_insert, Hx. split; eauto.
      * rewrite lookup_insert_ne by congruence. reflexivity.
    + unfold set_peer. apply getp_insert.
    + intros q Hne. unfold set_peer. destruct s; simpl. apply getp_insert_ne. exact Hne.
  - split; [eauto|]. repeat split; try tauto. apply getp_exists. exact Hx.
Qed.

(* VSend *)
Definition dsts_of (s : vstate) (p : peer) : list peer := if (p =? host)%N then vconn s else [host].

Lemma step_send s p s' :
  NoDup (vconn s) ->
  vstep s (VSend p) = Some s' ->
  is_Some (vp s !! p) /\ vconn s' = vconn s /\
  (forall q, is_Some (vp s' !! q) <-> is_Some (vp s !! q)) /\
  getp s' p = VPeer (pcur s p) (pdirty s p) (ptoken s p) [] /\
  (forall q, q <> p -> getp s' q = getp s q) /\
  (forall a b, link s' a b = if decide (a = p /\ b ∈ dsts_of s p) then link s a b ++ poutq s p else link s a b).
Proof.
  intros Hnd. simpl. destruct (vp s !! p) as [x|] eqn:Hx; [|discriminate].
  unfold pcur, pdirty, ptoken, poutq. rewrite (getp_exists _ _ _ Hx).
  destruct (outq x) as [|v0 q0] eqn:Hq; intros [= <-].
  - split; [eauto|]. split; [reflexivity|]. split; [tauto|]. split; [|split].
    + rewrite (getp_exists _ _ _ Hx). destruct x; simpl in *. subst. reflexivity.
    + reflexivity.
    + intros a b. destruct (decide _); [rewrite app_nil_r|]; reflexivity.
  - split; [eauto|]. split; [reflexivity|]. split; [|split; [|split]].
    + intros q. simpl. destruct (decide (q = p)) as [->|Hne].
      * rewrite lookup_insert, Hx. split; eauto.
      * rewrite lookup_insert_ne by congruence. reflexivity.
    + apply getp_insert.
    + intros q Hne. destruct s; simpl. rewrite getp_insert_ne by exact Hne. reflexivity.
    + intros a b. unfold link. simpl. apply lget_send_to.
      unfold dsts_of. destruct (p =? host)%N; [exact Hnd|]. apply NoDup_singleton.
Qed.

(* VDeliver *)
Lemma step_deliver s src dst s' :
  NoDup (vconn s) ->
  vstep s (VDeliver src dst) = Some s' ->
  exists v rest, link s src dst = v :: rest /\ is_Some (vp s !! dst) /\ vconn s' = vconn s /\
  (forall q, is_Some (vp s' !! q) <-> is_Some (vp s !! q)) /\
  (forall q, q <> dst -> getp s' q = getp s q) /\
  ((pcur s dst = Some v /\ getp s' dst = getp s dst /\
    forall a b, link s' a b = if decide ((a, b) = (src, dst)) then rest else link s a b)
   \/
   (pcur s dst <> Some v /\ getp s' dst = VPeer (Some v) (pdirty s dst) true (poutq s dst) /\
    forall a b, link s' a b =
      (if decide ((a, b) = (src, dst)) then rest else link s a b) ++
      (if decide (dst = host /\ a = host /\ b ∈ others src (vconn s)) then [v] else []))).
Proof.
  intros Hnd. simpl. destruct (link s src dst) as [|v rest] eqn:Hl; [discriminate|].
  destruct (vp s !! dst) as [x|] eqn:Hx; [|discriminate].
  unfold pcur, pdirty, poutq. rewrite (getp_exists _ _ _ Hx).
  destruct (bool_decide (cur x = Some v)) eqn:Hc; intros [= <-]; exists v, rest.
  - apply bool_decide_eq_true in Hc.
    split; [reflexivity|]. split; [eauto|]. split; [reflexivity|]. split; [tauto|]. split; [reflexivity|].
    left. split; [exact Hc|]. split; [unfold getp; simpl; rewrite Hx; reflexivity|].
    intros a b. unfold link. simpl. apply lget_insert.
  - apply bool_decide_eq_false in Hc.
    split; [reflexivity|]. split; [eauto|]. split; [reflexivity|]. split; [|split].
    + intros q. simpl. destruct (decide (q = dst)) as [->|Hne].
      * rewrite lookup_insert, Hx. split; eauto.
      * rewrite lookup_insert_ne by congruence. reflexivity.
    + intros q Hne. destruct s; simpl. rewrite getp_insert_ne by exact Hne. reflexivity.
    + right. split; [exact Hc|]. split; [apply getp_insert|].
      intros a b. unfold link. simpl. destruct (dst =? host)%N eqn:Hd.
      * apply N.eqb_eq in Hd. subst dst. rewrite lget_send_to by (apply NoDup_others; exact Hnd).
        rewrite lget_insert.
        destruct (decide (a = host /\ b ∈ others src (vconn s))) as [[-> Hin]|Hn].
        -- destruct (decide (host = host /\ host = host /\ b ∈ others src (vconn s))) as [_|Hn]; [reflexivity|tauto].
        -- destruct (decide (host = host /\ a = host /\ b ∈ others src (vconn s))) as [[_ Hy]|_]; [tauto|].
           rewrite app_nil_r. reflexivity.
      * apply N.eqb_neq in Hd. rewrite lget_insert.
        destruct (decide (dst = host /\ _)) as [[Hy _]|_]; [contradiction|]. rewrite app_nil_r. reflexivity.
Qed.

(* VJoin *)
Definition snapshot (s : vstate) : list value := match pcur s host with Some v => [v] | None => [] end.

Lemma step_join s c s' :
  vstep s (VJoin c) = Some s' ->
  c <> host /\ c ∉ vconn s /\ vp s !! c = None /\ vconn s' = vconn s ++ [c] /\
  (forall q, is_Some (vp s' !! q) <-> is_Some (vp s !! q) \/ q = c) /\
  (forall q, getp s' q = getp s q) /\
  (forall a b, link s' a b = if decide ((a, b) = (host, c)) then link s host c ++ snapshot s else link s a b).
Proof.
  simpl. destruct (c =? host)%N eqn:Hc; [discriminate|]. apply N.eqb_neq in Hc.
  destruct (bool_decide (c ∈ vconn s)) eqn:Hin; [discriminate|]. apply bool_decide_eq_false in Hin.
  unfold pexists. destruct (bool_decide (is_Some (vp s !! c))) eqn:Hex; [discriminate|].
  apply bool_decide_eq_false in Hex. simpl. intros [= <-].
  assert (Hnone : vp s !! c = None) by (destruct (vp s !! c); [exfalso; eauto|reflexivity]).
  split; [exact Hc|]. split; [exact Hin|]. split; [exact Hnone|]. split; [reflexivity|]. split; [|split].
  - intros q. simpl. destruct (decide (q = c)) as [->|Hne].
    + rewrite lookup_insert. split; eauto.
    + rewrite lookup_insert_ne by congruence. split; [auto|]. intros [H|H]; [exact H|contradiction].
  - intros q. unfold getp. simpl. destruct (decide (q = c)) as [->|Hne].
    + rewrite lookup_insert, Hnone. reflexivity.
    + rewrite lookup_insert_ne by congruence. reflexivity.
  - intros a b. unfold link, snapshot. simpl. destruct (pcur s host) as [v|].
    + apply lget_push_link.
    + destruct (decide _) as [Heq|_]; [|reflexivity]. inversion Heq; subst. rewrite app_nil_r. reflexivity.
Qed.

(* ================================================================================================
   Part 2: well-formedness
   ================================================================================================ *)

Lemma wf_nodup s : vwf s -> NoDup (vconn s).
Proof. intros (H & _). exact H. Qed.
Lemma wf_host s : vwf s -> host ∉ vconn s.
Proof. intros (_ & H & _). exact H. Qed.
Lemma wf_link s a b : vwf s -> link s a b <> [] -> (a = host /\ b ∈ vconn s) \/ (b = host /\ a ∈ vconn s).
Proof. intros (_ & _ & _ & H). apply H. Qed.
Lemma wf_link_nil s a b : vwf s -> a ∉ vconn s -> b ∉ vconn s -> link s a b = [].
Proof.
  intros Hwf Ha Hb. destruct (link s a b) eqn:Hl; [reflexivity|].
  destruct (wf_link s a b Hwf) as [[_ H]|[_ H]]; [rewrite Hl; discriminate|contradiction|contradiction].
Qed.

Lemma step_wf s e s' : vwf s -> vstep s e = Some s' -> vwf s'.
Proof.
  intros Hwf Hstep. pose proof Hwf as (Hnd & Hh & Hex & Hlk). destruct e as [p v|p|p|src dst|c].
  - apply step_write in Hstep as (_ & Hc & Hl & He & _).
    unfold vwf, link. rewrite Hc, Hl. repeat split; try assumption.
    + intros H. apply Hex, He, H. + intros H. apply He, Hex, H.
  - apply step_detect in Hstep as (_ & Hc & Hl & He & _).
    unfold vwf, link. rewrite Hc, Hl. repeat split; try assumption.
    + intros H. apply Hex, He, H. + intros H. apply He, Hex, H.
  - apply step_send in Hstep as (Hp & Hc & He & _ & _ & Hl); [|exact Hnd].
    unfold vwf. rewrite Hc. repeat split; try assumption.
    + intros H. apply Hex, He, H. + intros H. apply He, Hex, H.
    + intros a b. rewrite Hl. destruct (decide (a = p /\ b ∈ dsts_of s p)) as [[-> Hin]|_]; [|apply Hlk].
      intros _. unfold dsts_of in Hin. destruct (p =? host)%N eqn:Hph.
      * apply N.eqb_eq in Hph. left. auto.
      * apply N.eqb_neq in Hph. apply elem_of_list_singleton in Hin. right. split; [exact Hin|].
        apply Hex in Hp as [Hp|Hp]; [contradiction|exact Hp].
  - apply step_deliver in Hstep as (v & rest & Hl0 & Hd & Hc & He & _ & Hcase); [|exact Hnd].
    unfold vwf. rewrite Hc. repeat split; try assumption.
    + intros H. apply Hex, He, H. + intros H. apply He, Hex, H.
    + intros a b. destruct Hcase as [(_ & _ & Hl)|(_ & _ & Hl)]; rewrite Hl.
      * destruct (decide ((a, b) = (src, dst))) as [Heq|_]; [|apply Hlk].
        inversion Heq; subst. intros _. apply Hlk. rewrite Hl0. discriminate.
      * destruct (decide (dst = host /\ a = host /\ b ∈ others src (vconn s))) as [(_ & -> & Hin)|_].
        -- intros _. left. split; [reflexivity|]. apply elem_of_others in Hin. tauto.
        -- rewrite app_nil_r. destruct (decide ((a, b) = (src, dst))) as [Heq|_]; [|apply Hlk].
           inversion Heq; subst. intros _. apply Hlk. rewrite Hl0. discriminate.
  - apply step_join in Hstep as (Hc0 & Hcn & Hnone & Hc & He & _ & Hl).
    unfold vwf. rewrite Hc. split; [|split; [|split]].
    + apply NoDup_app. split; [exact Hnd|]. split; [|apply NoDup_singleton].
      intros x Hx Hx'. apply elem_of_list_singleton in Hx'. subst. contradiction.
    + intros H. apply elem_of_app in H as [H|H]; [contradiction|]. apply elem_of_list_singleton in H. congruence.
    + intros q. rewrite He, Hex. rewrite elem_of_app, elem_of_list_singleton. tauto.
    + intros a b. rewrite Hl. rewrite elem_of_app, elem_of_app, !elem_of_list_singleton.
      destruct (decide ((a, b) = (host, c))) as [Heq|_].
      * inversion Heq; subst. intros _. left. auto.
      * intros H. apply Hlk in H. tauto.
Qed.

Lemma run_wf s tr s' : vwf s -> vrun s tr = Some s' -> vwf s'.
Proof.
  revert s. induction tr as [|e tr IH]; intros s Hwf Hrun; simpl in Hrun.
  - congruence.
  - destruct (vstep s e) as [s1|] eqn:Hs; [|discriminate]. eapply IH; [|exact Hrun]. eapply step_wf; eauto.
Qed.

Lemma elem_of_clients n p : p ∈ clients n <-> (1 <= p <= N.of_nat n).
Proof.
  unfold clients. rewrite elem_of_list_fmap. split.
  - intros (k & -> & Hk). apply elem_of_seq in Hk. lia.
  - intros H. exists (N.to_nat p). split; [lia|]. apply elem_of_seq. lia.
Qed.

Lemma NoDup_clients n : NoDup (clients n).
Proof. unfold clients. apply NoDup_fmap_2; [intros a b; lia|apply NoDup_seq]. Qed.

Lemma vinit_getp n p : getp (vinit n) p = vpeer0.
Proof.
  unfold getp. destruct (vp (vinit n) !! p) as [x|] eqn:Hx; [|reflexivity]. simpl.
  unfold vinit in Hx; cbn [vp] in Hx. apply elem_of_list_to_map_2 in Hx. apply elem_of_list_fmap in Hx as (q & Heq & _). congruence.
Qed.

Lemma vinit_link n a b : link (vinit n) a b = [].
Proof. reflexivity. Qed.

Lemma vinit_wf n : vwf (vinit n).
Proof.
  unfold vwf. split; [apply NoDup_clients|]. split; [|split].
  - simpl. rewrite elem_of_clients. unfold host. lia.
  - intros p. unfold vinit; cbn [vp].
    set (l := (fun p => (p, vpeer0)) <$> host :: clients n).
    assert (Hfst : l.*1 = host :: clients n).
    { unfold l. rewrite <- list_fmap_compose. simpl. f_equal. induction (clients n); simpl; congruence. }
    split.
    + intros [x Hx]. apply elem_of_list_to_map_2 in Hx. apply (elem_of_list_fmap_1 fst) in Hx.
      rewrite Hfst in Hx. simpl in Hx. apply elem_of_cons in Hx. exact Hx.
    + intros Hp. destruct (list_to_map l !! p) eqn:Hx; [eauto|].
      apply not_elem_of_list_to_map in Hx. rewrite Hfst in Hx. exfalso. apply Hx. apply elem_of_cons. exact Hp.
  - intros a b H. exfalso. apply H. reflexivity.
Qed.

Lemma vinit_quiescent n : vquiescent (vinit n).
Proof.
  split; [apply map_Forall_empty|].
  intros p x Hx. unfold vinit in Hx; cbn [vp] in Hx. apply elem_of_list_to_map_2 in Hx. apply elem_of_list_fmap in Hx as (q & Heq & _).
  inversion Heq; subst. repeat split.
Qed.

(* quiescence through getters *)
Lemma quiescent_link s a b : vquiescent s -> link s a b = [].
Proof.
  intros [H _]. unfold link, lget. destruct (vlinks s !! (a, b)) as [l|] eqn:Hl; [|reflexivity]. simpl. eapply H. exact Hl.
Qed.
Lemma quiescent_peer s p : vquiescent s -> poutq s p = [] /\ pdirty s p = false /\ ptoken s p = false.
Proof.
  intros [_ H]. unfold poutq, pdirty, ptoken, getp. destruct (vp s !! p) as [x|] eqn:Hx; simpl; [|auto].
  apply (H p x Hx).
Qed.
Lemma quiescent_intro s :
  (forall a b, link s a b = []) -> (forall p, poutq s p = [] /\ pdirty s p = false /\ ptoken s p = false) -> vquiescent s.
Proof.
  intros Hl Hp. split.
  - intros [a b] l Hx. specialize (Hl a b). unfold link, lget in Hl. rewrite Hx in Hl. exact Hl.
  - intros p x Hx. specialize (Hp p). unfold poutq, pdirty, ptoken, getp in Hp. rewrite Hx in Hp. exact Hp.
Qed.

(* ================================================================================================
   Part 3: token / queue discipline of a single-writer phase
   [Disc w s]: only w has pending local changes or queued announcements, nothing travels towards w,
   the uplinks of the other clients are empty.  Preserved by every event except a write by another
   peer and the join of w itself.
   ================================================================================================ *)

Record Disc (w : peer) (s : vstate) : Prop := {
  disc_idle : forall p, p <> w -> pdirty s p = false /\ poutq s p = [];
  disc_token : ptoken s w = false;
  disc_in : forall c, link s c w = [];
  disc_up : forall c, c <> w -> link s c host = []
}.

Definition ev_ok (w : peer) (e : vevent) : Prop :=
  match e with VWrite p _ => p = w | VJoin c => c <> w | _ => True end.

Lemma detect'_idle x : dirty x = false -> outq x = [] -> dirty (detect' x) = false /\ outq (detect' x) = [].
Proof.
  intros Hd Ho. unfold detect', vdetect. rewrite Hd. simpl. destruct (token x) eqn:Ht; simpl; auto.
Qed.
Lemma detect'_token x : token x = false -> token (detect' x) = false.
Proof. intros Ht. unfold detect', vdetect. rewrite Ht. destruct (dirty x || false); simpl; auto. Qed.

Lemma disc_step w s e s' : vwf s -> Disc w s -> ev_ok w e -> vstep s e = Some s' -> Disc w s'.
Proof.
  intros Hwf [HA HB HC HU] Hok Hstep. destruct e as [p v|p|p|src dst|c]; simpl in Hok.
  - subst p. apply step_write in Hstep as (_ & _ & Hl & _ & Hp & Hq).
    split; unfold pdirty, poutq, ptoken, link in *.
    + intros p Hne. rewrite Hq by exact Hne. apply HA, Hne.
    + rewrite Hp. simpl. exact HB.
    + intros c. rewrite Hl. apply HC.
    + intros c Hne. rewrite Hl. apply HU, Hne.
  - apply step_detect in Hstep as (_ & _ & Hl & _ & Hp & Hq).
    split; unfold pdirty, poutq, ptoken, link in *.
    + intros q Hne. destruct (decide (q = p)) as [->|Hqp].
      * rewrite Hp. destruct (HA p Hne). apply detect'_idle; assumption.
      * rewrite Hq by exact Hqp. apply HA, Hne.
    + destruct (decide (w = p)) as [->|Hwp].
      * rewrite Hp. apply detect'_token, HB.
      * rewrite Hq by exact Hwp. exact HB.
    + intros c. rewrite Hl. apply HC.
    + intros c Hne. rewrite Hl. apply HU, Hne.
  - apply step_send in Hstep as (Hex & _ & _ & Hp & Hq & Hl); [|apply wf_nodup, Hwf].
    destruct (decide (p = w)) as [->|Hpw].
    + split; unfold pdirty, poutq, ptoken in *.
      * intros q Hne. rewrite Hq by exact Hne. apply HA, Hne.
      * rewrite Hp. simpl. exact HB.
      * intros c. rewrite Hl. destruct (decide (c = w /\ w ∈ dsts_of s w)) as [[-> Hin]|_]; [|apply HC].
        exfalso. unfold dsts_of in Hin. destruct (w =? host)%N eqn:Hwh.
        -- apply N.eqb_eq in Hwh. subst. apply (wf_host s Hwf Hin).
        -- apply N.eqb_neq in Hwh. apply elem_of_list_singleton in Hin. contradiction.
      * intros c Hne. rewrite Hl. destruct (decide (c = w /\ _)) as [[Hcw _]|_]; [contradiction|apply HU, Hne].
    + destruct (HA p Hpw) as [Hd Ho].
      assert (Hl' : forall a b, link s' a b = link s a b).
      { intros a b. rewrite Hl. unfold poutq in Ho. unfold poutq. rewrite Ho, app_nil_r. destruct (decide _); reflexivity. }
      split; unfold pdirty, poutq, ptoken in *.
      * intros q Hne. destruct (decide (q = p)) as [->|Hqp].
        -- rewrite Hp. simpl. auto.
        -- rewrite Hq by exact Hqp. apply HA, Hne.
      * rewrite Hq by congruence. exact HB.
      * intros c. rewrite Hl'. apply HC.
      * intros c Hne. rewrite Hl'. apply HU, Hne.
  - apply step_deliver in Hstep as (v & rest & Hl0 & _ & Hcn & _ & Hq & Hcase); [|apply wf_nodup, Hwf].
    assert (Hdw : dst <> w). { intros ->. rewrite HC in Hl0. discriminate. }
    assert (Hsrc : dst = host -> src = w).
    { intros ->. destruct (decide (src = w)) as [|Hne]; [assumption|]. rewrite HU in Hl0 by exact Hne. discriminate. }
    assert (Hold : forall a b, (a, b) = (src, dst) -> link s a b <> []).
    { intros a b Heq. inversion Heq; subst. rewrite Hl0. discriminate. }
    split; unfold pdirty, poutq, ptoken in *.
    + intros q Hne. destruct (decide (q = dst)) as [->|Hqd].
      * destruct (HA dst Hne) as [Hd Ho]. destruct Hcase as [(_ & Hp & _)|(_ & Hp & _)]; rewrite Hp; simpl; auto.
      * rewrite Hq by exact Hqd. apply HA, Hne.
    + rewrite Hq by congruence. exact HB.
    + intros c. destruct Hcase as [(_ & _ & Hl)|(_ & _ & Hl)]; rewrite Hl.
      * destruct (decide ((c, w) = (src, dst))) as [Heq|_]; [|apply HC]. inversion Heq; subst. contradiction.
      * destruct (decide ((c, w) = (src, dst))) as [Heq|_]; [inversion Heq; subst; contradiction|].
        rewrite HC. simpl.
        destruct (decide (dst = host /\ c = host /\ w ∈ others src (vconn s))) as [(Hd & _ & Hin)|_]; [|reflexivity].
        apply elem_of_others in Hin as [Hne _]. exfalso. apply Hne. symmetry. apply Hsrc, Hd.
    + intros c Hne. destruct Hcase as [(_ & _ & Hl)|(_ & _ & Hl)]; rewrite Hl.
      * destruct (decide ((c, host) = (src, dst))) as [Heq|_]; [|apply HU, Hne].
        exfalso. apply (Hold _ _ Heq). apply HU, Hne.
      * destruct (decide ((c, host) = (src, dst))) as [Heq|_].
        -- exfalso. apply (Hold _ _ Heq). apply HU, Hne.
        -- rewrite HU by exact Hne. simpl.
           destruct (decide (dst = host /\ c = host /\ host ∈ others src (vconn s))) as [(_ & _ & Hin)|_]; [|reflexivity].
           apply elem_of_others in Hin as [_ Hin]. exfalso. apply (wf_host s Hwf Hin).
  - apply step_join in Hstep as (Hch & Hcn & _ & _ & _ & Hq & Hl).
    split; unfold pdirty, poutq, ptoken in *.
    + intros q Hne. rewrite Hq. apply HA, Hne.
    + rewrite Hq. exact HB.
    + intros a. rewrite Hl. destruct (decide ((a, w) = (host, c))) as [Heq|_]; [|apply HC].
      inversion Heq; subst. contradiction.
    + intros a Hne. rewrite Hl. destruct (decide ((a, host) = (host, c))) as [Heq|_]; [|apply HU, Hne].
      inversion Heq; subst. contradiction.
Qed.

Lemma quiescent_disc w s : vquiescent s -> Disc w s.
Proof.
  intros Hq. split.
  - intros p _. destruct (quiescent_peer s p Hq) as (? & ? & ?). auto.
  - apply (quiescent_peer s w Hq).
  - intros c. apply quiescent_link, Hq.
  - intros c _. apply quiescent_link, Hq.
Qed.

(* ================================================================================================
   Part 4: convergence chains of a single-writer phase
   [lastd d l]: the value a peer displaying d ends with after applying l in order.
   ================================================================================================ *)

Definition lastd (d : option value) (l : list value) : option value := foldl (fun _ v => Some v) d l.

Lemma lastd_nil d : lastd d [] = d.
Proof. reflexivity. Qed.
Lemma lastd_cons d v l : lastd d (v :: l) = lastd (Some v) l.
Proof. reflexivity. Qed.
Lemma lastd_app d l1 l2 : lastd d (l1 ++ l2) = lastd (lastd d l1) l2.
Proof. unfold lastd. apply foldl_app. Qed.
Lemma lastd_snoc d l v : lastd d (l ++ [v]) = Some v.
Proof. rewrite lastd_app. reflexivity. Qed.
Lemma lastd_last d l : lastd d l = match last l with Some v => Some v | None => d end.
Proof.
  revert d. induction l as [|v l IH]; intros d; [reflexivity|]. rewrite lastd_cons, IH.
  destruct l as [|v0 l]; [reflexivity|]. change (last (v :: v0 :: l)) with (last (v0 :: l)).
  destruct (last (v0 :: l)) eqn:E; [reflexivity|]. apply last_None in E. discriminate.
Qed.

Record Conv (w : peer) (s : vstate) : Prop := {
  conv_h1 : w = host -> pdirty s host = false -> forall c, c ∈ vconn s ->
            lastd (pcur s c) (link s host c ++ poutq s host) = pcur s host;
  conv_h2 : w = host -> pdirty s host = false -> lastd (pcur s host) (poutq s host) = pcur s host;
  conv_k1 : w <> host -> pdirty s w = false -> lastd (pcur s host) (link s w host ++ poutq s w) = pcur s w;
  conv_k2 : w <> host -> forall c, c ∈ vconn s -> c <> w -> lastd (pcur s c) (link s host c) = pcur s host;
  conv_n : pdirty s w = true -> is_Some (pcur s w)
}.

Definition Phase (w : peer) (s : vstate) : Prop := Disc w s /\ Conv w s.

Definition writes_by (w : peer) (e : vevent) : Prop := match e with VWrite p _ => p = w | _ => True end.

Lemma getp_none s p : vp s !! p = None -> getp s p = vpeer0.
Proof. intros H. unfold getp. rewrite H. reflexivity. Qed.

Lemma detect'_cur x : cur (detect' x) = cur x.
Proof. unfold detect', vdetect. destruct (dirty x || token x), (token x); reflexivity. Qed.
Lemma detect'_clean x : dirty x = false -> dirty (detect' x) = false /\ outq (detect' x) = outq x.
Proof. intros H. unfold detect', vdetect. rewrite H. simpl. destruct (token x); auto. Qed.
Lemma detect'_dirty x : dirty x = true -> token x = false ->
  dirty (detect' x) = false /\ outq (detect' x) = outq x ++ match cur x with Some v => [v] | None => [] end.
Proof. intros H Ht. unfold detect', vdetect. rewrite H, Ht. simpl. auto. Qed.

Lemma lastd_snapshot s : lastd None (snapshot s) = pcur s host.
Proof. unfold snapshot. destruct (pcur s host); reflexivity. Qed.

(* where a deliverable message can be, in a single-writer phase *)
Lemma deliver_shape w s src dst :
  vwf s -> Disc w s -> link s src dst <> [] ->
  dst <> w /\ ((w = host /\ src = host /\ dst ∈ vconn s) \/
               (w <> host /\ src = w /\ dst = host) \/
               (w <> host /\ src = host /\ dst ∈ vconn s)).
Proof.
  intros Hwf HD Hl.
  assert (Hdw : dst <> w). { intros ->. apply Hl. apply (disc_in _ _ HD). }
  split; [exact Hdw|].
  destruct (wf_link s src dst Hwf Hl) as [[-> Hin]|[-> Hin]].
  - destruct (decide (w = host)); [left|right; right]; auto.
  - right; left. split; [congruence|]. split; [|reflexivity].
    destruct (decide (src = w)) as [|Hne]; [assumption|]. exfalso. apply Hl. apply (disc_up _ _ HD). exact Hne.
Qed.

Lemma conv_write w s v s' : Conv w s -> vstep s (VWrite w v) = Some s' -> Conv w s'.
Proof.
  intros HC Hstep. apply step_write in Hstep as (_ & Hcn & Hl & _ & Hp & Hq).
  assert (Hd : pdirty s' w = true) by (unfold pdirty; rewrite Hp; reflexivity).
  split; unfold link; rewrite ?Hl, ?Hcn.
  - intros -> Hd'. congruence.
  - intros -> Hd'. congruence.
  - intros _ Hd'. congruence.
  - intros Hwh c Hc Hcw. unfold pcur. rewrite !Hq by congruence. apply (conv_k2 _ _ HC); assumption.
  - intros _. unfold pcur. rewrite Hp. simpl. eauto.
Qed.

Lemma conv_detect w s p s' : Disc w s -> Conv w s -> vstep s (VDetect p) = Some s' -> Conv w s'.
Proof.
  intros HD HC Hstep. apply step_detect in Hstep as (_ & Hcn & Hl & _ & Hp & Hq).
  assert (Hcur : forall q, pcur s' q = pcur s q).
  { intros q. unfold pcur. destruct (decide (q = p)) as [->|Hne]; [rewrite Hp; apply detect'_cur|rewrite Hq by exact Hne; reflexivity]. }
  assert (Hlk : forall a b, link s' a b = link s a b) by (intros; unfold link; rewrite Hl; reflexivity).
  destruct (decide (p = w)) as [->|Hpw].
  - (* the writer's detector *)
    assert (Hoth : forall q, q <> w -> getp s' q = getp s q) by exact Hq.
    destruct (pdirty s w) eqn:Hdw.
    + destruct (conv_n _ _ HC Hdw) as [v Hv].
      destruct (detect'_dirty (getp s w) Hdw (disc_token _ _ HD)) as [Hd' Ho'].
      fold (pcur s w) in Ho'. rewrite Hv in Ho'. rewrite <- Hp in Hd', Ho'.
      fold (pdirty s' w) in Hd'. fold (poutq s' w) in Ho'. fold (poutq s w) in Ho'.
      split; rewrite ?Hcn.
      * intros -> _ c Hc. rewrite Hlk, Ho', Hcur, app_assoc, lastd_snoc, Hcur. symmetry. exact Hv.
      * intros -> _. rewrite Ho', lastd_snoc, Hcur. symmetry. exact Hv.
      * intros _ _. rewrite Hlk, Ho', app_assoc, lastd_snoc, Hcur. symmetry. exact Hv.
      * intros Hwh c Hc Hcw. rewrite Hlk, !Hcur. apply (conv_k2 _ _ HC); assumption.
      * intros Hx. congruence.
    + destruct (detect'_clean (getp s w) Hdw) as [Hd' Ho']. rewrite <- Hp in Hd', Ho'.
      fold (pdirty s' w) in Hd'. fold (poutq s' w) in Ho'. fold (poutq s w) in Ho'.
      split; rewrite ?Hcn.
      * intros -> _ c Hc. rewrite Hlk, Ho', !Hcur. apply (conv_h1 _ _ HC); auto.
      * intros -> _. rewrite Ho', !Hcur. apply (conv_h2 _ _ HC); auto.
      * intros Hwh _. rewrite Hlk, Ho', !Hcur. apply (conv_k1 _ _ HC); auto.
      * intros Hwh c Hc Hcw. rewrite Hlk, !Hcur. apply (conv_k2 _ _ HC); assumption.
      * intros Hx. congruence.
  - (* another peer's detector: at most swallows a token *)
    assert (Hw : getp s' w = getp s w) by (apply Hq; congruence).
    assert (Hdo : forall q, pdirty s' q = pdirty s q /\ poutq s' q = poutq s q).
    { intros q. unfold pdirty, poutq. destruct (decide (q = p)) as [->|Hne].
      - rewrite Hp. destruct (disc_idle _ _ HD p Hpw) as [Hd Ho]. unfold pdirty in Hd.
        destruct (detect'_clean _ Hd) as [H1 H2]. rewrite H1, H2, Hd. auto.
      - rewrite Hq by exact Hne. auto. }
    split; rewrite ?Hcn.
    + intros Hwh Hd c Hc. rewrite Hlk, !Hcur, (proj2 (Hdo host)). apply (conv_h1 _ _ HC); auto.
      rewrite <- (proj1 (Hdo host)). exact Hd.
    + intros Hwh Hd. rewrite !Hcur, (proj2 (Hdo host)). apply (conv_h2 _ _ HC); auto.
      rewrite <- (proj1 (Hdo host)). exact Hd.
    + intros Hwh Hd. rewrite Hlk, !Hcur, (proj2 (Hdo w)). apply (conv_k1 _ _ HC); auto.
      rewrite <- (proj1 (Hdo w)). exact Hd.
    + intros Hwh c Hc Hcw. rewrite Hlk, !Hcur. apply (conv_k2 _ _ HC); assumption.
    + intros Hd. rewrite Hcur. apply (conv_n _ _ HC). rewrite <- (proj1 (Hdo w)). exact Hd.
Qed.

Lemma conv_send w s p s' : vwf s -> Disc w s -> Conv w s -> vstep s (VSend p) = Some s' -> Conv w s'.
Proof.
  intros Hwf HD HC Hstep.
  apply step_send in Hstep as (_ & Hcn & _ & Hp & Hq & Hl); [|apply wf_nodup, Hwf].
  assert (Hcur : forall q, pcur s' q = pcur s q).
  { intros q. unfold pcur. destruct (decide (q = p)) as [->|Hne]; [rewrite Hp; reflexivity|rewrite Hq by exact Hne; reflexivity]. }
  assert (Hdir : forall q, pdirty s' q = pdirty s q).
  { intros q. unfold pdirty. destruct (decide (q = p)) as [->|Hne]; [rewrite Hp; reflexivity|rewrite Hq by exact Hne; reflexivity]. }
  assert (Hop : poutq s' p = []) by (unfold poutq; rewrite Hp; reflexivity).
  destruct (decide (p = w)) as [->|Hpw].
  - split; rewrite ?Hcn.
    + intros -> Hd c Hc. rewrite Hop, app_nil_r, Hl, !Hcur.
      destruct (decide (host = host /\ c ∈ dsts_of s host)) as [_|Hn]; [|exfalso; apply Hn; auto].
      apply (conv_h1 _ _ HC); auto. rewrite <- Hdir. exact Hd.
    + intros -> Hd. rewrite Hop. reflexivity.
    + intros Hwh Hd. rewrite Hop, app_nil_r, Hl, !Hcur.
      destruct (decide (w = w /\ host ∈ dsts_of s w)) as [_|Hn].
      * apply (conv_k1 _ _ HC); auto. rewrite <- Hdir. exact Hd.
      * exfalso. apply Hn. split; [reflexivity|]. unfold dsts_of.
        destruct (w =? host)%N eqn:E; [apply N.eqb_eq in E; contradiction|]. apply elem_of_list_singleton. reflexivity.
    + intros Hwh c Hc Hcw. rewrite Hl, !Hcur.
      destruct (decide (host = w /\ _)) as [[E _]|_]; [congruence|]. apply (conv_k2 _ _ HC); assumption.
    + intros Hd. rewrite Hcur. apply (conv_n _ _ HC). rewrite <- Hdir. exact Hd.
  - destruct (disc_idle _ _ HD p Hpw) as [_ Ho].
    assert (Hlk : forall a b, link s' a b = link s a b).
    { intros a b. rewrite Hl, Ho, app_nil_r. destruct (decide _); reflexivity. }
    assert (Hout : forall q, poutq s' q = poutq s q).
    { intros q. destruct (decide (q = p)) as [->|Hne]; [rewrite Hop, Ho; reflexivity|]. unfold poutq. rewrite Hq by exact Hne. reflexivity. }
    split; rewrite ?Hcn.
    + intros Hwh Hd c Hc. rewrite Hlk, !Hcur, Hout. apply (conv_h1 _ _ HC); auto. rewrite <- Hdir. exact Hd.
    + intros Hwh Hd. rewrite !Hcur, Hout. apply (conv_h2 _ _ HC); auto. rewrite <- Hdir. exact Hd.
    + intros Hwh Hd. rewrite Hlk, !Hcur, Hout. apply (conv_k1 _ _ HC); auto. rewrite <- Hdir. exact Hd.
    + intros Hwh c Hc Hcw. rewrite Hlk, !Hcur. apply (conv_k2 _ _ HC); assumption.
    + intros Hd. rewrite Hcur. apply (conv_n _ _ HC). rewrite <- Hdir. exact Hd.
Qed.

Lemma conv_join w s c s' : vwf s -> Conv w s -> vstep s (VJoin c) = Some s' -> Conv w s'.
Proof.
  intros Hwf HC Hstep. apply step_join in Hstep as (Hch & Hcn & Hnone & Hcn' & _ & Hq & Hl).
  assert (Hcur : forall q, pcur s' q = pcur s q) by (intros; unfold pcur; rewrite Hq; reflexivity).
  assert (Hdir : forall q, pdirty s' q = pdirty s q) by (intros; unfold pdirty; rewrite Hq; reflexivity).
  assert (Hout : forall q, poutq s' q = poutq s q) by (intros; unfold poutq; rewrite Hq; reflexivity).
  assert (Hc0 : pcur s c = None) by (unfold pcur; rewrite (getp_none _ _ Hnone); reflexivity).
  assert (Hl0 : link s host c = []) by (apply wf_link_nil; [exact Hwf|apply wf_host, Hwf|exact Hcn]).
  split; rewrite ?Hcn'.
  - intros Hwh Hd c' Hc'. rewrite Hl, !Hcur, Hout. rewrite Hdir in Hd.
    destruct (decide ((host, c') = (host, c))) as [Heq|Hne].
    + inversion Heq; subst c'. rewrite Hl0, Hc0. simpl. rewrite lastd_app, lastd_snapshot. apply (conv_h2 _ _ HC); auto.
    + apply (conv_h1 _ _ HC); auto. apply elem_of_app in Hc' as [H|H]; [exact H|].
      apply elem_of_list_singleton in H. congruence.
  - intros Hwh Hd. rewrite !Hcur, Hout. apply (conv_h2 _ _ HC); auto. rewrite <- Hdir. exact Hd.
  - intros Hwh Hd. rewrite Hl, !Hcur, Hout.
    destruct (decide ((w, host) = (host, c))) as [Heq|_]; [inversion Heq; congruence|].
    apply (conv_k1 _ _ HC); auto. rewrite <- Hdir. exact Hd.
  - intros Hwh c' Hc' Hcw. rewrite Hl, !Hcur.
    destruct (decide ((host, c') = (host, c))) as [Heq|Hne].
    + inversion Heq; subst c'. rewrite Hl0, Hc0. simpl. apply lastd_snapshot.
    + apply (conv_k2 _ _ HC); auto. apply elem_of_app in Hc' as [H|H]; [exact H|].
      apply elem_of_list_singleton in H. congruence.
  - intros Hd. rewrite Hcur. apply (conv_n _ _ HC). rewrite <- Hdir. exact Hd.
Qed.

Lemma conv_deliver w s src dst s' :
  vwf s -> Disc w s -> Conv w s -> vstep s (VDeliver src dst) = Some s' -> Conv w s'.
Proof.
  intros Hwf HD HC Hstep.
  apply step_deliver in Hstep as (v & rest & Hl0 & _ & Hcn & _ & Hq & Hcase); [|apply wf_nodup, Hwf].
  assert (Hne0 : link s src dst <> []) by (rewrite Hl0; discriminate).
  destruct (deliver_shape w s src dst Hwf HD Hne0) as [Hdw Hshape].
  assert (Hdir : forall q, pdirty s' q = pdirty s q).
  { intros q. unfold pdirty. destruct (decide (q = dst)) as [->|Hne]; [|rewrite Hq by exact Hne; reflexivity].
    destruct Hcase as [(_ & Hp & _)|(_ & Hp & _)]; rewrite Hp; reflexivity. }
  assert (Hout : forall q, poutq s' q = poutq s q).
  { intros q. unfold poutq. destruct (decide (q = dst)) as [->|Hne]; [|rewrite Hq by exact Hne; reflexivity].
    destruct Hcase as [(_ & Hp & _)|(_ & Hp & _)]; rewrite Hp; reflexivity. }
  assert (Hcur : forall q, q <> dst -> pcur s' q = pcur s q).
  { intros q Hne. unfold pcur. rewrite Hq by exact Hne. reflexivity. }
  assert (Hcd : pcur s' dst = Some v).
  { unfold pcur. destruct Hcase as [(Hc & Hp & _)|(_ & Hp & _)]; rewrite Hp; [exact Hc|reflexivity]. }
  destruct Hshape as [(-> & -> & Hin)|[(Hwh & -> & ->)|(Hwh & -> & Hin)]].
  - (* writer = host, host -> client dst *)
    assert (Hdh : dst <> host) by exact Hdw.
    assert (Hlk : forall a b, link s' a b = if decide ((a, b) = (host, dst)) then rest else link s a b).
    { intros a b. destruct Hcase as [(_ & _ & Hl)|(_ & _ & Hl)]; rewrite Hl; [reflexivity|].
      destruct (decide (dst = host /\ _)) as [[E _]|_]; [contradiction|]. apply app_nil_r. }
    split; rewrite ?Hcn; try (intros; exfalso; congruence).
    + intros _ Hd c Hc. rewrite Hlk, Hout, (Hcur host) by congruence. rewrite Hdir in Hd.
      pose proof (conv_h1 _ _ HC eq_refl Hd c Hc) as H1.
      destruct (decide ((host, c) = (host, dst))) as [Heq|Hne].
      * inversion Heq; subst c. rewrite Hcd. rewrite Hl0, <- app_comm_cons, lastd_cons in H1. exact H1.
      * rewrite Hcur by congruence. exact H1.
    + intros _ Hd. rewrite Hout, (Hcur host) by congruence. apply (conv_h2 _ _ HC); auto. rewrite <- Hdir. exact Hd.
    + intros Hd. rewrite Hcur by congruence. apply (conv_n _ _ HC). rewrite <- Hdir. exact Hd.
  - (* writer = client w, w -> host *)
    split; rewrite ?Hcn; try (intros; exfalso; congruence).
    + intros _ Hd. rewrite Hout, Hcd, (Hcur w) by congruence. rewrite Hdir in Hd.
      pose proof (conv_k1 _ _ HC Hwh Hd) as H1. rewrite Hl0, <- app_comm_cons, lastd_cons in H1.
      destruct Hcase as [(_ & _ & Hl)|(_ & _ & Hl)]; rewrite Hl.
      * destruct (decide ((w, host) = (w, host))) as [_|Hn]; [exact H1|congruence].
      * destruct (decide ((w, host) = (w, host))) as [_|Hn]; [|congruence].
        destruct (decide (host = host /\ w = host /\ _)) as [(_ & E & _)|_]; [congruence|]. rewrite app_nil_r. exact H1.
    + intros _ c Hc Hcw. rewrite Hcd.
      assert (Hch : c <> host) by (intros ->; apply (wf_host s Hwf Hc)).
      rewrite (Hcur c) by exact Hch.
      pose proof (conv_k2 _ _ HC Hwh c Hc Hcw) as H2.
      destruct Hcase as [(Hc0 & _ & Hl)|(_ & _ & Hl)]; rewrite Hl.
      * destruct (decide ((host, c) = (w, host))) as [Heq|_]; [inversion Heq; congruence|].
        rewrite H2. exact Hc0.
      * destruct (decide ((host, c) = (w, host))) as [Heq|_]; [inversion Heq; congruence|].
        destruct (decide (host = host /\ host = host /\ c ∈ others w (vconn s))) as [_|Hn].
        -- apply lastd_snoc.
        -- exfalso. apply Hn. split; [reflexivity|]. split; [reflexivity|]. apply elem_of_others. auto.
    + intros Hd. rewrite Hcur by congruence. apply (conv_n _ _ HC). rewrite <- Hdir. exact Hd.
  - (* writer = client w, host -> another client dst *)
    assert (Hdh : dst <> host) by (intros ->; apply (wf_host s Hwf Hin)).
    assert (Hlk : forall a b, link s' a b = if decide ((a, b) = (host, dst)) then rest else link s a b).
    { intros a b. destruct Hcase as [(_ & _ & Hl)|(_ & _ & Hl)]; rewrite Hl; [reflexivity|].
      destruct (decide (dst = host /\ _)) as [[E _]|_]; [contradiction|]. apply app_nil_r. }
    split; rewrite ?Hcn; try (intros; exfalso; congruence).
    + intros _ Hd. rewrite Hlk, Hout, (Hcur host), (Hcur w) by congruence.
      destruct (decide ((w, host) = (host, dst))) as [Heq|_]; [inversion Heq; congruence|].
      apply (conv_k1 _ _ HC); auto. rewrite <- Hdir. exact Hd.
    + intros _ c Hc Hcw. rewrite Hlk, (Hcur host) by congruence.
      pose proof (conv_k2 _ _ HC Hwh c Hc Hcw) as H2.
      destruct (decide ((host, c) = (host, dst))) as [Heq|Hne].
      * inversion Heq; subst c. rewrite Hcd. rewrite Hl0, lastd_cons in H2. exact H2.
      * rewrite Hcur by congruence. exact H2.
    + intros Hd. rewrite Hcur by congruence. apply (conv_n _ _ HC). rewrite <- Hdir. exact Hd.
Qed.

(* ---------- the phase invariant is inductive ------------------------------------------------------ *)

Lemma phase_step w s e s' : vwf s -> Phase w s -> writes_by w e -> vstep s e = Some s' -> Phase w s'.
Proof.
  intros Hwf [HD HC] Hok Hstep. split.
  - destruct (decide (e = VJoin w)) as [->|Hne].
    + (* w itself joins: nobody has a value yet, the snapshot is empty *)
      pose proof Hstep as Hstep0.
      apply step_join in Hstep as (Hwh & Hcn & Hnone & _ & _ & Hq & Hl).
      assert (Hh : pcur s host = None).
      { pose proof (conv_k1 _ _ HC Hwh) as H1. unfold pdirty, poutq, pcur in H1. rewrite (getp_none _ _ Hnone) in H1.
        rewrite (wf_link_nil s w host Hwf Hcn (wf_host s Hwf)) in H1. simpl in H1. apply H1. reflexivity. }
      assert (Hlk : forall a b, link s' a b = link s a b).
      { intros a b. rewrite Hl. unfold snapshot. rewrite Hh, app_nil_r. destruct (decide _) as [Heq|_]; [|reflexivity].
        inversion Heq; subst. reflexivity. }
      destruct HD as [HA HB HI HU]. split; unfold pdirty, poutq, ptoken in *.
      * intros p Hp. rewrite Hq. apply HA, Hp.
      * rewrite Hq. exact HB.
      * intros c. rewrite Hlk. apply HI.
      * intros c Hc. rewrite Hlk. apply HU, Hc.
    + eapply disc_step; eauto. destruct e; simpl in *; auto. congruence.
  - destruct e as [p v|p|p|src dst|c]; simpl in Hok.
    + subst p. eapply conv_write; eauto.
    + eapply conv_detect; eauto.
    + eapply conv_send; eauto.
    + eapply conv_deliver; eauto.
    + eapply conv_join; eauto.
Qed.

Definition no_write (e : vevent) : Prop := match e with VWrite _ _ => False | _ => True end.

(* the writer's own value is only changed by its writes *)
Lemma phase_cur_w w s e s' : vwf s -> Disc w s -> no_write e -> vstep s e = Some s' -> pcur s' w = pcur s w.
Proof.
  intros Hwf HD Hnw Hstep. destruct e as [p v|p|p|src dst|c]; simpl in Hnw; [contradiction| | | |].
  - apply step_detect in Hstep as (_ & _ & _ & _ & Hp & Hq). unfold pcur.
    destruct (decide (w = p)) as [->|Hne]; [rewrite Hp; apply detect'_cur|rewrite Hq by exact Hne; reflexivity].
  - apply step_send in Hstep as (_ & _ & _ & Hp & Hq & _); [|apply wf_nodup, Hwf]. unfold pcur.
    destruct (decide (w = p)) as [->|Hne]; [rewrite Hp; reflexivity|rewrite Hq by exact Hne; reflexivity].
  - apply step_deliver in Hstep as (v & rest & Hl0 & _ & _ & _ & Hq & _); [|apply wf_nodup, Hwf].
    unfold pcur. rewrite Hq; [reflexivity|]. intros ->. rewrite (disc_in _ _ HD) in Hl0. discriminate.
  - apply step_join in Hstep as (_ & _ & _ & _ & _ & Hq & _). unfold pcur. rewrite Hq. reflexivity.
Qed.

(* ---------- quiescence and agreement ---------------------------------------------------------------- *)

Definition Agree (s : vstate) (x : option value) : Prop := forall p, peers s p -> pcur s p = x.

Lemma phase_quiescent_agree w s : vquiescent s -> Phase w s -> Agree s (pcur s w).
Proof.
  intros Hq [HD HC] p Hp.
  assert (Hd : forall q, pdirty s q = false) by (intros q; apply (quiescent_peer s q Hq)).
  assert (Ho : forall q, poutq s q = []) by (intros q; apply (quiescent_peer s q Hq)).
  destruct (decide (w = host)) as [->|Hwh].
  - destruct Hp as [->|Hp]; [reflexivity|].
    pose proof (conv_h1 _ _ HC eq_refl (Hd host) p Hp) as H1.
    rewrite (quiescent_link s host p Hq), Ho in H1. exact H1.
  - pose proof (conv_k1 _ _ HC Hwh (Hd w)) as H1. rewrite (quiescent_link s w host Hq), Ho in H1. simpl in H1.
    destruct Hp as [->|Hp]; [exact H1|].
    destruct (decide (p = w)) as [->|Hpw]; [reflexivity|].
    pose proof (conv_k2 _ _ HC Hwh p Hp Hpw) as H2. rewrite (quiescent_link s host p Hq) in H2. simpl in H2. congruence.
Qed.

Lemma agree_quiescent_phase w s x : vquiescent s -> Agree s x -> peers s w -> Phase w s.
Proof.
  intros Hq Ha Hw. split; [apply quiescent_disc, Hq|].
  assert (Hd : forall q, pdirty s q = false) by (intros q; apply (quiescent_peer s q Hq)).
  assert (Ho : forall q, poutq s q = []) by (intros q; apply (quiescent_peer s q Hq)).
  assert (Hh : pcur s host = x) by (apply Ha; left; reflexivity).
  split.
  - intros _ _ c Hc. rewrite (quiescent_link s host c Hq), Ho. simpl. rewrite Hh. apply Ha. right. exact Hc.
  - intros _ _. rewrite Ho. reflexivity.
  - intros _ _. rewrite (quiescent_link s w host Hq), Ho. simpl. rewrite Hh. symmetry. apply Ha, Hw.
  - intros _ c Hc _. rewrite (quiescent_link s host c Hq). simpl. rewrite Hh. apply Ha. right. exact Hc.
  - intros H. rewrite Hd in H. discriminate.
Qed.

(* ================================================================================================
   Part 5: C02 -- drain-separated writers converge to the most recent write
   ================================================================================================ *)

Definition owner (g : option peer) : peer := default host g.

Record C02Inv (g : option peer) (blk : list peer) (lw : option value) (s : vstate) : Prop := {
  c02_wf : vwf s;
  c02_phase : forall w, peers s w -> g = None \/ g = Some w -> w ∉ blk -> Phase w s;
  c02_owner : peers s (owner g) /\ owner g ∉ blk;
  c02_last : pcur s (owner g) = lw
}.

Lemma peers_step s e s' p : vstep s e = Some s' -> peers s p -> peers s' p.
Proof.
  intros Hstep [->|Hp]; [left; reflexivity|]. right. destruct e as [q v|q|q|src dst|c].
  - apply step_write in Hstep as (_ & -> & _). exact Hp.
  - apply step_detect in Hstep as (_ & -> & _). exact Hp.
  - simpl in Hstep. destruct (vp s !! q); [|discriminate]. destruct (outq v); inversion Hstep; subst; exact Hp.
  - simpl in Hstep. destruct (link s src dst); [discriminate|]. destruct (vp s !! dst); [|discriminate].
    destruct (bool_decide _); inversion Hstep; subst; exact Hp.
  - apply step_join in Hstep as (_ & _ & _ & -> & _). apply elem_of_app. left. exact Hp.
Qed.

Lemma peers_step_inv s e s' p : vstep s e = Some s' -> peers s' p -> peers s p \/ e = VJoin p.
Proof.
  intros Hstep [->|Hp]; [left; left; reflexivity|]. destruct e as [q v|q|q|src dst|c].
  - apply step_write in Hstep as (_ & Hc & _). rewrite Hc in Hp. left; right; exact Hp.
  - apply step_detect in Hstep as (_ & Hc & _). rewrite Hc in Hp. left; right; exact Hp.
  - simpl in Hstep. destruct (vp s !! q); [|discriminate]. destruct (outq v); inversion Hstep; subst; left; right; exact Hp.
  - simpl in Hstep. destruct (link s src dst); [discriminate|]. destruct (vp s !! dst); [|discriminate].
    destruct (bool_decide _); inversion Hstep; subst; left; right; exact Hp.
  - apply step_join in Hstep as (_ & _ & _ & Hc & _). rewrite Hc in Hp. apply elem_of_app in Hp as [Hp|Hp].
    + left; right; exact Hp. + apply elem_of_list_singleton in Hp. subst. right. reflexivity.
Qed.

Lemma c02_reset g blk lw s :
  C02Inv g blk lw s ->
  C02Inv (if vquiescentb s then None else g) (if vquiescentb s then [] else blk) lw s.
Proof.
  intros HI. unfold vquiescentb. destruct (bool_decide (vquiescent s)) eqn:Hq; [|exact HI].
  apply bool_decide_eq_true in Hq. destruct HI as [Hwf Hph [Hop Hob] Hl].
  pose proof (phase_quiescent_agree _ _ Hq (Hph (owner g) Hop
    (match g return g = None \/ g = Some (owner g) with None => or_introl eq_refl | Some w => or_intror eq_refl end) Hob)) as Hag.
  rewrite Hl in Hag. split.
  - exact Hwf.
  - intros w Hw _ _. eapply agree_quiescent_phase; eauto.
  - split; [left; reflexivity|]. apply not_elem_of_nil.
  - apply Hag. left. reflexivity.
Qed.

Lemma C02_general tr : forall g blk lw s s',
  C02Inv g blk lw s -> vrun s tr = Some s' -> ds_from g s tr = true -> js_from blk s tr = true ->
  exists g' blk', C02Inv g' blk' (lastd lw (written tr)) s'.
Proof.
  induction tr as [|e tr IH]; intros g blk lw s s' HI Hrun Hds Hjs.
  - simpl in Hrun. inversion Hrun; subst. exists g, blk. exact HI.
  - cbn [vrun] in Hrun. cbn [ds_from] in Hds. cbn [js_from] in Hjs.
    destruct (vstep s e) as [s1|] eqn:Hstep; [|discriminate].
    apply c02_reset in HI. revert HI Hds Hjs.
    generalize (if vquiescentb s then None else g). generalize (if vquiescentb s then [] else blk).
    clear g blk. intros blk g HI Hds Hjs.
    destruct HI as [Hwf Hph [Hop Hob] Hl].
    pose proof (step_wf _ _ _ Hwf Hstep) as Hwf1.
    assert (Hown : Phase (owner g) s) by (apply Hph; auto; destruct g; [right|left]; reflexivity).
    destruct e as [p v|p|p|src dst|c].
    + (* a write: p takes the phase *)
      apply andb_prop in Hds as [Hg Hds]. apply bool_decide_eq_true in Hg.
      apply andb_prop in Hjs as [Hb Hjs]. apply bool_decide_eq_true in Hb.
      assert (Hpp : peers s p).
      { apply step_write in Hstep as (Hex & _). apply (wf_exists s p Hwf), Hex. }
      pose proof (phase_step p s (VWrite p v) s1 Hwf (Hph p Hpp Hg Hb) eq_refl Hstep) as Hp1.
      change (written (VWrite p v :: tr)) with (v :: written tr). rewrite lastd_cons.
      eapply (IH (Some p) blk); [|exact Hrun|exact Hds|exact Hjs].
      split; [exact Hwf1| |split; [eapply peers_step; eauto|exact Hb]|].
      * intros w _ [Hn|Hn] _; [discriminate|]. inversion Hn; subst. exact Hp1.
      * simpl. apply step_write in Hstep as (_ & _ & _ & _ & Hpv & _). unfold pcur. rewrite Hpv. reflexivity.
    + cbn [written omap]. eapply (IH g blk); [|exact Hrun|exact Hds|exact Hjs].
      split; [exact Hwf1| |split; [eapply peers_step; eauto|exact Hob]|].
      * intros w Hw Hg Hb. destruct (peers_step_inv _ _ _ _ Hstep Hw) as [Hw0|Hx]; [|discriminate].
        eapply phase_step; [exact Hwf|exact (Hph w Hw0 Hg Hb)| |exact Hstep]; exact I.
      * rewrite <- Hl. eapply phase_cur_w; [exact Hwf|exact (proj1 Hown)| |exact Hstep]; exact I.
    + cbn [written omap]. eapply (IH g blk); [|exact Hrun|exact Hds|exact Hjs].
      split; [exact Hwf1| |split; [eapply peers_step; eauto|exact Hob]|].
      * intros w Hw Hg Hb. destruct (peers_step_inv _ _ _ _ Hstep Hw) as [Hw0|Hx]; [|discriminate].
        eapply phase_step; [exact Hwf|exact (Hph w Hw0 Hg Hb)| |exact Hstep]; exact I.
      * rewrite <- Hl. eapply phase_cur_w; [exact Hwf|exact (proj1 Hown)| |exact Hstep]; exact I.
    + cbn [written omap]. eapply (IH g blk); [|exact Hrun|exact Hds|exact Hjs].
      split; [exact Hwf1| |split; [eapply peers_step; eauto|exact Hob]|].
      * intros w Hw Hg Hb. destruct (peers_step_inv _ _ _ _ Hstep Hw) as [Hw0|Hx]; [|discriminate].
        eapply phase_step; [exact Hwf|exact (Hph w Hw0 Hg Hb)| |exact Hstep]; exact I.
      * rewrite <- Hl. eapply phase_cur_w; [exact Hwf|exact (proj1 Hown)| |exact Hstep]; exact I.
    + (* a join: the joiner is blocked until the next quiescent state *)
      cbn [written omap]. eapply (IH g (c :: blk)); [|exact Hrun|exact Hds|exact Hjs].
      pose proof Hstep as Hj. apply step_join in Hj as (Hch & Hcn & _).
      assert (Hnp : ~ peers s c) by (intros [?|?]; contradiction).
      split; [exact Hwf1| |split; [eapply peers_step; eauto|]|].
      * intros w Hw Hg Hb. apply not_elem_of_cons in Hb as [Hwc Hb].
        destruct (peers_step_inv _ _ _ _ Hstep Hw) as [Hw0|Hx]; [|inversion Hx; congruence].
        eapply phase_step; [exact Hwf|exact (Hph w Hw0 Hg Hb)| |exact Hstep]; exact I.
      * apply not_elem_of_cons. split; [|exact Hob]. intros Heq. apply Hnp. rewrite <- Heq. exact Hop.
      * rewrite <- Hl. eapply phase_cur_w; [exact Hwf|exact (proj1 Hown)| |exact Hstep]; exact I.
Qed.

Lemma c02_init n : C02Inv None [] None (vinit n).
Proof.
  split.
  - apply vinit_wf.
  - intros w Hw _ _. apply (agree_quiescent_phase w _ None (vinit_quiescent n)); [|exact Hw].
    intros p _. unfold pcur. rewrite vinit_getp. reflexivity.
  - split; [left; reflexivity|apply not_elem_of_nil].
  - unfold pcur. rewrite vinit_getp. reflexivity.
Qed.

Lemma c02_agree g blk lw s : C02Inv g blk lw s -> vquiescent s -> Agree s lw.
Proof.
  intros [Hwf Hph [Hop Hob] Hl] Hq. rewrite <- Hl. apply phase_quiescent_agree; [exact Hq|].
  apply Hph; auto. destruct g; [right|left]; reflexivity.
Qed.

Lemma lastd_None_last l : lastd None l = last l.
Proof. rewrite lastd_last. destruct (last l); reflexivity. Qed.

(* C02: with drain-separated writers (and joiners that do not write before their snapshot has settled),
   at a quiescent state every peer (host and every connected client) holds the most recent write. *)
Theorem C02_values_converge n tr s' :
  vrun (vinit n) tr = Some s' ->
  drain_separated (vinit n) tr -> joiners_settled (vinit n) tr ->
  vquiescent s' ->
  forall p, peers s' p -> pcur s' p = last (written tr).
Proof.
  intros Hrun Hds Hjs Hq.
  destruct (C02_general tr None [] None (vinit n) s' (c02_init n) Hrun Hds Hjs) as (g' & blk' & HI).
  rewrite <- lastd_None_last. exact (c02_agree _ _ _ _ HI Hq).
Qed.
Print Assumptions C02_values_converge.

(* the hypotheses are prefix-closed, so the statement holds at EVERY quiescent state along the run *)
Lemma vrun_app s tr1 tr2 : vrun s (tr1 ++ tr2) = match vrun s tr1 with Some s1 => vrun s1 tr2 | None => None end.
Proof.
  revert s. induction tr1 as [|e tr1 IH]; intros s; simpl; [reflexivity|]. destruct (vstep s e); [apply IH|reflexivity].
Qed.
Lemma ds_from_prefix g s tr1 tr2 : ds_from g s (tr1 ++ tr2) = true -> ds_from g s tr1 = true.
Proof.
  revert g s. induction tr1 as [|e tr1 IH]; intros g s H; [reflexivity|].
  cbn [app ds_from] in *. destruct (vstep s e) as [s1|]; [|reflexivity].
  destruct e; try (eapply IH; exact H).
  apply andb_prop in H as [H1 H2]. rewrite H1. simpl. eapply IH; exact H2.
Qed.
Lemma js_from_prefix blk s tr1 tr2 : js_from blk s (tr1 ++ tr2) = true -> js_from blk s tr1 = true.
Proof.
  revert blk s. induction tr1 as [|e tr1 IH]; intros blk s H; [reflexivity|].
  cbn [app js_from] in *. destruct (vstep s e) as [s1|]; [|reflexivity].
  destruct e; try (eapply IH; exact H).
  apply andb_prop in H as [H1 H2]. rewrite H1. simpl. eapply IH; exact H2.
Qed.

Theorem C02_every_quiescent_state n tr1 tr2 s1 :
  drain_separated (vinit n) (tr1 ++ tr2) -> joiners_settled (vinit n) (tr1 ++ tr2) ->
  is_Some (vrun (vinit n) (tr1 ++ tr2)) ->
  vrun (vinit n) tr1 = Some s1 -> vquiescent s1 ->
  forall p, peers s1 p -> pcur s1 p = last (written tr1).
Proof.
  intros Hds Hjs _ Hrun Hq. eapply C02_values_converge; eauto.
  - eapply ds_from_prefix; exact Hds. - eapply js_from_prefix; exact Hjs.
Qed.
Print Assumptions C02_every_quiescent_state.

(* non-vacuity: three writers taking turns, a client joining in between *)
Definition ex_turns : list vevent :=
  [VWrite 1 10; VDetect 1; VSend 1; VDeliver 1 0; VDeliver 0 2; VDetect 0; VDetect 2;
   VWrite 0 20; VJoin 3; VDetect 0; VSend 0; VDeliver 0 1; VDeliver 0 2; VDeliver 0 3; VDeliver 0 3;
   VDetect 1; VDetect 2; VDetect 3;
   VWrite 3 30; VWrite 3 31; VDetect 3; VSend 3; VDeliver 3 0; VDeliver 0 1; VDeliver 0 2;
   VDetect 0; VDetect 1; VDetect 2].
Example C02_nonvacuous :
  drain_separated (vinit 2) ex_turns /\ joiners_settled (vinit 2) ex_turns /\
  (fun s => view s [0; 1; 2; 3]) <$> vrun (vinit 2) ex_turns = Some ([Some 31; Some 31; Some 31; Some 31], true).
Proof. vm_compute. auto. Qed.

(* without drain separation: two peers end quiescent with different values *)
Definition ex_conflict : list vevent :=
  [VWrite 1 10; VWrite 2 20; VDetect 1; VDetect 2; VSend 1; VSend 2; VDeliver 1 0; VDeliver 2 0;
   VDeliver 0 2; VDeliver 0 1; VDetect 0; VDetect 1; VDetect 2].
Example C02_conflict_example :
  ds_from None (vinit 2) ex_conflict = false /\
  (fun s => view s [0; 1; 2]) <$> vrun (vinit 2) ex_conflict = Some ([Some 20; Some 20; Some 10], true).
Proof. vm_compute. auto. Qed.

(* without drain separation: a local write is swallowed with the token (never announced) *)
Example C02_lost_write_example :
  let tr := [VWrite 1 10; VDetect 1; VSend 1; VDeliver 1 0; VDeliver 0 2; VWrite 2 99; VDetect 2; VDetect 0] in
  ds_from None (vinit 2) tr = false /\
  (fun s => view s [0; 1; 2]) <$> vrun (vinit 2) tr = Some ([Some 10; Some 10; Some 99], true).
Proof. vm_compute. auto. Qed.

(* drain separation alone is not enough: a client that writes before its own snapshot has settled
   loses the write (the snapshot's token swallows it) -- hence [joiners_settled]. *)
Definition ex_join_write : list vevent :=
  [VWrite 0 5; VDetect 0; VSend 0; VDeliver 0 1; VDetect 1; VJoin 2; VDeliver 0 2; VWrite 2 7; VDetect 2].
Theorem C02_join_write_refuted :
  exists n tr s' p,
    vrun (vinit n) tr = Some s' /\ drain_separated (vinit n) tr /\ vquiescent s' /\ peers s' p /\
    pcur s' p <> last (written tr) /\ ~ joiners_settled (vinit n) tr.
Proof.
  exists 1%nat, ex_join_write.
  destruct (vrun (vinit 1) ex_join_write) as [s'|] eqn:Hrun; [|vm_compute in Hrun; discriminate].
  exists s', 0. split; [reflexivity|]. split; [vm_compute; reflexivity|].
  assert (Hv : view s' [0; 2] = ([Some 5; Some 7], true)).
  { assert (H : (fun s => view s [0; 2]) <$> vrun (vinit 1) ex_join_write = Some ([Some 5; Some 7], true)) by (vm_compute; reflexivity).
    rewrite Hrun in H. simpl in H. congruence. }
  inversion Hv as [[H0 H2 Hq]]. split; [apply bool_decide_eq_true in Hq; exact Hq|].
  split; [left; reflexivity|]. split.
  - rewrite H0. vm_compute. congruence.
  - unfold joiners_settled. vm_compute. discriminate.
Qed.

(* ================================================================================================
   Part 6: C10 -- a single writer's updates are observed in order, never invented
   Positions: [at_ W k] is the k-th written value (1-based; 0 = "no value yet").
   [chain W lo l hi]: the values of l sit at non-decreasing positions of W between lo and hi.
   ================================================================================================ *)

Definition at_ (W : list value) (k : nat) : option value := match k with O => None | S j => W !! j end.

Inductive chain (W : list value) : nat -> list value -> nat -> Prop :=
| chain_nil lo hi : (lo <= hi)%nat -> chain W lo [] hi
| chain_cons lo j v l hi : (lo <= j)%nat -> at_ W j = Some v -> chain W j l hi -> chain W lo (v :: l) hi.

Lemma chain_le W lo l hi : chain W lo l hi -> (lo <= hi)%nat.
Proof. induction 1; lia. Qed.
Lemma chain_lo W lo lo' l hi : (lo' <= lo)%nat -> chain W lo l hi -> chain W lo' l hi.
Proof. intros Hle H. destruct H; [apply chain_nil; lia|eapply chain_cons; [|eassumption|eassumption]; lia]. Qed.
Lemma chain_hi W lo l hi hi' : (hi <= hi')%nat -> chain W lo l hi -> chain W lo l hi'.
Proof. intros Hle H. induction H; [apply chain_nil; lia|eapply chain_cons; [eassumption|eassumption|auto]]. Qed.
Lemma chain_snoc W lo l hi v : chain W lo l hi -> at_ W hi = Some v -> chain W lo (l ++ [v]) hi.
Proof.
  intros H Hv. induction H as [lo hi Hle|lo j v0 l hi Hle Hat Hc IH]; simpl.
  - eapply chain_cons; [exact Hle|exact Hv|apply chain_nil; lia].
  - eapply chain_cons; eauto.
Qed.
Lemma at_mono W v k x : at_ W k = Some x -> at_ (W ++ [v]) k = Some x.
Proof. destruct k as [|j]; simpl; [discriminate|]. intros H. apply lookup_app_l_Some. exact H. Qed.
Lemma at_app_le W v k : (k <= length W)%nat -> at_ (W ++ [v]) k = at_ W k.
Proof. destruct k as [|j]; simpl; [reflexivity|]. intros H. apply lookup_app_l. lia. Qed.
Lemma at_last W v : at_ (W ++ [v]) (S (length W)) = Some v.
Proof. simpl. apply list_lookup_middle. reflexivity. Qed.
Lemma at_elem W k v : at_ W k = Some v -> v ∈ W.
Proof. destruct k; simpl; [discriminate|]. apply elem_of_list_lookup_2. Qed.
Lemma chain_mono W v lo l hi : chain W lo l hi -> chain (W ++ [v]) lo l hi.
Proof. intros H. induction H; [apply chain_nil; assumption|eapply chain_cons; eauto using at_mono]. Qed.
Lemma chain_head W lo v l hi :
  chain W lo (v :: l) hi -> exists j, (lo <= j)%nat /\ at_ W j = Some v /\ chain W j l hi.
Proof. intros H. inversion H; subst. eauto. Qed.

Lemma sublist_take_le {A} (l : list A) i j : (i <= j)%nat -> take i l `sublist_of` take j l.
Proof.
  intros Hle. replace i with (i `min` j)%nat by lia. rewrite <- take_take. apply sublist_take.
Qed.

(* a displayed change lands strictly later in W *)
Lemma disp_extend W D i j v :
  D `sublist_of` take i W -> (i <= j)%nat -> at_ W i <> Some v -> at_ W j = Some v ->
  D ++ [v] `sublist_of` take j W.
Proof.
  intros HD Hle Hne Hj. destruct j as [|j0]; [discriminate|]. simpl in Hj.
  assert (Hij : (i <= j0)%nat). { destruct (decide (i = S j0)) as [->|]; [simpl in Hne; contradiction|lia]. }
  rewrite (take_S_r _ _ _ Hj). apply sublist_app; [|reflexivity].
  etransitivity; [exact HD|]. apply sublist_take_le. exact Hij.
Qed.

Definition delta (p : peer) (s s' : vstate) : list value :=
  if bool_decide (pcur s' p = pcur s p) then [] else match pcur s' p with Some v => [v] | None => [] end.

Definition upd (pos : peer -> nat) (q : peer) (k : nat) : peer -> nat := fun p => if decide (p = q) then k else pos p.
Lemma upd_eq pos q k : upd pos q k q = k.
Proof. unfold upd. destruct (decide (q = q)); congruence. Qed.
Lemma upd_ne pos q k p : p <> q -> upd pos q k p = pos p.
Proof. intros H. unfold upd. destruct (decide (p = q)); congruence. Qed.

Record PosI (w : peer) (W : list value) (D : peer -> list value) (s : vstate) (pos : peer -> nat) : Prop := {
  pi_cur : forall p, pcur s p = at_ W (pos p);
  pi_le : forall p, (pos p <= length W)%nat;
  pi_w : pos w = length W;
  pi_non : forall p, p <> w -> ~ peers s p -> pos p = O;
  pi_disp : forall p, p <> w -> D p `sublist_of` take (pos p) W;
  pi_h : w = host -> forall c, c ∈ vconn s -> chain W (pos c) (link s host c ++ poutq s host) (length W);
  pi_k1 : w <> host -> chain W (pos host) (link s w host ++ poutq s w) (length W);
  pi_k2 : w <> host -> forall c, c ∈ vconn s -> c <> w -> chain W (pos c) (link s host c) (pos host)
}.

Lemma delta_same p s s' : pcur s' p = pcur s p -> delta p s s' = [].
Proof. intros H. unfold delta. rewrite bool_decide_eq_true_2 by exact H. reflexivity. Qed.

Lemma pos_write w W D s pos v s' :
  vwf s -> PosI w W D s pos -> vstep s (VWrite w v) = Some s' ->
  PosI w (W ++ [v]) (fun p => D p ++ delta p s s') s' (upd pos w (S (length W))).
Proof.
  intros Hwf HP Hstep. apply step_write in Hstep as (_ & Hcn & Hl & _ & Hp & Hq).
  assert (Hcur : forall p, p <> w -> pcur s' p = pcur s p) by (intros p Hne; unfold pcur; rewrite Hq by exact Hne; reflexivity).
  assert (Hout : forall p, poutq s' p = poutq s p).
  { intros p. unfold poutq. destruct (decide (p = w)) as [->|Hne]; [rewrite Hp; reflexivity|rewrite Hq by exact Hne; reflexivity]. }
  assert (Hlk : forall a b, link s' a b = link s a b) by (intros; unfold link; rewrite Hl; reflexivity).
  assert (Hlen : length (W ++ [v]) = S (length W)) by (rewrite app_length; simpl; lia).
  split; rewrite ?Hcn, ?Hlen.
  - intros p. destruct (decide (p = w)) as [->|Hne].
    + rewrite upd_eq. unfold pcur. rewrite Hp. simpl. symmetry. apply list_lookup_middle. reflexivity.
    + rewrite upd_ne, Hcur by exact Hne. rewrite at_app_le by apply (pi_le _ _ _ _ _ HP). apply (pi_cur _ _ _ _ _ HP).
  - intros p. unfold upd. destruct (decide (p = w)); [lia|]. pose proof (pi_le _ _ _ _ _ HP p). lia.
  - apply upd_eq.
  - intros p Hne Hnp. rewrite upd_ne by exact Hne. apply (pi_non _ _ _ _ _ HP); [exact Hne|].
    unfold peers in *. rewrite Hcn in Hnp. exact Hnp.
  - intros p Hne. rewrite upd_ne, delta_same, app_nil_r by auto.
    rewrite take_app_le by apply (pi_le _ _ _ _ _ HP). apply (pi_disp _ _ _ _ _ HP), Hne.
  - intros Hwh c Hc. assert (c <> w) by (intros ->; subst; apply (wf_host s Hwf Hc)).
    rewrite upd_ne, Hlk, Hout by assumption. apply chain_mono. eapply chain_hi; [|apply (pi_h _ _ _ _ _ HP); auto]. lia.
  - intros Hwh. rewrite upd_ne, Hlk, Hout by congruence. apply chain_mono. eapply chain_hi; [|apply (pi_k1 _ _ _ _ _ HP); auto]. lia.
  - intros Hwh c Hc Hcw. rewrite !upd_ne, Hlk by congruence. apply chain_mono. apply (pi_k2 _ _ _ _ _ HP); auto.
Qed.

(* events that change no displayed value and no membership: only the chains must be re-established *)
Lemma pos_transfer w W D s pos s' :
  (forall p, pcur s' p = pcur s p) -> vconn s' = vconn s ->
  (w = host -> forall c, c ∈ vconn s -> chain W (pos c) (link s' host c ++ poutq s' host) (length W)) ->
  (w <> host -> chain W (pos host) (link s' w host ++ poutq s' w) (length W)) ->
  (w <> host -> forall c, c ∈ vconn s -> c <> w -> chain W (pos c) (link s' host c) (pos host)) ->
  PosI w W D s pos -> PosI w W (fun p => D p ++ delta p s s') s' pos.
Proof.
  intros Hcur Hcn H1 H2 H3 HP. split; rewrite ?Hcn; try assumption.
  - intros p. rewrite Hcur. apply (pi_cur _ _ _ _ _ HP).
  - apply (pi_le _ _ _ _ _ HP).
  - apply (pi_w _ _ _ _ _ HP).
  - intros p Hne Hnp. apply (pi_non _ _ _ _ _ HP); [exact Hne|]. unfold peers in *. rewrite Hcn in Hnp. exact Hnp.
  - intros p Hne. rewrite delta_same, app_nil_r by apply Hcur. apply (pi_disp _ _ _ _ _ HP), Hne.
Qed.

Lemma pos_detect w W D s pos p s' :
  Phase w s -> PosI w W D s pos -> vstep s (VDetect p) = Some s' ->
  PosI w W (fun q => D q ++ delta q s s') s' pos.
Proof.
  intros [HD HC] HP Hstep. apply step_detect in Hstep as (_ & Hcn & Hl & _ & Hp & Hq).
  assert (Hcur : forall q, pcur s' q = pcur s q).
  { intros q. unfold pcur. destruct (decide (q = p)) as [->|Hne]; [rewrite Hp; apply detect'_cur|rewrite Hq by exact Hne; reflexivity]. }
  assert (Hlk : forall a b, link s' a b = link s a b) by (intros; unfold link; rewrite Hl; reflexivity).
  assert (Hout : forall q, q <> w -> poutq s' q = poutq s q).
  { intros q Hne. unfold poutq. destruct (decide (q = p)) as [->|Hqp]; [|rewrite Hq by exact Hqp; reflexivity].
    rewrite Hp. destruct (disc_idle _ _ HD p Hne) as [Hd _]. apply (detect'_clean _ Hd). }
  assert (Hw : poutq s' w = poutq s w \/ exists v, poutq s' w = poutq s w ++ [v] /\ at_ W (length W) = Some v).
  { destruct (decide (w = p)) as [->|Hne]; [|left; unfold poutq; rewrite Hq by exact Hne; reflexivity].
    unfold poutq. rewrite Hp. destruct (pdirty s p) eqn:Hd.
    - right. destruct (conv_n _ _ HC Hd) as [v Hv]. exists v.
      destruct (detect'_dirty _ Hd (disc_token _ _ HD)) as [_ Ho]. fold (pcur s p) in Ho. rewrite Hv in Ho.
      split; [exact Ho|]. rewrite <- (pi_w _ _ _ _ _ HP), <- (pi_cur _ _ _ _ _ HP). exact Hv.
    - left. apply (detect'_clean _ Hd). }
  apply pos_transfer; try assumption.
  - intros -> c Hc. rewrite Hlk. destruct Hw as [->|(v & -> & Hv)]; [apply (pi_h _ _ _ _ _ HP); auto|].
    rewrite app_assoc. apply chain_snoc; [apply (pi_h _ _ _ _ _ HP); auto|exact Hv].
  - intros Hwh. rewrite Hlk. destruct Hw as [->|(v & -> & Hv)]; [apply (pi_k1 _ _ _ _ _ HP); auto|].
    rewrite app_assoc. apply chain_snoc; [apply (pi_k1 _ _ _ _ _ HP); auto|exact Hv].
  - intros Hwh c Hc Hcw. rewrite Hlk. apply (pi_k2 _ _ _ _ _ HP); auto.
Qed.

Lemma pos_send w W D s pos p s' :
  vwf s -> Phase w s -> PosI w W D s pos -> vstep s (VSend p) = Some s' ->
  PosI w W (fun q => D q ++ delta q s s') s' pos.
Proof.
  intros Hwf [HD HC] HP Hstep.
  apply step_send in Hstep as (_ & Hcn & _ & Hp & Hq & Hl); [|apply wf_nodup, Hwf].
  assert (Hcur : forall q, pcur s' q = pcur s q).
  { intros q. unfold pcur. destruct (decide (q = p)) as [->|Hne]; [rewrite Hp; reflexivity|rewrite Hq by exact Hne; reflexivity]. }
  assert (Hop : poutq s' p = []) by (unfold poutq; rewrite Hp; reflexivity).
  destruct (decide (p = w)) as [->|Hpw].
  - apply pos_transfer; try assumption.
    + intros -> c Hc. rewrite Hop, app_nil_r, Hl.
      destruct (decide (host = host /\ c ∈ dsts_of s host)) as [_|Hn]; [|exfalso; apply Hn; auto].
      apply (pi_h _ _ _ _ _ HP); auto.
    + intros Hwh. rewrite Hop, app_nil_r, Hl.
      destruct (decide (w = w /\ host ∈ dsts_of s w)) as [_|Hn]; [apply (pi_k1 _ _ _ _ _ HP); auto|].
      exfalso. apply Hn. split; [reflexivity|]. unfold dsts_of.
      destruct (w =? host)%N eqn:E; [apply N.eqb_eq in E; contradiction|]. apply elem_of_list_singleton. reflexivity.
    + intros Hwh c Hc Hcw. rewrite Hl. destruct (decide (host = w /\ _)) as [[E _]|_]; [congruence|].
      apply (pi_k2 _ _ _ _ _ HP); auto.
  - destruct (disc_idle _ _ HD p Hpw) as [_ Ho].
    assert (Hlk : forall a b, link s' a b = link s a b).
    { intros a b. rewrite Hl, Ho, app_nil_r. destruct (decide _); reflexivity. }
    assert (Hout : forall q, poutq s' q = poutq s q).
    { intros q. destruct (decide (q = p)) as [->|Hne]; [rewrite Hop, Ho; reflexivity|]. unfold poutq. rewrite Hq by exact Hne. reflexivity. }
    apply pos_transfer; try assumption.
    + intros Hwh c Hc. rewrite Hlk, Hout. apply (pi_h _ _ _ _ _ HP); auto.
    + intros Hwh. rewrite Hlk, Hout. apply (pi_k1 _ _ _ _ _ HP); auto.
    + intros Hwh c Hc Hcw. rewrite Hlk. apply (pi_k2 _ _ _ _ _ HP); auto.
Qed.

Lemma chain_snapshot W s lo hi :
  (lo <= hi)%nat -> pcur s host = at_ W hi -> chain W lo (snapshot s) hi.
Proof.
  intros Hle Hh. unfold snapshot. destruct (pcur s host) as [v|] eqn:Hv.
  - eapply chain_cons; [exact Hle|symmetry; exact Hh|apply chain_nil; lia].
  - apply chain_nil. exact Hle.
Qed.

Lemma pos_join w W D s pos c s' :
  vwf s -> PosI w W D s pos -> (w = host -> poutq s host = []) -> vstep s (VJoin c) = Some s' ->
  PosI w W (fun q => D q ++ delta q s s') s' pos.
Proof.
  intros Hwf HP Hclean Hstep. pose proof Hstep as Hstep0.
  apply step_join in Hstep as (Hch & Hcn & Hnone & Hcn' & _ & Hq & Hl).
  assert (Hcur : forall q, pcur s' q = pcur s q) by (intros; unfold pcur; rewrite Hq; reflexivity).
  assert (Hout : forall q, poutq s' q = poutq s q) by (intros; unfold poutq; rewrite Hq; reflexivity).
  assert (Hl0 : link s host c = []) by (apply wf_link_nil; [exact Hwf|apply wf_host, Hwf|exact Hcn]).
  assert (Hnp : ~ peers s c) by (intros [?|?]; contradiction).
  split.
  - intros p. rewrite Hcur. apply (pi_cur _ _ _ _ _ HP).
  - apply (pi_le _ _ _ _ _ HP).
  - apply (pi_w _ _ _ _ _ HP).
  - intros p Hne Hn. apply (pi_non _ _ _ _ _ HP); [exact Hne|]. intros Hp. apply Hn. eapply peers_step; [exact Hstep0|exact Hp].
  - intros p Hne. rewrite delta_same, app_nil_r by apply Hcur. apply (pi_disp _ _ _ _ _ HP), Hne.
  - intros Hwh c' Hc'. rewrite Hcn' in Hc'. rewrite Hl, Hout.
    destruct (decide ((host, c') = (host, c))) as [Heq|Hne].
    + inversion Heq; subst c'. rewrite Hl0, (Hclean Hwh), app_nil_r. simpl.
      assert (Hpc : pos c = O) by (apply (pi_non _ _ _ _ _ HP); [congruence|exact Hnp]).
      rewrite Hpc. apply chain_snapshot; [lia|]. rewrite (pi_cur _ _ _ _ _ HP), <- Hwh, (pi_w _ _ _ _ _ HP). reflexivity.
    + apply (pi_h _ _ _ _ _ HP); auto. apply elem_of_app in Hc' as [H|H]; [exact H|]. apply elem_of_list_singleton in H. congruence.
  - intros Hwh. rewrite Hl, Hout. destruct (decide ((w, host) = (host, c))) as [Heq|_]; [inversion Heq; congruence|].
    apply (pi_k1 _ _ _ _ _ HP); auto.
  - intros Hwh c' Hc' Hcw. rewrite Hcn' in Hc'. rewrite Hl.
    destruct (decide ((host, c') = (host, c))) as [Heq|Hne].
    + inversion Heq; subst c'. rewrite Hl0. simpl.
      assert (Hpc : pos c = O) by (apply (pi_non _ _ _ _ _ HP); [exact Hcw|exact Hnp]).
      rewrite Hpc. apply chain_snapshot; [lia|]. apply (pi_cur _ _ _ _ _ HP).
    + apply (pi_k2 _ _ _ _ _ HP); auto. apply elem_of_app in Hc' as [H|H]; [exact H|]. apply elem_of_list_singleton in H. congruence.
Qed.

Lemma disp_deliver W D i j v old :
  D `sublist_of` take i W -> (i <= j)%nat -> at_ W j = Some v -> old = at_ W i ->
  D ++ (if bool_decide (Some v = old) then [] else [v]) `sublist_of` take j W.
Proof.
  intros HD Hle Hj Hold. destruct (bool_decide (Some v = old)) eqn:Hb.
  - rewrite app_nil_r. etransitivity; [exact HD|]. apply sublist_take_le. exact Hle.
  - apply bool_decide_eq_false in Hb. eapply disp_extend; eauto. congruence.
Qed.

Lemma pos_deliver w W D s pos src dst s' :
  vwf s -> Phase w s -> PosI w W D s pos -> vstep s (VDeliver src dst) = Some s' ->
  exists pos', PosI w W (fun q => D q ++ delta q s s') s' pos'.
Proof.
  intros Hwf [HD HC] HP Hstep.
  apply step_deliver in Hstep as (v & rest & Hl0 & _ & Hcn & _ & Hq & Hcase); [|apply wf_nodup, Hwf].
  assert (Hne0 : link s src dst <> []) by (rewrite Hl0; discriminate).
  destruct (deliver_shape w s src dst Hwf HD Hne0) as [Hdw Hshape].
  assert (Hout : forall q, poutq s' q = poutq s q).
  { intros q. unfold poutq. destruct (decide (q = dst)) as [->|Hne]; [|rewrite Hq by exact Hne; reflexivity].
    destruct Hcase as [(_ & Hp & _)|(_ & Hp & _)]; rewrite Hp; reflexivity. }
  assert (Hcur : forall q, q <> dst -> pcur s' q = pcur s q).
  { intros q Hne. unfold pcur. rewrite Hq by exact Hne. reflexivity. }
  assert (Hcd : pcur s' dst = Some v).
  { unfold pcur. destruct Hcase as [(Hc & Hp & _)|(_ & Hp & _)]; rewrite Hp; [exact Hc|reflexivity]. }
  assert (Hpeers : forall p, peers s' p <-> peers s p) by (intros p; unfold peers; rewrite Hcn; reflexivity).
  assert (Hdp : peers s dst).
  { destruct Hshape as [(_ & _ & Hin)|[(_ & _ & ->)|(_ & _ & Hin)]]; [right; exact Hin|left; reflexivity|right; exact Hin]. }
  (* common part, given the position j of the delivered value *)
  assert (Hcommon : forall j, (pos dst <= j)%nat -> (j <= length W)%nat -> at_ W j = Some v ->
            (forall p, pcur s' p = at_ W (upd pos dst j p)) /\
            (forall p, (upd pos dst j p <= length W)%nat) /\
            upd pos dst j w = length W /\
            (forall p, p <> w -> ~ peers s' p -> upd pos dst j p = O) /\
            (forall p, p <> w -> D p ++ delta p s s' `sublist_of` take (upd pos dst j p) W)).
  { intros j Hlo Hhi Hj. split; [|split; [|split; [|split]]].
    - intros p. destruct (decide (p = dst)) as [->|Hne]; [rewrite upd_eq, Hcd, Hj; reflexivity|].
      rewrite upd_ne, Hcur by exact Hne. apply (pi_cur _ _ _ _ _ HP).
    - intros p. unfold upd. destruct (decide (p = dst)); [exact Hhi|apply (pi_le _ _ _ _ _ HP)].
    - rewrite upd_ne by congruence. apply (pi_w _ _ _ _ _ HP).
    - intros p Hne Hnp. destruct (decide (p = dst)) as [->|Hpd]; [exfalso; apply Hnp, Hpeers, Hdp|].
      rewrite upd_ne by exact Hpd. apply (pi_non _ _ _ _ _ HP); [exact Hne|]. intros Hp. apply Hnp, Hpeers, Hp.
    - intros p Hne. destruct (decide (p = dst)) as [->|Hpd].
      + rewrite upd_eq. unfold delta. rewrite Hcd.
        apply (disp_deliver W (D dst) (pos dst) j v (pcur s dst)); auto.
        * apply (pi_disp _ _ _ _ _ HP), Hne. * apply (pi_cur _ _ _ _ _ HP).
      + rewrite upd_ne, delta_same, app_nil_r by auto. apply (pi_disp _ _ _ _ _ HP), Hne. }
  destruct Hshape as [(-> & -> & Hin)|[(Hwh & -> & ->)|(Hwh & -> & Hin)]].
  - (* writer = host, host -> client dst *)
    assert (Hdh : dst <> host) by exact Hdw.
    assert (Hlk : forall a b, link s' a b = if decide ((a, b) = (host, dst)) then rest else link s a b).
    { intros a b. destruct Hcase as [(_ & _ & Hl)|(_ & _ & Hl)]; rewrite Hl; [reflexivity|].
      destruct (decide (dst = host /\ _)) as [[E _]|_]; [contradiction|]. apply app_nil_r. }
    pose proof (pi_h _ _ _ _ _ HP eq_refl dst Hin) as Hch. rewrite Hl0, <- app_comm_cons in Hch.
    apply chain_head in Hch as (j & Hlo & Hj & Hch).
    destruct (Hcommon j Hlo (chain_le _ _ _ _ Hch) Hj) as (C1 & C2 & C3 & C4 & C5).
    exists (upd pos dst j). split; rewrite ?Hcn; try assumption; try (intros; exfalso; congruence).
    intros _ c Hc. rewrite Hlk, Hout. destruct (decide ((host, c) = (host, dst))) as [Heq|Hne].
    + inversion Heq; subst c. rewrite upd_eq. exact Hch.
    + rewrite upd_ne by congruence. apply (pi_h _ _ _ _ _ HP); auto.
  - (* writer = client w, w -> host *)
    pose proof (pi_k1 _ _ _ _ _ HP Hwh) as Hch. rewrite Hl0, <- app_comm_cons in Hch.
    apply chain_head in Hch as (j & Hlo & Hj & Hch).
    destruct (Hcommon j Hlo (chain_le _ _ _ _ Hch) Hj) as (C1 & C2 & C3 & C4 & C5).
    exists (upd pos host j). split; rewrite ?Hcn; try assumption; try (intros; exfalso; congruence).
    + intros _. rewrite upd_eq, Hout.
      assert (Hlw : link s' w host = rest).
      { destruct Hcase as [(_ & _ & Hl)|(_ & _ & Hl)]; rewrite Hl;
          (destruct (decide ((w, host) = (w, host))) as [_|Hn]; [|congruence]); [reflexivity|].
        destruct (decide (host = host /\ w = host /\ _)) as [(_ & E & _)|_]; [congruence|]. apply app_nil_r. }
      rewrite Hlw. exact Hch.
    + intros _ c Hc Hcw. assert (Hch0 : c <> host) by (intros ->; apply (wf_host s Hwf Hc)).
      rewrite upd_eq, upd_ne by exact Hch0.
      pose proof (chain_hi _ _ _ _ j Hlo (pi_k2 _ _ _ _ _ HP Hwh c Hc Hcw)) as H2.
      destruct Hcase as [(_ & _ & Hl)|(_ & _ & Hl)]; rewrite Hl;
        (destruct (decide ((host, c) = (w, host))) as [Heq|_]; [inversion Heq; congruence|]); [exact H2|].
      destruct (decide (host = host /\ host = host /\ c ∈ others w (vconn s))) as [_|Hn].
      * apply chain_snoc; assumption.
      * rewrite app_nil_r. exact H2.
  - (* writer = client w, host -> another client dst *)
    assert (Hdh : dst <> host) by (intros ->; apply (wf_host s Hwf Hin)).
    assert (Hlk : forall a b, link s' a b = if decide ((a, b) = (host, dst)) then rest else link s a b).
    { intros a b. destruct Hcase as [(_ & _ & Hl)|(_ & _ & Hl)]; rewrite Hl; [reflexivity|].
      destruct (decide (dst = host /\ _)) as [[E _]|_]; [contradiction|]. apply app_nil_r. }
    pose proof (pi_k2 _ _ _ _ _ HP Hwh dst Hin Hdw) as Hch. rewrite Hl0 in Hch.
    apply chain_head in Hch as (j & Hlo & Hj & Hch).
    assert (Hjh : (j <= length W)%nat) by (pose proof (chain_le _ _ _ _ Hch); pose proof (pi_le _ _ _ _ _ HP host); lia).
    destruct (Hcommon j Hlo Hjh Hj) as (C1 & C2 & C3 & C4 & C5).
    exists (upd pos dst j). split; rewrite ?Hcn; try assumption; try (intros; exfalso; congruence).
    + intros _. rewrite Hlk, Hout, upd_ne by congruence.
      destruct (decide ((w, host) = (host, dst))) as [Heq|_]; [inversion Heq; congruence|].
      apply (pi_k1 _ _ _ _ _ HP Hwh).
    + intros _ c Hc Hcw. rewrite Hlk, (upd_ne _ _ _ host) by congruence.
      destruct (decide ((host, c) = (host, dst))) as [Heq|Hne].
      * inversion Heq; subst c. rewrite upd_eq. exact Hch.
      * rewrite upd_ne by congruence. apply (pi_k2 _ _ _ _ _ HP); auto.
Qed.

Definition PosInv (w : peer) (W : list value) (D : peer -> list value) (s : vstate) : Prop :=
  exists pos, PosI w W D s pos.

Lemma PosI_ext w W D D' s pos : (forall p, D' p = D p) -> PosI w W D s pos -> PosI w W D' s pos.
Proof.
  intros He HP. split; try apply HP. intros p Hne. rewrite He. apply (pi_disp _ _ _ _ _ HP), Hne.
Qed.

Lemma only_writer_cons w e tr : only_writer w (e :: tr) -> writes_by w e /\ only_writer w tr.
Proof.
  unfold only_writer. destruct e; simpl; try (intros H; split; [exact I|exact H]).
  intros H. apply Forall_cons in H. exact H.
Qed.

Lemma C10_general w tr : forall W D s s',
  vwf s -> Phase w s -> PosInv w W D s -> only_writer w tr ->
  (w = host -> joins_clean s tr = true) -> vrun s tr = Some s' ->
  vwf s' /\ Phase w s' /\ PosInv w (W ++ written tr) (fun p => D p ++ displayed p s tr) s'.
Proof.
  induction tr as [|e tr IH]; intros W D s s' Hwf Hph [pos HP] How Hjc Hrun.
  - simpl in Hrun. inversion Hrun; subst. split; [exact Hwf|]. split; [exact Hph|].
    exists pos. cbn [written omap displayed]. rewrite app_nil_r.
    eapply PosI_ext; [|exact HP]. intros p. apply app_nil_r.
  - cbn [vrun] in Hrun. destruct (vstep s e) as [s1|] eqn:Hstep; [|discriminate].
    apply only_writer_cons in How as [Hwe How].
    pose proof (step_wf _ _ _ Hwf Hstep) as Hwf1.
    pose proof (phase_step _ _ _ _ Hwf Hph Hwe Hstep) as Hph1.
    assert (Hjc1 : w = host -> joins_clean s1 tr = true).
    { intros Hwh. specialize (Hjc Hwh). cbn [joins_clean] in Hjc. rewrite Hstep in Hjc.
      destruct e; try exact Hjc. apply andb_prop in Hjc. apply Hjc. }
    assert (Hstep1 : exists W1, W ++ written (e :: tr) = W1 ++ written tr /\
                                PosInv w W1 (fun p => D p ++ delta p s s1) s1).
    { destruct e as [p v|p|p|src dst|c].
      - simpl in Hwe. subst p. exists (W ++ [v]). split.
        + change (written (VWrite w v :: tr)) with (v :: written tr). rewrite <- app_assoc. reflexivity.
        + eexists. eapply pos_write; eauto.
      - exists W. split; [reflexivity|]. exists pos. eapply pos_detect; eauto.
      - exists W. split; [reflexivity|]. exists pos. eapply pos_send; eauto.
      - exists W. split; [reflexivity|]. eapply pos_deliver; eauto.
      - exists W. split; [reflexivity|]. exists pos. eapply pos_join; eauto.
        intros Hwh. specialize (Hjc Hwh). cbn [joins_clean] in Hjc. rewrite Hstep in Hjc.
        apply andb_prop in Hjc as [Hjc _]. apply bool_decide_eq_true in Hjc. exact Hjc. }
    destruct Hstep1 as (W1 & HW & HP1).
    destruct (IH W1 _ s1 s' Hwf1 Hph1 HP1 How Hjc1 Hrun) as (Hwf' & Hph' & [pos' HP']).
    split; [exact Hwf'|]. split; [exact Hph'|]. exists pos'. rewrite HW.
    eapply PosI_ext; [|exact HP']. intros p. cbn [displayed]. rewrite Hstep. fold (delta p s s1). apply app_assoc.
Qed.

Lemma phase_init w n : Phase w (vinit n).
Proof.
  split; [apply quiescent_disc, vinit_quiescent|].
  assert (Hc : forall p, pcur (vinit n) p = None) by (intros; unfold pcur; rewrite vinit_getp; reflexivity).
  assert (Ho : forall p, poutq (vinit n) p = []) by (intros; unfold poutq; rewrite vinit_getp; reflexivity).
  assert (Hd : forall p, pdirty (vinit n) p = false) by (intros; unfold pdirty; rewrite vinit_getp; reflexivity).
  split; intros; rewrite ?vinit_link, ?Ho, ?Hc; try reflexivity. rewrite Hd in *. discriminate.
Qed.

Lemma posinv_init w n : PosInv w [] (fun _ => []) (vinit n).
Proof.
  assert (Ho : forall p, poutq (vinit n) p = []) by (intros; unfold poutq; rewrite vinit_getp; reflexivity).
  exists (fun _ => O). split; intros; rewrite ?vinit_link, ?Ho; simpl; try reflexivity; try (apply chain_nil; lia).
  unfold pcur. rewrite vinit_getp. reflexivity.
Qed.

Lemma only_writer_app w tr1 tr2 : only_writer w (tr1 ++ tr2) -> only_writer w tr1.
Proof.
  unfold only_writer, writers. rewrite omap_app. intros H. apply Forall_app in H. apply H.
Qed.
Lemma joins_clean_prefix s tr1 tr2 : joins_clean s (tr1 ++ tr2) = true -> joins_clean s tr1 = true.
Proof.
  revert s. induction tr1 as [|e tr1 IH]; intros s H; [reflexivity|].
  cbn [app joins_clean] in *. destruct (vstep s e) as [s1|]; [|reflexivity].
  destruct e; try (eapply IH; exact H).
  apply andb_prop in H as [H1 H2]. rewrite H1. simpl. eapply IH; exact H2.
Qed.
Lemma written_app tr1 tr2 : written (tr1 ++ tr2) = written tr1 ++ written tr2.
Proof. apply omap_app. Qed.

(* C10, order and provenance.  [displayed p (vinit n) tr] lists the CHANGES of p's value; being a
   sublist of [written tr] means: there is a strictly increasing map from the displayed changes to
   positions in [written tr] (see [sublist_positions]): no invented value, an older write never
   reappears after a newer one was shown, coalesced writes are simply skipped.  Holds for clients
   reached through the host's relay as well.  When the writer is the host, joins must happen while
   the host's announcement queue is empty ([joins_clean]; see [C10_host_join_refuted]). *)
Theorem C10_single_writer n w tr s' :
  vrun (vinit n) tr = Some s' -> only_writer w tr ->
  (w = host -> joins_clean (vinit n) tr = true) ->
  (forall p v, pcur s' p = Some v -> v ∈ written tr) /\
  (forall p, p <> w -> displayed p (vinit n) tr `sublist_of` written tr).
Proof.
  intros Hrun How Hjc.
  destruct (C10_general w tr [] (fun _ => []) (vinit n) s' (vinit_wf n) (phase_init w n) (posinv_init w n) How Hjc Hrun)
    as (_ & _ & pos & HP).
  simpl in HP. split.
  - intros p v Hv. rewrite (pi_cur _ _ _ _ _ HP) in Hv. eapply at_elem; eauto.
  - intros p Hne. etransitivity; [apply (pi_disp _ _ _ _ _ HP p Hne)|]. apply sublist_take.
Qed.
Print Assumptions C10_single_writer.

Corollary C10_client_writer n w tr s' :
  vrun (vinit n) tr = Some s' -> only_writer w tr -> w <> host ->
  (forall p v, pcur s' p = Some v -> v ∈ written tr) /\
  (forall p, p <> w -> displayed p (vinit n) tr `sublist_of` written tr).
Proof. intros Hrun How Hw. eapply C10_single_writer; eauto; intros; contradiction. Qed.

(* ... at every prefix: what p shows at any moment was written BEFORE that moment *)
Corollary C10_every_prefix n w tr1 tr2 s1 :
  only_writer w (tr1 ++ tr2) -> (w = host -> joins_clean (vinit n) (tr1 ++ tr2) = true) ->
  vrun (vinit n) tr1 = Some s1 ->
  (forall p v, pcur s1 p = Some v -> v ∈ written tr1) /\
  (forall p, p <> w -> displayed p (vinit n) tr1 `sublist_of` written tr1).
Proof.
  intros How Hjc Hrun. eapply C10_single_writer; eauto.
  - eapply only_writer_app; eauto.
  - intros Hwh. eapply joins_clean_prefix; eauto.
Qed.
Print Assumptions C10_every_prefix.

(* the monotone map behind "sublist" *)
Lemma sublist_positions (l1 l2 : list value) :
  l1 `sublist_of` l2 ->
  exists js : list nat, length js = length l1 /\
    (forall i j v, js !! i = Some j -> l1 !! i = Some v -> l2 !! j = Some v) /\
    (forall i i' j j', (i < i')%nat -> js !! i = Some j -> js !! i' = Some j' -> (j < j')%nat).
Proof.
  induction 1 as [|x l1 l2 Hs (js & Hlen & Hval & Hmono)|x l1 l2 Hs (js & Hlen & Hval & Hmono)].
  - exists []. split; [reflexivity|]. split; intros; rewrite lookup_nil in *; discriminate.
  - exists (O :: (S <$> js)). split; [simpl; rewrite fmap_length, Hlen; reflexivity|]. split.
    + intros [|i] j v Hj Hv; simpl in *.
      * inversion Hj; subst. exact Hv.
      * rewrite list_lookup_fmap in Hj. destruct (js !! i) as [j0|] eqn:E; [|discriminate].
        simpl in Hj. inversion Hj; subst. simpl. eapply Hval; eauto.
    + intros i i' j j' Hlt Hj Hj'. destruct i' as [|i']; [lia|]. simpl in Hj'.
      rewrite list_lookup_fmap in Hj'. destruct (js !! i') as [j0'|] eqn:E'; [|discriminate].
      simpl in Hj'. inversion Hj'; subst. destruct i as [|i]; simpl in Hj.
      * inversion Hj; subst. lia.
      * rewrite list_lookup_fmap in Hj. destruct (js !! i) as [j0|] eqn:E; [|discriminate].
        simpl in Hj. inversion Hj; subst. assert (j0 < j0')%nat by (eapply Hmono; [|exact E|exact E']; lia). lia.
  - exists (S <$> js). split; [rewrite fmap_length; exact Hlen|]. split.
    + intros i j v Hj Hv. rewrite list_lookup_fmap in Hj. destruct (js !! i) as [j0|] eqn:E; [|discriminate].
      simpl in Hj. inversion Hj; subst. simpl. eapply Hval; eauto.
    + intros i i' j j' Hlt Hj Hj'. rewrite list_lookup_fmap in Hj, Hj'.
      destruct (js !! i) as [j0|] eqn:E; [|discriminate]. destruct (js !! i') as [j0'|] eqn:E'; [|discriminate].
      simpl in *. inversion Hj; inversion Hj'; subst. assert (j0 < j0')%nat by (eapply Hmono; eauto). lia.
Qed.

Lemma phase_run w tr : forall s s',
  vwf s -> Phase w s -> only_writer w tr -> vrun s tr = Some s' ->
  vwf s' /\ Phase w s' /\ pcur s' w = lastd (pcur s w) (written tr).
Proof.
  induction tr as [|e tr IH]; intros s s' Hwf Hph How Hrun.
  - simpl in Hrun. inversion Hrun; subst. auto.
  - cbn [vrun] in Hrun. destruct (vstep s e) as [s1|] eqn:Hstep; [|discriminate].
    apply only_writer_cons in How as [Hwe How].
    pose proof (step_wf _ _ _ Hwf Hstep) as Hwf1.
    pose proof (phase_step _ _ _ _ Hwf Hph Hwe Hstep) as Hph1.
    destruct (IH s1 s' Hwf1 Hph1 How Hrun) as (Hwf' & Hph' & Hc).
    split; [exact Hwf'|]. split; [exact Hph'|]. rewrite Hc.
    destruct e as [p v|p|p|src dst|c].
    + simpl in Hwe. subst p. change (written (VWrite w v :: tr)) with (v :: written tr). rewrite lastd_cons.
      apply step_write in Hstep as (_ & _ & _ & _ & Hp & _). unfold pcur at 1. rewrite Hp. reflexivity.
    + change (written (VDetect p :: tr)) with (written tr). f_equal.
      eapply phase_cur_w; [exact Hwf|exact (proj1 Hph)| |exact Hstep]; exact I.
    + change (written (VSend p :: tr)) with (written tr). f_equal.
      eapply phase_cur_w; [exact Hwf|exact (proj1 Hph)| |exact Hstep]; exact I.
    + change (written (VDeliver src dst :: tr)) with (written tr). f_equal.
      eapply phase_cur_w; [exact Hwf|exact (proj1 Hph)| |exact Hstep]; exact I.
    + change (written (VJoin c :: tr)) with (written tr). f_equal.
      eapply phase_cur_w; [exact Hwf|exact (proj1 Hph)| |exact Hstep]; exact I.
Qed.

(* C10, liveness half: once everything has drained, every peer shows the writer's last value.
   No restriction on joins, the writer may itself be a late joiner, any n, any interleaving. *)
Theorem C10_ends_with_last n w tr s' :
  vrun (vinit n) tr = Some s' -> only_writer w tr -> vquiescent s' ->
  forall p, peers s' p -> pcur s' p = last (written tr).
Proof.
  intros Hrun How Hq p Hp.
  destruct (phase_run w tr (vinit n) s' (vinit_wf n) (phase_init w n) How Hrun) as (_ & Hph & Hc).
  rewrite (phase_quiescent_agree w s' Hq Hph p Hp), Hc. unfold pcur. rewrite vinit_getp. apply lastd_None_last.
Qed.
Print Assumptions C10_ends_with_last.

(* "the host relays only if the value differs from its own" loses nothing: at all times the last
   value in a client's pipeline (or its current value if the pipeline is empty) is the host's value *)
Theorem relay_loses_nothing n w tr s' :
  vrun (vinit n) tr = Some s' -> only_writer w tr -> w <> host ->
  forall c, c ∈ vconn s' -> c <> w -> lastd (pcur s' c) (link s' host c) = pcur s' host.
Proof.
  intros Hrun How Hwh c Hc Hcw.
  destruct (phase_run w tr (vinit n) s' (vinit_wf n) (phase_init w n) How Hrun) as (_ & [_ HC] & _).
  apply (conv_k2 _ _ HC); assumption.
Qed.

(* the writer never gets its own updates back, and nobody else ever announces anything *)
Theorem single_writer_discipline n w tr s' :
  vrun (vinit n) tr = Some s' -> only_writer w tr ->
  ptoken s' w = false /\ (forall c, link s' c w = []) /\
  (forall p, p <> w -> pdirty s' p = false /\ poutq s' p = []) /\
  (forall c, c <> w -> link s' c host = []).
Proof.
  intros Hrun How.
  destruct (phase_run w tr (vinit n) s' (vinit_wf n) (phase_init w n) How Hrun) as (_ & [HD _] & _).
  destruct HD; auto.
Qed.

(* non-vacuity: the burst example is a single-writer trace; a, b, a with a coalesced write *)
Example C10_nonvacuous :
  only_writer 1 ex_burst /\ displayed 2 (vinit 2) ex_burst = [10; 20; 30] /\ written ex_burst = [10; 20; 30] /\
  (fun s => view s [0; 1; 2]) <$> vrun (vinit 2) ex_burst = Some ([Some 30; Some 30; Some 30], true).
Proof. split; [|vm_compute; auto]. unfold only_writer. vm_compute. repeat constructor. Qed.

Definition ex_aba : list vevent :=
  [VWrite 1 10; VDetect 1; VSend 1; VDeliver 1 0; VDeliver 0 2;
   VWrite 1 20; VWrite 1 10; VDetect 1; VSend 1; VDeliver 1 0;     (* 20 is coalesced away; host already shows 10: no relay *)
   VWrite 1 20; VDetect 1; VSend 1; VWrite 1 10; VDetect 1; VSend 1;
   VDeliver 1 0; VDeliver 1 0; VDeliver 0 2; VDeliver 0 2; VDetect 0; VDetect 2].
Example C10_aba_example :
  written ex_aba = [10; 20; 10; 20; 10] /\ displayed 2 (vinit 2) ex_aba = [10; 20; 10] /\
  displayed 0 (vinit 2) ex_aba = [10; 20; 10] /\
  (fun s => view s [0; 1; 2]) <$> vrun (vinit 2) ex_aba = Some ([Some 10; Some 10; Some 10], true).
Proof. vm_compute. auto. Qed.

(* REFUTED as stated for a host writer with unrestricted joins: the host detects a (queued), writes b,
   a client joins and gets the snapshot b, THEN the queued a is broadcast: the new client shows b, a, (b). *)
Definition ex_host_join : list vevent :=
  [VWrite 0 10; VDetect 0; VWrite 0 20; VJoin 1; VSend 0; VDeliver 0 1; VDeliver 0 1;
   VDetect 0; VSend 0; VDeliver 0 1; VDetect 1].
Theorem C10_host_join_refuted :
  exists n w tr s' p,
    vrun (vinit n) tr = Some s' /\ only_writer w tr /\ p <> w /\
    ~ displayed p (vinit n) tr `sublist_of` written tr.
Proof.
  exists 0%nat, 0, ex_host_join.
  destruct (vrun (vinit 0) ex_host_join) as [s'|] eqn:Hrun; [|vm_compute in Hrun; discriminate].
  exists s', 1. split; [reflexivity|]. split; [unfold only_writer; vm_compute; repeat constructor|].
  split; [discriminate|].
  assert (Hd : displayed 1 (vinit 0) ex_host_join = [20; 10; 20]) by (vm_compute; reflexivity).
  assert (Hw : written ex_host_join = [10; 20]) by (vm_compute; reflexivity).
  rewrite Hd, Hw. intros H. apply sublist_length in H. simpl in H. lia.
Qed.
Example C10_host_join_still_converges :
  joins_clean (vinit 0) ex_host_join = false /\
  (fun s => view s [0; 1]) <$> vrun (vinit 0) ex_host_join = Some ([Some 20; Some 20], true).
Proof. vm_compute. auto. Qed.

(* ================================================================================================
   Part 7: joins
   ================================================================================================ *)

Lemma peers_run s tr s' p : vrun s tr = Some s' -> peers s p -> peers s' p.
Proof.
  revert s. induction tr as [|e tr IH]; intros s Hrun Hp; simpl in Hrun.
  - inversion Hrun; subst. exact Hp.
  - destruct (vstep s e) as [s1|] eqn:Hs; [|discriminate]. eapply IH; [exact Hrun|]. eapply peers_step; eauto.
Qed.

Lemma joined_connected s tr1 c tr2 s' :
  vrun s (tr1 ++ VJoin c :: tr2) = Some s' -> c <> host /\ c ∈ vconn s'.
Proof.
  rewrite vrun_app. destruct (vrun s tr1) as [s1|]; [|discriminate]. cbn [vrun].
  destruct (vstep s1 (VJoin c)) as [s2|] eqn:Hj; [|discriminate]. intros Hrun.
  apply step_join in Hj as (Hch & _ & _ & Hcn & _). split; [exact Hch|].
  assert (Hp : peers s2 c) by (right; rewrite Hcn; apply elem_of_app; right; apply elem_of_list_singleton; reflexivity).
  destruct (peers_run _ _ _ _ Hrun Hp) as [?|?]; [contradiction|assumption].
Qed.

(* a client joining at ANY moment -- also while updates are in flight -- ends, at quiescence, with the
   host's value, which is the most recent write *)
Theorem join_gets_current_value n w tr1 c tr2 s' :
  let tr := tr1 ++ VJoin c :: tr2 in
  vrun (vinit n) tr = Some s' -> only_writer w tr -> vquiescent s' ->
  c ∈ vconn s' /\ pcur s' c = pcur s' host /\ pcur s' c = last (written tr).
Proof.
  intros tr Hrun How Hq. destruct (joined_connected _ _ _ _ _ Hrun) as [Hch Hc].
  split; [exact Hc|].
  rewrite (C10_ends_with_last n w tr s' Hrun How Hq c (or_intror Hc)).
  rewrite (C10_ends_with_last n w tr s' Hrun How Hq host (or_introl eq_refl)). auto.
Qed.
Print Assumptions join_gets_current_value.

Theorem join_gets_current_value_drain_separated n tr1 c tr2 s' :
  let tr := tr1 ++ VJoin c :: tr2 in
  vrun (vinit n) tr = Some s' -> drain_separated (vinit n) tr -> joiners_settled (vinit n) tr -> vquiescent s' ->
  c ∈ vconn s' /\ pcur s' c = pcur s' host /\ pcur s' c = last (written tr).
Proof.
  intros tr Hrun Hds Hjs Hq. destruct (joined_connected _ _ _ _ _ Hrun) as [Hch Hc].
  split; [exact Hc|].
  rewrite (C02_values_converge n tr s' Hrun Hds Hjs Hq c (or_intror Hc)).
  rewrite (C02_values_converge n tr s' Hrun Hds Hjs Hq host (or_introl eq_refl)). auto.
Qed.
Print Assumptions join_gets_current_value_drain_separated.

Example join_nonvacuous :
  let tr := [VWrite 1 10; VDetect 1; VSend 1; VDeliver 1 0; VWrite 1 20; VDetect 1; VSend 1] ++ VJoin 3 ::
            [VDeliver 1 0; VDeliver 0 3; VDeliver 0 3; VDeliver 0 2; VDeliver 0 2; VDetect 0; VDetect 2; VDetect 3] in
  only_writer 1 tr /\ displayed 3 (vinit 2) tr = [10; 20] /\
  (fun s => view s [0; 1; 2; 3]) <$> vrun (vinit 2) tr = Some ([Some 20; Some 20; Some 20; Some 20], true).
Proof. split; [|vm_compute; auto]. unfold only_writer. vm_compute. repeat constructor. Qed.

(* ================================================================================================
   Part 8: traffic (C09)
   ================================================================================================ *)

(* from a quiescent state nothing but a VWrite or a VJoin changes anything *)
Theorem quiescent_is_stable s :
  vquiescent s ->
  (forall p s', vstep s (VDetect p) = Some s' -> s' = s) /\
  (forall p s', vstep s (VSend p) = Some s' -> s' = s) /\
  (forall a b, vstep s (VDeliver a b) = None).
Proof.
  intros Hq. split; [|split].
  - intros p s'. simpl. destruct (vp s !! p) as [x|] eqn:Hx; [|discriminate].
    destruct Hq as [_ Hq]. destruct (Hq p x Hx) as (_ & -> & ->). simpl. congruence.
  - intros p s'. simpl. destruct (vp s !! p) as [x|] eqn:Hx; [|discriminate].
    destruct Hq as [_ Hq]. destruct (Hq p x Hx) as (-> & _ & _). congruence.
  - intros a b. simpl. rewrite (quiescent_link s a b Hq). reflexivity.
Qed.
Print Assumptions quiescent_is_stable.

(* potential: the messages the writer's pending work can still cause *)
Definition phi (w : peer) (s : vstate) : nat :=
  let N := length (vconn s) in
  (if pdirty s w then N else 0)%nat + length (poutq s w) * N +
  (if decide (w = host) then 0 else length (link s w host) * (N - 1))%nat.

Definition plain (e : vevent) : Prop :=
  match e with VDetect _ | VSend _ | VDeliver _ _ => True | _ => False end.

Lemma detect'_outq_len x : (length (outq (detect' x)) <= length (outq x) + (if dirty x then 1 else 0))%nat.
Proof.
  unfold detect', vdetect. destruct (dirty x), (token x); simpl; try lia.
  rewrite app_length. destruct (cur x); simpl; lia.
Qed.
Lemma detect'_not_dirty x : dirty (detect' x) = true -> False.
Proof. unfold detect', vdetect. destruct (dirty x) eqn:Hd, (token x); simpl; congruence. Qed.

Lemma traffic_step w s e s' :
  vwf s -> Disc w s -> plain e -> vstep s e = Some s' ->
  vconn s' = vconn s /\ (sent_by s e + phi w s' <= phi w s)%nat.
Proof.
  intros Hwf HD Hpl Hstep. destruct e as [p v|p|p|src dst|c]; simpl in Hpl; try contradiction.
  - (* detect *)
    apply step_detect in Hstep as (_ & Hcn & Hl & _ & Hp & Hq). split; [exact Hcn|].
    unfold phi, link. rewrite Hcn, Hl. simpl sent_by.
    destruct (decide (p = w)) as [->|Hne].
    + unfold pdirty, poutq. rewrite Hp. pose proof (detect'_outq_len (getp s w)) as Hlen.
      destruct (dirty (detect' (getp s w))) eqn:Hd'; [exfalso; eapply detect'_not_dirty; eauto|].
      destruct (dirty (getp s w)); nia.
    + unfold pdirty, poutq. rewrite Hq by congruence. lia.
  - (* send *)
    pose proof Hstep as Hstep0.
    apply step_send in Hstep as (Hex & Hcn & _ & Hp & Hq & Hl); [|apply wf_nodup, Hwf]. split; [exact Hcn|].
    unfold phi. rewrite Hcn. simpl sent_by.
    destruct (decide (p = w)) as [->|Hne].
    + unfold pdirty at 1. unfold poutq at 2. rewrite Hp. simpl. fold (pdirty s w). rewrite Hl.
      destruct (decide (w = host)) as [->|Hwh].
      * change (host =? host)%N with true. cbv iota. destruct (pdirty s host); lia.
      * destruct (w =? host)%N eqn:E; [apply N.eqb_eq in E; contradiction|].
        destruct (decide (w = w /\ host ∈ dsts_of s w)) as [_|Hn].
        -- rewrite app_length.
           assert (Hin : w ∈ vconn s). { apply (wf_exists s w Hwf) in Hex as [?|?]; [contradiction|assumption]. }
           assert (length (vconn s) >= 1)%nat by (destruct (vconn s); [inversion Hin|simpl; lia]).
           destruct (pdirty s w); nia.
        -- exfalso. apply Hn. split; [reflexivity|]. unfold dsts_of. rewrite E. apply elem_of_list_singleton. reflexivity.
    + destruct (disc_idle _ _ HD p Hne) as [_ Ho]. rewrite Hl, Ho, app_nil_r. simpl.
      destruct (decide (w = p /\ _)) as [[E _]|_]; [congruence|].
      unfold pdirty, poutq. rewrite Hq by congruence. lia.
  - (* deliver *)
    apply step_deliver in Hstep as (v & rest & Hl0 & _ & Hcn & _ & Hq & Hcase); [|apply wf_nodup, Hwf].
    split; [exact Hcn|].
    assert (Hne0 : link s src dst <> []) by (rewrite Hl0; discriminate).
    destruct (deliver_shape w s src dst Hwf HD Hne0) as [Hdw Hshape].
    unfold phi. rewrite Hcn. unfold pdirty, poutq. rewrite Hq by congruence. fold (pdirty s w). fold (poutq s w).
    simpl sent_by. rewrite Hl0.
    destruct Hshape as [(-> & -> & Hin)|[(Hwh & -> & ->)|(Hwh & -> & Hin)]].
    + destruct (dst =? host)%N eqn:E; [apply N.eqb_eq in E; congruence|].
      destruct (decide (host = host)) as [_|?]; [|congruence]. destruct (bool_decide _); lia.
    + destruct (decide (w = host)) as [?|_]; [contradiction|].
      assert (Hwin : w ∈ vconn s).
      { destruct (wf_link s w host Hwf Hne0) as [[? _]|[_ ?]]; [contradiction|assumption]. }
      assert (Hoth : (length (others w (vconn s)) < length (vconn s))%nat).
      { unfold others. eapply filter_length_lt; [exact Hwin|]. intros H. apply H. reflexivity. }
      change (host =? host)%N with true. cbv iota.
      assert (Hlw : length (link s' w host) = length rest).
      { destruct Hcase as [(_ & _ & Hl)|(_ & _ & Hl)]; rewrite Hl;
          (destruct (decide ((w, host) = (w, host))) as [_|Hn]; [|congruence]); [reflexivity|].
        destruct (decide (host = host /\ w = host /\ _)) as [(_ & E & _)|_]; [congruence|]. rewrite app_nil_r. reflexivity. }
      rewrite Hlw, Hl0. simpl length. destruct (bool_decide _); nia.
    + assert (Hdh : dst <> host) by (intros ->; apply (wf_host s Hwf Hin)).
      destruct (dst =? host)%N eqn:E; [apply N.eqb_eq in E; congruence|].
      destruct (decide (w = host)) as [?|_]; [contradiction|].
      assert (Hlw : link s' w host = link s w host).
      { destruct Hcase as [(_ & _ & Hl)|(_ & _ & Hl)]; rewrite Hl;
          (destruct (decide ((w, host) = (host, dst))) as [Heq|_]; [inversion Heq; congruence|]); [reflexivity|].
        destruct (decide (dst = host /\ _)) as [[? _]|_]; [contradiction|]. apply app_nil_r. }
      rewrite Hlw. destruct (bool_decide _); lia.
Qed.

Definition tr_ok (w : peer) (tr : list vevent) : Prop := Forall (fun e => plain e \/ exists v, e = VWrite w v) tr.

Lemma traffic_run w tr : forall s s',
  vwf s -> Disc w s -> tr_ok w tr -> vrun s tr = Some s' ->
  vconn s' = vconn s /\ (total_sent s tr + phi w s' <= phi w s + length (written tr) * length (vconn s))%nat.
Proof.
  induction tr as [|e tr IH]; intros s s' Hwf HD Hok Hrun.
  - simpl in Hrun. inversion Hrun; subst. simpl. split; [reflexivity|lia].
  - cbn [vrun] in Hrun. cbn [total_sent]. destruct (vstep s e) as [s1|] eqn:Hstep; [|discriminate].
    apply Forall_cons in Hok as [He Hok].
    pose proof (step_wf _ _ _ Hwf Hstep) as Hwf1.
    assert (HD1 : Disc w s1).
    { eapply disc_step; [exact Hwf|exact HD| |exact Hstep]. destruct He as [He|[v ->]]; [|reflexivity].
      destruct e; simpl in *; auto; contradiction. }
    destruct (IH s1 s' Hwf1 HD1 Hok Hrun) as [Hcn IHle].
    destruct He as [He|[v ->]].
    + destruct (traffic_step w s e s1 Hwf HD He Hstep) as [Hcn1 Hle].
      assert (Hw : written (e :: tr) = written tr) by (destruct e; simpl in He; try contradiction; reflexivity).
      rewrite Hw. rewrite Hcn1 in *. split; [exact Hcn|]. lia.
    + change (written (VWrite w v :: tr)) with (v :: written tr). simpl length. simpl sent_by.
      apply step_write in Hstep as (_ & Hcn1 & Hl & _ & Hp & _).
      assert (Hphi : (phi w s1 <= phi w s + length (vconn s))%nat).
      { unfold phi, link. rewrite Hcn1, Hl. unfold pdirty at 1. unfold poutq at 1. rewrite Hp. simpl.
        fold (poutq s w). destruct (pdirty s w); lia. }
      rewrite Hcn1 in *. split; [exact Hcn|]. lia.
Qed.

Lemma phi_quiescent w s : vquiescent s -> phi w s = O.
Proof.
  intros Hq. unfold phi. destruct (quiescent_peer s w Hq) as (-> & -> & _). rewrite (quiescent_link s w host Hq).
  simpl. destruct (decide (w = host)); lia.
Qed.

(* one write from a quiescent state causes at most |vconn| messages in total, relays included, whatever
   the interleaving of detections, sends and deliveries that follows *)
Theorem value_messages_bounded s w v rest s' :
  vwf s -> vquiescent s -> Forall plain rest ->
  vrun s (VWrite w v :: rest) = Some s' ->
  (total_sent s (VWrite w v :: rest) <= length (vconn s))%nat.
Proof.
  intros Hwf Hq Hpl Hrun.
  assert (Hok : tr_ok w (VWrite w v :: rest)).
  { apply Forall_cons. split; [right; eauto|]. eapply Forall_impl; [exact Hpl|]. intros e He. left. exact He. }
  destruct (traffic_run w _ s s' Hwf (quiescent_disc w s Hq) Hok Hrun) as [_ Hle].
  rewrite (phi_quiescent w s Hq) in Hle.
  change (written (VWrite w v :: rest)) with (v :: written rest) in Hle.
  assert (Hr : written rest = []).
  { clear -Hpl. induction Hpl as [|e rest He _ IH]; [reflexivity|]. destruct e; simpl in He; try contradiction; exact IH. }
  rewrite Hr in Hle. cbn [length] in Hle. lia.
Qed.
Print Assumptions value_messages_bounded.

(* k writes of a single writer cause at most k * n messages, for any interleaving *)
Theorem value_messages_bounded_run n w tr s' :
  vrun (vinit n) tr = Some s' -> tr_ok w tr ->
  (total_sent (vinit n) tr <= length (written tr) * n)%nat.
Proof.
  intros Hrun Hok.
  destruct (traffic_run w tr (vinit n) s' (vinit_wf n) (quiescent_disc w _ (vinit_quiescent n)) Hok Hrun) as [_ Hle].
  rewrite (phi_quiescent w _ (vinit_quiescent n)) in Hle.
  assert (Hn : length (vconn (vinit n)) = n) by (simpl; unfold clients; rewrite fmap_length, seq_length; reflexivity).
  rewrite Hn in Hle. lia.
Qed.
Print Assumptions value_messages_bounded_run.

(* the bound is reached: a client's write costs 1 + (n-1), the host's write costs n *)
Example traffic_tight :
  total_sent (vinit 3) [VWrite 1 10; VDetect 1; VSend 1; VDeliver 1 0; VDeliver 0 2; VDeliver 0 3;
                        VDetect 0; VDetect 2; VDetect 3] = 3%nat /\
  total_sent (vinit 3) [VWrite 0 10; VDetect 0; VSend 0; VDeliver 0 1; VDeliver 0 2; VDeliver 0 3;
                        VDetect 1; VDetect 2; VDetect 3] = 3%nat /\
  (* re-writing the value the host already shows costs the uplink message only *)
  total_sent (vinit 3) [VWrite 1 10; VDetect 1; VSend 1; VDeliver 1 0; VDeliver 0 2; VDeliver 0 3;
                        VDetect 0; VDetect 2; VDetect 3; VWrite 1 10; VDetect 1; VSend 1; VDeliver 1 0] = 4%nat.
Proof. vm_compute. auto. Qed.

Print Assumptions C02_join_write_refuted.
Print Assumptions C10_host_join_refuted.
Print Assumptions relay_loses_nothing.
Print Assumptions single_writer_discipline.
