(* The executable premise of the causal convergence theorem of C02 (proofs: Abs/ValuesCausal.v).
   Model side: no proof file is imported, so the driver can evaluate the premise on the event
   sequences extracted from real traces. *)
From Coq Require Import NArith List.
From stdpp Require Import gmap list.
From BS Require Import Abs.Values.

Local Open Scope N_scope.

Definition nilb (l : list value) : bool := match l with [] => true | _ => false end.

(* [seenb s w p]: everything peer w has written so far has reached peer p: w has nothing left to announce
   (not armed: empty queue, no undetected local write), nothing travels from w to the host, nothing
   travels from the host to p.  (For w = host or p = host the leg host -> host is empty in every
   well-formed state.)  No ghost state and no comparison of values is involved. *)
Definition seenb (s : vstate) (w p : peer) : bool :=
  negb (varmed s w) && nilb (link s w host) && nilb (link s host p).

(* [g] = the author of the most recent write (None = nobody has written yet; NOT reset at quiescent states).
   A write by the author of the previous write is always allowed; a write by another peer p is allowed
   once p has seen everything the previous author wrote; the first write is unconstrained. *)
Fixpoint co_from (g : option peer) (s : vstate) (tr : list vevent) : bool :=
  match tr with
  | [] => true
  | e :: tr =>
      match vstep s e with
      | None => true
      | Some s' =>
          match e with
          | VWrite p _ =>
              match g with None => true | Some w => bool_decide (w = p) || seenb s w p end
              && co_from (Some p) s' tr
          | _ => co_from g s' tr
          end
      end
  end.
Definition causally_ordered (s : vstate) (tr : list vevent) : bool := co_from None s tr.
