(* Event-level model of the registry of pending downloads of ONE uuid asset of a URL class on ONE
   receiving peer (property C06, "every timing of the asynchronous HTTP download relative to frames
   and to further operations"; repair of defect S31).

   Rust: /repo/src/networking/assets/mod.rs
           PendingDownload { under_way, url, requested, arrived }, SyncAssetTransfer::request (numbers
           the request, starts a download thread), the download thread (HTTP GET; on arrival: a
           download that arrives after a download of a LATER request is dropped, otherwise its bytes
           go into the *_to_apply map; at its end: under_way - 1, the entry is removed when nothing is
           under way and nothing waits), process_*_assets (take the waiting bytes, insert them into
           Assets<T>), download_applied (removes the entry when nothing is under way and nothing waits)
         /repo/src/{server,client}/track.rs react_on_changed_{meshes,images,audios}: every publication
           of new content puts the bytes into the publisher's cache and sends ONE announcement; the
           receiver calls request() once per announcement (receiver.rs).

   The publisher's cache holds versions 1, 2, 3, ... of the content ("version" = how many times the
   asset has been published; version 0 = nothing). A download fetches the version the cache holds
   at the moment the response is built, any time between its request and its arrival.

   State:
     version   versions published so far (= the content the publisher holds)
     owed      announcements sent and not yet handled by the receiver (reliable ordered channel)
     total     requests ever made on this peer for the id
     base      [total] when the registry entry was last created: the entry numbers its requests from 1
     present   the registry has an entry for the id
     requested / arrived   the entry's counters (0 when there is no entry)
     flights   downloads under way: (number, phase); phases: asked, fetched v (response built with
               version v), landed (arrived, the thread has not yet counted itself out)
     slot      the *_to_apply map entry: the version waiting to be applied
     taken     process_* has taken the bytes out of the map and not yet called download_applied
     applied   the version in Assets<T>

   [numbered] = true is the repaired code; false is the code before the repair (every arrival is
   kept), for the refutation. Everything is executable. *)
From Coq Require Import Arith List Bool Lia.
Import ListNotations.

Inductive phase := Asked | Fetched (v : nat) | Landed.

Record dstate := DState {
  version : nat;
  owed : nat;
  total : nat;
  base : nat;
  present : bool;
  requested : nat;
  arrived : nat;
  flights : list (nat * phase);
  slot : option nat;
  taken : bool;
  applied : option nat
}.

Definition dinit : dstate := DState 0 0 0 0 false 0 0 [] None false None.

Inductive devent :=
| DPublish                 (* the publisher publishes a new version and announces it *)
| DRequest                 (* the receiver handles the oldest announcement: request() *)
| DFetch (n : nat)         (* the publisher's endpoint builds the response of download n *)
| DArrive (n : nat)        (* download n has been read completely: kept or dropped *)
| DFail (n : nat)          (* download n failed (no response, read error): nothing arrives; it is not retried *)
| DFinish (n : nat)        (* the thread of download n counts itself out *)
| DTake                    (* process_*_assets takes the waiting bytes and inserts them into Assets<T> *)
| DApplied.                (* ... and calls download_applied *)

(* the registry's observable reaction to a step, compared with the real log (REG lines) *)
Inductive dout :=
| ONone
| ONumber (n : nat)        (* request(): the number given to the request *)
| OArrived (dropped : bool)
| ORemoved (removed : bool).

Fixpoint phase_of (n : nat) (fl : list (nat * phase)) : option phase :=
  match fl with
  | [] => None
  | (m, p) :: fl => if Nat.eqb m n then Some p else phase_of n fl
  end.

Fixpoint set_phase (n : nat) (p : phase) (fl : list (nat * phase)) : list (nat * phase) :=
  match fl with
  | [] => []
  | (m, q) :: fl => if Nat.eqb m n then (m, p) :: fl else (m, q) :: set_phase n p fl
  end.

Fixpoint remove_flight (n : nat) (fl : list (nat * phase)) : list (nat * phase) :=
  match fl with
  | [] => []
  | (m, q) :: fl => if Nat.eqb m n then fl else (m, q) :: remove_flight n fl
  end.

(* "the entry is removed when no download of the asset is under way and nothing of it waits" *)
Definition collect (s : dstate) : dstate * bool :=
  if present s && (length (flights s) =? 0) && negb (match slot s with Some _ => true | None => false end)
  then (DState (version s) (owed s) (total s) (total s) false 0 0 (flights s) (slot s) (taken s) (applied s), true)
  else (s, false).

Definition dstep (numbered : bool) (s : dstate) (e : devent) : option (dstate * dout) :=
  match e with
  | DPublish =>
      Some (DState (S (version s)) (S (owed s)) (total s) (base s) (present s) (requested s) (arrived s)
                   (flights s) (slot s) (taken s) (applied s), ONone)
  | DRequest =>
      match owed s with
      | O => None
      | S k =>
          (* pending.entry(key).or_insert(fresh); under_way += 1; requested += 1 *)
          let b := if present s then base s else total s in
          let n := S (requested s) in
          Some (DState (version s) k (S (total s)) b true n (arrived s)
                       (flights s ++ [(n, Asked)]) (slot s) (taken s) (applied s), ONumber n)
      end
  | DFetch n =>
      match phase_of n (flights s) with
      | Some Asked =>
          Some (DState (version s) (owed s) (total s) (base s) (present s) (requested s) (arrived s)
                       (set_phase n (Fetched (version s)) (flights s)) (slot s) (taken s) (applied s), ONone)
      | _ => None
      end
  | DArrive n =>
      match phase_of n (flights s) with
      | Some (Fetched v) =>
          let outdated := numbered && (n <? arrived s) in
          if outdated then
            Some (DState (version s) (owed s) (total s) (base s) (present s) (requested s) (arrived s)
                         (set_phase n Landed (flights s)) (slot s) (taken s) (applied s), OArrived true)
          else
            Some (DState (version s) (owed s) (total s) (base s) (present s) (requested s)
                         (if numbered then n else arrived s)
                         (set_phase n Landed (flights s)) (Some v) (taken s) (applied s), OArrived false)
      | _ => None
      end
  | DFail n =>
      match phase_of n (flights s) with
      | Some Asked | Some (Fetched _) =>
          Some (DState (version s) (owed s) (total s) (base s) (present s) (requested s) (arrived s)
                       (set_phase n Landed (flights s)) (slot s) (taken s) (applied s), ONone)
      | _ => None
      end
  | DFinish n =>
      match phase_of n (flights s) with
      | Some Landed =>
          let s1 := DState (version s) (owed s) (total s) (base s) (present s) (requested s) (arrived s)
                           (remove_flight n (flights s)) (slot s) (taken s) (applied s) in
          let '(s2, r) := collect s1 in Some (s2, ORemoved r)
      | _ => None
      end
  | DTake =>
      match slot s, taken s with
      | Some v, false =>
          Some (DState (version s) (owed s) (total s) (base s) (present s) (requested s) (arrived s)
                       (flights s) None true (Some v), ONone)
      | _, _ => None
      end
  | DApplied =>
      if taken s then
        let s1 := DState (version s) (owed s) (total s) (base s) (present s) (requested s) (arrived s)
                         (flights s) (slot s) false (applied s) in
        let '(s2, r) := collect s1 in Some (s2, ORemoved r)
      else None
  end.

Fixpoint drun (numbered : bool) (s : dstate) (tr : list devent) : option dstate :=
  match tr with
  | [] => Some s
  | e :: tr => match dstep numbered s e with Some (s', _) => drun numbered s' tr | None => None end
  end.

Definition is_fail (e : devent) : bool := match e with DFail _ => true | _ => false end.
Definition no_fail (tr : list devent) : Prop := forallb (fun e => negb (is_fail e)) tr = true.

(* nothing is on its way any more: every announcement handled, every download over, nothing waits *)
Definition dquiet (s : dstate) : Prop :=
  owed s = 0 /\ flights s = [] /\ slot s = None /\ taken s = false.

Definition dquietb (s : dstate) : bool :=
  (owed s =? 0) && (length (flights s) =? 0) && (match slot s with None => true | Some _ => false end) && negb (taken s).

(* the S31 history: version 1 is announced and requested, its response is built, version 2 is
   published, announced, requested, fetched, arrives and is applied - then the first download arrives *)
Definition overtaking_prefix : list devent :=
  [DPublish; DRequest; DFetch 1; DPublish; DRequest; DFetch 2; DArrive 2; DFinish 2; DTake; DApplied;
   DArrive 1; DFinish 1].
(* before the repair the late arrival is kept and applied *)
Definition overtaking : list devent := overtaking_prefix ++ [DTake; DApplied].
