(* Event-level abstraction of the SESSION ROLES of bevy_sync during a host promotion.

   Rust: /repo/src/server/mod.rs      client_connected, server_connected, server_disconnected,
                                      server_promoted_is_ready (OnEnter(ServerState::Connected)),
                                      promote_to_host_event_reader
         /repo/src/server/receiver.rs Message::NewHost (server.disconnect, relay, deferred create_client)
         /repo/src/client/mod.rs      set_client_to_connecting, verify_client_connected,
                                      set_client_to_disconnected
         /repo/src/client/receiver.rs Message::PromoteToHost, Message::NewHost
         /repo/src/networking/mod.rs  ONE RenetServer object per App, for ever; ONE RenetClient object
                                      until a NewHost handler inserts a new one (the repair);
                                      create_client / create_server make transports only.
   Frame-level model: theories/Sync/Model.v  n_srv_transport, n_cli_transport, n_clients, n_status,
         n_sticky_disconnect, t_promo, s_server, s_client, promote_reader, client_received /
         server_received (MPromote, MNewHost), CStartServer, CStartClientTo, CRemove*Transport,
         client_connected, verify_client_connected, state_transition, the five state systems.

   One event = one atomic step of one peer (a handler run, a state system together with the
   StateTransition that publishes its NextState) or one renet notification.  Events of different
   peers interleave freely.  Inside one peer the only ordering facts kept are those the frame
   structure forces (they are guards, each one justified where it is written):
     - resource_added / resource_removed are edges, seen by the run condition of the NEXT frame
       (fields srv_added, srv_removed, cli_added, cli_removed); a removal edge is always observed
       before a later insertion is;
     - client_connected runs in every frame in which the server gate is open and drains the
       ServerEvents of that frame, whereas ClientState needs a frame boundary to change.

   renet 0.0.16 facts used (read in the sources of renet / renetcode):
     - RenetClient status Disconnected is absorbing FOR THE OBJECT: disconnect(),
       disconnect_due_to_transport() (kick packet from the server, netcode time-out) all end there;
       set_connecting/set_connected "do nothing if the client is disconnected. A disconnected client
       must be reconstructed".  => field [sticky] (of the CURRENT RenetClient object).
       REPAIRED CODE (this file): both handlers of NewHost -- client/receiver.rs and the deferred
       closure of server/receiver.rs -- now insert RenetClient::new(..) together with the new client
       transport, i.e. [sticky := false; link_up := false].  Nothing else reconstructs a RenetClient.
     - RenetServer::disconnect(c): c leaves clients_id()/connected_clients() at once, the
       ClientDisconnected event is produced by the next update.
     - a server learns that a client went away by itself only from the disconnect packet or by
       time-out  => nondeterministic event [ETimeout]; the client transport that is dropped in
       the same frame in which RenetClient::disconnect() was called never sends that packet.

   SECOND REPAIR (commit b8e47f4, this file), after the two findings left over from S8 (the old host
   kept its server next to the new one; the flag of the other clients stayed set):
     - new tracker flag closing_server_after_promotion => field [closing]; the old host's handler of
       NewHost sets flag AND closing; client_connected closes the server on a ClientDisconnected
       when connected_clients() == 0 && (flag || closing) and clears both; verify_client_connected
       still consumes [flag] only;
     - the CLIENT's handler of NewHost no longer sets the flag.

   History (replayed with the protocol harness, 2026-09-30): S8 = with two or more clients the other
   clients were stranded (new transport paired with the disconnected RenetClient); S9 = a second
   promotion (promote 1, then promote 0 back) broke because the kick had killed peer 1's RenetClient
   for ever.  Both are repaired: PromotionProofs.v proves C07 for 1, 2 and 3 clients in every
   interleaving, chains of promotions of any length, and the invariants for sessions of any size.

   Everything is executable. *)
From Coq Require Import NArith List Lia.
From stdpp Require Import gmap list.
From RecordUpdate Require Import RecordSet.
Import RecordSetNotations.

Definition peer := N.

Inductive sstate := SDisconnected | SConnected.            (* ServerState *)
Inductive cstate := CDisconnected | CConnecting | CConnected.  (* ClientState *)
Inductive pmsg :=
| Promote               (* Message::PromoteToHost *)
| NewHost (p : peer)    (* Message::NewHost { params of p } *)
| ReqInit.              (* Message::RequestInitialSync (only its emission matters here) *)

Global Instance sstate_eq_dec : EqDecision sstate. Proof. solve_decision. Defined.
Global Instance cstate_eq_dec : EqDecision cstate. Proof. solve_decision. Defined.
Global Instance pmsg_eq_dec : EqDecision pmsg. Proof. solve_decision. Defined.

Record ppeer := PPeer {
  (* server side *)
  hosting : bool;                  (* NetcodeServerTransport present *)
  srv_state : sstate;              (* ServerState *)
  srv_added : bool;                (* resource_added::<NetcodeServerTransport> not yet evaluated *)
  srv_removed : bool;              (* resource_removed::<NetcodeServerTransport> not yet evaluated *)
  clients : list peer;             (* RenetServer::clients_id() *)
  srv_events : list (bool * peer); (* ServerEvents not yet read by client_connected: (true,c) =
                                      ClientConnected c, (false,c) = ClientDisconnected c *)
  (* client side *)
  client_of : option peer;         (* NetcodeClientTransport present, and its target *)
  cli_state : cstate;              (* ClientState *)
  cli_added : bool;                (* resource_added::<NetcodeClientTransport> not yet evaluated *)
  cli_removed : bool;              (* resource_removed::<NetcodeClientTransport> not yet evaluated *)
  link_up : bool;                  (* RenetClient::is_connected() *)
  sticky : bool;                   (* the current RenetClient object is Disconnected (for ever: only a NEW object helps) *)
  (* tracker *)
  flag : bool;                     (* SyncTrackerRes::host_promotion_in_progress *)
  closing : bool                   (* SyncTrackerRes::closing_server_after_promotion (commit b8e47f4) *)
}.
Global Instance eta_ppeer : Settable _ :=
  settable! PPeer <hosting; srv_state; srv_added; srv_removed; clients; srv_events;
                   client_of; cli_state; cli_added; cli_removed; link_up; sticky; flag; closing>.
Global Instance ppeer_eq_dec : EqDecision ppeer. Proof. solve_decision. Defined.

(* [up !! (c,h)]: reliable ordered traffic client c -> host h; [down !! (h,c)]: host h -> client c.
   Head = oldest.  Empty channels are not stored (states are compared with =). *)
Record pstate := PState {
  ps : gmap peer ppeer;
  up : gmap (peer * peer) (list pmsg);
  down : gmap (peer * peer) (list pmsg)
}.
Global Instance pstate_eq_dec : EqDecision pstate. Proof. solve_decision. Defined.

Inductive pevent :=
| EPromote (h c : peer)      (* application: PromoteToHostEvent{c} on h, read by promote_to_host_event_reader *)
| EDeliverDown (h c : peer)  (* c's client poll handles the oldest message of h -> c *)
| EDeliverUp (c h : peer)    (* h's server poll handles the oldest message of c -> h *)
| ESrvUp (p : peer)          (* server_connected, StateTransition, OnEnter(Connected): server_promoted_is_ready *)
| ESrvDown (p : peer)        (* server_disconnected + StateTransition *)
| ECliConnecting (p : peer)  (* set_client_to_connecting + StateTransition *)
| EVerify (p : peer)         (* verify_client_connected (successful) + StateTransition *)
| ECliDown (p : peer)        (* set_client_to_disconnected + StateTransition *)
| ENotify (h : peer)         (* client_connected handles the oldest ServerEvent *)
| EConnect (c : peer)        (* renet: the handshake of c's transport with its target completes *)
| ELinkDown (c : peer)       (* renet: c's RenetClient learns that its connection is gone (kick / time-out) *)
| ETimeout (h c : peer).     (* renet: server h learns that c is gone (disconnect packet / time-out) *)
Global Instance pevent_eq_dec : EqDecision pevent. Proof. solve_decision. Defined.

(* the application's input; everything else happens by itself, sooner or later *)
Definition internal (e : pevent) : bool := match e with EPromote _ _ => false | _ => true end.

(* ---------- channels --------------------------------------------------------------------------- *)

Definition chan (M : gmap (peer * peer) (list pmsg)) (a b : peer) : list pmsg := default [] (M !! (a, b)).
Definition setchan (M : gmap (peer * peer) (list pmsg)) (a b : peer) (l : list pmsg) :=
  match l with [] => delete (a, b) M | _ => <[(a, b) := l]> M end.
Definition push (M : gmap (peer * peer) (list pmsg)) (a b : peer) (m : pmsg) := <[(a, b) := chan M a b ++ [m]]> M.

Definition setp (s : pstate) (p : peer) (x : ppeer) : pstate := PState (<[p := x]> (ps s)) (up s) (down s).
Definition push_up (s : pstate) (c h : peer) (m : pmsg) : pstate := PState (ps s) (push (up s) c h m) (down s).
Definition push_down (s : pstate) (h c : peer) (m : pmsg) : pstate := PState (ps s) (up s) (push (down s) h c m).
(* the connection c -> h is gone: what was in flight on it is lost *)
Definition drop_link (s : pstate) (c h : peer) : pstate :=
  PState (ps s) (delete (c, h) (up s)) (delete (h, c) (down s)).
Definition drop_link_of (s : pstate) (c : peer) (t : option peer) : pstate :=
  match t with Some h => drop_link s c h | None => s end.
(* repeat_except_for_client / send to each of [dsts] *)
Definition relay (s : pstate) (h : peer) (dsts : list peer) (m : pmsg) : pstate :=
  foldr (fun d s => push_down s h d m) s dsts.

(* ---------- gates -------------------------------------------------------------------------------- *)

Definition is_sconn (x : sstate) : bool := match x with SConnected => true | _ => false end.
Definition is_cconn (x : cstate) : bool := match x with CConnected => true | _ => false end.
Definition is_cconnecting (x : cstate) : bool := match x with CConnecting => true | _ => false end.
Definition is_cdisc (x : cstate) : bool := match x with CDisconnected => true | _ => false end.
Definition is_nil {A} (l : list A) : bool := match l with [] => true | _ => false end.

(* .run_if(resource_exists::<NetcodeServerTransport>).run_if(in_state(ServerState::Connected)) *)
Definition srv_gate (x : ppeer) : bool := hosting x && is_sconn (srv_state x).
(* .run_if(resource_exists::<NetcodeClientTransport>).run_if(in_state(ClientState::Connected)), towards h *)
Definition cli_gate (x : ppeer) (h : peer) : bool := bool_decide (client_of x = Some h) && is_cconn (cli_state x).

Definition without (c : peer) (l : list peer) : list peer := filter (fun d => d <> c) l.

(* ---------- one event ---------------------------------------------------------------------------- *)

Definition step (s : pstate) (e : pevent) : option pstate :=
  match e with
  | EPromote h c =>
      (* promote_to_host_event_reader: server.send_message(c, PromoteToHost) *)
      match ps s !! h, ps s !! c with
      | Some x, Some _ =>
          if srv_gate x && bool_decide (c ∈ clients x) then Some (push_down s h c Promote) else None
      | _, _ => None
      end
  | EDeliverDown h c =>
      match ps s !! h, ps s !! c with
      | Some _, Some y =>
          if cli_gate y h && link_up y then
            match chan (down s) h c with
            | [] => None
            | m :: rest =>
                let s1 := PState (ps s) (up s) (setchan (down s) h c rest) in
                match m with
                | Promote =>
                    (* deferred closure: insert_resource(create_server), flag := true.
                       (create_server on a peer that already hosts would panic on the UDP bind:
                       outside this abstraction, modelled as an overwrite) *)
                    Some (setp s1 c (y <| hosting := true |>
                                       <| srv_added := if hosting y then srv_added y else true |>
                                       <| flag := true |>))
                | NewHost h' =>
                    (* REPAIRED (S9/S8): client.disconnect(); cmd.remove_resource::<NetcodeClientTransport>();
                       cmd.insert_resource(RenetClient::new(..)); cmd.insert_resource(create_client(h')).
                       Removal and insertion happen in ONE flush: resource_removed never fires,
                       ClientState stays as it is; the new transport is paired with a FRESH RenetClient
                       (sticky := false, not connected).  No disconnect packet reaches the old host (the
                       old transport is dropped in the same flush): it learns by ETimeout.
                       b8e47f4: the flag host_promotion_in_progress is NO LONGER set here. *)
                    Some (drop_link (setp s1 c (y <| sticky := false |> <| link_up := false |>
                                                  <| client_of := Some h' |> <| cli_added := true |>)) c h)
                | ReqInit => Some s1
                end
            end
          else None
      | _, _ => None
      end
  | EDeliverUp c h =>
      match ps s !! c, ps s !! h with
      | Some _, Some x =>
          if srv_gate x && bool_decide (c ∈ clients x) then
            match chan (up s) c h with
            | [] => None
            | m :: rest =>
                let s1 := PState (ps s) (setchan (up s) c h rest) (down s) in
                match m with
                | Promote => Some s1      (* "server is already host, no operation to do" *)
                | ReqInit => Some s1      (* answers with a snapshot: not a role change *)
                | NewHost h' =>
                    (* server.disconnect(c); repeat_except_for_client(c, NewHost h'); deferred:
                       flag := true; b8e47f4: closing := true; REPAIRED: insert_resource(RenetClient::new(..)) -- a FRESH RenetClient
                       (sticky := false, not connected) --; insert_resource(create_client(h')) -- an
                       insertion over an existing resource is not "added" (bevy_ecs ResourceData::insert) *)
                    let others := without c (clients x) in
                    let x' := x <| clients := others |> <| srv_events := srv_events x ++ [(false, c)] |>
                                <| flag := true |> <| closing := true |> <| client_of := Some h' |>
                                <| cli_added := if client_of x then cli_added x else true |>
                                <| link_up := false |> <| sticky := false |> in
                    Some (relay (drop_link (drop_link_of (setp s1 h x') h (client_of x)) c h) h others (NewHost h'))
                end
            end
          else None
      | _, _ => None
      end
  | ESrvUp p =>
      (* server_connected.run_if(in_state(Disconnected)).run_if(resource_added::<NetcodeServerTransport>);
         the edge is consumed by the evaluation whatever the state is; a pending removal edge is
         older and is seen first.  OnEnter(Connected): server_promoted_is_ready
         .run_if(resource_exists::<NetcodeClientTransport>) sends NewHost(self) upstream. *)
      match ps s !! p with
      | Some x =>
          if srv_added x && negb (srv_removed x) then
            let x1 := x <| srv_added := false |> in
            match srv_state x with
            | SConnected => Some (setp s p x1)
            | SDisconnected =>
                let s1 := setp s p (x1 <| srv_state := SConnected |>) in
                Some (match client_of x with Some h => push_up s1 p h (NewHost p) | None => s1 end)
            end
          else None
      | None => None
      end
  | ESrvDown p =>
      match ps s !! p with
      | Some x => if srv_removed x then Some (setp s p (x <| srv_removed := false |> <| srv_state := SDisconnected |>))
                  else None
      | None => None
      end
  | ECliConnecting p =>
      (* set_client_to_connecting.run_if(resource_added::<NetcodeClientTransport>).run_if(in_state(Disconnected)).
         Guard: the ClientState changes at the next frame boundary at the earliest, and by then
         client_connected (same frame as the insertion's successor) has drained the ServerEvents. *)
      match ps s !! p with
      | Some x =>
          if cli_added x && negb (cli_removed x) && (negb (srv_gate x) || is_nil (srv_events x)) then
            Some (setp s p (x <| cli_added := false |>
                              <| cli_state := if is_cdisc (cli_state x) then CConnecting else cli_state x |>))
          else None
      | None => None
      end
  | EVerify p =>
      (* verify_client_connected: client.is_connected(); ClientState := Connected;
         flag ? flag := false : RequestInitialSync *)
      match ps s !! p with
      | Some x =>
          match client_of x with
          | Some h =>
              if is_cconnecting (cli_state x) && link_up x then
                if flag x then Some (setp s p (x <| cli_state := CConnected |> <| flag := false |>))
                else Some (push_up (setp s p (x <| cli_state := CConnected |>)) p h ReqInit)
              else None
          | None => None
          end
      | None => None
      end
  | ECliDown p =>
      match ps s !! p with
      | Some x => if cli_removed x then Some (setp s p (x <| cli_removed := false |> <| cli_state := CDisconnected |>))
                  else None
      | None => None
      end
  | ENotify h =>
      match ps s !! h with
      | Some x =>
          if srv_gate x then
            match srv_events x with
            | [] => None
            | (true, _) :: q =>
                (* ClientConnected: flag ? remove_resource::<NetcodeClientTransport>, flag := false *)
                if flag x then
                  Some (drop_link_of (setp s h (x <| srv_events := q |> <| flag := false |>
                                                  <| client_of := None |> <| link_up := false |>
                                                  <| cli_added := false |>
                                                  <| cli_removed := if client_of x then true else cli_removed x |>))
                                     h (client_of x))
                else Some (setp s h (x <| srv_events := q |>))
            | (false, _) :: q =>
                (* ClientDisconnected: connected_clients() == 0 && (flag || closing) ? disconnect_all,
                   remove_resource::<NetcodeServerTransport>, flag := false, closing := false
                   (b8e47f4: [closing] survives verify_client_connected, which consumes [flag] only).
                   The remaining events of this run of the system then find both false: nothing
                   more happens. *)
                if is_nil (clients x) && (flag x || closing x) then
                  Some (setp s h (x <| srv_events := [] |> <| hosting := false |> <| srv_added := false |>
                                    <| srv_removed := true |> <| flag := false |> <| closing := false |>))
                else Some (setp s h (x <| srv_events := q |>))
            end
          else None
      | None => None
      end
  | EConnect c =>
      (* needs a live RenetClient (not sticky) and a server transport at the target *)
      match ps s !! c with
      | Some y =>
          match client_of y with
          | Some h =>
              match ps s !! h with
              | Some x =>
                  if negb (sticky y) && negb (link_up y) && hosting x && negb (bool_decide (c ∈ clients x))
                     && negb (bool_decide (c = h)) then
                    Some (setp (setp s c (y <| link_up := true |>)) h
                               (x <| clients := clients x ++ [c] |> <| srv_events := srv_events x ++ [(true, c)] |>))
                  else None
              | None => None
              end
          | None => None
          end
      | None => None
      end
  | ELinkDown c =>
      (* kick packet or netcode time-out: RenetClient::disconnect_due_to_transport: absorbing *)
      match ps s !! c with
      | Some y =>
          match client_of y with
          | Some h =>
              match ps s !! h with
              | Some x =>
                  if link_up y && (negb (hosting x) || negb (bool_decide (c ∈ clients x))) then
                    Some (setp s c (y <| link_up := false |> <| sticky := true |>))
                  else None
              | None => None
              end
          | None => None
          end
      | None => None
      end
  | ETimeout h c =>
      match ps s !! h, ps s !! c with
      | Some x, Some y =>
          if hosting x && bool_decide (c ∈ clients x) && negb (bool_decide (client_of y = Some h) && link_up y) then
            Some (drop_link (setp s h (x <| clients := without c (clients x) |>
                                         <| srv_events := srv_events x ++ [(false, c)] |>)) c h)
          else None
      | _, _ => None
      end
  end.

Fixpoint run (s : pstate) (tr : list pevent) : option pstate :=
  match tr with
  | [] => Some s
  | e :: tr => match step s e with Some s' => run s' tr | None => None end
  end.

(* ---------- initial sessions -------------------------------------------------------------------- *)

Definition host : peer := 0%N.
Definition client_ids (n : nat) : list peer := N.of_nat <$> seq 1 n.

Definition idle_host (cs : list peer) : ppeer :=
  PPeer true SConnected false false cs [] None CDisconnected false false false false false false.
Definition idle_client (h : peer) : ppeer :=
  PPeer false SDisconnected false false [] [] (Some h) CConnected false false true false false false.

(* host 0 with the connected clients 1..n, everybody in its Connected state, nothing in flight *)
Definition session (n : nat) : pstate :=
  PState (list_to_map ((host, idle_host (client_ids n)) :: ((fun c => (c, idle_client host)) <$> client_ids n))) ∅ ∅.

(* ---------- stability ---------------------------------------------------------------------------- *)

Definition peers_of (s : pstate) : list peer := (map_to_list (ps s)).*1.

Definition events1 (p : peer) : list pevent :=
  [ESrvUp p; ESrvDown p; ECliConnecting p; EVerify p; ECliDown p; ENotify p; EConnect p; ELinkDown p].
Definition events2 (a b : peer) : list pevent := [EDeliverDown a b; EDeliverUp a b; ETimeout a b].
(* every internal event over the peers of s *)
Definition events_of (s : pstate) : list pevent :=
  let P := peers_of s in
  (P ≫= events1) ++ (P ≫= fun a => P ≫= events2 a).

(* no internal event is enabled: the session will not move again unless the application promotes *)
Definition stable (s : pstate) : Prop := forall e, internal e = true -> step s e = None.
Definition stableb (s : pstate) : bool := forallb (fun e => match step s e with None => true | Some _ => false end) (events_of s).
Definition enabled (s : pstate) : list pevent := filter (fun e => is_Some (step s e)) (events_of s).

(* ---------- observations ------------------------------------------------------------------------- *)

Definition getp (s : pstate) (p : peer) : option ppeer := ps s !! p.
Definition hosts (s : pstate) : list peer := (filter (fun kx => hosting kx.2 = true) (map_to_list (ps s))).*1.
Definition no_traffic (s : pstate) : Prop := up s = ∅ /\ down s = ∅.

(* role of a peer, for readable examples: (hosting, ServerState, clients, target, ClientState, link, sticky, flag) *)
Definition role (x : ppeer) := (hosting x, srv_state x, clients x, client_of x, cli_state x, link_up x, sticky x, flag x).
Definition roles (s : pstate) : list (peer * _) := prod_map id role <$> map_to_list (ps s).

(* a peer that is nothing but the host of exactly the clients cs *)
Definition pure_host (x : ppeer) (cs : list peer) : Prop :=
  hosting x = true /\ srv_state x = SConnected /\ srv_added x = false /\ srv_removed x = false /\
  clients x = cs /\ srv_events x = [] /\
  client_of x = None /\ cli_state x = CDisconnected /\ cli_added x = false /\ cli_removed x = false /\
  link_up x = false /\ flag x = false /\ closing x = false.
(* a peer that is nothing but a connected client of h, with a RenetClient that is alive *)
Definition pure_client (x : ppeer) (h : peer) : Prop :=
  hosting x = false /\ srv_state x = SDisconnected /\ srv_added x = false /\ srv_removed x = false /\
  clients x = [] /\ srv_events x = [] /\
  client_of x = Some h /\ cli_state x = CConnected /\ cli_added x = false /\ cli_removed x = false /\
  link_up x = true /\ sticky x = false /\ flag x = false /\ closing x = false.
Global Instance pure_host_dec x cs : Decision (pure_host x cs). Proof. unfold pure_host. apply _. Defined.
Global Instance pure_client_dec x h : Decision (pure_client x h). Proof. unfold pure_client. apply _. Defined.

(* two-peer session in which [h] hosts and [c] is its connected client, nothing pending anywhere *)
Definition handed_over (s : pstate) (h c : peer) : Prop :=
  (exists x y, ps s = {[ h := x; c := y ]} /\ h <> c /\ pure_host x [c] /\ pure_client y h) /\ no_traffic s.
Definition handed_overb (s : pstate) (h c : peer) : bool :=
  match ps s !! h, ps s !! c with
  | Some x, Some y =>
      bool_decide (ps s = {[ h := x; c := y ]}) && bool_decide (h <> c) && bool_decide (pure_host x [c])
      && bool_decide (pure_client y h) && bool_decide (up s = ∅) && bool_decide (down s = ∅)
  | _, _ => false
  end.

(* ClientState Connected, a client transport, a dead RenetClient, no server: such a peer can never
   again handle a NewHost (needs a live link or a server), so its RenetClient is never replaced *)
Definition stranded (x : ppeer) : Prop :=
  hosting x = false /\ sticky x = true /\ link_up x = false /\ cli_state x = CConnected /\
  is_Some (client_of x) /\ cli_removed x = false.
Global Instance stranded_dec x : Decision (stranded x). Proof. unfold stranded. apply _. Defined.

(* ---------- termination measure ------------------------------------------------------------------
   Every pending thing has a weight larger than the sum of what handling it can create.
   n = number of peers (a NewHost received by a host is relayed to fewer than n clients).
   After the repair a NewHost handler makes a FRESH RenetClient (weight 7: it will connect), so a
   NewHost weighs 10 downstream and 10 + 10 n upstream. *)
Definition w_link (x : ppeer) : nat :=
  match client_of x with
  | None => 0
  | Some _ => if link_up x then 1 else if sticky x then 0 else 7
  end.
Definition w_peer (n : nat) (x : ppeer) : nat :=
  (if srv_added x then 11 + 10 * n else 0) + (if srv_removed x then 1 else 0)
  + 3 * length (clients x) + 2 * length (srv_events x)
  + w_link x + (if cli_added x then 3 else 0) + (if is_cconnecting (cli_state x) then 2 else 0)
  + (if cli_removed x then 1 else 0).
Definition w_up (n : nat) (m : pmsg) : nat := match m with NewHost _ => 10 + 10 * n | _ => 1 end.
Definition w_down (n : nat) (m : pmsg) : nat := match m with Promote => 12 + 10 * n | NewHost _ => 10 | ReqInit => 1 end.
Definition sum_list (l : list nat) : nat := foldr plus 0 l.
Definition measure (s : pstate) : nat :=
  let n := length (map_to_list (ps s)) in
  sum_list ((fun kx => w_peer n kx.2) <$> map_to_list (ps s))
  + sum_list ((fun kl => sum_list (w_up n <$> kl.2)) <$> map_to_list (up s))
  + sum_list ((fun kl => sum_list (w_down n <$> kl.2)) <$> map_to_list (down s)).

(* ---------- exhaustive exploration (used by reflection in PromotionProofs.v) ---------------------- *)

Definition succs (s : pstate) : list pstate := omap (step s) (events_of s).

Definition inb (s : pstate) (R : list pstate) : bool := bool_decide (s ∈ R).

(* depth-first closure of [todo] under internal events; None = out of fuel *)
Fixpoint explore (fuel : nat) (todo visited : list pstate) : option (list pstate) :=
  match fuel with
  | O => None
  | S fuel =>
      match todo with
      | [] => Some visited
      | s :: todo => if inb s visited then explore fuel todo visited
                     else explore fuel (succs s ++ todo) (s :: visited)
      end
  end.

(* R is closed under internal events, every such event decreases the measure, and every stable
   state of R satisfies good *)
Definition checkb (good : pstate -> bool) (R : list pstate) : bool :=
  forallb (fun s =>
    forallb (fun e => match step s e with
                      | None => true
                      | Some s' => inb s' R && (measure s' <? measure s)
                      end) (events_of s)
    && (negb (stableb s) || good s)) R.

(* ---------- the same with a hash table (3 clients: 26425 states; the list version is quadratic) -----
   [hkey] is an arbitrary function: soundness needs nothing about it (a bucket only ever holds
   states that were put into it), a good spread only makes it fast. *)
Definition b2n (b : bool) : N := if b then 1%N else 0%N.
Definition hpeer (x : ppeer) : N :=
  let bits := [hosting x; is_sconn (srv_state x); srv_added x; srv_removed x; is_cconn (cli_state x);
               is_cconnecting (cli_state x); cli_added x; cli_removed x; link_up x; sticky x; flag x; closing x] in
  let h := foldl (fun a b => 2 * a + b2n b)%N 1%N bits in
  let h := (8 * h + match client_of x with None => 0 | Some t => 1 + t end)%N in
  let h := foldl (fun a c => 8 * a + c + 1)%N h (clients x) in
  foldl (fun a (e : bool * peer) => 16 * a + 2 * e.2 + b2n e.1 + 1)%N h (srv_events x).
Definition hmsg (m : pmsg) : N := match m with Promote => 1%N | NewHost p => (3 + p)%N | ReqInit => 2%N end.
Definition hchan (M : gmap (peer * peer) (list pmsg)) : N :=
  foldl (fun a (kl : peer * peer * list pmsg) =>
           foldl (fun a m => 8 * a + hmsg m)%N (64 * a + 8 * kl.1.1 + kl.1.2 + 1)%N kl.2) 1%N (map_to_list M).
Definition hkey (s : pstate) : N :=
  (foldl (fun a (kx : peer * ppeer) => a * 1048576 + hpeer kx.2 + a / 4096)%N 1%N (map_to_list (ps s)) * 65536
   + hchan (up s) * 256 + hchan (down s))%N.

Notation tbl := (gmap N (list pstate)) (only parsing).
Definition tmem (s : pstate) (T : tbl) : bool := bool_decide (s ∈ default [] (T !! hkey s)).
Definition tadd (s : pstate) (T : tbl) : tbl := <[hkey s := s :: default [] (T !! hkey s)]> T.

Fixpoint explore_h (fuel : nat) (todo : list pstate) (T : tbl) (acc : list pstate) : option (list pstate) :=
  match fuel with
  | O => None
  | S fuel =>
      match todo with
      | [] => Some acc
      | s :: todo => if tmem s T then explore_h fuel todo T acc
                     else explore_h fuel (succs s ++ todo) (tadd s T) (s :: acc)
      end
  end.
Definition checkb_h (good : pstate -> bool) (R : list pstate) : bool :=
  let T := foldr tadd ∅ R in
  forallb (fun s =>
    forallb (fun e => match step s e with
                      | None => true
                      | Some s' => tmem s' T && (measure s' <? measure s)
                      end) (events_of s)
    && (negb (stableb s) || good s)) R.

(* ---------- runs of the protocol after one promotion request -------------------------------------- *)

(* the application of the host asks for the promotion of k *)
Definition promoted (n : nat) (k : peer) : pstate := default (session n) (step (session n) (EPromote host k)).
Definition promote_in (s : pstate) (h k : peer) : pstate := default s (step s (EPromote h k)).
Definition all_internal (tr : list pevent) : Prop := Forall (fun e => internal e = true) tr.

Definition epeers (e : pevent) : list peer :=
  match e with
  | EPromote a b | EDeliverDown a b | EDeliverUp a b | ETimeout a b => [a; b]
  | ESrvUp p | ESrvDown p | ECliConnecting p | EVerify p | ECliDown p | ENotify p | EConnect p | ELinkDown p => [p]
  end.

(* the goal of a promotion of k: one host, everybody else its connected client *)
Definition session_ok (s : pstate) (k : peer) : Prop :=
  hosts s = [k] /\
  map_Forall (fun p x => p <> k ->
    client_of x = Some k /\ link_up x = true /\ cli_state x = CConnected /\ flag x = false /\
    hosting x = false /\ srv_state x = SDisconnected) (ps s).
Global Instance session_ok_dec s k : Decision (session_ok s k).
Proof. unfold session_ok. apply _. Defined.
(* full statement of C07 for n clients (PromotionProofs: C07_single_client, C07_two_clients,
   C07_three_clients) *)
Definition C07_statement (n : nat) (k : peer) : Prop :=
  forall tr s, all_internal tr -> run (promoted n k) tr = Some s -> stable s -> session_ok s k.

(* full statement for a chain of two promotions in a two-peer session (true after the repair:
   PromotionProofs.C07_chain) *)
Definition C07_chain_statement : Prop :=
  forall tr F, all_internal tr -> run (promoted 1 1%N) tr = Some F -> stable F ->
  forall tr' s, all_internal tr' -> run (promote_in F 1%N 0%N) tr' = Some s -> stable s -> handed_over s 0%N 1%N.

(* what a promotion of k by host 0 ends in, in a session of any size: nothing in flight; k is nothing
   but a host and every other peer is in its client table; every other peer -- the old host
   included -- is nothing but a connected client of k with a live RenetClient (no server, no flag) *)
Definition promotion_outcome (s : pstate) (k : peer) : Prop :=
  up s = ∅ /\ down s = ∅ /\
  match ps s !! k with
  | Some xk => pure_host xk (clients xk) /\ map_Forall (fun p _ => p <> k -> p ∈ clients xk) (ps s)
  | None => False
  end /\
  map_Forall (fun p x => p <> k -> pure_client x k) (ps s).
Global Instance promotion_outcome_dec s k : Decision (promotion_outcome s k).
Proof. unfold promotion_outcome. destruct (ps s !! k); apply _. Defined.

(* a field of a peer, with a default for peers that do not exist *)
Definition pget {A} (f : ppeer -> A) (d : A) (s : pstate) (p : peer) : A :=
  match ps s !! p with Some x => f x | None => d end.

(* ---------- invariants (proved in PromotionProofs.v for sessions of any size) -------------------- *)

(* holds in every state of every run, application events included *)
Definition wf_peer (x : ppeer) : Prop :=
  (hosting x = false -> clients x = [] /\ srv_events x = [] /\ srv_added x = false) /\
  (client_of x = None -> link_up x = false /\ cli_added x = false) /\
  (sticky x = true -> link_up x = false) /\
  (cli_state x <> CDisconnected -> is_Some (client_of x) \/ cli_removed x = true) /\
  (srv_state x = SConnected -> hosting x = true \/ srv_removed x = true) /\
  NoDup (clients x) /\
  (closing x = true -> hosting x = true).
Definition roles_inv (s : pstate) : Prop :=
  (forall p x, ps s !! p = Some x -> wf_peer x) /\
  (forall h x c, ps s !! h = Some x -> c ∈ clients x -> c <> h /\ is_Some (ps s !! c)) /\
  (forall c y h, ps s !! c = Some y -> link_up y = true -> client_of y = Some h -> c <> h /\ is_Some (ps s !! h)).

(* the window of a freshly promoted host: it is not closing (it has not been told to hand over), and
   while its flag is set it has either seen nobody yet, or the oldest unread ServerEvent is a
   ClientConnected (which will clear the flag before any ClientDisconnected can close the server) *)
Definition window (x : ppeer) : Prop :=
  closing x = false /\
  (flag x = true -> (srv_events x = [] /\ clients x = []) \/ (exists c q, srv_events x = (true, c) :: q)).

(* p handles a promotion message in event e *)
Definition handles_promo_msg (s : pstate) (e : pevent) (p : peer) : Prop :=
  (exists c q, e = EDeliverUp c p /\ head (chan (up s) c p) = Some (NewHost q)) \/
  (exists h, e = EDeliverDown h p /\ head (chan (down s) h p) <> Some ReqInit).
Fixpoint quiet_for (p : peer) (s : pstate) (tr : list pevent) : Prop :=
  match tr with
  | [] => True
  | e :: tr => ~ handles_promo_msg s e p /\ match step s e with Some s' => quiet_for p s' tr | None => True end
  end.

(* --- one promotion (of k, by host 0) in a session of any size: what holds at every point ------ *)

(* c is still an ordinary, connected client of the old host *)
Definition untouched (s : pstate) (c : peer) (x : ppeer) : Prop :=
  hosting x = false /\ client_of x = Some host /\ link_up x = true /\ cli_state x = CConnected /\
  cli_removed x = false /\
  exists x0, ps s !! host = Some x0 /\ hosting x0 = true /\ c ∈ clients x0.

(* c has obeyed NewHost(k): a client transport towards k with a FRESH RenetClient that is alive and
   stays alive (k hosts, and a linked c is in k's client table: no kick, no time-out); ClientState
   never left Connected *)
Definition moved (s : pstate) (k c : peer) (x : ppeer) : Prop :=
  hosting x = false /\ client_of x = Some k /\ cli_state x = CConnected /\ cli_removed x = false /\
  sticky x = false /\
  pget hosting false s k = true /\
  (link_up x = true -> c ∈ pget clients [] s k).

Definition spi (k : peer) (s : pstate) : Prop :=
  k <> host /\
  (* at most two peers host: the old host and the promoted peer *)
  (forall p x, ps s !! p = Some x -> hosting x = true -> p = host \/ p = k) /\
  (forall p x, ps s !! p = Some x -> srv_added x = true -> p = k) /\
  (* the only client transports: k -> 0 (old), 0 -> k (new), others -> 0 or k *)
  (forall x h, ps s !! k = Some x -> client_of x = Some h -> h = host) /\
  (forall x h, ps s !! host = Some x -> client_of x = Some h -> h = k) /\
  (* traffic: only the old host sends downstream: NewHost(k) to the other clients (k hosts by then),
     and the one Promote to k, which is in flight exactly as long as k has no server transport *)
  (forall h c m, m ∈ chan (down s) h c ->
     h = host /\ ((m = NewHost k /\ c <> k /\ c <> host /\ pget hosting false s k = true) \/
                  (m = Promote /\ c = k /\ chan (down s) host k = [Promote] /\ pget hosting true s k = false))) /\
  (forall c h m, m ∈ chan (up s) c h ->
     m = ReqInit \/ (m = NewHost k /\ c = k /\ h = host /\ pget hosting false s k = true)) /\
  (* a client other than k is either still an ordinary client of 0, or has moved over to k *)
  (forall c x, ps s !! c = Some x -> c <> host -> c <> k -> untouched s c x \/ moved s k c x) /\
  (* the promoted peer: window while its flag is set *)
  (forall x, ps s !! k = Some x -> hosting x = true -> window x) /\
  (* the flags of the other clients are never set *)
  (forall c x, ps s !! c = Some x -> c <> host -> c <> k -> flag x = false /\ closing x = false) /\
  (* the old host: as long as it has its server it either has not yet handled NewHost(k) (no client
     transport, flag not set), or it is closing -- verify_client_connected cannot undo that *)
  (forall x, ps s !! host = Some x -> hosting x = true ->
     closing x = true \/ (closing x = false /\ client_of x = None /\ flag x = false)).

(* the hand-over has not yet reached the old host: the Promote is in flight, or k has not yet
   announced its server, or the announcement NewHost(k) is in flight.  Once this is over it is over
   for good, and the old host handles no promotion message any more. *)
Definition handover_pending (k : peer) (s : pstate) : Prop :=
  Promote ∈ chan (down s) host k \/ pget srv_added false s k = true \/ NewHost k ∈ chan (up s) k host.

(* ---------- example runs ---------------------------------------------------------------------------- *)
Local Open Scope N_scope.

(* one client: the hand-over as the code performs it *)
Definition ex_one_client : list pevent :=
  [EPromote 0 1; EDeliverDown 0 1; ESrvUp 1; EDeliverUp 1 0; ENotify 0; ESrvDown 0; ECliConnecting 0;
   EConnect 0; ENotify 1; ECliDown 1; EVerify 0; EDeliverUp 0 1].
Example ex_one_client_runs :
  (fun s => (roles s, stableb s, handed_overb s 1 0)) <$> run (session 1) ex_one_client
  = Some ([(0, (false, SDisconnected, [], Some 1, CConnected, true, false, false));
           (1, (true, SConnected, [0], None, CDisconnected, false, false, false))], true, true).
Proof. vm_compute. reflexivity. Qed.

(* the same with the kick notice reaching peer 1's RenetClient before its transport is removed
   (what happens on a real network): the hand-over succeeds, peer 1's RenetClient is dead *)
Definition ex_one_client_kicked : list pevent :=
  [EPromote 0 1; EDeliverDown 0 1; ESrvUp 1; EDeliverUp 1 0; ELinkDown 1; ENotify 0; ESrvDown 0; ECliConnecting 0;
   EConnect 0; ENotify 1; ECliDown 1; EVerify 0; EDeliverUp 0 1].
Example ex_one_client_kicked_runs :
  (fun s => (roles s, stableb s)) <$> run (session 1) ex_one_client_kicked
  = Some ([(0, (false, SDisconnected, [], Some 1, CConnected, true, false, false));
           (1, (true, SConnected, [0], None, CDisconnected, false, true, false))], true).
Proof. vm_compute. reflexivity. Qed.

(* two clients, as the real code runs it ("PEERS 3; promote 1"): peer 2 obeys NewHost(1) with a fresh
   RenetClient and joins 1; the old host 0 joins 1 too, and verify_client_connected consumes its flag
   while client 2 is still in its table (no disconnect packet: 15 s time-out) -- [closing] stays *)
Definition ex_two_clients : list pevent :=
  [EPromote 0 1; EDeliverDown 0 1; ESrvUp 1; EDeliverUp 1 0; ELinkDown 1; ENotify 0; ECliConnecting 0;
   EDeliverDown 0 2; ECliConnecting 2;
   EConnect 0; ENotify 1; ECliDown 1; EVerify 0; EConnect 2; ENotify 1].
(* before the time-out: the old host still "hosts" client 2, flag consumed, closing set *)
Example ex_two_clients_runs :
  (fun s => (roles s, pget flag true s 0, pget closing false s 0, enabled s, hosts s)) <$> run (session 2) ex_two_clients
  = Some ([(0, (true, SConnected, [2], Some 1, CConnected, true, false, false));
           (1, (true, SConnected, [0; 2], None, CDisconnected, false, true, false));
           (2, (false, SDisconnected, [], Some 1, CConnected, true, false, false))],
          false, true, [ETimeout 0 2], [0; 1]).
Proof. vm_compute. reflexivity. Qed.
(* after it: the ClientDisconnected of client 2 finds connected_clients() == 0 && closing: the old host
   closes its server; one host, everybody its connected client *)
Example ex_two_clients_end :
  (fun s => (roles s, stableb s, hosts s, bool_decide (session_ok s 1)))
    <$> run (session 2) (ex_two_clients ++ [ETimeout 0 2; ENotify 0; ESrvDown 0])
  = Some ([(0, (false, SDisconnected, [], Some 1, CConnected, true, false, false));
           (1, (true, SConnected, [0; 2], None, CDisconnected, false, true, false));
           (2, (false, SDisconnected, [], Some 1, CConnected, true, false, false))], true, [1], true).
Proof. vm_compute. reflexivity. Qed.

(* the other order (the old host notices the departure of client 2 before it has itself connected to
   the new host: the flag is still set, the server is closed at once, verify_client_connected then
   asks for an initial sync) *)
Definition ex_two_clients_closed : list pevent :=
  [EPromote 0 1; EDeliverDown 0 1; ESrvUp 1; EDeliverUp 1 0; ELinkDown 1; ENotify 0; ECliConnecting 0;
   EDeliverDown 0 2; ECliConnecting 2; EConnect 2; ENotify 1; ECliDown 1; ETimeout 0 2; ENotify 0; ESrvDown 0;
   EConnect 0; ENotify 1; EVerify 0; EDeliverUp 0 1].
Example ex_two_clients_closed_runs :
  (fun s => (roles s, stableb s, hosts s, bool_decide (session_ok s 1))) <$> run (session 2) ex_two_clients_closed
  = Some ([(0, (false, SDisconnected, [], Some 1, CConnected, true, false, false));
           (1, (true, SConnected, [2; 0], None, CDisconnected, false, true, false));
           (2, (false, SDisconnected, [], Some 1, CConnected, true, false, false))], true, [1], true).
Proof. vm_compute. reflexivity. Qed.

(* a chain of promotions in a two-peer session ("PEERS 2; promote 1; ...; promote 0; ...; promote 1"):
   the kick kills the RenetClient of the promoted peer each time, the next NewHost replaces it *)
Definition ex_chain : list pevent :=
  ex_one_client_kicked ++
  [EPromote 1 0; EDeliverDown 1 0; ESrvUp 0; EDeliverUp 0 1; ELinkDown 0; ENotify 1; ESrvDown 1; ECliConnecting 1;
   EConnect 1; ENotify 0; ECliDown 0; EVerify 1; EDeliverUp 1 0].
Example ex_chain_runs :
  (fun s => (roles s, stableb s, handed_overb s 0 1)) <$> run (session 1) ex_chain
  = Some ([(0, (true, SConnected, [1], None, CDisconnected, false, true, false));
           (1, (false, SDisconnected, [], Some 0, CConnected, true, false, false))], true, true).
Proof. vm_compute. reflexivity. Qed.
Definition ex_chain3 : list pevent :=
  ex_chain ++
  [EPromote 0 1; EDeliverDown 0 1; ESrvUp 1; EDeliverUp 1 0; ELinkDown 1; ENotify 0; ESrvDown 0; ECliConnecting 0;
   EConnect 0; ENotify 1; ECliDown 1; EVerify 0; EDeliverUp 0 1].
Example ex_chain3_runs :
  (fun s => (roles s, stableb s, handed_overb s 1 0)) <$> run (session 1) ex_chain3
  = Some ([(0, (false, SDisconnected, [], Some 1, CConnected, true, false, false));
           (1, (true, SConnected, [0], None, CDisconnected, false, true, false))], true, true).
Proof. vm_compute. reflexivity. Qed.

(* NOT covered by the repairs: the application asks for TWO promotions at once (1 and 2).  Both start a
   server and announce it; the old host obeys NewHost(1) (kicks 1, turns towards 1), then NewHost(2)
   (kicks 2, turns towards 2 with yet another fresh RenetClient), closes its server and ends as a
   client of 2.  Peer 1 has been kicked (RenetClient dead), nobody ever joins it, so its flag, its
   stale client transport and its dead RenetClient stay for ever: a second server hosting nobody,
   outside the session.  (Unchanged by b8e47f4.) *)
Definition ex_concurrent_promotions : list pevent :=
  [EPromote 0 1; EPromote 0 2;
   EDeliverDown 0 1; ESrvUp 1; EDeliverDown 0 2; ESrvUp 2; EDeliverUp 1 0; ENotify 0; ECliConnecting 0;
   ELinkDown 1; EDeliverUp 2 0; ENotify 0; ESrvDown 0; EConnect 0; EVerify 0; ENotify 2; ECliDown 2;
   EDeliverUp 0 2].
Example ex_concurrent_promotions_runs :
  (fun s => (roles s, stableb s, hosts s)) <$> run (session 2) ex_concurrent_promotions
  = Some ([(0, (false, SDisconnected, [], Some 2, CConnected, true, false, false));
           (1, (true, SConnected, [], Some 0, CConnected, false, true, true));
           (2, (true, SConnected, [0], None, CDisconnected, false, false, false))], true, [1; 2]).
Proof. vm_compute. reflexivity. Qed.
